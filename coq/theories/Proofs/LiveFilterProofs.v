(* Proofs/LiveFilterProofs.v — C18: the live-tail filter delivers exactly the
   rows at or after the merge point that satisfy the WHERE clause; a
   topic-filtered subscription delivers exactly the matching batches, in send
   order, each once. *)
From Coq Require Import List ZArith NArith Bool Lia.
From CS Require Import Base.Prelude Model.LiveFilter.
Import ListNotations.
Open Scope Z_scope.

(* ------------------------------------------------------------------ *)
(* Generic list facts                                                   *)
(* ------------------------------------------------------------------ *)
Lemma list_ext_seq_from : forall (A : Type) (g : nat -> A) (l : list A) (n s : nat),
  length l = n ->
  (forall i, (i < n)%nat -> nth_error l i = Some (g (s + i)%nat)) ->
  l = map g (seq s n).
Proof.
  intros A g l. induction l as [| x l IH]; intros n s Hlen Hnth.
  - cbn [length] in Hlen. subst n. reflexivity.
  - cbn [length] in Hlen. destruct n as [| n]; [discriminate |].
    cbn [seq map]. f_equal.
    + assert (H0 : (0 < S n)%nat) by lia. specialize (Hnth 0%nat H0). cbn [nth_error] in Hnth.
      rewrite Nat.add_0_r in Hnth. congruence.
    + apply IH; [lia |]. intros i Hi.
      assert (H1 : (S i < S n)%nat) by lia. specialize (Hnth (S i) H1). cbn [nth_error] in Hnth.
      rewrite Hnth. f_equal. f_equal. lia.
Qed.

Lemma list_ext_seq : forall (A : Type) (g : nat -> A) (l : list A) (n : nat),
  length l = n ->
  (forall i, (i < n)%nat -> nth_error l i = Some (g i)) ->
  l = map g (seq 0 n).
Proof.
  intros A g l n Hlen Hnth. apply list_ext_seq_from; [exact Hlen |].
  intros i Hi. rewrite Nat.add_0_l. apply Hnth. exact Hi.
Qed.

Lemma nth_error_repeat : forall (A : Type) (x : A) (n i : nat),
  (i < n)%nat -> nth_error (repeat x n) i = Some x.
Proof.
  intros A x n. induction n as [| n IH]; intros i Hi; [lia |].
  destruct i as [| i]; [reflexivity |]. cbn [repeat nth_error]. apply IH. lia.
Qed.

(* ------------------------------------------------------------------ *)
(* Masks, pointwise                                                     *)
(* ------------------------------------------------------------------ *)
(* mask' is mask with position i additionally required to satisfy g i *)
Definition pw (g : nat -> bool) (mask mask' : list bool) : Prop :=
  length mask' = length mask /\
  forall i m, nth_error mask i = Some m -> nth_error mask' i = Some (m && g i)%bool.

Definition at_row {A : Type} (f : A -> bool) (vals : list A) (i : nat) : bool :=
  match nth_error vals i with Some x => f x | None => true end.

Lemma mask_upd_length : forall (A : Type) (f : A -> bool) (mask : list bool) (vals : list A),
  length (mask_upd f mask vals) = length mask.
Proof.
  intros A f mask. induction mask as [| m ms IH]; intros vals.
  - destruct vals; reflexivity.
  - destruct vals as [| x xs]; [reflexivity |]. cbn [mask_upd length]. rewrite IH. reflexivity.
Qed.

Lemma mask_upd_pw : forall (A : Type) (f : A -> bool) (mask : list bool) (vals : list A),
  pw (at_row f vals) mask (mask_upd f mask vals).
Proof.
  intros A f mask vals. split; [apply mask_upd_length |].
  revert vals. induction mask as [| m ms IH]; intros vals i m0 Hm.
  - destruct i; discriminate.
  - destruct vals as [| x xs].
    + cbn [mask_upd]. rewrite Hm. unfold at_row.
      destruct i; cbn [nth_error]; rewrite andb_true_r; reflexivity.
    + destruct i as [| i].
      * cbn [nth_error] in Hm. injection Hm as <-. cbn [mask_upd nth_error]. unfold at_row. cbn [nth_error].
        destruct m; reflexivity.
      * cbn [nth_error] in Hm. cbn [mask_upd nth_error].
        rewrite (IH xs i m0 Hm). unfold at_row. cbn [nth_error]. reflexivity.
Qed.

Lemma pw_id : forall mask, pw (fun _ => true) mask mask.
Proof.
  intro mask. split; [reflexivity |]. intros i m H. rewrite H, andb_true_r. reflexivity.
Qed.

Lemma pw_ext : forall g h mask mask',
  (forall i, (i < length mask)%nat -> g i = h i) -> pw g mask mask' -> pw h mask mask'.
Proof.
  intros g h mask mask' Hgh [Hl Hn]. split; [exact Hl |].
  intros i m Hm. rewrite (Hn i m Hm).
  rewrite Hgh; [reflexivity |]. apply nth_error_Some. congruence.
Qed.

Lemma pw_trans : forall g h m0 m1 m2,
  pw g m0 m1 -> pw h m1 m2 -> pw (fun i => g i && h i)%bool m0 m2.
Proof.
  intros g h m0 m1 m2 [L1 N1] [L2 N2]. split; [congruence |].
  intros i m Hm. rewrite (N2 i _ (N1 i m Hm)). rewrite andb_assoc. reflexivity.
Qed.

Lemma zip_or_length : forall a b, length a = length b -> length (zip_or a b) = length a.
Proof.
  induction a as [| x a IH]; intros b H; destruct b as [| y b]; try discriminate; [reflexivity |].
  cbn [zip_or length]. rewrite IH; [reflexivity |]. cbn [length] in H. lia.
Qed.

Lemma zip_or_nth : forall a b i x y,
  nth_error a i = Some x -> nth_error b i = Some y -> nth_error (zip_or a b) i = Some (x || y)%bool.
Proof.
  induction a as [| x0 a IH]; intros b i x y Ha Hb.
  - destruct i; discriminate.
  - destruct b as [| y0 b]; [destruct i; discriminate |].
    destruct i as [| i]; cbn [nth_error zip_or] in *.
    + congruence.
    + eapply IH; eassumption.
Qed.

Lemma pw_or : forall g h m0 m1 m2,
  pw g m0 m1 -> pw h m0 m2 -> pw (fun i => g i || h i)%bool m0 (zip_or m1 m2).
Proof.
  intros g h m0 m1 m2 [L1 N1] [L2 N2]. split.
  - rewrite zip_or_length; congruence.
  - intros i m Hm. rewrite (zip_or_nth _ _ _ _ _ (N1 i m Hm) (N2 i m Hm)).
    destruct m, (g i), (h i); reflexivity.
Qed.

(* ------------------------------------------------------------------ *)
(* Row-level reading of predicates as apply evaluates them              *)
(* ------------------------------------------------------------------ *)
Definition leaf_row (op : cop) (c : column) (v : pvalue) (i : nat) : bool :=
  match v with
  | PStr e =>
      match c with
      | CStr vals => at_row (on_some (fun s => test_cmp op (str_cmp s e))) vals i
      | _ => true
      end
  | PInt e =>
      match c with
      | CInt vals => at_row (on_some (fun a => test_cmp op (Z.compare a e))) vals i
      | CFloat vals => at_row (on_some (fun x => test_cmp op (f64_total_cmp x (z2f e)))) vals i
      | _ => true
      end
  | PFloat e =>
      match c with
      | CFloat vals => at_row (on_some (fun x => test_cmp op (f64_total_cmp x e))) vals i
      | CInt vals => at_row (on_some (fun a => test_cmp op (f64_total_cmp (z2f a) e))) vals i
      | _ => true
      end
  | _ => true
  end.

Fixpoint pred_row (p : cpred) (cols : list (str * column)) (i : nat) : bool :=
  match p with
  | PCmp op col v => match find_col col cols with Some c => leaf_row op c v i | None => true end
  | PAnd l r => pred_row l cols i && pred_row r cols i
  | POr l r => pred_row l cols i || pred_row r cols i
  end.

Lemma apply_comparison_pw : forall op c v mask,
  pw (leaf_row op c v) mask (apply_comparison op c v mask).
Proof.
  intros op c v mask.
  destruct v as [e | e | e | e |]; destruct c as [vals | vals | vals | vals | vals];
    cbn [apply_comparison leaf_row]; try apply pw_id; apply mask_upd_pw.
Qed.

Lemma apply_pred_pw : forall p cols mask, pw (pred_row p cols) mask (apply_pred p cols mask).
Proof.
  induction p as [op col v | l IHl r IHr | l IHl r IHr]; intros cols mask.
  - cbn [apply_pred pred_row]. destruct (find_col col cols) as [c |].
    + apply apply_comparison_pw.
    + apply pw_id.
  - cbn [apply_pred pred_row]. eapply pw_trans; [apply IHl | apply IHr].
  - cbn [apply_pred pred_row]. apply pw_or; [apply IHl | apply IHr].
Qed.

Lemma fold_pred_pw : forall (f : qfilter) cols mask,
  pw (fun i => forallb (fun p => pred_row p cols i) f) mask
     (fold_left (fun m p => apply_pred p cols m) f mask).
Proof.
  induction f as [| p f IH]; intros cols mask.
  - cbn [fold_left forallb]. apply pw_id.
  - cbn [fold_left forallb]. eapply pw_trans; [apply apply_pred_pw | apply IH].
Qed.

Definition ts_row (cols : list (str * column)) (merge : Z) (i : nat) : bool :=
  match find_col ts_name cols with
  | Some (CTs v) | Some (CInt v) =>
      at_row (fun x => match x with Some t => negb (t <? merge) | None => true end) v i
  | _ => true
  end.

Lemma ts_mask_pw : forall cols merge mask, pw (ts_row cols merge) mask (ts_mask cols merge mask).
Proof.
  intros cols merge mask. unfold ts_mask, ts_row.
  destruct (find_col ts_name cols) as [[v | v | v | v | v] |]; try apply pw_id; apply mask_upd_pw.
Qed.

(* the mask apply ends up with, row by row *)
Lemma final_mask_rows : forall f b merge,
  final_mask f b merge =
  map (fun i => ts_row (b_cols b) merge i && forallb (fun p => pred_row p (b_cols b) i) f)%bool
      (seq 0 (b_rows b)).
Proof.
  intros f b merge. unfold final_mask.
  pose proof (pw_trans _ _ _ _ _ (ts_mask_pw (b_cols b) merge (repeat true (b_rows b)))
                       (fold_pred_pw f (b_cols b) (ts_mask (b_cols b) merge (repeat true (b_rows b)))))
    as [HL HN].
  apply list_ext_seq.
  - rewrite HL. apply repeat_length.
  - intros i Hi. rewrite (HN i true (nth_error_repeat bool true _ _ Hi)). reflexivity.
Qed.

(* ------------------------------------------------------------------ *)
(* from_sql against the SQL meaning of the clause                        *)
(* ------------------------------------------------------------------ *)
Lemma str_cmp_antisym : forall a b, str_cmp b a = CompOpp (str_cmp a b).
Proof.
  induction a as [| x a IH]; intros b; destruct b as [| y b]; try reflexivity.
  cbn [str_cmp]. rewrite (N.compare_antisym x y).
  destruct (N.compare x y); cbn [CompOpp]; [apply IH | reflexivity | reflexivity].
Qed.

Lemma vcmp_antisym : forall a b, vcmp b a = option_map CompOpp (vcmp a b).
Proof.
  intros a b. destruct a, b; cbn [vcmp option_map]; try reflexivity; f_equal;
    unfold f64_total_cmp; try apply Z.compare_antisym; apply str_cmp_antisym.
Qed.

Definition flip (o : cop) : cop :=
  match o with OpLt => OpGt | OpLe => OpGe | OpGt => OpLt | OpGe => OpLe | x => x end.

Lemma test_cmp_flip : forall o c, test_cmp (flip o) c = test_cmp o (CompOpp c).
Proof. intros o c. destruct o, c; reflexivity. Qed.

Lemma cop_of_reverse : forall op o, cop_of op = Some o -> cop_of (reverse_op op) = Some (flip o).
Proof. intros op o H. destruct op; cbn in H; try discriminate; injection H as <-; reflexivity. Qed.

Lemma is_cmp_cop : forall op, is_cmp op = true -> exists o, cop_of op = Some o.
Proof. intros op H. destruct op; try discriminate; eexists; reflexivity. Qed.

Lemma istrue_some : forall x, istrue (Some x) = x.
Proof. intros x. destruct x; reflexivity. Qed.

Lemma istrue_and3 : forall x y, istrue (and3 x y) = (istrue x && istrue y)%bool.
Proof. intros [[|] |] [[|] |]; reflexivity. Qed.

Lemma istrue_or3 : forall x y, istrue (or3 x y) = (istrue x || istrue y)%bool.
Proof. intros [[|] |] [[|] |]; reflexivity. Qed.

Definition pv_of (v : value) : pvalue :=
  match v with VInt z => PInt z | VFloat f => PFloat f | VStr s => PStr s | _ => PNull end.

Definition is_lit_value (v : value) : bool :=
  match v with VInt _ | VFloat _ | VStr _ => true | _ => false end.

(* a supported literal: parse_sql_value produces the value the SQL text denotes *)
Lemma lit_parse : forall e, lit_in_range e = true ->
  exists lv, lit_value e = Some lv /\ parse_sql_value e = Some (pv_of lv) /\
             is_lit_value lv = true /\ (forall n, e <> EIdent n).
Proof.
  intros e H.
  destruct e as [n | t | s | bb | | e' | op l r | e' |]; cbn [lit_in_range] in H; try discriminate.
  - destruct t as [z | f].
    + apply andb_true_iff in H as [_ Hr].
      exists (VInt z). cbn [lit_value parse_sql_value parse_number pv_of is_lit_value].
      rewrite Hr. repeat split; intros; discriminate.
    + exists (VFloat f). repeat split; intros; discriminate.
  - exists (VStr s). repeat split; intros; discriminate.
  - destruct e' as [n | t | s | bb | | e'' | op l r | e'' |]; try discriminate.
    destruct t as [z | f].
    + apply andb_true_iff in H as [_ Hr].
      exists (VInt (- z)). cbn [lit_value parse_sql_value parse_number pv_of is_lit_value].
      rewrite Hr. repeat split; intros; discriminate.
    + exists (VFloat (fneg f)). repeat split; intros; discriminate.
Qed.

Lemma operand_value_lit : forall b i e, (forall n, e <> EIdent n) -> operand_value b i e = lit_value e.
Proof. intros b i e H. destruct e; try reflexivity. exfalso. eapply H. reflexivity. Qed.

Lemma find_col_wf : forall name cols n c,
  forallb (fun nc : str * column => Nat.eqb (col_len (snd nc)) n) cols = true ->
  find_col name cols = Some c -> col_len c = n.
Proof.
  intros name cols n c. induction cols as [| [k c0] cols IH]; intros Hwf Hf; [discriminate |].
  cbn [forallb find_col snd] in *. apply andb_true_iff in Hwf as [H0 Hr].
  destruct (str_eqb k name).
  - injection Hf as <-. apply Nat.eqb_eq. exact H0.
  - apply IH; assumption.
Qed.

(* the core of a comparison: the physical-type dispatch of apply_comparison
   computes the SQL comparison of the cell with the literal *)
Lemma leaf_core : forall o c lv i,
  is_lit_value lv = true ->
  (match lv, c with
   | VStr _, CStr _ | VInt _, CInt _ | VInt _, CFloat _ | VFloat _, CInt _ | VFloat _, CFloat _ => true
   | _, _ => false end) = true ->
  (i < col_len c)%nat ->
  leaf_row o c (pv_of lv) i =
  istrue (match cell_of c i with Some x => option_map (test_cmp o) (vcmp x lv) | None => None end).
Proof.
  intros o c lv i Hl Hc Hi.
  destruct lv as [z | f | s | z | z |]; try discriminate;
    destruct c as [vals | vals | vals | vals | vals]; try discriminate;
    cbn [pv_of leaf_row cell_of col_len] in *; unfold at_row;
    (destruct (nth_error vals i) as [[x |] |] eqn:Hn;
     [ cbn [option_map on_some vcmp]; rewrite istrue_some; reflexivity
     | reflexivity
     | exfalso; apply nth_error_None in Hn; lia ]).
Qed.

(* reductions of the recursive definitions at a comparison operator *)
Lemma eval_cmp : forall op l r b i, is_cmp op = true ->
  eval (EBin op l r) b i =
  match cop_of op, operand_value b i l, operand_value b i r with
  | Some o, Some x, Some y => option_map (test_cmp o) (vcmp x y)
  | _, _, _ => None
  end.
Proof. intros op l r b i H. destruct op; try discriminate; reflexivity. Qed.

Lemma etp_cmp : forall op l r, is_cmp op = true ->
  expr_to_predicate (EBin op l r) = try_extract_comparison l op r.
Proof. intros op l r H. destruct op; try discriminate; reflexivity. Qed.

Lemma extract_nonand : forall op l r, op <> BAnd ->
  extract (EBin op l r) =
  match expr_to_predicate (EBin op l r) with Some p => [p] | None => [] end.
Proof. intros op l r H. destruct op; try reflexivity. contradiction. Qed.

Lemma cols_present_cmp : forall op l r b, is_cmp op = true ->
  cols_present (EBin op l r) b =
  match leaf_col_lit (EBin op l r) with
  | Some (n, _) => match find_col n (b_cols b) with Some _ => true | None => false end
  | None => true
  end.
Proof. intros op l r b H. destruct op; try discriminate; reflexivity. Qed.

Lemma type_mismatch_cmp : forall op l r b, is_cmp op = true ->
  type_mismatch (EBin op l r) b =
  match leaf_col_lit (EBin op l r) with
  | Some (n, lit) => match find_col n (b_cols b) with
                     | Some c => negb (comparable c lit)
                     | None => false
                     end
  | None => false
  end.
Proof. intros op l r b H. destruct op; try discriminate; reflexivity. Qed.

Lemma supported_cmp_shape : forall op l r, is_cmp op = true -> supported (EBin op l r) = true ->
  (exists n, l = EIdent n /\ lit_in_range r = true) \/
  (exists n, r = EIdent n /\ lit_in_range l = true).
Proof.
  intros op l r Hc Hs.
  destruct l as [n | t | s | bb | | e' | op' l' r' | e' |].
  - left. exists n. split; [reflexivity |].
    destruct op; try discriminate; cbn [supported is_cmp andb] in Hs; exact Hs.
  - right. destruct r; destruct op; try discriminate; cbn [supported is_cmp andb] in Hs; eexists; split; try reflexivity; exact Hs.
  - right. destruct r; destruct op; try discriminate; cbn [supported is_cmp andb] in Hs; eexists; split; try reflexivity; exact Hs.
  - destruct r; destruct op; try discriminate; cbn [supported is_cmp andb lit_in_range] in Hs; discriminate.
  - destruct r; destruct op; try discriminate; cbn [supported is_cmp andb lit_in_range] in Hs; discriminate.
  - right. destruct r; destruct op; try discriminate; cbn [supported is_cmp andb] in Hs; eexists; split; try reflexivity; exact Hs.
  - destruct r; destruct op; try discriminate; cbn [supported is_cmp andb lit_in_range] in Hs; discriminate.
  - destruct r; destruct op; try discriminate; cbn [supported is_cmp andb lit_in_range] in Hs; discriminate.
  - destruct r; destruct op; try discriminate; cbn [supported is_cmp andb lit_in_range] in Hs; discriminate.
Qed.

Lemma supported_other : forall l r, supported (EBin BOther l r) = false.
Proof. intros l r. destruct l; destruct r; reflexivity. Qed.

Lemma comparable_kinds : forall c lit lv, lit_value lit = Some lv -> comparable c lit = true ->
  (match lv, c with
   | VStr _, CStr _ | VInt _, CInt _ | VInt _, CFloat _ | VFloat _, CInt _ | VFloat _, CFloat _ => true
   | _, _ => false end) = true.
Proof.
  intros c lit lv Hl Hc. unfold comparable in Hc. rewrite Hl in Hc.
  destruct lv, c; try discriminate; reflexivity.
Qed.

Section Typed.
  Variable b : batch.
  Hypothesis Hwf : wf_batch b = true.

  Lemma leaf_ok : forall op l r i,
    is_cmp op = true ->
    supported (EBin op l r) = true ->
    cols_present (EBin op l r) b = true ->
    type_mismatch (EBin op l r) b = false ->
    (i < b_rows b)%nat ->
    exists p, try_extract_comparison l op r = Some p /\
              pred_row p (b_cols b) i = istrue (eval (EBin op l r) b i).
  Proof.
    intros op l r i Hcmp Hsup Hpres Hmis Hi.
    rewrite (cols_present_cmp _ _ _ _ Hcmp) in Hpres.
    rewrite (type_mismatch_cmp _ _ _ _ Hcmp) in Hmis.
    rewrite (eval_cmp _ _ _ _ _ Hcmp).
    destruct (is_cmp_cop _ Hcmp) as [o Ho].
    destruct (supported_cmp_shape _ _ _ Hcmp Hsup) as [[n [-> Hr]] | [n [-> Hl]]].
    - (* column op literal *)
      destruct (lit_parse _ Hr) as [lv [Hlv [Hparse [Hkind Hnid]]]].
      cbn [leaf_col_lit] in Hpres, Hmis.
      destruct (find_col (lower n) (b_cols b)) as [c |] eqn:Hfind; [| discriminate].
      apply negb_false_iff in Hmis.
      exists (PCmp o (lower n) (pv_of lv)). split.
      + unfold try_extract_comparison, try_column_op_value. rewrite Hparse, Ho. reflexivity.
      + cbn [pred_row]. rewrite Hfind.
        rewrite (leaf_core o c lv i Hkind (comparable_kinds _ _ _ Hlv Hmis)).
        2:{ rewrite (find_col_wf _ _ _ _ Hwf Hfind). exact Hi. }
        rewrite Ho. cbn [operand_value]. unfold cell. rewrite Hfind.
        rewrite (operand_value_lit b i _ Hnid), Hlv.
        destruct (cell_of c i); reflexivity.
    - (* literal op column *)
      destruct (lit_parse _ Hl) as [lv [Hlv [Hparse [Hkind Hnid]]]].
      assert (Hleaf : leaf_col_lit (EBin op l (EIdent n)) = Some (lower n, l)).
      { destruct l; try reflexivity. exfalso. eapply Hnid. reflexivity. }
      rewrite Hleaf in Hpres, Hmis.
      destruct (find_col (lower n) (b_cols b)) as [c |] eqn:Hfind; [| discriminate].
      apply negb_false_iff in Hmis.
      exists (PCmp (flip o) (lower n) (pv_of lv)). split.
      + unfold try_extract_comparison.
        assert (H1 : try_column_op_value l op (EIdent n) = None).
        { destruct l; reflexivity. }
        rewrite H1. unfold try_column_op_value. rewrite Hparse, (cop_of_reverse _ _ Ho). reflexivity.
      + cbn [pred_row]. rewrite Hfind.
        rewrite (leaf_core (flip o) c lv i Hkind (comparable_kinds _ _ _ Hlv Hmis)).
        2:{ rewrite (find_col_wf _ _ _ _ Hwf Hfind). exact Hi. }
        rewrite Ho. cbn [operand_value]. unfold cell. rewrite Hfind.
        rewrite (operand_value_lit b i _ Hnid), Hlv.
        destruct (cell_of c i) as [x |]; [| reflexivity].
        rewrite (vcmp_antisym x lv). destruct (vcmp x lv) as [cc |]; [| reflexivity].
        cbn [option_map]. rewrite test_cmp_flip. reflexivity.
  Qed.

  Lemma etp_ok : forall e,
    supported e = true -> cols_present e b = true -> type_mismatch e b = false ->
    exists p, expr_to_predicate e = Some p /\
              forall i, (i < b_rows b)%nat -> pred_row p (b_cols b) i = istrue (eval e b i).
  Proof.
    induction e as [n | t | s | bb | | e' IH | op l IHl r IHr | e' IH |];
      intros Hsup Hpres Hmis; try discriminate.
    - destruct (is_cmp op) eqn:Hcmp.
      + rewrite (etp_cmp _ _ _ Hcmp).
        assert (Hall : forall i, (i < b_rows b)%nat ->
                  exists p, try_extract_comparison l op r = Some p /\
                            pred_row p (b_cols b) i = istrue (eval (EBin op l r) b i))
          by (intros i Hi; apply leaf_ok; assumption).
        destruct (try_extract_comparison l op r) as [p |] eqn:Hp.
        * exists p. split; [reflexivity |]. intros i Hi.
          destruct (Hall i Hi) as [p' [Hp' Hrow]]. injection Hp' as <-. exact Hrow.
        * (* no predicate: impossible, use any row index; handle the empty batch too *)
          exfalso.
          rewrite (cols_present_cmp _ _ _ _ Hcmp) in Hpres.
          destruct (is_cmp_cop _ Hcmp) as [o Ho].
          destruct (supported_cmp_shape _ _ _ Hcmp Hsup) as [[n [-> Hr]] | [n [-> Hl]]].
          -- destruct (lit_parse _ Hr) as [lv [_ [Hparse _]]].
             unfold try_extract_comparison, try_column_op_value in Hp.
             rewrite Hparse, Ho in Hp. discriminate.
          -- destruct (lit_parse _ Hl) as [lv [_ [Hparse [_ Hnid]]]].
             unfold try_extract_comparison in Hp.
             assert (H1 : try_column_op_value l op (EIdent n) = None).
             { destruct l; reflexivity. }
             rewrite H1 in Hp. unfold try_column_op_value in Hp.
             rewrite Hparse, (cop_of_reverse _ _ Ho) in Hp. discriminate.
      + destruct op; try discriminate.
        * (* AND *)
          cbn [supported cols_present type_mismatch] in Hsup, Hpres, Hmis.
          apply andb_true_iff in Hsup as [Hs1 Hs2].
          apply andb_true_iff in Hpres as [Hp1 Hp2].
          apply orb_false_iff in Hmis as [Hm1 Hm2].
          destruct (IHl Hs1 Hp1 Hm1) as [p1 [E1 R1]].
          destruct (IHr Hs2 Hp2 Hm2) as [p2 [E2 R2]].
          exists (PAnd p1 p2). split.
          -- cbn [expr_to_predicate]. rewrite E1, E2. reflexivity.
          -- intros i Hi. cbn [pred_row eval]. rewrite istrue_and3, (R1 i Hi), (R2 i Hi). reflexivity.
        * (* OR *)
          cbn [supported cols_present type_mismatch] in Hsup, Hpres, Hmis.
          apply andb_true_iff in Hsup as [Hs1 Hs2].
          apply andb_true_iff in Hpres as [Hp1 Hp2].
          apply orb_false_iff in Hmis as [Hm1 Hm2].
          destruct (IHl Hs1 Hp1 Hm1) as [p1 [E1 R1]].
          destruct (IHr Hs2 Hp2 Hm2) as [p2 [E2 R2]].
          exists (POr p1 p2). split.
          -- cbn [expr_to_predicate]. rewrite E1, E2. reflexivity.
          -- intros i Hi. cbn [pred_row eval]. rewrite istrue_or3, (R1 i Hi), (R2 i Hi). reflexivity.
        * rewrite supported_other in Hsup. discriminate.
    - cbn [supported cols_present type_mismatch] in Hsup, Hpres, Hmis.
      destruct (IH Hsup Hpres Hmis) as [p [E R]].
      exists p. split; [exact E | exact R].
  Qed.

  Lemma extract_ok : forall e,
    supported e = true -> cols_present e b = true -> type_mismatch e b = false ->
    forall i, (i < b_rows b)%nat ->
    forallb (fun p => pred_row p (b_cols b) i) (extract e) = istrue (eval e b i).
  Proof.
    induction e as [n | t | s | bb | | e' IH | op l IHl r IHr | e' IH |];
      intros Hsup Hpres Hmis i Hi; try discriminate.
    - destruct op;
        try (rewrite extract_nonand by discriminate;
             destruct (etp_ok _ Hsup Hpres Hmis) as [p [E R]];
             rewrite E; cbn [forallb]; rewrite andb_true_r; apply R; exact Hi).
      cbn [supported cols_present type_mismatch] in Hsup, Hpres, Hmis.
      apply andb_true_iff in Hsup as [Hs1 Hs2].
      apply andb_true_iff in Hpres as [Hp1 Hp2].
      apply orb_false_iff in Hmis as [Hm1 Hm2].
      cbn [extract eval]. rewrite forallb_app, istrue_and3.
      rewrite (IHl Hs1 Hp1 Hm1 i Hi), (IHr Hs2 Hp2 Hm2 i Hi). reflexivity.
    - cbn [supported cols_present type_mismatch extract eval] in *.
      apply IH; assumption.
  Qed.
End Typed.

(* ------------------------------------------------------------------ *)
(* live_exact                                                           *)
(* ------------------------------------------------------------------ *)
Lemma forallb_nth_error : forall (A : Type) (f : A -> bool) (l : list A) (i : nat) (x : A),
  forallb f l = true -> nth_error l i = Some x -> f x = true.
Proof.
  intros A f l i x Hf Hn. rewrite forallb_forall in Hf. apply Hf. eapply nth_error_In. exact Hn.
Qed.

Lemma ts_row_ge : forall b merge i,
  wf_batch b = true -> ts_col_ok b = true -> (i < b_rows b)%nat ->
  ts_row (b_cols b) merge i = ts_ge b merge i.
Proof.
  intros b merge i Hwf Hts Hi. unfold ts_row, ts_ge, cell, ts_col_ok in *.
  destruct (find_col ts_name (b_cols b)) as [c |] eqn:Hfind; [| discriminate].
  pose proof (find_col_wf _ _ _ _ Hwf Hfind) as Hlen.
  destruct c as [v | v | v | v | v]; try discriminate; cbn [col_len cell_of] in *; unfold at_row;
    (destruct (nth_error v i) as [x |] eqn:Hn;
     [ pose proof (forallb_nth_error _ _ _ _ _ Hts Hn) as Hx; destruct x as [t |]; [| discriminate];
       cbn [option_map]; symmetry; apply Z.leb_antisym
     | exfalso; apply nth_error_None in Hn; lia ]).
Qed.

Lemma existsb_count : forall mask, existsb (fun x : bool => x) mask = true -> count_true mask <> 0%nat.
Proof.
  unfold count_true. induction mask as [| m ms IH]; intro H; [discriminate |].
  cbn [existsb filter] in *. destruct m; cbn [length]; [lia |]. apply IH. exact H.
Qed.

Definition clause_ok (sel : option sexpr) (b : batch) : Prop :=
  match sel with
  | Some w => supported w = true /\ cols_present w b = true /\ type_mismatch w b = false
  | None => True
  end.

Lemma final_mask_keep : forall sel b merge,
  wf_batch b = true -> ts_col_ok b = true -> clause_ok sel b ->
  final_mask (from_sql sel) b merge = keep_mask sel b merge.
Proof.
  intros sel b merge Hwf Hts Hok. rewrite final_mask_rows. unfold keep_mask.
  apply map_ext_in. intros i Hin. apply in_seq in Hin. assert (Hi : (i < b_rows b)%nat) by lia.
  rewrite (ts_row_ge b merge i Hwf Hts Hi). f_equal.
  destruct sel as [w |]; cbn [from_sql sat].
  - destruct Hok as [Hs [Hp Hm]]. apply extract_ok; assumption.
  - reflexivity.
Qed.

(* MAIN THEOREM (live tail).  For a flushed batch (columns of equal length,
   non-null Timestamp(ns)/Int64 timestamp column) and a WHERE clause built from
   `column op literal`, `literal op column`, AND, OR and parentheses in any
   nesting, whose columns exist in the batch with a physical type the literal is
   compared with (number/number in any int/float mix, string/string), the
   subscriber receives exactly the rows at or after the merge point that satisfy
   the clause under SQL three-valued semantics. *)
Theorem live_exact : forall sel b merge,
  wf_batch b = true -> ts_col_ok b = true -> clause_ok sel b ->
  apply (from_sql sel) b merge = spec_apply sel b merge.
Proof.
  intros sel b merge Hwf Hts Hok. unfold apply, spec_apply.
  rewrite (final_mask_keep sel b merge Hwf Hts Hok).
  destruct (Nat.eqb (b_rows b) 0) eqn:Hz.
  - apply Nat.eqb_eq in Hz. unfold keep_mask. rewrite Hz. reflexivity.
  - destruct (existsb (fun x : bool => x) (keep_mask sel b merge)) eqn:He; cbn [negb]; [| reflexivity].
    cbn [filter_batch b_rows].
    destruct (Nat.eqb (count_true (keep_mask sel b merge)) 0) eqn:Hc; [| reflexivity].
    apply Nat.eqb_eq in Hc. exfalso. exact (existsb_count _ He Hc).
Qed.

Theorem live_modulo_known : forall w b merge,
  supported w = true -> cols_present w b = true ->
  wf_batch b = true -> ts_col_ok b = true ->
  known_class (Some w) b = false ->
  apply (from_sql (Some w)) b merge = spec_apply (Some w) b merge.
Proof.
  intros w b merge Hs Hp Hwf Hts Hk. apply live_exact; try assumption.
  cbn [clause_ok]. cbn [known_class] in Hk. auto.
Qed.

(* the whole live tail of a subscriber that keeps up: per flushed batch, in
   flush order, the rows spec_apply selects; batches without such rows are skipped *)
Fixpoint spec_tail (sel : option sexpr) (merge : Z) (received : list batch) : list batch :=
  match received with
  | [] => []
  | b :: r => match spec_apply sel b merge with
              | Some fb => fb :: spec_tail sel merge r
              | None => spec_tail sel merge r
              end
  end.

Theorem live_tail_exact : forall sel merge received,
  Forall (fun b => wf_batch b = true /\ ts_col_ok b = true /\ clause_ok sel b) received ->
  live_tail (from_sql sel) merge received = spec_tail sel merge received.
Proof.
  intros sel merge received H. induction H as [| b r [Hwf [Hts Hok]] _ IH]; [reflexivity |].
  cbn [live_tail spec_tail]. rewrite (live_exact sel b merge Hwf Hts Hok), IH. reflexivity.
Qed.

Lemma live_tail_app : forall f merge a b,
  live_tail f merge (a ++ b) = live_tail f merge a ++ live_tail f merge b.
Proof.
  intros f merge a b. induction a as [| x a IH]; [reflexivity |].
  cbn [app live_tail]. destruct (apply f x merge); cbn [app]; rewrite IH; reflexivity.
Qed.

Lemma xrun_inv : forall f merge evs st,
  snd (fold_left (xstep f merge) evs st) ++ live_tail f merge (fst (fold_left (xstep f merge) evs st)) =
  snd st ++ live_tail f merge (fst st ++ xflushes evs).
Proof.
  intros f merge evs. induction evs as [| e evs IH]; intros [q d].
  - cbn [fold_left xflushes flat_map fst snd]. rewrite app_nil_r. reflexivity.
  - cbn [fold_left]. rewrite IH. destruct e as [b |].
    + cbn [xstep fst snd xflushes flat_map]. rewrite <- app_assoc. reflexivity.
    + cbn [xstep fst snd xflushes flat_map app]. destruct q as [| b q]; [reflexivity |].
      cbn [app live_tail]. destruct (apply f b merge) as [fb |]; cbn [fst snd].
      * rewrite <- app_assoc. reflexivity.
      * reflexivity.
Qed.

(* Whatever the interleaving of flushes and forwarding-task iterations after the
   streaming call has returned (in particular: all flushes before the task's
   first iteration, i.e. while it is still handing over the historical result),
   the consumer ends up with the live tail of ALL batches flushed since the
   subscription point, each once, in flush order. *)
Theorem executor_delivers_all : forall f merge evs,
  xdelivered f merge evs = live_tail f merge (xflushes evs).
Proof.
  intros f merge evs. unfold xdelivered, xrun. rewrite xrun_inv. reflexivity.
Qed.

Theorem executor_exact : forall sel merge evs,
  Forall (fun b => wf_batch b = true /\ ts_col_ok b = true /\ clause_ok sel b) (xflushes evs) ->
  xdelivered (from_sql sel) merge evs = spec_tail sel merge (xflushes evs).
Proof.
  intros sel merge evs H. rewrite executor_delivers_all. apply live_tail_exact. exact H.
Qed.

(* ---- what filter_batch delivers: the k-th delivered row is the row at the
   k-th kept index; kept indices are the positions with mask = true, ascending *)
Definition kept_indices (mask : list bool) : list nat := filter_list mask (seq 0 (length mask)).

Lemma filter_list_map : forall (A B : Type) (f : A -> B) (mask : list bool) (l : list A),
  filter_list mask (map f l) = map f (filter_list mask l).
Proof.
  intros A B f mask. induction mask as [| m ms IH]; intros l; [reflexivity |].
  destruct l as [| x xs]; [reflexivity |]. cbn [map filter_list]. destruct m; cbn [map]; rewrite IH; reflexivity.
Qed.

Lemma map_nth_error_seq : forall (A : Type) (l : list A),
  map Some l = map (nth_error l) (seq 0 (length l)).
Proof.
  intros A l. apply list_ext_seq; [apply map_length |].
  intros i Hi. rewrite nth_error_map. destruct (nth_error l i) eqn:Hn; [reflexivity |].
  apply nth_error_None in Hn. lia.
Qed.

Lemma filter_list_indices : forall (A : Type) (mask : list bool) (vals : list A),
  length vals = length mask ->
  map Some (filter_list mask vals) = map (nth_error vals) (kept_indices mask).
Proof.
  intros A mask vals Hlen. unfold kept_indices.
  rewrite <- filter_list_map, <- filter_list_map, <- Hlen, <- map_nth_error_seq. reflexivity.
Qed.

Lemma filter_list_nth : forall (A : Type) (mask : list bool) (vals : list A) (k : nat),
  length vals = length mask ->
  nth_error (filter_list mask vals) k =
  match nth_error (kept_indices mask) k with Some j => nth_error vals j | None => None end.
Proof.
  intros A mask vals k Hlen.
  pose proof (f_equal (fun l => nth_error l k) (filter_list_indices _ mask vals Hlen)) as H.
  cbn beta in H. rewrite !nth_error_map in H.
  destruct (nth_error (kept_indices mask) k) as [j |]; cbn [option_map] in H.
  - destruct (nth_error (filter_list mask vals) k); cbn [option_map] in H; congruence.
  - destruct (nth_error (filter_list mask vals) k); cbn [option_map] in H; congruence.
Qed.

Lemma cell_of_filter : forall mask c k, col_len c = length mask ->
  cell_of (filter_col mask c) k =
  match nth_error (kept_indices mask) k with Some j => cell_of c j | None => None end.
Proof.
  intros mask c k Hlen.
  destruct c as [v | v | v | v | v]; cbn [filter_col cell_of col_len] in *;
    rewrite (filter_list_nth _ mask v k Hlen);
    destruct (nth_error (kept_indices mask) k); reflexivity.
Qed.

Lemma find_col_filter : forall mask name cols,
  find_col name (map (fun nc : str * column => (fst nc, filter_col mask (snd nc))) cols) =
  option_map (filter_col mask) (find_col name cols).
Proof.
  intros mask name cols. induction cols as [| [n c] cols IH]; [reflexivity |].
  cbn [map find_col fst snd]. destruct (str_eqb n name); [reflexivity | exact IH].
Qed.

(* every cell of the k-th delivered row is the cell of the original row at the
   k-th kept index *)
Theorem filter_batch_cells : forall mask b name k,
  wf_batch b = true -> length mask = b_rows b ->
  cell (filter_batch mask b) name k =
  match nth_error (kept_indices mask) k with Some j => cell b name j | None => None end.
Proof.
  intros mask b name k Hwf Hlen. unfold cell. cbn [filter_batch b_cols].
  rewrite find_col_filter.
  destruct (find_col name (b_cols b)) as [c |] eqn:Hf; cbn [option_map].
  - apply cell_of_filter. rewrite (find_col_wf _ _ _ _ Hwf Hf). symmetry. exact Hlen.
  - destruct (nth_error (kept_indices mask) k); reflexivity.
Qed.

Lemma filter_list_seq_shift : forall mask s,
  filter_list mask (seq s (length mask)) =
  filter (fun i => nth (i - s) mask false) (seq s (length mask)).
Proof.
  induction mask as [| m ms IH]; intros s; [reflexivity |].
  cbn [length seq filter_list filter]. rewrite Nat.sub_diag. change (nth 0 (m :: ms) false) with m.
  assert (Hext : filter (fun i => nth (i - s) (m :: ms) false) (seq (S s) (length ms)) =
                 filter (fun i => nth (i - S s) ms false) (seq (S s) (length ms))).
  { apply filter_ext_in. intros i Hin. apply in_seq in Hin.
    replace (i - s)%nat with (S (i - S s)) by lia. reflexivity. }
  destruct m; rewrite Hext, <- IH; reflexivity.
Qed.

(* the kept indices are exactly the positions whose mask bit is set, in
   ascending order (a `filter` of 0,1,...,n-1), hence each at most once *)
Theorem kept_indices_filter : forall mask,
  kept_indices mask = filter (fun i => nth i mask false) (seq 0 (length mask)).
Proof.
  intros mask. unfold kept_indices. rewrite filter_list_seq_shift.
  apply filter_ext. intros i. rewrite Nat.sub_0_r. reflexivity.
Qed.

Theorem kept_indices_nodup : forall mask, NoDup (kept_indices mask).
Proof. intros mask. rewrite kept_indices_filter. apply NoDup_filter. apply seq_NoDup. Qed.

Lemma count_true_kept : forall mask, count_true mask = length (kept_indices mask).
Proof.
  intros mask. unfold kept_indices, count_true.
  generalize 0%nat. induction mask as [| m ms IH]; intros s; [reflexivity |].
  cbn [length seq filter_list filter]. destruct m; cbn [length]; rewrite (IH (S s)); reflexivity.
Qed.

(* ---- the row-level statement: which original rows arrive, and where ---- *)
Lemma nth_map_seq : forall (g : nat -> bool) (n i : nat), (i < n)%nat -> nth i (map g (seq 0 n)) false = g i.
Proof.
  intros g n i Hi.
  rewrite (nth_indep _ false (g 0%nat)) by (rewrite map_length, seq_length; exact Hi).
  rewrite map_nth. rewrite seq_nth by exact Hi. reflexivity.
Qed.

Lemma kept_indices_map : forall (g : nat -> bool) (n : nat),
  kept_indices (map g (seq 0 n)) = filter g (seq 0 n).
Proof.
  intros g n. rewrite kept_indices_filter, map_length, seq_length.
  apply filter_ext_in. intros i Hin. apply in_seq in Hin. apply nth_map_seq. lia.
Qed.

Lemma existsb_false_filter : forall (g : nat -> bool) (l : list nat),
  existsb (fun x : bool => x) (map g l) = false -> filter g l = [].
Proof.
  intros g l. induction l as [| x l IH]; intro H; [reflexivity |].
  cbn [map existsb filter] in *. apply orb_false_iff in H as [H1 H2]. rewrite H1. apply IH. exact H2.
Qed.

(* the original row indices that must arrive: at or after the merge point and
   satisfying the clause, in batch order *)
Definition wanted (sel : option sexpr) (b : batch) (merge : Z) : list nat :=
  filter (fun i => ts_ge b merge i && sat sel b i)%bool (seq 0 (b_rows b)).

(* MAIN THEOREM, row form: the subscriber receives a batch iff some row is
   wanted; the batch has one row per wanted index, and its k-th row carries, in
   every column, the cell of the k-th wanted original row. *)
Theorem live_rows_exact : forall sel b merge,
  wf_batch b = true -> ts_col_ok b = true -> clause_ok sel b ->
  match apply (from_sql sel) b merge with
  | Some fb => b_rows fb = length (wanted sel b merge) /\ wanted sel b merge <> [] /\
               forall name k, cell fb name k =
                              match nth_error (wanted sel b merge) k with
                              | Some j => cell b name j
                              | None => None
                              end
  | None => wanted sel b merge = []
  end.
Proof.
  intros sel b merge Hwf Hts Hok. rewrite (live_exact sel b merge Hwf Hts Hok).
  unfold spec_apply, wanted.
  pose proof (kept_indices_map (fun i => ts_ge b merge i && sat sel b i)%bool (b_rows b)) as Hk.
  fold (keep_mask sel b merge) in Hk.
  destruct (existsb (fun x : bool => x) (keep_mask sel b merge)) eqn:He.
  - rewrite <- Hk. split; [| split].
    + cbn [filter_batch b_rows]. apply count_true_kept.
    + intro Hnil. apply (existsb_count _ He). rewrite count_true_kept, Hnil. reflexivity.
    + intros name k. apply filter_batch_cells; [exact Hwf |].
      unfold keep_mask. rewrite map_length, seq_length. reflexivity.
  - apply existsb_false_filter. exact He.
Qed.

(* ------------------------------------------------------------------ *)
(* Topic filters                                                        *)
(* ------------------------------------------------------------------ *)
Lemma str_eqb_eq : forall a b, str_eqb a b = true <-> a = b.
Proof.
  induction a as [| x a IH]; intros b; destruct b as [| y b]; cbn [str_eqb]; split; intro H;
    try reflexivity; try discriminate.
  - apply andb_true_iff in H as [H1 H2]. apply N.eqb_eq in H1. apply IH in H2. congruence.
  - injection H as -> ->. rewrite N.eqb_refl. apply IH. reflexivity.
Qed.

Lemma str_mem_in : forall x l, str_mem x l = true <-> In x l.
Proof.
  intros x l. unfold str_mem. rewrite existsb_exists. split.
  - intros [y [Hin He]]. apply str_eqb_eq in He. subst. exact Hin.
  - intros Hin. exists x. split; [exact Hin | apply str_eqb_eq; reflexivity].
Qed.

Lemma matches_and : forall fs m, matches (TAnd fs) m = forallb (fun g => matches g m) fs.
Proof.
  intros fs m. induction fs as [| g r IH]; [reflexivity |].
  cbn [forallb]. rewrite <- IH. reflexivity.
Qed.

Lemma matches_or : forall fs m, matches (TOr fs) m = existsb (fun g => matches g m) fs.
Proof.
  intros fs m. induction fs as [| g r IH]; [reflexivity |].
  cbn [existsb]. rewrite <- IH. reflexivity.
Qed.

Section TfilterInd.
  Variable Q : tfilter -> Prop.
  Hypothesis HAll : Q TAll.
  Hypothesis HShard : forall s, Q (TShard s).
  Hypothesis HTenant : forall t, Q (TTenant t).
  Hypothesis HMetrics : forall ms, Q (TMetrics ms).
  Hypothesis HAnd : forall fs, Forall Q fs -> Q (TAnd fs).
  Hypothesis HOr : forall fs, Forall Q fs -> Q (TOr fs).

  Fixpoint tfilter_nested_ind (f : tfilter) : Q f :=
    match f with
    | TAll => HAll
    | TShard s => HShard s
    | TTenant t => HTenant t
    | TMetrics ms => HMetrics ms
    | TAnd fs => HAnd fs ((fix go (l : list tfilter) : Forall Q l :=
                          match l with
                          | [] => Forall_nil Q
                          | g :: r => Forall_cons g (tfilter_nested_ind g) (go r)
                          end) fs)
    | TOr fs => HOr fs ((fix go (l : list tfilter) : Forall Q l :=
                        match l with
                        | [] => Forall_nil Q
                        | g :: r => Forall_cons g (tfilter_nested_ind g) (go r)
                        end) fs)
    end.
End TfilterInd.

(* TopicFilter::matches decides the declarative meaning, for every filter
   expression including nested And / Or lists (empty And = true, empty Or = false) *)
Theorem matches_tsat : forall m f, matches f m = true <-> tsat m f.
Proof.
  intros m f. induction f as [| s | t | ms | fs IH | fs IH] using tfilter_nested_ind.
  - split; [constructor | reflexivity].
  - cbn [matches]. rewrite str_eqb_eq. split; intro H; [constructor; exact H | inversion H; assumption].
  - cbn [matches]. rewrite N.eqb_eq. split; intro H; [constructor; exact H | inversion H; assumption].
  - cbn [matches]. rewrite existsb_exists. split.
    + intros [x [Hin Hm]]. apply str_mem_in in Hm. econstructor; eassumption.
    + intro H. inversion H as [| | | ms' x Hin Hm |  | ]; subst.
      exists x. split; [exact Hin | apply str_mem_in; exact Hm].
  - rewrite matches_and, forallb_forall. rewrite Forall_forall in IH. split.
    + intro H. constructor. intros g Hg. apply (IH g Hg). apply H. exact Hg.
    + intro H. inversion H as [| | | | fs' Hall |]; subst. intros g Hg. apply (IH g Hg). apply Hall. exact Hg.
  - rewrite matches_or, existsb_exists. rewrite Forall_forall in IH. split.
    + intros [g [Hg Hm]]. econstructor; [exact Hg |]. apply (IH g Hg). exact Hm.
    + intro H. inversion H as [| | | | | fs' g Hg Hs]; subst. exists g. split; [exact Hg |]. apply (IH g Hg). exact Hs.
Qed.

(* the builder TopicFilter::and means conjunction *)
Theorem tf_and_matches : forall a b m, matches (tf_and a b) m = (matches a m && matches b m)%bool.
Proof.
  intros a b m.
  destruct a as [| s | t | ms | x | x]; destruct b as [| s' | t' | ms' | y | y]; cbn [tf_and];
    rewrite ?matches_and, ?forallb_app; cbn [forallb]; rewrite ?matches_and, ?andb_true_r; reflexivity.
Qed.

Section TopicProofs.
  Variable P : Type.

  Lemma drain_filter : forall f (q : list (bmeta * P)),
    drain f q = map snd (filter (fun x => matches f (fst x)) q).
  Proof.
    intros f q. induction q as [| [m p] r IH]; [reflexivity |].
    cbn [drain filter fst]. destruct (matches f m); cbn [map snd]; rewrite IH; reflexivity.
  Qed.

  Lemma drain_app : forall f (a b : list (bmeta * P)), drain f (a ++ b) = drain f a ++ drain f b.
  Proof.
    intros f a b. rewrite !drain_filter, filter_app, map_app. reflexivity.
  Qed.

  (* FilteredReceiver::recv returns the first pending batch that matches and
     consumes everything before it *)
  Lemma recv_drain : forall f (q : list (bmeta * P)),
    drain f q = match recv f q with
                | (Some p, q') => p :: drain f q'
                | (None, q') => drain f q'
                end.
  Proof.
    intros f q. induction q as [| [m p] r IH]; [reflexivity |].
    cbn [drain recv]. destruct (matches f m); [reflexivity | exact IH].
  Qed.

  Lemma recv_none_empty : forall f (q q' : list (bmeta * P)), recv f q = (None, q') -> q' = [].
  Proof.
    intros f q. induction q as [| [m p] r IH]; intros q' H.
    - cbn [recv] in H. congruence.
    - cbn [recv] in H. destruct (matches f m); [discriminate | apply IH; exact H].
  Qed.

  Lemma trun_inv : forall f (evs : list (tevent P)) st,
    snd (fold_left (tstep f) evs st) ++ drain f (fst (fold_left (tstep f) evs st)) =
    snd st ++ drain f (fst st ++ sends evs).
  Proof.
    intros f evs. induction evs as [| e evs IH]; intros [q d].
    - cbn [fold_left sends flat_map fst snd]. rewrite app_nil_r. reflexivity.
    - cbn [fold_left]. rewrite IH. destruct e as [m p |].
      + cbn [tstep fst snd sends flat_map]. rewrite <- app_assoc. reflexivity.
      + cbn [tstep fst snd sends flat_map app].
        rewrite (drain_app f q), (recv_drain f q).
        destruct (recv f q) as [[p |] q']; cbn [fst snd]; rewrite drain_app, <- ?app_assoc; reflexivity.
  Qed.

  (* MAIN THEOREM (topic subscription).  Whatever the interleaving of sends and
     receive calls, a keeping-up subscriber ends up with exactly the payloads of
     the sent batches whose metadata satisfies the filter, in send order, each
     once (a `filter` of the send sequence). *)
  Theorem topic_exact : forall f (evs : list (tevent P)),
    delivered f evs = map snd (filter (fun x => matches f (fst x)) (sends evs)).
  Proof.
    intros f evs. unfold delivered, trun. rewrite trun_inv. cbn [fst snd app]. apply drain_filter.
  Qed.
End TopicProofs.

(* ------------------------------------------------------------------ *)
(* Witnesses                                                            *)
(* ------------------------------------------------------------------ *)
(* column names: "v" = [118], "s" = [115] *)
Definition w_ts : str * column := (ts_name, CTs [Some 10; Some 20; Some 30]).
Definition w_batch_int : batch := mkBatch 3 [w_ts; ([118%N], CInt [Some 1; Some 2; Some 3])].
(* 1.0, 2.0, 3.0 *)
Definition w_batch_float : batch :=
  mkBatch 3 [w_ts; ([118%N], CFloat [Some 4607182418800017408; Some 4611686018427387904; Some 4613937818241073152])].

(* open known class: `v = 'x'` against an Int64 column is skipped by the live
   filter, all three rows are delivered; no row satisfies the clause *)
Definition w_mismatch : sexpr := EBin BEq (EIdent [118%N]) (EStr [120%N]).

Lemma refuted_type_mismatch :
  exists w b merge,
    supported w = true /\ cols_present w b = true /\ wf_batch b = true /\ ts_col_ok b = true /\
    known_class (Some w) b = true /\
    apply (from_sql (Some w)) b merge = Some b /\ spec_apply (Some w) b merge = None.
Proof.
  exists w_mismatch, w_batch_int, 0. vm_compute. repeat split; reflexivity.
Qed.

(* regression witness of the fixed OR flattening: `v = 1.0 OR v = 2.0` on
   1.0, 2.0, 3.0 delivers the first two rows (the flattened filter delivered none) *)
Definition w_or : sexpr :=
  EBin BOr (EBin BEq (EIdent [118%N]) (ENum (NTDec 4607182418800017408)))
           (EBin BEq (EIdent [86%N]) (ENum (NTDec 4611686018427387904))).

Lemma or_witness :
  clause_ok (Some w_or) w_batch_float /\
  apply (from_sql (Some w_or)) w_batch_float 0 =
  Some (mkBatch 2 [(ts_name, CTs [Some 10; Some 20]);
                   ([118%N], CFloat [Some 4607182418800017408; Some 4611686018427387904])]).
Proof. vm_compute. repeat split; reflexivity. Qed.

(* non-vacuity of live_exact with a reversed operand, nesting and the merge point:
   (2 <= v AND v <> 3) OR v = 1, merge = 20 -> only the row (20, 2) *)
Definition w_nested : sexpr :=
  EBin BOr (ENested (EBin BAnd (EBin BLe (ENum (NTInt 2)) (EIdent [118%N]))
                               (EBin BNe (EIdent [118%N]) (ENum (NTInt 3)))))
           (EBin BEq (EIdent [118%N]) (ENum (NTInt 1))).

Lemma nested_witness :
  clause_ok (Some w_nested) w_batch_int /\ wf_batch w_batch_int = true /\ ts_col_ok w_batch_int = true /\
  apply (from_sql (Some w_nested)) w_batch_int 20 =
  Some (mkBatch 1 [(ts_name, CTs [Some 20]); ([118%N], CInt [Some 2])]).
Proof. vm_compute. repeat split; reflexivity. Qed.

(* topic filter witness: And [Tenant 1; Or [Shard "a"; Metrics ["m"]]] *)
Definition w_tf : tfilter := TAnd [TTenant 1; TOr [TShard [97%N]; TMetrics [[109%N]]]].
Definition w_evs : list (tevent nat) :=
  [TSend (mkMeta [97%N] 1 []) 1%nat; TRecv; TRecv;
   TSend (mkMeta [98%N] 1 [[109%N]; [110%N]]) 2%nat;
   TSend (mkMeta [97%N] 2 [[109%N]]) 3%nat;
   TSend (mkMeta [98%N] 1 [[110%N]]) 4%nat;
   TSend (mkMeta [97%N] 1 [[109%N]]) 5%nat; TRecv].

Lemma topic_witness : delivered w_tf w_evs = [1%nat; 2%nat; 5%nat].
Proof. vm_compute. reflexivity. Qed.
