(* Proofs/CacheProofs.v — C16: the tiered cache is transparent.

   Invariant (inv): every entry of L1 and of L2, and every byte string an
   in-flight reader carries between two of its steps, is the content the
   backing store holds under that key; every completed reader's result is the
   answer of the backing store at some moment between the reader's arrival
   and now.  It is preserved by every event: a step of any reader, an
   eviction of any entry of any tier, a new-object write.  Because the store
   is write-once (it only grows by appending keys that were absent) all of
   these facts are stable once established. *)
From CS Require Import Base.Prelude Model.Cache.
Open Scope N_scope.

(* ------------------------------------------------------------------ *)
(* association lists keyed by N                                         *)

Section AL.
  Context {V : Type}.
  Implicit Types (l m : list (key * V)).

  Lemma aget_aset_inv k k' (v v' : V) l :
    aget N.eqb k (aset N.eqb k' v l) = Some v' ->
    (k = k' /\ v' = v) \/ aget N.eqb k l = Some v'.
  Proof.
    induction l as [|[a w] r IH]; cbn [aset aget].
    - destruct (N.eqb k k') eqn:E; [|discriminate].
      intro H; inversion H; subst. left. split; [now apply N.eqb_eq|reflexivity].
    - destruct (N.eqb k' a) eqn:E1; cbn [aget].
      + apply N.eqb_eq in E1; subst a.
        destruct (N.eqb k k') eqn:E2.
        * intro H; inversion H; subst. left. split; [now apply N.eqb_eq|reflexivity].
        * intro H; right; exact H.
      + destruct (N.eqb k a) eqn:E2.
        * intro H; right; exact H.
        * exact IH.
  Qed.

  Lemma aget_aset_hit k (v : V) l : aget N.eqb k (aset N.eqb k v l) = Some v.
  Proof.
    induction l as [|[a w] r IH]; cbn [aset aget].
    - now rewrite N.eqb_refl.
    - destruct (N.eqb k a) eqn:E; cbn [aget]; rewrite E; [reflexivity|exact IH].
  Qed.

  Lemma aget_adel_same k l : aget N.eqb k (adel N.eqb k l) = None.
  Proof.
    induction l as [|[a w] r IH]; cbn [adel aget]; [reflexivity|].
    destruct (N.eqb k a) eqn:E; [exact IH|]. cbn [aget]. now rewrite E.
  Qed.

  Lemma aget_adel_inv k k' (v : V) l :
    aget N.eqb k (adel N.eqb k' l) = Some v -> aget N.eqb k l = Some v.
  Proof.
    induction l as [|[a w] r IH]; cbn [adel aget]; [discriminate|].
    destruct (N.eqb k' a) eqn:E1.
    - apply N.eqb_eq in E1; subst a.
      destruct (N.eqb k k') eqn:E2.
      + apply N.eqb_eq in E2; subst k'. rewrite aget_adel_same. discriminate.
      + exact IH.
    - cbn [aget]. destruct (N.eqb k a); [trivial|exact IH].
  Qed.

  Lemma aget_app_some k (v : V) l m :
    aget N.eqb k l = Some v -> aget N.eqb k (l ++ m) = Some v.
  Proof.
    induction l as [|[a w] r IH]; cbn [aget app]; [discriminate|].
    destruct (N.eqb k a); [trivial|exact IH].
  Qed.

  Lemma aget_app_none k l m :
    aget N.eqb k l = None -> aget N.eqb k (l ++ m) = aget N.eqb k m.
  Proof.
    induction l as [|[a w] r IH]; cbn [aget app]; [reflexivity|].
    destruct (N.eqb k a); [discriminate|exact IH].
  Qed.
End AL.
Arguments aget_aset_inv {V k k' v v' l} _.
Arguments aget_adel_inv {V k k' v l} _.
Arguments aget_app_none {V k l} m _.

(* ------------------------------------------------------------------ *)
(* the store only grows                                                 *)

Definition prefix (a b : store) : Prop := exists c, b = a ++ c.

Lemma prefix_refl a : prefix a a.
Proof. exists []. now rewrite app_nil_r. Qed.

Lemma prefix_trans a b c : prefix a b -> prefix b c -> prefix a c.
Proof. intros [x Hx] [y Hy]. exists (x ++ y). subst. now rewrite app_assoc. Qed.
Arguments prefix_trans {a b c} _ _.

Lemma prefix_antisym a b : prefix a b -> prefix b a -> a = b.
Proof.
  intros [x Hx] [y Hy]. subst b.
  assert (Hl : length a = length ((a ++ x) ++ y)) by (rewrite <- Hy; reflexivity).
  rewrite !app_length in Hl.
  destruct x as [|x0 xr]; [now rewrite app_nil_r|].
  cbn [length] in Hl. exfalso. clear Hy. revert Hl. generalize (length a) (length xr) (length y).
  intros n1 n2 n3 Hl. apply (Nat.lt_irrefl n1). rewrite Hl at 2.
  rewrite <- Nat.add_assoc. apply Nat.lt_add_pos_r. apply Nat.lt_0_succ.
Qed.
Arguments prefix_antisym {a b} _ _.

Lemma aget_prefix a b k o : prefix a b -> aget N.eqb k a = Some o -> aget N.eqb k b = Some o.
Proof. intros [c ->]. apply aget_app_some. Qed.
Arguments aget_prefix {a b k o} _ _.

Lemma aget_prefix_none a b k : prefix a b -> aget N.eqb k b = None -> aget N.eqb k a = None.
Proof.
  intros Hp Hb. destruct (aget N.eqb k a) as [o|] eqn:E; [|reflexivity].
  rewrite (aget_prefix Hp E) in Hb. discriminate.
Qed.
Arguments aget_prefix_none {a b k} _ _.

Lemma store_put_prefix st k o : prefix st (fst (store_put st k o)).
Proof.
  unfold store_put. destruct (aget N.eqb k st); cbn [fst].
  - apply prefix_refl.
  - now exists [(k, o)].
Qed.

(* write-once: a PUT never changes what an existing key holds *)
Lemma store_put_write_once st k o k' o' :
  aget N.eqb k' st = Some o' -> aget N.eqb k' (fst (store_put st k o)) = Some o'.
Proof. apply aget_prefix, store_put_prefix. Qed.

Lemma store_put_new st k o :
  aget N.eqb k st = None -> aget N.eqb k (fst (store_put st k o)) = Some o.
Proof.
  intro H. unfold store_put. rewrite H. cbn [fst].
  rewrite (aget_app_none _ H). cbn [aget]. now rewrite N.eqb_refl.
Qed.

(* ------------------------------------------------------------------ *)
(* reads on the store                                                   *)

Lemma get_opts_grow a b k o opts :
  prefix a b -> aget N.eqb k a = Some o -> store_get_opts a k opts = store_get_opts b k opts.
Proof.
  intros Hp Ha. unfold store_get_opts. now rewrite Ha, (aget_prefix Hp Ha).
Qed.
Arguments get_opts_grow {a b k o} opts _ _.

Lemma store_read_grow a b q o :
  prefix a b -> aget N.eqb (rkey q) a = Some o -> store_read a q = store_read b q.
Proof.
  intros Hp Ha. destruct q; cbn [store_read rkey] in *;
    now rewrite (get_opts_grow _ Hp Ha).
Qed.
Arguments store_read_grow {a b} q {o} _ _.

Lemma store_read_absent st q :
  aget N.eqb (rkey q) st = None -> store_read st q = Failed E_NOTFOUND.
Proof.
  intro H. destruct q; cbn [store_read rkey] in *; unfold store_get_opts; now rewrite H.
Qed.
Arguments store_read_absent {st} q _.

Lemma nobypass_same st k o :
  bypasses o = false -> store_get_opts st k o = store_get_opts st k default_opts.
Proof.
  destruct o as [r m nm md um v h]. unfold bypasses; cbn.
  destruct r; [discriminate|]. destruct m; [discriminate|]. destruct nm; [discriminate|].
  destruct md; [discriminate|]. destruct um; [discriminate|].
  destruct v; [discriminate|]. destruct h; [discriminate|]. intros _.
  unfold store_get_opts. destruct (aget N.eqb k st); reflexivity.
Qed.

(* on the cached path the request is a plain whole-object GET of its key *)
Lemma cached_read_eq st q :
  uses_cache q = true -> store_read st q = store_get_opts st (rkey q) default_opts.
Proof.
  destruct q; cbn [uses_cache store_read rkey]; try discriminate; [reflexivity|].
  intro H. apply nobypass_same. now destruct (bypasses o).
Qed.

Lemma get_default_done st k r :
  store_get_opts st k default_opts = Done r ->
  exists o, aget N.eqb k st = Some o /\ r = whole_resp (o_data o).
Proof.
  unfold store_get_opts. destruct (aget N.eqb k st) as [o|]; [|discriminate].
  cbn. intro H; inversion H. exists o. split; reflexivity.
Qed.
Arguments get_default_done {st k r} _.

Lemma get_default_present st k o :
  aget N.eqb k st = Some o -> store_get_opts st k default_opts = Done (whole_resp (o_data o)).
Proof. intro H. unfold store_get_opts. rewrite H. reflexivity. Qed.
Arguments get_default_present {st k o} _.

(* ------------------------------------------------------------------ *)
(* the invariant                                                        *)

Definition backed (st : store) (k : key) (b : bytes) : Prop :=
  exists o, aget N.eqb k st = Some o /\ o_data o = b.

Definition map_ok (st : store) (m : kvmap) : Prop :=
  forall k b, aget N.eqb k m = Some b -> backed st k b.

Definition l2_ok (st : store) (l2 : option kvmap) : Prop :=
  match l2 with Some m => map_ok st m | None => True end.

(* r is the backing store's answer at some moment between `born` and `st` *)
Definition exact_at (born st : store) (q : req) (r : outcome resp) : Prop :=
  exists mid, prefix born mid /\ prefix mid st /\ r = view q (store_read mid q).

Definition thread_ok (st : store) (t : thread) : Prop :=
  prefix (t_born t) st /\
  match t_pc t with
  | PStart | PL2 | PFetch => uses_cache (t_req t) = true
  | PPromote b | PInsL2 b | PInsL1 b =>
      uses_cache (t_req t) = true /\ backed st (rkey (t_req t)) b
  | PBypass => uses_cache (t_req t) = false
  | PDone r => exact_at (t_born t) st (t_req t) r
  end.

Definition inv (s : sys) : Prop :=
  map_ok (s_store s) (s_l1 s) /\ l2_ok (s_store s) (s_l2 s) /\
  Forall (thread_ok (s_store s)) (s_threads s).

Lemma backed_grow a b k x : prefix a b -> backed a k x -> backed b k x.
Proof. intros Hp [o [Ho Hd]]. exists o. split; [exact (aget_prefix Hp Ho)|exact Hd]. Qed.
Arguments backed_grow {a b k x} _ _.

Lemma map_ok_grow a b m : prefix a b -> map_ok a m -> map_ok b m.
Proof. intros Hp H k x Hk. exact (backed_grow Hp (H k x Hk)). Qed.
Arguments map_ok_grow {a b m} _ _.

Lemma map_ok_aset st m k b : map_ok st m -> backed st k b -> map_ok st (aset N.eqb k b m).
Proof.
  intros H Hb k' b' Hk. destruct (aget_aset_inv Hk) as [[-> ->]|Hold]; [exact Hb|exact (H _ _ Hold)].
Qed.
Arguments map_ok_aset {st m k b} _ _.

Lemma map_ok_adel st m k : map_ok st m -> map_ok st (adel N.eqb k m).
Proof. intros H k' b' Hk. exact (H _ _ (aget_adel_inv Hk)). Qed.
Arguments map_ok_adel {st m} k _.

Lemma exact_at_grow born a b q r : prefix a b -> exact_at born a q r -> exact_at born b q r.
Proof.
  intros Hp [mid [H1 [H2 H3]]]. exists mid. split; [exact H1|]. split; [exact (prefix_trans H2 Hp)|exact H3].
Qed.
Arguments exact_at_grow {born a b q r} _ _.

Lemma thread_ok_grow a b t : prefix a b -> thread_ok a t -> thread_ok b t.
Proof.
  intros Hp [Hb Hpc]. split; [exact (prefix_trans Hb Hp)|].
  destruct (t_pc t); try exact Hpc;
    try (destruct Hpc as [Hu Hk]; split; [exact Hu|exact (backed_grow Hp Hk)]).
  exact (exact_at_grow Hp Hpc).
Qed.
Arguments thread_ok_grow {a b t} _ _.

(* a cached-path answer built from bytes the store holds is the store's own answer *)
Lemma view_cached_backed st q b :
  uses_cache q = true -> backed st (rkey q) b ->
  view q (store_read st q) = Done (whole_resp b).
Proof.
  intros Hu [o [Ho Hd]]. unfold view. rewrite Hu, (cached_read_eq _ _ Hu), (get_default_present Ho).
  now subst b.
Qed.
Arguments view_cached_backed {st} q {b} _ _.

Lemma exact_now born st q r :
  prefix born st -> r = view q (store_read st q) -> exact_at born st q r.
Proof. intros Hp Hr. exists st. split; [exact Hp|]. split; [apply prefix_refl|exact Hr]. Qed.

(* one step of one reader preserves everything *)
Lemma tstep_ok st l1 l2 t p' l1' l2' :
  map_ok st l1 -> l2_ok st l2 -> thread_ok st t ->
  tstep st l1 l2 (t_req t) (t_pc t) = (p', l1', l2') ->
  map_ok st l1' /\ l2_ok st l2' /\ thread_ok st (mkThread (t_req t) (t_born t) p').
Proof.
  intros H1 H2 [Hb Hpc] Hs. unfold thread_ok; cbn [t_born t_pc t_req].
  unfold tstep, cache_key in Hs.
  destruct (t_pc t) as [| |b| |b|b| |r].
  - (* PStart *)
    destruct (aget N.eqb (rkey (t_req t)) l1) as [b|] eqn:E; inversion Hs; subst; clear Hs.
    + split; [exact H1|]. split; [exact H2|]. split; [exact Hb|].
      apply exact_now; [exact Hb|]. symmetry. apply view_cached_backed; [exact Hpc|exact (H1 _ _ E)].
    + split; [exact H1|]. split; [exact H2|]. split; [exact Hb|exact Hpc].
  - (* PL2 *)
    destruct l2 as [m|].
    + destruct (aget N.eqb (rkey (t_req t)) m) as [b|] eqn:E; inversion Hs; subst; clear Hs.
      * split; [exact H1|]. split; [exact H2|]. split; [exact Hb|]. split; [exact Hpc|exact (H2 _ _ E)].
      * split; [exact H1|]. split; [exact H2|]. split; [exact Hb|exact Hpc].
    + inversion Hs; subst; clear Hs.
      split; [exact H1|]. split; [exact H2|]. split; [exact Hb|exact Hpc].
  - (* PPromote *)
    destruct Hpc as [Hu Hk]. inversion Hs; subst; clear Hs.
    split; [exact (map_ok_aset H1 Hk)|]. split; [exact H2|]. split; [exact Hb|].
    apply exact_now; [exact Hb|]. symmetry. exact (view_cached_backed _ Hu Hk).
  - (* PFetch *)
    destruct (store_get_opts st (rkey (t_req t)) default_opts) as [r|e| |] eqn:E;
      inversion Hs; subst; clear Hs;
      (split; [exact H1|]); (split; [exact H2|]); (split; [exact Hb|]).
    + split; [exact Hpc|]. destruct (get_default_done E) as [o [Ho ->]]. exists o. split; [exact Ho|reflexivity].
    + apply exact_now; [exact Hb|]. unfold view. now rewrite Hpc, (cached_read_eq _ _ Hpc), E.
    + apply exact_now; [exact Hb|]. unfold view. now rewrite Hpc, (cached_read_eq _ _ Hpc), E.
    + apply exact_now; [exact Hb|]. unfold view. now rewrite Hpc, (cached_read_eq _ _ Hpc), E.
  - (* PInsL2 *)
    destruct Hpc as [Hu Hk]. inversion Hs; subst; clear Hs.
    split; [exact H1|]. split.
    + destruct l2 as [m|]; cbn [option_map l2_ok]; [exact (map_ok_aset H2 Hk)|exact I].
    + split; [exact Hb|]. split; [exact Hu|exact Hk].
  - (* PInsL1 *)
    destruct Hpc as [Hu Hk]. inversion Hs; subst; clear Hs.
    split; [exact (map_ok_aset H1 Hk)|]. split; [exact H2|]. split; [exact Hb|].
    apply exact_now; [exact Hb|]. symmetry. exact (view_cached_backed _ Hu Hk).
  - (* PBypass *)
    inversion Hs; subst; clear Hs.
    split; [exact H1|]. split; [exact H2|]. split; [exact Hb|].
    apply exact_now; [exact Hb|]. unfold view. now rewrite Hpc.
  - (* PDone *)
    inversion Hs; subst; clear Hs.
    split; [exact H1|]. split; [exact H2|]. split; [exact Hb|exact Hpc].
Qed.
Arguments tstep_ok {st l1 l2 t p' l1' l2'} _ _ _ _.

Lemma tstep_gen_ok miss st l1 l2 t p' l1' l2' :
  map_ok st l1 -> l2_ok st l2 -> thread_ok st t ->
  tstep_gen miss st l1 l2 (t_req t) (t_pc t) = (p', l1', l2') ->
  map_ok st l1' /\ l2_ok st l2' /\ thread_ok st (mkThread (t_req t) (t_born t) p').
Proof.
  intros H1 H2 Ht Hs. destruct miss; cbn [tstep_gen] in Hs; [|exact (tstep_ok H1 H2 Ht Hs)].
  unfold tstep_miss in Hs. destruct Ht as [Hb Hpc].
  destruct (t_pc t) as [| |b| |b|b| |r] eqn:E;
    try (apply (tstep_ok H1 H2); [split; [exact Hb|rewrite E; exact Hpc]|rewrite E; exact Hs]).
  - inversion Hs; subst. split; [exact H1|]. split; [exact H2|]. split; [exact Hb|exact Hpc].
  - inversion Hs; subst. split; [exact H1|]. split; [exact H2|]. split; [exact Hb|exact Hpc].
Qed.
Arguments tstep_gen_ok {miss st l1 l2 t p' l1' l2'} _ _ _ _.

(* ------------------------------------------------------------------ *)
(* lists of readers                                                     *)

Lemma set_nth_same {A} (x : A) l : forall i y, nth_error l i = Some y -> nth_error (set_nth i x l) i = Some x.
Proof.
  induction l as [|a r IH]; intros [|i] y H; cbn in *; try discriminate; [reflexivity|].
  exact (IH _ _ H).
Qed.
Arguments set_nth_same {A} x {l i y} _.

Lemma set_nth_other {A} (x : A) l : forall i j, i <> j -> nth_error (set_nth i x l) j = nth_error l j.
Proof.
  induction l as [|a r IH]; intros [|i] [|j] H; cbn; try reflexivity.
  - now contradiction H.
  - apply IH. intro E; apply H; now subst.
Qed.

Lemma Forall_set_nth {A} (P : A -> Prop) x l : forall i, Forall P l -> P x -> Forall P (set_nth i x l).
Proof.
  induction l as [|a r IH]; intros [|i] Hl Hx; cbn; inversion Hl; subst; constructor; auto.
Qed.

Lemma Forall_nth_error {A} (P : A -> Prop) l i x : Forall P l -> nth_error l i = Some x -> P x.
Proof. intros Hl Hx. rewrite Forall_forall in Hl. exact (Hl _ (nth_error_In _ _ Hx)). Qed.
Arguments Forall_nth_error {A P l i x} _ _.

(* ------------------------------------------------------------------ *)
(* every event preserves the invariant                                  *)

Lemma first_pc_ok st q : thread_ok st (mkThread q st (first_pc q)).
Proof.
  split; [apply prefix_refl|]. cbn [t_pc t_req]. unfold first_pc.
  destruct (uses_cache q); cbn; reflexivity.
Qed.

Lemma do_step_inv miss s i : inv s -> inv (do_step miss s i).
Proof.
  intros [H1 [H2 H3]]. unfold do_step.
  destruct (nth_error (s_threads s) i) as [t|] eqn:E; [|exact (conj H1 (conj H2 H3))].
  destruct (tstep_gen miss (s_store s) (s_l1 s) (s_l2 s) (t_req t) (t_pc t)) as [[p' l1'] l2'] eqn:Es.
  destruct (tstep_gen_ok H1 H2 (Forall_nth_error H3 E) Es) as [G1 [G2 G3]].
  split; [exact G1|]. split; [exact G2|]. cbn [s_threads s_store].
  apply Forall_set_nth; [exact H3|exact G3].
Qed.

Lemma apply_event_inv s e : inv s -> inv (apply_event s e).
Proof.
  intros [H1 [H2 H3]]. destruct e as [q|i|i|k|k|k o]; cbn [apply_event].
  - (* EStart *)
    split; [exact H1|]. split; [exact H2|]. cbn [s_threads s_store].
    apply Forall_app. split; [exact H3|]. constructor; [apply first_pc_ok|constructor].
  - (* EStep *) apply do_step_inv. exact (conj H1 (conj H2 H3)).
  - (* EStepMiss *) apply do_step_inv. exact (conj H1 (conj H2 H3)).
  - (* EEvict1 *)
    split; [exact (map_ok_adel k H1)|]. split; [exact H2|exact H3].
  - (* EEvict2 *)
    split; [exact H1|]. split; [|exact H3]. cbn [s_l2 s_store].
    destruct (s_l2 s) as [m|]; cbn [option_map l2_ok]; [exact (map_ok_adel k H2)|exact I].
  - (* EPut *)
    cbn [s_store s_l1 s_l2 s_threads].
    pose proof (store_put_prefix (s_store s) k o) as Hp.
    split; [exact (map_ok_grow Hp H1)|]. split.
    + destruct (s_l2 s) as [m|]; cbn [l2_ok] in *; [exact (map_ok_grow Hp H2)|exact I].
    + eapply Forall_impl; [|exact H3]. intros t Ht. exact (thread_ok_grow Hp Ht).
Qed.

Lemma run_inv sched : forall s, inv s -> inv (run sched s).
Proof.
  induction sched as [|e r IH]; intros s H; cbn [run fold_left]; [exact H|].
  apply IH, apply_event_inv, H.
Qed.
Arguments run_inv sched {s} _.

Lemma init_inv st l2_on : inv (init st l2_on).
Proof.
  unfold init, inv; cbn. split; [intros k b H; discriminate|]. split; [|constructor].
  destruct l2_on; cbn; [intros k b H; discriminate|exact I].
Qed.

(* cached ⊆ store, in every reachable state *)
Theorem cached_subset_store sched st0 l2_on :
  let s := run sched (init st0 l2_on) in
  (forall k b, aget N.eqb k (s_l1 s) = Some b ->
     exists o, aget N.eqb k (s_store s) = Some o /\ o_data o = b) /\
  (forall m k b, s_l2 s = Some m -> aget N.eqb k m = Some b ->
     exists o, aget N.eqb k (s_store s) = Some o /\ o_data o = b).
Proof.
  intro s. destruct (run_inv sched (init_inv st0 l2_on)) as [H1 [H2 _]]. fold s in H1, H2.
  split; [exact H1|]. intros m k b Hm. rewrite Hm in H2. exact (H2 k b).
Qed.

(* ------------------------------------------------------------------ *)
(* a reader's request and arrival snapshot never change; the store only grows *)

Lemma do_step_store miss s i : s_store (do_step miss s i) = s_store s.
Proof.
  unfold do_step. destruct (nth_error (s_threads s) i); [|reflexivity].
  now destruct (tstep_gen _ _ _ _ _ _) as [[p' l1'] l2'].
Qed.

Lemma apply_event_store s e : prefix (s_store s) (s_store (apply_event s e)).
Proof.
  destruct e as [q|i|i|k|k|k o]; cbn [apply_event]; try apply prefix_refl.
  - rewrite do_step_store. apply prefix_refl.
  - rewrite do_step_store. apply prefix_refl.
  - apply store_put_prefix.
Qed.

Lemma run_store sched : forall s, prefix (s_store s) (s_store (run sched s)).
Proof.
  induction sched as [|e r IH]; intro s; cbn [run fold_left]; [apply prefix_refl|].
  exact (prefix_trans (apply_event_store s e) (IH _)).
Qed.

Lemma do_step_static miss s j i t :
  nth_error (s_threads s) i = Some t ->
  exists t', nth_error (s_threads (do_step miss s j)) i = Some t' /\
             t_req t' = t_req t /\ t_born t' = t_born t.
Proof.
  intro H. unfold do_step.
  destruct (nth_error (s_threads s) j) as [u|] eqn:E; [|exists t; split; [exact H|split; reflexivity]].
  destruct (tstep_gen _ _ _ _ _ _) as [[p' l1'] l2']. cbn [s_threads].
  destruct (Nat.eq_dec j i) as [->|Hne].
  - rewrite H in E; inversion E; subst u.
    eexists. split; [exact (set_nth_same _ H)|split; reflexivity].
  - exists t. split; [|split; reflexivity]. now rewrite set_nth_other.
Qed.
Arguments do_step_static miss s j {i t} _.

Lemma apply_event_static s e i t :
  nth_error (s_threads s) i = Some t ->
  exists t', nth_error (s_threads (apply_event s e)) i = Some t' /\
             t_req t' = t_req t /\ t_born t' = t_born t.
Proof.
  intro H. destruct e as [q|j|j|k|k|k o]; cbn [apply_event]; try (exists t; split; [exact H|split; reflexivity]).
  - exists t. split; [|split; reflexivity]. cbn [s_threads].
    rewrite nth_error_app1; [exact H|]. apply nth_error_Some. now rewrite H.
  - exact (do_step_static false s j H).
  - exact (do_step_static true s j H).
Qed.
Arguments apply_event_static s e {i t} _.

Lemma run_static sched : forall s i t,
  nth_error (s_threads s) i = Some t ->
  exists t', nth_error (s_threads (run sched s)) i = Some t' /\
             t_req t' = t_req t /\ t_born t' = t_born t.
Proof.
  induction sched as [|e r IH]; intros s i t H; cbn [run fold_left].
  - exists t. split; [exact H|split; reflexivity].
  - destruct (apply_event_static s e H) as [t1 [H1 [Hq Hb]]].
    destruct (IH _ _ _ H1) as [t2 [H2 [Hq2 Hb2]]].
    exists t2. split; [exact H2|]. split; congruence.
Qed.
Arguments run_static sched {s i t} _.

(* ------------------------------------------------------------------ *)
(* main theorem: all interleavings, all eviction choices                *)

(* A reader that arrives after the schedule `pre` with request q, in ANY
   continuation `post` (steps of any readers in any order, evictions, new
   readers, new-object writes): if it has completed, its result is the
   backing store's own answer to q (error kinds re-wrapped on the cached
   path) on a store snapshot between its arrival and now. *)
Theorem transparent pre q post st0 l2_on :
  let s1 := run pre (init st0 l2_on) in
  let s := run post (apply_event s1 (EStart q)) in
  forall r, result_of s (length (s_threads s1)) = Some r ->
  exists mid, prefix (s_store s1) mid /\ prefix mid (s_store s) /\
              r = view q (store_read mid q).
Proof.
  intros s1 s r Hr.
  assert (Hinv : inv s).
  { apply run_inv, apply_event_inv, run_inv, init_inv. }
  assert (H0 : nth_error (s_threads (apply_event s1 (EStart q))) (length (s_threads s1))
               = Some (mkThread q (s_store s1) (first_pc q))).
  { cbn [apply_event s_threads]. rewrite nth_error_app2, Nat.sub_diag; [reflexivity|apply Nat.le_refl]. }
  destruct (run_static post H0) as [t [Ht [Hq Hb]]]. fold s in Ht.
  cbn [t_req t_born] in Hq, Hb.
  unfold result_of in Hr. rewrite Ht in Hr.
  destruct Hinv as [_ [_ H3]]. pose proof (Forall_nth_error H3 Ht) as [_ Hpc].
  destruct (t_pc t) as [| |b| |b|b| |r'] eqn:Epc; try discriminate.
  inversion Hr; subst r'. rewrite Hq, Hb in Hpc. exact Hpc.
Qed.

(* consequences *)

(* the object existed when the reader arrived: the result is the answer of
   the store as it is now (and as it was at arrival) — whatever was written,
   evicted or promoted in between *)
Theorem transparent_existing pre q post st0 l2_on :
  let s1 := run pre (init st0 l2_on) in
  let s := run post (apply_event s1 (EStart q)) in
  forall r o, result_of s (length (s_threads s1)) = Some r ->
  aget N.eqb (rkey q) (s_store s1) = Some o ->
  r = view q (store_read (s_store s) q) /\ r = view q (store_read (s_store s1) q).
Proof.
  intros s1 s r o Hr Ho.
  destruct (transparent pre q post st0 l2_on r Hr) as [mid [P1 [P2 ->]]].
  fold s1 in P1. fold s1 s in P2.
  pose proof (aget_prefix P1 Ho) as Hm.
  split.
  - now rewrite (store_read_grow q P2 Hm).
  - now rewrite <- (store_read_grow q P1 Ho).
Qed.

(* a read of a key the store does not hold (even now) fails with NotFound; it
   is never answered from anything cached *)
Theorem absent_fails pre q post st0 l2_on :
  let s1 := run pre (init st0 l2_on) in
  let s := run post (apply_event s1 (EStart q)) in
  forall r, result_of s (length (s_threads s1)) = Some r ->
  aget N.eqb (rkey q) (s_store s) = None ->
  r = view q (Failed E_NOTFOUND).
Proof.
  intros s1 s r Hr Hn.
  destruct (transparent pre q post st0 l2_on r Hr) as [mid [P1 [P2 ->]]].
  fold s1 s in P2. now rewrite (store_read_absent q (aget_prefix_none P2 Hn)).
Qed.

(* a successful read always carries content of its own key *)
Theorem success_is_own_key pre q post st0 l2_on :
  let s1 := run pre (init st0 l2_on) in
  let s := run post (apply_event s1 (EStart q)) in
  forall x, result_of s (length (s_threads s1)) = Some (Done x) ->
  exists o, aget N.eqb (rkey q) (s_store s) = Some o /\
            Done x = view q (store_read (s_store s) q).
Proof.
  intros s1 s x Hr.
  destruct (transparent pre q post st0 l2_on _ Hr) as [mid [P1 [P2 Hx]]].
  fold s1 s in P2.
  destruct (aget N.eqb (rkey q) mid) as [o|] eqn:E.
  - exists o. split; [exact (aget_prefix P2 E)|]. now rewrite <- (store_read_grow q P2 E).
  - rewrite (store_read_absent q E) in Hx. unfold view in Hx. destruct (uses_cache q); discriminate.
Qed.

(* whole-object reads return exactly the stored bytes *)
Theorem whole_exact pre k post st0 l2_on :
  let s1 := run pre (init st0 l2_on) in
  let s := run post (apply_event s1 (EStart (QGet k))) in
  forall x, result_of s (length (s_threads s1)) = Some (Done x) ->
  exists o, aget N.eqb k (s_store s) = Some o /\ x = whole_resp (o_data o).
Proof.
  intros s1 s x Hr.
  destruct (success_is_own_key pre (QGet k) post st0 l2_on x Hr) as [o [Ho Hx]].
  fold s1 s in Ho, Hx. cbn [rkey] in Ho. exists o. split; [exact Ho|].
  unfold view in Hx. cbn [uses_cache store_read] in Hx. rewrite (get_default_present Ho) in Hx.
  now inversion Hx.
Qed.

(* ranged reads return exactly the requested slice of the stored bytes *)
Theorem range_exact pre k a b post st0 l2_on :
  let s1 := run pre (init st0 l2_on) in
  let s := run post (apply_event s1 (EStart (QGetRange k a b))) in
  forall x, result_of s (length (s_threads s1)) = Some (Done x) ->
  exists o lo hi, aget N.eqb k (s_store s) = Some o /\
    as_range (RBounded a b) (lenN (o_data o)) = Some (lo, hi) /\
    x = mkResp (slice lo hi (o_data o)) lo hi (lenN (o_data o)).
Proof.
  intros s1 s x Hr.
  destruct (success_is_own_key pre (QGetRange k a b) post st0 l2_on x Hr) as [o [Ho Hx]].
  fold s1 s in Ho, Hx. cbn [rkey] in Ho.
  unfold view in Hx. cbn [uses_cache store_read] in Hx. unfold store_get_opts in Hx. rewrite Ho in Hx.
  cbn [check_pre range_opts g_if_match g_if_unmod g_if_none_match g_if_mod g_range] in Hx.
  destruct (as_range (RBounded a b) (lenN (o_data o))) as [[lo hi]|] eqn:E; [|discriminate].
  exists o, lo, hi. split; [exact Ho|]. split; [exact E|]. now inversion Hx.
Qed.

(* the slice is the usual one *)
Lemma takeN_firstn l : forall n, takeN n l = firstn (N.to_nat n) l.
Proof.
  induction l as [|x r IH]; intro n; cbn [takeN].
  - now destruct (N.to_nat n).
  - destruct (N.eqb_spec n 0) as [->|Hn]; [reflexivity|].
    replace (N.to_nat n) with (S (N.to_nat (N.pred n))) by lia.
    cbn [firstn]. now rewrite IH.
Qed.

Lemma skipN_skipn l : forall n, skipN n l = skipn (N.to_nat n) l.
Proof.
  induction l as [|x r IH]; intro n; cbn [skipN].
  - now destruct (N.to_nat n).
  - destruct (N.eqb_spec n 0) as [->|Hn]; [reflexivity|].
    replace (N.to_nat n) with (S (N.to_nat (N.pred n))) by lia.
    cbn [skipn]. now rewrite IH.
Qed.

Lemma slice_spec lo hi l :
  slice lo hi l = firstn (N.to_nat (hi - lo)) (skipn (N.to_nat lo) l).
Proof. unfold slice. now rewrite takeN_firstn, skipN_skipn. Qed.

Lemma lenN_length l : lenN l = N.of_nat (length l).
Proof. induction l as [|x r IH]; cbn [lenN length]; [reflexivity|]. rewrite IH. lia. Qed.

(* ------------------------------------------------------------------ *)
(* progress: a reader completes within max_steps of its own steps       *)

Definition rank (p : pc) : nat :=
  match p with
  | PStart => 5 | PL2 => 4 | PFetch => 3 | PInsL2 _ => 2
  | PInsL1 _ => 1 | PPromote _ => 1 | PBypass => 1 | PDone _ => 0
  end.

Lemma tstep_rank st l1 l2 q p p' l1' l2' :
  tstep st l1 l2 q p = (p', l1', l2') -> (rank p' <= rank p - 1)%nat.
Proof.
  unfold tstep. destruct p; intro H.
  - destruct (aget N.eqb (cache_key (rkey q)) l1); inversion H; subst; cbn; lia.
  - destruct l2 as [m|]; [destruct (aget N.eqb (cache_key (rkey q)) m)|]; inversion H; subst; cbn; lia.
  - inversion H; subst; cbn; lia.
  - destruct (store_get_opts st (rkey q) default_opts); inversion H; subst; cbn; lia.
  - inversion H; subst; cbn; lia.
  - inversion H; subst; cbn; lia.
  - inversion H; subst; cbn; lia.
  - inversion H; subst; cbn; lia.
Qed.
Arguments tstep_rank {st l1 l2 q p p' l1' l2'} _.

Lemma tstep_gen_rank miss st l1 l2 q p p' l1' l2' :
  tstep_gen miss st l1 l2 q p = (p', l1', l2') -> (rank p' <= rank p - 1)%nat.
Proof.
  destruct miss; cbn [tstep_gen]; [|apply tstep_rank].
  unfold tstep_miss. destruct p; try apply tstep_rank; intro H; inversion H; subst; cbn; lia.
Qed.
Arguments tstep_gen_rank {miss st l1 l2 q p p' l1' l2'} _.

Definition is_step (i : nat) (e : event) : bool :=
  match e with EStep j | EStepMiss j => Nat.eqb i j | _ => false end.

Lemma do_step_rank miss s j i t :
  nth_error (s_threads s) i = Some t ->
  exists t', nth_error (s_threads (do_step miss s j)) i = Some t' /\
    (rank (t_pc t') <= rank (t_pc t) - (if Nat.eqb i j then 1 else 0))%nat.
Proof.
  intro H. unfold do_step. destruct (Nat.eqb_spec i j) as [<-|Hne].
  - rewrite H. destruct (tstep_gen _ _ _ _ _ _) as [[p' l1'] l2'] eqn:Es. cbn [s_threads].
    eexists. split; [exact (set_nth_same _ H)|]. cbn [t_pc]. exact (tstep_gen_rank Es).
  - destruct (nth_error (s_threads s) j) as [u|] eqn:E; [|exists t; split; [exact H|lia]].
    destruct (tstep_gen _ _ _ _ _ _) as [[p' l1'] l2']. cbn [s_threads].
    exists t. split; [|lia]. rewrite set_nth_other; [exact H|]. intro X; apply Hne; now subst.
Qed.
Arguments do_step_rank miss s j {i t} _.
Definition steps_of (i : nat) (sched : list event) : nat := length (filter (is_step i) sched).

Lemma apply_event_rank s e i t :
  nth_error (s_threads s) i = Some t ->
  exists t', nth_error (s_threads (apply_event s e)) i = Some t' /\
    (rank (t_pc t') <= rank (t_pc t) - (if is_step i e then 1 else 0))%nat.
Proof.
  intro H. destruct e as [q|j|j|k|k|k o]; cbn [apply_event is_step];
    try (exists t; split; [exact H|lia]).
  - exists t. split; [|lia]. cbn [s_threads].
    rewrite nth_error_app1; [exact H|]. apply nth_error_Some. now rewrite H.
  - exact (do_step_rank false s j H).
  - exact (do_step_rank true s j H).
Qed.
Arguments apply_event_rank s e {i t} _.

Lemma run_rank sched : forall s i t,
  nth_error (s_threads s) i = Some t ->
  exists t', nth_error (s_threads (run sched s)) i = Some t' /\
    (rank (t_pc t') <= rank (t_pc t) - steps_of i sched)%nat.
Proof.
  induction sched as [|e r IH]; intros s i t H; cbn [run fold_left].
  - exists t. split; [exact H|]. unfold steps_of; cbn. lia.
  - destruct (apply_event_rank s e H) as [t1 [H1 R1]].
    destruct (IH _ _ _ H1) as [t2 [H2 R2]].
    exists t2. split; [exact H2|]. unfold steps_of in *. cbn [filter].
    destruct (is_step i e); cbn [length]; lia.
Qed.
Arguments run_rank sched {s i t} _.

Lemma rank0_done p : rank p = 0%nat -> exists r, p = PDone r.
Proof. destruct p; cbn; try discriminate. intros _. now eexists. Qed.

(* in any schedule in which the reader gets at least max_steps steps it has completed *)
Theorem reads_complete pre q post st0 l2_on :
  let s1 := run pre (init st0 l2_on) in
  let s := run post (apply_event s1 (EStart q)) in
  (max_steps <= steps_of (length (s_threads s1)) post)%nat ->
  exists r, result_of s (length (s_threads s1)) = Some r.
Proof.
  intros s1 s Hn.
  assert (H0 : nth_error (s_threads (apply_event s1 (EStart q))) (length (s_threads s1))
               = Some (mkThread q (s_store s1) (first_pc q))).
  { cbn [apply_event s_threads]. rewrite nth_error_app2, Nat.sub_diag; [reflexivity|apply Nat.le_refl]. }
  destruct (run_rank post H0) as [t [Ht R]]. fold s in Ht. cbn [t_pc] in R.
  assert (R0 : rank (t_pc t) = 0%nat).
  { unfold max_steps in Hn. assert (rank (first_pc q) <= 5)%nat by (unfold first_pc; destruct (uses_cache q); cbn; lia). lia. }
  destruct (rank0_done _ R0) as [r Hr]. exists r. unfold result_of. now rewrite Ht, Hr.
Qed.

(* ------------------------------------------------------------------ *)
(* sequential histories                                                 *)

Fixpoint spec_results (h : list sop) (st : store) : list (option (outcome resp)) :=
  match h with
  | [] => []
  | OPut k o :: r => spec_results r (fst (store_put st k o))
  | ORead q _ :: r => Some (view q (store_read st q)) :: spec_results r st
  end.

Fixpoint spec_store (h : list sop) (st : store) : store :=
  match h with
  | [] => st
  | OPut k o :: r => spec_store r (fst (store_put st k o))
  | ORead _ _ :: r => spec_store r st
  end.

Lemma evicts_store l : forall s, s_store (run (map evict_event l) s) = s_store s.
Proof.
  induction l as [|e r IH]; intro s; cbn [map run fold_left]; [reflexivity|].
  change (fold_left apply_event (map evict_event r) (apply_event s (evict_event e)))
    with (run (map evict_event r) (apply_event s (evict_event e))).
  rewrite IH. now destruct e.
Qed.

Lemma run_app a b s : run (a ++ b) s = run b (run a s).
Proof. unfold run. apply fold_left_app. Qed.

Lemma step_store s i (m : bool) :
  s_store (apply_event s (if m then EStepMiss i else EStep i)) = s_store s.
Proof. destruct m; cbn [apply_event]; apply do_step_store. Qed.

Lemma read_sched_store i f : forall ev s, s_store (run (read_sched i f ev) s) = s_store s.
Proof.
  induction f as [|f IH]; intros ev s; cbn [read_sched]; [reflexivity|].
  rewrite run_app. cbn [run fold_left].
  change (fold_left apply_event (read_sched i f (tl ev)) ?x) with (run (read_sched i f (tl ev)) x).
  now rewrite IH, step_store, evicts_store.
Qed.

Lemma filter_evicts i l : filter (is_step i) (map evict_event l) = [].
Proof. induction l as [|e r IH]; cbn; [reflexivity|]. now destruct e. Qed.

Lemma read_sched_steps i f : forall ev, steps_of i (read_sched i f ev) = f.
Proof.
  induction f as [|f IH]; intro ev; cbn [read_sched]; [reflexivity|].
  unfold steps_of in *. rewrite filter_app, filter_evicts. cbn [app].
  destruct (snd (hd ([], false) ev)); cbn [filter is_step];
    rewrite Nat.eqb_refl; cbn [length]; now rewrite IH.
Qed.

(* one sequential read from any state satisfying the invariant *)
Lemma seq_read_exact s q ev :
  inv s ->
  let i := length (s_threads s) in
  let s' := run (sop_sched i (ORead q ev)) s in
  inv s' /\ s_store s' = s_store s /\
  result_of s' i = Some (view q (store_read (s_store s) q)).
Proof.
  intros Hinv i s'.
  assert (Hinv' : inv s') by (apply run_inv, Hinv).
  assert (Hst : s_store s' = s_store s).
  { unfold s'. cbn [sop_sched run fold_left].
    change (fold_left apply_event ?l ?x) with (run l x). now rewrite read_sched_store. }
  split; [exact Hinv'|]. split; [exact Hst|].
  assert (H0 : nth_error (s_threads (apply_event s (EStart q))) i
               = Some (mkThread q (s_store s) (first_pc q))).
  { cbn [apply_event s_threads]. unfold i. rewrite nth_error_app2, Nat.sub_diag; [reflexivity|apply Nat.le_refl]. }
  assert (Es' : s' = run (read_sched i max_steps ev) (apply_event s (EStart q))) by reflexivity.
  destruct (run_rank (read_sched i max_steps ev) H0) as [t [Ht R]]. rewrite <- Es' in Ht.
  destruct (run_static (read_sched i max_steps ev) H0) as [t2 [Ht2 [Hq Hb]]]. rewrite <- Es' in Ht2.
  rewrite Ht in Ht2; inversion Ht2; subst t2; clear Ht2. cbn [t_req t_born t_pc] in *.
  rewrite read_sched_steps in R.
  assert (R0 : rank (t_pc t) = 0%nat).
  { unfold max_steps in R. assert (rank (first_pc q) <= 5)%nat by (unfold first_pc; destruct (uses_cache q); cbn; lia). lia. }
  destruct (rank0_done _ R0) as [r Hr].
  destruct Hinv' as [_ [_ H3]]. pose proof (Forall_nth_error H3 Ht) as [_ Hpc].
  rewrite Hr, Hq, Hb, Hst in Hpc. destruct Hpc as [mid [P1 [P2 ->]]].
  rewrite (prefix_antisym P1 P2).
  unfold result_of. now rewrite Ht, Hr.
Qed.
Arguments seq_read_exact {s} q ev _.

Lemma seq_run_exact h : forall s acc,
  inv s ->
  seq_run h s acc =
    (fst (seq_run h s acc), rev acc ++ spec_results h (s_store s)) /\
  s_store (fst (seq_run h s acc)) = spec_store h (s_store s).
Proof.
  induction h as [|o r IH]; intros s acc Hinv; cbn [seq_run spec_results spec_store].
  - cbn [fst]. now rewrite app_nil_r.
  - destruct o as [k ob|q ev].
    + assert (Hi : inv (run (sop_sched (length (s_threads s)) (OPut k ob)) s)) by (apply run_inv, Hinv).
      destruct (IH _ acc Hi) as [E1 E2]. cbn [sop_sched run fold_left apply_event s_store] in *.
      split; [exact E1|exact E2].
    + destruct (seq_read_exact q ev Hinv) as [Hi [Hst Hres]].
      destruct (IH _ (result_of (run (sop_sched (length (s_threads s)) (ORead q ev)) s) (length (s_threads s)) :: acc) Hi) as [E1 E2].
      rewrite Hst in E1, E2. split; [|exact E2].
      rewrite E1 at 1. f_equal. rewrite Hres. cbn [rev]. now rewrite <- app_assoc.
Qed.

(* sequential histories: every read completes and returns exactly what the
   backing store answers at that point of the history, for every choice of
   evictions before every step *)
Theorem transparent_sequential h st0 l2_on :
  snd (seq_run h (init st0 l2_on) []) = spec_results h st0 /\
  s_store (fst (seq_run h (init st0 l2_on) [])) = spec_store h st0.
Proof.
  destruct (seq_run_exact h (init st0 l2_on) [] (init_inv st0 l2_on)) as [E1 E2].
  split; [|exact E2]. rewrite E1. reflexivity.
Qed.

(* the cache key determines the object *)
Lemma cache_key_inj k1 k2 : cache_key k1 = cache_key k2 -> k1 = k2.
Proof. exact (fun H => H). Qed.

(* ------------------------------------------------------------------ *)
(* non-vacuity: concrete runs in which every tier answers, entries are
   evicted and promoted, readers race on one key with a writer, and the
   hypotheses of the theorems above are met                              *)

Definition ex_obj1 : obj := mkObj [10; 20; 30; 40] 7 100%Z.
Definition ex_obj2 : obj := mkObj [99] 8 200%Z.

(* fetch, L1 hit, L2 hit with promotion after an L1 eviction, fetch again after both were evicted *)
Definition ex_sched_tiers : list event :=
  [EStart (QGet 1); EStep 0; EStep 0; EStep 0; EStep 0; EStep 0;
   EStart (QGet 1); EStep 1;
   EEvict1 1; EStart (QGet 1); EStep 2; EStep 2; EStep 2;
   EEvict1 1; EEvict2 1; EStart (QGet 1); EStep 3; EStep 3; EStep 3; EStep 3; EStep 3].

Example ex_tiers :
  let s := run ex_sched_tiers (init [(1, ex_obj1); (12, ex_obj2)] true) in
  map (result_of s) [0; 1; 2; 3]%nat =
    [Some (Done (whole_resp [10; 20; 30; 40])); Some (Done (whole_resp [10; 20; 30; 40]));
     Some (Done (whole_resp [10; 20; 30; 40])); Some (Done (whole_resp [10; 20; 30; 40]))]
  /\ in_l1 s 1 = true /\ in_l2 s 1 = true /\ in_l1 s 12 = false.
Proof. vm_compute. repeat split. Qed.

(* the second reader is answered by L1 after one step, the third by L2 after three *)
Example ex_tiers_l1_hit :
  result_of (run (firstn 8 ex_sched_tiers) (init [(1, ex_obj1)] true)) 1%nat
  = Some (Done (whole_resp [10; 20; 30; 40])).
Proof. vm_compute. reflexivity. Qed.

(* two readers miss on the same absent key; a writer creates it between the
   first reader's fetch and the second reader's fetch: the first fails (and
   caches nothing), the second returns the new bytes, a later read of another
   absent key still fails and a ranged read is the slice *)
Definition ex_sched_race : list event :=
  [EStart (QGet 5); EStart (QGet 5);
   EStep 0; EStep 0; EStep 1; EStep 1;          (* both parked in front of the fetch *)
   EStep 0;                                      (* reader 0 fetches: absent *)
   EPut 5 ex_obj1;
   EStep 1; EStep 1; EStep 1;                    (* reader 1 fetches, inserts *)
   EStart (QGet 50); EStep 2; EStep 2; EStep 2;  (* a key that 5 is a "prefix" of *)
   EStart (QGetRange 5 1 3); EStep 3;
   EStart (QGetRange 50 1 3); EStep 4;
   EStart (QGet 5); EStep 5].

Example ex_race :
  let s := run ex_sched_race (init [] false) in
  map (result_of s) [0; 1; 2; 3; 4; 5]%nat =
    [Some (Failed (E_WRAP E_NOTFOUND)); Some (Done (whole_resp [10; 20; 30; 40]));
     Some (Failed (E_WRAP E_NOTFOUND)); Some (Done (mkResp [20; 30] 1 3 4));
     Some (Failed E_NOTFOUND); Some (Done (whole_resp [10; 20; 30; 40]))].
Proof. vm_compute. reflexivity. Qed.

(* conditional reads are decided by the backing store even when the object is cached *)
Definition ex_unmod (d : Z) : getopts := mkOpts None None None None (Some d) false false.
Definition ex_ifmatch (l : list N) : getopts := mkOpts None (Some (ETags l)) None None None false false.

Example ex_conditional :
  let s := run [EStart (QGet 1); EStep 0; EStep 0; EStep 0; EStep 0; EStep 0;
                EStart (QGetOpts 1 (ex_unmod 50)); EStep 1;
                EStart (QGetOpts 1 (ex_unmod 100)); EStep 2;
                EStart (QGetOpts 1 (ex_ifmatch [3; 7])); EStep 3;
                EStart (QGetOpts 1 (ex_ifmatch [3])); EStep 4;
                EStart (QGetOpts 1 default_opts); EStep 5;
                EStart (QHead 1); EStep 6]
               (init [(1, ex_obj1)] false) in
  map (result_of s) [1; 2; 3; 4; 5; 6]%nat =
    [Some (Failed E_PRECOND); Some (Done (whole_resp [10; 20; 30; 40]));
     Some (Done (whole_resp [10; 20; 30; 40])); Some (Failed E_PRECOND);
     Some (Done (whole_resp [10; 20; 30; 40])); Some (Done (mkResp [] 0 0 4))].
Proof. vm_compute. reflexivity. Qed.

(* a sequential history with evictions before individual steps *)
Definition ex_history : list sop :=
  [ORead (QGet 1) [];
   OPut 1 ex_obj1;
   ORead (QGet 1) [([Ev1 1], false); ([], true); ([], false); ([Ev2 1], false)];
   OPut 1 ex_obj2;                                   (* rejected: write-once *)
   ORead (QGet 1) [([Ev1 1], false)];
   ORead (QGet 1) [([], true); ([], true)];          (* both lookups come back empty: fetched again *)
   ORead (QGetRange 1 2 9) [];
   ORead (QGetOpts 2 default_opts) []].

Example ex_sequential :
  snd (seq_run ex_history (init [] true) []) =
    [Some (Failed (E_WRAP E_NOTFOUND)); Some (Done (whole_resp [10; 20; 30; 40]));
     Some (Done (whole_resp [10; 20; 30; 40])); Some (Done (whole_resp [10; 20; 30; 40]));
     Some (Done (mkResp [30; 40] 2 4 4)); Some (Failed (E_WRAP E_NOTFOUND))].
Proof. vm_compute. reflexivity. Qed.

(* a lookup that comes back empty does not remove the entry: L2 misses for
   reader 1 (EStepMiss) and serves reader 2 without any insert in between *)
Example ex_transient_miss :
  let s := run [EStart (QGet 1); EStep 0; EStep 0; EStep 0; EStep 0; EStep 0;
                EEvict1 1;
                EStart (QGet 1); EStep 1; EStepMiss 1;          (* parked in front of the fetch *)
                EStart (QGet 1); EStepMiss 2; EStep 2; EStep 2; (* L2 hit, promoted *)
                EStep 1; EStep 1; EStep 1]
               (init [(1, ex_obj1)] true) in
  map (result_of s) [0; 1; 2]%nat =
    [Some (Done (whole_resp [10; 20; 30; 40])); Some (Done (whole_resp [10; 20; 30; 40]));
     Some (Done (whole_resp [10; 20; 30; 40]))].
Proof. vm_compute. reflexivity. Qed.
