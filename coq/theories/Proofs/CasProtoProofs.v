(* Proofs/CasProtoProofs.v — linearizability of the generic CAS retry machine
   (Base/CasProto.v), proved once for an arbitrary [decide], for every schedule,
   any number of clients and any programs. *)
From CS Require Import Base.Prelude Base.CasProto.

Section CasProofs.
  Variables V Op Out : Type.
  Variable decide : Z -> Op -> option V -> decision V Out.
  Variable extra_gets : nat.
  Variable max_retries : nat.
  Variable v0 : option V.
  Variable now0 : Z.
  Variable progs : nat -> list Op.

  Notation commitT := (commit V Op Out).
  Notation clientT := (client V Op Out).
  Notation sysT := (sys V Op Out).
  Notation pcT := (pc V Op Out).
  Notation stepD := (step decide extra_gets max_retries).
  Notation runD := (run decide extra_gets max_retries).

  (* ---------------- small facts about the observables ---------------- *)
  Lemma last_val_app (v : option V) (log : list commitT) k :
    last_val v (log ++ [k]) = Some (k_val k).
  Proof. unfold last_val. rewrite fold_left_app. reflexivity. Qed.

  Lemma last_val_cons (v : option V) k (log : list commitT) :
    last_val v (k :: log) = last_val (Some (k_val k)) log.
  Proof. reflexivity. Qed.

  Lemma last_val_none (v : option V) (log : list commitT) :
    last_val v log = None -> v = None /\ log = [].
  Proof.
    destruct log as [|k r] using rev_ind; [intros H; split; [exact H|reflexivity]|].
    rewrite last_val_app. discriminate.
  Qed.

  Lemma last_put_app t (log : list commitT) k : last_put t (log ++ [k]) = k_put k.
  Proof. unfold last_put. rewrite fold_left_app. reflexivity. Qed.

  Lemma chain_app (log : list commitT) : forall prev k,
    chain decide prev log ->
    k_prev k = last_val prev log ->
    decide (k_now k) (k_op k) (last_val prev log) = Commit (k_val k) (k_out k) ->
    chain decide prev (log ++ [k]).
  Proof.
    induction log as [|a r IH]; intros prev k Hc Hp Hd; simpl in *.
    - repeat split; assumption.
    - destruct Hc as [Ha [Hb Hc]]. repeat split; try assumption.
      apply IH; assumption.
  Qed.

  Lemma times_chain_app (log : list commitT) : forall t k,
    times_chain t log -> (last_put t log <= k_now k)%Z -> (k_now k <= k_put k)%Z ->
    times_chain t (log ++ [k]).
  Proof.
    induction log as [|a r IH]; intros t k Hc H1 H2; simpl in *.
    - repeat split; assumption.
    - destruct Hc as [Ha [Hb Hc]]. repeat split; try assumption.
      apply IH; assumption.
  Qed.

  Lemma successes_app (d : list (Op * fin Out)) x :
    successes (d ++ [x]) =
    successes d ++ match snd x with FCommit o => [(fst x, o)] | _ => [] end.
  Proof. unfold successes. rewrite flat_map_app. simpl. rewrite app_nil_r. reflexivity. Qed.

  Lemma by_client_app c (log : list commitT) k :
    by_client c (log ++ [k]) = by_client c log ++ (if Nat.eqb (k_client k) c then [k] else []).
  Proof. unfold by_client. rewrite filter_app. simpl. destruct (Nat.eqb (k_client k) c); reflexivity. Qed.

  Lemma hist_last (log : list commitT) : hist v0 log (last_val v0 log).
  Proof.
    destruct log as [|k r] using rev_ind; [left; reflexivity|].
    right. exists k. split; [apply in_or_app; right; left; reflexivity|apply last_val_app].
  Qed.

  Lemma hist_mono (log : list commitT) k p : hist v0 log p -> hist v0 (log ++ [k]) p.
  Proof.
    intros [H|[k' [Hin Hp]]]; [left; exact H|].
    right. exists k'. split; [apply in_or_app; left; exact Hin|exact Hp].
  Qed.

  (* ---------------- the invariant ---------------- *)
  Definition pc_ok (cur : option (obj V)) (fresh : N) (now : Z) (log : list commitT) (p : pcT) : Prop :=
    match p with
    | AfterLoad op att snap dnow v' o =>
        decide dnow op (option_map o_val snap) = Commit v' o /\
        (dnow <= now)%Z /\
        (put_ok snap cur = true -> (last_put now0 log <= dnow)%Z) /\
        match snap with
        | Some ob => (o_ver ob < fresh)%N /\
                     (forall ob', cur = Some ob' -> o_ver ob = o_ver ob' -> o_val ob = o_val ob')
        | None => v0 = None
        end
    | Loading _ _ _ => v0 = None
    | _ => True
    end.

  Definition done_ok (log : list commitT) (d : list (Op * fin Out)) : Prop :=
    forall op o, In (op, FAbort o) d ->
      exists now prev, hist v0 log prev /\ decide now op prev = Abort o.

  Set Implicit Arguments.
  Record cl_inv (cur : option (obj V)) (fresh : N) (now : Z) (log : list commitT)
         (c : nat) (cl : clientT) : Prop := mkClInv {
    ci_pc : pc_ok cur fresh now log (c_pc cl);
    ci_succ : map op_out (by_client c log) = successes (c_done cl);
    ci_prog : map fst (c_done cl) ++ inflight (c_pc cl) ++ c_todo cl = progs c;
    ci_abort : done_ok log (c_done cl) }.

  Record Inv (s : sysT) : Prop := mkInv {
    inv_chain : chain decide v0 (s_log s);
    inv_last : cur_val s = last_val v0 (s_log s);
    inv_ver : forall ob, s_cur s = Some ob -> (o_ver ob < s_fresh s)%N;
    inv_times : times_chain now0 (s_log s);
    inv_now : (last_put now0 (s_log s) <= s_now s)%Z;
    inv_cl : forall c, cl_inv (s_cur s) (s_fresh s) (s_now s) (s_log s) c (s_cl s c) }.
  Unset Implicit Arguments.

  Lemma inv_init : Inv (init_sys v0 now0 progs).
  Proof.
    constructor; simpl.
    - exact I.
    - unfold cur_val; simpl. destruct v0; reflexivity.
    - intros ob H. destruct v0; simpl in H; [|discriminate]. inversion H; subst; simpl. lia.
    - exact I.
    - unfold last_put; simpl. lia.
    - intros c. constructor; simpl.
      + exact I.
      + reflexivity.
      + reflexivity.
      + intros op o [].
  Qed.

  (* a step that only replaces the record of client c *)
  Lemma inv_set_client s c x :
    Inv s -> cl_inv (s_cur s) (s_fresh s) (s_now s) (s_log s) c x -> Inv (set_client s c x).
  Proof.
    intros [H1 H2 H3 H4 H5 H6] Hx. constructor; simpl; try assumption.
    intros c'. unfold upd. destruct (Nat.eqb c' c) eqn:E.
    - apply Nat.eqb_eq in E. subst c'. exact Hx.
    - apply H6.
  Qed.

  (* the body runs to its PUT (or to its early return) on a snapshot that is
     either the current object or "absent" seen by the first GET of the load *)
  Lemma decided_ok s c cl todo op att snap :
    Inv s ->
    cl_inv (s_cur s) (s_fresh s) (s_now s) (s_log s) c cl ->
    inflight (c_pc cl) ++ c_todo cl = op :: todo ->
    (snap = s_cur s \/ (snap = None /\ v0 = None)) ->
    cl_inv (s_cur s) (s_fresh s) (s_now s) (s_log s) c (decided decide s cl todo op att snap).
  Proof.
    intros HI [Hpc Hsucc Hprog Hab] Hfl Hsnap. unfold decided.
    destruct (decide (s_now s) op (option_map o_val snap)) as [v' o|o] eqn:Hd.
    - (* Commit: parked before the PUT *)
      constructor; simpl.
      + split; [exact Hd|]. split; [lia|]. split; [intros _; apply (inv_now HI)|].
        destruct snap as [ob|].
        * destruct Hsnap as [Hs|[Hs _]]; [|discriminate].
          split; [apply (inv_ver HI); symmetry; exact Hs|].
          intros ob' Hc _. rewrite <- Hs in Hc. inversion Hc; reflexivity.
        * destruct Hsnap as [Hs|[_ Hs]]; [|exact Hs].
          pose proof (inv_last HI) as Hl. unfold cur_val in Hl. rewrite <- Hs in Hl. simpl in Hl.
          symmetry in Hl. apply last_val_none in Hl. tauto.
      + exact Hsucc.
      + rewrite <- Hprog. rewrite Hfl. reflexivity.
      + exact Hab.
    - (* Abort: the operation is over, nothing written *)
      constructor; simpl.
      + exact I.
      + rewrite successes_app. simpl. rewrite app_nil_r. exact Hsucc.
      + rewrite map_app. simpl. rewrite <- app_assoc. simpl. rewrite <- Hprog, Hfl. reflexivity.
      + intros op' o' Hin. apply in_app_or in Hin. destruct Hin as [Hin|[Heq|[]]].
        * apply Hab. exact Hin.
        * inversion Heq; subst op' o'. exists (s_now s), (option_map o_val snap). split; [|exact Hd].
          destruct Hsnap as [Hs|[Hs Hv]].
          -- subst snap. fold (cur_val s). rewrite (inv_last HI). apply hist_last.
          -- subst snap. simpl. left. symmetry. exact Hv.
  Qed.

  Lemma do_get_cases s cl todo op att :
    do_get decide extra_gets s cl todo op att = decided decide s cl todo op att (s_cur s) \/
    (s_cur s = None /\
     do_get decide extra_gets s cl todo op att = mkClient (Loading op att extra_gets) todo (c_done cl)).
  Proof.
    unfold do_get. destruct (s_cur s) as [ob|]; [left; reflexivity|].
    destruct extra_gets; [left; reflexivity|right; split; reflexivity].
  Qed.

  Lemma do_get_ok s c cl todo op att :
    Inv s ->
    cl_inv (s_cur s) (s_fresh s) (s_now s) (s_log s) c cl ->
    inflight (c_pc cl) ++ c_todo cl = op :: todo ->
    cl_inv (s_cur s) (s_fresh s) (s_now s) (s_log s) c (do_get decide extra_gets s cl todo op att).
  Proof.
    intros HI Hcl Hfl. destruct (do_get_cases s cl todo op att) as [E|[Hc E]]; rewrite E.
    - apply decided_ok; try assumption. left. reflexivity.
    - destruct Hcl as [Hpc Hsucc Hprog Hab]. constructor; simpl.
      + pose proof (inv_last HI) as Hl. unfold cur_val in Hl. rewrite Hc in Hl. simpl in Hl.
        symmetry in Hl. apply last_val_none in Hl. tauto.
      + exact Hsucc.
      + rewrite <- Hprog, Hfl. reflexivity.
      + exact Hab.
  Qed.

  Lemma pc_ok_tick cur fresh now now' log p :
    (now <= now')%Z -> pc_ok cur fresh now log p -> pc_ok cur fresh now' log p.
  Proof.
    intros Hle. destruct p as [|op att k|op att snap dnow v' o|op att]; simpl; try tauto.
    intros [A [B C]]. split; [exact A|]. split; [lia|exact C].
  Qed.

  (* a successful PUT of another client leaves a parked client consistent:
     its remembered ETag can never match again *)
  Lemma pc_ok_commit cur fresh now log k v' p :
    (forall ob, cur = Some ob -> (o_ver ob < fresh)%N) ->
    pc_ok cur fresh now log p ->
    pc_ok (Some (mkObj fresh v')) (N.succ fresh) now (log ++ [k]) p.
  Proof.
    intros Hver. destruct p as [|op att kk|op att snap dnow w o|op att]; simpl; try tauto.
    intros [A [B [C D]]]. split; [exact A|]. split; [exact B|].
    destruct snap as [ob|]; simpl.
    - destruct D as [D1 D2]. split.
      + intros Heq. apply N.eqb_eq in Heq. lia.
      + split; [lia|]. intros ob' Heq Hv. inversion Heq; subst ob'. simpl in Hv. lia.
    - split; [discriminate|exact D].
  Qed.

  Lemma inv_step s l : Inv s -> Inv (stepD s l).
  Proof.
    intros HI. destruct l as [c|d]; simpl.
    2:{ (* Tick *)
      destruct HI as [H1 H2 H3 H4 H5 H6]. constructor; simpl; try assumption.
      - lia.
      - intros c. destruct (H6 c) as [A B C D]. constructor; try assumption.
        apply (pc_ok_tick _ _ (s_now s)); [lia|exact A]. }
    pose proof (inv_cl HI c) as Hcl.
    destruct (c_pc (s_cl s c)) as [|op att k|op att snap dnow v' o|op att] eqn:Hpc.
    - (* Idle *)
      destruct (c_todo (s_cl s c)) as [|op rest] eqn:Htodo; [exact HI|].
      apply inv_set_client; [exact HI|]. apply do_get_ok; try assumption.
      rewrite Hpc, Htodo. reflexivity.
    - (* Loading *)
      destruct k as [|[|k']].
      + apply inv_set_client; [exact HI|]. apply decided_ok; try assumption.
        * rewrite Hpc. reflexivity.
        * right. split; [reflexivity|]. destruct Hcl as [A _ _ _]. rewrite Hpc in A. exact A.
      + apply inv_set_client; [exact HI|]. apply decided_ok; try assumption.
        * rewrite Hpc. reflexivity.
        * right. split; [reflexivity|]. destruct Hcl as [A _ _ _]. rewrite Hpc in A. exact A.
      + apply inv_set_client; [exact HI|]. destruct Hcl as [A B C D]. rewrite Hpc in A, C.
        constructor; simpl; assumption.
    - (* AfterLoad: the conditional PUT *)
      destruct Hcl as [A B C D]. rewrite Hpc in A, C. simpl in A, C.
      destruct A as [Hd [Hdn [Hlp Hsnap]]].
      destruct (put_ok snap (s_cur s)) eqn:Hput.
      + (* success *)
        assert (Hprev : option_map o_val snap = last_val v0 (s_log s)).
        { rewrite <- (inv_last HI). unfold cur_val.
          destruct snap as [a|], (s_cur s) as [b|] eqn:Hc; simpl in Hput; try discriminate; [|reflexivity].
          apply N.eqb_eq in Hput. simpl. f_equal. destruct Hsnap as [_ Hs]. apply (Hs b); [reflexivity|exact Hput]. }
        constructor; simpl.
        * apply chain_app; simpl; [apply (inv_chain HI)|exact Hprev|rewrite <- Hprev; exact Hd].
        * unfold cur_val; simpl. rewrite last_val_app. reflexivity.
        * intros ob Heq. inversion Heq; subst ob. simpl. lia.
        * apply times_chain_app; simpl; [apply (inv_times HI)|apply Hlp; reflexivity|exact Hdn].
        * rewrite last_put_app. simpl. lia.
        * intros c'. unfold upd. destruct (Nat.eqb c' c) eqn:E.
          -- apply Nat.eqb_eq in E. subst c'. constructor; simpl.
             ++ exact I.
             ++ rewrite by_client_app. simpl. rewrite Nat.eqb_refl. rewrite map_app, successes_app. simpl.
                rewrite B. reflexivity.
             ++ rewrite map_app. simpl. rewrite <- app_assoc. simpl. exact C.
             ++ intros op' o' Hin. apply in_app_or in Hin. destruct Hin as [Hin|[Heq|[]]]; [|discriminate].
                destruct (D _ _ Hin) as [n [p [Hh Hdd]]]. exists n, p. split; [apply hist_mono; exact Hh|exact Hdd].
          -- destruct (inv_cl HI c') as [A' B' C' D']. constructor.
             ++ apply (pc_ok_commit (s_cur s) (s_fresh s)); [apply (inv_ver HI)|exact A'].
             ++ rewrite by_client_app. simpl. rewrite Nat.eqb_sym, E. rewrite app_nil_r. exact B'.
             ++ exact C'.
             ++ intros op' o' Hin. destruct (D' _ _ Hin) as [n [p [Hh Hdd]]].
                exists n, p. split; [apply hist_mono; exact Hh|exact Hdd].
      + (* conflict *)
        destruct (Nat.leb max_retries (S att)).
        * apply inv_set_client; [exact HI|]. constructor; simpl.
          -- exact I.
          -- rewrite successes_app. simpl. rewrite app_nil_r. exact B.
          -- rewrite map_app. simpl. rewrite <- app_assoc. simpl. exact C.
          -- intros op' o' Hin. apply in_app_or in Hin. destruct Hin as [Hin|[Heq|[]]]; [|discriminate].
             apply D. exact Hin.
        * apply inv_set_client; [exact HI|]. constructor; simpl; try assumption. exact I.
    - (* Backoff: next attempt *)
      apply inv_set_client; [exact HI|]. apply do_get_ok; try assumption.
      rewrite Hpc. reflexivity.
  Qed.

  Lemma inv_run sched : forall s, Inv s -> Inv (runD sched s).
  Proof.
    induction sched as [|l r IH]; intros s HI; simpl; [exact HI|].
    apply IH. apply inv_step. exact HI.
  Qed.

  (* ------------------------------------------------------------------ *)
  (* the theorem                                                          *)
  (* ------------------------------------------------------------------ *)
  Theorem cas_linearizable (sched : list label) :
    let s := runD sched (init_sys v0 now0 progs) in
    (* 1. the versions written form a sequential execution: each commit was
          decided against the version written by the commit before it *)
    chain decide v0 (s_log s) /\
    (* 2. what a reader sees now is the last version written (or v0) *)
    cur_val s = last_val v0 (s_log s) /\
    (* 3. per client: its commits in the log are exactly its operations that
          returned FCommit, in program order, with the outputs they returned;
          FAbort / FRetries operations have no commit *)
    (forall c, map op_out (by_client c (s_log s)) = successes (c_done (s_cl s c))) /\
    (* 4. finished ++ in flight ++ not yet started = the client's program *)
    (forall c, map fst (c_done (s_cl s c)) ++ inflight (c_pc (s_cl s c)) ++ c_todo (s_cl s c) = progs c) /\
    (* 5. an aborting operation returned decide's answer to a version that existed *)
    (forall c op o, In (op, FAbort o) (c_done (s_cl s c)) ->
       exists now prev, hist v0 (s_log s) prev /\ decide now op prev = Abort o).
  Proof.
    intros s. pose proof (inv_run sched _ inv_init) as HI. fold s in HI.
    split; [apply (inv_chain HI)|]. split; [apply (inv_last HI)|].
    split; [intros c; apply (ci_succ (inv_cl HI c))|].
    split; [intros c; apply (ci_prog (inv_cl HI c))|].
    intros c op o Hin. apply (ci_abort (inv_cl HI c)). exact Hin.
  Qed.

  (* ---------------- corollaries ---------------- *)

  (* a chain is the sequential (atomic, one-at-a-time) execution of its
     operations in commit order *)
  Lemma chain_seq_exec (log : list commitT) : forall prev,
    chain decide prev log -> last_val prev log = seq_exec decide prev (log_ops log).
  Proof.
    induction log as [|k r IH]; intros prev Hc; [reflexivity|].
    destruct Hc as [_ [Hd Hc]]. rewrite last_val_cons.
    change (seq_exec decide prev (log_ops (k :: r)))
      with (seq_exec decide (fst (atomic decide (k_now k) (k_op k) prev)) (log_ops r)).
    unfold atomic. rewrite Hd. simpl. apply IH. exact Hc.
  Qed.

  Theorem cas_sequential (sched : list label) :
    let s := runD sched (init_sys v0 now0 progs) in
    cur_val s = seq_exec decide v0 (log_ops (s_log s)).
  Proof.
    intros s. destruct (cas_linearizable sched) as [Hc [Hl _]]. fold s in Hc, Hl.
    rewrite Hl. apply chain_seq_exec. exact Hc.
  Qed.

  Lemma chain_invariant (I : V -> Prop) :
    (forall now op prev v' o,
        match prev with Some v => I v | None => True end ->
        decide now op prev = Commit v' o -> I v') ->
    forall (log : list commitT) prev,
      match prev with Some v => I v | None => True end ->
      chain decide prev log ->
      Forall (fun k => I (k_val k)) log /\
      match last_val prev log with Some v => I v | None => True end.
  Proof.
    intros Hpres. induction log as [|k r IH]; intros prev Hp Hc.
    - split; [constructor|exact Hp].
    - destruct Hc as [_ [Hd Hc]]. pose proof (Hpres _ _ _ _ _ Hp Hd) as Hk.
      destruct (IH (Some (k_val k)) Hk Hc) as [A B]. split; [constructor; assumption|].
      rewrite last_val_cons. exact B.
  Qed.

  (* any predicate of values that holds initially and is preserved by every
     committing decide holds of every version ever written, and of what any
     reader can GET at any time *)
  Theorem cas_invariant (I : V -> Prop) (sched : list label) :
    match v0 with Some v => I v | None => True end ->
    (forall now op prev v' o,
        match prev with Some v => I v | None => True end ->
        decide now op prev = Commit v' o -> I v') ->
    let s := runD sched (init_sys v0 now0 progs) in
    Forall (fun k => I (k_val k)) (s_log s) /\
    match cur_val s with Some v => I v | None => True end.
  Proof.
    intros H0 Hpres s. destruct (cas_linearizable sched) as [Hc [Hl _]]. fold s in Hc, Hl.
    rewrite Hl. apply chain_invariant; assumption.
  Qed.

  Lemma chain_prev_some (log : list commitT) : forall prev,
    chain decide prev log ->
    match log with
    | [] => True
    | k :: r => k_prev k = prev /\ Forall (fun k' => k_prev k' <> None) r
    end.
  Proof.
    induction log as [|k r IH]; intros prev Hc; [exact I|].
    destruct Hc as [Hp [_ Hc]]. split; [exact Hp|].
    specialize (IH _ Hc). destruct r as [|k2 r2]; [constructor|].
    destruct IH as [A B]. constructor; [rewrite A; discriminate|exact B].
  Qed.

  (* creation (PutMode::Create) succeeds at most once, as the first commit,
     and only if the object was absent initially *)
  Theorem cas_create_once (sched : list label) :
    let s := runD sched (init_sys v0 now0 progs) in
    match s_log s with
    | [] => True
    | k :: r => k_prev k = v0 /\ Forall (fun k' => k_prev k' <> None) r
    end.
  Proof.
    intros s. destruct (cas_linearizable sched) as [Hc _]. fold s in Hc.
    apply chain_prev_some. exact Hc.
  Qed.

  (* an operation that did not return FCommit wrote nothing: the number of
     commits of a client equals the number of its FCommit results *)
  Theorem cas_failures_write_nothing (sched : list label) c :
    let s := runD sched (init_sys v0 now0 progs) in
    length (by_client c (s_log s)) = length (successes (c_done (s_cl s c))) /\
    (successes (c_done (s_cl s c)) = [] -> by_client c (s_log s) = []).
  Proof.
    intros s. destruct (cas_linearizable sched) as [_ [_ [H3 _]]]. fold s in H3.
    specialize (H3 c). split.
    - rewrite <- H3. rewrite map_length. reflexivity.
    - intros He. rewrite He in H3. destruct (by_client c (s_log s)); [reflexivity|discriminate].
  Qed.

  (* decide time <= PUT time <= decide time of the next commit *)
  Theorem cas_times_ordered (sched : list label) :
    let s := runD sched (init_sys v0 now0 progs) in
    times_chain now0 (s_log s) /\ (last_put now0 (s_log s) <= s_now s)%Z.
  Proof.
    intros s. pose proof (inv_run sched _ inv_init) as HI. fold s in HI.
    split; [apply (inv_times HI)|apply (inv_now HI)].
  Qed.

  (* ---------------- operations restricted by a predicate ---------------- *)
  Lemma successes_in (d : list (Op * fin Out)) op o :
    In (op, o) (successes d) -> In (op, FCommit o) d.
  Proof.
    unfold successes. rewrite in_flat_map. intros [[op' f] [Hin Hx]]. simpl in Hx.
    destruct f as [o'|o'|]; simpl in Hx; try contradiction.
    destruct Hx as [Heq|[]]. inversion Heq; subst. exact Hin.
  Qed.

  (* every commit in the log is an operation of its client's program *)
  Theorem cas_log_ops_in_progs (sched : list label) :
    let s := runD sched (init_sys v0 now0 progs) in
    Forall (fun k => In (k_op k) (progs (k_client k))) (s_log s).
  Proof.
    intros s. destruct (cas_linearizable sched) as [_ [_ [H3 [H4 _]]]]. fold s in H3, H4.
    apply Forall_forall. intros k Hk.
    assert (Hb : In k (by_client (k_client k) (s_log s))).
    { unfold by_client. apply filter_In. split; [exact Hk|apply Nat.eqb_refl]. }
    apply (in_map op_out) in Hb. rewrite H3 in Hb. unfold op_out in Hb.
    apply successes_in in Hb. apply (in_map fst) in Hb. simpl in Hb.
    rewrite <- (H4 (k_client k)). apply in_or_app. left. exact Hb.
  Qed.

  Lemma chain_invariant_ops (P : Op -> Prop) (I : V -> Prop) :
    (forall now op prev v' o,
        P op -> match prev with Some v => I v | None => True end ->
        decide now op prev = Commit v' o -> I v') ->
    forall (log : list commitT) prev,
      Forall (fun k => P (k_op k)) log ->
      match prev with Some v => I v | None => True end ->
      chain decide prev log ->
      Forall (fun k => I (k_val k)) log /\
      match last_val prev log with Some v => I v | None => True end.
  Proof.
    intros Hpres. induction log as [|k r IH]; intros prev HP Hp Hc.
    - split; [constructor|exact Hp].
    - destruct Hc as [_ [Hd Hc]]. inversion HP as [|? ? HPk HPr]; subst.
      pose proof (Hpres _ _ _ _ _ HPk Hp Hd) as Hk.
      destruct (IH (Some (k_val k)) HPr Hk Hc) as [A B]. split; [constructor; assumption|].
      exact B.
  Qed.

  (* cas_invariant when only the operations that actually occur in the
     programs are known to preserve I *)
  Theorem cas_invariant_ops (P : Op -> Prop) (I : V -> Prop) (sched : list label) :
    (forall c op, In op (progs c) -> P op) ->
    match v0 with Some v => I v | None => True end ->
    (forall now op prev v' o,
        P op -> match prev with Some v => I v | None => True end ->
        decide now op prev = Commit v' o -> I v') ->
    let s := runD sched (init_sys v0 now0 progs) in
    Forall (fun k => I (k_val k)) (s_log s) /\
    match cur_val s with Some v => I v | None => True end.
  Proof.
    intros HP H0 Hpres s. destruct (cas_linearizable sched) as [Hc [Hl _]]. fold s in Hc, Hl.
    rewrite Hl. apply (chain_invariant_ops P I Hpres); try assumption.
    pose proof (cas_log_ops_in_progs sched) as Hin. fold s in Hin.
    eapply Forall_impl; [|exact Hin]. intros k Hk. exact (HP _ _ Hk).
  Qed.

  (* a generic way to carry further (instance-specific) state invariants *)
  Lemma run_invariant (P : sysT -> Prop) :
    P (init_sys v0 now0 progs) ->
    (forall s l, Inv s -> P s -> P (stepD s l)) ->
    forall sched, P (runD sched (init_sys v0 now0 progs)).
  Proof.
    intros H0 Hstep sched.
    assert (H : forall s, Inv s -> P s -> Inv (runD sched s) /\ P (runD sched s)).
    { induction sched as [|l r IH]; intros s HI HP; simpl; [split; assumption|].
      apply IH; [apply inv_step; exact HI|apply Hstep; assumption]. }
    apply H; [apply inv_init|exact H0].
  Qed.
End CasProofs.

Arguments cas_linearizable {V Op Out} decide extra_gets max_retries v0 now0 progs sched.
Arguments cas_sequential {V Op Out} decide extra_gets max_retries v0 now0 progs sched.
Arguments cas_invariant {V Op Out} decide extra_gets max_retries v0 now0 progs I sched.
Arguments cas_create_once {V Op Out} decide extra_gets max_retries v0 now0 progs sched.
Arguments cas_failures_write_nothing {V Op Out} decide extra_gets max_retries v0 now0 progs sched c.
Arguments cas_times_ordered {V Op Out} decide extra_gets max_retries v0 now0 progs sched.
Arguments cas_log_ops_in_progs {V Op Out} decide extra_gets max_retries v0 now0 progs sched.
Arguments cas_invariant_ops {V Op Out} decide extra_gets max_retries v0 now0 progs P I sched.
Arguments chain_invariant_ops {V Op Out} decide P I.
Arguments run_invariant {V Op Out} decide extra_gets max_retries v0 now0 progs P.
Arguments chain_seq_exec {V Op Out} decide log prev.
Arguments chain_invariant {V Op Out} decide I.
Arguments chain_prev_some {V Op Out} decide log prev.
Arguments Inv {V Op Out} decide v0 now0 progs s.
Arguments cl_inv {V Op Out} decide v0 now0 progs cur fresh now log c cl.
Arguments pc_ok {V Op Out} decide v0 now0 cur fresh now log p.
Arguments inv_step {V Op Out} decide extra_gets max_retries v0 now0 progs s l.
Arguments inv_run {V Op Out} decide extra_gets max_retries v0 now0 progs sched s.
Arguments inv_init {V Op Out} decide v0 now0 progs.
