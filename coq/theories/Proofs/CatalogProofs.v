(* Proofs/CatalogProofs.v — exactness of the time-range lookup of both catalog
   backends for every history (C07), plus the well-formedness invariant of the
   object-store catalog that C02 re-uses. *)
From CS Require Import Base.Prelude Model.Catalog.
From CSGen Require Import Consts.
Open Scope Z_scope.

(* ------------------------------------------------------------------ *)
(* association-list facts                                               *)
(* ------------------------------------------------------------------ *)
Section AListFacts.
  Context {K V : Type}.
  Variable eqb : K -> K -> bool.
  Hypothesis eqb_spec : forall a b, eqb a b = true <-> a = b.

  Lemma eqb_refl_ k : eqb k k = true.
  Proof. apply eqb_spec; reflexivity. Qed.

  Lemma eqb_neq a b : a <> b -> eqb a b = false.
  Proof. intros Hn. destruct (eqb a b) eqn:E; [apply eqb_spec in E; contradiction|reflexivity]. Qed.

  Lemma aget_aset_same k (v : V) l : aget eqb k (aset eqb k v l) = Some v.
  Proof.
    induction l as [|[k' v'] r IH]; simpl.
    - rewrite eqb_refl_; reflexivity.
    - destruct (eqb k k') eqn:E; simpl; rewrite E; [reflexivity|exact IH].
  Qed.

  Lemma aget_aset_other k k' (v : V) l : k <> k' -> aget eqb k (aset eqb k' v l) = aget eqb k l.
  Proof.
    intros Hn. induction l as [|[k2 v2] r IH]; simpl.
    - rewrite (eqb_neq _ _ Hn); reflexivity.
    - destruct (eqb k' k2) eqn:E; simpl.
      + apply eqb_spec in E; subst k2. rewrite (eqb_neq _ _ Hn). reflexivity.
      + destruct (eqb k k2); [reflexivity|exact IH].
  Qed.

  Lemma aget_adel_same k (l : list (K * V)) : aget eqb k (adel eqb k l) = None.
  Proof.
    induction l as [|[k' v'] r IH]; simpl; [reflexivity|].
    destruct (eqb k k') eqn:E; simpl; [exact IH|rewrite E; exact IH].
  Qed.

  Lemma aget_adel_other k k' (l : list (K * V)) : k <> k' -> aget eqb k (adel eqb k' l) = aget eqb k l.
  Proof.
    intros Hn. induction l as [|[k2 v2] r IH]; simpl; [reflexivity|].
    destruct (eqb k' k2) eqn:E; simpl.
    - apply eqb_spec in E; subst k2. rewrite (eqb_neq _ _ Hn). exact IH.
    - destruct (eqb k k2); [reflexivity|exact IH].
  Qed.

  Lemma aget_In k (v : V) l : aget eqb k l = Some v -> In (k, v) l.
  Proof.
    induction l as [|[k' v'] r IH]; simpl; [discriminate|].
    destruct (eqb k k') eqn:E.
    - intros H; inversion H; subst. apply eqb_spec in E; subst. left; reflexivity.
    - intros H; right; exact (IH H).
  Qed.

  Lemma In_aget_nodup k (v : V) l : NoDup (map fst l) -> In (k, v) l -> aget eqb k l = Some v.
  Proof.
    induction l as [|[k' v'] r IH]; simpl; [contradiction|].
    intros Hnd [H|H].
    - inversion H; subst. rewrite eqb_refl_. reflexivity.
    - inversion Hnd as [|? ? Hnotin Hnd']; subst.
      destruct (eqb k k') eqn:E.
      + apply eqb_spec in E; subst k'. exfalso. apply Hnotin.
        change k with (fst (k, v)). apply in_map; exact H.
      + apply IH; assumption.
  Qed.

  Lemma keys_aset_in k k' (v : V) l : In k (map fst (aset eqb k' v l)) -> k = k' \/ In k (map fst l).
  Proof.
    induction l as [|[k2 v2] r IH]; simpl.
    - intros [H|[]]; left; symmetry; exact H.
    - destruct (eqb k' k2) eqn:E; simpl.
      + intros [H|H]; [right; left; exact H|right; right; exact H].
      + intros [H|H]; [right; left; exact H|].
        destruct (IH H) as [H1|H1]; [left; exact H1|right; right; exact H1].
  Qed.

  Lemma nodup_aset k (v : V) l : NoDup (map fst l) -> NoDup (map fst (aset eqb k v l)).
  Proof.
    induction l as [|[k2 v2] r IH]; simpl; intros Hnd.
    - constructor; [intros []|constructor].
    - inversion Hnd as [|? ? Hnotin Hnd']; subst.
      destruct (eqb k k2) eqn:E; simpl.
      + constructor; assumption.
      + constructor; [|apply IH; exact Hnd'].
        intros Hin. destruct (keys_aset_in _ _ _ _ Hin) as [H1|H1].
        * subst k2. rewrite eqb_refl_ in E. discriminate.
        * contradiction.
  Qed.

  Lemma keys_adel_in k k' (l : list (K * V)) : In k (map fst (adel eqb k' l)) -> In k (map fst l).
  Proof.
    induction l as [|[k2 v2] r IH]; simpl; [tauto|].
    destruct (eqb k' k2); simpl; [intros H; right; exact (IH H)|].
    intros [H|H]; [left; exact H|right; exact (IH H)].
  Qed.

  Lemma nodup_adel k (l : list (K * V)) : NoDup (map fst l) -> NoDup (map fst (adel eqb k l)).
  Proof.
    induction l as [|[k2 v2] r IH]; simpl; intros Hnd; [constructor|].
    inversion Hnd as [|? ? Hnotin Hnd']; subst.
    destruct (eqb k k2); simpl; [apply IH; exact Hnd'|].
    constructor; [|apply IH; exact Hnd'].
    intros Hin; apply Hnotin. exact (keys_adel_in _ _ _ Hin).
  Qed.
End AListFacts.

Lemma Neqb_spec a b : N.eqb a b = true <-> a = b.
Proof. apply N.eqb_eq. Qed.
Lemma Zeqb_spec a b : Z.eqb a b = true <-> a = b.
Proof. apply Z.eqb_eq. Qed.

Lemma memN_In x l : memN x l = true <-> In x l.
Proof.
  induction l as [|y r IH]; simpl; [split; [discriminate|tauto]|].
  rewrite orb_true_iff, IH, N.eqb_eq. split; intros [H|H]; auto.
Qed.

Lemma memZ_In x l : memZ x l = true <-> In x l.
Proof.
  induction l as [|y r IH]; simpl; [split; [discriminate|tauto]|].
  rewrite orb_true_iff, IH, Z.eqb_eq. split; intros [H|H]; auto.
Qed.

Lemma In_removeN q p l : In q (removeN p l) <-> In q l /\ q <> p.
Proof.
  unfold removeN. rewrite filter_In, negb_true_iff, N.eqb_neq. tauto.
Qed.

(* ------------------------------------------------------------------ *)
(* bucket arithmetic                                                    *)
(* ------------------------------------------------------------------ *)
Lemma bucketw_mono w a b : 0 < w -> a <= b -> bucketw w a <= bucketw w b.
Proof.
  intros Hw Hab. unfold bucketw.
  apply Z.mul_le_mono_nonneg_r; [lia|]. apply Z.quot_le_mono; lia.
Qed.

Lemma in_buckets_between w mn mx t :
  0 < w -> mn <= t <= mx ->
  In (bucketw w t) (buckets_between w (bucketw w mn) (bucketw w mx)).
Proof.
  intros Hw [H1 H2]. unfold buckets_between.
  assert (Hm1 : bucketw w mn <= bucketw w t) by (apply bucketw_mono; lia).
  assert (Hm2 : bucketw w t <= bucketw w mx) by (apply bucketw_mono; lia).
  replace (bucketw w mn <=? bucketw w mx) with true by (symmetry; apply Z.leb_le; lia).
  unfold bucketw in *.
  set (q0 := Z.quot mn w) in *. set (q := Z.quot t w) in *. set (q1 := Z.quot mx w) in *.
  assert (Hq0 : q0 <= q) by (apply Z.quot_le_mono; lia).
  assert (Hq1 : q <= q1) by (apply Z.quot_le_mono; lia).
  replace (q1 * w - q0 * w) with ((q1 - q0) * w) by ring.
  rewrite Z.quot_mul by lia.
  apply in_map_iff. exists (Z.to_nat (q - q0)). split.
  - rewrite Z2Nat.id by lia. ring.
  - apply in_seq. split; [lia|]. simpl. apply Nat.lt_succ_r. apply Z2Nat.inj_le; lia.
Qed.

(* ------------------------------------------------------------------ *)
(* time-index facts                                                     *)
(* ------------------------------------------------------------------ *)
Definition ti_has (ti : tindex) (b : Z) (p : path) : Prop :=
  exists l, aget Z.eqb b ti = Some l /\ In p l.

Lemma ti_has_range ti b p sb eb :
  ti_has ti b p -> sb <= b <= eb -> In p (ti_range sb eb ti).
Proof.
  intros [l [Hg Hin]] [H1 H2]. unfold ti_range. apply in_flat_map.
  exists (b, l). split; [apply (aget_In Z.eqb Zeqb_spec); exact Hg|].
  simpl. replace (sb <=? b) with true by (symmetry; apply Z.leb_le; lia).
  replace (b <=? eb) with true by (symmetry; apply Z.leb_le; lia). exact Hin.
Qed.

Lemma ti_push_has_new ti b p : ti_has (ti_push b p ti) b p.
Proof.
  unfold ti_push, ti_has. destruct (aget Z.eqb b ti) as [l|] eqn:E.
  - exists (l ++ [p]). rewrite (aget_aset_same Z.eqb Zeqb_spec). split; [reflexivity|].
    apply in_or_app; right; left; reflexivity.
  - exists [p]. rewrite (aget_aset_same Z.eqb Zeqb_spec). split; [reflexivity|left; reflexivity].
Qed.

Lemma ti_push_has_old ti b p b' q : ti_has ti b' q -> ti_has (ti_push b p ti) b' q.
Proof.
  intros [l [Hg Hin]]. unfold ti_push, ti_has.
  destruct (Z.eq_dec b' b) as [->|Hn].
  - rewrite Hg. exists (l ++ [p]). rewrite (aget_aset_same Z.eqb Zeqb_spec).
    split; [reflexivity|apply in_or_app; left; exact Hin].
  - exists l. split; [|exact Hin].
    destruct (aget Z.eqb b ti); rewrite (aget_aset_other Z.eqb Zeqb_spec) by exact Hn; exact Hg.
Qed.

Lemma ti_push_all_has_old bs ti p b' q : ti_has ti b' q -> ti_has (ti_push_all bs p ti) b' q.
Proof.
  unfold ti_push_all. revert ti. induction bs as [|b r IH]; simpl; intros ti H; [exact H|].
  apply IH. apply ti_push_has_old. exact H.
Qed.

Lemma ti_push_all_has_new bs ti p b : In b bs -> ti_has (ti_push_all bs p ti) b p.
Proof.
  unfold ti_push_all. revert ti. induction bs as [|b0 r IH]; simpl; intros ti Hin; [contradiction|].
  destruct Hin as [->|Hin].
  - apply (ti_push_all_has_old r). apply ti_push_has_new.
  - apply IH. exact Hin.
Qed.

Lemma aget_map_vals (f : Z -> list path -> list path) ti b :
  aget Z.eqb b (map (fun '(b0, l) => (b0, f b0 l)) ti) = option_map (f b) (aget Z.eqb b ti).
Proof.
  induction ti as [|[b0 l] r IH]; simpl; [reflexivity|].
  destruct (Z.eqb b b0) eqn:E; [apply Z.eqb_eq in E; subst; reflexivity|exact IH].
Qed.

Lemma ti_retain_all_has ti p b q : q <> p -> ti_has ti b q -> ti_has (ti_retain_all p ti) b q.
Proof.
  intros Hn [l [Hg Hin]]. unfold ti_has, ti_retain_all.
  rewrite (aget_map_vals (fun _ l => removeN p l)). rewrite Hg. simpl.
  eexists; split; [reflexivity|]. apply In_removeN. split; assumption.
Qed.

Lemma ti_retain_in_has bs ti p b q : q <> p -> ti_has ti b q -> ti_has (ti_retain_in bs p ti) b q.
Proof.
  intros Hn [l [Hg Hin]]. unfold ti_has, ti_retain_in.
  assert (Heq : map (fun '(b0, l0) => if memZ b0 bs then (b0, removeN p l0) else (b0, l0)) ti
                = map (fun '(b0, l0) => (b0, (fun b1 l1 => if memZ b1 bs then removeN p l1 else l1) b0 l0)) ti).
  { apply map_ext. intros [b0 l0]. destruct (memZ b0 bs); reflexivity. }
  rewrite Heq, aget_map_vals, Hg. simpl.
  eexists; split; [reflexivity|].
  destruct (memZ b bs); [apply In_removeN; split; assumption|exact Hin].
Qed.

Lemma aget_filter_nonempty ti b l :
  aget Z.eqb b ti = Some l -> l <> [] ->
  aget Z.eqb b (ti_drop_empty ti) = Some l.
Proof.
  unfold ti_drop_empty. induction ti as [|[b0 l0] r IH]; simpl; [discriminate|].
  destruct (Z.eqb b b0) eqn:E.
  - intros H Hne; inversion H; subst. destruct l as [|x xs]; [contradiction|]. simpl. rewrite E. reflexivity.
  - intros H Hne. destruct l0 as [|x xs]; simpl; [apply IH; assumption|]. rewrite E. apply IH; assumption.
Qed.

Lemma ti_drop_empty_has ti b q : ti_has ti b q -> ti_has (ti_drop_empty ti) b q.
Proof.
  intros [l [Hg Hin]]. exists l. split; [|exact Hin].
  apply aget_filter_nonempty; [exact Hg|]. intros ->. contradiction.
Qed.

(* ------------------------------------------------------------------ *)
(* the scan: sound, complete, duplicate-free                            *)
(* ------------------------------------------------------------------ *)
Lemma scan_sound look s e seen ps p m :
  In (p, m) (scan look s e seen ps) ->
  look p = Some m /\ overlaps (m_min m) (m_max m) s e = true /\ In p ps /\ ~ In p seen.
Proof.
  revert seen. induction ps as [|x r IH]; simpl; intros seen H; [contradiction|].
  destruct (memN x seen) eqn:Em.
  - destruct (IH _ H) as [A [B [C D]]]. repeat split; auto.
  - assert (Hx : ~ In x seen) by (intros Hc; apply memN_In in Hc; congruence).
    destruct (look x) as [mx|] eqn:El.
    + destruct (overlaps (m_min mx) (m_max mx) s e) eqn:Eo.
      * destruct H as [H|H].
        -- inversion H; subst. repeat split; auto.
        -- destruct (IH _ H) as [A [B [C D]]]. repeat split; auto. intros Hc; apply D; right; exact Hc.
      * destruct (IH _ H) as [A [B [C D]]]. repeat split; auto. intros Hc; apply D; right; exact Hc.
    + destruct (IH _ H) as [A [B [C D]]]. repeat split; auto. intros Hc; apply D; right; exact Hc.
Qed.

Lemma scan_complete look s e seen ps p m :
  In p ps -> ~ In p seen -> look p = Some m -> overlaps (m_min m) (m_max m) s e = true ->
  In (p, m) (scan look s e seen ps).
Proof.
  revert seen. induction ps as [|x r IH]; simpl; intros seen Hin Hns Hl Ho; [contradiction|].
  destruct (N.eq_dec x p) as [->|Hn].
  - replace (memN p seen) with false
      by (symmetry; destruct (memN p seen) eqn:E; [apply memN_In in E; contradiction|reflexivity]).
    rewrite Hl, Ho. left; reflexivity.
  - destruct Hin as [Hc|Hin]; [contradiction|].
    destruct (memN x seen); [apply IH; assumption|].
    assert (Hns' : ~ In p (x :: seen)) by (intros Hc; destruct Hc as [Hc|Hc]; [apply Hn; exact Hc|contradiction]).
    destruct (look x) as [mx|]; [destruct (overlaps (m_min mx) (m_max mx) s e); [simpl; right|]|]; apply IH; assumption.
Qed.

Lemma scan_nodup look s e seen ps : NoDup (map fst (scan look s e seen ps)).
Proof.
  revert seen. induction ps as [|x r IH]; simpl; intros seen; [constructor|].
  destruct (memN x seen); [apply IH|].
  destruct (look x) as [mx|]; [destruct (overlaps (m_min mx) (m_max mx) s e)|]; try apply IH.
  simpl. constructor; [|apply IH].
  intros Hin. apply in_map_iff in Hin. destruct Hin as [[p m] [Hp Hin]]. simpl in Hp; subst p.
  destruct (scan_sound _ _ _ _ _ _ _ Hin) as [_ [_ [_ D]]]. apply D. left; reflexivity.
Qed.

(* ------------------------------------------------------------------ *)
(* generic exactness: a lookup function + an index that covers it       *)
(* ------------------------------------------------------------------ *)
Definition indexed (w : Z) (look : path -> option cmeta) (ti : tindex) : Prop :=
  forall p m, look p = Some m ->
    forall b, In b (buckets_between w (bucketw w (m_min m)) (bucketw w (m_max m))) -> ti_has ti b p.

Definition wf_meta (look : path -> option cmeta) : Prop :=
  forall p m, look p = Some m -> m_min m <= m_max m.

Definition agrees (look : path -> option cmeta) (sp : spec) : Prop :=
  NoDup (map fst sp) /\ forall p, look p = aget N.eqb p sp.

Lemma scan_exact w look ti sp s e :
  0 < w -> s <= e -> indexed w look ti -> wf_meta look -> agrees look sp ->
  let r := scan look s e [] (ti_range (bucketw w s) (bucketw w e) ti) in
  NoDup (map fst r) /\ forall p m, In (p, m) r <-> In (p, m) (spec_get sp s e).
Proof.
  intros Hw Hse Hidx Hwf [Hnd Hag] r. split; [apply scan_nodup|].
  intros p m. unfold spec_get. replace (e <? s) with false by (symmetry; apply Z.ltb_ge; lia).
  rewrite filter_In. split.
  - intros H. destruct (scan_sound _ _ _ _ _ _ _ H) as [A [B _]]. split; [|exact B].
    apply (aget_In N.eqb Neqb_spec). rewrite <- Hag. exact A.
  - intros [Hin Ho]. assert (Hl : look p = Some m).
    { rewrite Hag. apply (In_aget_nodup N.eqb Neqb_spec); assumption. }
    apply scan_complete; [|intros []|exact Hl|exact Ho].
    unfold overlaps in Ho. apply andb_true_iff in Ho. destruct Ho as [Ho1 Ho2].
    apply Z.leb_le in Ho1. apply Z.geb_le in Ho2.
    pose proof (Hwf _ _ Hl) as Hmm.
    set (t := Z.max (m_min m) s).
    apply (ti_has_range ti (bucketw w t) p).
    + apply (Hidx _ _ Hl). apply in_buckets_between; [exact Hw|]. unfold t; lia.
    + split; apply bucketw_mono; unfold t; lia.
Qed.

(* ------------------------------------------------------------------ *)
(* invariants of the two backends over histories                        *)
(* ------------------------------------------------------------------ *)
Definition s3_look (c : cat) : path -> option cmeta :=
  fun p => option_map e_meta (aget N.eqb p (c_chunks c)).
Definition local_look (c : lcat) : path -> option cmeta :=
  fun p => aget N.eqb p (l_chunks c).

Definition widths_agree : Prop :=
  0 < Consts.S3_GET_BUCKET_NANOS /\
  Consts.S3_REGISTER_BUCKET_NANOS = Consts.S3_GET_BUCKET_NANOS /\
  Consts.LOCAL_BUCKET_NANOS = Consts.S3_GET_BUCKET_NANOS /\
  Consts.LOCAL_STEP_NANOS = Consts.S3_GET_BUCKET_NANOS.

(* discharged by computation from the constants extracted from the Rust code *)
Lemma widths_agree_holds : widths_agree.
Proof. unfold widths_agree. repeat split; reflexivity. Qed.

Definition W : Z := Consts.S3_GET_BUCKET_NANOS.

Definition s3_inv (c : cat) (sp : spec) : Prop :=
  indexed W (s3_look c) (c_tindex c) /\ wf_meta (s3_look c) /\ agrees (s3_look c) sp.
Definition local_inv (c : lcat) (sp : spec) : Prop :=
  indexed W (local_look c) (l_tindex c) /\ wf_meta (local_look c) /\ agrees (local_look c) sp.

Definition hist_ok (h : list cop) : Prop :=
  Forall (fun o => match o with ORegister _ m => m_min m <= m_max m | _ => True end) h.

(* one deletion step (without the final drop of empty buckets) *)
Definition s3_del1 (c : cat) (p : path) : cat :=
  mkCat (adel N.eqb p (c_chunks c)) (ti_retain_all p (c_tindex c)).

Lemma s3_del1_inv c sp p : s3_inv c sp -> s3_inv (s3_del1 c p) (adel N.eqb p sp).
Proof.
  intros [Hi [Hw [Hnd Hag]]]. unfold s3_inv, s3_look, s3_del1; simpl.
  assert (Hlk : forall q, option_map e_meta (aget N.eqb q (adel N.eqb p (c_chunks c)))
                          = if N.eqb q p then None else s3_look c q).
  { intros q. destruct (N.eqb q p) eqn:E.
    - apply N.eqb_eq in E; subst. rewrite (aget_adel_same N.eqb). reflexivity.
    - apply N.eqb_neq in E. rewrite (aget_adel_other N.eqb Neqb_spec) by exact E. reflexivity. }
  split; [|split; [|split]].
  - intros q m Hq b Hb. rewrite Hlk in Hq. destruct (N.eqb q p) eqn:E; [discriminate|].
    apply N.eqb_neq in E. apply ti_retain_all_has; [exact E|]. exact (Hi _ _ Hq _ Hb).
  - intros q m Hq. rewrite Hlk in Hq. destruct (N.eqb q p); [discriminate|]. exact (Hw _ _ Hq).
  - apply nodup_adel. exact Hnd.
  - intros q. rewrite Hlk. destruct (N.eqb q p) eqn:E.
    + apply N.eqb_eq in E; subst. rewrite (aget_adel_same N.eqb). reflexivity.
    + apply N.eqb_neq in E. rewrite (aget_adel_other N.eqb Neqb_spec) by exact E. apply Hag.
Qed.

Lemma s3_drop_inv c sp : s3_inv c sp -> s3_inv (mkCat (c_chunks c) (ti_drop_empty (c_tindex c))) sp.
Proof.
  intros [Hi [Hw Hag]]. unfold s3_inv, s3_look in *; simpl. split; [|split; assumption].
  intros q m Hq b Hb. apply ti_drop_empty_has. exact (Hi _ _ Hq _ Hb).
Qed.

Lemma s3_fold_del1 srcs : forall c sp, s3_inv c sp ->
  s3_inv (fold_left s3_del1 srcs c) (fold_left (fun s p => adel N.eqb p s) srcs sp).
Proof.
  induction srcs as [|p r IH]; simpl; intros c sp H; [exact H|].
  apply IH. apply s3_del1_inv. exact H.
Qed.

Lemma s3_register_inv c sp p m :
  m_min m <= m_max m -> s3_inv c sp -> s3_inv (s3_register c p m) (aset N.eqb p m sp).
Proof.
  destruct widths_agree_holds as [Hpos [Hreg _]].
  intros Hmm [Hi [Hw [Hnd Hag]]]. unfold s3_inv, s3_look, s3_register; simpl.
  assert (Hlk : forall q, option_map e_meta (aget N.eqb q (aset N.eqb p (mkEntry m 0) (c_chunks c)))
                          = if N.eqb q p then Some m else s3_look c q).
  { intros q. destruct (N.eqb q p) eqn:E.
    - apply N.eqb_eq in E; subst. rewrite (aget_aset_same N.eqb Neqb_spec). reflexivity.
    - apply N.eqb_neq in E. rewrite (aget_aset_other N.eqb Neqb_spec) by exact E. reflexivity. }
  rewrite Hreg. fold W.
  split; [|split; [|split]].
  - intros q mq Hq b Hb. rewrite Hlk in Hq. destruct (N.eqb q p) eqn:E.
    + apply N.eqb_eq in E; subst q. inversion Hq; subst mq. apply ti_push_all_has_new. exact Hb.
    + apply ti_push_all_has_old. exact (Hi _ _ Hq _ Hb).
  - intros q mq Hq. rewrite Hlk in Hq. destruct (N.eqb q p); [inversion Hq; subst; exact Hmm|exact (Hw _ _ Hq)].
  - apply nodup_aset; [exact Neqb_spec|exact Hnd].
  - intros q. rewrite Hlk. destruct (N.eqb q p) eqn:E.
    + apply N.eqb_eq in E; subst. rewrite (aget_aset_same N.eqb Neqb_spec). reflexivity.
    + apply N.eqb_neq in E. rewrite (aget_aset_other N.eqb Neqb_spec) by exact E. apply Hag.
Qed.

Lemma s3_delete_inv c sp p : s3_inv c sp -> s3_inv (s3_delete c p) (adel N.eqb p sp).
Proof.
  intros H. apply (s3_drop_inv (s3_del1 c p)). apply s3_del1_inv. exact H.
Qed.

Lemma s3_complete_eq c srcs tgt :
  s3_complete c srcs tgt =
  let c1 := fold_left s3_del1 srcs c in
  match aget N.eqb tgt (c_chunks c1) with
  | Some e => Some (mkCat (aset N.eqb tgt (mkEntry (e_meta e)
                 (max_level (fun p => option_map e_level (aget N.eqb p (c_chunks c))) srcs + 1)%N) (c_chunks c1))
                 (ti_drop_empty (c_tindex c1)))
  | None => None
  end.
Proof. reflexivity. Qed.

Lemma s3_relevel_inv c sp tgt e lvl :
  aget N.eqb tgt (c_chunks c) = Some e -> s3_inv c sp ->
  s3_inv (mkCat (aset N.eqb tgt (mkEntry (e_meta e) lvl) (c_chunks c)) (c_tindex c)) sp.
Proof.
  intros Hg [Hi [Hw Hag]]. unfold s3_inv, s3_look in *; simpl.
  assert (Hlk : forall q, option_map e_meta (aget N.eqb q (aset N.eqb tgt (mkEntry (e_meta e) lvl) (c_chunks c)))
                          = option_map e_meta (aget N.eqb q (c_chunks c))).
  { intros q. destruct (N.eq_dec q tgt) as [->|Hn].
    - rewrite (aget_aset_same N.eqb Neqb_spec), Hg. reflexivity.
    - rewrite (aget_aset_other N.eqb Neqb_spec) by exact Hn. reflexivity. }
  split; [|split].
  - intros q m Hq. rewrite Hlk in Hq. exact (Hi _ _ Hq).
  - intros q m Hq. rewrite Hlk in Hq. exact (Hw _ _ Hq).
  - destruct Hag as [Hnd Hag]. split; [exact Hnd|]. intros q. rewrite Hlk. apply Hag.
Qed.

Lemma s3_apply_inv c sp o :
  match o with ORegister _ m => m_min m <= m_max m | _ => True end ->
  s3_inv c sp -> s3_inv (fst (s3_apply c o)) (spec_apply sp o).
Proof.
  intros Hok H. destruct o as [p m|p|srcs tgt]; simpl.
  - apply s3_register_inv; assumption.
  - apply s3_delete_inv; assumption.
  - rewrite s3_complete_eq. cbv zeta.
    pose proof (s3_fold_del1 srcs c sp H) as H1.
    set (c1 := fold_left s3_del1 srcs c) in *.
    set (sp1 := fold_left (fun s p => adel N.eqb p s) srcs sp) in *.
    assert (Hmem : amem N.eqb tgt sp1 = match aget N.eqb tgt (c_chunks c1) with Some _ => true | None => false end).
    { destruct H1 as [_ [_ [_ Hag]]]. unfold amem. rewrite <- Hag. unfold s3_look.
      destruct (aget N.eqb tgt (c_chunks c1)); reflexivity. }
    rewrite Hmem. destruct (aget N.eqb tgt (c_chunks c1)) as [e|] eqn:Eg; simpl; [|exact H].
    apply (s3_relevel_inv (mkCat (c_chunks c1) (ti_drop_empty (c_tindex c1))) sp1 tgt e); [exact Eg|].
    apply s3_drop_inv. exact H1.
Qed.

Lemma s3_empty_inv : s3_inv cat_empty [].
Proof.
  unfold s3_inv, s3_look, indexed, wf_meta, agrees; simpl.
  split; [intros ? ? H; discriminate|split; [intros ? ? H; discriminate|split; [constructor|reflexivity]]].
Qed.

Lemma fold_inv_gen {C} (apply_ : C -> cop -> C) (inv : C -> spec -> Prop)
  (step : forall c sp o, match o with ORegister _ m => m_min m <= m_max m | _ => True end ->
                         inv c sp -> inv (apply_ c o) (spec_apply sp o)) :
  forall h c sp, hist_ok h -> inv c sp -> inv (fold_left apply_ h c) (fold_left spec_apply h sp).
Proof.
  induction h as [|o r IH]; simpl; intros c sp Hok H; [exact H|].
  inversion Hok as [|? ? Ho Hr]; subst. apply IH; [exact Hr|]. apply step; assumption.
Qed.

Lemma s3_run_inv h : hist_ok h -> s3_inv (s3_run h) (spec_run h).
Proof.
  intros Hok. unfold s3_run, spec_run.
  apply (fold_inv_gen (fun c o => fst (s3_apply c o)) s3_inv s3_apply_inv); [exact Hok|apply s3_empty_inv].
Qed.

(* ---- in-memory backend ---- *)
Lemma local_delete_inv c sp p : local_inv c sp -> local_inv (local_delete c p) (adel N.eqb p sp).
Proof.
  destruct widths_agree_holds as [Hpos [_ [Hlb Hls]]].
  intros [Hi [Hw [Hnd Hag]]]. unfold local_inv, local_look, local_delete.
  destruct (aget N.eqb p (l_chunks c)) as [m|] eqn:Eg; simpl.
  - assert (Hlk : forall q, aget N.eqb q (adel N.eqb p (l_chunks c)) = if N.eqb q p then None else local_look c q).
    { intros q. destruct (N.eqb q p) eqn:E.
      - apply N.eqb_eq in E; subst. apply (aget_adel_same N.eqb).
      - apply N.eqb_neq in E. apply (aget_adel_other N.eqb Neqb_spec). exact E. }
    split; [|split; [|split]].
    + intros q mq Hq b Hb. rewrite Hlk in Hq. destruct (N.eqb q p) eqn:E; [discriminate|].
      apply N.eqb_neq in E. apply ti_retain_in_has; [exact E|]. exact (Hi _ _ Hq _ Hb).
    + intros q mq Hq. rewrite Hlk in Hq. destruct (N.eqb q p); [discriminate|]. exact (Hw _ _ Hq).
    + apply nodup_adel. exact Hnd.
    + intros q. rewrite Hlk. destruct (N.eqb q p) eqn:E.
      * apply N.eqb_eq in E; subst. rewrite (aget_adel_same N.eqb). reflexivity.
      * apply N.eqb_neq in E. rewrite (aget_adel_other N.eqb Neqb_spec) by exact E. apply Hag.
  - split; [exact Hi|split; [exact Hw|split]].
    + apply nodup_adel. exact Hnd.
    + intros q. destruct (N.eq_dec q p) as [->|Hn].
      * rewrite (aget_adel_same N.eqb). exact Eg.
      * rewrite (aget_adel_other N.eqb Neqb_spec) by exact Hn. apply Hag.
Qed.

Lemma local_register_inv c sp p m :
  m_min m <= m_max m -> local_inv c sp -> local_inv (local_register c p m) (aset N.eqb p m sp).
Proof.
  destruct widths_agree_holds as [Hpos [_ [Hlb Hls]]].
  intros Hmm [Hi [Hw [Hnd Hag]]]. unfold local_inv, local_look, local_register; simpl.
  assert (Hlk : forall q, aget N.eqb q (aset N.eqb p m (l_chunks c)) = if N.eqb q p then Some m else local_look c q).
  { intros q. destruct (N.eqb q p) eqn:E.
    - apply N.eqb_eq in E; subst. apply (aget_aset_same N.eqb Neqb_spec).
    - apply N.eqb_neq in E. apply (aget_aset_other N.eqb Neqb_spec). exact E. }
  rewrite Hlb, Hls. fold W.
  split; [|split; [|split]].
  - intros q mq Hq b Hb. rewrite Hlk in Hq. destruct (N.eqb q p) eqn:E.
    + apply N.eqb_eq in E; subst q. inversion Hq; subst mq. apply ti_push_all_has_new. exact Hb.
    + apply ti_push_all_has_old. exact (Hi _ _ Hq _ Hb).
  - intros q mq Hq. rewrite Hlk in Hq. destruct (N.eqb q p); [inversion Hq; subst; exact Hmm|exact (Hw _ _ Hq)].
  - apply nodup_aset; [exact Neqb_spec|exact Hnd].
  - intros q. rewrite Hlk. destruct (N.eqb q p) eqn:E.
    + apply N.eqb_eq in E; subst. rewrite (aget_aset_same N.eqb Neqb_spec). reflexivity.
    + apply N.eqb_neq in E. rewrite (aget_aset_other N.eqb Neqb_spec) by exact E. apply Hag.
Qed.

Lemma local_fold_delete srcs : forall c sp, local_inv c sp ->
  local_inv (fold_left local_delete srcs c) (fold_left (fun s p => adel N.eqb p s) srcs sp).
Proof.
  induction srcs as [|p r IH]; simpl; intros c sp H; [exact H|].
  apply IH. apply local_delete_inv. exact H.
Qed.

Lemma local_apply_inv c sp o :
  match o with ORegister _ m => m_min m <= m_max m | _ => True end ->
  local_inv c sp -> local_inv (fst (local_apply c o)) (spec_apply sp o).
Proof.
  intros Hok H. destruct o as [p m|p|srcs tgt]; simpl.
  - apply local_register_inv; assumption.
  - apply local_delete_inv; assumption.
  - unfold local_complete.
    pose proof (local_fold_delete srcs c sp H) as H1.
    set (c1 := fold_left local_delete srcs c) in *.
    set (sp1 := fold_left (fun s p => adel N.eqb p s) srcs sp) in *.
    assert (Hmem : amem N.eqb tgt sp1 = match aget N.eqb tgt (l_chunks c1) with Some _ => true | None => false end).
    { destruct H1 as [_ [_ [_ Hag]]]. unfold amem. rewrite <- Hag. reflexivity. }
    rewrite Hmem. destruct (aget N.eqb tgt (l_chunks c1)) as [e|] eqn:Eg; simpl; [|exact H].
    exact H1.
Qed.

Lemma local_empty_inv : local_inv lcat_empty [].
Proof.
  unfold local_inv, local_look, indexed, wf_meta, agrees; simpl.
  split; [intros ? ? H; discriminate|split; [intros ? ? H; discriminate|split; [constructor|reflexivity]]].
Qed.

Lemma local_run_inv h : hist_ok h -> local_inv (local_run h) (spec_run h).
Proof.
  intros Hok. unfold local_run, spec_run.
  apply (fold_inv_gen (fun c o => fst (local_apply c o)) local_inv local_apply_inv); [exact Hok|apply local_empty_inv].
Qed.

(* ------------------------------------------------------------------ *)
(* C07 main statements                                                  *)
(* ------------------------------------------------------------------ *)
Definition exact_answer (r : outcome (list (path * cmeta))) (sp : spec) (s e : Z) : Prop :=
  match r with
  | Done l => NoDup (map fst l) /\ forall p m, In (p, m) l <-> In (p, m) (spec_get sp s e)
  | _ => False
  end.

Theorem s3_get_exact h s e : hist_ok h -> exact_answer (s3_get (s3_run h) s e) (spec_run h) s e.
Proof.
  intros Hok. destruct (s3_run_inv h Hok) as [Hi [Hw Hag]].
  destruct widths_agree_holds as [Hpos _].
  unfold s3_get, exact_answer. destruct (e <? s) eqn:E.
  - unfold spec_get. rewrite E. split; [constructor|tauto].
  - apply Z.ltb_ge in E. apply (scan_exact W); assumption.
Qed.

Theorem local_get_exact h s e : hist_ok h -> exact_answer (local_get (local_run h) s e) (spec_run h) s e.
Proof.
  intros Hok. destruct (local_run_inv h Hok) as [Hi [Hw Hag]].
  destruct widths_agree_holds as [Hpos [_ [Hlb _]]].
  unfold local_get, exact_answer. destruct (e <? s) eqn:E.
  - unfold spec_get. rewrite E. split; [constructor|tauto].
  - apply Z.ltb_ge in E. rewrite Hlb. apply (scan_exact W); assumption.
Qed.

Theorem backends_agree h s e : hist_ok h ->
  match s3_get (s3_run h) s e, local_get (local_run h) s e with
  | Done a, Done b => forall p m, In (p, m) a <-> In (p, m) b
  | _, _ => False
  end.
Proof.
  intros Hok. pose proof (s3_get_exact h s e Hok) as A. pose proof (local_get_exact h s e Hok) as B.
  unfold exact_answer in *.
  destruct (s3_get (s3_run h) s e); try contradiction.
  destruct (local_get (local_run h) s e); try contradiction.
  destruct A as [_ A]. destruct B as [_ B]. intros p m. rewrite A, B. tauto.
Qed.

(* list_chunks / get_chunk agree with the specification as well *)
Theorem s3_list_exact h p : hist_ok h ->
  option_map e_meta (aget N.eqb p (c_chunks (s3_run h))) = aget N.eqb p (spec_run h).
Proof. intros Hok. destruct (s3_run_inv h Hok) as [_ [_ [_ Hag]]]. apply Hag. Qed.

Theorem local_list_exact h p : hist_ok h ->
  aget N.eqb p (l_chunks (local_run h)) = aget N.eqb p (spec_run h).
Proof. intros Hok. destruct (local_run_inv h Hok) as [_ [_ [_ Hag]]]. apply Hag. Qed.

(* the object-store catalog never holds an index entry for a path whose
   buckets it does not cover: every version is well-formed (used by C02) *)
Definition cat_wf (c : cat) : Prop := indexed W (s3_look c) (c_tindex c).

Theorem s3_run_wf h : hist_ok h -> cat_wf (s3_run h).
Proof. intros Hok. destruct (s3_run_inv h Hok) as [Hi _]. exact Hi. Qed.

(* non-vacuity: a concrete history meets the hypothesis and gives a non-empty answer *)
Example c07_nonvacuous :
  let h := [ORegister 1%N (mkMeta 0 (2 * W) 10%N 100%N); ORegister 2%N (mkMeta (-5) (-1) 1%N 1%N);
            ORegister 1%N (mkMeta (3 * W) (3 * W + 5) 10%N 100%N); ODelete 2%N;
            ORegister 3%N (mkMeta (W - 1) W 2%N 2%N); OComplete [3%N] 1%N] in
  hist_ok h /\ s3_get (s3_run h) (3 * W + 5) (4 * W) = Done [(1%N, mkMeta (3 * W) (3 * W + 5) 10%N 100%N)]
  /\ local_get (local_run h) (3 * W + 5) (4 * W) = Done [(1%N, mkMeta (3 * W) (3 * W + 5) 10%N 100%N)].
Proof.
  split; [|split; vm_compute; reflexivity].
  unfold hist_ok. repeat constructor; vm_compute; discriminate.
Qed.
