(* Proofs/DedupProofs.v — C15: dual-write routing is exact; split-time reads
   are exact modulo the known classes; witnesses for those classes. *)
From CS Require Import Base.Prelude Model.Dedup.
From Coq Require Import Permutation.
Open Scope Z_scope.

(* ------------------------------------------------------------------ *)
(* Boolean equalities reflect Leibniz equality                          *)
(* ------------------------------------------------------------------ *)
Lemma optZ_eqb_eq : forall a b, optZ_eqb a b = true <-> a = b.
Proof.
  intros [x|] [y|]; simpl; split; intro H; try discriminate; try reflexivity.
  - apply Z.eqb_eq in H. now subst.
  - inversion H. apply Z.eqb_refl.
Qed.

Lemma optN_eqb_eq : forall a b, optN_eqb a b = true <-> a = b.
Proof.
  intros [x|] [y|]; simpl; split; intro H; try discriminate; try reflexivity.
  - apply N.eqb_eq in H. now subst.
  - inversion H. apply N.eqb_refl.
Qed.

Lemma listZ_eqb_eq : forall a b, listZ_eqb a b = true <-> a = b.
Proof.
  induction a as [|x a IH]; intros [|y b]; simpl; split; intro H; try discriminate; try reflexivity.
  - apply andb_true_iff in H. destruct H as [Hx Hr].
    apply Z.eqb_eq in Hx. apply IH in Hr. now subst.
  - inversion H; subst. apply andb_true_iff. split; [apply Z.eqb_refl | now apply IH].
Qed.

Lemma row_eqb_eq : forall a b, row_eqb a b = true <-> a = b.
Proof.
  intros [t1 m1 r1] [t2 m2 r2]. unfold row_eqb. simpl. split; intro H.
  - apply andb_true_iff in H. destruct H as [H Hr].
    apply andb_true_iff in H. destruct H as [Ht Hm].
    apply optZ_eqb_eq in Ht. apply optN_eqb_eq in Hm. apply listZ_eqb_eq in Hr. now subst.
  - inversion H; subst.
    apply andb_true_iff. split; [apply andb_true_iff; split|].
    + now apply optZ_eqb_eq.
    + now apply optN_eqb_eq.
    + now apply listZ_eqb_eq.
Qed.

Lemma mem_row_In : forall r l, mem_row r l = true <-> In r l.
Proof.
  induction l as [|x l IH]; simpl.
  - split; [discriminate | tauto].
  - rewrite orb_true_iff, IH, row_eqb_eq. split; intros [H|H]; auto.
Qed.

Lemma mem_row_not_In : forall r l, mem_row r l = false <-> ~ In r l.
Proof.
  intros r l. rewrite <- mem_row_In. destruct (mem_row r l).
  - split; [discriminate | intro H; exfalso; now apply H].
  - split; [intros _ H; discriminate | reflexivity].
Qed.

Lemma has_dup_NoDup : forall l, has_dup l = false <-> NoDup l.
Proof.
  induction l as [|x l IH]; simpl.
  - split; [constructor | reflexivity].
  - rewrite orb_false_iff, mem_row_not_In, IH. split.
    + intros [H1 H2]. now constructor.
    + intro H. inversion H; subst. now split.
Qed.

(* ------------------------------------------------------------------ *)
(* Part A — routing                                                     *)
(* ------------------------------------------------------------------ *)
Lemma filter_partition_perm : forall (A : Type) (f : A -> bool) (l : list A),
  Permutation (filter f l ++ filter (fun x => negb (f x)) l) l.
Proof.
  induction l as [|a l IH]; simpl; [constructor|].
  destruct (f a); simpl.
  - now constructor.
  - apply Permutation_sym, Permutation_cons_app, Permutation_sym, IH.
Qed.

Lemma split_spec : forall b point sp,
  ib_ts b = TsInt64 -> split_ts point = Some sp ->
  split_batch_by_key b point =
    Done (filter (lower_side sp) (ib_rows b), filter (upper_side sp) (ib_rows b)).
Proof. intros b point sp Ht Hp. unfold split_batch_by_key. now rewrite Ht, Hp. Qed.

(* The split succeeds exactly for Int64 timestamps and an 8-byte split point. *)
Lemma split_accepts_iff : forall b point,
  (exists lo up, split_batch_by_key b point = Done (lo, up)) <->
  ib_ts b = TsInt64 /\ exists sp, split_ts point = Some sp.
Proof.
  intros b point. unfold split_batch_by_key. split.
  - intros (lo & up & H). destruct (ib_ts b); try discriminate.
    destruct (split_ts point) as [sp|]; try discriminate. split; eauto.
  - intros [Ht [sp Hp]]. rewrite Ht, Hp. eauto.
Qed.

(* the sides partition the batch: nothing lost, nothing doubled, boundary up *)
Lemma sides_partition : forall sp rows,
  Permutation (filter (lower_side sp) rows ++ filter (upper_side sp) rows) rows.
Proof. intros. unfold upper_side. apply filter_partition_perm. Qed.

Lemma lower_In : forall sp rows r,
  In r (filter (lower_side sp) rows) <-> In r rows /\ ts_value r < sp.
Proof. intros. rewrite filter_In. unfold lower_side. now rewrite Z.ltb_lt. Qed.

Lemma upper_In : forall sp rows r,
  In r (filter (upper_side sp) rows) <-> In r rows /\ sp <= ts_value r.
Proof.
  intros. rewrite filter_In. unfold upper_side. rewrite negb_true_iff, Z.ltb_ge. tauto.
Qed.

Lemma exactly_one_side : forall sp rows r, In r rows ->
  (In r (filter (lower_side sp) rows) /\ ~ In r (filter (upper_side sp) rows)) \/
  (In r (filter (upper_side sp) rows) /\ ~ In r (filter (lower_side sp) rows)).
Proof.
  intros sp rows r Hin. rewrite !lower_In, !upper_In.
  destruct (Z_lt_ge_dec (ts_value r) sp) as [Hlt|Hge].
  - left. split; [tauto|]. intros [_ H]. lia.
  - right. split; [split; [assumption|lia]|]. intros [_ H]. lia.
Qed.

(* rows_where over an appended chunk list *)
Lemma rows_where_app : forall p a b, rows_where p (a ++ b) = rows_where p a ++ rows_where p b.
Proof. intros. unfold rows_where. now rewrite filter_app, map_app, concat_app. Qed.

Lemma rows_where_single : forall p c, rows_where p [c] = if p c then c_rows c else [].
Proof. intros. unfold rows_where. simpl. destruct (p c); simpl; [apply app_nil_r | reflexivity]. Qed.

(* flush keeps everything the old shard holds, in order, and touches no new shard *)
Lemma flush_stored : forall st, stored (flush_buffer st) = stored st.
Proof.
  intros st. unfold flush_buffer, stored, old_rows. destruct (i_buffer st) as [|b0 buf] eqn:Hb; [now rewrite Hb|].
  simpl i_chunks. simpl i_buffer. rewrite rows_where_app, rows_where_single. simpl.
  unfold buffer_rows at 2. simpl. now rewrite app_nil_r.
Qed.

Lemma flush_rows_where_new : forall st p, (forall c, c_loc c = LOrdinary -> p c = false) ->
  rows_where p (i_chunks (flush_buffer st)) = rows_where p (i_chunks st).
Proof.
  intros st p Hp. unfold flush_buffer. destruct (i_buffer st); [reflexivity|].
  simpl i_chunks. rewrite rows_where_app, rows_where_single, Hp by reflexivity. apply app_nil_r.
Qed.

Lemma flush_splits : forall st, i_splits (flush_buffer st) = i_splits st.
Proof. intros. unfold flush_buffer. now destruct (i_buffer st). Qed.
Lemma flush_cfg : forall st, i_flush_rows (flush_buffer st) = i_flush_rows st.
Proof. intros. unfold flush_buffer. now destruct (i_buffer st). Qed.

Lemma buffer_rows_app : forall a b, buffer_rows (a ++ b) = buffer_rows a ++ buffer_rows b.
Proof. intros. unfold buffer_rows. now rewrite map_app, concat_app. Qed.

Lemma append_stored : forall st b,
  stored (append_and_maybe_flush st b) = stored st ++ ib_rows b.
Proof.
  intros st b. unfold append_and_maybe_flush.
  set (st1 := match i_buffer st with
              | first :: _ => if N.eqb (ib_schema first) (ib_schema b) then st else flush_buffer st
              | [] => st end).
  assert (H1 : stored st1 = stored st).
  { unfold st1. destruct (i_buffer st) as [|f buf]; [reflexivity|].
    destruct (N.eqb (ib_schema f) (ib_schema b)); [reflexivity | apply flush_stored]. }
  set (st2 := mkIS (i_flush_rows st1) (i_splits st1) (i_buffer st1 ++ [b]) (i_chunks st1)).
  assert (H2 : stored st2 = stored st ++ ib_rows b).
  { unfold stored in *. unfold st2, old_rows in *. simpl. rewrite buffer_rows_app.
    unfold buffer_rows at 2. simpl. rewrite app_nil_r, app_assoc. now rewrite H1. }
  destruct (N.leb (i_flush_rows st2) (N.of_nat (length (buffer_rows (i_buffer st2))))).
  - now rewrite flush_stored.
  - exact H2.
Qed.

Lemma append_rows_where_new : forall st b p, (forall c, c_loc c = LOrdinary -> p c = false) ->
  rows_where p (i_chunks (append_and_maybe_flush st b)) = rows_where p (i_chunks st).
Proof.
  intros st b p Hp. unfold append_and_maybe_flush.
  set (st1 := match i_buffer st with
              | first :: _ => if N.eqb (ib_schema first) (ib_schema b) then st else flush_buffer st
              | [] => st end).
  assert (H1 : rows_where p (i_chunks st1) = rows_where p (i_chunks st)).
  { unfold st1. destruct (i_buffer st) as [|f buf]; [reflexivity|].
    destruct (N.eqb (ib_schema f) (ib_schema b)); [reflexivity | now apply flush_rows_where_new]. }
  set (st2 := mkIS (i_flush_rows st1) (i_splits st1) (i_buffer st1 ++ [b]) (i_chunks st1)).
  destruct (N.leb (i_flush_rows st2) (N.of_nat (length (buffer_rows (i_buffer st2))))).
  - rewrite flush_rows_where_new by assumption. exact H1.
  - exact H1.
Qed.

Lemma append_splits : forall st b, i_splits (append_and_maybe_flush st b) = i_splits st.
Proof.
  intros st b. unfold append_and_maybe_flush.
  set (st1 := match i_buffer st with
              | first :: _ => if N.eqb (ib_schema first) (ib_schema b) then st else flush_buffer st
              | [] => st end).
  assert (H1 : i_splits st1 = i_splits st).
  { unfold st1. destruct (i_buffer st) as [|f buf]; [reflexivity|].
    destruct (N.eqb (ib_schema f) (ib_schema b)); [reflexivity | apply flush_splits]. }
  match goal with |- context [if ?c then _ else _] => destruct c end.
  - now rewrite flush_splits.
  - exact H1.
Qed.

Definition side_chunk (s : N) (rows : list row) : list chunk :=
  match rows with [] => [] | _ => [mkChunk (LNew s) rows] end.

Definition with_chunks (st : istate) (extra : list chunk) : istate :=
  mkIS (i_flush_rows st) (i_splits st) (i_buffer st) (i_chunks st ++ extra).

Lemma with_chunks_nil : forall st, with_chunks st [] = st.
Proof. intros [f s b c]. unfold with_chunks. simpl. now rewrite app_nil_r. Qed.

Lemma write_side_ok : forall st news k s rows, nth_error news k = Some s ->
  write_side st news k rows = (with_chunks st (side_chunk s rows), Done tt).
Proof.
  intros st news k s rows Hn. unfold write_side, side_chunk.
  destruct rows as [|r rows]; [now rewrite with_chunks_nil|]. now rewrite Hn.
Qed.

(* a split state under which dual-write cannot fail *)
Definition valid_split (ss : split_state) (sp : Z) (a0 a1 : N) : Prop :=
  is_dual (ss_phase ss) = true /\ split_ts (ss_point ss) = Some sp /\
  nth_error (ss_new ss) 0 = Some a0 /\ nth_error (ss_new ss) 1 = Some a1.

(* routing_exact: in the dual-write and back-fill phases an Int64 batch is
   accepted; the old shard receives the whole batch; exactly one chunk per
   non-empty side is registered, the lower rows (ts < split point) under the
   first new shard, the upper rows (ts >= split point, boundary included)
   under the second; the two sides partition the batch. *)
Theorem routing_exact : forall st sid ss b sp a0 a1,
  aget N.eqb sid (i_splits st) = Some ss -> valid_split ss sp a0 a1 -> ib_ts b = TsInt64 ->
  let st1 := append_and_maybe_flush st b in
  let lo := filter (lower_side sp) (ib_rows b) in
  let up := filter (upper_side sp) (ib_rows b) in
  write st sid b = (with_chunks st1 (side_chunk a0 lo ++ side_chunk a1 up), Done tt) /\
  stored st1 = stored st ++ ib_rows b /\
  new_rows st1 = new_rows st /\
  Permutation (lo ++ up) (ib_rows b) /\
  (forall r, In r lo <-> In r (ib_rows b) /\ ts_value r < sp) /\
  (forall r, In r up <-> In r (ib_rows b) /\ sp <= ts_value r) /\
  (forall r, In r (ib_rows b) -> (In r lo /\ ~ In r up) \/ (In r up /\ ~ In r lo)).
Proof.
  intros st sid ss b sp a0 a1 Hget (Hdual & Hsp & Hn0 & Hn1) Hts st1 lo up.
  split; [|split; [|split; [|split; [|split; [|split]]]]].
  - unfold write. rewrite Hget, Hdual. unfold write_with_split_awareness.
    rewrite (split_spec b (ss_point ss) sp Hts Hsp).
    rewrite (write_side_ok _ _ 0 _ _ Hn0). rewrite (write_side_ok _ _ 1 _ _ Hn1).
    unfold with_chunks. simpl. now rewrite app_assoc.
  - apply append_stored.
  - unfold new_rows. apply append_rows_where_new. intros c Hc. unfold is_old. now rewrite Hc.
  - apply sides_partition.
  - intro r. apply lower_In.
  - intro r. apply upper_In.
  - intros r Hr. now apply exactly_one_side.
Qed.

(* per-shard view of the same fact *)
Lemma in_shard_old : forall s c, c_loc c = LOrdinary -> in_shard s c = false.
Proof. intros s c H. unfold in_shard. now rewrite H. Qed.

Lemma rows_where_side : forall s a rows,
  rows_where (in_shard s) (side_chunk a rows) = if N.eqb a s then rows else [].
Proof.
  intros s a rows. unfold side_chunk. destruct rows as [|r rows].
  - unfold rows_where. simpl. now destruct (N.eqb a s).
  - rewrite rows_where_single. reflexivity.
Qed.

Theorem routing_exact_shards : forall st sid ss b sp a0 a1,
  aget N.eqb sid (i_splits st) = Some ss -> valid_split ss sp a0 a1 -> ib_ts b = TsInt64 -> a0 <> a1 ->
  let st' := fst (write st sid b) in
  snd (write st sid b) = Done tt /\
  shard_rows st' a0 = shard_rows st a0 ++ filter (lower_side sp) (ib_rows b) /\
  shard_rows st' a1 = shard_rows st a1 ++ filter (upper_side sp) (ib_rows b) /\
  (forall s, s <> a0 -> s <> a1 -> shard_rows st' s = shard_rows st s) /\
  stored st' = stored st ++ ib_rows b.
Proof.
  intros st sid ss b sp a0 a1 Hget Hv Hts Hne st'.
  destruct (routing_exact st sid ss b sp a0 a1 Hget Hv Hts) as (Hw & Hst & _).
  unfold st'. rewrite Hw. simpl fst. simpl snd.
  assert (Hsh : forall s, shard_rows (with_chunks (append_and_maybe_flush st b)
            (side_chunk a0 (filter (lower_side sp) (ib_rows b)) ++ side_chunk a1 (filter (upper_side sp) (ib_rows b)))) s
          = shard_rows st s ++ (if N.eqb a0 s then filter (lower_side sp) (ib_rows b) else [])
                            ++ (if N.eqb a1 s then filter (upper_side sp) (ib_rows b) else [])).
  { intro s. unfold shard_rows, with_chunks. simpl i_chunks.
    rewrite !rows_where_app, !rows_where_side.
    rewrite (append_rows_where_new st b (in_shard s) (in_shard_old s)). reflexivity. }
  split; [reflexivity|]. split; [|split; [|split]].
  - rewrite Hsh, N.eqb_refl. replace (N.eqb a1 a0) with false.
    + now rewrite app_nil_r.
    + symmetry. apply N.eqb_neq. congruence.
  - rewrite Hsh, N.eqb_refl. replace (N.eqb a0 a1) with false.
    + reflexivity.
    + symmetry. now apply N.eqb_neq.
  - intros s H0 H1. rewrite Hsh.
    replace (N.eqb a0 s) with false by (symmetry; apply N.eqb_neq; congruence).
    replace (N.eqb a1 s) with false by (symmetry; apply N.eqb_neq; congruence).
    now rewrite !app_nil_r.
  - unfold stored, old_rows, with_chunks in *. simpl i_chunks. simpl i_buffer.
    assert (Hs : forall a rows, rows_where is_old (side_chunk a rows) = []).
    { intros a rows. unfold side_chunk. destruct rows; [reflexivity|]. now rewrite rows_where_single. }
    rewrite !rows_where_app, !Hs, !app_nil_r. exact Hst.
Qed.

(* outside the two phases (or without a split state) a write goes to the old
   shard only *)
Lemma write_single : forall st sid b,
  (forall ss, aget N.eqb sid (i_splits st) = Some ss -> is_dual (ss_phase ss) = false) ->
  write st sid b = (append_and_maybe_flush st b, Done tt).
Proof.
  intros st sid b H. unfold write. destruct (aget N.eqb sid (i_splits st)) as [ss|]; [|reflexivity].
  now rewrite (H ss eq_refl).
Qed.

(* ---------- history invariants ---------- *)
Lemma write_side_stored : forall st news k rows,
  stored (fst (write_side st news k rows)) = stored st.
Proof.
  intros st news k rows. unfold write_side. destruct rows as [|r rows]; [reflexivity|].
  destruct (nth_error news k); [|reflexivity].
  unfold stored, old_rows, add_chunk. simpl. rewrite rows_where_app, rows_where_single. simpl.
  now rewrite app_nil_r.
Qed.

Lemma write_side_new_In : forall st news k rows x,
  In x (new_rows (fst (write_side st news k rows))) -> In x (new_rows st) \/ In x rows.
Proof.
  intros st news k rows x. unfold write_side. destruct rows as [|r rows]; [auto|].
  destruct (nth_error news k); [|auto].
  unfold new_rows, add_chunk. simpl. rewrite rows_where_app, rows_where_single. simpl.
  rewrite in_app_iff. tauto.
Qed.

Lemma write_stored : forall st sid b, stored (fst (write st sid b)) = stored st ++ ib_rows b.
Proof.
  intros st sid b. unfold write.
  destruct (aget N.eqb sid (i_splits st)) as [ss|]; [|apply append_stored].
  destruct (is_dual (ss_phase ss)); [|apply append_stored].
  unfold write_with_split_awareness.
  destruct (split_batch_by_key b (ss_point ss)) as [[lo up]| | |]; simpl; try apply append_stored.
  destruct (write_side (append_and_maybe_flush st b) (ss_new ss) 0 lo) as [st2 o2] eqn:H2.
  assert (Hs2 : stored st2 = stored st ++ ib_rows b).
  { replace st2 with (fst (write_side (append_and_maybe_flush st b) (ss_new ss) 0 lo)) by now rewrite H2.
    rewrite write_side_stored. apply append_stored. }
  destruct o2; simpl; try exact Hs2.
  rewrite write_side_stored. exact Hs2.
Qed.

Lemma write_new_In : forall st sid b x,
  In x (new_rows (fst (write st sid b))) -> In x (new_rows st) \/ In x (ib_rows b).
Proof.
  intros st sid b x.
  assert (Happ : new_rows (append_and_maybe_flush st b) = new_rows st).
  { unfold new_rows. apply append_rows_where_new. intros c Hc. unfold is_old. now rewrite Hc. }
  unfold write.
  destruct (aget N.eqb sid (i_splits st)) as [ss|]; [|simpl; rewrite Happ; auto].
  destruct (is_dual (ss_phase ss)); [|simpl; rewrite Happ; auto].
  unfold write_with_split_awareness. unfold split_batch_by_key.
  destruct (ib_ts b); simpl; try (rewrite Happ; auto).
  destruct (split_ts (ss_point ss)) as [sp|]; simpl; [|rewrite Happ; auto].
  destruct (write_side (append_and_maybe_flush st b) (ss_new ss) 0 (filter (lower_side sp) (ib_rows b))) as [st2 o2] eqn:H2.
  assert (Hn2 : forall y, In y (new_rows st2) -> In y (new_rows st) \/ In y (ib_rows b)).
  { intros y Hy.
    replace st2 with (fst (write_side (append_and_maybe_flush st b) (ss_new ss) 0 (filter (lower_side sp) (ib_rows b)))) in Hy by now rewrite H2.
    apply write_side_new_In in Hy. rewrite Happ in Hy. destruct Hy as [Hy|Hy]; [auto|].
    apply filter_In in Hy. tauto. }
  destruct o2; simpl; try apply Hn2.
  intro Hx. apply write_side_new_In in Hx. destruct Hx as [Hx|Hx]; [now apply Hn2|].
  apply filter_In in Hx. tauto.
Qed.

(* ---------- back-fill ---------- *)
Lemma rows_where_In : forall p cs x,
  In x (rows_where p cs) <-> exists c, In c cs /\ p c = true /\ In x (c_rows c).
Proof.
  intros p cs x. unfold rows_where. rewrite in_concat. split.
  - intros (l & Hl & Hx). apply in_map_iff in Hl. destruct Hl as (c & Hc & Hin). subst l.
    apply filter_In in Hin. exists c. tauto.
  - intros (c & Hc & Hp & Hx). exists (c_rows c). split; [|assumption].
    apply in_map. apply filter_In. tauto.
Qed.

Lemma rows_where_none : forall p cs, (forall c, In c cs -> p c = false) -> rows_where p cs = [].
Proof.
  intros p cs H. unfold rows_where. induction cs as [|c cs IH]; simpl; [reflexivity|].
  rewrite (H c (or_introl eq_refl)). apply IH. intros c' Hc'. apply H. now right.
Qed.

(* every back-fill copy lives under a new shard and holds rows of one
   historical chunk *)
Lemma backfill_chunks_spec : forall sp news hist c,
  In c (fst (backfill_chunks sp news hist)) ->
  is_old c = false /\ exists h, In h hist /\ incl (c_rows c) (c_rows h).
Proof.
  intros sp news hist. induction hist as [|h hist IH]; intros c Hc.
  - simpl in Hc. contradiction.
  - destruct sp as [p|]; [|simpl in Hc; contradiction].
    cbn [backfill_chunks] in Hc.
    destruct (filter (lower_side p) (c_rows h)) as [|l0 lo] eqn:Hlo;
    destruct (nth_error news 0) as [a0|];
    destruct (filter (upper_side p) (c_rows h)) as [|u0 up] eqn:Hup;
    destruct (nth_error news 1) as [a1|];
    destruct (backfill_chunks (Some p) news hist) as [more o] eqn:Hrec;
    simpl in Hc; rewrite ?in_app_iff in Hc; simpl in Hc;
    repeat match goal with H : _ \/ _ |- _ => destruct H as [H|H] end; try contradiction;
    try (destruct (IH c Hc) as (Ho & h' & Hh' & Hincl);
         split; [exact Ho | exists h'; split; [now right | exact Hincl]]);
    try (subst c; split; [reflexivity|]; exists h; split; [now left|];
         intros x Hx; cbn [c_rows] in Hx;
         first [rewrite <- Hlo in Hx | rewrite <- Hup in Hx]; apply filter_In in Hx; exact (proj1 Hx)).
Qed.

Lemma update_progress_chunks : forall st sid p,
  i_chunks (update_split_progress st sid p) = i_chunks st /\
  i_buffer (update_split_progress st sid p) = i_buffer st.
Proof.
  intros st sid p. unfold update_split_progress. destruct (aget N.eqb sid (i_splits st)); split; reflexivity.
Qed.

Lemma run_backfill_chunks : forall st sid,
  i_buffer (fst (run_backfill st sid)) = i_buffer st /\
  exists cs, i_chunks (fst (run_backfill st sid)) = i_chunks st ++ cs /\
    forall c, In c cs -> is_old c = false /\
      exists h, In h (i_chunks st) /\ is_old h = true /\ incl (c_rows c) (c_rows h).
Proof.
  intros st sid. unfold run_backfill.
  destruct (aget N.eqb sid (i_splits st)) as [ss|].
  - pose proof (backfill_chunks_spec (split_ts (ss_point ss)) (ss_new ss) (filter (is_hist sid) (i_chunks st))) as Hspec.
    destruct (backfill_chunks (split_ts (ss_point ss)) (ss_new ss) (filter (is_hist sid) (i_chunks st))) as [cs o].
    destruct (update_progress_chunks st sid PBackfill) as [Hc Hb].
    simpl. split; [exact Hb|]. exists cs. split; [now rewrite Hc|].
    intros c Hin. destruct (Hspec c Hin) as (Ho & h & Hh & Hincl).
    split; [exact Ho|]. apply filter_In in Hh. destruct Hh as [Hh Hist].
    exists h. split; [exact Hh|]. split; [|exact Hincl].
    unfold is_hist in Hist. unfold is_old. destruct (c_loc h); try discriminate; reflexivity.
  - simpl. split; [reflexivity|]. exists []. split; [now rewrite app_nil_r|]. intros c [].
Qed.

Lemma run_backfill_stored : forall st sid, stored (fst (run_backfill st sid)) = stored st.
Proof.
  intros st sid. destruct (run_backfill_chunks st sid) as (Hb & cs & Hc & Hcs).
  unfold stored, old_rows. rewrite Hb, Hc, rows_where_app.
  rewrite (rows_where_none is_old cs); [now rewrite app_nil_r|].
  intros c Hin. now destruct (Hcs c Hin).
Qed.

Lemma run_backfill_new_In : forall st sid x,
  In x (new_rows (fst (run_backfill st sid))) -> In x (new_rows st) \/ In x (old_rows st).
Proof.
  intros st sid x. destruct (run_backfill_chunks st sid) as (_ & cs & Hc & Hcs).
  unfold new_rows, old_rows. rewrite Hc, rows_where_app, in_app_iff.
  intros [H|H]; [now left|]. right.
  apply rows_where_In in H. destruct H as (c & Hin & _ & Hx).
  destruct (Hcs c Hin) as (_ & h & Hh & Hold & Hincl).
  apply rows_where_In. exists h. split; [exact Hh|]. split; [exact Hold|]. now apply Hincl.
Qed.

Lemma hstep_stored : forall st o, Permutation (stored (fst (hstep st o))) (stored st ++ op_rows o).
Proof.
  intros st o. destruct o as [sid news point|sid p|sid|sid b| |sid rows|sid]; simpl.
  - rewrite app_nil_r. apply Permutation_refl.
  - rewrite app_nil_r. unfold update_split_progress.
    destruct (aget N.eqb sid (i_splits st)); apply Permutation_refl.
  - rewrite app_nil_r. apply Permutation_refl.
  - rewrite write_stored. apply Permutation_refl.
  - rewrite app_nil_r, flush_stored. apply Permutation_refl.
  - unfold stored, old_rows, add_hist. simpl i_chunks. simpl i_buffer.
    rewrite rows_where_app, rows_where_single. simpl.
    rewrite <- !app_assoc. apply Permutation_app_head. apply Permutation_app_comm.
  - rewrite app_nil_r, run_backfill_stored. apply Permutation_refl.
Qed.

Lemma hstep_new_In : forall st o x,
  In x (new_rows (fst (hstep st o))) -> In x (new_rows st) \/ In x (op_rows o) \/ In x (stored st).
Proof.
  intros st o x. destruct o as [sid news point|sid p|sid|sid b| |sid rows|sid]; simpl.
  - auto.
  - unfold update_split_progress. destruct (aget N.eqb sid (i_splits st)); auto.
  - auto.
  - intro H. apply write_new_In in H. tauto.
  - unfold new_rows. rewrite flush_rows_where_new; [auto|].
    intros c Hc. unfold is_old. now rewrite Hc.
  - unfold new_rows, add_hist. simpl i_chunks. rewrite rows_where_app, rows_where_single. simpl.
    rewrite app_nil_r. auto.
  - intro H. apply run_backfill_new_In in H. destruct H as [H|H]; [auto|].
    right. right. unfold stored. apply in_or_app. now left.
Qed.

(* the old shard holds exactly what was written or pre-existed, each row once
   (flushed and historical chunks, then the buffer) — whatever the split phases *)
Theorem stored_is_written : forall h st, Permutation (stored (hrun st h)) (stored st ++ written_rows h).
Proof.
  induction h as [|o h IH]; intro st; simpl.
  - unfold written_rows. simpl. rewrite app_nil_r. apply Permutation_refl.
  - unfold hrun in *. simpl. eapply Permutation_trans; [apply IH|].
    unfold written_rows. simpl. rewrite app_assoc. apply Permutation_app_tail. apply hstep_stored.
Qed.

(* every row under a new shard is a copy of a row the old shard holds *)
Theorem new_rows_are_copies : forall h st x,
  In x (new_rows (hrun st h)) -> In x (new_rows st) \/ In x (stored (hrun st h)).
Proof.
  induction h as [|o h IH]; intros st x Hx; simpl in *.
  - auto.
  - unfold hrun in *. simpl in *. apply IH in Hx. destruct Hx as [Hx|Hx]; [|auto].
    apply hstep_new_In in Hx. destruct Hx as [Hx|Hx]; [auto|].
    right. fold (hrun (fst (hstep st o)) h).
    eapply Permutation_in; [apply Permutation_sym, stored_is_written|].
    apply in_or_app. left.
    eapply Permutation_in; [apply Permutation_sym, hstep_stored|].
    apply in_or_app. tauto.
Qed.

(* ------------------------------------------------------------------ *)
(* Part B — dedup_batches                                               *)
(* ------------------------------------------------------------------ *)
Definition nonnull (r : row) : Prop := r_ts r <> None.

Lemma dedup_rows_app : forall l1 l2 seen,
  dedup_rows seen (l1 ++ l2) =
  let '(s1, k1, d1) := dedup_rows seen l1 in
  let '(s2, k2, d2) := dedup_rows s1 l2 in (s2, k1 ++ k2, d1 || d2).
Proof.
  induction l1 as [|r l1 IH]; intros l2 seen; simpl.
  - destruct (dedup_rows seen l2) as [[s k] d]. reflexivity.
  - destruct (r_ts r).
    + destruct (mem_row r seen).
      * rewrite IH. destruct (dedup_rows seen l1) as [[s1 k1] d1].
        destruct (dedup_rows s1 l2) as [[s2 k2] d2]. reflexivity.
      * rewrite IH. destruct (dedup_rows (r :: seen) l1) as [[s1 k1] d1].
        destruct (dedup_rows s1 l2) as [[s2 k2] d2]. reflexivity.
    + rewrite IH. destruct (dedup_rows seen l1) as [[s1 k1] d1].
      destruct (dedup_rows s1 l2) as [[s2 k2] d2]. reflexivity.
Qed.

(* no row dropped: the batch is unchanged *)
Lemma dedup_rows_nodrop : forall rows seen,
  snd (dedup_rows seen rows) = false -> snd (fst (dedup_rows seen rows)) = rows.
Proof.
  induction rows as [|r rows IH]; intros seen; simpl; [reflexivity|].
  destruct (r_ts r).
  - destruct (mem_row r seen).
    + destruct (dedup_rows seen rows) as [[s k] d]. simpl. discriminate.
    + specialize (IH (r :: seen)). destruct (dedup_rows (r :: seen) rows) as [[s k] d]. simpl in *.
      intro H. now rewrite IH.
  - specialize (IH seen). destruct (dedup_rows seen rows) as [[s k] d]. simpl in *.
    intro H. now rewrite IH.
Qed.

(* the output never invents a row and keeps the input order (it is a filter) *)
Lemma dedup_rows_incl : forall rows seen x,
  In x (snd (fst (dedup_rows seen rows))) -> In x rows.
Proof.
  induction rows as [|r rows IH]; intros seen x; simpl; [auto|].
  destruct (r_ts r).
  - destruct (mem_row r seen).
    + specialize (IH seen x). destruct (dedup_rows seen rows) as [[s k] d]. simpl in *. auto.
    + specialize (IH (r :: seen) x). destruct (dedup_rows (r :: seen) rows) as [[s k] d]. simpl in *.
      intros [H|H]; auto.
  - specialize (IH seen x). destruct (dedup_rows seen rows) as [[s k] d]. simpl in *.
    intros [H|H]; auto.
Qed.

(* NULL timestamps are always kept *)
Lemma dedup_rows_null_kept : forall rows seen x,
  In x rows -> r_ts x = None -> In x (snd (fst (dedup_rows seen rows))).
Proof.
  induction rows as [|r rows IH]; intros seen x; simpl; [auto|].
  intros [Hx|Hx] Hn.
  - subst r. rewrite Hn. destruct (dedup_rows seen rows) as [[s k] d]. simpl. auto.
  - destruct (r_ts r).
    + destruct (mem_row r seen).
      * specialize (IH seen x Hx Hn). destruct (dedup_rows seen rows) as [[s k] d]. simpl in *. auto.
      * specialize (IH (r :: seen) x Hx Hn). destruct (dedup_rows (r :: seen) rows) as [[s k] d]. simpl in *. auto.
    + specialize (IH seen x Hx Hn). destruct (dedup_rows seen rows) as [[s k] d]. simpl in *. auto.
Qed.

(* on rows with a timestamp: the kept rows are pairwise distinct, are exactly
   the input rows not seen before, and the seen set grows by the input *)
Lemma dedup_rows_spec : forall rows seen, Forall nonnull rows ->
  let '(s, k, _) := dedup_rows seen rows in
  NoDup k /\
  (forall x, In x k <-> In x rows /\ ~ In x seen) /\
  (forall x, In x s <-> In x seen \/ In x rows).
Proof.
  induction rows as [|r rows IH]; intros seen Hnn; simpl.
  - split; [constructor|]. split; intro x; tauto.
  - inversion Hnn as [|? ? Hr Hrest]; subst.
    destruct (r_ts r) as [t|] eqn:Ht; [|now elim Hr].
    destruct (mem_row r seen) eqn:Hm.
    + specialize (IH seen Hrest). destruct (dedup_rows seen rows) as [[s k] d].
      destruct IH as (Hnd & Hk & Hs). apply mem_row_In in Hm.
      split; [assumption|]. split; intro x.
      * rewrite Hk. split; [tauto|]. intros [[Hx|Hx] Hns]; [subst; contradiction | tauto].
      * rewrite Hs. split; [tauto|]. intros [Hx|[Hx|Hx]]; [tauto | subst; tauto | tauto].
    + specialize (IH (r :: seen) Hrest). destruct (dedup_rows (r :: seen) rows) as [[s k] d].
      destruct IH as (Hnd & Hk & Hs). apply mem_row_not_In in Hm.
      split; [|split]; [|intro x|intro x].
      * constructor; [|assumption]. rewrite Hk. simpl. tauto.
      * simpl. rewrite Hk. simpl. split.
        -- intros [Hx|[Hx Hn]]; [subst; tauto | tauto].
        -- intros [[Hx|Hx] Hn]; [auto|].
           destruct (row_eqb r x) eqn:E.
           ++ left. now apply row_eqb_eq.
           ++ right. split; [assumption|]. intros [H|H]; [|tauto].
              apply row_eqb_eq in H. congruence.
      * rewrite Hs. simpl. tauto.
Qed.

(* batches without both gating columns pass through untouched *)
Lemma dedup_passthrough : forall seen b bs, keyed b = false ->
  dedup_batches_aux seen (b :: bs) = b :: dedup_batches_aux seen bs.
Proof. intros seen b bs H. simpl. now rewrite H. Qed.

(* across batches the de-duplication is the one of the concatenated rows *)
Lemma dedup_batches_rows : forall bs seen, forallb keyed bs = true ->
  result_rows (dedup_batches_aux seen bs) = snd (fst (dedup_rows seen (result_rows bs))).
Proof.
  induction bs as [|b bs IH]; intros seen Hk; simpl; [reflexivity|].
  simpl in Hk. apply andb_true_iff in Hk. destruct Hk as [Hb Hbs]. rewrite Hb.
  unfold result_rows in *. simpl. rewrite dedup_rows_app.
  pose proof (dedup_rows_nodrop (b_rows b) seen) as Hnd.
  destruct (dedup_rows seen (b_rows b)) as [[s1 k1] d1]. simpl in Hnd.
  specialize (IH s1 Hbs).
  destruct (dedup_rows s1 (concat (map b_rows bs))) as [[s2 k2] d2]. simpl in *.
  destruct d1.
  - destruct k1 as [|x k1]; simpl; [exact IH|]. now rewrite IH.
  - simpl. rewrite IH. now rewrite Hnd.
Qed.

Lemma result_rows_cons : forall b bs, result_rows (b :: bs) = b_rows b ++ result_rows bs.
Proof. reflexivity. Qed.

(* every output row of dedup_batches is an input row *)
Lemma dedup_batches_incl : forall bs seen x,
  In x (result_rows (dedup_batches_aux seen bs)) -> In x (result_rows bs).
Proof.
  induction bs as [|b bs IH]; intros seen x; [simpl; auto|].
  rewrite result_rows_cons, in_app_iff. cbn [dedup_batches_aux].
  destruct (keyed b).
  - pose proof (dedup_rows_incl (b_rows b) seen x) as Hi.
    destruct (dedup_rows seen (b_rows b)) as [[s1 k1] d1]. cbn [fst snd] in Hi.
    destruct d1.
    + destruct k1 as [|y k1].
      * intro H. right. eapply IH; eauto.
      * rewrite result_rows_cons, in_app_iff. cbn [b_rows].
        intros [H|H]; [left; now apply Hi | right; eapply IH; eauto].
    + rewrite result_rows_cons, in_app_iff.
      intros [H|H]; [now left | right; eapply IH; eauto].
  - rewrite result_rows_cons, in_app_iff.
    intros [H|H]; [now left | right; eapply IH; eauto].
Qed.

(* ------------------------------------------------------------------ *)
(* The read path                                                        *)
(* ------------------------------------------------------------------ *)
Definition same_set (a b : list row) : Prop := forall x, In x a <-> In x b.

Lemma concat_filter : forall (f : row -> bool) (l : list (list row)),
  concat (map (filter f) l) = filter f (concat l).
Proof.
  induction l as [|a l IH]; simpl; [reflexivity|]. now rewrite filter_app, IH.
Qed.

Lemma raw_rows : forall kt km kr (chunks : list (list row)),
  result_rows (map (fun rows => mkBatch kt km (map (proj_row kt km kr) rows)) chunks)
  = map (proj_row kt km kr) (concat chunks).
Proof.
  intros. unfold result_rows. rewrite map_map. simpl. now rewrite concat_map.
Qed.

Lemma raw_keyed : forall kr (chunks : list (list row)),
  forallb keyed (map (fun rows => mkBatch true true (map (proj_row true true kr) rows)) chunks) = true.
Proof. induction chunks as [|c l IH]; simpl; [reflexivity | exact IH]. Qed.

Lemma where_nonnull : forall w r, where_row w r = true -> r_ts r <> None.
Proof. intros w r H. unfold where_row in H. destruct (r_ts r); [discriminate | discriminate]. Qed.

Lemma proj_where_nonnull : forall w kr l,
  Forall nonnull (map (proj_row true true kr) (filter (where_row w) l)).
Proof.
  intros w kr l. apply Forall_forall. intros x Hx. apply in_map_iff in Hx.
  destruct Hx as (r & Hr & Hin). apply filter_In in Hin. destruct Hin as [_ Hw].
  subst x. unfold nonnull, proj_row. simpl. now apply where_nonnull with (w := w).
Qed.

(* result without dedup, no split: the raw select over the ingested rows *)
Lemma nosplit_raw : forall w kt km kr ing,
  result_rows (run_query false (mkQuery w (PRaw kt km kr)) [ing])
  = map (proj_row kt km kr) (filter (where_row w) ing).
Proof.
  intros. unfold run_query. simpl. unfold result_rows. simpl. now rewrite app_nil_r.
Qed.

(* C15_modulo_known: outside the known classes — i.e. a raw select carrying
   timestamp and metric_name whose selected rows are pairwise distinct — the
   answer during a split is, as a multiset, the answer over the ingested rows
   alone, whatever copies the new shards hold and however the scan is ordered
   and batched. *)
Theorem modulo_known : forall (ing : list row) (scanned : list (list row)) (q : query),
  same_set ing (concat scanned) ->
  known_class ing q = KNone ->
  Permutation (result_rows (run_query true q scanned)) (result_rows (run_query false q [ing])).
Proof.
  intros ing scanned [w p] Hset Hk. unfold known_class in Hk. simpl in Hk.
  destruct p as [kt km kr| | | |]; try discriminate.
  destruct kt; simpl in Hk; [|discriminate]. destruct km; simpl in Hk; [|discriminate].
  destruct (has_dup (map (proj_row true true kr) (filter (where_row w) ing))) eqn:Hd; [discriminate|].
  apply has_dup_NoDup in Hd.
  rewrite nosplit_raw. unfold run_query. simpl q_post. simpl q_where. cbn [post_apply].
  unfold dedup_batches. rewrite dedup_batches_rows by apply raw_keyed.
  rewrite raw_rows, concat_filter.
  pose proof (dedup_rows_spec _ [] (proj_where_nonnull w kr (concat scanned))) as Hspec.
  destruct (dedup_rows [] (map (proj_row true true kr) (filter (where_row w) (concat scanned)))) as [[s k] d].
  destruct Hspec as (Hnd & Hin & _). simpl.
  apply NoDup_Permutation; [assumption | assumption |].
  intro x. rewrite Hin. simpl. split.
  - intros [Hx _]. apply in_map_iff in Hx. destruct Hx as (r & Hr & Hx).
    apply in_map_iff. exists r. split; [assumption|].
    apply filter_In in Hx. apply filter_In. split; [apply Hset; tauto | tauto].
  - intro Hx. split; [|tauto]. apply in_map_iff in Hx. destruct Hx as (r & Hr & Hx).
    apply in_map_iff. exists r. split; [assumption|].
    apply filter_In in Hx. apply filter_In. split; [apply Hset; tauto | tauto].
Qed.

(* The repaired class: rows that share timestamp and metric name but differ in
   a label or value are all kept — SELECT * over pairwise distinct rows is exact. *)
Corollary series_all_kept : forall ing scanned w,
  same_set ing (concat scanned) -> NoDup (filter (where_row w) ing) ->
  Permutation (result_rows (run_query true (mkQuery w (PRaw true true true)) scanned))
              (filter (where_row w) ing).
Proof.
  intros ing scanned w Hset Hnd.
  assert (Hid : forall l : list row, map (proj_row true true true) l = l).
  { induction l as [|[t m r] l IH]; simpl; [reflexivity|]. unfold proj_row at 1. simpl. now rewrite IH. }
  pose proof (modulo_known ing scanned (mkQuery w (PRaw true true true)) Hset) as H.
  rewrite nosplit_raw, Hid in H. apply H.
  unfold known_class. simpl. rewrite Hid.
  destruct (has_dup (filter (where_row w) ing)) eqn:Hd; [|reflexivity].
  apply has_dup_NoDup in Hnd. congruence.
Qed.

(* without an active split nothing is de-duplicated *)
Lemma no_split_no_dedup : forall st q, has_active_split st = false ->
  query_state st q = run_query false q (scan st).
Proof. intros st q H. unfold query_state. now rewrite H. Qed.

(* ---------- history level ---------- *)
Lemma scan_In : forall cs x,
  In x (concat (map c_rows cs)) <->
  In x (rows_where is_old cs) \/ In x (rows_where (fun c => negb (is_old c)) cs).
Proof.
  induction cs as [|c cs IH]; intro x; simpl.
  - unfold rows_where. simpl. tauto.
  - rewrite in_app_iff, IH. unfold rows_where. simpl. destruct (is_old c); simpl; rewrite in_app_iff; tauto.
Qed.

(* With every buffered row flushed, while some shard is in DualWrite/Backfill,
   a query outside the known classes returns exactly what the same query
   returns over the old shard's data alone (= everything written or
   pre-existing, each row once), for every history of split-state changes,
   writes, flushes, historical chunks and back-fill runs. *)
Theorem history_modulo_known : forall (flush_rows : N) (h : list hop) (q : query),
  let st := hrun (init_state flush_rows) h in
  i_buffer st = [] -> has_active_split st = true ->
  known_class (written_rows h) q = KNone ->
  Permutation (old_rows st) (written_rows h) /\
  Permutation (result_rows (query_state st q)) (result_rows (run_query false q [written_rows h])).
Proof.
  intros fr h q st Hbuf Hact Hk.
  assert (Hold : Permutation (old_rows st) (written_rows h)).
  { pose proof (stored_is_written h (init_state fr)) as Hs. fold st in Hs.
    unfold stored in Hs. rewrite Hbuf in Hs. unfold buffer_rows in Hs. simpl in Hs.
    rewrite app_nil_r in Hs. exact Hs. }
  split; [exact Hold|].
  unfold query_state. rewrite Hact. apply modulo_known; [|exact Hk].
  intro x. unfold scan. rewrite scan_In. fold (old_rows st). fold (new_rows st). split.
  - intro Hx. left. eapply Permutation_in; [apply Permutation_sym, Hold | exact Hx].
  - intros [Hx|Hx]; [eapply Permutation_in; [apply Hold | exact Hx]|].
    apply (new_rows_are_copies h (init_state fr)) in Hx. fold st in Hx.
    destruct Hx as [Hx|Hx]; [inversion Hx|].
    unfold stored in Hx. rewrite Hbuf in Hx. unfold buffer_rows in Hx. simpl in Hx.
    rewrite app_nil_r in Hx. eapply Permutation_in; [apply Hold | exact Hx].
Qed.

(* ------------------------------------------------------------------ *)
(* Witnesses                                                            *)
(* ------------------------------------------------------------------ *)
Definition sp100 : list N := [0; 0; 0; 0; 0; 0; 0; 100]%N.
Definition rw (t : Z) (m : N) (host v : Z) : row := mkRow (Some t) (Some m) [host; v].

(* one shard (id 1) in DualWrite with split point 100, new shards 11 and 12,
   flush after every write *)
Definition wit_prefix : list hop :=
  [HStart 1 [11; 12]%N sp100; HProgress 1 PDual].
Definition q_all (p : post) : query := mkQuery (mkWhere 0 1000 None) p.

(* two series of one metric at one timestamp, a row at and one above the split point *)
Definition wit_series : list hop :=
  wit_prefix ++ [HWrite 1 (mkIBatch 1 TsInt64 [rw 50 7 1 10; rw 50 7 2 20; rw 100 7 1 30; rw 150 7 1 40])].

(* routing of the witness batch: 50,50 below; 100 (the boundary) and 150 above *)
Example routing_witness :
  let st := hrun (init_state 1) wit_series in
  shard_rows st 11 = [rw 50 7 1 10; rw 50 7 2 20] /\
  shard_rows st 12 = [rw 100 7 1 30; rw 150 7 1 40] /\
  old_rows st = [rw 50 7 1 10; rw 50 7 2 20; rw 100 7 1 30; rw 150 7 1 40].
Proof. vm_compute. repeat split. Qed.

(* non-vacuity of routing_exact / routing_exact_shards *)
Example routing_exact_nonvacuous :
  exists st sid ss b sp a0 a1,
    aget N.eqb sid (i_splits st) = Some ss /\ valid_split ss sp a0 a1 /\ ib_ts b = TsInt64 /\ a0 <> a1 /\
    ib_rows b <> [].
Proof.
  exists (hrun (init_state 1) wit_prefix), 1%N, (mkSS PDual [11; 12]%N sp100),
         (mkIBatch 1 TsInt64 [rw 50 7 1 10; rw 100 7 1 30]), 100, 11%N, 12%N.
  repeat split; try reflexivity; discriminate.
Qed.

(* the repaired class, before the repair: the (timestamp, metric) key dropped
   the second series; the repaired routine keeps all four rows *)
Theorem series_collapse_repaired :
  let st := hrun (init_state 1) wit_series in
  let scanned := concat (scan st) in
  length (legacy_dedup_rows [] scanned) = 3%nat /\
  ~ In (rw 50 7 2 20) (legacy_dedup_rows [] scanned) /\
  Permutation (result_rows (query_state st (q_all (PRaw true true true)))) (written_rows wit_series) /\
  known_class (written_rows wit_series) (q_all (PRaw true true true)) = KNone.
Proof.
  split; [vm_compute; reflexivity|]. split; [|split].
  - vm_compute. intros [H|[H|[H|[]]]]; discriminate.
  - vm_compute. apply Permutation_refl.
  - vm_compute. reflexivity.
Qed.

(* COUNT( * ) is computed over old + new copies: 8 instead of 4 *)
Theorem refuted_aggregate_inflated :
  exists (h : list hop) (q : query),
    let st := hrun (init_state 1) h in
    i_buffer st = [] /\ has_active_split st = true /\
    known_class (written_rows h) q = KAggregate /\
    result_rows (query_state st q) = [mkRow None None [8]] /\
    result_rows (run_query false q [written_rows h]) = [mkRow None None [4]] /\
    ~ Permutation (result_rows (query_state st q)) (result_rows (run_query false q [written_rows h])).
Proof.
  exists wit_series, (q_all PCount). cbv zeta.
  split; [vm_compute; reflexivity|]. split; [vm_compute; reflexivity|].
  split; [vm_compute; reflexivity|]. split; [vm_compute; reflexivity|].
  split; [vm_compute; reflexivity|].
  intro H. apply Permutation_length_1 in H. revert H. vm_compute. discriminate.
Qed.

(* SUM and GROUP BY likewise (the grouped result even carries both gating
   columns, but its rows are distinct groups whose counts are already doubled) *)
Example aggregate_inflated_sum_group :
  let st := hrun (init_state 1) wit_series in
  result_rows (query_state st (q_all (PSum 1))) = [mkRow None None [200]] /\
  result_rows (run_query false (q_all (PSum 1)) [written_rows wit_series]) = [mkRow None None [100]] /\
  result_rows (query_state st (q_all PCountByKey)) =
    [mkRow (Some 50) (Some 7%N) [4]; mkRow (Some 100) (Some 7%N) [2]; mkRow (Some 150) (Some 7%N) [2]].
Proof. vm_compute. repeat split. Qed.

(* SELECT timestamp, <other columns> (no metric_name): every row comes back twice *)
Theorem refuted_projection_duplicates :
  exists (h : list hop) (q : query),
    let st := hrun (init_state 1) h in
    i_buffer st = [] /\ has_active_split st = true /\
    known_class (written_rows h) q = KProjection /\
    length (result_rows (query_state st q)) = 8%nat /\
    length (result_rows (run_query false q [written_rows h])) = 4%nat /\
    ~ Permutation (result_rows (query_state st q)) (result_rows (run_query false q [written_rows h])).
Proof.
  exists wit_series, (q_all (PRaw true false true)). cbv zeta.
  split; [vm_compute; reflexivity|]. split; [vm_compute; reflexivity|].
  split; [vm_compute; reflexivity|]. split; [vm_compute; reflexivity|].
  split; [vm_compute; reflexivity|].
  intro H. apply Permutation_length in H. revert H. vm_compute. discriminate.
Qed.

(* a genuine exact duplicate (the same sample written twice) is returned once *)
Definition wit_identical : list hop :=
  wit_prefix ++ [HWrite 1 (mkIBatch 1 TsInt64 [rw 50 7 1 10; rw 50 7 1 10; rw 150 7 1 40])].

Theorem refuted_identical_rows_collapse :
  exists (h : list hop) (q : query),
    let st := hrun (init_state 1) h in
    i_buffer st = [] /\ has_active_split st = true /\
    known_class (written_rows h) q = KIdentical /\
    length (result_rows (query_state st q)) = 2%nat /\
    length (result_rows (run_query false q [written_rows h])) = 3%nat /\
    ~ Permutation (result_rows (query_state st q)) (result_rows (run_query false q [written_rows h])).
Proof.
  exists wit_identical, (q_all (PRaw true true true)). cbv zeta.
  split; [vm_compute; reflexivity|]. split; [vm_compute; reflexivity|].
  split; [vm_compute; reflexivity|]. split; [vm_compute; reflexivity|].
  split; [vm_compute; reflexivity|].
  intro H. apply Permutation_length in H. revert H. vm_compute. discriminate.
Qed.

(* non-vacuity of history_modulo_known: the series witness satisfies all its
   hypotheses (and its rows share one (timestamp, metric) pair) *)
Example history_modulo_known_nonvacuous :
  let st := hrun (init_state 1) wit_series in
  i_buffer st = [] /\ has_active_split st = true /\
  known_class (written_rows wit_series) (q_all (PRaw true true true)) = KNone.
Proof. vm_compute. repeat split. Qed.

(* a Timestamp(Nanosecond) batch is rejected by the dual-write path — after it
   was appended to the old shard's buffer (and, here, flushed) *)
Example nanos_rejected_but_stored :
  let r := hstep (hrun (init_state 1) wit_prefix) (HWrite 1 (mkIBatch 2 TsNanos [rw 50 7 1 10])) in
  snd r = Failed E_SCHEMA /\ old_rows (fst r) = [rw 50 7 1 10] /\ new_rows (fst r) = [].
Proof. vm_compute. repeat split. Qed.

(* back-fill: a historical chunk of shard 1 is copied, split at the split
   point, under the new shards; during Backfill SELECT * still returns each
   row once, COUNT is doubled *)
Definition wit_backfill : list hop :=
  [HHist 1 [rw 50 7 1 10; rw 100 7 1 30; rw 150 7 2 40]; HStart 1 [11; 12]%N sp100; HProgress 1 PDual; HBackfill 1].

Example backfill_witness :
  let st := hrun (init_state 1) wit_backfill in
  shard_rows st 11 = [rw 50 7 1 10] /\
  shard_rows st 12 = [rw 100 7 1 30; rw 150 7 2 40] /\
  has_active_split st = true /\
  Permutation (result_rows (query_state st (q_all (PRaw true true true)))) (written_rows wit_backfill) /\
  result_rows (query_state st (q_all PCount)) = [mkRow None None [6]].
Proof. vm_compute. repeat split. apply Permutation_refl. Qed.

(* split-point decoding: big endian two's complement, exactly 8 bytes *)
Example split_ts_examples :
  split_ts sp100 = Some 100 /\
  split_ts [255; 255; 255; 255; 255; 255; 255; 255]%N = Some (-1) /\
  split_ts [128; 0; 0; 0; 0; 0; 0; 0]%N = Some i64_min /\
  split_ts [127; 255; 255; 255; 255; 255; 255; 255]%N = Some i64_max /\
  split_ts [0; 0; 0; 100]%N = None.
Proof. vm_compute. repeat split. Qed.
