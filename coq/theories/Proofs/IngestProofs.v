(* Proofs/IngestProofs.v — C06: conservation of accepted rows over every
   interleaving of writers, threshold flushes and timer flushes; exactly-once
   at quiescence; exact chunk metadata; one announcement per chunk.

   Multisets are handled by counting: for every row r,
   cnt r (accepted) = cnt r (catalog) + cnt r (buffer) + cnt r (in flight),
   which makes every preservation step linear arithmetic; the final theorems
   are converted to `Permutation` with Permutation_count_occ. *)
From Coq Require Import Permutation.
From CS Require Import Base.Prelude Model.Ingest.
Open Scope Z_scope.

(* ------------------------------------------------------------------ *)
(* counting                                                             *)
(* ------------------------------------------------------------------ *)
Definition row_eq_dec : forall a b : row, {a = b} + {a <> b}.
Proof. decide equality; [apply Z.eq_dec | apply N.eq_dec]. Defined.

Definition cnt (r : row) (l : list row) : nat := count_occ row_eq_dec l r.
Definition cntN (n : N) (l : list N) : nat := count_occ N.eq_dec l n.

Lemma cnt_app r l1 l2 : cnt r (l1 ++ l2) = (cnt r l1 + cnt r l2)%nat.
Proof. apply count_occ_app. Qed.
Lemma cnt_nil r : cnt r [] = 0%nat.
Proof. reflexivity. Qed.
Lemma cntN_app n l1 l2 : cntN n (l1 ++ l2) = (cntN n l1 + cntN n l2)%nat.
Proof. apply count_occ_app. Qed.

Lemma rows_of_app bs1 bs2 : rows_of (bs1 ++ bs2) = rows_of bs1 ++ rows_of bs2.
Proof. unfold rows_of. apply flat_map_app. Qed.
Lemma rows_of_snoc bs b : rows_of (bs ++ [b]) = rows_of bs ++ b_rows b.
Proof. rewrite rows_of_app. simpl. rewrite app_nil_r. reflexivity. Qed.
Lemma rows_of_cons b bs : rows_of (b :: bs) = b_rows b ++ rows_of bs.
Proof. reflexivity. Qed.

Lemma perm_of_cnt l1 l2 : (forall r, cnt r l1 = cnt r l2) -> Permutation l1 l2.
Proof. intros H. apply (Permutation_count_occ row_eq_dec). exact H. Qed.

(* sums over the writer threads *)
Fixpoint sumw (f : wthread -> nat) (ws : list wthread) : nat :=
  match ws with [] => 0%nat | w :: r => (f w + sumw f r)%nat end.

Lemma sumw_upd f ws : forall i w w',
  nth_error ws i = Some w -> (sumw f (upd i w' ws) + f w = sumw f ws + f w')%nat.
Proof.
  induction ws as [|x r IH]; intros i w w' H.
  - destruct i; discriminate.
  - destruct i as [|j]; simpl in *.
    + inversion H; subst. lia.
    + specialize (IH j w w' H). lia.
Qed.

Lemma cnt_flat_map_ws r (g : wthread -> list row) ws :
  cnt r (flat_map g ws) = sumw (fun w => cnt r (g w)) ws.
Proof.
  induction ws as [|w t IH]; simpl; [reflexivity|]. rewrite cnt_app, IH. reflexivity.
Qed.

Lemma sumw_ext f g ws : (forall w, f w = g w) -> sumw f ws = sumw g ws.
Proof. intros H. induction ws as [|w t IH]; simpl; [reflexivity|]. rewrite H, IH. reflexivity. Qed.

Lemma sumw_zero f ws : (forall w, In w ws -> f w = 0%nat) -> sumw f ws = 0%nat.
Proof.
  induction ws as [|w t IH]; intros H; simpl; [reflexivity|].
  rewrite (H w (or_introl eq_refl)), IH; [reflexivity|]. intros x Hx. apply H. right; exact Hx.
Qed.

Lemma sumw_plus f g ws : sumw (fun w => (f w + g w)%nat) ws = (sumw f ws + sumw g ws)%nat.
Proof. induction ws as [|w t IH]; simpl; [reflexivity|]. rewrite IH. lia. Qed.

Lemma upd_length {A} (x : A) l : forall i, length (upd i x l) = length l.
Proof. induction l as [|y r IH]; intros [|j]; simpl; auto. Qed.

Lemma Forall_upd {A} (P : A -> Prop) (x : A) l : forall i,
  Forall P l -> P x -> Forall P (upd i x l).
Proof.
  induction l as [|y r IH]; intros [|j] HF Hx; simpl; auto.
  - inversion HF; subst. constructor; assumption.
  - inversion HF; subst. constructor; [assumption|apply IH; assumption].
Qed.

(* ------------------------------------------------------------------ *)
(* fres measures                                                        *)
(* ------------------------------------------------------------------ *)
Definition fres_inflight (r : fres) : list row :=
  match r with FPc p => pc_inflight p | FRet _ => [] end.

Lemma inflight_begin_flush bs k : fres_inflight (begin_flush bs k) = rows_of bs.
Proof. destruct bs; reflexivity. Qed.

Lemma inflight_w_after r0 w : pc_inflight (w_pc (w_after r0 w)) = fres_inflight r0.
Proof. destruct r0 as [p|k]; simpl; [reflexivity|]. destruct k; reflexivity. Qed.

Lemma inflight_t_after r0 : pc_inflight (t_after r0) = fres_inflight r0.
Proof. destruct r0 as [p|k]; simpl; [reflexivity|]. destruct k; reflexivity. Qed.

(* the batch whose own write is waiting for the flush it triggered *)
Definition cont_own (k : cont) : list row := match k with KDone b => b_rows b | _ => [] end.
Definition pc_own (p : pc) : list row :=
  match p with
  | PPut _ k | PReg _ k | PAnn _ k | PFin k => cont_own k
  | _ => []
  end.
Definition fres_own (r : fres) : list row :=
  match r with FPc p => pc_own p | FRet k => cont_own k end.

Definition w_acc (r : row) (w : wthread) : nat :=
  (cnt r (res_rows (w_res w)) + cnt r (pc_own (w_pc w)))%nat.

Lemma res_rows_snoc res b ok :
  res_rows (res ++ [(b, ok)]) = res_rows res ++ (if ok then b_rows b else []).
Proof. unfold res_rows. rewrite flat_map_app. simpl. rewrite app_nil_r. reflexivity. Qed.

Lemma w_acc_after r r0 w :
  w_acc r (w_after r0 w) = (cnt r (res_rows (w_res w)) + cnt r (fres_own r0))%nat.
Proof.
  unfold w_acc. destruct r0 as [p|k]; simpl; [reflexivity|].
  destruct k; simpl; rewrite ?res_rows_snoc, ?cnt_app, ?cnt_nil; lia.
Qed.

Lemma own_begin_flush bs k : fres_own (begin_flush bs k) = cont_own k.
Proof. destruct bs; reflexivity. Qed.

(* ------------------------------------------------------------------ *)
(* flush_step facts                                                     *)
(* ------------------------------------------------------------------ *)
Lemma flush_step_frame sh p sh' r0 :
  flush_step sh p = Some (sh', r0) ->
  sh_buf sh' = sh_buf sh /\ sh_appended sh' = sh_appended sh /\ sh_clock sh' = sh_clock sh
  /\ sh_next_tick sh' = sh_next_tick sh.
Proof.
  destruct p; simpl; intros H; inversion H; subst; simpl; auto.
Qed.

Lemma flush_step_rows r sh p sh' r0 :
  flush_step sh p = Some (sh', r0) ->
  (cnt r (cat_rows sh') + cnt r (fres_inflight r0) = cnt r (cat_rows sh) + cnt r (pc_inflight p))%nat.
Proof.
  destruct p; simpl; intros H; inversion H; subst; unfold cat_rows; simpl;
    rewrite ?flat_map_app, ?cnt_app; simpl; rewrite ?app_nil_r, ?cnt_nil; lia.
Qed.

Lemma flush_step_own sh p sh' r0 :
  flush_step sh p = Some (sh', r0) -> fres_own r0 = pc_own p.
Proof. destruct p; simpl; intros H; inversion H; subst; reflexivity. Qed.

(* ------------------------------------------------------------------ *)
(* conservation                                                         *)
(* ------------------------------------------------------------------ *)
Definition app_cnt (r : row) (sh : shared) : nat := cnt r (rows_of (sh_appended sh)).
Definition store_cnt (r : row) (sh : shared) : nat :=
  (cnt r (cat_rows sh) + cnt r (buf_rows sh))%nat.

Ltac pinv H := apply pair_equal_spec in H; destruct H; subst.

Lemma wstep_rows r c sh w sh' w' :
  wstep c sh w = (sh', w') ->
  (app_cnt r sh' + store_cnt r sh + cnt r (pc_inflight (w_pc w))
   = app_cnt r sh + store_cnt r sh' + cnt r (pc_inflight (w_pc w')))%nat.
Proof.
  unfold wstep, app_cnt, store_cnt. intros H.
  destruct (w_pc w) eqn:Hpc.
  - (* PIdle *) destruct (w_todo w); inversion H; subst; simpl; rewrite ?Hpc; simpl; lia.
  - (* PLock *)
    destruct (negb (buf_compatible (sh_buf sh) b)).
    + pinv H. rewrite inflight_w_after, inflight_begin_flush.
      unfold buf_rows, cat_rows; simpl. rewrite ?cnt_nil. lia.
    + destruct (cf_max_bytes c <? bf_bytes (sh_buf sh) + b_size b)%N.
      * inversion H; subst; simpl. lia.
      * destruct (should_flush c (buf_append (sh_buf sh) b)).
        -- pinv H. rewrite inflight_w_after, inflight_begin_flush.
           unfold buf_rows, cat_rows; simpl. rewrite rows_of_snoc, ?cnt_app, ?cnt_nil. lia.
        -- inversion H; subst. unfold buf_rows, cat_rows; simpl.
           rewrite rows_of_snoc, ?cnt_app, ?cnt_nil. lia.
  - (* PPut *)
    cbn [flush_step] in H. pinv H. rewrite inflight_w_after. unfold buf_rows, cat_rows; simpl. lia.
  - (* PReg *)
    cbn [flush_step] in H. pinv H. rewrite inflight_w_after. unfold buf_rows, cat_rows; simpl.
    rewrite flat_map_app, cnt_app; simpl. rewrite app_nil_r. lia.
  - (* PAnn *)
    cbn [flush_step] in H. pinv H. rewrite inflight_w_after. unfold buf_rows, cat_rows; simpl. lia.
  - (* PFin *)
    cbn [flush_step] in H. pinv H. rewrite inflight_w_after. unfold buf_rows, cat_rows; simpl. lia.
  - simpl in H; inversion H; subst; rewrite Hpc; lia.
  - simpl in H; inversion H; subst; rewrite Hpc; lia.
  - simpl in H; inversion H; subst; rewrite Hpc; lia.
  - simpl in H; inversion H; subst; rewrite Hpc; lia.
Qed.
