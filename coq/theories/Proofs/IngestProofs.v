(* Proofs/IngestProofs.v — C06: conservation of accepted rows over every
   interleaving of writers, threshold flushes and timer flushes; exactly-once
   at quiescence; exact chunk metadata; one announcement per chunk.

   Multisets are handled by counting: for every row r,
   cnt r (accepted) = cnt r (catalog) + cnt r (buffer) + cnt r (in flight),
   which makes every preservation step linear arithmetic; the final theorems
   are converted to `Permutation` with Permutation_count_occ. *)
From Coq Require Import Permutation.
From CS Require Import Base.Prelude Model.Ingest.
Open Scope Z_scope.

(* ------------------------------------------------------------------ *)
(* counting                                                             *)
(* ------------------------------------------------------------------ *)
Definition row_eq_dec : forall a b : row, {a = b} + {a <> b}.
Proof. decide equality; [apply Z.eq_dec | apply N.eq_dec]. Defined.

Definition cnt (r : row) (l : list row) : nat := count_occ row_eq_dec l r.
Definition cntN (n : N) (l : list N) : nat := count_occ N.eq_dec l n.

Lemma cnt_app r l1 l2 : cnt r (l1 ++ l2) = (cnt r l1 + cnt r l2)%nat.
Proof. apply count_occ_app. Qed.
Lemma cnt_nil r : cnt r [] = 0%nat.
Proof. reflexivity. Qed.
Lemma cntN_app n l1 l2 : cntN n (l1 ++ l2) = (cntN n l1 + cntN n l2)%nat.
Proof. apply count_occ_app. Qed.

Lemma rows_of_app bs1 bs2 : rows_of (bs1 ++ bs2) = rows_of bs1 ++ rows_of bs2.
Proof. unfold rows_of. apply flat_map_app. Qed.
Lemma rows_of_snoc bs b : rows_of (bs ++ [b]) = rows_of bs ++ b_rows b.
Proof. rewrite rows_of_app. simpl. rewrite app_nil_r. reflexivity. Qed.
Lemma rows_of_cons b bs : rows_of (b :: bs) = b_rows b ++ rows_of bs.
Proof. reflexivity. Qed.

Lemma perm_of_cnt l1 l2 : (forall r, cnt r l1 = cnt r l2) -> Permutation l1 l2.
Proof. intros H. apply (Permutation_count_occ row_eq_dec). exact H. Qed.

(* sums over the writer threads *)
Fixpoint sumw (f : wthread -> nat) (ws : list wthread) : nat :=
  match ws with [] => 0%nat | w :: r => (f w + sumw f r)%nat end.

Lemma sumw_upd f ws : forall i w w',
  nth_error ws i = Some w -> (sumw f (upd i w' ws) + f w = sumw f ws + f w')%nat.
Proof.
  induction ws as [|x r IH]; intros i w w' H.
  - destruct i; discriminate.
  - destruct i as [|j]; simpl in *.
    + inversion H; subst. lia.
    + specialize (IH j w w' H). lia.
Qed.

Lemma cnt_flat_map_ws r (g : wthread -> list row) ws :
  cnt r (flat_map g ws) = sumw (fun w => cnt r (g w)) ws.
Proof.
  induction ws as [|w t IH]; simpl; [reflexivity|]. rewrite cnt_app, IH. reflexivity.
Qed.

Lemma sumw_ext f g ws : (forall w, f w = g w) -> sumw f ws = sumw g ws.
Proof. intros H. induction ws as [|w t IH]; simpl; [reflexivity|]. rewrite H, IH. reflexivity. Qed.

Lemma sumw_zero f ws : (forall w, In w ws -> f w = 0%nat) -> sumw f ws = 0%nat.
Proof.
  induction ws as [|w t IH]; intros H; simpl; [reflexivity|].
  rewrite (H w (or_introl eq_refl)), IH; [reflexivity|]. intros x Hx. apply H. right; exact Hx.
Qed.

Lemma sumw_plus f g ws : sumw (fun w => (f w + g w)%nat) ws = (sumw f ws + sumw g ws)%nat.
Proof. induction ws as [|w t IH]; simpl; [reflexivity|]. rewrite IH. lia. Qed.

Lemma upd_length {A} (x : A) l : forall i, length (upd i x l) = length l.
Proof. induction l as [|y r IH]; intros [|j]; simpl; auto. Qed.

Lemma Forall_upd {A} (P : A -> Prop) (x : A) l : forall i,
  Forall P l -> P x -> Forall P (upd i x l).
Proof.
  induction l as [|y r IH]; intros [|j] HF Hx; simpl; auto.
  - inversion HF; subst. constructor; assumption.
  - inversion HF; subst. constructor; [assumption|apply IH; assumption].
Qed.

(* ------------------------------------------------------------------ *)
(* fres measures                                                        *)
(* ------------------------------------------------------------------ *)
Definition fres_inflight (r : fres) : list row :=
  match r with FPc p => pc_inflight p | FRet _ => [] end.

Lemma inflight_begin_flush bs k : fres_inflight (begin_flush bs k) = rows_of bs.
Proof. destruct bs; reflexivity. Qed.

Lemma inflight_w_after r0 w : pc_inflight (w_pc (w_after r0 w)) = fres_inflight r0.
Proof. destruct r0 as [p|k]; simpl; [reflexivity|]. destruct k; reflexivity. Qed.

Lemma inflight_t_after r0 : pc_inflight (t_after r0) = fres_inflight r0.
Proof. destruct r0 as [p|k]; simpl; [reflexivity|]. destruct k; reflexivity. Qed.

(* the batch whose own write is waiting for the flush it triggered *)
Definition cont_own (k : cont) : list row := match k with KDone b => b_rows b | _ => [] end.
Definition pc_own (p : pc) : list row :=
  match p with
  | PPut _ k | PReg _ k | PAnn _ k | PFin k => cont_own k
  | _ => []
  end.
Definition fres_own (r : fres) : list row :=
  match r with FPc p => pc_own p | FRet k => cont_own k end.

Definition w_acc (r : row) (w : wthread) : nat :=
  (cnt r (res_rows (w_res w)) + cnt r (pc_own (w_pc w)))%nat.

Lemma res_rows_snoc res b ok :
  res_rows (res ++ [(b, ok)]) = res_rows res ++ (if ok then b_rows b else []).
Proof. unfold res_rows. rewrite flat_map_app. simpl. rewrite app_nil_r. reflexivity. Qed.

Lemma w_acc_after r r0 w :
  w_acc r (w_after r0 w) = (cnt r (res_rows (w_res w)) + cnt r (fres_own r0))%nat.
Proof.
  unfold w_acc. destruct r0 as [p|k]; simpl; [reflexivity|].
  destruct k; simpl; rewrite ?res_rows_snoc, ?cnt_app, ?cnt_nil; lia.
Qed.

Lemma own_begin_flush bs k : fres_own (begin_flush bs k) = cont_own k.
Proof. destruct bs; reflexivity. Qed.

(* ------------------------------------------------------------------ *)
(* flush_step facts                                                     *)
(* ------------------------------------------------------------------ *)
Lemma flush_step_frame sh p sh' r0 :
  flush_step sh p = Some (sh', r0) ->
  sh_buf sh' = sh_buf sh /\ sh_appended sh' = sh_appended sh /\ sh_clock sh' = sh_clock sh
  /\ sh_next_tick sh' = sh_next_tick sh.
Proof.
  destruct p; simpl; intros H; inversion H; subst; simpl; auto.
Qed.

Lemma flush_step_rows r sh p sh' r0 :
  flush_step sh p = Some (sh', r0) ->
  (cnt r (cat_rows sh') + cnt r (fres_inflight r0) = cnt r (cat_rows sh) + cnt r (pc_inflight p))%nat.
Proof.
  destruct p; simpl; intros H; inversion H; subst; unfold cat_rows; simpl;
    rewrite ?flat_map_app, ?cnt_app; simpl; rewrite ?app_nil_r, ?cnt_nil; lia.
Qed.

Lemma flush_step_own sh p sh' r0 :
  flush_step sh p = Some (sh', r0) -> fres_own r0 = pc_own p.
Proof. destruct p; simpl; intros H; inversion H; subst; reflexivity. Qed.

(* ------------------------------------------------------------------ *)
(* conservation                                                         *)
(* ------------------------------------------------------------------ *)
Definition app_cnt (r : row) (sh : shared) : nat := cnt r (rows_of (sh_appended sh)).
Definition store_cnt (r : row) (sh : shared) : nat :=
  (cnt r (cat_rows sh) + cnt r (buf_rows sh))%nat.

Ltac pinv H := apply pair_equal_spec in H; destruct H; subst.

Lemma wstep_rows r c sh w sh' w' :
  wstep c sh w = (sh', w') ->
  (app_cnt r sh' + store_cnt r sh + cnt r (pc_inflight (w_pc w))
   = app_cnt r sh + store_cnt r sh' + cnt r (pc_inflight (w_pc w')))%nat.
Proof.
  unfold wstep, app_cnt, store_cnt. intros H.
  destruct (w_pc w) eqn:Hpc.
  - (* PIdle *) destruct (w_todo w) as [|b0 r0]; [|destruct (b_rows b0)]; inversion H; subst; simpl; rewrite ?Hpc; simpl; lia.
  - (* PLock *)
    destruct (negb (buf_compatible (sh_buf sh) b)).
    + pinv H. rewrite inflight_w_after, inflight_begin_flush.
      unfold buf_rows, cat_rows; simpl. rewrite ?cnt_nil. lia.
    + destruct (cf_max_bytes c <? bf_bytes (sh_buf sh) + b_size b)%N.
      * inversion H; subst; simpl. lia.
      * destruct (should_flush c (buf_append (sh_buf sh) b)).
        -- pinv H. rewrite inflight_w_after, inflight_begin_flush.
           unfold buf_rows, cat_rows; simpl. rewrite rows_of_snoc, ?cnt_app, ?cnt_nil. lia.
        -- inversion H; subst. unfold buf_rows, cat_rows; simpl.
           rewrite rows_of_snoc, ?cnt_app, ?cnt_nil. lia.
  - (* PPut *)
    cbn [flush_step] in H. pinv H. rewrite inflight_w_after. unfold buf_rows, cat_rows; simpl. lia.
  - (* PReg *)
    cbn [flush_step] in H. pinv H. rewrite inflight_w_after. unfold buf_rows, cat_rows; simpl.
    rewrite flat_map_app, cnt_app; simpl. rewrite app_nil_r. lia.
  - (* PAnn *)
    cbn [flush_step] in H. pinv H. rewrite inflight_w_after. unfold buf_rows, cat_rows; simpl. lia.
  - (* PFin *)
    cbn [flush_step] in H. pinv H. rewrite inflight_w_after. unfold buf_rows, cat_rows; simpl. lia.
  - simpl in H; inversion H; subst; rewrite Hpc; lia.
  - simpl in H; inversion H; subst; rewrite Hpc; lia.
  - simpl in H; inversion H; subst; rewrite Hpc; lia.
  - simpl in H; inversion H; subst; rewrite Hpc; lia.
Qed.

Lemma wstep_acc r c sh w sh' w' :
  wstep c sh w = (sh', w') ->
  (app_cnt r sh' + w_acc r w = app_cnt r sh + w_acc r w')%nat.
Proof.
  unfold wstep, app_cnt. intros H.
  destruct (w_pc w) eqn:Hpc.
  - destruct (w_todo w) as [|b0 r0]; [|destruct (b_rows b0) eqn:Hb0]; pinv H; unfold w_acc; simpl;
      rewrite ?Hpc, ?res_rows_snoc, ?cnt_app, ?Hb0; simpl; lia.
  - destruct (negb (buf_compatible (sh_buf sh) b)).
    + pinv H. rewrite w_acc_after, own_begin_flush. unfold w_acc. rewrite Hpc. simpl. lia.
    + destruct (cf_max_bytes c <? bf_bytes (sh_buf sh) + b_size b)%N.
      * pinv H. unfold w_acc; simpl. rewrite Hpc, res_rows_snoc, cnt_app. simpl. lia.
      * destruct (should_flush c (buf_append (sh_buf sh) b)).
        -- pinv H. rewrite w_acc_after, own_begin_flush. unfold w_acc. rewrite Hpc. simpl.
           rewrite cnt_app. lia.
        -- pinv H. unfold w_acc; simpl. rewrite Hpc, res_rows_snoc, !cnt_app. simpl. lia.
  - cbn [flush_step] in H. pinv H. rewrite w_acc_after. unfold w_acc. rewrite Hpc. simpl. lia.
  - cbn [flush_step] in H. pinv H. rewrite w_acc_after. unfold w_acc. rewrite Hpc. simpl. lia.
  - cbn [flush_step] in H. pinv H. rewrite w_acc_after. unfold w_acc. rewrite Hpc. simpl. lia.
  - cbn [flush_step] in H. pinv H. rewrite w_acc_after. unfold w_acc. rewrite Hpc. simpl. lia.
  - simpl in H; pinv H; lia.
  - simpl in H; pinv H; lia.
  - simpl in H; pinv H; lia.
  - simpl in H; pinv H; lia.
Qed.

Lemma tstep_rows r c shut sh p sh' p' :
  tstep c shut sh p = (sh', p') ->
  sh_appended sh' = sh_appended sh /\
  (store_cnt r sh + cnt r (pc_inflight p) = store_cnt r sh' + cnt r (pc_inflight p'))%nat.
Proof.
  unfold tstep, store_cnt. intros H.
  destruct p.
  - destruct shut; [pinv H; simpl; split; [reflexivity|lia]|].
    destruct (sh_next_tick sh <=? sh_clock sh); pinv H; simpl; split; try reflexivity; lia.
  - pinv H. split; [reflexivity|lia].
  - cbn [flush_step] in H. pinv H. rewrite inflight_t_after. unfold buf_rows, cat_rows; simpl.
    split; [reflexivity|lia].
  - cbn [flush_step] in H. pinv H. rewrite inflight_t_after. unfold buf_rows, cat_rows; simpl.
    rewrite flat_map_app, cnt_app; simpl. rewrite app_nil_r. split; [reflexivity|lia].
  - cbn [flush_step] in H. pinv H. rewrite inflight_t_after. unfold buf_rows, cat_rows; simpl.
    split; [reflexivity|lia].
  - cbn [flush_step] in H. pinv H. rewrite inflight_t_after. unfold buf_rows, cat_rows; simpl.
    split; [reflexivity|lia].
  - destruct (negb (buf_is_empty (sh_buf sh)) && (cf_interval c <=? sh_clock sh - sh_last_flush sh));
      pinv H; simpl; split; try reflexivity; lia.
  - pinv H. rewrite inflight_t_after, inflight_begin_flush. unfold buf_rows, cat_rows; simpl.
    split; [reflexivity|lia].
  - pinv H. rewrite inflight_t_after, inflight_begin_flush. unfold buf_rows, cat_rows; simpl.
    split; [reflexivity|lia].
  - pinv H. split; [reflexivity|lia].
Qed.

Definition w_infl (r : row) (w : wthread) : nat := cnt r (pc_inflight (w_pc w)).

Definition cons1 (r : row) (s : state) : Prop :=
  app_cnt r (st_sh s)
  = (store_cnt r (st_sh s) + sumw (w_infl r) (st_ws s) + cnt r (pc_inflight (st_tm s)))%nat.
Definition cons2 (r : row) (s : state) : Prop :=
  app_cnt r (st_sh s) = sumw (w_acc r) (st_ws s).

Lemma cons_step r c l s : cons1 r s /\ cons2 r s -> cons1 r (step c l s) /\ cons2 r (step c l s).
Proof.
  unfold cons1, cons2. intros [H1 H2]. destruct l as [i| |d|]; simpl.
  - destruct (nth_error (st_ws s) i) as [w|] eqn:Hn; [|split; assumption].
    destruct (wstep c (st_sh s) w) as [sh' w'] eqn:Hw. simpl.
    pose proof (wstep_rows r _ _ _ _ _ Hw) as Ha. pose proof (wstep_acc r _ _ _ _ _ Hw) as Hb.
    pose proof (sumw_upd (w_infl r) _ _ _ w' Hn) as Hs1.
    pose proof (sumw_upd (w_acc r) _ _ _ w' Hn) as Hs2.
    unfold w_infl in *. split; lia.
  - destruct (tstep c (st_shut s) (st_sh s) (st_tm s)) as [sh' p'] eqn:Ht. simpl.
    destruct (tstep_rows r _ _ _ _ _ _ Ht) as [Ha Hb]. unfold app_cnt in *. rewrite Ha. split; lia.
  - split; assumption.
  - split; assumption.
Qed.

Lemma sumw_init f todos : (forall t, f (mkW PIdle t []) = 0%nat) ->
  sumw f (map (fun t => mkW PIdle t []) todos) = 0%nat.
Proof. intros H. induction todos as [|t r IH]; simpl; [reflexivity|]. rewrite H, IH. reflexivity. Qed.

Lemma cons_init r todos : cons1 r (init todos) /\ cons2 r (init todos).
Proof.
  unfold cons1, cons2, init, app_cnt, store_cnt; simpl. split.
  - rewrite sumw_init; [reflexivity|]. intros; reflexivity.
  - rewrite sumw_init; [reflexivity|]. intros; reflexivity.
Qed.

Lemma cons_run r c ls : forall s, cons1 r s /\ cons2 r s -> cons1 r (run c ls s) /\ cons2 r (run c ls s).
Proof.
  induction ls as [|l t IH]; intros s H; simpl; [exact H|]. apply IH. apply cons_step. exact H.
Qed.

(* Conservation, for every interleaving: the rows of all batches appended so
   far = rows in registered chunks ⊎ rows in the buffer ⊎ rows taken by a
   flush that has not registered its chunk yet. *)
Theorem conservation : forall c todos ls,
  let s := run c ls (init todos) in
  Permutation (accepted_rows s) (cat_rows (st_sh s) ++ buf_rows (st_sh s) ++ inflight_rows s).
Proof.
  intros c todos ls s. apply perm_of_cnt. intros r.
  destruct (cons_run r c ls _ (cons_init r todos)) as [H1 _]. fold s in H1.
  unfold cons1, app_cnt, store_cnt in H1. unfold accepted_rows, inflight_rows.
  rewrite !cnt_app, cnt_flat_map_ws. unfold w_infl in H1. lia.
Qed.

(* every appended batch belongs to a write that has returned Ok or to a write
   whose own threshold flush is still running *)
Definition pending_own_rows (s : state) : list row :=
  flat_map (fun w => pc_own (w_pc w)) (st_ws s).

Theorem accepted_is_acked_plus_pending : forall c todos ls,
  let s := run c ls (init todos) in
  Permutation (accepted_rows s) (acked_rows s ++ pending_own_rows s).
Proof.
  intros c todos ls s. apply perm_of_cnt. intros r.
  destruct (cons_run r c ls _ (cons_init r todos)) as [_ H2]. fold s in H2.
  unfold cons2, app_cnt in H2. unfold accepted_rows, acked_rows, pending_own_rows.
  rewrite cnt_app, !cnt_flat_map_ws, <- sumw_plus. exact H2.
Qed.

Lemma quiescent_spec s : quiescent s = true ->
  (forall w, In w (st_ws s) -> w_pc w = PIdle) /\ pc_inflight (st_tm s) = []
  /\ bf_batches (sh_buf (st_sh s)) = [].
Proof.
  unfold quiescent. rewrite !andb_true_iff. intros [[Hw Ht] Hb]. split; [|split].
  - intros w Hin. rewrite forallb_forall in Hw. specialize (Hw w Hin).
    destruct (w_pc w); try discriminate. reflexivity.
  - destruct (st_tm s); try discriminate; reflexivity.
  - unfold buf_is_empty in Hb. destruct (bf_batches (sh_buf (st_sh s))); [reflexivity|discriminate].
Qed.

(* C06, exactly once: when no write and no flush is in progress and the buffer
   is empty, the rows in registered chunks are exactly the rows of the writes
   that returned Ok (as multisets: none missing, none repeated). *)
Theorem exactly_once : forall c todos ls,
  let s := run c ls (init todos) in
  quiescent s = true -> Permutation (acked_rows s) (cat_rows (st_sh s)).
Proof.
  intros c todos ls s Hq. apply perm_of_cnt. intros r.
  destruct (cons_run r c ls _ (cons_init r todos)) as [H1 H2]. fold s in H1, H2.
  destruct (quiescent_spec _ Hq) as (Hw & Ht & Hb).
  unfold cons1, cons2, app_cnt, store_cnt, buf_rows in *. rewrite Ht, Hb in H1. simpl in H1.
  assert (Hz1 : sumw (w_infl r) (st_ws s) = 0%nat).
  { apply sumw_zero. intros w Hin. unfold w_infl. rewrite (Hw w Hin). reflexivity. }
  assert (Hz2 : sumw (w_acc r) (st_ws s) = sumw (fun w => cnt r (res_rows (w_res w))) (st_ws s)).
  { clear - Hw. induction (st_ws s) as [|w t IH]; simpl; [reflexivity|].
    rewrite IH by (intros x Hx; apply Hw; right; exact Hx).
    unfold w_acc. rewrite (Hw w (or_introl eq_refl)). simpl. lia. }
  unfold acked_rows. rewrite cnt_flat_map_ws. rewrite ?cnt_nil in H1. lia.
Qed.

(* ------------------------------------------------------------------ *)
(* frame: every step is a flush step or leaves catalog / objects /      *)
(* announcements alone and involves no chunk-carrying pc                 *)
(* ------------------------------------------------------------------ *)
Definition pc_nochunk (p : pc) : Prop :=
  match p with PReg _ _ | PAnn _ _ => False | _ => True end.

Definition same_store (sh sh' : shared) : Prop :=
  sh_cat sh' = sh_cat sh /\ sh_ann sh' = sh_ann sh /\ sh_tann sh' = sh_tann sh
  /\ sh_next sh' = sh_next sh /\ sh_objs sh' = sh_objs sh.

Lemma same_store_refl sh : same_store sh sh.
Proof. repeat split. Qed.

Lemma nochunk_w_after_begin bs k w : pc_nochunk (w_pc (w_after (begin_flush bs k) w)).
Proof. destruct bs; destruct k; simpl; exact I. Qed.
Lemma nochunk_t_after_begin bs k : pc_nochunk (t_after (begin_flush bs k)).
Proof. destruct bs; destruct k; simpl; exact I. Qed.

Lemma wstep_frame c sh w sh' w' :
  wstep c sh w = (sh', w') ->
  (exists r0, flush_step sh (w_pc w) = Some (sh', r0) /\ w' = w_after r0 w)
  \/ (same_store sh sh' /\ pc_nochunk (w_pc w) /\ pc_nochunk (w_pc w')).
Proof.
  unfold wstep. intros H. destruct (w_pc w) eqn:Hpc.
  - right. destruct (w_todo w) as [|b0 r0]; [|destruct (b_rows b0)]; pinv H; rewrite ?Hpc; simpl; auto using same_store_refl.
  - right. destruct (negb (buf_compatible (sh_buf sh) b)).
    + pinv H. split; [repeat split|]. split; [exact I|apply nochunk_w_after_begin].
    + destruct (cf_max_bytes c <? bf_bytes (sh_buf sh) + b_size b)%N.
      * pinv H. simpl. auto using same_store_refl.
      * destruct (should_flush c (buf_append (sh_buf sh) b)).
        -- pinv H. split; [repeat split|]. split; [exact I|apply nochunk_w_after_begin].
        -- pinv H. split; [repeat split|]. simpl. auto.
  - left. cbn [flush_step] in H. pinv H. eexists; split; reflexivity.
  - left. cbn [flush_step] in H. pinv H. eexists; split; reflexivity.
  - left. cbn [flush_step] in H. pinv H. eexists; split; reflexivity.
  - left. cbn [flush_step] in H. pinv H. eexists; split; reflexivity.
  - right. simpl in H. pinv H. rewrite Hpc. simpl. auto using same_store_refl.
  - right. simpl in H. pinv H. rewrite Hpc. simpl. auto using same_store_refl.
  - right. simpl in H. pinv H. rewrite Hpc. simpl. auto using same_store_refl.
  - right. simpl in H. pinv H. rewrite Hpc. simpl. auto using same_store_refl.
Qed.

Lemma tstep_frame c shut sh p sh' p' :
  tstep c shut sh p = (sh', p') ->
  (exists r0, flush_step sh p = Some (sh', r0) /\ p' = t_after r0)
  \/ (same_store sh sh' /\ pc_nochunk p /\ pc_nochunk p').
Proof.
  unfold tstep. intros H. destruct p.
  - right. destruct shut; [pinv H; simpl; auto using same_store_refl|].
    destruct (sh_next_tick sh <=? sh_clock sh); pinv H; simpl; auto using same_store_refl.
    split; [repeat split|auto].
  - right. pinv H. simpl. auto using same_store_refl.
  - left. cbn [flush_step] in H. pinv H. eexists; split; reflexivity.
  - left. cbn [flush_step] in H. pinv H. eexists; split; reflexivity.
  - left. cbn [flush_step] in H. pinv H. eexists; split; reflexivity.
  - left. cbn [flush_step] in H. pinv H. eexists; split; reflexivity.
  - right. destruct (negb (buf_is_empty (sh_buf sh)) && (cf_interval c <=? sh_clock sh - sh_last_flush sh));
      pinv H; simpl; auto using same_store_refl.
  - right. pinv H. split; [repeat split|]. split; [exact I|apply nochunk_t_after_begin].
  - right. pinv H. split; [repeat split|]. split; [exact I|apply nochunk_t_after_begin].
  - right. pinv H. simpl. auto using same_store_refl.
Qed.

(* ------------------------------------------------------------------ *)
(* chunk metadata and stored objects                                    *)
(* ------------------------------------------------------------------ *)
Definition meta_ok (c : chunk) : Prop :=
  k_count c = N.of_nat (length (k_rows c)) /\
  k_min c = or0 (ts_min (k_rows c)) /\ k_max c = or0 (ts_max (k_rows c)).

Definition chunk_ok (sh : shared) (c : chunk) : Prop :=
  meta_ok c /\ In (k_id c, k_rows c) (sh_objs sh).

Definition pc_chunks (p : pc) : list chunk :=
  match p with PReg c _ | PAnn c _ => [c] | _ => [] end.
Definition fres_chunks (r : fres) : list chunk :=
  match r with FPc p => pc_chunks p | FRet _ => [] end.

Lemma chunks_w_after r0 w : pc_chunks (w_pc (w_after r0 w)) = fres_chunks r0.
Proof. destruct r0 as [p|k]; simpl; [reflexivity|destruct k; reflexivity]. Qed.
Lemma chunks_t_after r0 : pc_chunks (t_after r0) = fres_chunks r0.
Proof. destruct r0 as [p|k]; simpl; [reflexivity|destruct k; reflexivity]. Qed.
Lemma nochunk_chunks p : pc_nochunk p -> pc_chunks p = [].
Proof. destruct p; simpl; intros H; try reflexivity; contradiction. Qed.

Lemma flush_step_objs_mono sh p sh' r0 :
  flush_step sh p = Some (sh', r0) -> forall x, In x (sh_objs sh) -> In x (sh_objs sh').
Proof.
  destruct p; simpl; intros H; inversion H; subst; simpl; auto.
  intros x Hx. apply in_or_app. left; exact Hx.
Qed.

Lemma chunk_ok_mono sh sh' c :
  (forall x, In x (sh_objs sh) -> In x (sh_objs sh')) -> chunk_ok sh c -> chunk_ok sh' c.
Proof. intros Hm [Ha Hb]. split; [exact Ha|apply Hm; exact Hb]. Qed.

Lemma flush_step_chunks sh p sh' r0 :
  flush_step sh p = Some (sh', r0) ->
  Forall (chunk_ok sh) (sh_cat sh) -> Forall (chunk_ok sh) (pc_chunks p) ->
  Forall (chunk_ok sh') (sh_cat sh') /\ Forall (chunk_ok sh') (fres_chunks r0).
Proof.
  intros H Hc Hp. pose proof (flush_step_objs_mono _ _ _ _ H) as Hm.
  assert (Hc' : Forall (chunk_ok sh') (sh_cat sh)).
  { eapply Forall_impl; [|exact Hc]. intros a. apply chunk_ok_mono. exact Hm. }
  assert (Hp' : Forall (chunk_ok sh') (pc_chunks p)).
  { eapply Forall_impl; [|exact Hp]. intros a. apply chunk_ok_mono. exact Hm. }
  destruct p; simpl in H; inversion H; subst; simpl in *.
  - split; [exact Hc'|]. constructor; [|constructor]. split.
    + unfold meta_ok; simpl. auto.
    + simpl. apply in_or_app. right. left. reflexivity.
  - split; [|exact Hp']. apply Forall_app. split; [exact Hc'|exact Hp'].
  - split; [exact Hc'|constructor].
  - split; [exact Hc'|constructor].
Qed.

Definition chunks_inv (s : state) : Prop :=
  Forall (chunk_ok (st_sh s)) (sh_cat (st_sh s)) /\
  Forall (fun w => Forall (chunk_ok (st_sh s)) (pc_chunks (w_pc w))) (st_ws s) /\
  Forall (chunk_ok (st_sh s)) (pc_chunks (st_tm s)).

Lemma Forall_ws_mono (P Q : wthread -> Prop) ws :
  (forall w, P w -> Q w) -> Forall P ws -> Forall Q ws.
Proof. intros H HF. eapply Forall_impl; [exact H|exact HF]. Qed.

Lemma chunks_inv_step c l s : chunks_inv s -> chunks_inv (step c l s).
Proof.
  unfold chunks_inv. intros (Hc & Hw & Ht). destruct l as [i| |d|]; simpl.
  - destruct (nth_error (st_ws s) i) as [w|] eqn:Hn; [|auto].
    destruct (wstep c (st_sh s) w) as [sh' w'] eqn:Hs. simpl.
    assert (Hwi : Forall (chunk_ok (st_sh s)) (pc_chunks (w_pc w))).
    { rewrite Forall_forall in Hw. apply Hw. eapply nth_error_In; exact Hn. }
    destruct (wstep_frame _ _ _ _ _ Hs) as [(r0 & Hf & Hw')|(Hss & Hn1 & Hn2)].
    + subst w'. destruct (flush_step_chunks _ _ _ _ Hf Hc Hwi) as [Hc' Hr].
      pose proof (flush_step_objs_mono _ _ _ _ Hf) as Hm.
      split; [exact Hc'|]. split.
      * apply Forall_upd.
        -- eapply Forall_ws_mono; [|exact Hw]. intros x Hx.
           eapply Forall_impl; [|exact Hx]. intros a. apply chunk_ok_mono. exact Hm.
        -- rewrite chunks_w_after. exact Hr.
      * eapply Forall_impl; [|exact Ht]. intros a. apply chunk_ok_mono. exact Hm.
    + destruct Hss as (E1 & _ & _ & _ & E5).
      assert (Hm : forall x, In x (sh_objs (st_sh s)) -> In x (sh_objs sh')) by (rewrite E5; auto).
      split; [|split].
      * rewrite E1. eapply Forall_impl; [|exact Hc]. intros a. apply chunk_ok_mono. exact Hm.
      * apply Forall_upd.
        -- eapply Forall_ws_mono; [|exact Hw]. intros x Hx.
           eapply Forall_impl; [|exact Hx]. intros a. apply chunk_ok_mono. exact Hm.
        -- rewrite (nochunk_chunks _ Hn2). constructor.
      * eapply Forall_impl; [|exact Ht]. intros a. apply chunk_ok_mono. exact Hm.
  - destruct (tstep c (st_shut s) (st_sh s) (st_tm s)) as [sh' p'] eqn:Hs. simpl.
    destruct (tstep_frame _ _ _ _ _ _ Hs) as [(r0 & Hf & Hp')|(Hss & Hn1 & Hn2)].
    + subst p'. destruct (flush_step_chunks _ _ _ _ Hf Hc Ht) as [Hc' Hr].
      pose proof (flush_step_objs_mono _ _ _ _ Hf) as Hm.
      split; [exact Hc'|]. split.
      * eapply Forall_ws_mono; [|exact Hw]. intros x Hx.
        eapply Forall_impl; [|exact Hx]. intros a. apply chunk_ok_mono. exact Hm.
      * rewrite chunks_t_after. exact Hr.
    + destruct Hss as (E1 & _ & _ & _ & E5).
      assert (Hm : forall x, In x (sh_objs (st_sh s)) -> In x (sh_objs sh')) by (rewrite E5; auto).
      split; [|split].
      * rewrite E1. eapply Forall_impl; [|exact Hc]. intros a. apply chunk_ok_mono. exact Hm.
      * eapply Forall_ws_mono; [|exact Hw]. intros x Hx.
        eapply Forall_impl; [|exact Hx]. intros a. apply chunk_ok_mono. exact Hm.
      * rewrite (nochunk_chunks _ Hn2). constructor.
  - auto.
  - auto.
Qed.

Lemma chunks_inv_init todos : chunks_inv (init todos).
Proof.
  unfold chunks_inv, init; simpl. split; [constructor|]. split; [|constructor].
  induction todos as [|t r IH]; simpl; constructor; [constructor|exact IH].
Qed.

Lemma chunks_inv_run c ls : forall s, chunks_inv s -> chunks_inv (run c ls s).
Proof. induction ls as [|l t IH]; intros s H; simpl; [exact H|]. apply IH, chunks_inv_step, H. Qed.

(* min / max of a non-empty timestamp column *)
Lemma ts_min_spec l : l <> [] ->
  exists m, ts_min l = Some m /\ (exists r, In r l /\ r_ts r = m) /\ forall r, In r l -> m <= r_ts r.
Proof.
  induction l as [|a t IH]; intros Hne; [contradiction|]. simpl.
  destruct t as [|b t'].
  - simpl. exists (r_ts a). split; [reflexivity|]. split.
    + exists a; split; [left; reflexivity|reflexivity].
    + intros r [E|[]]; subst; lia.
  - destruct IH as (m & Hm & (r0 & Hin & Hr0) & Hle); [discriminate|].
    rewrite Hm. exists (Z.min (r_ts a) m). split; [reflexivity|]. split.
    + destruct (Z.min_spec (r_ts a) m) as [[_ E]|[_ E]]; rewrite E.
      * exists a; split; [left; reflexivity|reflexivity].
      * exists r0; split; [right; exact Hin|exact Hr0].
    + intros r [E|Hr]; [subst; lia|]. specialize (Hle r Hr). lia.
Qed.

Lemma ts_max_spec l : l <> [] ->
  exists m, ts_max l = Some m /\ (exists r, In r l /\ r_ts r = m) /\ forall r, In r l -> r_ts r <= m.
Proof.
  induction l as [|a t IH]; intros Hne; [contradiction|]. simpl.
  destruct t as [|b t'].
  - simpl. exists (r_ts a). split; [reflexivity|]. split.
    + exists a; split; [left; reflexivity|reflexivity].
    + intros r [E|[]]; subst; lia.
  - destruct IH as (m & Hm & (r0 & Hin & Hr0) & Hle); [discriminate|].
    rewrite Hm. exists (Z.max (r_ts a) m). split; [reflexivity|]. split.
    + destruct (Z.max_spec (r_ts a) m) as [[_ E]|[_ E]]; rewrite E.
      * exists r0; split; [right; exact Hin|exact Hr0].
      * exists a; split; [left; reflexivity|reflexivity].
    + intros r [E|Hr]; [subst; lia|]. specialize (Hle r Hr). lia.
Qed.

(* what a catalog entry says about the rows of its chunk *)
Definition meta_exact_for (c : chunk) : Prop :=
  k_count c = N.of_nat (length (k_rows c)) /\
  (k_rows c <> [] ->
     (exists r, In r (k_rows c) /\ r_ts r = k_min c) /\
     (exists r, In r (k_rows c) /\ r_ts r = k_max c) /\
     (forall r, In r (k_rows c) -> k_min c <= r_ts r <= k_max c)) /\
  (k_rows c = [] -> k_min c = 0 /\ k_max c = 0).

Lemma meta_ok_exact c : meta_ok c -> meta_exact_for c.
Proof.
  intros (Hc & Hmin & Hmax). split; [exact Hc|]. split.
  - intros Hne. destruct (ts_min_spec _ Hne) as (m & Em & Hin & Hle).
    destruct (ts_max_spec _ Hne) as (M & EM & HinM & HleM).
    rewrite Em in Hmin. rewrite EM in Hmax. simpl in Hmin, Hmax. rewrite Hmin, Hmax.
    split; [exact Hin|]. split; [exact HinM|]. intros r Hr. split; [apply Hle|apply HleM]; exact Hr.
  - intros E. rewrite E in Hmin, Hmax. simpl in Hmin, Hmax. auto.
Qed.

(* C06, exact metadata: every catalog entry, in every reachable state, states
   the true row count and the true minimum and maximum timestamp of the rows
   of the object stored under its id. *)
Theorem meta_exact : forall c todos ls ch,
  let s := run c ls (init todos) in
  In ch (sh_cat (st_sh s)) ->
  meta_exact_for ch /\ In (k_id ch, k_rows ch) (sh_objs (st_sh s)).
Proof.
  intros c todos ls ch s Hin.
  destruct (chunks_inv_run c ls _ (chunks_inv_init todos)) as (Hc & _ & _). fold s in Hc.
  rewrite Forall_forall in Hc. destruct (Hc ch Hin) as [Hm Ho].
  split; [apply meta_ok_exact; exact Hm|exact Ho].
Qed.

(* ------------------------------------------------------------------ *)
(* announcements: counted through an arbitrary key of chunks            *)
(* ------------------------------------------------------------------ *)
Definition ind (b : bool) : nat := if b then 1%nat else 0%nat.

Section Keyed.
  Context {K : Type}.
  Variable key : chunk -> K.
  Variable K_dec : forall a b : K, {a = b} + {a <> b}.

  Definition cntK (x : K) (l : list chunk) : nat := count_occ K_dec (map key l) x.
  Definition hit (x : K) (c : chunk) : nat := if K_dec (key c) x then 1%nat else 0%nat.

  Lemma cntK_snoc x l c : cntK x (l ++ [c]) = (cntK x l + hit x c)%nat.
  Proof.
    unfold cntK, hit. rewrite map_app, count_occ_app. simpl.
    destruct (K_dec (key c) x); reflexivity.
  Qed.

  Definition pc_annK (x : K) (p : pc) : nat := match p with PAnn c _ => hit x c | _ => 0%nat end.
  Definition fres_annK (x : K) (r : fres) : nat := match r with FPc p => pc_annK x p | FRet _ => 0%nat end.

  Lemma annK_w_after x r0 w : pc_annK x (w_pc (w_after r0 w)) = fres_annK x r0.
  Proof. destruct r0 as [p|k]; simpl; [reflexivity|destruct k; reflexivity]. Qed.
  Lemma annK_t_after x r0 : pc_annK x (t_after r0) = fres_annK x r0.
  Proof. destruct r0 as [p|k]; simpl; [reflexivity|destruct k; reflexivity]. Qed.
  Lemma annK_nochunk x p : pc_nochunk p -> pc_annK x p = 0%nat.
  Proof. destruct p; simpl; intros H; try reflexivity; contradiction. Qed.

  Lemma flush_step_annK x sh p sh' r0 :
    flush_step sh p = Some (sh', r0) ->
    (cntK x (sh_cat sh') + cntK x (sh_ann sh) + pc_annK x p
     = cntK x (sh_cat sh) + cntK x (sh_ann sh') + fres_annK x r0)%nat.
  Proof.
    destruct p; simpl; intros H; inversion H; subst; simpl; rewrite ?cntK_snoc; lia.
  Qed.

  (* registered = announced + registered-but-not-yet-announced *)
  Definition annA (x : K) (s : state) : Prop :=
    cntK x (sh_cat (st_sh s))
    = (cntK x (sh_ann (st_sh s)) + sumw (fun w => pc_annK x (w_pc w)) (st_ws s) + pc_annK x (st_tm s))%nat.

  Lemma annA_step x c l s : annA x s -> annA x (step c l s).
  Proof.
    unfold annA. intros HA. destruct l as [i| |d|]; simpl; auto.
    - destruct (nth_error (st_ws s) i) as [w|] eqn:Hn; [|exact HA].
      destruct (wstep c (st_sh s) w) as [sh' w'] eqn:Hs. simpl.
      pose proof (sumw_upd (fun w => pc_annK x (w_pc w)) _ _ _ w' Hn) as Hu. simpl in Hu.
      destruct (wstep_frame _ _ _ _ _ Hs) as [(r0 & Hf & Hw')|(Hss & Hn1 & Hn2)].
      + subst w'. rewrite annK_w_after in Hu. pose proof (flush_step_annK x _ _ _ _ Hf). lia.
      + destruct Hss as (E1 & E2 & _). rewrite E1, E2.
        rewrite (annK_nochunk x _ Hn1), (annK_nochunk x _ Hn2) in Hu. lia.
    - destruct (tstep c (st_shut s) (st_sh s) (st_tm s)) as [sh' p'] eqn:Hs. simpl.
      destruct (tstep_frame _ _ _ _ _ _ Hs) as [(r0 & Hf & Hp')|(Hss & Hn1 & Hn2)].
      + subst p'. rewrite annK_t_after. pose proof (flush_step_annK x _ _ _ _ Hf). lia.
      + destruct Hss as (E1 & E2 & _). rewrite E1, E2.
        rewrite (annK_nochunk x _ Hn1) in HA. rewrite (annK_nochunk x _ Hn2). lia.
  Qed.

  Lemma annA_init x todos : annA x (init todos).
  Proof. unfold annA, init; simpl. rewrite sumw_init; [reflexivity|]. intros; reflexivity. Qed.

  Lemma annA_run x c ls : forall s, annA x s -> annA x (run c ls s).
  Proof. induction ls as [|l t IH]; intros s H; simpl; [exact H|]. apply IH, annA_step, H. Qed.
End Keyed.

Definition chunk_eq_dec : forall a b : chunk, {a = b} + {a <> b}.
Proof.
  decide equality; try apply Z.eq_dec; try apply N.eq_dec. apply list_eq_dec. apply row_eq_dec.
Defined.

(* uniqueness of chunk ids: every id below the fresh counter is in exactly one
   place — waiting to be registered, or in the catalog *)
Definition pc_regN (n : N) (p : pc) : nat :=
  match p with PReg c _ => hit k_id N.eq_dec n c | _ => 0%nat end.
Definition fres_regN (n : N) (r : fres) : nat :=
  match r with FPc p => pc_regN n p | FRet _ => 0%nat end.

Lemma regN_w_after n r0 w : pc_regN n (w_pc (w_after r0 w)) = fres_regN n r0.
Proof. destruct r0 as [p|k]; simpl; [reflexivity|destruct k; reflexivity]. Qed.
Lemma regN_t_after n r0 : pc_regN n (t_after r0) = fres_regN n r0.
Proof. destruct r0 as [p|k]; simpl; [reflexivity|destruct k; reflexivity]. Qed.
Lemma regN_nochunk n p : pc_nochunk p -> pc_regN n p = 0%nat.
Proof. destruct p; simpl; intros H; try reflexivity; contradiction. Qed.

Lemma ind_lt_succ n m : ind (n <? m + 1)%N = (ind (n <? m)%N + (if N.eq_dec m n then 1 else 0))%nat.
Proof.
  unfold ind. destruct (N.ltb_spec n (m + 1)); destruct (N.ltb_spec n m); destruct (N.eq_dec m n); lia.
Qed.

Lemma flush_step_regN n sh p sh' r0 :
  flush_step sh p = Some (sh', r0) ->
  (cntK k_id N.eq_dec n (sh_cat sh') + fres_regN n r0 + ind (n <? sh_next sh)%N
   = cntK k_id N.eq_dec n (sh_cat sh) + pc_regN n p + ind (n <? sh_next sh')%N)%nat.
Proof.
  destruct p; simpl; intros H; inversion H; subst; simpl; rewrite ?cntK_snoc; try lia.
  rewrite ind_lt_succ. unfold hit; simpl. lia.
Qed.

Definition regB (n : N) (s : state) : Prop :=
  (cntK k_id N.eq_dec n (sh_cat (st_sh s)) + sumw (fun w => pc_regN n (w_pc w)) (st_ws s)
   + pc_regN n (st_tm s) = ind (n <? sh_next (st_sh s))%N)%nat.

Lemma regB_step n c l s : regB n s -> regB n (step c l s).
Proof.
  unfold regB. intros HA. destruct l as [i| |d|]; simpl; auto.
  - destruct (nth_error (st_ws s) i) as [w|] eqn:Hn; [|exact HA].
    destruct (wstep c (st_sh s) w) as [sh' w'] eqn:Hs. simpl.
    pose proof (sumw_upd (fun w => pc_regN n (w_pc w)) _ _ _ w' Hn) as Hu. simpl in Hu.
    destruct (wstep_frame _ _ _ _ _ Hs) as [(r0 & Hf & Hw')|(Hss & Hn1 & Hn2)].
    + subst w'. rewrite regN_w_after in Hu. pose proof (flush_step_regN n _ _ _ _ Hf). lia.
    + destruct Hss as (E1 & _ & _ & E4 & _). rewrite E1, E4.
      rewrite (regN_nochunk n _ Hn1), (regN_nochunk n _ Hn2) in Hu. lia.
  - destruct (tstep c (st_shut s) (st_sh s) (st_tm s)) as [sh' p'] eqn:Hs. simpl.
    destruct (tstep_frame _ _ _ _ _ _ Hs) as [(r0 & Hf & Hp')|(Hss & Hn1 & Hn2)].
    + subst p'. rewrite regN_t_after. pose proof (flush_step_regN n _ _ _ _ Hf). lia.
    + destruct Hss as (E1 & _ & _ & E4 & _). rewrite E1, E4.
      rewrite (regN_nochunk n _ Hn1) in HA. rewrite (regN_nochunk n _ Hn2). lia.
Qed.

Lemma regB_init n todos : regB n (init todos).
Proof.
  unfold regB, init; simpl. rewrite sumw_init; [|intros; reflexivity].
  unfold ind. destruct (N.ltb_spec n 0); [lia|reflexivity].
Qed.

Lemma regB_run n c ls : forall s, regB n s -> regB n (run c ls s).
Proof. induction ls as [|l t IH]; intros s H; simpl; [exact H|]. apply IH, regB_step, H. Qed.

(* both channels always carry the same sequence *)
Definition annC (s : state) : Prop := sh_tann (st_sh s) = sh_ann (st_sh s).

Lemma flush_step_annC sh p sh' r0 :
  flush_step sh p = Some (sh', r0) -> sh_tann sh = sh_ann sh -> sh_tann sh' = sh_ann sh'.
Proof. destruct p; simpl; intros H E; inversion H; subst; simpl; auto. rewrite E. reflexivity. Qed.

Lemma annC_step c l s : annC s -> annC (step c l s).
Proof.
  unfold annC. intros HA. destruct l as [i| |d|]; simpl; auto.
  - destruct (nth_error (st_ws s) i) as [w|] eqn:Hn; [|exact HA].
    destruct (wstep c (st_sh s) w) as [sh' w'] eqn:Hs. simpl.
    destruct (wstep_frame _ _ _ _ _ Hs) as [(r0 & Hf & Hw')|(Hss & _)].
    + eapply flush_step_annC; eauto.
    + destruct Hss as (_ & E2 & E3 & _). rewrite E2, E3. exact HA.
  - destruct (tstep c (st_shut s) (st_sh s) (st_tm s)) as [sh' p'] eqn:Hs. simpl.
    destruct (tstep_frame _ _ _ _ _ _ Hs) as [(r0 & Hf & Hp')|(Hss & _)].
    + eapply flush_step_annC; eauto.
    + destruct Hss as (_ & E2 & E3 & _). rewrite E2, E3. exact HA.
Qed.

Lemma annC_run c ls : forall s, annC s -> annC (run c ls s).
Proof. induction ls as [|l t IH]; intros s H; simpl; [exact H|]. apply IH, annC_step, H. Qed.

Lemma quiescent_nochunk s : quiescent s = true ->
  (forall w, In w (st_ws s) -> pc_nochunk (w_pc w)) /\ pc_nochunk (st_tm s).
Proof.
  intros Hq. destruct (quiescent_spec _ Hq) as (Hw & _ & _). split.
  - intros w Hin. rewrite (Hw w Hin). exact I.
  - unfold quiescent in Hq. rewrite !andb_true_iff in Hq. destruct Hq as [[_ Ht] _].
    destruct (st_tm s); try discriminate; exact I.
Qed.

(* C06, announcements: the legacy and the topic channel carry the same
   sequence; chunk ids in the catalog are pairwise distinct; every announced
   chunk is a registered chunk and is announced at most once; and once no
   flush is in progress every registered chunk has been announced exactly
   once. *)
Theorem one_announcement_per_chunk : forall c todos ls,
  let s := run c ls (init todos) in
  sh_tann (st_sh s) = sh_ann (st_sh s) /\
  NoDup (map k_id (sh_cat (st_sh s))) /\
  NoDup (map k_id (sh_ann (st_sh s))) /\
  (forall ch, In ch (sh_ann (st_sh s)) -> In ch (sh_cat (st_sh s))) /\
  (quiescent s = true -> Permutation (sh_ann (st_sh s)) (sh_cat (st_sh s))).
Proof.
  intros c todos ls s.
  assert (HC : annC s) by (apply annC_run; reflexivity).
  assert (HB : forall n, regB n s) by (intros n; apply regB_run, regB_init).
  assert (HAn : forall n, annA k_id N.eq_dec n s) by (intros n; apply annA_run, annA_init).
  assert (HAc : forall ch, annA (fun x => x) chunk_eq_dec ch s) by (intros ch; apply annA_run, annA_init).
  split; [exact HC|].
  assert (Hle : forall n, (cntK k_id N.eq_dec n (sh_cat (st_sh s)) <= 1)%nat).
  { intros n. specialize (HB n). unfold regB, ind in HB. destruct (n <? sh_next (st_sh s))%N; lia. }
  split; [|split; [|split]].
  - apply (NoDup_count_occ N.eq_dec). intros n. apply Hle.
  - apply (NoDup_count_occ N.eq_dec). intros n. specialize (HAn n). specialize (Hle n).
    unfold annA in HAn. unfold cntK in *. lia.
  - intros ch Hin. specialize (HAc ch). unfold annA, cntK in HAc. rewrite !map_id in HAc.
    apply (count_occ_In chunk_eq_dec). apply (count_occ_In chunk_eq_dec) in Hin. lia.
  - intros Hq. destruct (quiescent_nochunk _ Hq) as [Hw Ht].
    apply (Permutation_count_occ chunk_eq_dec). intros ch. specialize (HAc ch).
    unfold annA, cntK in HAc. rewrite !map_id in HAc.
    rewrite sumw_zero in HAc.
    + rewrite (annK_nochunk _ _ _ _ Ht) in HAc. lia.
    + intros w Hin. apply annK_nochunk. apply Hw. exact Hin.
Qed.

(* ------------------------------------------------------------------ *)
(* the buffer's counters are exact                                      *)
(* ------------------------------------------------------------------ *)
Definition bytes_of (bs : list batch) : N := fold_right (fun b a => (b_size b + a)%N) 0%N bs.

Definition buf_ok (bf : buffer) : Prop :=
  bf_rows bf = N.of_nat (length (rows_of (bf_batches bf))) /\ bf_bytes bf = bytes_of (bf_batches bf).

Lemma bytes_of_snoc bs b : bytes_of (bs ++ [b]) = (bytes_of bs + b_size b)%N.
Proof. induction bs as [|x r IH]; simpl; [lia|]. rewrite IH. lia. Qed.

Lemma buf_ok_empty : buf_ok buf_empty.
Proof. split; reflexivity. Qed.

Lemma buf_ok_append bf b : buf_ok bf -> buf_ok (buf_append bf b).
Proof.
  intros [Hr Hb]. split; simpl.
  - rewrite rows_of_snoc, app_length, Hr. lia.
  - rewrite bytes_of_snoc, Hb. reflexivity.
Qed.

Lemma wstep_buf_ok c sh w sh' w' : wstep c sh w = (sh', w') -> buf_ok (sh_buf sh) -> buf_ok (sh_buf sh').
Proof.
  unfold wstep. intros H Hok. destruct (w_pc w) eqn:Hpc;
    try (cbn [flush_step] in H; pinv H; simpl; exact Hok).
  - destruct (w_todo w) as [|b0 r0]; [|destruct (b_rows b0)]; pinv H; exact Hok.
  - destruct (negb (buf_compatible (sh_buf sh) b)); [pinv H; apply buf_ok_empty|].
    destruct (cf_max_bytes c <? bf_bytes (sh_buf sh) + b_size b)%N; [pinv H; exact Hok|].
    destruct (should_flush c (buf_append (sh_buf sh) b)); pinv H; simpl;
      [apply buf_ok_empty|apply buf_ok_append; exact Hok].
Qed.

Lemma tstep_buf_ok c shut sh p sh' p' : tstep c shut sh p = (sh', p') -> buf_ok (sh_buf sh) -> buf_ok (sh_buf sh').
Proof.
  unfold tstep. intros H Hok. destruct p;
    try (cbn [flush_step] in H; pinv H; simpl; first [exact Hok|apply buf_ok_empty]).
  - destruct shut; [pinv H; exact Hok|].
    destruct (sh_next_tick sh <=? sh_clock sh); pinv H; exact Hok.
  - destruct (negb (buf_is_empty (sh_buf sh)) && (cf_interval c <=? sh_clock sh - sh_last_flush sh));
      pinv H; exact Hok.
Qed.

Theorem buffer_counters_exact : forall c todos ls,
  buf_ok (sh_buf (st_sh (run c ls (init todos)))).
Proof.
  intros c todos ls.
  assert (G : forall s, buf_ok (sh_buf (st_sh s)) -> buf_ok (sh_buf (st_sh (run c ls s)))).
  { induction ls as [|l t IH]; intros s H; simpl; [exact H|]. apply IH.
    destruct l as [i| |d|]; simpl; auto.
    - destruct (nth_error (st_ws s) i) as [w|]; [|exact H].
      destruct (wstep c (st_sh s) w) as [sh' w'] eqn:Hs. simpl. eapply wstep_buf_ok; eauto.
    - destruct (tstep c (st_shut s) (st_sh s) (st_tm s)) as [sh' p'] eqn:Hs. simpl.
      eapply tstep_buf_ok; eauto. }
  apply G. apply buf_ok_empty.
Qed.

(* ------------------------------------------------------------------ *)
(* runs at yield-point granularity are runs                              *)
(* ------------------------------------------------------------------ *)
Lemma run_app c l1 l2 s : run c (l1 ++ l2) s = run c l2 (run c l1 s).
Proof. unfold run. apply fold_left_app. Qed.

Lemma settle_w_is_run c fuel : forall i s, exists ls, settle_w c fuel i s = run c ls s.
Proof.
  induction fuel as [|f IH]; intros i s; cbn [settle_w]; [exists []; reflexivity|].
  destruct (nth_error (st_ws s) i) as [w|]; [|exists []; reflexivity].
  destruct (w_parked w); [exists []; reflexivity|].
  destruct (IH i (step c (LW i) s)) as [ls Hls]. exists (LW i :: ls). exact Hls.
Qed.

Lemma settle_t_is_run c fuel : forall s, exists ls, settle_t c fuel s = run c ls s.
Proof.
  induction fuel as [|f IH]; intros s; cbn [settle_t]; [exists []; reflexivity|].
  destruct (t_parked s); [exists []; reflexivity|].
  destruct (IH (step c LT s)) as [ls Hls]. exists (LT :: ls). exact Hls.
Qed.

Lemma macro_is_run c l s : exists ls, macro c l s = run c ls s.
Proof.
  destruct l as [i| |d|]; cbn [macro].
  - destruct (settle_w_is_run c 64 i (step c (LW i) s)) as [ls H]. exists (LW i :: ls). exact H.
  - destruct (settle_t_is_run c 64 (step c LT s)) as [ls H]. exists (LT :: ls). exact H.
  - destruct (settle_t_is_run c 64 (step c (LAdv d) s)) as [ls H]. exists (LAdv d :: ls). exact H.
  - destruct (settle_t_is_run c 64 (step c LShut s)) as [ls H]. exists (LShut :: ls). exact H.
Qed.

(* every run at the granularity the harness drives the implementation at is
   one of the step-level runs the theorems quantify over *)
Theorem macro_run_is_run : forall c ms s, exists ls, macro_run c ms s = run c ls s.
Proof.
  intros c ms. induction ms as [|m t IH]; intros s; [exists []; reflexivity|].
  change (macro_run c (m :: t) s) with (macro_run c t (macro c m s)).
  destruct (macro_is_run c m s) as [l1 H1]. destruct (IH (macro c m s)) as [l2 H2].
  exists (l1 ++ l2). rewrite run_app, <- H1. exact H2.
Qed.

(* ------------------------------------------------------------------ *)
(* non-vacuity: a concrete two-writer run with a schema change, a        *)
(* threshold flush overlapping another writer's append, a timer flush    *)
(* and a shutdown flush reaches quiescence with three chunks             *)
(* ------------------------------------------------------------------ *)
Definition ex_cfg : cfg := mkCfg 3%N 1000%N 10000%N 10.
Definition ex_b (sch : N) (ids : list (N * Z)) : batch :=
  mkBatch sch (map (fun p => mkRow (fst p) (snd p)) ids) 10%N.
Definition ex_todos : list (list batch) :=
  [ [ex_b 1%N [(1%N, 5); (2%N, -3)]; ex_b 2%N [(3%N, 7)]];
    [ex_b 1%N [(4%N, 9); (5%N, 1)]; ex_b 2%N [(6%N, 2)]] ].
Definition ex_sched : list label :=
  [LT; LW 0; LW 0; LW 1; LW 0; LW 1; LW 0; LAdv 10; LT; LShut].
Definition ex_final : state := macro_run ex_cfg ex_sched (init ex_todos).

Example ex_reaches_quiescence :
  quiescent ex_final = true /\ length (sh_cat (st_sh ex_final)) = 3%nat
  /\ length (acked_rows ex_final) = 6%nat.
Proof. vm_compute. repeat split. Qed.
