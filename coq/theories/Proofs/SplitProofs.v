(* Proofs/SplitProofs.v — crash-consistency of the shard split (C14).

   The splitter model (Model/Split.v) is a program over numbered external
   requests; a plan may fail or crash any request before or after its effect.
   Method: a crash-Hoare logic over the run monad.  `triple P m Q` says: from
   any world whose durable state satisfies P, under ANY plan,
     - if m returns normally, Q holds of the result and the state;
     - if m stops (error or crash), the durable state satisfies the invariant
       [I], the error is an injected one, and the plan is not empty
       (so a fault-free run never stops).
   [Inv] relates progress file, split state, shard metadata, catalog and
   objects; every request of the program preserves it whether it fails or not
   (that is what the request rule demands), and a fault-free resume from any
   state satisfying it ends in [FinalSt] with every source chunk back-filled,
   from which conservation follows by Proofs/SplitData.v. *)
From Coq Require Import Permutation.
From CS Require Import Base.Prelude Proofs.CatalogProofs Model.Split Proofs.SplitData.
From CSGen Require Import Consts.
Open Scope Z_scope.

Section SplitProofs.
  Variable arg : shardmeta.
  Variable chunks : list (N * list row).
  Hypothesis chunks_nodup : NoDup (map fst chunks).
  Hypothesis arg_active : sh_state arg = StActive.

  Definition pt : Z := calc_split_point (sh_min arg) (sh_max arg).
  Definition s0 : st := init_state arg chunks.
  Definition AO : list (nkey * list row) := all_outs pt chunks.

  (* the metadata the two new shards must end up with *)
  Definition expA : shardmeta := mkShard 1 (sh_lo arg) pt StActive (sh_min arg) pt.
  Definition expB : shardmeta := mkShard 1 pt (sh_hi arg) StActive pt (sh_max arg).

  Definition same_ranges (m : shardmeta) : Prop :=
    sh_lo m = sh_lo arg /\ sh_hi m = sh_hi arg /\ sh_min m = sh_min arg /\ sh_max m = sh_max arg.
  Definition OldIn (x : sstate) (s : st) : Prop :=
    exists m, s_old s = Some m /\ sh_state m = x.

  Definition intact (s : st) : Prop := s_ocat s = s_ocat s0 /\ s_oobj s = s_oobj s0.
  Definition CutoverComplete (s : st) : Prop :=
    s_split s = None /\ s_a s = Some expA /\ s_b s = Some expB /\ OldIn StPending s.

  Definition Registered (s : st) (k : nkey) : Prop := aget nkey_eqb k (s_ncat s) <> None.
  Definition NewCatOK (s : st) : Prop :=
    forall k m, aget nkey_eqb k (s_ncat s) = Some m ->
      exists rows, In (k, rows) AO /\ aget nkey_eqb k (s_nobj s) = Some rows.
  Definition AllBackfilled (s : st) : Prop := forall k rows, In (k, rows) AO -> Registered s k.
  Definition DoneOK (s : st) (done : list N) : Prop :=
    forall i, In i done -> exists rows, In (i, rows) chunks /\
      forall k r, In (k, r) (outs pt i rows) -> Registered s k.

  Definition late (p : progress) : Prop :=
    pg_phase p = Some PhBackfill \/ pg_phase p = Some PhCutover.
  Definition allflags (p : progress) : Prop :=
    pg_a p = true /\ pg_b p = true /\ pg_old p = true.

  (* the property's final state *)
  Definition FinalSt (s : st) : Prop :=
    s_prog s = None /\ s_split s = None /\
    (exists a, s_a s = Some a /\ sh_state a = StActive /\ sh_lo a = sh_lo arg /\ sh_hi a = pt
               /\ sh_min a = sh_min arg /\ sh_max a = pt) /\
    (exists b, s_b s = Some b /\ sh_state b = StActive /\ sh_lo b = pt /\ sh_hi b = sh_hi arg
               /\ sh_min b = pt /\ sh_max b = sh_max arg) /\
    (exists o, s_old s = Some o /\ sh_state o = StPending /\ same_ranges o).

  Record Base (s : st) : Prop := mkBase {
    b_old : exists m, s_old s = Some m /\ same_ranges m /\ (sh_state m = StActive \/ sh_state m = StPending);
    b_a : s_a s = None \/ s_a s = Some expA;
    b_b : s_b s = None \/ s_b s = Some expB;
    b_ncat : NewCatOK s;
    b_nodup : NoDup (map fst (s_ncat s));
    b_data : intact s \/ CutoverComplete s;
    b_split : forall x, s_split s = Some x -> sp_point x = pt }.

  Record ProgRel (p : progress) (s : st) : Prop := mkProgRel {
    r_point : pg_point p = pt;
    r_nodup : NoDup (pg_done p);
    r_done : DoneOK s (pg_done p);
    r_a : pg_a p = true -> s_a s = Some expA;
    r_b : pg_b p = true -> s_b s = Some expB;
    r_old : pg_old p = true -> OldIn StPending s;
    r_nocleanup : pg_phase p <> Some PhCleanup;
    r_late : late p -> AllBackfilled s /\
             (forall x, s_split s = Some x -> N.ltb (sp_num x) (sp_den x) = false);
    r_cut : pg_phase p = Some PhCutover -> s_split s = None /\ allflags p;
    r_nosplit : s_split s = None -> pg_phase p = None \/ (late p /\ allflags p);
    r_early : ~ late p -> s_a s = None /\ s_b s = None /\ OldIn StActive s }.

  Arguments b_old {s}. Arguments b_a {s}. Arguments b_b {s}. Arguments b_ncat {s}.
  Arguments b_nodup {s}. Arguments b_data {s}. Arguments b_split {s}.
  Arguments r_point {p s}. Arguments r_nodup {p s}. Arguments r_done {p s}. Arguments r_a {p s}.
  Arguments r_b {p s}. Arguments r_old {p s}. Arguments r_nocleanup {p s}. Arguments r_late {p s}.
  Arguments r_cut {p s}. Arguments r_nosplit {p s}. Arguments r_early {p s}.

  Definition Inv (s : st) : Prop :=
    Base s /\
    match s_prog s with
    | Some p => ProgRel p s
    | None => s = s0 \/ (FinalSt s /\ AllBackfilled s)
    end.

  (* once the first request of the initial run took effect the state never
     looks untouched again *)
  Definition Started (s : st) : Prop := s_prog s <> None \/ s_a s <> None.

  Variable strict : bool.
  Definition I (s : st) : Prop := Inv s /\ (strict = true -> Started s).

  (* ---------------------------------------------------------------- *)
  (* The logic                                                          *)
  (* ---------------------------------------------------------------- *)
  Definition triple {A} (P : st -> Prop) (m : M A) (Q : A -> st -> Prop) : Prop :=
    forall w, P (w_st w) ->
      w_plan (fst (m w)) = w_plan w /\
      match snd (m w) with
      | ROk a => Q a (w_st (fst (m w)))
      | RErr e => I (w_st (fst (m w))) /\ e = EInjected /\ w_plan w <> []
      | RCrash => I (w_st (fst (m w))) /\ w_plan w <> []
      end.

  Lemma triple_ret {A} (a : A) (P : st -> Prop) (Q : A -> st -> Prop) :
    (forall s, P s -> Q a s) -> triple P (ret a) Q.
  Proof. intros H w Hw. simpl. split; [reflexivity|apply H; exact Hw]. Qed.

  Lemma triple_bind {A B} (m : M A) (f : A -> M B) P Q R :
    triple P m Q -> (forall a, triple (Q a) (f a) R) -> triple P (bind m f) R.
  Proof.
    intros Hm Hf w Hw. unfold bind.
    specialize (Hm w Hw). destruct (m w) as [w1 r]. simpl in Hm. destruct Hm as [Hpl Hr].
    destruct r as [a|e|].
    - specialize (Hf a w1 Hr). destruct (f a w1) as [w2 r2]. simpl in *.
      destruct Hf as [Hpl2 Hr2]. split; [congruence|].
      destruct r2; [exact Hr2| |]; rewrite <- Hpl; exact Hr2.
    - simpl. split; assumption.
    - simpl. split; assumption.
  Qed.

  Lemma triple_pre {A} (P P' : st -> Prop) (m : M A) Q :
    (forall s, P s -> P' s) -> triple P' m Q -> triple P m Q.
  Proof. intros H Hm w Hw. apply Hm. apply H. exact Hw. Qed.

  Lemma triple_post {A} (P : st -> Prop) (m : M A) (Q Q' : A -> st -> Prop) :
    (forall a s, Q a s -> Q' a s) -> triple P m Q -> triple P m Q'.
  Proof.
    intros H Hm w Hw. specialize (Hm w Hw). destruct (m w) as [w1 r]. simpl in *.
    destruct Hm as [Hpl Hr]. split; [exact Hpl|]. destruct r; [apply H; exact Hr|exact Hr|exact Hr].
  Qed.

  Lemma triple_false {A} (P : st -> Prop) (m : M A) Q : (forall s, P s -> False) -> triple P m Q.
  Proof. intros H w Hw. exfalso. exact (H _ Hw). Qed.

  (* a state-independent consequence of the precondition may be assumed *)
  Lemma triple_assume {A} (Phi : Prop) (P : st -> Prop) (m : M A) Q :
    (forall s, P s -> Phi) -> (Phi -> triple P m Q) -> triple P m Q.
  Proof. intros H1 H2 w Hw. exact (H2 (H1 _ Hw) w Hw). Qed.

  (* a precondition may be case-split *)
  Lemma triple_pre_ex {A T} (P : T -> st -> Prop) (m : M A) Q :
    (forall t, triple (P t) m Q) -> triple (fun s => exists t, P t s) m Q.
  Proof. intros H w [t Hw]. exact (H t w Hw). Qed.

  Lemma plan_get_some k pl m : plan_get k pl = Some m -> pl <> [].
  Proof. destruct pl; simpl; [discriminate|intros _ H; discriminate]. Qed.

  (* The request rule: the precondition implies the invariant (crash / failure
     before the effect), the state after the effect satisfies the invariant
     (crash / failure after the effect), and the request itself succeeds with
     the postcondition. *)
  Lemma triple_request {A} (t : tag) (eff : st -> st * res A) (P : st -> Prop) (Q : A -> st -> Prop) :
    (forall s, P s -> I s) ->
    (forall s, P s -> I (fst (eff s))) ->
    (forall s, P s -> match snd (eff s) with ROk a => Q a (fst (eff s)) | _ => False end) ->
    triple P (request t eff) Q.
  Proof.
    intros H1 H2 H3 w Hw. unfold request.
    destruct (plan_get (w_n w) (w_plan w)) as [md|] eqn:E.
    - pose proof (plan_get_some _ _ _ E) as Hne.
      destruct md; simpl; (split; [reflexivity|]); auto.
    - specialize (H3 _ Hw). destruct (eff (w_st w)) as [s' r] eqn:Ee. simpl in *.
      split; [reflexivity|]. destruct r; [exact H3|contradiction|contradiction].
  Qed.

  (* a request whose error is ignored by the caller *)
  Lemma triple_ignored (t : tag) (eff : st -> st * res unit) (P : st -> Prop) (Q : unit -> st -> Prop) :
    (forall s, snd (eff s) = ROk tt) ->
    (forall s, P s -> I s) ->
    (forall s, P s -> I (fst (eff s))) ->
    (forall s, P s -> Q tt s) ->
    (forall s, P s -> Q tt (fst (eff s))) ->
    triple P (ignore_err (request t eff)) Q.
  Proof.
    intros H0 H1 H2 H3 H4 w Hw. unfold ignore_err, request.
    destruct (plan_get (w_n w) (w_plan w)) as [md|] eqn:E.
    - pose proof (plan_get_some _ _ _ E) as Hne.
      destruct md; simpl; (split; [reflexivity|]); auto.
    - specialize (H0 (w_st w)). destruct (eff (w_st w)) as [s' r] eqn:Ee. simpl in H0. subst r.
      simpl. split; [reflexivity|].
      replace s' with (fst (eff (w_st w))) by (rewrite Ee; reflexivity). apply H4. exact Hw.
  Qed.

  (* ---------------------------------------------------------------- *)
  (* The invariant under the effect of each kind of request             *)
  (* ---------------------------------------------------------------- *)
  (* during a run the persisted progress is known *)
  Definition At (p : progress) (s : st) : Prop := I s /\ s_prog s = Some p.

  Lemma At_intro {p s} : Base s -> s_prog s = Some p -> ProgRel p s -> At p s.
  Proof.
    intros Hb Hp Hr. split; [|exact Hp]. split.
    - split; [exact Hb|]. rewrite Hp. exact Hr.
    - intros _. left. rewrite Hp. discriminate.
  Qed.

  Lemma At_base {p s} : At p s -> Base s.
  Proof. intros [[[Hb _] _] _]. exact Hb. Qed.

  Lemma At_rel {p s} : At p s -> ProgRel p s.
  Proof. intros [[[_ Hr] _] Hp]. rewrite Hp in Hr. exact Hr. Qed.

  Lemma At_I {p s} : At p s -> I s.
  Proof. intros [H _]. exact H. Qed.

  Lemma At_prog {p s} : At p s -> s_prog s = Some p.
  Proof. intros [_ H]. exact H. Qed.

  Lemma not_cc_intact {s} : Base s -> s_a s = None -> intact s.
  Proof.
    intros Hb Ha. destruct (b_data Hb) as [H|[_ [H _]]]; [exact H|congruence].
  Qed.

  Lemma early_intact {p s} : At p s -> ~ late p -> intact s.
  Proof.
    intros H Hl. apply not_cc_intact; [exact (At_base H)|].
    destruct (r_early (At_rel H) Hl) as [Ha _]. exact Ha.
  Qed.

  (* S1: a progress PUT *)
  Lemma Base_set_prog {s} x : Base s -> Base (set_prog s x).
  Proof. intros [H1 H2 H3 H4 H5 H6 H7]. constructor; assumption. Qed.

  Lemma ProgRel_set_prog {p s} x : ProgRel p s -> ProgRel p (set_prog s x).
  Proof. intros [H1 H2 H3 H4 H5 H6 H7 H8 H9 H10 H11]. constructor; assumption. Qed.

  Lemma At_persist {p p' s} : At p s -> ProgRel p' s -> At p' (set_prog s (Some p')).
  Proof.
    intros H Hr. apply At_intro.
    - apply Base_set_prog. exact (At_base H).
    - reflexivity.
    - apply ProgRel_set_prog. exact Hr.
  Qed.

  (* S2: a split state is written (start_split / update_split_progress) *)
  Lemma At_set_split_some {p s} x :
    At p s -> ~ late p -> sp_point x = pt -> At p (set_split s (Some x)).
  Proof.
    intros H Hl Hx. pose proof (early_intact H Hl) as Hin.
    pose proof (At_base H) as [B1 B2 B3 B4 B5 B6 B7].
    pose proof (At_rel H) as [R1 R2 R3 R4 R5 R6 R7 R8 R9 R10 R11].
    apply At_intro; [| exact (At_prog H) |].
    - constructor; try assumption.
      + left. exact Hin.
      + cbn. intros y Hy. inversion Hy; subst. exact Hx.
    - constructor; try assumption.
      + intros Hl'. contradiction.
      + intros Hc. exfalso. apply Hl. right. exact Hc.
      + cbn. discriminate.
  Qed.

  (* S3: complete_split *)
  Lemma At_complete {p s} : At p s -> late p -> allflags p -> At p (set_split s None).
  Proof.
    intros H Hl Hf.
    pose proof (At_base H) as [B1 B2 B3 B4 B5 B6 B7].
    pose proof (At_rel H) as [R1 R2 R3 R4 R5 R6 R7 R8 R9 R10 R11].
    apply At_intro; [| exact (At_prog H) |].
    - constructor; try assumption.
      + destruct B6 as [B6|[_ [Ba [Bb Bo]]]]; [left; exact B6|].
        right. split; [reflexivity|]. split; [exact Ba|]. split; [exact Bb|exact Bo].
      + cbn. discriminate.
    - constructor; try assumption.
      + intros Hl'. split; [exact (proj1 (R8 Hl'))|]. cbn. discriminate.
      + intros _. split; [reflexivity|exact Hf].
      + intros _. right. split; assumption.
  Qed.

  (* S4: the metadata of a new shard is created *)
  Lemma At_set_a {p s} : At p s -> late p -> At p (set_shard s (ShNew SA) (Some expA)).
  Proof.
    intros H Hl.
    pose proof (At_base H) as [B1 B2 B3 B4 B5 B6 B7].
    pose proof (At_rel H) as [R1 R2 R3 R4 R5 R6 R7 R8 R9 R10 R11].
    apply At_intro; [| exact (At_prog H) |].
    - constructor; try assumption.
      + right. reflexivity.
      + destruct B6 as [B6|[Bs [Ba [Bb Bo]]]]; [left; exact B6|].
        right. split; [exact Bs|]. split; [reflexivity|]. split; [exact Bb|exact Bo].
    - constructor; try assumption.
      + intros _. reflexivity.
      + intros Hn. contradiction.
  Qed.

  Lemma At_set_b {p s} : At p s -> late p -> At p (set_shard s (ShNew SB) (Some expB)).
  Proof.
    intros H Hl.
    pose proof (At_base H) as [B1 B2 B3 B4 B5 B6 B7].
    pose proof (At_rel H) as [R1 R2 R3 R4 R5 R6 R7 R8 R9 R10 R11].
    apply At_intro; [| exact (At_prog H) |].
    - constructor; try assumption.
      + right. reflexivity.
      + destruct B6 as [B6|[Bs [Ba [Bb Bo]]]]; [left; exact B6|].
        right. split; [exact Bs|]. split; [exact Ba|]. split; [reflexivity|exact Bo].
    - constructor; try assumption.
      + intros _. reflexivity.
      + intros Hn. contradiction.
  Qed.

  (* S5: the old shard is marked for deletion *)
  Lemma At_set_old {p s} m :
    At p s -> late p -> same_ranges m -> sh_state m = StPending ->
    At p (set_shard s ShOld (Some m)).
  Proof.
    intros H Hl Hm Hs.
    pose proof (At_base H) as [B1 B2 B3 B4 B5 B6 B7].
    pose proof (At_rel H) as [R1 R2 R3 R4 R5 R6 R7 R8 R9 R10 R11].
    assert (Hp : OldIn StPending (set_shard s ShOld (Some m))) by (exists m; split; [reflexivity|exact Hs]).
    apply At_intro; [| exact (At_prog H) |].
    - constructor; try assumption.
      + exists m. split; [reflexivity|]. split; [exact Hm|right; exact Hs].
      + destruct B6 as [B6|[Bs [Ba [Bb Bo]]]]; [left; exact B6|].
        right. split; [exact Bs|]. split; [exact Ba|]. split; [exact Bb|exact Hp].
    - constructor; try assumption.
      + intros _. exact Hp.
      + intros Hn. contradiction.
  Qed.

  (* S6: a back-filled chunk object is written *)
  Lemma At_put {p s} k rows :
    At p s -> In (k, rows) AO -> At p (set_nobj s (aset nkey_eqb k rows (s_nobj s))).
  Proof.
    intros H Hin.
    pose proof (At_base H) as [B1 B2 B3 B4 B5 B6 B7].
    pose proof (At_rel H) as [R1 R2 R3 R4 R5 R6 R7 R8 R9 R10 R11].
    apply At_intro; [| exact (At_prog H) |].
    - constructor; try assumption.
      intros k' m Hk'. cbn in Hk'. destruct (B4 _ _ Hk') as [rows' [Hin' Hobj]].
      exists rows'. split; [exact Hin'|]. cbn.
      destruct (nkey_eq_dec k' k) as [E|E].
      + subst k'. rewrite (aget_aset_same nkey_eqb nkey_eqb_spec).
        f_equal. eapply all_outs_functional; eauto.
      + rewrite (aget_aset_other nkey_eqb nkey_eqb_spec); [exact Hobj|exact E].
    - constructor; assumption.
  Qed.

  (* S7: a back-filled chunk is registered *)
  Lemma Registered_mono s k m k' :
    Registered s k' -> Registered (set_ncat s (aset nkey_eqb k m (s_ncat s))) k'.
  Proof.
    unfold Registered. cbn. intros H.
    destruct (nkey_eq_dec k' k) as [E|E].
    - subst. rewrite (aget_aset_same nkey_eqb nkey_eqb_spec). discriminate.
    - rewrite (aget_aset_other nkey_eqb nkey_eqb_spec); [exact H|exact E].
  Qed.

  Lemma Registered_new s k m : Registered (set_ncat s (aset nkey_eqb k m (s_ncat s))) k.
  Proof. unfold Registered. cbn. rewrite (aget_aset_same nkey_eqb nkey_eqb_spec). discriminate. Qed.

  Lemma At_register {p s} k m rows :
    At p s -> In (k, rows) AO -> aget nkey_eqb k (s_nobj s) = Some rows ->
    At p (set_ncat s (aset nkey_eqb k m (s_ncat s))).
  Proof.
    intros H Hin Hobj.
    pose proof (At_base H) as [B1 B2 B3 B4 B5 B6 B7].
    pose proof (At_rel H) as [R1 R2 R3 R4 R5 R6 R7 R8 R9 R10 R11].
    apply At_intro; [| exact (At_prog H) |].
    - constructor; try assumption.
      + intros k' m' Hk'. cbn in Hk' |- *.
        destruct (nkey_eq_dec k' k) as [E|E].
        * subst k'. exists rows. split; assumption.
        * rewrite (aget_aset_other nkey_eqb nkey_eqb_spec) in Hk'; [|exact E]. exact (B4 _ _ Hk').
      + cbn. apply (nodup_aset nkey_eqb nkey_eqb_spec). exact B5.
    - constructor; try assumption.
      + intros i Hi. destruct (R3 i Hi) as [rs [Hc Hall]]. exists rs. split; [exact Hc|].
        intros k' r Hk'. apply Registered_mono. exact (Hall _ _ Hk').
      + intros Hl. destruct (R8 Hl) as [Hall Hfull]. split; [|exact Hfull].
        intros k' r Hk'. apply Registered_mono. exact (Hall _ _ Hk').
  Qed.

  (* S8: old-shard data is removed — only once the cut-over is complete *)
  Lemma At_del_oobj {p s} c : At p s -> CutoverComplete s -> At p (set_oobj s c).
  Proof.
    intros H Hc.
    pose proof (At_base H) as [B1 B2 B3 B4 B5 B6 B7].
    pose proof (At_rel H) as [R1 R2 R3 R4 R5 R6 R7 R8 R9 R10 R11].
    apply At_intro; [| exact (At_prog H) |].
    - constructor; try assumption. right. exact Hc.
    - constructor; assumption.
  Qed.

  Lemma At_del_ocat {p s} c : At p s -> CutoverComplete s -> At p (set_ocat s c).
  Proof.
    intros H Hc.
    pose proof (At_base H) as [B1 B2 B3 B4 B5 B6 B7].
    pose proof (At_rel H) as [R1 R2 R3 R4 R5 R6 R7 R8 R9 R10 R11].
    apply At_intro; [| exact (At_prog H) |].
    - constructor; try assumption. right. exact Hc.
    - constructor; assumption.
  Qed.

  Lemma cutover_phase_complete {p s} : At p s -> pg_phase p = Some PhCutover -> CutoverComplete s.
  Proof.
    intros H Hc. pose proof (At_rel H) as R.
    destruct (r_cut R Hc) as [Hs [Fa [Fb Fo]]].
    split; [exact Hs|]. split; [exact (r_a R Fa)|]. split; [exact (r_b R Fb)|exact (r_old R Fo)].
  Qed.

  (* S9: the progress file is removed at the very end *)
  Lemma I_remove {p s} :
    At p s -> pg_phase p = Some PhCutover ->
    I (set_prog s None) /\ FinalSt (set_prog s None) /\ AllBackfilled (set_prog s None).
  Proof.
    intros H Hc. pose proof (At_rel H) as R. pose proof (At_base H) as B.
    pose proof (cutover_phase_complete H Hc) as [Hs [Ha [Hb [o [Ho Hst]]]]].
    assert (Hall : AllBackfilled s) by (apply (r_late R); right; exact Hc).
    assert (Hfin : FinalSt (set_prog s None)).
    { split; [reflexivity|]. split; [exact Hs|]. split; [|split].
      - exists expA. cbn. repeat split; try reflexivity. exact Ha.
      - exists expB. cbn. repeat split; try reflexivity. exact Hb.
      - destruct (b_old B) as [m [Hm [Hr _]]]. exists o. cbn. rewrite Ho in Hm. inversion Hm; subst m.
        split; [exact Ho|]. split; [exact Hst|exact Hr]. }
    split; [|split; [exact Hfin|exact Hall]].
    split.
    - split; [apply Base_set_prog; exact B|]. cbn. right. split; [exact Hfin|exact Hall].
    - intros _. right. cbn. rewrite Ha. discriminate.
  Qed.

  (* ---------------------------------------------------------------- *)
  (* Back-fill                                                          *)
  (* ---------------------------------------------------------------- *)
  Lemma write_outs_spec p (F : st -> Prop) :
    (forall s c, F s -> F (set_nobj s c)) -> (forall s c, F s -> F (set_ncat s c)) ->
    forall l K, (forall k r, In (k, r) l -> In (k, r) AO) ->
    triple (fun s => At p s /\ F s /\ forall k, In k K -> Registered s k)
           (write_outs l)
           (fun _ s => At p s /\ F s /\ (forall k, In k K -> Registered s k) /\
                       forall k r, In (k, r) l -> Registered s k).
  Proof.
    intros F1 F2. induction l as [|[k rows] rest IH]; intros K Hl.
    - apply triple_ret. intros s [H1 [H2 H3]]. split; [exact H1|]. split; [exact H2|]. split; [exact H3|]. intros k r [].
    - cbn [write_outs].
      assert (Hk : In (k, rows) AO) by (apply Hl; left; reflexivity).
      eapply triple_bind with (Q := fun _ s => At p s /\ F s /\ (forall k', In k' K -> Registered s k')
                                              /\ aget nkey_eqb k (s_nobj s) = Some rows).
      { unfold put_obj_new. apply triple_request.
        - intros s [H _]. exact (At_I H).
        - intros s [H _]. cbn. exact (At_I (At_put _ _ H Hk)).
        - intros s [H [HF HK]]. cbn. split; [exact (At_put _ _ H Hk)|]. split; [apply F1; exact HF|].
          split; [exact HK|]. apply (aget_aset_same nkey_eqb nkey_eqb_spec). }
      intros _.
      eapply triple_bind with (Q := fun _ s => At p s /\ F s /\ (forall k', In k' (k :: K) -> Registered s k')).
      { unfold register_chunk. apply triple_request.
        - intros s [H _]. exact (At_I H).
        - intros s [H [_ [_ Ho]]]. cbn. exact (At_I (At_register _ _ _ H Hk Ho)).
        - intros s [H [HF [HK Ho]]]. cbn. split; [exact (At_register _ _ _ H Hk Ho)|]. split; [apply F2; exact HF|].
          intros k' [E|Hin]; [subst k'; apply Registered_new|apply Registered_mono; apply HK; exact Hin]. }
      intros _.
      eapply triple_post; [|apply (IH (k :: K))].
      + intros _ s [H [HF [HK Hr]]]. split; [exact H|]. split; [exact HF|]. split.
        * intros k' Hin. apply HK. right. exact Hin.
        * intros k' r [E|Hin]; [inversion E; subst; apply HK; left; reflexivity|exact (Hr _ _ Hin)].
      + intros k' r Hin. apply Hl. right. exact Hin.
  Qed.

  Lemma ProgRel_add_done p s i rows :
    ProgRel p s -> ~ In i (pg_done p) -> In (i, rows) chunks ->
    (forall k r, In (k, r) (outs pt i rows) -> Registered s k) ->
    ProgRel (set_bf p (pg_done p ++ [i]) (pg_total p)) s.
  Proof.
    intros [R1 R2 R3 R4 R5 R6 R7 R8 R9 R10 R11] Hn Hc Hreg.
    constructor; try assumption.
    - cbn. apply nodup_app_intro; [exact R2|constructor; [intros []|constructor]|].
      intros x Hx [E|[]]. subst. contradiction.
    - cbn. intros j Hj. apply in_app_or in Hj. destruct Hj as [Hj|[E|[]]]; [exact (R3 _ Hj)|].
      subst j. exists rows. split; assumption.
  Qed.

  Lemma ProgRel_set_bf p s done' total' :
    ProgRel p s -> NoDup done' -> incl done' (pg_done p) -> ProgRel (set_bf p done' total') s.
  Proof.
    intros [R1 R2 R3 R4 R5 R6 R7 R8 R9 R10 R11] Hn Hi.
    constructor; try assumption.
    cbn. intros j Hj. apply R3. apply Hi. exact Hj.
  Qed.

  Lemma oobj_lookup {s i rows} : intact s -> In (i, rows) chunks -> aget N.eqb i (s_oobj s) = Some rows.
  Proof.
    intros [_ Ho] Hin. rewrite Ho. cbn. apply (In_aget_nodup N.eqb Neqb_spec); assumption.
  Qed.

  Definition SplitAt (n d : N) (s : st) : Prop :=
    exists x, s_split s = Some x /\ sp_num x = n /\ sp_den x = d.

  Definition BF (p : progress) (total : N) (s : st) : Prop :=
    At p s /\ pg_phase p = Some PhDual /\ SplitAt (N.of_nat (length (pg_done p))) total s.

  Lemma dual_not_late {p} : pg_phase p = Some PhDual -> ~ late p.
  Proof. intros H [L|L]; congruence. Qed.

  Lemma bf_loop_spec total : forall ids p,
    (forall i, In i ids -> exists rows, In (i, rows) chunks) ->
    triple (BF p total) (bf_loop ids p (N.of_nat (length (pg_done p))) total)
      (fun q s => BF q total s /\ (forall i, In i ids -> In i (pg_done q)) /\
                  (forall i, In i (pg_done p) -> In i (pg_done q)) /\
                  (forall i, In i (pg_done q) -> In i (pg_done p) \/ In i ids)).
  Proof.
    induction ids as [|i rest IH]; intros p Hids.
    - apply triple_ret. intros s H. split; [exact H|]. split; [intros i []|].
      split; intros i Hi; [exact Hi|left; exact Hi].
    - cbn [bf_loop]. destruct (memN i (pg_done p)) eqn:Hmem.
      + apply memN_In in Hmem.
        eapply triple_post; [|apply IH; intros j Hj; apply Hids; right; exact Hj].
        intros q s [H [H1 [H2 H3]]]. split; [exact H|]. split; [|split].
        * intros j [E|Hj]; [subst j; apply H2; exact Hmem|exact (H1 _ Hj)].
        * exact H2.
        * intros j Hj. destruct (H3 _ Hj) as [Hd|Hr]; [left; exact Hd|right; right; exact Hr].
      + assert (Hni : ~ In i (pg_done p)).
        { intros Hin. apply memN_In in Hin. congruence. }
        destruct (Hids i (or_introl eq_refl)) as [rows0 Hrows0].
        apply triple_assume with (Phi := pg_phase p = Some PhDual /\ pg_point p = pt).
        { intros s [H [Hph _]]. split; [exact Hph|exact (r_point (At_rel H))]. }
        intros [Hph Hpt].
        assert (Hdone' : pg_done (add_done p i) = pg_done p ++ [i]).
        { unfold add_done. rewrite Hmem. reflexivity. }
        (* 1. read the source chunk *)
        eapply triple_bind with (Q := fun rows s => BF p total s /\ In (i, rows) chunks).
        { unfold get_obj_old. apply triple_request.
          - intros s [H _]. exact (At_I H).
          - intros s [H _]. destruct (aget N.eqb i (s_oobj s)); cbn; exact (At_I H).
          - intros s [H [Hph' Hsp]].
            rewrite (oobj_lookup (early_intact H (dual_not_late Hph)) Hrows0). cbn.
            split; [split; [exact H|split; assumption]|exact Hrows0]. }
        intros rows.
        (* 2. write and register its outputs *)
        eapply triple_bind with (Q := fun _ s => (BF p total s /\ In (i, rows) chunks) /\
                                   forall k r, In (k, r) (outs pt i rows) -> Registered s k).
        { apply triple_assume with (Phi := In (i, rows) chunks).
          { intros s [_ Hc]. exact Hc. }
          intros Hc. rewrite Hpt.
          eapply triple_pre; [|eapply triple_post;
            [|apply (write_outs_spec p (fun s => SplitAt (N.of_nat (length (pg_done p))) total s)) with (K := [])]].
          - intros s [[H [_ Hsp]] _]. split; [exact H|]. split; [exact Hsp|intros k []].
          - intros _ s [H [Hsp [_ Hr]]]. split; [split; [split; [exact H|split; assumption]|exact Hc]|exact Hr].
          - intros s c HF. exact HF.
          - intros s c HF. exact HF.
          - intros k r Hin. apply all_outs_in. exists i, rows. split; assumption. }
        intros _.
        (* 3. record the chunk as back-filled *)
        eapply triple_bind with (Q := fun _ s => At (add_done p i) s /\ SplitAt (N.of_nat (length (pg_done p))) total s).
        { assert (Hrel : forall s, (BF p total s /\ In (i, rows) chunks) /\
                     (forall k r, In (k, r) (outs pt i rows) -> Registered s k) -> ProgRel (add_done p i) s).
          { intros s [[[H _] Hc] Hr]. unfold add_done. rewrite Hmem.
            apply (ProgRel_add_done p s i rows); auto. exact (At_rel H). }
          unfold persist. apply triple_request.
          - intros s [[[H _] _] _]. exact (At_I H).
          - intros s Hs. cbn. destruct Hs as [[[H Hx] Hc] Hr].
            exact (At_I (At_persist H (Hrel s (conj (conj (conj H Hx) Hc) Hr)))).
          - intros s Hs. cbn. destruct Hs as [[[H Hx] Hc] Hr]. split; [|exact (proj2 Hx)].
            exact (At_persist H (Hrel s (conj (conj (conj H Hx) Hc) Hr))). }
        intros _.
        (* 4. publish the new fraction *)
        eapply triple_bind with (Q := fun _ s => BF (add_done p i) total s).
        { unfold upd_split. apply triple_request.
          - intros s [H _]. exact (At_I H).
          - intros s [H _]. destruct (s_split s) as [x|] eqn:Ex; cbn; [|exact (At_I H)].
            apply (@At_I (add_done p i)). apply At_set_split_some; [exact H|apply dual_not_late; exact Hph|].
            cbn. exact (b_split (At_base H) _ Ex).
          - intros s [H [x [Ex [Hn Hd]]]]. rewrite Ex. cbn. split; [|split; [exact Hph|]].
            + apply At_set_split_some; [exact H|apply dual_not_late; exact Hph|].
              cbn. exact (b_split (At_base H) _ Ex).
            + eexists. split; [reflexivity|]. split; [|reflexivity]. cbn [sp_num].
              rewrite Hdone', app_length. cbn [length]. lia. }
        intros _.
        (* 5. the remaining chunks *)
        replace (N.of_nat (length (pg_done p)) + 1)%N with (N.of_nat (length (pg_done (add_done p i))))
          by (rewrite Hdone', app_length; cbn; lia).
        eapply triple_post; [|apply IH; intros j Hj; apply Hids; right; exact Hj].
        intros q s [H [H1 [H2 H3]]]. split; [exact H|]. rewrite Hdone' in H2, H3. split; [|split].
        * intros j [E|Hj]; [subst j; apply H2; apply in_or_app; right; left; reflexivity|exact (H1 _ Hj)].
        * intros j Hj. apply H2. apply in_or_app. left. exact Hj.
        * intros j Hj. destruct (H3 _ Hj) as [Hd|Hr]; [|right; right; exact Hr].
          apply in_app_or in Hd. destruct Hd as [Hd|[E|[]]]; [left; exact Hd|right; left; exact E].
  Qed.

  Definition Full (s : st) : Prop :=
    exists x, s_split s = Some x /\ N.ltb (sp_num x) (sp_den x) = false.

  Lemma AllBackfilled_from_done {q s} :
    ProgRel q s -> (forall i rows, In (i, rows) chunks -> In i (pg_done q)) -> AllBackfilled s.
  Proof.
    intros R H k rows Hin. apply all_outs_in in Hin. destruct Hin as [i [rows' [Hc Ho]]].
    destruct (r_done R i (H _ _ Hc)) as [rows'' [Hc' Hall]].
    assert (rows'' = rows') by (eapply nodup_keys_functional; eauto). subst. eapply Hall; eauto.
  Qed.

  Lemma split_present {p s} : At p s -> pg_phase p = Some PhDual \/ pg_phase p = Some PhPrep ->
    exists x, s_split s = Some x.
  Proof.
    intros H Hph. destruct (s_split s) as [x|] eqn:Ex; [exists x; reflexivity|exfalso].
    destruct (r_nosplit (At_rel H) Ex) as [E|[[L|L] _]]; destruct Hph; congruence.
  Qed.

  Lemma ocat0_keys : map fst (s_ocat s0) = map fst chunks.
  Proof. cbn. rewrite map_map. apply map_ext. intros [i r]. reflexivity. Qed.

  Lemma run_backfill_spec p :
    triple (fun s => At p s /\ pg_phase p = Some PhDual)
           (run_backfill p)
           (fun q s => At q s /\ pg_phase q = Some PhDual /\ AllBackfilled s /\ Full s).
  Proof.
    apply triple_assume with (Phi := pg_phase p = Some PhDual); [intros s [_ H]; exact H|].
    intros Hph. unfold run_backfill.
    eapply triple_bind with (Q := fun cs s => At p s /\ cs = s_ocat s0).
    { unfold get_chunks_old. apply triple_request.
      - intros s [H _]. exact (At_I H).
      - intros s [H _]. cbn. exact (At_I H).
      - intros s [H _]. cbn. split; [exact H|]. exact (proj1 (early_intact H (dual_not_late Hph))). }
    intros cs. apply triple_assume with (Phi := cs = s_ocat s0); [intros s [_ H]; exact H|].
    intros ->. rewrite ocat0_keys.
    set (ids := isort (map fst chunks)).
    assert (Hnd : NoDup ids) by (apply isort_nodup; exact chunks_nodup).
    assert (Hin : forall i rows, In (i, rows) chunks -> In i ids).
    { intros i rows Hc. apply (proj2 (isort_in i (map fst chunks))). change i with (fst (i, rows)). apply in_map. exact Hc. }
    assert (Hex : forall i, In i ids -> exists rows, In (i, rows) chunks).
    { intros i Hi. apply (proj1 (isort_in i (map fst chunks))) in Hi. apply in_map_iff in Hi. destruct Hi as [[j rows] [E Hc]].
      simpl in E. subst j. exists rows. exact Hc. }
    set (p1 := set_bf p (filter (fun i => memN i ids) (pg_done p)) (N.of_nat (length ids))).
    assert (Hph1 : pg_phase p1 = Some PhDual) by exact Hph.
    assert (Hsub : forall i, In i (pg_done p1) -> In i ids).
    { intros i Hi. cbn in Hi. apply filter_In in Hi. apply memN_In. exact (proj2 Hi). }
    eapply triple_bind with (Q := fun _ s => At p1 s).
    { assert (Hrel : forall s, At p s -> ProgRel p1 s).
      { intros s H. apply ProgRel_set_bf; [exact (At_rel H)| |apply incl_filter].
        apply NoDup_filter. exact (r_nodup (At_rel H)). }
      unfold persist. apply triple_request.
      - intros s [H _]. exact (At_I H).
      - intros s [H _]. cbn. exact (At_I (At_persist H (Hrel _ H))).
      - intros s [H _]. cbn. exact (At_persist H (Hrel _ H)). }
    intros _. change (pg_total p1) with (N.of_nat (length ids)).
    destruct (N.eqb (N.of_nat (length ids)) 0) eqn:Et.
    - (* no chunks at all *)
      apply N.eqb_eq in Et.
      assert (Hnil : ids = []) by (destruct ids; [reflexivity|simpl in Et; lia]).
      eapply triple_bind with (Q := fun _ s => At p1 s /\ Full s).
      { unfold upd_split. apply triple_request.
        - intros s H. exact (At_I H).
        - intros s H. destruct (s_split s) as [x|] eqn:Ex; cbn; [|exact (At_I H)].
          apply (@At_I p1). apply At_set_split_some; [exact H|apply dual_not_late; exact Hph1|].
          cbn. exact (b_split (At_base H) _ Ex).
        - intros s H. destruct (split_present H (or_introl Hph1)) as [x Ex]. rewrite Ex. cbn. split.
          + apply At_set_split_some; [exact H|apply dual_not_late; exact Hph1|].
            cbn. exact (b_split (At_base H) _ Ex).
          + eexists. split; [reflexivity|]. reflexivity. }
      intros _. apply triple_ret. intros s [H HF]. split; [exact H|]. split; [exact Hph1|]. split; [|exact HF].
      apply (AllBackfilled_from_done (At_rel H)). intros i rows Hc.
      specialize (Hin _ _ Hc). rewrite Hnil in Hin. destruct Hin.
    - eapply triple_bind with (Q := fun _ s => BF p1 (N.of_nat (length ids)) s).
      { unfold upd_split. apply triple_request.
        - intros s H. exact (At_I H).
        - intros s H. destruct (s_split s) as [x|] eqn:Ex; cbn; [|exact (At_I H)].
          apply (@At_I p1). apply At_set_split_some; [exact H|apply dual_not_late; exact Hph1|].
          cbn. exact (b_split (At_base H) _ Ex).
        - intros s H. destruct (split_present H (or_introl Hph1)) as [x Ex]. rewrite Ex. cbn.
          split; [|split; [exact Hph1|]].
          + apply At_set_split_some; [exact H|apply dual_not_late; exact Hph1|].
            cbn. exact (b_split (At_base H) _ Ex).
          + eexists. split; [reflexivity|]. split; reflexivity. }
      intros _.
      destruct (N.eqb (N.of_nat (length (pg_done p1))) (N.of_nat (length ids))) eqn:Ec.
      + (* everything was back-filled by an earlier attempt *)
        apply N.eqb_eq in Ec. apply Nat2N.inj in Ec.
        apply triple_ret. intros s [H [_ [x [Ex [Hn Hd]]]]].
        split; [exact H|]. split; [exact Hph1|]. split.
        * apply (AllBackfilled_from_done (At_rel H)). intros i rows Hc.
          apply (@NoDup_length_incl _ (pg_done p1) ids (r_nodup (At_rel H))); [lia|exact Hsub|exact (Hin _ _ Hc)].
        * exists x. split; [exact Ex|]. rewrite Hn, Hd, Ec. apply N.ltb_irrefl.
      + eapply triple_post; [|apply bf_loop_spec; exact Hex].
        intros q s [[H [Hphq [x [Ex [Hn Hd]]]]] [H1 [H2 H3]]].
        split; [exact H|]. split; [exact Hphq|]. split.
        * apply (AllBackfilled_from_done (At_rel H)). intros i rows Hc. exact (H1 _ (Hin _ _ Hc)).
        * exists x. split; [exact Ex|]. rewrite Hn, Hd.
          rewrite (nodup_same_length (pg_done q) ids (r_nodup (At_rel H)) Hnd); [apply N.ltb_irrefl|].
          intros i. split; [|apply H1]. intros Hi. destruct (H3 _ Hi) as [Hd'|Hr]; [exact (Hsub _ Hd')|exact Hr].
  Qed.

  (* ---------------------------------------------------------------- *)
  (* Cut-over                                                           *)
  (* ---------------------------------------------------------------- *)
  Lemma ProgRel_flag_a {p s} : ProgRel p s -> s_a s = Some expA -> ProgRel (set_a p) s.
  Proof.
    intros [R1 R2 R3 R4 R5 R6 R7 R8 R9 R10 R11] Ha. constructor; try assumption.
    - intros _. exact Ha.
    - intros Hc. destruct (R9 Hc) as [Hs [Fa [Fb Fo]]]. split; [exact Hs|]. split; [reflexivity|split; assumption].
    - intros Hs. destruct (R10 Hs) as [E|[L [Fa [Fb Fo]]]]; [left; exact E|].
      right. split; [exact L|]. split; [reflexivity|split; assumption].
  Qed.

  Lemma ProgRel_flag_b {p s} : ProgRel p s -> s_b s = Some expB -> ProgRel (set_b p) s.
  Proof.
    intros [R1 R2 R3 R4 R5 R6 R7 R8 R9 R10 R11] Hb. constructor; try assumption.
    - intros _. exact Hb.
    - intros Hc. destruct (R9 Hc) as [Hs [Fa [Fb Fo]]]. split; [exact Hs|]. split; [exact Fa|split; [reflexivity|exact Fo]].
    - intros Hs. destruct (R10 Hs) as [E|[L [Fa [Fb Fo]]]]; [left; exact E|].
      right. split; [exact L|]. split; [exact Fa|split; [reflexivity|exact Fo]].
  Qed.

  Lemma ProgRel_flag_old {p s} : ProgRel p s -> OldIn StPending s -> ProgRel (set_oldflag p) s.
  Proof.
    intros [R1 R2 R3 R4 R5 R6 R7 R8 R9 R10 R11] Ho. constructor; try assumption.
    - intros _. exact Ho.
    - intros Hc. destruct (R9 Hc) as [Hs [Fa [Fb Fo]]]. split; [exact Hs|]. split; [exact Fa|split; [exact Fb|reflexivity]].
    - intros Hs. destruct (R10 Hs) as [E|[L [Fa [Fb Fo]]]]; [left; exact E|].
      right. split; [exact L|]. split; [exact Fa|split; [exact Fb|reflexivity]].
  Qed.

  Definition expN (sd : side) : shardmeta := match sd with SA => expA | SB => expB end.
  (* the metadata run_cutover asks for *)
  Definition reqN (sd : side) (om : shardmeta) : shardmeta :=
    match sd with
    | SA => mkShard 0 (sh_lo om) pt StActive (sh_min om) pt
    | SB => mkShard 0 pt (sh_hi om) StActive pt (sh_max om)
    end.

  Lemma At_set_new {p s} sd : At p s -> late p -> At p (set_shard s (ShNew sd) (Some (expN sd))).
  Proof. destruct sd; [apply At_set_a|apply At_set_b]. Qed.

  Lemma b_new {s} sd : Base s -> get_shard_of s (ShNew sd) = None \/ get_shard_of s (ShNew sd) = Some (expN sd).
  Proof. intros B. destruct sd; [exact (b_a B)|exact (b_b B)]. Qed.

  Lemma reqN_gen sd om : same_ranges om -> with_gen (reqN sd om) (0 + 1) = expN sd.
  Proof.
    intros [H1 [H2 [H3 H4]]].
    destruct sd; unfold with_gen, reqN, expN, expA, expB; cbn [sh_lo sh_hi sh_state sh_min sh_max sh_gen];
      rewrite ?H1, ?H2, ?H3, ?H4; reflexivity.
  Qed.

  Lemma reqN_same sd om : same_ranges om -> same_shard (expN sd) (reqN sd om) = true.
  Proof.
    intros [H1 [H2 [H3 H4]]].
    destruct sd; unfold same_shard, reqN, expN, expA, expB; cbn [sh_lo sh_hi sh_state sh_min sh_max sh_gen];
      rewrite ?H1, ?H2, ?H3, ?H4, ?Z.eqb_refl; reflexivity.
  Qed.

  (* what stays fixed while the cut-over steps run *)
  Definition CO (p : progress) (om : shardmeta) (ss : splitst) (s : st) : Prop :=
    At p s /\ s_old s = Some om /\ s_split s = Some ss.

  Lemma create_new_shard_spec sd p om ss :
    late p -> same_ranges om ->
    triple (CO p om ss) (create_new_shard sd (reqN sd om))
           (fun _ s => CO p om ss s /\ get_shard_of s (ShNew sd) = Some (expN sd)).
  Proof.
    intros Hl Hom. unfold create_new_shard.
    eapply triple_bind with (Q := fun ex s => CO p om ss s /\ ex = get_shard_of s (ShNew sd)).
    { unfold get_shard. apply triple_request.
      - intros s [H _]. exact (At_I H).
      - intros s [H _]. cbn. exact (At_I H).
      - intros s H. cbn. split; [exact H|reflexivity]. }
    intros ex.
    apply triple_assume with (Phi := ex = None \/ ex = Some (expN sd)).
    { intros s [[H _] E]. rewrite E. apply b_new. exact (At_base H). }
    assert (Hupd : triple (fun s => CO p om ss s /\ None = get_shard_of s (ShNew sd))
                     (update_shard (ShNew sd) (reqN sd om) 0)
                     (fun _ s => CO p om ss s /\ get_shard_of s (ShNew sd) = Some (expN sd))).
    { unfold update_shard. apply triple_request.
      - intros s [[H _] _]. exact (At_I H).
      - intros s [[H _] E]. rewrite <- E. change (0 =? 0)%N with true. cbn [fst snd].
        rewrite (reqN_gen sd om Hom). exact (At_I (At_set_new sd H Hl)).
      - intros s [[H [Ho Hs]] E]. rewrite <- E. change (0 =? 0)%N with true. cbn [fst snd].
        rewrite (reqN_gen sd om Hom). split.
        + split; [exact (At_set_new sd H Hl)|]. destruct sd; split; assumption.
        + destruct sd; reflexivity. }
    intros [E|E]; subst ex.
    - exact Hupd.
    - rewrite (reqN_same sd om Hom). apply triple_ret. intros s [H E]. split; [exact H|]. symmetry. exact E.
  Qed.

  Lemma backfill_late {p} : pg_phase p = Some PhBackfill -> late p.
  Proof. intros H. left. exact H. Qed.

  Lemma run_cutover_spec p :
    triple (fun s => At p s /\ pg_phase p = Some PhBackfill)
           (run_cutover p)
           (fun q s => At q s /\ pg_phase q = Some PhBackfill /\ s_split s = None /\ allflags q).
  Proof.
    apply triple_assume with (Phi := pg_phase p = Some PhBackfill); [intros s [_ H]; exact H|].
    intros Hph. pose proof (backfill_late Hph) as Hl. unfold run_cutover.
    eapply triple_bind with (Q := fun oss s => At p s /\ oss = s_split s).
    { unfold get_split_state. apply triple_request.
      - intros s [H _]. exact (At_I H).
      - intros s [H _]. cbn. exact (At_I H).
      - intros s [H _]. cbn. split; [exact H|reflexivity]. }
    intros [ss|].
    - apply triple_assume with (Phi := N.ltb (sp_num ss) (sp_den ss) = false /\ sp_point ss = pt).
      { intros s [H E]. symmetry in E. split.
        - exact (proj2 (r_late (At_rel H) Hl) _ E).
        - exact (b_split (At_base H) _ E). }
      intros [Hfull Hpt]. rewrite Hfull, Hpt.
      eapply triple_bind with (Q := fun oom s => (At p s /\ s_split s = Some ss) /\ oom = s_old s).
      { unfold get_shard. apply triple_request.
        - intros s [H _]. exact (At_I H).
        - intros s [H _]. cbn. exact (At_I H).
        - intros s [H E]. cbn. split; [split; [exact H|symmetry; exact E]|reflexivity]. }
      intros [om|].
      2:{ apply triple_false. intros s [[H _] E]. destruct (b_old (At_base H)) as [m [Hm _]]. congruence. }
      apply triple_assume with (Phi := same_ranges om).
      { intros s [[H _] E]. destruct (b_old (At_base H)) as [m [Hm [Hr _]]]. congruence. }
      intros Hom.
      (* step 1: shard A *)
      eapply triple_bind with (Q := fun p1 s => CO p1 om ss s /\ pg_phase p1 = Some PhBackfill /\ pg_a p1 = true).
      { destruct (pg_a p) eqn:Ea.
        - apply triple_ret. intros s [[H Hs] Ho]. split; [split; [exact H|split; [symmetry; exact Ho|exact Hs]]|]. split; assumption.
        - eapply triple_bind with (Q := fun _ s => CO p om ss s /\ s_a s = Some expA).
          { eapply triple_pre; [|apply (create_new_shard_spec SA p om ss Hl Hom)].
            intros s [[H Hs] Ho]. split; [exact H|split; [symmetry; exact Ho|exact Hs]]. }
          intros _.
          eapply triple_bind with (Q := fun _ s => CO (set_a p) om ss s).
          { unfold persist. apply triple_request.
            - intros s [[H _] _]. exact (At_I H).
            - intros s [[H _] Ha]. cbn. exact (At_I (At_persist H (ProgRel_flag_a (At_rel H) Ha))).
            - intros s [[H [Ho Hs]] Ha]. cbn. split; [exact (At_persist H (ProgRel_flag_a (At_rel H) Ha))|split; assumption]. }
          intros _. apply triple_ret. intros s H. split; [exact H|split; [exact Hph|reflexivity]]. }
      intros p1.
      apply triple_assume with (Phi := pg_phase p1 = Some PhBackfill /\ pg_a p1 = true); [intros s [_ H]; exact H|].
      intros [Hph1 Ha1]. pose proof (backfill_late Hph1) as Hl1.
      (* step 2: shard B *)
      eapply triple_bind with (Q := fun p2 s => CO p2 om ss s /\ pg_phase p2 = Some PhBackfill /\ pg_a p2 = true /\ pg_b p2 = true).
      { destruct (pg_b p1) eqn:Eb.
        - apply triple_ret. intros s [H _]. split; [exact H|]. split; [exact Hph1|split; assumption].
        - eapply triple_bind with (Q := fun _ s => CO p1 om ss s /\ s_b s = Some expB).
          { eapply triple_pre; [|apply (create_new_shard_spec SB p1 om ss Hl1 Hom)].
            intros s [H _]. exact H. }
          intros _.
          eapply triple_bind with (Q := fun _ s => CO (set_b p1) om ss s).
          { unfold persist. apply triple_request.
            - intros s [[H _] _]. exact (At_I H).
            - intros s [[H _] Hb]. cbn. exact (At_I (At_persist H (ProgRel_flag_b (At_rel H) Hb))).
            - intros s [[H [Ho Hs]] Hb]. cbn. split; [exact (At_persist H (ProgRel_flag_b (At_rel H) Hb))|split; assumption]. }
          intros _. apply triple_ret. intros s H. split; [exact H|split; [exact Hph1|split; [exact Ha1|reflexivity]]]. }
      intros p2.
      apply triple_assume with (Phi := pg_phase p2 = Some PhBackfill /\ pg_a p2 = true /\ pg_b p2 = true); [intros s [_ H]; exact H|].
      intros [Hph2 [Ha2 Hb2]]. pose proof (backfill_late Hph2) as Hl2.
      (* step 3: the old shard *)
      eapply triple_bind with (Q := fun p3 s => At p3 s /\ pg_phase p3 = Some PhBackfill /\ allflags p3).
      { destruct (pg_old p2) eqn:Eo.
        - apply triple_ret. intros s [[H _] _]. split; [exact H|]. split; [exact Hph2|]. split; [exact Ha2|split; assumption].
        - eapply triple_bind with (Q := fun _ s => At p2 s /\ OldIn StPending s).
          { unfold update_shard. apply triple_request.
            - intros s [[H _] _]. exact (At_I H).
            - intros s [[H [Ho _]] _]. cbn. rewrite Ho, N.eqb_refl. cbn.
              apply (@At_I p2). apply At_set_old; [exact H|exact Hl2|exact Hom|reflexivity].
            - intros s [[H [Ho _]] _]. cbn. rewrite Ho, N.eqb_refl. cbn. split.
              + apply At_set_old; [exact H|exact Hl2|exact Hom|reflexivity].
              + eexists. split; reflexivity. }
          intros _.
          eapply triple_bind with (Q := fun _ s => At (set_oldflag p2) s).
          { unfold persist. apply triple_request.
            - intros s [H _]. exact (At_I H).
            - intros s [H Ho]. cbn. exact (At_I (At_persist H (ProgRel_flag_old (At_rel H) Ho))).
            - intros s [H Ho]. cbn. exact (At_persist H (ProgRel_flag_old (At_rel H) Ho)). }
          intros _. apply triple_ret. intros s H. split; [exact H|]. split; [exact Hph2|].
          split; [exact Ha2|split; [exact Hb2|reflexivity]]. }
      intros p3.
      apply triple_assume with (Phi := pg_phase p3 = Some PhBackfill /\ allflags p3); [intros s [_ H]; exact H|].
      intros [Hph3 Hf3]. pose proof (backfill_late Hph3) as Hl3.
      eapply triple_bind with (Q := fun _ s => At p3 s /\ s_split s = None).
      { unfold complete_split. apply triple_request.
        - intros s [H _]. exact (At_I H).
        - intros s [H _]. cbn. exact (At_I (At_complete H Hl3 Hf3)).
        - intros s [H _]. cbn. split; [exact (At_complete H Hl3 Hf3)|reflexivity]. }
      intros _. apply triple_ret. intros s [H Hs]. split; [exact H|split; [exact Hph3|split; assumption]].
    - (* the split state is gone: complete_split already took effect *)
      apply triple_assume with (Phi := allflags p).
      { intros s [H E]. symmetry in E. destruct (r_nosplit (At_rel H) E) as [E'|[_ Hf]]; [congruence|exact Hf]. }
      intros [Fa [Fb Fo]]. rewrite Fa, Fb, Fo. cbn.
      apply triple_ret. intros s [H E]. split; [exact H|]. split; [exact Hph|]. split; [symmetry; exact E|].
      split; [exact Fa|split; assumption].
  Qed.

  (* ---------------------------------------------------------------- *)
  (* Clean-up                                                           *)
  (* ---------------------------------------------------------------- *)
  Definition AtCut (p : progress) (s : st) : Prop := At p s /\ pg_phase p = Some PhCutover.

  Lemma cleanup_loop_spec p : forall ids,
    triple (AtCut p) (cleanup_loop ids) (fun _ s => AtCut p s).
  Proof.
    induction ids as [|i rest IH].
    - apply triple_ret. intros s H. exact H.
    - cbn [cleanup_loop].
      eapply triple_bind with (Q := fun _ s => AtCut p s).
      { unfold del_obj_old. apply triple_ignored.
        - intros s. reflexivity.
        - intros s [H _]. exact (At_I H).
        - intros s [H Hc]. cbn. exact (At_I (At_del_oobj _ H (cutover_phase_complete H Hc))).
        - intros s H. exact H.
        - intros s [H Hc]. cbn. split; [exact (At_del_oobj _ H (cutover_phase_complete H Hc))|exact Hc]. }
      intros _.
      eapply triple_bind with (Q := fun _ s => AtCut p s).
      { unfold delete_chunk_old. apply triple_ignored.
        - intros s. reflexivity.
        - intros s [H _]. exact (At_I H).
        - intros s [H Hc]. cbn. exact (At_I (At_del_ocat _ H (cutover_phase_complete H Hc))).
        - intros s H. exact H.
        - intros s [H Hc]. cbn. split; [exact (At_del_ocat _ H (cutover_phase_complete H Hc))|exact Hc]. }
      intros _. exact IH.
  Qed.

  Definition Fin (s : st) : Prop := I s /\ FinalSt s /\ AllBackfilled s.

  Lemma tail_cleanup p :
    triple (AtCut p) (cleanup ;; remove_progress) (fun _ s => Fin s).
  Proof.
    eapply triple_bind with (Q := fun _ s => AtCut p s).
    { unfold cleanup.
      eapply triple_bind with (Q := fun _ s => AtCut p s).
      { unfold get_chunks_old. apply triple_request.
        - intros s [H _]. exact (At_I H).
        - intros s [H _]. cbn. exact (At_I H).
        - intros s H. cbn. exact H. }
      intros cs. apply cleanup_loop_spec. }
    intros _. unfold remove_progress. apply triple_request.
    - intros s [H _]. exact (At_I H).
    - intros s [H Hc]. cbn. exact (proj1 (I_remove H Hc)).
    - intros s [H Hc]. cbn. exact (I_remove H Hc).
  Qed.

  (* ---------------------------------------------------------------- *)
  (* Phase transitions                                                  *)
  (* ---------------------------------------------------------------- *)
  Lemma ProgRel_to_cutover {q s} :
    ProgRel q s -> late q -> s_split s = None -> allflags q -> ProgRel (set_phase q PhCutover) s.
  Proof.
    intros [R1 R2 R3 R4 R5 R6 R7 R8 R9 R10 R11] Hl Hs Hf. constructor; try assumption.
    - cbn. discriminate.
    - intros _. exact (R8 Hl).
    - intros _. split; assumption.
    - intros _. right. split; [right; reflexivity|exact Hf].
    - intros Hn. exfalso. apply Hn. right. reflexivity.
  Qed.

  Lemma ProgRel_to_backfill {q s} :
    ProgRel q s -> AllBackfilled s -> Full s -> ProgRel (set_phase q PhBackfill) s.
  Proof.
    intros [R1 R2 R3 R4 R5 R6 R7 R8 R9 R10 R11] Hall [x [Ex Hx]]. constructor; try assumption.
    - cbn. discriminate.
    - intros _. split; [exact Hall|]. intros y Ey. rewrite Ex in Ey. inversion Ey; subst. exact Hx.
    - cbn. discriminate.
    - intros Hs. congruence.
    - intros Hn. exfalso. apply Hn. left. reflexivity.
  Qed.

  Lemma not_late_set_phase q ph : ph = PhPrep \/ ph = PhDual -> ~ late (set_phase q ph).
  Proof. intros [E|E] [L|L]; subst; cbn in L; discriminate. Qed.

  Lemma ProgRel_to_early {q s} ph :
    ProgRel q s -> ~ late q -> ph = PhPrep \/ ph = PhDual -> s_split s <> None ->
    ProgRel (set_phase q ph) s.
  Proof.
    intros [R1 R2 R3 R4 R5 R6 R7 R8 R9 R10 R11] Hnl Hph Hs. constructor; try assumption.
    - cbn. destruct Hph; subst; discriminate.
    - intros L. exfalso. exact (not_late_set_phase q ph Hph L).
    - cbn. destruct Hph; subst; discriminate.
    - intros E. contradiction.
    - intros _. exact (R11 Hnl).
  Qed.

  Lemma prep_not_late {p} : pg_phase p = Some PhPrep -> ~ late p.
  Proof. intros H [L|L]; congruence. Qed.
  Lemma none_not_late {p} : pg_phase p = None -> ~ late p.
  Proof. intros H [L|L]; congruence. Qed.

  Definition step_cutover (p : progress) : M progress :=
    q <- run_cutover p ;; persist (set_phase q PhCutover) ;; ret (set_phase q PhCutover).
  Definition step_backfill (p : progress) : M progress :=
    q <- run_backfill p ;; persist (set_phase q PhBackfill) ;; ret (set_phase q PhBackfill).
  Definition step_dual (p : progress) : M progress :=
    upd_split 0 1 PhDual ;; persist (set_phase p PhDual) ;; ret (set_phase p PhDual).

  Lemma step_cutover_spec p :
    triple (fun s => At p s /\ pg_phase p = Some PhBackfill) (step_cutover p) (fun q s => AtCut q s).
  Proof.
    unfold step_cutover. eapply triple_bind; [apply run_cutover_spec|].
    intros q. cbv beta.
    eapply triple_bind with (Q := fun _ s => At (set_phase q PhCutover) s).
    { assert (Hrel : forall s, At q s /\ pg_phase q = Some PhBackfill /\ s_split s = None /\ allflags q ->
                       ProgRel (set_phase q PhCutover) s).
      { intros s [H [Hph [Hs Hf]]]. exact (ProgRel_to_cutover (At_rel H) (backfill_late Hph) Hs Hf). }
      unfold persist. apply triple_request.
      - intros s [H _]. exact (At_I H).
      - intros s Hs. cbn. exact (At_I (At_persist (proj1 Hs) (Hrel _ Hs))).
      - intros s Hs. cbn. exact (At_persist (proj1 Hs) (Hrel _ Hs)). }
    intros _. apply triple_ret. intros s H. split; [exact H|reflexivity].
  Qed.

  Lemma step_backfill_spec p :
    triple (fun s => At p s /\ pg_phase p = Some PhDual) (step_backfill p)
           (fun q s => At q s /\ pg_phase q = Some PhBackfill).
  Proof.
    unfold step_backfill. eapply triple_bind; [apply run_backfill_spec|].
    intros q. cbv beta.
    eapply triple_bind with (Q := fun _ s => At (set_phase q PhBackfill) s).
    { assert (Hrel : forall s, At q s /\ pg_phase q = Some PhDual /\ AllBackfilled s /\ Full s ->
                       ProgRel (set_phase q PhBackfill) s).
      { intros s [H [Hph [Hall Hf]]]. exact (ProgRel_to_backfill (At_rel H) Hall Hf). }
      unfold persist. apply triple_request.
      - intros s [H _]. exact (At_I H).
      - intros s Hs. cbn. exact (At_I (At_persist (proj1 Hs) (Hrel _ Hs))).
      - intros s Hs. cbn. exact (At_persist (proj1 Hs) (Hrel _ Hs)). }
    intros _. apply triple_ret. intros s H. split; [exact H|reflexivity].
  Qed.

  Lemma step_dual_spec p :
    triple (fun s => At p s /\ pg_phase p = Some PhPrep) (step_dual p)
           (fun q s => At q s /\ pg_phase q = Some PhDual).
  Proof.
    apply triple_assume with (Phi := pg_phase p = Some PhPrep); [intros s [_ H]; exact H|].
    intros Hph. unfold step_dual.
    eapply triple_bind with (Q := fun _ s => At p s /\ s_split s <> None).
    { unfold upd_split. apply triple_request.
      - intros s [H _]. exact (At_I H).
      - intros s [H _]. destruct (s_split s) as [x|] eqn:Ex; cbn; [|exact (At_I H)].
        apply (@At_I p). apply At_set_split_some; [exact H|exact (prep_not_late Hph)|].
        cbn. exact (b_split (At_base H) _ Ex).
      - intros s [H _]. destruct (split_present H (or_intror Hph)) as [x Ex]. rewrite Ex. cbn. split.
        + apply At_set_split_some; [exact H|exact (prep_not_late Hph)|].
          cbn. exact (b_split (At_base H) _ Ex).
        + discriminate. }
    intros _.
    eapply triple_bind with (Q := fun _ s => At (set_phase p PhDual) s).
    { assert (Hrel : forall s, At p s /\ s_split s <> None -> ProgRel (set_phase p PhDual) s).
      { intros s [H Hs]. exact (ProgRel_to_early PhDual (At_rel H) (prep_not_late Hph) (or_intror eq_refl) Hs). }
      unfold persist. apply triple_request.
      - intros s [H _]. exact (At_I H).
      - intros s Hs. cbn. exact (At_I (At_persist (proj1 Hs) (Hrel _ Hs))).
      - intros s Hs. cbn. exact (At_persist (proj1 Hs) (Hrel _ Hs)). }
    intros _. apply triple_ret. intros s H. split; [exact H|reflexivity].
  Qed.

  (* run_from_phase, one equation per starting phase *)
  Lemma rfp_dual p : run_from_phase p PhDual =
    (p1 <- step_dual p ;; p2 <- step_backfill p1 ;; p3 <- step_cutover p2 ;; cleanup ;; remove_progress).
  Proof. reflexivity. Qed.
  Lemma rfp_backfill p : run_from_phase p PhBackfill =
    (p1 <- ret p ;; p2 <- step_backfill p1 ;; p3 <- step_cutover p2 ;; cleanup ;; remove_progress).
  Proof. reflexivity. Qed.
  Lemma rfp_cutover p : run_from_phase p PhCutover =
    (p1 <- ret p ;; p2 <- ret p1 ;; p3 <- step_cutover p2 ;; cleanup ;; remove_progress).
  Proof. reflexivity. Qed.
  Lemma rfp_cleanup p : run_from_phase p PhCleanup =
    (p1 <- ret p ;; p2 <- ret p1 ;; p3 <- ret p2 ;; cleanup ;; remove_progress).
  Proof. reflexivity. Qed.

  Lemma from_cleanup p : triple (AtCut p) (run_from_phase p PhCleanup) (fun _ s => Fin s).
  Proof.
    rewrite rfp_cleanup.
    eapply triple_bind with (Q := fun q s => AtCut q s); [apply triple_ret; intros s H; exact H|]. intros p1. cbv beta.
    eapply triple_bind with (Q := fun q s => AtCut q s); [apply triple_ret; intros s H; exact H|]. intros p2. cbv beta.
    eapply triple_bind with (Q := fun q s => AtCut q s); [apply triple_ret; intros s H; exact H|]. intros p3. cbv beta.
    apply tail_cleanup.
  Qed.

  Lemma from_cutover p :
    triple (fun s => At p s /\ pg_phase p = Some PhBackfill) (run_from_phase p PhCutover) (fun _ s => Fin s).
  Proof.
    rewrite rfp_cutover.
    eapply triple_bind with (Q := fun q s => At q s /\ pg_phase q = Some PhBackfill); [apply triple_ret; intros s H; exact H|]. intros p1. cbv beta.
    eapply triple_bind with (Q := fun q s => At q s /\ pg_phase q = Some PhBackfill); [apply triple_ret; intros s H; exact H|]. intros p2. cbv beta.
    eapply triple_bind; [apply step_cutover_spec|]. intros p3. cbv beta.
    apply tail_cleanup.
  Qed.

  Lemma from_backfill p :
    triple (fun s => At p s /\ pg_phase p = Some PhDual) (run_from_phase p PhBackfill) (fun _ s => Fin s).
  Proof.
    rewrite rfp_backfill.
    eapply triple_bind with (Q := fun q s => At q s /\ pg_phase q = Some PhDual); [apply triple_ret; intros s H; exact H|]. intros p1. cbv beta.
    eapply triple_bind; [apply step_backfill_spec|]. intros p2. cbv beta.
    eapply triple_bind; [apply step_cutover_spec|]. intros p3. cbv beta.
    apply tail_cleanup.
  Qed.

  Lemma from_dual p :
    triple (fun s => At p s /\ pg_phase p = Some PhPrep) (run_from_phase p PhDual) (fun _ s => Fin s).
  Proof.
    rewrite rfp_dual.
    eapply triple_bind; [apply step_dual_spec|]. intros p1. cbv beta.
    eapply triple_bind; [apply step_backfill_spec|]. intros p2. cbv beta.
    eapply triple_bind; [apply step_cutover_spec|]. intros p3. cbv beta.
    apply tail_cleanup.
  Qed.

  (* Phase 1 (again): start_split, record Preparation, continue with k *)
  Lemma prep_steps {B} p (k : M B) (R : B -> st -> Prop) :
    triple (fun s => At (set_phase p PhPrep) s) k R ->
    triple (fun s => At p s /\ pg_phase p = None)
           (start_split (pg_point p) ;; persist (set_phase p PhPrep) ;; k) R.
  Proof.
    intros Hk.
    apply triple_assume with (Phi := pg_phase p = None); [intros s [_ H]; exact H|].
    intros Hph.
    eapply triple_bind with (Q := fun _ s => At p s /\ s_split s <> None).
    { unfold start_split. apply triple_request.
      - intros s [H _]. exact (At_I H).
      - intros s [H _]. cbn. apply (@At_I p).
        apply At_set_split_some; [exact H|exact (none_not_late Hph)|]. cbn. exact (r_point (At_rel H)).
      - intros s [H _]. cbn. split.
        + apply At_set_split_some; [exact H|exact (none_not_late Hph)|]. cbn. exact (r_point (At_rel H)).
        + discriminate. }
    intros _.
    eapply triple_bind with (Q := fun _ s => At (set_phase p PhPrep) s).
    { assert (Hrel : forall s, At p s /\ s_split s <> None -> ProgRel (set_phase p PhPrep) s).
      { intros s [H Hs]. exact (ProgRel_to_early PhPrep (At_rel H) (none_not_late Hph) (or_introl eq_refl) Hs). }
      unfold persist. apply triple_request.
      - intros s [H _]. exact (At_I H).
      - intros s Hs. cbn. exact (At_I (At_persist (proj1 Hs) (Hrel _ Hs))).
      - intros s Hs. cbn. exact (At_persist (proj1 Hs) (Hrel _ Hs)). }
    intros _. exact Hk.
  Qed.

  (* ---------------------------------------------------------------- *)
  (* resume_split                                                       *)
  (* ---------------------------------------------------------------- *)
  Definition ResumePost (b : bool) (s : st) : Prop :=
    I s /\ (b = true -> FinalSt s /\ AllBackfilled s) /\ (b = false -> s_prog s = None).

  Lemma then_true (m : M unit) P :
    triple P m (fun _ s => Fin s) -> triple P (m ;; ret true) ResumePost.
  Proof.
    intros H. eapply triple_bind; [exact H|]. intros u. apply triple_ret.
    intros s [HI [HF HA]]. split; [exact HI|]. split; [intros _; split; assumption|discriminate].
  Qed.

  Lemma resume_spec : triple I resume ResumePost.
  Proof.
    unfold resume.
    eapply triple_bind with (Q := fun op s => I s /\ op = s_prog s).
    { unfold load_progress. apply triple_request.
      - intros s H. exact H.
      - intros s H. cbn. exact H.
      - intros s H. cbn. split; [exact H|reflexivity]. }
    intros [p|].
    - eapply triple_pre with (P' := At p); [intros s [H E]; split; [exact H|symmetry; exact E]|].
      apply triple_assume with (Phi := pg_phase p <> Some PhCleanup).
      { intros s H. exact (r_nocleanup (At_rel H)). }
      intros Hnc. unfold next_phase.
      destruct (pg_phase p) as [[| | | |]|] eqn:Eph.
      + apply then_true. eapply triple_pre; [|apply from_dual]. intros s H. split; [exact H|exact Eph].
      + apply then_true. eapply triple_pre; [|apply from_backfill]. intros s H. split; [exact H|exact Eph].
      + apply then_true. eapply triple_pre; [|apply from_cutover]. intros s H. split; [exact H|exact Eph].
      + apply then_true. eapply triple_pre; [|apply from_cleanup]. intros s H. split; [exact H|exact Eph].
      + congruence.
      + eapply triple_pre; [|apply prep_steps].
        * intros s H. split; [exact H|exact Eph].
        * apply then_true. eapply triple_pre; [|apply from_dual]. intros s H. split; [exact H|reflexivity].
    - apply triple_ret. intros s [H E]. split; [exact H|]. split; [discriminate|]. intros _. symmetry. exact E.
  Qed.

  (* ---------------------------------------------------------------- *)
  (* execute_split                                                      *)
  (* ---------------------------------------------------------------- *)
  Definition p0 : progress := mkProg None false false false [] 0 pt.

  Lemma Base_s0 : Base s0.
  Proof.
    constructor.
    - exists arg. split; [reflexivity|]. split; [repeat split|left; exact arg_active].
    - left. reflexivity.
    - left. reflexivity.
    - intros k m H. cbn in H. discriminate.
    - cbn. constructor.
    - left. split; reflexivity.
    - intros x H. cbn in H. discriminate.
  Qed.

  Lemma ProgRel_p0 : ProgRel p0 s0.
  Proof.
    constructor; cbn; try discriminate.
    - reflexivity.
    - constructor.
    - intros i [].
    - intros [L|L]; cbn in L; discriminate.
    - intros _. left. reflexivity.
    - intros _. split; [reflexivity|]. split; [reflexivity|]. exists arg. split; [reflexivity|exact arg_active].
  Qed.

  Lemma At_p0 : At p0 (set_prog s0 (Some p0)).
  Proof.
    apply At_intro; [apply Base_set_prog; exact Base_s0|reflexivity|apply ProgRel_set_prog; exact ProgRel_p0].
  Qed.

  Lemma Inv_s0 : Inv s0.
  Proof. split; [exact Base_s0|]. cbn. left. reflexivity. Qed.

  Definition execute_tail : M unit :=
    start_split pt ;; persist (set_phase p0 PhPrep) ;; run_from_phase (set_phase p0 PhPrep) PhDual.

  Lemma execute_tail_spec : triple (At p0) execute_tail (fun _ s => Fin s).
  Proof.
    eapply triple_pre; [|apply (prep_steps p0)].
    - intros s H. split; [exact H|reflexivity].
    - eapply triple_pre; [|apply from_dual]. intros s H. split; [exact H|reflexivity].
  Qed.

  Lemma execute_eq : execute arg = (persist p0 ;; execute_tail).
  Proof. reflexivity. Qed.

  (* The initial run from the untouched state: either its very first request
     was stopped before it took effect (nothing happened), or the run obeys
     the same contract as everything else. *)
  Definition first_blocked (pl : list (nat * fmode)) : Prop :=
    plan_get 0 pl = Some FB \/ plan_get 0 pl = Some CB.

  Definition w1 (pl : list (nat * fmode)) (s : st) : world := mkW s 1 pl [TPp p0].

  Lemma execute_unfold pl :
    execute arg (fresh s0 pl) =
    match plan_get 0 pl with
    | None => execute_tail (w1 pl (set_prog s0 (Some p0)))
    | Some FB => (w1 pl s0, RErr EInjected)
    | Some FA => (w1 pl (set_prog s0 (Some p0)), RErr EInjected)
    | Some CB => (w1 pl s0, RCrash)
    | Some CA => (w1 pl (set_prog s0 (Some p0)), RCrash)
    end.
  Proof.
    rewrite execute_eq. unfold bind, persist, request, w1. cbn [fresh w_n w_plan w_st w_trace].
    destruct (plan_get 0 pl) as [[| | |]|]; cbn [fst snd]; reflexivity.
  Qed.

  Lemma execute_from_s0 pl :
    let r := execute arg (fresh s0 pl) in
    (first_blocked pl /\ w_st (fst r) = s0 /\ (snd r = RErr EInjected \/ snd r = RCrash))
    \/
    (~ first_blocked pl /\
     match snd r with
     | ROk _ => Fin (w_st (fst r))
     | RErr e => I (w_st (fst r)) /\ e = EInjected /\ pl <> []
     | RCrash => I (w_st (fst r)) /\ pl <> []
     end).
  Proof.
    cbv zeta. rewrite execute_unfold. unfold first_blocked.
    destruct (plan_get 0 pl) as [[| | |]|] eqn:E.
    - left. split; [left; reflexivity|]. split; [reflexivity|left; reflexivity].
    - right. split; [intros [H|H]; discriminate|]. cbn.
      split; [exact (At_I At_p0)|]. split; [reflexivity|exact (plan_get_some _ _ _ E)].
    - left. split; [right; reflexivity|]. split; [reflexivity|right; reflexivity].
    - right. split; [intros [H|H]; discriminate|]. cbn.
      split; [exact (At_I At_p0)|exact (plan_get_some _ _ _ E)].
    - right. split; [intros [H|H]; discriminate|].
      pose proof (execute_tail_spec (w1 pl (set_prog s0 (Some p0))) At_p0) as H.
      cbn [w_st w_plan w1] in H. destruct H as [Hpl H].
      destruct (execute_tail (w1 pl (set_prog s0 (Some p0)))) as [w' r'].
      cbn [fst snd] in *. destruct r'; exact H.
  Qed.

  (* ---------------------------------------------------------------- *)
  (* Scripts                                                            *)
  (* ---------------------------------------------------------------- *)
  Lemma run_resume_I s pl : I s -> I (w_st (fst (run_resume s pl))).
  Proof.
    intros H. unfold run_resume.
    pose proof (resume_spec (fresh s pl) H) as [_ Hr].
    destruct (resume (fresh s pl)) as [w r]. cbn [fst snd] in Hr.
    destruct r as [[|]|e|]; cbn [fst]; [exact (proj1 Hr)|exact (proj1 Hr)|exact (proj1 Hr)|exact (proj1 Hr)].
  Qed.

  Lemma resumes_state_I plans : forall s, I s -> I (resumes_state s plans).
  Proof.
    induction plans as [|pl r IH]; intros s H; [exact H|].
    cbn [resumes_state fold_left]. apply IH. apply run_resume_I. exact H.
  Qed.

  (* a fault-free resume never stops, and ends in the final state (or reports
     that there is nothing to resume) *)
  Lemma resume_fault_free s :
    I s ->
    exists w b, resume (fresh s []) = (w, ROk b) /\ I (w_st w) /\
                (b = true -> FinalSt (w_st w) /\ AllBackfilled (w_st w)) /\
                (b = false -> s_prog (w_st w) = None).
  Proof.
    intros H. pose proof (resume_spec (fresh s []) H) as [_ Hr].
    destruct (resume (fresh s [])) as [w r]. cbn [fst snd fresh w_plan] in Hr.
    destruct r as [b|e|].
    - exists w, b. split; [reflexivity|exact Hr].
    - destruct Hr as [_ [_ Hne]]. congruence.
    - destruct Hr as [_ Hne]. congruence.
  Qed.

  (* conservation *)
  Definition old_rows : list row := flat_map snd chunks.
  Definition conserve (s : st) : Prop :=
    Permutation (rows_of SA s) (filter (is_lower pt) old_rows) /\
    Permutation (rows_of SB s) (filter (is_upper pt) old_rows).

  Lemma Inv_conserve s : Inv s -> AllBackfilled s -> conserve s.
  Proof.
    intros [B _] Hall. split.
    - apply (rows_of_conserve pt chunks chunks_nodup s SA); [exact (b_nodup B)|exact (b_ncat B)|exact Hall].
    - apply (rows_of_conserve pt chunks chunks_nodup s SB); [exact (b_nodup B)|exact (b_ncat B)|exact Hall].
  Qed.

  Lemma not_started_s0 : ~ Started s0.
  Proof. intros [H|H]; apply H; reflexivity. Qed.
End SplitProofs.

(* ------------------------------------------------------------------ *)
(* Theorems about scripts (section variables now explicit)              *)
(* ------------------------------------------------------------------ *)
Definition wf_input (arg : shardmeta) (chunks : list (N * list row)) : Prop :=
  NoDup (map fst chunks) /\ sh_state arg = StActive.

Lemma run_execute_fst arg s pl : fst (run_execute arg s pl) = fst (execute arg (fresh s pl)).
Proof. unfold run_execute. destruct (execute arg (fresh s pl)) as [w [u|e|]]; reflexivity. Qed.

Lemma run_resume_fst s pl : fst (run_resume s pl) = fst (resume (fresh s pl)).
Proof. unfold run_resume. destruct (resume (fresh s pl)) as [w [[|]|e|]]; reflexivity. Qed.

(* after the initial run: untouched, or inside the invariant (and started) *)
Lemma after_execute arg chunks strict pl :
  wf_input arg chunks ->
  let s := w_st (fst (run_execute arg (s0 arg chunks) pl)) in
  (first_blocked pl /\ s = s0 arg chunks) \/ (~ first_blocked pl /\ I arg chunks strict s).
Proof.
  intros [Hnd Hact]. cbv zeta. rewrite run_execute_fst.
  destruct (execute_from_s0 arg chunks Hnd Hact strict pl) as [[Hb [Hs _]]|[Hnb Hr]].
  - left. split; assumption.
  - right. split; [exact Hnb|].
    destruct (snd (execute arg (fresh (s0 arg chunks) pl))) as [u|e|]; [exact (proj1 Hr)|exact (proj1 Hr)|exact (proj1 Hr)].
Qed.

Lemma I_weaken arg chunks strict s : I arg chunks strict s -> Inv arg chunks s.
Proof. intros [H _]. exact H. Qed.

Lemma Inv_I_false arg chunks s : Inv arg chunks s -> I arg chunks false s.
Proof. intros H. split; [exact H|discriminate]. Qed.

(* Every state reachable by a script — the initial run and any number of
   resumes, each under an arbitrary fault plan — satisfies the invariant. *)
Theorem reachable_inv arg chunks script :
  wf_input arg chunks -> Inv arg chunks (script_state arg (s0 arg chunks) script).
Proof.
  intros Hwf. destruct script as [|pl r]; cbn [script_state].
  - destruct Hwf. apply Inv_s0; assumption.
  - apply (I_weaken arg chunks false). destruct Hwf as [Hnd Hact].
    apply resumes_state_I; [exact Hnd|].
    destruct (after_execute arg chunks false pl (conj Hnd Hact)) as [[_ Hs]|[_ HI]].
    + rewrite Hs. apply Inv_I_false. apply Inv_s0; assumption.
    + exact HI.
Qed.

Theorem reachable_started arg chunks pl r :
  wf_input arg chunks -> ~ first_blocked pl ->
  I arg chunks true (script_state arg (s0 arg chunks) (pl :: r)).
Proof.
  intros [Hnd Hact] Hnb. cbn [script_state].
  apply resumes_state_I; [exact Hnd|].
  destruct (after_execute arg chunks true pl (conj Hnd Hact)) as [[Hb _]|[_ HI]]; [contradiction|exact HI].
Qed.

(* a resume that finds no progress file changes nothing, whatever the plan *)
Lemma resume_nothing s pl : s_prog s = None -> w_st (fst (run_resume s pl)) = s.
Proof.
  intros Hp. rewrite run_resume_fst. unfold resume, bind, load_progress, request.
  cbn [fresh w_n w_plan w_st w_trace].
  destruct (plan_get 0 pl) as [[| | |]|]; cbn [fst snd w_st]; try reflexivity.
  rewrite Hp. reflexivity.
Qed.

Theorem never_began arg chunks pl r :
  wf_input arg chunks -> first_blocked pl ->
  script_state arg (s0 arg chunks) (pl :: r) = s0 arg chunks.
Proof.
  intros Hwf Hb. cbn [script_state].
  destruct (after_execute arg chunks false pl Hwf) as [[_ Hs]|[Hnb _]]; [|contradiction].
  rewrite Hs. clear Hs. induction r as [|pl' r IH]; [reflexivity|].
  cbn [resumes_state fold_left]. rewrite resume_nothing; [exact IH|reflexivity].
Qed.

(* Resumable: a fault-free resume returns, and ends in the final state with
   the data conserved — or finds the world untouched (the split never began). *)
Definition Resumable (arg : shardmeta) (chunks : list (N * list row)) (s : st) : Prop :=
  exists w b, resume (fresh s []) = (w, ROk b) /\
    ((FinalSt arg (w_st w) /\ conserve arg chunks (w_st w)) \/ w_st w = s0 arg chunks).

Theorem Inv_Resumable arg chunks s :
  wf_input arg chunks -> Inv arg chunks s -> Resumable arg chunks s.
Proof.
  intros [Hnd Hact] Hinv.
  destruct (resume_fault_free arg chunks Hnd false s (Inv_I_false _ _ _ Hinv)) as [w [b [E [HI [Ht Hf]]]]].
  exists w, b. split; [exact E|].
  pose proof (I_weaken _ _ _ _ HI) as Hinv'.
  destruct b.
  - destruct (Ht eq_refl) as [HF HA]. left. split; [exact HF|]. apply Inv_conserve; assumption.
  - specialize (Hf eq_refl). destruct Hinv' as [HB Hm]. rewrite Hf in Hm.
    destruct Hm as [E0|[HF HA]]; [right; exact E0|].
    left. split; [exact HF|]. apply Inv_conserve; [exact Hnd|split; [exact HB|rewrite Hf; right; split; assumption]|exact HA].
Qed.

(* every run (failing or not) preserves Resumable-ness: it preserves Inv *)
Theorem resume_preserves_inv arg chunks s pl :
  wf_input arg chunks -> Inv arg chunks s -> Inv arg chunks (w_st (fst (run_resume s pl))).
Proof.
  intros [Hnd Hact] H. apply (I_weaken arg chunks false).
  apply run_resume_I; [exact Hnd|apply Inv_I_false; exact H].
Qed.

(* Main theorem: for all fault scripts (any number of runs, any faults in each)
   a single further fault-free resume reaches Final /\ conserve; the only
   other possibility is that the split never began. *)
Theorem resumable_after_any_script arg chunks script :
  wf_input arg chunks -> Resumable arg chunks (script_state arg (s0 arg chunks) script).
Proof. intros Hwf. apply Inv_Resumable; [exact Hwf|apply reachable_inv; exact Hwf]. Qed.

Theorem final_after_any_started_script arg chunks pl r :
  wf_input arg chunks -> ~ first_blocked pl ->
  exists w b, resume (fresh (script_state arg (s0 arg chunks) (pl :: r)) []) = (w, ROk b) /\
              FinalSt arg (w_st w) /\ conserve arg chunks (w_st w).
Proof.
  intros Hwf Hnb. pose proof (reachable_started arg chunks pl r Hwf Hnb) as HI.
  destruct Hwf as [Hnd Hact].
  destruct (resume_fault_free arg chunks Hnd true _ HI) as [w [b [E [HI' [Ht Hf]]]]].
  exists w, b. split; [exact E|].
  destruct HI' as [Hinv Hst]. specialize (Hst eq_refl).
  destruct b.
  - destruct (Ht eq_refl) as [HF HA]. split; [exact HF|]. apply Inv_conserve; assumption.
  - specialize (Hf eq_refl). destruct Hinv as [HB Hm]. rewrite Hf in Hm.
    destruct Hm as [E0|[HF HA]].
    + exfalso. rewrite E0 in Hst. exact (not_started_s0 arg chunks Hst).
    + split; [exact HF|]. apply Inv_conserve; [exact Hnd|split; [exact HB|rewrite Hf; right; split; assumption]|exact HA].
Qed.

(* "resume^n": n = 1 suffices *)
Theorem exists_n_resumes_reach_final arg chunks pl r :
  wf_input arg chunks -> ~ first_blocked pl ->
  exists n, let s := resumes_state (script_state arg (s0 arg chunks) (pl :: r)) (repeat [] n) in
            FinalSt arg s /\ conserve arg chunks s.
Proof.
  intros Hwf Hnb. exists 1%nat. cbn [repeat resumes_state fold_left].
  destruct (final_after_any_started_script arg chunks pl r Hwf Hnb) as [w [b [E [HF HC]]]].
  rewrite run_resume_fst, E. cbn [fst]. split; assumption.
Qed.

(* No old-shard data is removed before the cut-over has completed: in every
   reachable state (every prefix of every run is the end of some script, since
   a crash may follow any request) the old shard's catalog entries and objects
   are exactly the initial ones unless the cut-over is complete. *)
Theorem no_old_data_removed_before_cutover arg chunks script :
  wf_input arg chunks ->
  let s := script_state arg (s0 arg chunks) script in
  intact arg chunks s \/ CutoverComplete arg s.
Proof. intros Hwf. cbv zeta. destruct (reachable_inv arg chunks script Hwf) as [B _]. exact (b_data _ _ _ B). Qed.

(* the final state is stable: a further resume finds nothing to do *)
Theorem final_stable arg s pl : FinalSt arg s -> w_st (fst (run_resume s pl)) = s.
Proof. intros [Hp _]. apply resume_nothing. exact Hp. Qed.

(* conservation, spelled out: every old row is served by the new shards
   exactly as often as the old shard held it, and only on its side *)
Lemma row_eq_dec (a b : row) : {a = b} + {a <> b}.
Proof. decide equality; apply Z.eq_dec. Qed.

Lemma count_filter_split (f : row -> bool) l x :
  (count_occ row_eq_dec (filter f l) x + count_occ row_eq_dec (filter (fun r => negb (f r)) l) x
   = count_occ row_eq_dec l x)%nat.
Proof.
  induction l as [|y r IH]; [reflexivity|].
  cbn [filter]. destruct (f y); cbn [negb count_occ]; destruct (row_eq_dec y x); lia.
Qed.

Theorem conserve_exactly_once arg chunks s :
  conserve arg chunks s ->
  forall r,
    (count_occ row_eq_dec (rows_of SA s) r + count_occ row_eq_dec (rows_of SB s) r
     = count_occ row_eq_dec (old_rows chunks) r)%nat /\
    (In r (rows_of SA s) -> row_ts r < pt arg) /\
    (In r (rows_of SB s) -> pt arg <= row_ts r).
Proof.
  intros [HA HB] r. split; [|split].
  - rewrite (proj1 (Permutation_count_occ row_eq_dec _ _) HA r), (proj1 (Permutation_count_occ row_eq_dec _ _) HB r).
    apply count_filter_split.
  - intros Hin. apply (Permutation_in _ HA) in Hin. apply filter_In in Hin. destruct Hin as [_ H].
    unfold is_lower in H. apply Z.ltb_lt. exact H.
  - intros Hin. apply (Permutation_in _ HB) in Hin. apply filter_In in Hin. destruct Hin as [_ H].
    unfold is_upper, is_lower in H. apply negb_true_iff in H. apply Z.ltb_ge. exact H.
Qed.

(* ------------------------------------------------------------------ *)
(* Non-vacuity: a concrete split, every single fault, then one resume   *)
(* ------------------------------------------------------------------ *)
Definition ex_arg : shardmeta := mkShard 1 0 1000 StActive 0 6000000000000.
Definition ex_chunks : list (N * list row) :=
  [(0%N, [(1, 2999999999999); (2, 3000000000000); (3, 3000000000001)]);
   (1%N, [(5, 10)]);
   (4%N, [(7, 3000000000000); (8, 3000000000000)])].

Example ex_wf : wf_input ex_arg ex_chunks.
Proof.
  split; [|reflexivity]. cbn. repeat constructor; cbn; intuition discriminate.
Qed.

Example ex_split_point : pt ex_arg = 3000000000000.
Proof. vm_compute. reflexivity. Qed.

Example ex_fault_free_run :
  map snd (run_script ex_arg (s0 ex_arg ex_chunks) [[]; []]) = [KOk; KFalse].
Proof. vm_compute. reflexivity. Qed.

Definition shard_is (x : option shardmeta) (e : shardmeta) : bool :=
  match x with Some m => same_shard m e && N.eqb (sh_gen m) (sh_gen e) | None => false end.

Definition final_b (arg : shardmeta) (s : st) : bool :=
  match s_prog s, s_split s, s_old s with
  | None, None, Some o =>
      shard_is (s_a s) (expA arg) && shard_is (s_b s) (expB arg) && sstate_eqb (sh_state o) StPending
  | _, _, _ => false
  end.

Definition rows_b (s : st) : bool :=
  N.eqb (N.of_nat (length (rows_of SA s))) 2 && N.eqb (N.of_nat (length (rows_of SB s))) 4.

Definition ex_check (k : nat) (m : fmode) : bool :=
  match run_script ex_arg (s0 ex_arg ex_chunks) [[(k, m)]; []] with
  | [_; (w, kind)] =>
      match kind with KTrue | KFalse => true | _ => false end
      && (final_b ex_arg (w_st w) && rows_b (w_st w)
          || (Nat.eqb k 0 && match m with FB | CB => true | _ => false end))
  | _ => false
  end.

(* every request of the run x every fault mode, then ONE fault-free resume:
   includes the three positions that stranded the split before the repairs
   (crash after the first progress PUT; new shard created but not recorded;
   complete_split done but the phase not recorded) *)
Example ex_every_single_fault_then_resume :
  forallb (fun k => forallb (ex_check k) [FB; FA; CB; CA]) (seq 0 50) = true.
Proof. vm_compute. reflexivity. Qed.

Example ex_request_count :
  map (fun x => w_n (fst x)) (run_script ex_arg (s0 ex_arg ex_chunks) [[]]) = [46%nat].
Proof. vm_compute. reflexivity. Qed.
