(* Proofs/IngestDurProofs.v — C01: for every schedule of writer / timer /
   recovery steps, storage faults and crashes on which the classifier does not
   fire, every row of every acknowledged write is in the catalog or in a WAL
   entry that the next recovery replays (Durable); plus the two refutation
   witnesses of the full statement.

   Invariant (while the classifier flag is 0), with
     L = batches that exist in volatile memory and may belong to acknowledged
         writes: buffer, taken by a running flush, waiting to be replayed,
         dropped by a failed flush;
     P = batches a writer has logged but not buffered yet:
   (B) every element of L ∪ P has its WAL entry on disk and a sequence number
       above the persisted mark;
   (C) every acknowledged batch is in the catalog or in L (process up) /
       on disk above the mark (process down);
   (D) a flush that has read last_wal_seq = S (and will truncate / persist
       with it) has S below every element of L ∪ P and below next_seq;
   plus bookkeeping: WAL sequence numbers strictly increase and stay below
   next_seq, last_wal_seq < next_seq, the threshold path's own batch is among
   the taken ones / in the catalog, recovery's bounds.  Batches are compared by
   key = (sequence number, rows): a replayed copy differs from the original
   only in its memory size. *)
From CS Require Import Base.Prelude Model.Ingest Model.IngestDur.
From CSGen Require Import Consts.
Open Scope N_scope.

(* ------------------------------------------------------------------ *)
(* keys                                                                 *)
(* ------------------------------------------------------------------ *)
Definition skey (e : sb) : N * list row := (fst e, b_rows (snd e)).
Definition InK (e : sb) (l : list sb) : Prop := In (skey e) (map skey l).

Lemma InK_intro e l : In e l -> InK e l.
Proof. intros H. unfold InK. apply in_map. exact H. Qed.

Lemma InK_elim e l : InK e l -> exists x, In x l /\ skey x = skey e.
Proof. unfold InK. intros H. apply in_map_iff in H. destruct H as (x & E & Hx). exists x; auto. Qed.

Lemma InK_app e l1 l2 : InK e (l1 ++ l2) <-> InK e l1 \/ InK e l2.
Proof. unfold InK. rewrite map_app, in_app_iff. tauto. Qed.

Lemma InK_key_eq e e' l : skey e = skey e' -> InK e l -> InK e' l.
Proof. unfold InK. intros E H. rewrite <- E. exact H. Qed.

Lemma sb_rows_in l x r : In x l -> In r (b_rows (snd x)) -> In r (sb_rows l).
Proof.
  unfold sb_rows, rows_of. intros Hx Hr. apply in_flat_map. exists (snd x). split; [|exact Hr].
  apply in_map. exact Hx.
Qed.

Lemma InK_rows e l r : InK e l -> In r (b_rows (snd e)) -> In r (sb_rows l).
Proof.
  intros H Hr. destruct (InK_elim _ _ H) as (x & Hx & E). unfold skey in E. inversion E as [[E1 E2]].
  apply (sb_rows_in l x r Hx). rewrite E2. exact Hr.
Qed.

(* ------------------------------------------------------------------ *)
(* strictly increasing sequence numbers; truncation                     *)
(* ------------------------------------------------------------------ *)
Fixpoint ssorted (l : list N) : Prop :=
  match l with [] => True | x :: r => (forall y, In y r -> x < y) /\ ssorted r end.

Lemma ssorted_app l1 l2 :
  ssorted (l1 ++ l2) <-> ssorted l1 /\ ssorted l2 /\ (forall x y, In x l1 -> In y l2 -> x < y).
Proof.
  induction l1 as [|a r IH]; simpl.
  - split; [intros H; repeat split; auto; intros x y []|intros (_ & H & _); exact H].
  - rewrite IH. split.
    + intros (Ha & H1 & H2 & H3). split; [split; [|exact H1]|split; [exact H2|]].
      * intros y Hy. apply Ha. apply in_or_app. left; exact Hy.
      * intros x y [E|Hx] Hy; [subst; apply Ha; apply in_or_app; right; exact Hy|apply H3; assumption].
    + intros ((Ha & H1) & H2 & H3). split; [|split; [exact H1|split; [exact H2|]]].
      * intros y Hy. apply in_app_or in Hy. destruct Hy as [Hy|Hy]; [apply Ha; exact Hy|apply H3; [left; reflexivity|exact Hy]].
      * intros x y Hx Hy. apply H3; [right; exact Hx|exact Hy].
Qed.

Definition seqs (l : list wentry) : list N := map we_seq l.
Definition wal_sorted (d : durable) : Prop := ssorted (seqs (wal_entries d)).

Lemma last_seq_max sg l : ssorted (seqs sg) -> last_seq sg = Some l -> forall x, In x sg -> we_seq x <= l.
Proof.
  induction sg as [|a r IH]; simpl; [discriminate|]. intros [Ha Hs] Hl x Hx.
  destruct r as [|b r'].
  - inversion Hl; subst. destruct Hx as [E|[]]. subst. lia.
  - destruct Hx as [E|Hx].
    + subst x. assert (Hb : we_seq a < l).
      { clear IH. assert (Hin : In l (seqs (b :: r'))).
        { clear - Hl. revert b Hl. induction r' as [|c r'' IH2]; intros b Hl; simpl in *.
          - inversion Hl. left; reflexivity.
          - right. apply (IH2 c). exact Hl. }
        apply Ha. exact Hin. }
      lia.
    + apply IH; assumption.
Qed.

Lemma last_seq_none sg : last_seq sg = None -> sg = [].
Proof. destruct sg as [|a r]; [reflexivity|]. simpl. revert a. induction r as [|b r' IH]; intros a; [discriminate|]. intros H. specialize (IH b H). discriminate. Qed.

Lemma trunc_keeps b segs : ssorted (seqs (concat segs)) ->
  forall x, In x (concat segs) -> b <= we_seq x -> In x (concat (trunc b segs)).
Proof.
  induction segs as [|sg r IH]; simpl; intros Hs x Hx Hb; [exact Hx|].
  unfold seqs in Hs. rewrite map_app in Hs. apply ssorted_app in Hs. destruct Hs as (Hs1 & Hs2 & Hs3).
  destruct (last_seq sg) as [l|] eqn:El.
  - destruct (l <? b) eqn:Elb.
    + apply N.ltb_lt in Elb. apply in_app_or in Hx. destruct Hx as [Hx|Hx].
      * pose proof (last_seq_max sg l Hs1 El x Hx). lia.
      * apply IH; assumption.
    + exact Hx.
  - apply last_seq_none in El. subst sg. simpl in *. apply IH; assumption.
Qed.

Lemma trunc_incl b segs x : In x (concat (trunc b segs)) -> In x (concat segs).
Proof.
  induction segs as [|sg r IH]; simpl; [auto|].
  destruct (last_seq sg) as [l|].
  - destruct (l <? b); [intros H; apply in_or_app; right; apply IH; exact H|auto].
  - simpl. intros H. apply in_app_or in H. apply in_or_app. destruct H; [left; assumption|right; apply IH; assumption].
Qed.

Lemma trunc_sorted b segs act : ssorted (seqs (concat segs ++ act)) -> ssorted (seqs (concat (trunc b segs) ++ act)).
Proof.
  induction segs as [|sg r IH]; simpl; [auto|]. intros Hs.
  assert (Hr : ssorted (seqs (concat r ++ act))).
  { unfold seqs in *. rewrite <- app_assoc, map_app in Hs. apply ssorted_app in Hs. tauto. }
  destruct (last_seq sg) as [l|].
  - destruct (l <? b); [apply IH; exact Hr|exact Hs].
  - simpl. unfold seqs in *. rewrite <- app_assoc, map_app in *. apply ssorted_app in Hs.
    destruct Hs as (H1 & H2 & H3). apply ssorted_app. split; [exact H1|]. split; [apply IH; exact Hr|].
    intros x y Hx Hy. apply H3; [exact Hx|]. rewrite in_map_iff in *. destruct Hy as (e & E & He).
    exists e. split; [exact E|]. apply in_app_or in He. apply in_or_app. destruct He as [He|He]; [left; eapply trunc_incl; eauto|right; exact He].
Qed.

(* ------------------------------------------------------------------ *)
(* volatile batches: L (may be acknowledged) and P (logged, not buffered) *)
(* ------------------------------------------------------------------ *)
Definition cont_rest (k : dcont) : list sb := match k with DRecover rest _ _ => rest | _ => [] end.
Definition cont_pend (k : dcont) : list sb := match k with DRetry e => [e] | _ => [] end.
Definition pc_L (p : dpc) : list sb :=
  match p with
  | QPut bs k | QReg bs k => bs ++ cont_rest k
  | QLoad k | QTrunc _ k | QPersist _ k | QFin k => cont_rest k
  | QScan rest _ _ => rest
  | _ => []
  end.
Definition pc_P (p : dpc) : list sb :=
  match p with
  | QSeq e | QLock e | QRelock e => [e]
  | QPut _ k | QReg _ k | QLoad k | QTrunc _ k | QPersist _ k | QFin k => cont_pend k
  | _ => []
  end.

Definition pcs (s : dstate) : list dpc := map dw_pc (ds_ws s) ++ [ds_tm s; ds_rec s].
Definition vL (v : volatile) : list sb := db_items (v_buf v) ++ v_dropped v.
Definition Lset (s : dstate) : list sb := vL (ds_v s) ++ flat_map pc_L (pcs s).
Definition Pset (s : dstate) : list sb := flat_map pc_P (pcs s).

Lemma pc_live_LP p x : In x (pc_live p) <-> In x (pc_L p) \/ In x (pc_P p).
Proof.
  destruct p; simpl; try tauto;
    try (destruct k; simpl; rewrite ?in_app_iff; simpl; tauto).
Qed.

Lemma flat_map_map {A B C} (f : B -> list C) (g : A -> B) l : flat_map f (map g l) = flat_map (fun x => f (g x)) l.
Proof. induction l as [|a r IH]; simpl; [reflexivity|]. rewrite IH. reflexivity. Qed.

Lemma in_flat_map_LP (l : list dpc) x :
  In x (flat_map pc_live l) <-> In x (flat_map pc_L l) \/ In x (flat_map pc_P l).
Proof.
  induction l as [|p r IH]; simpl; [tauto|]. rewrite !in_app_iff, IH, pc_live_LP. tauto.
Qed.

Lemma unsafe_LP s x : In x (unsafe_sbs s) <-> In x (Lset s) \/ In x (Pset s).
Proof.
  unfold unsafe_sbs, Lset, Pset, vL, pcs.
  rewrite !flat_map_app, !flat_map_map. simpl. rewrite !app_nil_r.
  rewrite !in_app_iff.
  assert (H1 := in_flat_map_LP (map dw_pc (ds_ws s)) x). rewrite !flat_map_map in H1.
  rewrite H1, !pc_live_LP. tauto.
Qed.

Lemma covers_false m l : covers m l = false -> forall x, In x l -> m < fst x.
Proof.
  unfold covers. intros H x Hx. destruct (fst x <=? m) eqn:E.
  - exfalso. rewrite (proj2 (existsb_exists _ l)) in H; [discriminate|]. exists x. split; [exact Hx|exact E].
  - apply N.leb_gt in E. exact E.
Qed.

Lemma classify_zero s : classify s = 0 ->
  forall x, In x (Lset s) \/ In x (Pset s) -> v_lws (ds_v s) < fst x.
Proof.
  unfold classify. intros H x Hx.
  destruct (covers (v_lws (ds_v s)) (v_dropped (ds_v s))); [discriminate|].
  destruct (covers (v_lws (ds_v s)) (unsafe_sbs s)) eqn:E; [discriminate|].
  apply (covers_false _ _ E). apply unsafe_LP. exact Hx.
Qed.

(* ------------------------------------------------------------------ *)
(* lists with one position updated                                      *)
(* ------------------------------------------------------------------ *)
Lemma upd_In_flat {A B} (f : A -> list B) l : forall i a a' x,
  nth_error l i = Some a -> In x (flat_map f (upd i a' l)) ->
  In x (f a') \/ (In x (flat_map f l)).
Proof.
  induction l as [|y r IH]; intros i a a' x Hn Hx; [destruct i; discriminate|].
  destruct i as [|j]; simpl in *.
  - inversion Hn; subst. apply in_app_or in Hx. destruct Hx; [left; assumption|right; apply in_or_app; right; assumption].
  - apply in_app_or in Hx. destruct Hx as [Hx|Hx]; [right; apply in_or_app; left; exact Hx|].
    destruct (IH j a a' x Hn Hx) as [H|H]; [left; exact H|right; apply in_or_app; right; exact H].
Qed.

(* membership in the flat_map after an update, split into the updated
   element and the untouched others *)
Definition others {A B} (f : A -> list B) (i : nat) (l : list A) : list B :=
  flat_map f (firstn i l) ++ flat_map f (skipn (S i) l).

Lemma flat_others {A B} (f : A -> list B) l : forall i a x,
  nth_error l i = Some a -> (In x (flat_map f l) <-> In x (f a) \/ In x (others f i l)).
Proof.
  unfold others. induction l as [|y r IH]; intros i a x Hn; [destruct i; discriminate|].
  destruct i as [|j]; simpl in *.
  - inversion Hn; subst. rewrite in_app_iff. tauto.
  - rewrite !in_app_iff, (IH j a x Hn), in_app_iff. tauto.
Qed.

Lemma nth_error_upd_same {A} (l : list A) : forall i a a', nth_error l i = Some a -> nth_error (upd i a' l) i = Some a'.
Proof. induction l as [|y r IH]; intros [|j] a a' H; simpl in *; try discriminate; auto. eapply IH; eauto. Qed.

Lemma others_upd {A B} (f : A -> list B) l : forall i a', others f i (upd i a' l) = others f i l.
Proof.
  unfold others. induction l as [|y r IH]; intros [|j] a'; simpl; auto.
  rewrite <- !app_assoc. f_equal. apply IH.
Qed.

Lemma Forall_upd_nth {A} (P : A -> Prop) l : forall i a', Forall P l -> P a' -> Forall P (upd i a' l).
Proof.
  induction l as [|y r IH]; intros [|j] a' HF Ha; simpl; auto; inversion HF; subst; constructor; auto.
Qed.

Lemma Forall_upd_inv {A} (P Q : A -> Prop) l : forall i a a',
  nth_error l i = Some a -> Forall P l -> (forall y, P y -> Q y) -> Q a' -> Forall Q (upd i a' l).
Proof.
  induction l as [|y r IH]; intros [|j] a a' Hn HF Himp Ha; simpl in *; try discriminate.
  - inversion HF; subst. constructor; [exact Ha|]. eapply Forall_impl; eauto.
  - inversion HF; subst. constructor; [auto|]. eapply IH; eauto.
Qed.

(* ------------------------------------------------------------------ *)
(* what one step of one thread does (local specification)               *)
(* ------------------------------------------------------------------ *)
Definition fresh_of (v : volatile) (p : dpc) (x : sb) : Prop :=
  exists r, p = QWal r /\ x = (v_next v, rq_b r).

Definition dur_change (d : durable) (v : volatile) (p : dpc) (d' : durable) (v' : volatile) : Prop :=
  (wal_entries d' = wal_entries d /\ d_flushed d' = d_flushed d /\ v_next v' = v_next v)
  \/ (exists r, p = QWal r
        /\ wal_entries d' = wal_entries d ++ [mkWe (v_next v) (rq_b r) (rq_len r) (rq_rsize r)]
        /\ d_flushed d' = d_flushed d /\ v_next v' = v_next v + 1)
  \/ (exists b, ((exists k, p = QTrunc b k) \/ (exists maxs fl0, p = QRFinish maxs fl0 /\ b = fl0 + 1))
        /\ d_segs d' = trunc b (d_segs d) /\ d_active d' = d_active d
        /\ d_flushed d' = d_flushed d /\ v_next v' = v_next v)
  \/ (exists m k, p = QPersist m k /\ wal_entries d' = wal_entries d /\ d_flushed d' = m
        /\ v_next v' = v_next v).

(* the threshold path's own batch is among the taken ones until they are
   registered, and in the catalog afterwards *)
Definition own_ok (d : durable) (p : dpc) : Prop :=
  match p with
  | QPut bs (DDone e) | QReg bs (DDone e) => In e bs
  | QLoad (DDone e) | QTrunc _ (DDone e) | QPersist _ (DDone e) | QFin (DDone e) => InK e (cat_sbs d)
  | _ => True
  end.

Definition after_reg (p : dpc) (e : sb) : Prop :=
  match p with
  | QLoad (DDone e') | QTrunc _ (DDone e') | QPersist _ (DDone e') | QFin (DDone e') => e' = e
  | _ => False
  end.

Record lspec (d : durable) (v : volatile) (p : dpc) (d' : durable) (v' : volatile) (p' : dpc) : Prop := {
  ls_origin : forall x, In x (vL v' ++ pc_L p' ++ pc_P p') ->
                        In x (vL v ++ pc_L p ++ pc_P p) \/ fresh_of v p x;
  ls_keep : forall x, In x (vL v ++ pc_L p) -> In x (vL v' ++ pc_L p') \/ In x (cat_sbs d');
  ls_cat : forall x, In x (cat_sbs d) -> In x (cat_sbs d');
  ls_dur : dur_change d v p d' v';
  ls_lws : v_lws v' = v_lws v \/ (exists e, p = QSeq e /\ v_lws v' = fst e)
           \/ (exists rest maxs fl0, (p = QScan rest maxs fl0 \/ p = QRFinish maxs fl0) /\ v_lws v' = maxs);
  ls_own : own_ok d p -> own_ok d' p';
  ls_fresh : forall x, fresh_of v p x -> InK x (wal_sbs d') /\ fst x = v_next v /\ d_flushed d' = d_flushed d;
  ls_trunc : forall m k, p' = QTrunc m k -> p = QLoad k /\ m = v_lws v;
  ls_persist : forall m k, p' = QPersist m k -> p = QTrunc m k
}.

Lemma cat_sbs_add d bs : cat_sbs (add_cat d bs) = cat_sbs d ++ bs.
Proof. unfold cat_sbs, add_cat; simpl. rewrite concat_app. simpl. rewrite app_nil_r. reflexivity. Qed.

Lemma dur_same d v p v' : v_next v' = v_next v -> dur_change d v p d v'.
Proof. intros H. left. auto. Qed.

Ltac inapp := repeat (rewrite ?in_app_iff in *; simpl in * ).

(* the pc a thread continues with after its flush produced r *)
Definition after_ok (r : dfres) (p' : dpc) : Prop :=
  match r with
  | GPc q => p' = q
  | GOk k => (forall x, In x (pc_L p') <-> In x (cont_rest k)) /\ (forall x, In x (pc_P p') -> In x (cont_pend k))
             /\ (forall d, own_ok d p') /\ (forall m k', p' <> QTrunc m k') /\ (forall m k', p' <> QPersist m k')
  | GErr k => cont_rest k = [] /\ pc_L p' = [] /\ (forall x, In x (pc_P p') -> In x (cont_pend k))
              /\ (forall d, own_ok d p') /\ (forall m k', p' <> QTrunc m k') /\ (forall m k', p' <> QPersist m k')
  end.


Ltac split_in :=
  repeat match goal with
         | H : _ \/ _ |- _ => destruct H
         | H : False |- _ => destruct H
         end.

Ltac nofresh :=
  try solve [match goal with H : fresh_of _ _ _ |- _ => destruct H as (? & ? & ?); discriminate end].

Ltac lfin :=
  try discriminate; nofresh; auto using dur_same;
  try solve [unfold vL in *; inapp; tauto];
  try solve [exfalso; match goal with Ht : forall m k', ?p <> QTrunc m k', E : ?p = QTrunc _ _ |- _ => eapply Ht; exact E end];
  try solve [exfalso; match goal with Ht : forall m k', ?p <> QPersist m k', E : ?p = QPersist _ _ |- _ => eapply Ht; exact E end];
  try solve [unfold vL in *; inapp; split_in;
             repeat match goal with
                    | HP : forall x, In x (pc_P ?p) -> _, H : In _ (pc_P ?p) |- _ => apply HP in H
                    | HL : forall x, In x (pc_L ?p) <-> _, H : In _ (pc_L ?p) |- _ => apply HL in H
                    end; simpl in *; tauto];
  try solve [unfold vL in *; inapp; split_in; auto;
             match goal with HL : forall x, In x (pc_L ?p) <-> _ |- _ => rewrite HL; tauto end];
  try solve [left; simpl; auto];
  try solve [match goal with E : _ = _ |- _ => inversion E; subst; auto end];
  try solve [match goal with k : dcont |- _ => destruct k; simpl in *; auto; apply InK_app; right; apply InK_intro; assumption end];
  try solve [match goal with k : dcont |- _ => destruct k; simpl in *; auto; apply InK_app; left; assumption end].

Lemma flush_lspec hw f d v p d' v' r p' :
  dflush_step hw f d v p = Some (d', v', r) -> after_ok r p' -> lspec d v p d' v' p'.
Proof.
  intros H Ha. destruct p; simpl in H; try discriminate.
  - (* QPut *)
    destruct f; inversion H; subst; clear H; simpl in Ha.
    + subst p'. constructor; simpl; intros; lfin.
    + destruct Ha as (Hr & HL & HP & Ho & Ht & Hp).
      constructor; simpl; intros; rewrite ?Hr, ?HL in *; lfin.
    + destruct Ha as (Hr & HL & HP & Ho & Ht & Hp).
      constructor; simpl; intros; rewrite ?Hr, ?HL in *; lfin.
  - (* QReg *)
    destruct f; inversion H; subst; clear H; simpl in Ha.
    + subst p'. constructor; simpl; intros; rewrite ?cat_sbs_add in *; lfin.
    + destruct Ha as (Hr & HL & HP & Ho & Ht & Hp).
      constructor; simpl; intros; rewrite ?Hr, ?HL, ?cat_sbs_add in *; lfin.
    + destruct Ha as (Hr & HL & HP & Ho & Ht & Hp).
      constructor; simpl; intros; rewrite ?Hr, ?HL, ?cat_sbs_add in *; lfin.
  - (* QLoad *)
    inversion H; subst; clear H; simpl in Ha. subst p'.
    constructor; simpl; intros; lfin.
  - (* QTrunc *)
    destruct (0 <? s) eqn:Es; inversion H; subst; clear H; simpl in Ha.
    + subst p'. constructor; simpl; intros; destruct hw; lfin.
      right; right; left. exists s. split; [left; eauto|]. simpl. auto.
    + destruct Ha as (HL & HP & Ho & Ht & Hp).
      constructor; simpl; intros; lfin.
  - (* QPersist *)
    inversion H; subst; clear H; simpl in Ha. subst p'.
    constructor; simpl; intros; lfin.
    right; right; right. exists s, k. simpl. auto.
  - (* QFin *)
    inversion H; subst; clear H; simpl in Ha. destruct Ha as (HL & HP & Ho & Ht & Hp).
    constructor; simpl; intros; lfin.
Qed.

(* which continuations each kind of thread can carry *)
Definition pc_cont (p : dpc) : option dcont :=
  match p with
  | QPut _ k | QReg _ k | QLoad k | QTrunc _ k | QPersist _ k | QFin k => Some k
  | _ => None
  end.
Definition wkind (p : dpc) : Prop :=
  match p with
  | QCheck | QTake | QShutTake | QStopped | QScan _ _ _ | QRFinish _ _ => False
  | _ => match pc_cont p with Some (DRetry _) | Some (DDone _) | None => True | _ => False end
  end.
Definition tkind (p : dpc) : Prop :=
  match p with
  | QWal _ | QSeq _ | QLock _ | QRelock _ | QScan _ _ _ | QRFinish _ _ => False
  | _ => match pc_cont p with Some DTimer | Some DShutK | None => True | _ => False end
  end.
Definition rkind (p : dpc) : Prop :=
  match p with
  | QWal _ | QSeq _ | QLock _ | QRelock _ | QCheck | QTake | QShutTake | QStopped => False
  | _ => match pc_cont p with Some (DRecover _ _ _) | None => True | _ => False end
  end.

Lemma lspec_idle d v p' : pc_L p' = [] -> pc_P p' = [] -> (forall d0, own_ok d0 p') ->
  (forall m k, p' <> QTrunc m k) -> (forall m k, p' <> QPersist m k) ->
  forall p, pc_L p = [] -> pc_P p = [] -> (forall r, p <> QWal r) -> lspec d v p d v p'.
Proof.
  intros HL HP Ho Ht Hp p HL0 HP0 Hnw.
  constructor; intros; rewrite ?HL, ?HP, ?HL0, ?HP0 in *; auto using dur_same.
  - destruct H as (r & E & _). exfalso. eapply Hnw; eauto.
  - exfalso; eapply Ht; eauto.
  - exfalso; eapply Hp; eauto.
Qed.

Lemma wal_entries_append c d v r d' v' e :
  wal_append c d v r = (d', v', e) ->
  wal_entries d' = wal_entries d ++ [mkWe (v_next v) (rq_b r) (rq_len r) (rq_rsize r)]
  /\ d_flushed d' = d_flushed d /\ d_cat d' = d_cat d /\ v_next v' = v_next v + 1
  /\ v_buf v' = v_buf v /\ v_dropped v' = v_dropped v /\ v_lws v' = v_lws v /\ e = (v_next v, rq_b r).
Proof.
  unfold wal_append. intros H. inversion H; subst; clear H. unfold wal_entries; simpl.
  repeat split.
  destruct ((0 <? dc_max_seg c) && (dc_max_seg c <? v_size v + entry_size (mkWe (v_next v) (rq_b r) (rq_len r) (rq_rsize r)))).
  - rewrite concat_app. simpl. rewrite app_nil_r, <- app_assoc. reflexivity.
  - rewrite <- app_assoc. reflexivity.
Qed.

Definition res_change (w w' : dwthread) (v' : volatile) : Prop :=
  dw_res w' = dw_res w \/
  exists e r, dw_res w' = dw_res w ++ [(e, r)] /\
              (r = ROk -> b_rows (snd e) = [] \/ In e (db_items (v_buf v')) \/ after_reg (dw_pc w) e).

Definition res_kind_w (r : dfres) : Prop :=
  match r with
  | GPc p => wkind p
  | GOk (DRetry _) | GOk (DDone _) | GErr (DRetry _) | GErr (DDone _) => True
  | _ => False
  end.

Lemma dw_after_ok r w : res_kind_w r -> after_ok r (dw_pc (dw_after r w)) /\ wkind (dw_pc (dw_after r w)).
Proof.
  destruct r as [q|k|k]; simpl; intros Hk.
  - split; [reflexivity|exact Hk].
  - destruct k; simpl in *; try contradiction; (split; [|exact I]); repeat split; intros; simpl in *; try tauto; try discriminate.
  - destruct k; simpl in *; try contradiction; (split; [|exact I]); repeat split; intros; simpl in *; try tauto; try discriminate.
Qed.

Lemma flush_res_kind_w hw f d v p d' v' r :
  dflush_step hw f d v p = Some (d', v', r) -> wkind p -> res_kind_w r.
Proof.
  unfold wkind. destruct p; simpl; try discriminate; intros H Hk;
    try (destruct f); try (destruct (0 <? s)); inversion H; subst; simpl; unfold wkind; simpl;
    destruct k; simpl in *; auto.
Qed.

Lemma dbegin_snoc l e k : dbegin_flush (l ++ [e]) k = GPc (QPut (l ++ [e]) k).
Proof. destruct l; reflexivity. Qed.

Lemma lspec_noop d v p : (forall m k, p <> QTrunc m k) -> (forall m k, p <> QPersist m k) ->
  (forall r, p <> QWal r) -> lspec d v p d v p.
Proof.
  intros Ht Hp Hnw. constructor; intros; auto using dur_same.
  - destruct H as (r & E & _). exfalso. eapply Hnw; eauto.
  - exfalso; eapply Ht; eauto.
  - exfalso; eapply Hp; eauto.
Qed.

Lemma dw_after_res hw f d v w d' v' r :
  dflush_step hw f d v (dw_pc w) = Some (d', v', r) -> wkind (dw_pc w) ->
  res_change w (dw_after r w) v'.
Proof.
  unfold res_change, wkind. destruct (dw_pc w) eqn:Hpc; simpl; try discriminate; intros H Hk;
    try destruct f; try destruct (0 <? s); inversion H; subst; clear H; simpl; auto;
    destruct k; simpl in *; try contradiction; auto;
    right; eexists; eexists; (split; [reflexivity|]); intros E; try discriminate; right; right; reflexivity.
Qed.

Lemma dwstep_spec c f d v w d' v' w' :
  dwstep c f d v w = (d', v', w') -> wkind (dw_pc w) ->
  lspec d v (dw_pc w) d' v' (dw_pc w') /\ wkind (dw_pc w') /\ res_change w w' v'.
Proof.
  unfold dwstep, res_change. intros H Hk. destruct (dw_pc w) eqn:Hpc.
  - (* QIdle *)
    destruct (dw_todo w) as [|r rest].
    + inversion H; subst. rewrite Hpc. split; [|split; [exact I|left; reflexivity]].
      apply lspec_idle; intros; auto; try discriminate; simpl; auto.
    + destruct (b_rows (rq_b r)) eqn:Hr; inversion H; subst; simpl.
      * split; [|split; [exact I|]].
        -- apply lspec_idle; intros; auto; try discriminate; simpl; auto.
        -- right. exists (0, rq_b r), ROk. split; [reflexivity|]. intros _. left. exact Hr.
      * split; [|split; [exact I|left; reflexivity]].
        apply lspec_idle; intros; auto; try discriminate; simpl; auto.
  - (* QWal *)
    destruct (wal_append c d v r) as [[d1 v1] e] eqn:Ea. inversion H; subst; clear H. simpl.
    destruct (wal_entries_append _ _ _ _ _ _ _ Ea) as (E1 & E2 & E3 & E4 & E5 & E6 & E7 & E8).
    split; [|split; [exact I|left; reflexivity]].
    constructor; simpl; intros; try discriminate; auto.
    + unfold vL in *. rewrite E5, E6 in *. inapp. destruct H as [H|[H|[]]]; auto.
      right. exists r. split; [reflexivity|]. rewrite <- H. exact E8.
    + unfold vL in *. rewrite E5, E6. auto.
    + unfold cat_sbs in *. rewrite E3. exact H.
    + right; left. exists r. auto.
    + destruct H as (r0 & Er & Ex). inversion Er; subst r0. split; [|split; [rewrite Ex; reflexivity|exact E2]].
      unfold wal_sbs. rewrite E1, map_app. apply InK_app. right. rewrite Ex. unfold InK, skey. simpl. left. reflexivity.
  - (* QSeq *)
    inversion H; subst; clear H. simpl. split; [|split; [exact I|left; reflexivity]].
    constructor; simpl; intros; try discriminate; nofresh; auto using dur_same.
    right; left. exists e. auto.
  - (* QLock *)
    destruct (negb (db_compatible (v_buf v) e)).
    + inversion H; subst; clear H.
      destruct (dw_after_ok (dbegin_flush (db_items (v_buf v)) (DRetry e)) w) as [Ha Hk'].
      { destruct (db_items (v_buf v)); simpl; exact I. }
      split; [|split; [exact Hk'|]].
      * destruct (db_items (v_buf v)) as [|x0 r0] eqn:Ei; simpl in *;
          constructor; unfold vL; simpl; intros; rewrite ?Ei in *; try discriminate; nofresh; auto using dur_same; inapp; tauto.
      * left. destruct (db_items (v_buf v)); reflexivity.
    + destruct (cf_max_bytes (dc_c c) <? db_bytes (v_buf v) + b_size (snd e)).
      * inversion H; subst; clear H. simpl. split; [|split; [exact I|]].
        -- constructor; unfold vL; simpl; intros; try discriminate; nofresh; auto using dur_same; inapp; tauto.
        -- right. exists e, RFull. split; [reflexivity|discriminate].
      * destruct (db_should_flush (dc_c c) (db_append (v_buf v) e)).
        -- cbn [db_items db_append] in H. rewrite dbegin_snoc in H. inversion H; subst; clear H. simpl.
           split; [|split; [exact I|left; reflexivity]].
           constructor; unfold vL; simpl; intros; try discriminate; nofresh; auto using dur_same.
           ++ inapp. tauto.
           ++ inapp. tauto.
           ++ apply in_or_app. right. left. reflexivity.
        -- inversion H; subst; clear H. simpl. split; [|split; [exact I|]].
           ++ constructor; unfold vL; simpl; intros; try discriminate; nofresh; auto using dur_same; inapp; tauto.
           ++ right. exists e, ROk. split; [reflexivity|]. intros _. right. left. apply in_or_app. right. left. reflexivity.
  - (* QRelock *)
    destruct (negb (db_compatible (v_buf v) e)).
    + inversion H; subst; clear H.
      destruct (dw_after_ok (dbegin_flush (db_items (v_buf v)) (DRetry e)) w) as [Ha Hk'].
      { destruct (db_items (v_buf v)); simpl; exact I. }
      split; [|split; [exact Hk'|]].
      * destruct (db_items (v_buf v)) as [|x0 r0] eqn:Ei; simpl in *;
          constructor; unfold vL; simpl; intros; rewrite ?Ei in *; try discriminate; nofresh; auto using dur_same; inapp; tauto.
      * left. destruct (db_items (v_buf v)); reflexivity.
    + destruct (cf_max_bytes (dc_c c) <? db_bytes (v_buf v) + b_size (snd e)).
      * inversion H; subst; clear H. simpl. split; [|split; [exact I|]].
        -- constructor; unfold vL; simpl; intros; try discriminate; nofresh; auto using dur_same; inapp; tauto.
        -- right. exists e, RFull. split; [reflexivity|discriminate].
      * destruct (db_should_flush (dc_c c) (db_append (v_buf v) e)).
        -- cbn [db_items db_append] in H. rewrite dbegin_snoc in H. inversion H; subst; clear H. simpl.
           split; [|split; [exact I|left; reflexivity]].
           constructor; unfold vL; simpl; intros; try discriminate; nofresh; auto using dur_same.
           ++ inapp. tauto.
           ++ inapp. tauto.
           ++ apply in_or_app. right. left. reflexivity.
        -- inversion H; subst; clear H. simpl. split; [|split; [exact I|]].
           ++ constructor; unfold vL; simpl; intros; try discriminate; nofresh; auto using dur_same; inapp; tauto.
           ++ right. exists e, ROk. split; [reflexivity|]. intros _. right. left. apply in_or_app. right. left. reflexivity.
  - (* QPut *)
    match type of H with match ?X with _ => _ end = _ => destruct X as [[[d1 v1] r]|] eqn:Ef end;
      [|simpl in Ef; try destruct f; try destruct (0 <? s); discriminate].
    inversion H; subst; clear H.
    pose proof (flush_res_kind_w _ _ _ _ _ _ _ _ Ef Hk) as Hr.
    destruct (dw_after_ok r w Hr) as [Ha Hk'].
    split; [eapply flush_lspec; eauto|split; [exact Hk'|]].
    rewrite <- Hpc in Ef |- *. eapply dw_after_res; [exact Ef|rewrite Hpc; exact Hk].
  - (* QReg *)
    match type of H with match ?X with _ => _ end = _ => destruct X as [[[d1 v1] r]|] eqn:Ef end;
      [|simpl in Ef; try destruct f; try destruct (0 <? s); discriminate].
    inversion H; subst; clear H.
    pose proof (flush_res_kind_w _ _ _ _ _ _ _ _ Ef Hk) as Hr.
    destruct (dw_after_ok r w Hr) as [Ha Hk'].
    split; [eapply flush_lspec; eauto|split; [exact Hk'|]].
    rewrite <- Hpc in Ef |- *. eapply dw_after_res; [exact Ef|rewrite Hpc; exact Hk].
  - (* QLoad *)
    match type of H with match ?X with _ => _ end = _ => destruct X as [[[d1 v1] r]|] eqn:Ef end;
      [|simpl in Ef; try destruct f; try destruct (0 <? s); discriminate].
    inversion H; subst; clear H.
    pose proof (flush_res_kind_w _ _ _ _ _ _ _ _ Ef Hk) as Hr.
    destruct (dw_after_ok r w Hr) as [Ha Hk'].
    split; [eapply flush_lspec; eauto|split; [exact Hk'|]].
    rewrite <- Hpc in Ef |- *. eapply dw_after_res; [exact Ef|rewrite Hpc; exact Hk].
  - (* QTrunc *)
    match type of H with match ?X with _ => _ end = _ => destruct X as [[[d1 v1] r]|] eqn:Ef end;
      [|simpl in Ef; try destruct f; try destruct (0 <? s); discriminate].
    inversion H; subst; clear H.
    pose proof (flush_res_kind_w _ _ _ _ _ _ _ _ Ef Hk) as Hr.
    destruct (dw_after_ok r w Hr) as [Ha Hk'].
    split; [eapply flush_lspec; eauto|split; [exact Hk'|]].
    rewrite <- Hpc in Ef |- *. eapply dw_after_res; [exact Ef|rewrite Hpc; exact Hk].
  - (* QPersist *)
    match type of H with match ?X with _ => _ end = _ => destruct X as [[[d1 v1] r]|] eqn:Ef end;
      [|simpl in Ef; try destruct f; try destruct (0 <? s); discriminate].
    inversion H; subst; clear H.
    pose proof (flush_res_kind_w _ _ _ _ _ _ _ _ Ef Hk) as Hr.
    destruct (dw_after_ok r w Hr) as [Ha Hk'].
    split; [eapply flush_lspec; eauto|split; [exact Hk'|]].
    rewrite <- Hpc in Ef |- *. eapply dw_after_res; [exact Ef|rewrite Hpc; exact Hk].
  - (* QFin *)
    match type of H with match ?X with _ => _ end = _ => destruct X as [[[d1 v1] r]|] eqn:Ef end;
      [|simpl in Ef; try destruct f; try destruct (0 <? s); discriminate].
    inversion H; subst; clear H.
    pose proof (flush_res_kind_w _ _ _ _ _ _ _ _ Ef Hk) as Hr.
    destruct (dw_after_ok r w Hr) as [Ha Hk'].
    split; [eapply flush_lspec; eauto|split; [exact Hk'|]].
    rewrite <- Hpc in Ef |- *. eapply dw_after_res; [exact Ef|rewrite Hpc; exact Hk].
  - (* QCheck *)
    simpl in H. inversion H; subst; clear H. rewrite Hpc.
    split; [|split; [exact Hk|left; reflexivity]].
    apply lspec_noop; intros; discriminate.
  - (* QTake *)
    simpl in H. inversion H; subst; clear H. rewrite Hpc.
    split; [|split; [exact Hk|left; reflexivity]].
    apply lspec_noop; intros; discriminate.
  - (* QShutTake *)
    simpl in H. inversion H; subst; clear H. rewrite Hpc.
    split; [|split; [exact Hk|left; reflexivity]].
    apply lspec_noop; intros; discriminate.
  - (* QStopped *)
    simpl in H. inversion H; subst; clear H. rewrite Hpc.
    split; [|split; [exact Hk|left; reflexivity]].
    apply lspec_noop; intros; discriminate.
  - (* QScan *)
    simpl in H. inversion H; subst; clear H. rewrite Hpc.
    split; [|split; [exact Hk|left; reflexivity]].
    apply lspec_noop; intros; discriminate.
  - (* QRFinish *)
    simpl in H. inversion H; subst; clear H. rewrite Hpc.
    split; [|split; [exact Hk|left; reflexivity]].
    apply lspec_noop; intros; discriminate.
Qed.

(* ---------------- timer ---------------- *)
Definition res_kind_t (r : dfres) : Prop :=
  match r with
  | GPc p => tkind p
  | GOk DTimer | GOk DShutK | GErr DTimer | GErr DShutK => True
  | _ => False
  end.

Lemma dt_after_ok r : res_kind_t r -> after_ok r (dt_after r) /\ tkind (dt_after r).
Proof.
  destruct r as [q|k|k]; simpl; intros Hk.
  - split; [reflexivity|exact Hk].
  - destruct k; simpl in *; try contradiction; (split; [|exact I]); repeat split; intros; simpl in *; try tauto; try discriminate.
  - destruct k; simpl in *; try contradiction; (split; [|exact I]); repeat split; intros; simpl in *; try tauto; try discriminate.
Qed.

Lemma flush_res_kind_t hw f d v p d' v' r :
  dflush_step hw f d v p = Some (d', v', r) -> tkind p -> res_kind_t r.
Proof.
  unfold tkind. destruct p; simpl; try discriminate; intros H Hk;
    try (destruct f); try (destruct (0 <? s)); inversion H; subst; simpl; unfold tkind; simpl;
    destruct k; simpl in *; auto.
Qed.

Lemma dtstep_spec shut f d v p d' v' p' :
  dtstep shut f d v p = (d', v', p') -> tkind p -> lspec d v p d' v' p' /\ tkind p'.
Proof.
  unfold dtstep. intros H Hk.
  assert (Hflush : forall d1 v1 r, dflush_step true f d v p = Some (d1, v1, r) ->
                   (d1, v1, dt_after r) = (d', v', p') -> lspec d v p d' v' p' /\ tkind p').
  { intros d1 v1 r Ef E. inversion E; subst; clear E.
    pose proof (flush_res_kind_t _ _ _ _ _ _ _ _ Ef Hk) as Hr.
    destruct (dt_after_ok r Hr) as [Ha Hk']. split; [eapply flush_lspec; eauto|exact Hk']. }
  assert (Hnoop : (forall m k, p <> QTrunc m k) -> (forall m k, p <> QPersist m k) ->
                  (d, v, p) = (d', v', p') -> lspec d v p d' v' p' /\ tkind p').
  { intros H1 H2 E. inversion E; subst. split; [apply lspec_noop; try assumption; intros r0 E0; subst; simpl in Hk; contradiction|exact Hk]. }
  destruct p.
  - (* QIdle *)
    destruct shut; inversion H; subst; (split; [|exact I]);
      apply lspec_idle; intros; auto; try discriminate; simpl; auto.
  - apply Hnoop; [intros; discriminate|intros; discriminate|exact H].
  - apply Hnoop; [intros; discriminate|intros; discriminate|exact H].
  - apply Hnoop; [intros; discriminate|intros; discriminate|exact H].
  - apply Hnoop; [intros; discriminate|intros; discriminate|exact H].
  - destruct (dflush_step true f d v (QPut bs k)) as [[[d1 v1] r]|] eqn:Ef; [eapply Hflush; eauto|destruct f; discriminate].
  - destruct (dflush_step true f d v (QReg bs k)) as [[[d1 v1] r]|] eqn:Ef; [eapply Hflush; eauto|destruct f; discriminate].
  - destruct (dflush_step true f d v (QLoad k)) as [[[d1 v1] r]|] eqn:Ef; [eapply Hflush; eauto|discriminate].
  - destruct (dflush_step true f d v (QTrunc s k)) as [[[d1 v1] r]|] eqn:Ef; [eapply Hflush; eauto|simpl in Ef; destruct (0 <? s); discriminate].
  - destruct (dflush_step true f d v (QPersist s k)) as [[[d1 v1] r]|] eqn:Ef; [eapply Hflush; eauto|discriminate].
  - destruct (dflush_step true f d v (QFin k)) as [[[d1 v1] r]|] eqn:Ef; [eapply Hflush; eauto|discriminate].
  - (* QCheck *)
    destruct (negb (db_is_empty (v_buf v))); inversion H; subst; (split; [|exact I]);
      apply lspec_idle; intros; auto; try discriminate; simpl; auto.
  - (* QTake *)
    inversion H; subst; clear H.
    destruct (db_items (v_buf v)) as [|x0 r0] eqn:Ei; simpl; (split; [|exact I]);
      constructor; unfold vL; simpl; intros; rewrite ?Ei in *; try discriminate; nofresh; auto using dur_same; inapp; tauto.
  - (* QShutTake *)
    inversion H; subst; clear H.
    destruct (db_items (v_buf v)) as [|x0 r0] eqn:Ei; simpl; (split; [|exact I]);
      constructor; unfold vL; simpl; intros; rewrite ?Ei in *; try discriminate; nofresh; auto using dur_same; inapp; tauto.
  - (* QStopped *)
    inversion H; subst. split; [|exact I]. apply lspec_noop; intros; discriminate.
  - apply Hnoop; [intros; discriminate|intros; discriminate|exact H].
  - apply Hnoop; [intros; discriminate|intros; discriminate|exact H].
Qed.

(* ---------------- ensure_wal ---------------- *)
Definition res_kind_r (r : dfres) : Prop :=
  match r with
  | GPc p => rkind p
  | GOk (DRecover _ _ _) | GErr (DRecover _ _ _) => True
  | _ => False
  end.

Lemma flush_res_kind_r hw f d v p d' v' r :
  dflush_step hw f d v p = Some (d', v', r) -> rkind p -> res_kind_r r.
Proof.
  unfold rkind. destruct p; simpl; try discriminate; intros H Hk;
    try (destruct f); try (destruct (0 <? s)); inversion H; subst; simpl; unfold rkind; simpl;
    destruct k; simpl in *; auto.
Qed.

Lemma dr_after_ok r p' : res_kind_r r -> dr_after r = RPc p' -> after_ok r p' /\ rkind p'.
Proof.
  destruct r as [q|k|k]; simpl; intros Hk E.
  - inversion E; subst. split; [reflexivity|exact Hk].
  - destruct k; simpl in *; try contradiction. inversion E; subst. simpl.
    split; [|exact I]. repeat split; intros; simpl in *; try tauto; try discriminate.
  - discriminate.
Qed.

Lemma dr_after_not_up r : dr_after r <> RUp.
Proof. destruct r as [q|k|k]; simpl; try discriminate; destruct k; discriminate. Qed.

Lemma drstep_spec f d v p d' v' rr :
  drstep f d v p = (d', v', rr) -> rkind p ->
  match rr with
  | RPc p' => lspec d v p d' v' p' /\ rkind p'
  | RUp => lspec d v p d' v' QIdle
  | RFail => True
  end.
Proof.
  unfold drstep. intros H Hk.
  assert (Hflush : forall d1 v1 r, dflush_step false f d v p = Some (d1, v1, r) ->
                   (d1, v1, dr_after r) = (d', v', rr) ->
                   match rr with RPc p' => lspec d v p d' v' p' /\ rkind p' | RUp => lspec d v p d' v' QIdle | RFail => True end).
  { intros d1 v1 r Ef E. inversion E; subst; clear E.
    pose proof (flush_res_kind_r _ _ _ _ _ _ _ _ Ef Hk) as Hr.
    destruct (dr_after r) as [p'| |] eqn:Er; [|exfalso; eapply dr_after_not_up; eauto|exact I].
    destruct (dr_after_ok r p' Hr Er) as [Ha Hk']. split; [eapply flush_lspec; eauto|exact Hk']. }
  assert (Hnoop : (forall m k, p <> QTrunc m k) -> (forall m k, p <> QPersist m k) ->
                  (d, v, RPc p) = (d', v', rr) ->
                  match rr with RPc p' => lspec d v p d' v' p' /\ rkind p' | RUp => lspec d v p d' v' QIdle | RFail => True end).
  { intros H1 H2 E. inversion E; subst. split; [apply lspec_noop; try assumption; intros r0 E0; subst; simpl in Hk; contradiction|exact Hk]. }
  destruct p.
  - apply Hnoop; [intros; discriminate|intros; discriminate|exact H].
  - apply Hnoop; [intros; discriminate|intros; discriminate|exact H].
  - apply Hnoop; [intros; discriminate|intros; discriminate|exact H].
  - apply Hnoop; [intros; discriminate|intros; discriminate|exact H].
  - apply Hnoop; [intros; discriminate|intros; discriminate|exact H].
  - destruct (dflush_step false f d v (QPut bs k)) as [[[d1 v1] r]|] eqn:Ef; [eapply Hflush; eauto|destruct f; discriminate].
  - destruct (dflush_step false f d v (QReg bs k)) as [[[d1 v1] r]|] eqn:Ef; [eapply Hflush; eauto|destruct f; discriminate].
  - destruct (dflush_step false f d v (QLoad k)) as [[[d1 v1] r]|] eqn:Ef; [eapply Hflush; eauto|discriminate].
  - destruct (dflush_step false f d v (QTrunc s k)) as [[[d1 v1] r]|] eqn:Ef; [eapply Hflush; eauto|simpl in Ef; destruct (0 <? s); discriminate].
  - destruct (dflush_step false f d v (QPersist s k)) as [[[d1 v1] r]|] eqn:Ef; [eapply Hflush; eauto|discriminate].
  - destruct (dflush_step false f d v (QFin k)) as [[[d1 v1] r]|] eqn:Ef; [eapply Hflush; eauto|discriminate].
  - apply Hnoop; [intros; discriminate|intros; discriminate|exact H].
  - apply Hnoop; [intros; discriminate|intros; discriminate|exact H].
  - apply Hnoop; [intros; discriminate|intros; discriminate|exact H].
  - apply Hnoop; [intros; discriminate|intros; discriminate|exact H].
  - (* QScan *)
    destruct rest as [|e r0].
    + inversion H; subst; clear H. split; [|exact I].
      constructor; unfold vL; simpl; intros; try discriminate; nofresh; auto using dur_same; inapp; tauto.
    + destruct (db_compatible (v_buf v) e).
      * inversion H; subst; clear H. split; [|exact I].
        constructor; unfold vL; simpl; intros; try discriminate; nofresh; auto using dur_same; inapp; tauto.
      * destruct (db_items (v_buf v)) as [|x0 r1] eqn:Ei; simpl in H; inversion H; subst; clear H; (split; [|exact I]);
          constructor; unfold vL; simpl; intros; rewrite ?Ei in *; try discriminate; nofresh; auto using dur_same;
          try solve [inapp; tauto];
          try solve [right; right; exists (e :: r0), maxs, fl0; auto].
  - (* QRFinish *)
    inversion H; subst; clear H Hnoop Hflush.
    destruct (0 <? fl0) eqn:E0; destruct (fl0 <? maxs) eqn:E1;
      constructor; unfold vL; simpl; intros; try discriminate; nofresh; auto using dur_same;
      try solve [right; right; exists [], maxs, fl0; auto];
      try solve [right; right; left; exists (fl0 + 1); split; [right; eauto|simpl; auto]].
Qed.

(* bounds carried by ensure_wal *)
Definition rec_ok (d : durable) (v : volatile) (p : dpc) : Prop :=
  match p with
  | QScan _ maxs fl0 | QRFinish maxs fl0 => fl0 <= maxs /\ fl0 <= d_flushed d /\ maxs < v_next v
  | QPut _ (DRecover _ maxs fl0) | QReg _ (DRecover _ maxs fl0) | QLoad (DRecover _ maxs fl0) =>
      fl0 <= v_lws v /\ fl0 <= maxs /\ fl0 <= d_flushed d /\ maxs < v_next v
  | QTrunc m (DRecover _ maxs fl0) | QPersist m (DRecover _ maxs fl0) =>
      fl0 <= m /\ fl0 <= maxs /\ fl0 <= d_flushed d /\ maxs < v_next v
  | QFin (DRecover _ maxs fl0) => fl0 <= maxs /\ fl0 <= d_flushed d /\ maxs < v_next v
  | _ => True
  end.

Lemma drstep_rec_ok f d v p d' v' p' :
  drstep f d v p = (d', v', RPc p') -> rkind p -> rec_ok d v p ->
  (forall x, In x (pc_L p) -> fst x < v_next v) -> rec_ok d' v' p'.
Proof.
  unfold drstep. intros H Hk Hr Hb.
  destruct p; simpl in H; try (inversion H; subst; exact Hr);
    try (unfold rkind in Hk; simpl in Hk; destruct k; try contradiction).
  - (* QPut *) destruct f; inversion H; subst; simpl in *; tauto.
  - (* QReg *) destruct f; inversion H; subst; simpl in *; tauto.
  - (* QTrunc *)
    destruct (0 <? s); inversion H; subst; simpl in *; tauto.
  - (* QPersist *) inversion H; subst. simpl in *. tauto.
  - (* QFin *) inversion H; subst. simpl in *. tauto.
  - (* QScan *)
    destruct rest as [|e r0]; [inversion H; subst; simpl in *; lia|].
    destruct (db_compatible (v_buf v) e).
    + inversion H; subst. simpl in *. pose proof (Hb e (or_introl eq_refl)). lia.
    + destruct (db_items (v_buf v)); simpl in H; inversion H; subst; simpl in *; repeat split; try tauto; lia.
Qed.

(* ------------------------------------------------------------------ *)
(* the invariant                                                        *)
(* ------------------------------------------------------------------ *)
Definition clean_ok (s : dstate) (p : dpc) : Prop :=
  match p with
  | QTrunc m _ | QPersist m _ =>
      m < v_next (ds_v s) /\ forall x, In x (Lset s) \/ In x (Pset s) -> m < fst x
  | _ => True
  end.

Definition acked_ok (s : dstate) : Prop :=
  forall e, In e (acked_sbs s) -> b_rows (snd e) <> [] ->
  InK e (cat_sbs (ds_d s)) \/
  match ds_mode s with
  | MDown => InK e (wal_sbs (ds_d s)) /\ d_flushed (ds_d s) < fst e
  | _ => InK e (Lset s)
  end.

Record inv (s : dstate) : Prop := {
  i_sorted : wal_sorted (ds_d s);
  i_next : ds_mode s <> MDown ->
           (forall x, In x (wal_entries (ds_d s)) -> we_seq x < v_next (ds_v s))
           /\ v_lws (ds_v s) < v_next (ds_v s) /\ d_flushed (ds_d s) < v_next (ds_v s);
  i_live : forall x, In x (Lset s) \/ In x (Pset s) ->
           InK x (wal_sbs (ds_d s)) /\ d_flushed (ds_d s) < fst x;
  i_acked : acked_ok s;
  i_clean : Forall (clean_ok s) (pcs s);
  i_own : Forall (own_ok (ds_d s)) (pcs s);
  i_kinds : Forall wkind (map dw_pc (ds_ws s)) /\ tkind (ds_tm s) /\ rkind (ds_rec s);
  i_rec : rec_ok (ds_d s) (ds_v s) (ds_rec s);
  i_mode : match ds_mode s with
           | MDown => ds_v s = v_dead /\ Forall (fun p => p = QIdle) (pcs s)
           | MRec => Forall (fun w => dw_pc w = QIdle) (ds_ws s) /\ ds_tm s = QIdle
           | MUp => ds_rec s = QIdle
           end
}.

Lemma InK_incl e l1 l2 : (forall x, In x l1 -> In x l2) -> InK e l1 -> InK e l2.
Proof.
  intros H Hk. destruct (InK_elim _ _ Hk) as (x & Hx & E). eapply InK_key_eq; [exact E|].
  apply InK_intro. apply H. exact Hx.
Qed.

Lemma own_ok_mono d d' p : (forall x, In x (cat_sbs d) -> In x (cat_sbs d')) -> own_ok d p -> own_ok d' p.
Proof.
  intros H. destruct p; simpl; auto; destruct k; auto; apply InK_incl; exact H.
Qed.

Lemma Lset_split s j p x : nth_error (pcs s) j = Some p ->
  (In x (Lset s) <-> In x (vL (ds_v s)) \/ In x (pc_L p) \/ In x (others pc_L j (pcs s))).
Proof. intros H. unfold Lset. rewrite in_app_iff, (flat_others pc_L _ _ _ x H). tauto. Qed.

Lemma Pset_split s j p x : nth_error (pcs s) j = Some p ->
  (In x (Pset s) <-> In x (pc_P p) \/ In x (others pc_P j (pcs s))).
Proof. intros H. unfold Pset. apply (flat_others pc_P _ _ _ x H). Qed.

Lemma wal_key_entry d x : InK x (wal_sbs d) -> exists y, In y (wal_entries d) /\ we_seq y = fst x /\ skey (we_sb y) = skey x.
Proof.
  intros H. destruct (InK_elim _ _ H) as (z & Hz & E). unfold wal_sbs in Hz. apply in_map_iff in Hz.
  destruct Hz as (y & Ey & Hy). exists y. split; [exact Hy|]. subst z. split; [|exact E].
  unfold skey in E. simpl in E. inversion E. reflexivity.
Qed.

Lemma entry_wal_key d y : In y (wal_entries d) -> InK (we_sb y) (wal_sbs d).
Proof. intros H. apply InK_intro. unfold wal_sbs. apply in_map. exact H. Qed.

(* one thread (slot j of pcs) performs a step that satisfies the local
   specification; everything else about the thread lists is supplied by the
   caller *)
Lemma thread_step_core s s' j p p' :
  inv s -> ds_mode s <> MDown ->
  nth_error (pcs s) j = Some p -> pcs s' = upd j p' (pcs s) ->
  lspec (ds_d s) (ds_v s) p (ds_d s') (ds_v s') p' ->
  (forall k, p = QLoad k -> classify s = 0) ->
  (forall rest maxs fl0, p = QScan rest maxs fl0 \/ p = QRFinish maxs fl0 ->
                         maxs < v_next (ds_v s) /\ fl0 <= d_flushed (ds_d s)) ->
  (forall e, In e (acked_sbs s') -> In e (acked_sbs s) \/
             b_rows (snd e) = [] \/ In e (db_items (v_buf (ds_v s'))) \/ after_reg p e) ->
  ds_mode s' <> MDown ->
  wal_sorted (ds_d s') /\
  ((forall x, In x (wal_entries (ds_d s')) -> we_seq x < v_next (ds_v s'))
   /\ v_lws (ds_v s') < v_next (ds_v s') /\ d_flushed (ds_d s') < v_next (ds_v s')) /\
  (forall x, In x (Lset s') \/ In x (Pset s') -> InK x (wal_sbs (ds_d s')) /\ d_flushed (ds_d s') < fst x) /\
  (forall e, In e (acked_sbs s') -> b_rows (snd e) <> [] -> InK e (cat_sbs (ds_d s')) \/ InK e (Lset s')) /\
  Forall (clean_ok s') (pcs s') /\ Forall (own_ok (ds_d s')) (pcs s').
Proof.
  intros Iv Hup Hn Hpcs LS Hcls Hrb Hack Hup'.
  destruct (i_next _ Iv Hup) as (Hnext & Hlws & Hfl).
  assert (Hn' : nth_error (pcs s') j = Some p') by (rewrite Hpcs; eapply nth_error_upd_same; eauto).
  assert (HoL : others pc_L j (pcs s') = others pc_L j (pcs s)) by (rewrite Hpcs; apply others_upd).
  assert (HoP : others pc_P j (pcs s') = others pc_P j (pcs s)) by (rewrite Hpcs; apply others_upd).
  assert (Hclean_p : clean_ok s p).
  { pose proof (i_clean _ Iv) as Hc. rewrite Forall_forall in Hc. apply Hc. eapply nth_error_In; eauto. }
  assert (Hown_p : own_ok (ds_d s) p).
  { pose proof (i_own _ Iv) as Hc. rewrite Forall_forall in Hc. apply Hc. eapply nth_error_In; eauto. }
  (* origin of every volatile batch of s' *)
  assert (Horigin : forall x, In x (Lset s') \/ In x (Pset s') ->
                    (In x (Lset s) \/ In x (Pset s)) \/ fresh_of (ds_v s) p x).
  { intros x Hx.
    rewrite (Lset_split s' j p' x Hn'), (Pset_split s' j p' x Hn'), HoL, HoP in Hx.
    rewrite (Lset_split s j p x Hn), (Pset_split s j p x Hn).
    assert (Hm : In x (vL (ds_v s') ++ pc_L p' ++ pc_P p') \/ In x (others pc_L j (pcs s)) \/ In x (others pc_P j (pcs s))).
    { rewrite !in_app_iff. tauto. }
    destruct Hm as [Hm|Hm]; [|tauto].
    destruct (ls_origin _ _ _ _ _ _ LS x Hm) as [Ho|Ho]; [|right; exact Ho].
    rewrite !in_app_iff in Ho. tauto. }
  (* the bound used by a truncation is below every volatile batch *)
  assert (Htrunc_safe : forall b, ((exists k, p = QTrunc b k) \/ (exists maxs fl0, p = QRFinish maxs fl0 /\ b = fl0 + 1)) ->
                        forall x, In x (Lset s) \/ In x (Pset s) -> b <= fst x).
  { intros b Hb x Hx. destruct Hb as [[k ->]|(maxs & fl0 & -> & ->)].
    - simpl in Hclean_p. destruct Hclean_p as [_ Hc]. specialize (Hc x Hx). lia.
    - destruct (Hrb [] maxs fl0 (or_intror eq_refl)) as [_ Hf]. destruct (i_live _ Iv x Hx) as [_ Hl]. lia. }
  (* old volatile batches keep their WAL entry and stay above the mark *)
  assert (Hold : forall x, In x (Lset s) \/ In x (Pset s) ->
                 InK x (wal_sbs (ds_d s')) /\ d_flushed (ds_d s') < fst x).
  { intros x Hx. destruct (i_live _ Iv x Hx) as [Hw Hf].
    destruct (ls_dur _ _ _ _ _ _ LS) as [(E1 & E2 & E3)|[(r & Ep & E1 & E2 & E3)|[(b & Hb & E1 & E2 & E3 & E4)|(m & k & Ep & E1 & E2 & E3)]]].
    - unfold wal_sbs. rewrite E1, E2. auto.
    - unfold wal_sbs. rewrite E1, E2, map_app. split; [apply InK_app; left; exact Hw|exact Hf].
    - split; [|rewrite E3; exact Hf].
      destruct (wal_key_entry _ _ Hw) as (y & Hy & Ey & Ek).
      eapply InK_key_eq; [exact Ek|]. apply entry_wal_key. unfold wal_entries in *. rewrite E1, E2.
      apply in_app_or in Hy. apply in_or_app. destruct Hy as [Hy|Hy]; [left|right; exact Hy].
      apply trunc_keeps; [|exact Hy|].
      + pose proof (i_sorted _ Iv) as Hs. unfold wal_sorted, wal_entries, seqs in Hs. rewrite map_app in Hs.
        apply ssorted_app in Hs. unfold seqs. tauto.
      + rewrite Ey. apply Htrunc_safe; assumption.
    - subst p. simpl in Hclean_p. destruct Hclean_p as [_ Hc]. unfold wal_sbs. rewrite E1, E2.
      split; [exact Hw|apply Hc; exact Hx]. }
  (* 1. sorted *)
  assert (S1 : wal_sorted (ds_d s')).
  { pose proof (i_sorted _ Iv) as Hs. unfold wal_sorted in *.
    destruct (ls_dur _ _ _ _ _ _ LS) as [(E1 & E2 & E3)|[(r & Ep & E1 & E2 & E3)|[(b & Hb & E1 & E2 & E3 & E4)|(m & k & Ep & E1 & E2 & E3)]]].
    - rewrite E1; exact Hs.
    - rewrite E1. unfold seqs. rewrite map_app. apply ssorted_app. split; [exact Hs|]. split; [simpl; split; [intros y []|exact I]|].
      intros a b Ha Hb. simpl in Hb. destruct Hb as [<-|[]]. apply in_map_iff in Ha. destruct Ha as (y & <- & Hy). apply Hnext. exact Hy.
    - unfold wal_entries. rewrite E1, E2. apply trunc_sorted. exact Hs.
    - rewrite E1; exact Hs. }
  (* 2. next_seq bounds *)
  assert (S2 : (forall x, In x (wal_entries (ds_d s')) -> we_seq x < v_next (ds_v s'))
               /\ v_lws (ds_v s') < v_next (ds_v s') /\ d_flushed (ds_d s') < v_next (ds_v s')).
  { assert (Hnx : v_next (ds_v s) <= v_next (ds_v s')).
    { destruct (ls_dur _ _ _ _ _ _ LS) as [(E1 & E2 & E3)|[(r & Ep & E1 & E2 & E3)|[(b & Hb & E1 & E2 & E3 & E4)|(m & k & Ep & E1 & E2 & E3)]]]; lia. }
    split; [|split].
    - destruct (ls_dur _ _ _ _ _ _ LS) as [(E1 & E2 & E3)|[(r & Ep & E1 & E2 & E3)|[(b & Hb & E1 & E2 & E3 & E4)|(m & k & Ep & E1 & E2 & E3)]]].
      + rewrite E1. intros x Hx. specialize (Hnext x Hx). lia.
      + rewrite E1. intros x Hx. apply in_app_or in Hx. destruct Hx as [Hx|[<-|[]]]; [specialize (Hnext x Hx); lia|simpl; lia].
      + intros x Hx. unfold wal_entries in Hx. rewrite E1, E2 in Hx.
        assert (Hx0 : In x (wal_entries (ds_d s))).
        { unfold wal_entries. apply in_app_or in Hx. apply in_or_app. destruct Hx as [Hx|Hx]; [left; eapply trunc_incl; eauto|right; exact Hx]. }
        specialize (Hnext x Hx0). lia.
      + rewrite E1. intros x Hx. specialize (Hnext x Hx). lia.
    - destruct (ls_lws _ _ _ _ _ _ LS) as [E|[(e & Ep & E)|(rest & maxs & fl0 & Ep & E)]].
      + lia.
      + rewrite E. subst p.
        assert (Hin : In e (Pset s)).
        { apply (Pset_split s j (QSeq e) e Hn). left. simpl. auto. }
        destruct (i_live _ Iv e (or_intror Hin)) as [Hw _]. destruct (wal_key_entry _ _ Hw) as (y & Hy & Ey & _).
        specialize (Hnext y Hy). lia.
      + rewrite E. destruct (Hrb rest maxs fl0 Ep) as [Hm _]. lia.
    - destruct (ls_dur _ _ _ _ _ _ LS) as [(E1 & E2 & E3)|[(r & Ep & E1 & E2 & E3)|[(b & Hb & E1 & E2 & E3 & E4)|(m & k & Ep & E1 & E2 & E3)]]]; try lia.
      subst p. simpl in Hclean_p. destruct Hclean_p as [Hc _]. lia. }
  (* 3. live *)
  assert (S3 : forall x, In x (Lset s') \/ In x (Pset s') -> InK x (wal_sbs (ds_d s')) /\ d_flushed (ds_d s') < fst x).
  { intros x Hx. destruct (Horigin x Hx) as [Ho|Hf]; [apply Hold; exact Ho|].
    destruct (ls_fresh _ _ _ _ _ _ LS x Hf) as (Hw & Ex & Ef). split; [exact Hw|]. rewrite Ef, Ex. exact Hfl. }
  (* 4. acknowledged *)
  assert (S4 : forall e, In e (acked_sbs s') -> b_rows (snd e) <> [] -> InK e (cat_sbs (ds_d s')) \/ InK e (Lset s')).
  { intros e He Hr. destruct (Hack e He) as [Ho|[Hz|[Hb|Ha]]].
    - pose proof (i_acked _ Iv e Ho Hr) as Hq. destruct Hq as [Hq|Hq].
      + left. eapply InK_incl; [apply (ls_cat _ _ _ _ _ _ LS)|exact Hq].
      + destruct (ds_mode s); [contradiction| |];
          (destruct (InK_elim _ _ Hq) as (x & Hx & Ek);
           rewrite (Lset_split s j p x Hn) in Hx;
           assert (Hm : In x (vL (ds_v s) ++ pc_L p) \/ In x (others pc_L j (pcs s))) by (rewrite in_app_iff; tauto);
           destruct Hm as [Hm|Hm];
           [destruct (ls_keep _ _ _ _ _ _ LS x Hm) as [Hk|Hk];
            [right; eapply InK_key_eq; [exact Ek|]; apply InK_intro; rewrite (Lset_split s' j p' x Hn'); rewrite in_app_iff in Hk; tauto
            |left; eapply InK_key_eq; [exact Ek|]; apply InK_intro; exact Hk]
           |right; eapply InK_key_eq; [exact Ek|]; apply InK_intro; rewrite (Lset_split s' j p' x Hn'), HoL; tauto]).
    - contradiction.
    - right. apply InK_intro. unfold Lset, vL. apply in_or_app. left. apply in_or_app. left. exact Hb.
    - left. assert (Hc : InK e (cat_sbs (ds_d s))).
      { destruct p; simpl in Ha; try contradiction; destruct k; try contradiction; subst; exact Hown_p. }
      eapply InK_incl; [apply (ls_cat _ _ _ _ _ _ LS)|exact Hc]. }
  (* 5. clean *)
  assert (Hnx : v_next (ds_v s) <= v_next (ds_v s')).
  { destruct (ls_dur _ _ _ _ _ _ LS) as [(E1 & E2 & E3)|[(r & Ep & E1 & E2 & E3)|[(b & Hb & E1 & E2 & E3 & E4)|(m & k0 & Ep & E1 & E2 & E3)]]]; lia. }
  assert (Hcarry : forall m, m < v_next (ds_v s) -> (forall x, In x (Lset s) \/ In x (Pset s) -> m < fst x) ->
                   m < v_next (ds_v s') /\ (forall x, In x (Lset s') \/ In x (Pset s') -> m < fst x)).
  { intros m Hm1 Hm2. split; [lia|]. intros x Hx. destruct (Horigin x Hx) as [Ho|Hf]; [apply Hm2; exact Ho|].
    destruct (ls_fresh _ _ _ _ _ _ LS x Hf) as (_ & Ex & _). lia. }
  assert (S5 : Forall (clean_ok s') (pcs s')).
  { rewrite Hpcs. eapply Forall_upd_inv; [exact Hn|apply (i_clean _ Iv)| |].
    - intros q Hq. destruct q; simpl in *; auto; destruct Hq as [Hq1 Hq2]; apply Hcarry; assumption.
    - destruct p'; simpl; auto.
      + destruct (ls_trunc _ _ _ _ _ _ LS _ _ eq_refl) as [Ep Em]. subst s0.
        apply Hcarry; [exact Hlws|]. apply classify_zero. eapply Hcls; eauto.
      + pose proof (ls_persist _ _ _ _ _ _ LS _ _ eq_refl) as Ep. subst p. simpl in Hclean_p.
        destruct Hclean_p as [Hq1 Hq2]. apply Hcarry; assumption. }
  (* 6. own batch *)
  assert (S6 : Forall (own_ok (ds_d s')) (pcs s')).
  { rewrite Hpcs. eapply Forall_upd_inv; [exact Hn|apply (i_own _ Iv)| |].
    - intros q Hq. eapply own_ok_mono; [apply (ls_cat _ _ _ _ _ _ LS)|exact Hq].
    - apply (ls_own _ _ _ _ _ _ LS). exact Hown_p. }
  split; [exact S1|]. split; [exact S2|]. split; [exact S3|]. split; [exact S4|]. split; [exact S5|exact S6].
Qed.

(* ------------------------------------------------------------------ *)
(* list plumbing for the three thread slots                             *)
(* ------------------------------------------------------------------ *)
Lemma map_upd {A B} (f : A -> B) l : forall i a, map f (upd i a l) = upd i (f a) (map f l).
Proof. induction l as [|y r IH]; intros [|j] a; simpl; auto. rewrite IH. reflexivity. Qed.

Lemma upd_app_l {A} (l1 l2 : list A) : forall i a, (i < length l1)%nat -> upd i a (l1 ++ l2) = upd i a l1 ++ l2.
Proof.
  induction l1 as [|y r IH]; intros i a Hi; simpl in *; [lia|]. destruct i as [|j]; simpl; [reflexivity|].
  rewrite IH by lia. reflexivity.
Qed.

Lemma upd_app_r {A} (l1 l2 : list A) : forall i a, upd (length l1 + i) a (l1 ++ l2) = l1 ++ upd i a l2.
Proof. induction l1 as [|y r IH]; intros i a; simpl; [reflexivity|]. rewrite IH. reflexivity. Qed.

Lemma nth_error_app_len {A} (l1 l2 : list A) i : nth_error (l1 ++ l2) (length l1 + i) = nth_error l2 i.
Proof. induction l1; simpl; auto. Qed.

Lemma pcs_w s i w : nth_error (ds_ws s) i = Some w -> nth_error (pcs s) i = Some (dw_pc w).
Proof.
  intros H. unfold pcs. rewrite nth_error_app1.
  - rewrite nth_error_map, H. reflexivity.
  - rewrite map_length. apply nth_error_Some. congruence.
Qed.

Lemma pcs_upd_w ws tm rec i w' w : nth_error ws i = Some w ->
  map dw_pc (upd i w' ws) ++ [tm; rec] = upd i (dw_pc w') (map dw_pc ws ++ [tm; rec]).
Proof.
  intros H. rewrite map_upd, upd_app_l; [reflexivity|]. rewrite map_length. apply nth_error_Some. congruence.
Qed.

Lemma pcs_tm s : nth_error (pcs s) (length (ds_ws s)) = Some (ds_tm s).
Proof.
  unfold pcs. replace (length (ds_ws s)) with (length (map dw_pc (ds_ws s)) + 0)%nat by (rewrite map_length; lia).
  rewrite nth_error_app_len. reflexivity.
Qed.

Lemma pcs_upd_tm ws tm rec p' : map dw_pc ws ++ [p'; rec] = upd (length ws) p' (map dw_pc ws ++ [tm; rec]).
Proof.
  replace (length ws) with (length (map dw_pc ws) + 0)%nat by (rewrite map_length; lia).
  rewrite upd_app_r. reflexivity.
Qed.

Lemma pcs_rec s : nth_error (pcs s) (S (length (ds_ws s))) = Some (ds_rec s).
Proof.
  unfold pcs. replace (S (length (ds_ws s))) with (length (map dw_pc (ds_ws s)) + 1)%nat by (rewrite map_length; lia).
  rewrite nth_error_app_len. reflexivity.
Qed.

Lemma pcs_upd_rec ws tm rec p' : map dw_pc ws ++ [tm; p'] = upd (S (length ws)) p' (map dw_pc ws ++ [tm; rec]).
Proof.
  replace (S (length ws)) with (length (map dw_pc ws) + 1)%nat by (rewrite map_length; lia).
  rewrite upd_app_r. reflexivity.
Qed.

Definition w_acked (w : dwthread) : list sb :=
  flat_map (fun x : sb * wres => match snd x with ROk => [fst x] | _ => [] end) (dw_res w).

Lemma w_acked_snoc res e r todo pc :
  w_acked (mkDw pc todo (res ++ [(e, r)])) = w_acked (mkDw pc todo res) ++ (match r with ROk => [e] | _ => [] end).
Proof. unfold w_acked. simpl. rewrite flat_map_app. simpl. rewrite app_nil_r. reflexivity. Qed.

Lemma idle_flat (f : dpc -> list sb) l : f QIdle = [] -> Forall (fun p => p = QIdle) l -> flat_map f l = [].
Proof.
  intros Hf H. induction H as [|p r Hp _ IH]; simpl; [reflexivity|]. subst p. rewrite Hf, IH. reflexivity.
Qed.

(* flag is sticky *)
Lemma set_flag_sticky s p : ds_flag s <> 0 -> set_flag s p = ds_flag s.
Proof.
  intros H. unfold set_flag. destruct p; auto. destruct (ds_flag s =? 0) eqn:E; [apply N.eqb_eq in E; contradiction|reflexivity].
Qed.

Lemma flag_sticky c l s : ds_flag s <> 0 -> ds_flag (dstep c l s) = ds_flag s.
Proof.
  intros H. destruct l as [i f|f| | |f| |]; simpl.
  - destruct (ds_mode s); auto. destruct (nth_error (ds_ws s) i) as [w|]; auto.
    destruct (dwstep c f (ds_d s) (ds_v s) w) as [[d' v'] w']. simpl. apply set_flag_sticky; exact H.
  - destruct (ds_mode s); auto.
    destruct (dtstep (ds_shut s) f (ds_d s) (ds_v s) (ds_tm s)) as [[d' v'] p']. simpl. apply set_flag_sticky; exact H.
  - destruct (ds_mode s); auto. destruct (ds_tm s); auto. destruct (ds_shut s); auto.
  - destruct (ds_mode s); auto.
  - destruct (ds_mode s); auto.
    destruct (drstep f (ds_d s) (ds_v s) (ds_rec s)) as [[d' v'] r]. destruct r; simpl; apply set_flag_sticky; exact H.
  - destruct (ds_mode s); auto.
  - destruct (ds_mode s); auto.
Qed.

Lemma flag_sticky_run c ls : forall s, ds_flag s <> 0 -> ds_flag (drun c ls s) = ds_flag s.
Proof.
  induction ls as [|l t IH]; intros s H; simpl; [reflexivity|].
  rewrite IH; [apply flag_sticky; exact H|rewrite flag_sticky; exact H].
Qed.

Lemma set_flag_zero s p : set_flag s p = 0 -> ds_flag s = 0 /\ (forall k, p = QLoad k -> classify s = 0).
Proof.
  unfold set_flag. destruct p; intros H; try (split; [exact H|intros; discriminate]).
  destruct (ds_flag s =? 0) eqn:E.
  - apply N.eqb_eq in E. split; [exact E|intros; exact H].
  - apply N.eqb_neq in E. contradiction.
Qed.

(* ------------------------------------------------------------------ *)
(* crash (and a failed ensure_wal): the process goes down               *)
(* ------------------------------------------------------------------ *)
Lemma pcs_all_idle ws : Forall (fun w => dw_pc w = QIdle) ws ->
  Forall (fun p => p = QIdle) (map dw_pc ws ++ [QIdle; QIdle]).
Proof.
  intros H. apply Forall_app. split.
  - induction H; simpl; constructor; auto.
  - repeat constructor.
Qed.

Lemma go_down s d' ws' fl :
  inv s -> ds_mode s <> MDown ->
  wal_entries d' = wal_entries (ds_d s) -> d_flushed d' = d_flushed (ds_d s) ->
  (forall x, In x (cat_sbs (ds_d s)) -> In x (cat_sbs d')) ->
  Forall (fun w => dw_pc w = QIdle) ws' ->
  (forall e, In e (flat_map w_acked ws') -> In e (acked_sbs s)) ->
  inv (mkDs d' v_dead MDown ws' QIdle QIdle false fl).
Proof.
  intros Iv Hup Ew Ef Hc Hidle Hack.
  pose proof (pcs_all_idle ws' Hidle) as Hpcs.
  assert (HL : Lset (mkDs d' v_dead MDown ws' QIdle QIdle false fl) = []).
  { unfold Lset, vL, pcs. simpl. apply idle_flat; [reflexivity|exact Hpcs]. }
  assert (HP : Pset (mkDs d' v_dead MDown ws' QIdle QIdle false fl) = []).
  { unfold Pset, pcs. simpl. apply idle_flat; [reflexivity|exact Hpcs]. }
  constructor; simpl.
  - unfold wal_sorted. rewrite Ew. apply (i_sorted _ Iv).
  - intros H; contradiction.
  - intros x Hx. rewrite HL, HP in Hx. destruct Hx as [[]|[]].
  - intros e He Hr. simpl in He.
    pose proof (i_acked _ Iv e (Hack e He) Hr) as Hq. destruct Hq as [Hq|Hq].
    + left. eapply InK_incl; [exact Hc|exact Hq].
    + right. simpl. unfold wal_sbs. rewrite Ew, Ef.
      destruct (ds_mode s); [contradiction| |];
        (destruct (InK_elim _ _ Hq) as (x & Hx & Ek);
         destruct (i_live _ Iv x (or_introl Hx)) as [Hw Hf];
         split; [eapply InK_key_eq; [exact Ek|exact Hw]|];
         assert (E1 : fst x = fst e) by (unfold skey in Ek; congruence); lia).
  - eapply Forall_impl; [|exact Hpcs]. intros p ->. exact I.
  - eapply Forall_impl; [|exact Hpcs]. intros p ->. exact I.
  - split; [|split; exact I]. clear - Hidle. induction Hidle as [|w r Hw _ IH]; simpl; constructor; auto. rewrite Hw. exact I.
  - exact I.
  - split; [reflexivity|exact Hpcs].
Qed.

Lemma crash_w_idle ws : Forall (fun w => dw_pc w = QIdle) (map crash_w ws).
Proof.
  induction ws as [|w r IH]; simpl; constructor; auto.
  unfold crash_w. destruct (pc_batch (dw_pc w)); reflexivity.
Qed.

Lemma crash_w_acked ws e : In e (flat_map w_acked (map crash_w ws)) -> In e (flat_map w_acked ws).
Proof.
  induction ws as [|w r IH]; simpl; [auto|]. rewrite !in_app_iff. intros [H|H]; [left|right; apply IH; exact H].
  unfold crash_w in H. destruct (pc_batch (dw_pc w)) as [b|].
  - unfold dw_finish in H. rewrite w_acked_snoc in H. simpl in H. rewrite app_nil_r in H.
    destruct w; exact H.
  - destruct w; exact H.
Qed.

(* ------------------------------------------------------------------ *)
(* start of ensure_wal on a fresh process                               *)
(* ------------------------------------------------------------------ *)
Lemma pcs_idle_ws ws tm rec : Forall (fun p => p = QIdle) (map dw_pc ws ++ [tm; rec]) ->
  Forall (fun w => dw_pc w = QIdle) ws /\ tm = QIdle /\ rec = QIdle.
Proof.
  intros H. apply Forall_app in H. destruct H as [H1 H2]. split.
  - induction ws as [|w r IH]; simpl in *; constructor; inversion H1; subst; auto.
  - inversion H2 as [|? ? E1 H3]; subst. inversion H3 as [|? ? E2 _]; subst. auto.
Qed.

Lemma max_seq_bound d : wal_sorted d -> forall x, In x (wal_entries d) -> we_seq x <= max_seq_of d.
Proof.
  unfold wal_sorted, max_seq_of. intros Hs x Hx.
  destruct (last_seq (wal_entries d)) as [m|] eqn:E.
  - eapply last_seq_max; eauto.
  - apply last_seq_none in E. rewrite E in Hx. destruct Hx.
Qed.

Lemma replay_in d x : In x (replay_sbs d) <-> In x (wal_sbs d) /\ d_flushed d < fst x.
Proof. unfold replay_sbs. rewrite filter_In, N.ltb_lt. tauto. Qed.

Lemma rec_start s fl :
  inv s -> ds_mode s = MDown ->
  inv (mkDs (ds_d s) (v_fresh (ds_d s)) MRec (ds_ws s) QIdle
            (QScan (replay_sbs (ds_d s)) (d_flushed (ds_d s)) (d_flushed (ds_d s))) false fl).
Proof.
  intros Iv Hm. pose proof (i_mode _ Iv) as Him. rewrite Hm in Him. destruct Him as [Hv Hp].
  destruct (pcs_idle_ws _ _ _ Hp) as (Hws & Htm & Hrec).
  set (d := ds_d s) in *.
  assert (Hidle : Forall (fun p => p = QIdle) (map dw_pc (ds_ws s))).
  { clear - Hws. induction Hws; simpl; constructor; auto. }
  assert (HL : forall x, In x (Lset (mkDs d (v_fresh d) MRec (ds_ws s) QIdle (QScan (replay_sbs d) (d_flushed d) (d_flushed d)) false fl))
               <-> In x (replay_sbs d)).
  { intros x. unfold Lset, vL, pcs. simpl. rewrite flat_map_app. rewrite (idle_flat pc_L _ eq_refl Hidle). simpl.
    rewrite app_nil_r. tauto. }
  assert (HP : Pset (mkDs d (v_fresh d) MRec (ds_ws s) QIdle (QScan (replay_sbs d) (d_flushed d) (d_flushed d)) false fl) = []).
  { unfold Pset, pcs. simpl. rewrite flat_map_app. rewrite (idle_flat pc_P _ eq_refl Hidle). reflexivity. }
  constructor; simpl.
  - apply (i_sorted _ Iv).
  - intros _. unfold v_fresh; simpl.
    pose proof (N.le_max_l (max_seq_of d) (d_flushed d)) as M1.
    pose proof (N.le_max_r (max_seq_of d) (d_flushed d)) as M2.
    split; [|split]; try lia.
    intros x Hx. pose proof (max_seq_bound d (i_sorted _ Iv) x Hx). lia.
  - intros x Hx. rewrite HL, HP in Hx. destruct Hx as [Hx|[]]. apply replay_in in Hx. destruct Hx as [H1 H2].
    split; [apply InK_intro; exact H1|exact H2].
  - intros e He Hr. simpl in He. pose proof (i_acked _ Iv e He Hr) as Hq. rewrite Hm in Hq.
    destruct Hq as [Hq|[Hq1 Hq2]]; [left; exact Hq|right].
    destruct (InK_elim _ _ Hq1) as (x & Hx & Ek).
    eapply InK_key_eq; [exact Ek|]. apply InK_intro. apply HL. apply replay_in. split; [exact Hx|].
    assert (E1 : fst x = fst e) by (unfold skey in Ek; congruence). rewrite E1. exact Hq2.
  - apply Forall_app. split.
    + eapply Forall_impl; [|exact Hidle]. intros p ->. exact I.
    + repeat constructor.
  - apply Forall_app. split.
    + eapply Forall_impl; [|exact Hidle]. intros p ->. exact I.
    + repeat constructor.
  - split; [|split; exact I]. eapply Forall_impl; [|exact Hidle]. intros p ->. exact I.
  - unfold v_fresh; simpl. pose proof (N.le_max_r (max_seq_of d) (d_flushed d)) as M2. lia.
  - split; [exact Hws|reflexivity].
Qed.

(* ------------------------------------------------------------------ *)
(* every step preserves the invariant while the classifier is silent    *)
(* ------------------------------------------------------------------ *)
Lemma inv_ext s s' :
  ds_d s' = ds_d s -> ds_v s' = ds_v s -> ds_mode s' = ds_mode s -> ds_ws s' = ds_ws s ->
  ds_tm s' = ds_tm s -> ds_rec s' = ds_rec s -> inv s -> inv s'.
Proof.
  destruct s, s'; simpl. intros -> -> -> -> -> -> Iv.
  destruct Iv as [A B C D E F G H J]. constructor; simpl in *; try assumption.
Qed.

Lemma acked_is_flat s : acked_sbs s = flat_map w_acked (ds_ws s).
Proof. reflexivity. Qed.

Lemma in_w_acked_ws ws i w e : nth_error ws i = Some w -> In e (w_acked w) -> In e (flat_map w_acked ws).
Proof. intros Hn He. apply in_flat_map. exists w. split; [eapply nth_error_In; eauto|exact He]. Qed.

Lemma flush_err_frame hw f d v p d' v' k :
  dflush_step hw f d v p = Some (d', v', GErr k) ->
  wal_entries d' = wal_entries d /\ d_flushed d' = d_flushed d /\ (forall x, In x (cat_sbs d) -> In x (cat_sbs d')).
Proof.
  destruct p; simpl; intros H; try discriminate.
  - destruct f; inversion H; subst; repeat split; auto.
  - destruct f; inversion H; subst; repeat split; auto. rewrite cat_sbs_add. intros x Hx. apply in_or_app; left; exact Hx.
  - destruct (0 <? s); discriminate.
Qed.

Lemma dr_after_fail r : dr_after r = RFail -> exists k, r = GErr k.
Proof. destruct r as [q|k|k]; simpl; try discriminate; [destruct k; discriminate|]. intros _. eauto. Qed.

Lemma drstep_fail f d v p d' v' :
  drstep f d v p = (d', v', RFail) ->
  wal_entries d' = wal_entries d /\ d_flushed d' = d_flushed d /\ (forall x, In x (cat_sbs d) -> In x (cat_sbs d')).
Proof.
  unfold drstep. intros H.
  assert (Hflush : forall d1 v1 r, dflush_step false f d v p = Some (d1, v1, r) ->
                   (d1, v1, dr_after r) = (d', v', RFail) ->
                   wal_entries d' = wal_entries d /\ d_flushed d' = d_flushed d /\ (forall x, In x (cat_sbs d) -> In x (cat_sbs d'))).
  { intros d1 v1 r Ef E. inversion E; subst. destruct (dr_after_fail _ H3) as [k ->]. eapply flush_err_frame; eauto. }
  destruct p; try (simpl in H; discriminate);
    try (match type of H with match dflush_step ?a ?b ?c ?e ?g with _ => _ end = _ =>
           destruct (dflush_step a b c e g) as [[[d1 v1] r]|] eqn:Ef end; [eapply Hflush; eauto|discriminate]).
  - destruct rest as [|e r0]; [discriminate|]. destruct (db_compatible (v_buf v) e); [discriminate|].
    destruct (db_items (v_buf v)); simpl in H; discriminate.
Qed.

Lemma wal_entries_rotated d : wal_entries (rotated d) = wal_entries d.
Proof. unfold wal_entries, rotated; simpl. rewrite concat_app. simpl. rewrite !app_nil_r. reflexivity. Qed.

Lemma inv_step c l s : inv s -> ds_flag (dstep c l s) = 0 -> inv (dstep c l s).
Proof.
  intros Iv Hf. destruct l as [i f|f| | |f| |]; simpl in *.
  - (* DW *)
    destruct (ds_mode s) eqn:Em; try exact Iv.
    destruct (nth_error (ds_ws s) i) as [w|] eqn:En; try exact Iv.
    destruct (dwstep c f (ds_d s) (ds_v s) w) as [[d' v'] w'] eqn:Es. simpl in Hf.
    destruct (set_flag_zero _ _ Hf) as [Hf0 Hcls].
    destruct (i_kinds _ Iv) as (Hkw & Hkt & Hkr).
    assert (Hk : wkind (dw_pc w)).
    { rewrite Forall_forall in Hkw. apply Hkw. apply in_map. eapply nth_error_In; eauto. }
    destruct (dwstep_spec _ _ _ _ _ _ _ _ Es Hk) as (LS & Hk' & Hres).
    set (s' := mkDs d' v' MUp (upd i w' (ds_ws s)) (ds_tm s) (ds_rec s) (ds_shut s) (set_flag s (dw_pc w))).
    assert (Hrecidle : ds_rec s = QIdle) by (pose proof (i_mode _ Iv) as Hm; rewrite Em in Hm; exact Hm).
    destruct (thread_step_core s s' i (dw_pc w) (dw_pc w')) as (S1 & S2 & S3 & S4 & S5 & S6).
    + exact Iv.
    + rewrite Em; discriminate.
    + apply pcs_w; exact En.
    + unfold pcs, s'; simpl. eapply pcs_upd_w; eauto.
    + exact LS.
    + exact Hcls.
    + intros rest maxs fl0 [E|E]; rewrite E in Hk; simpl in Hk; contradiction.
    + intros e He. rewrite acked_is_flat in He. unfold s' in He; simpl in He.
      destruct (upd_In_flat w_acked _ _ _ _ _ En He) as [Hw|Ho]; [|left; exact Ho].
      destruct Hres as [Er|(e0 & r & Er & Hr)].
      * left. eapply in_w_acked_ws; [exact En|]. unfold w_acked in *. rewrite Er in Hw. exact Hw.
      * unfold w_acked in Hw. rewrite Er, flat_map_app in Hw. apply in_app_or in Hw. destruct Hw as [Hw|Hw].
        -- left. eapply in_w_acked_ws; [exact En|exact Hw].
        -- simpl in Hw. destruct r; simpl in Hw; try (destruct Hw as [|[]]); try contradiction.
           subst e0. right. apply Hr. reflexivity.
    + simpl; discriminate.
    + constructor; simpl; auto; try (intros e He Hr; apply S4; assumption); try (rewrite Hrecidle; exact I).
      split; [rewrite map_upd; apply Forall_upd_nth; assumption|split; assumption].
  - (* DT *)
    destruct (ds_mode s) eqn:Em; try exact Iv.
    destruct (dtstep (ds_shut s) f (ds_d s) (ds_v s) (ds_tm s)) as [[d' v'] p'] eqn:Es. simpl in Hf.
    destruct (set_flag_zero _ _ Hf) as [Hf0 Hcls].
    destruct (i_kinds _ Iv) as (Hkw & Hkt & Hkr).
    destruct (dtstep_spec _ _ _ _ _ _ _ _ Es Hkt) as (LS & Hk').
    set (s' := mkDs d' v' MUp (ds_ws s) p' (ds_rec s) (ds_shut s) (set_flag s (ds_tm s))).
    assert (Hrecidle : ds_rec s = QIdle) by (pose proof (i_mode _ Iv) as Hm; rewrite Em in Hm; exact Hm).
    destruct (thread_step_core s s' (length (ds_ws s)) (ds_tm s) p') as (S1 & S2 & S3 & S4 & S5 & S6).
    + exact Iv.
    + rewrite Em; discriminate.
    + apply pcs_tm.
    + unfold pcs, s'; simpl. apply pcs_upd_tm.
    + exact LS.
    + exact Hcls.
    + intros rest maxs fl0 [E|E]; rewrite E in Hkt; simpl in Hkt; contradiction.
    + intros e He. left. exact He.
    + simpl; discriminate.
    + constructor; simpl; auto; try (intros e He Hr; apply S4; assumption); try (rewrite Hrecidle; exact I).
  - (* DTick *)
    destruct (ds_mode s) eqn:Em; try exact Iv.
    destruct (ds_tm s) eqn:Et; try exact Iv.
    destruct (ds_shut s) eqn:Esh; try exact Iv. simpl in Hf.
    destruct (i_kinds _ Iv) as (Hkw & Hkt & Hkr).
    set (s' := mkDs (ds_d s) (ds_v s) MUp (ds_ws s) QCheck (ds_rec s) false (ds_flag s)).
    assert (Hrecidle : ds_rec s = QIdle) by (pose proof (i_mode _ Iv) as Hm; rewrite Em in Hm; exact Hm).
    destruct (thread_step_core s s' (length (ds_ws s)) QIdle QCheck) as (S1 & S2 & S3 & S4 & S5 & S6).
    + exact Iv.
    + rewrite Em; discriminate.
    + rewrite <- Et. apply pcs_tm.
    + unfold pcs, s'; simpl. rewrite Et. apply pcs_upd_tm.
    + apply lspec_idle; intros; auto; try discriminate; exact I.
    + intros k E; discriminate.
    + intros rest maxs fl0 [E|E]; discriminate.
    + intros e He. left. exact He.
    + simpl; discriminate.
    + constructor; simpl; auto; try (intros e He Hr; apply S4; assumption); try (rewrite Hrecidle; exact I);
        try (split; [assumption|split; [exact I|assumption]]).
  - (* DShut *)
    destruct (ds_mode s) eqn:Em; try exact Iv.
    eapply inv_ext; [..|exact Iv]; simpl; auto.
  - (* DRec *)
    destruct (ds_mode s) eqn:Em.
    + (* down: start *) apply rec_start; assumption.
    + (* recovering *)
      destruct (drstep f (ds_d s) (ds_v s) (ds_rec s)) as [[d' v'] rr] eqn:Es.
      destruct (i_kinds _ Iv) as (Hkw & Hkt & Hkr).
      pose proof (drstep_spec _ _ _ _ _ _ _ Es Hkr) as Hspec.
      pose proof (i_mode _ Iv) as Him. rewrite Em in Him. destruct Him as [Hwsidle Htmidle].
      assert (Hrb : forall rest maxs fl0, ds_rec s = QScan rest maxs fl0 \/ ds_rec s = QRFinish maxs fl0 ->
                    maxs < v_next (ds_v s) /\ fl0 <= d_flushed (ds_d s)).
      { intros rest maxs fl0 HE. pose proof (i_rec _ Iv) as Hr. destruct HE as [E|E]; rewrite E in Hr; simpl in Hr; tauto. }
      destruct rr as [p'| |].
      * (* still recovering *)
        simpl in Hf. destruct (set_flag_zero _ _ Hf) as [Hf0 Hcls]. destruct Hspec as [LS Hk'].
        set (s' := mkDs d' v' MRec (ds_ws s) QIdle p' false (set_flag s (ds_rec s))).
        destruct (thread_step_core s s' (S (length (ds_ws s))) (ds_rec s) p') as (S1 & S2 & S3 & S4 & S5 & S6).
        -- exact Iv.
        -- rewrite Em; discriminate.
        -- apply pcs_rec.
        -- unfold pcs, s'; simpl. rewrite Htmidle. apply pcs_upd_rec.
        -- exact LS.
        -- exact Hcls.
        -- exact Hrb.
        -- intros e He. left. exact He.
        -- simpl; discriminate.
        -- constructor; simpl; auto; try (intros e He Hr; apply S4; assumption);
             try (split; [assumption|split; [exact I|assumption]]).
           ++ eapply drstep_rec_ok; [exact Es|exact Hkr|apply (i_rec _ Iv)|].
              intros x Hx.
              assert (Hin : In x (Lset s)).
              { apply (Lset_split s _ _ x (pcs_rec s)). right. left. exact Hx. }
              destruct (i_live _ Iv x (or_introl Hin)) as [Hw _]. destruct (wal_key_entry _ _ Hw) as (y & Hy & Ey & _).
              assert (Hup : ds_mode s <> MDown) by (rewrite Em; discriminate).
              destruct (i_next _ Iv Hup) as (Hnext & _). specialize (Hnext y Hy). lia.
      * (* up *)
        simpl in Hf. destruct (set_flag_zero _ _ Hf) as [Hf0 Hcls].
        set (s' := mkDs d' v' MUp (ds_ws s) QIdle QIdle false (set_flag s (ds_rec s))).
        destruct (thread_step_core s s' (S (length (ds_ws s))) (ds_rec s) QIdle) as (S1 & S2 & S3 & S4 & S5 & S6).
        -- exact Iv.
        -- rewrite Em; discriminate.
        -- apply pcs_rec.
        -- unfold pcs, s'; simpl. rewrite Htmidle. apply pcs_upd_rec.
        -- exact Hspec.
        -- exact Hcls.
        -- exact Hrb.
        -- intros e He. left. exact He.
        -- simpl; discriminate.
        -- constructor; simpl; auto; try (intros e He Hr; apply S4; assumption);
             try (split; [assumption|split; exact I]).
      * (* ensure_wal failed: the process is given up *)
        pose proof (drstep_fail _ _ _ _ _ _ Es) as Hd.
        destruct Hd as (Hd1 & Hd2 & Hd3).
        apply (go_down s); auto. rewrite Em; discriminate.
    + exact Iv.
  - (* DCrash *)
    destruct (ds_mode s) eqn:Em; try exact Iv.
    + apply (go_down s); auto; [rewrite Em; discriminate|apply crash_w_idle|].
      intros e He. rewrite acked_is_flat. apply crash_w_acked. exact He.
    + apply (go_down s); auto; [rewrite Em; discriminate|apply crash_w_idle|].
      intros e He. rewrite acked_is_flat. apply crash_w_acked. exact He.
  - (* DCrashRot *)
    destruct (ds_mode s) eqn:Em; try exact Iv.
    + apply (go_down s); auto; [rewrite Em; discriminate|apply wal_entries_rotated|apply crash_w_idle|].
      intros e He. rewrite acked_is_flat. apply crash_w_acked. exact He.
    + apply (go_down s); auto; [rewrite Em; discriminate|apply wal_entries_rotated|apply crash_w_idle|].
      intros e He. rewrite acked_is_flat. apply crash_w_acked. exact He.
Qed.

(* ------------------------------------------------------------------ *)
(* main theorems                                                        *)
(* ------------------------------------------------------------------ *)
Lemma inv_init todos : inv (dinit todos).
Proof.
  assert (Hidle : Forall (fun w => dw_pc w = QIdle) (map (fun t => mkDw QIdle t []) todos)).
  { induction todos; simpl; constructor; auto. }
  pose proof (pcs_all_idle _ Hidle) as Hpcs.
  assert (HL : Lset (dinit todos) = []).
  { unfold Lset, vL, pcs, dinit. simpl. apply idle_flat; [reflexivity|exact Hpcs]. }
  assert (HP : Pset (dinit todos) = []).
  { unfold Pset, pcs, dinit. simpl. apply idle_flat; [reflexivity|exact Hpcs]. }
  constructor; simpl.
  - exact I.
  - intros H; contradiction.
  - intros x Hx. rewrite HL, HP in Hx. destruct Hx as [[]|[]].
  - intros e He. exfalso. unfold acked_sbs, dinit in He. simpl in He.
    clear - He. induction todos as [|t r IH]; simpl in He; [exact He|apply IH; exact He].
  - eapply Forall_impl; [|exact Hpcs]. intros p ->. exact I.
  - eapply Forall_impl; [|exact Hpcs]. intros p ->. exact I.
  - split; [|split; exact I]. clear. induction todos; simpl; constructor; auto. exact I.
  - exact I.
  - split; [reflexivity|exact Hpcs].
Qed.

Lemma inv_run c ls : forall s, inv s -> ds_flag (drun c ls s) = 0 -> inv (drun c ls s).
Proof.
  induction ls as [|l t IH]; intros s Iv Hf; simpl in *; [exact Iv|].
  apply IH; [|exact Hf]. apply inv_step; [exact Iv|].
  destruct (N.eq_dec (ds_flag (dstep c l s)) 0) as [E|E]; [exact E|].
  exfalso. rewrite (flag_sticky_run c t _ E) in Hf. contradiction.
Qed.

Lemma inv_durable s : inv s -> Durable s.
Proof.
  intros Iv e r He Hr.
  assert (Hne : b_rows (snd e) <> []) by (intros E; rewrite E in Hr; destruct Hr).
  destruct (i_acked _ Iv e He Hne) as [Hc|Hq].
  - left. unfold dcat_rows. eapply InK_rows; eauto.
  - right. unfold replay_rows.
    assert (Hw : InK e (wal_sbs (ds_d s)) /\ d_flushed (ds_d s) < fst e).
    { destruct (ds_mode s); [exact Hq| |];
        (destruct (InK_elim _ _ Hq) as (x & Hx & Ek);
         destruct (i_live _ Iv x (or_introl Hx)) as [Hw Hf];
         assert (E1 : fst x = fst e) by (unfold skey in Ek; congruence);
         split; [eapply InK_key_eq; [exact Ek|exact Hw]|lia]). }
    destruct Hw as [Hw Hf]. destruct (InK_elim _ _ Hw) as (y & Hy & Ek).
    assert (E1 : fst y = fst e) by (unfold skey in Ek; congruence).
    apply (InK_rows e (replay_sbs (ds_d s)) r); [|exact Hr].
    eapply InK_key_eq; [exact Ek|]. apply InK_intro. apply replay_in. split; [exact Hy|lia].
Qed.

(* C01 modulo the two known classes: on every schedule on which the classifier
   stays silent, every row of every acknowledged write is in a registered
   chunk or is replayed by the next ensure_wal — in every reachable state,
   hence after any crash, restart, failed or retried flush. *)
Theorem durable_modulo_known : forall c todos ls,
  known_class c todos ls = 0 -> Durable (drun c ls (dinit todos)).
Proof.
  intros c todos ls H. apply inv_durable. apply inv_run; [apply inv_init|exact H].
Qed.

(* the same for every prefix: Durable holds all along the run *)
Theorem durable_modulo_known_prefix : forall c todos l1 l2,
  known_class c todos (l1 ++ l2) = 0 -> Durable (drun c l1 (dinit todos)).
Proof.
  intros c todos l1 l2 H. apply durable_modulo_known.
  unfold known_class, drun in *. rewrite fold_left_app in H.
  destruct (N.eq_dec (ds_flag (fold_left (fun s l => dstep c l s) l1 (dinit todos))) 0) as [E|E]; [exact E|].
  exfalso. pose proof (flag_sticky_run c l2 _ E) as Hs. unfold drun in Hs. rewrite Hs in H. contradiction.
Qed.

(* a complete fault-free ensure_wal from a crashed state brings back every
   replayable row: stated through the invariant as Durable of the state after
   recovery (rows are then in the catalog or again on disk above the mark and
   in the recovered buffer) — see inv_step for DRec. *)

(* ---------------- decidable form, for the witnesses ---------------- *)
Lemma row_eqb_refl r : row_eqb r r = true.
Proof. unfold row_eqb. rewrite N.eqb_refl, Z.eqb_refl. reflexivity. Qed.

Lemma mem_row_In r l : In r l -> mem_row r l = true.
Proof. intros H. unfold mem_row. apply existsb_exists. exists r. split; [exact H|apply row_eqb_refl]. Qed.

Lemma durable_b_complete s : Durable s -> durable_b s = true.
Proof.
  intros H. unfold durable_b. apply forallb_forall. intros e He. apply forallb_forall. intros r Hr.
  destruct (H e r He Hr) as [H1|H1]; rewrite (mem_row_In _ _ H1); [reflexivity|apply orb_true_r].
Qed.

(* ---------------- witnesses of the full statement's failure ---------------- *)
Definition wb (sch : N) (ids : list N) : wreq :=
  mkReq (mkBatch sch (map (fun i => mkRow i (Z.of_N i)) ids) 100) 1000 200.
Definition wcfg (rows : N) : dcfg := mkDcfg (mkCfg rows 1000000 1000000 0%Z) 1.
Definition up3 : list dlabel := [DRec FNone; DRec FNone; DRec FNone].
Definition wn (i : nat) (n : nat) : list dlabel := repeat (DW i FNone) n.

(* K1: writer 0's threshold flush has taken the buffer and is at its PUT;
   writer 1's write is logged (seq 2), buffered and acknowledged; the flush then
   reads last_wal_seq = 2, truncates and persists it. *)
Definition k1_todos : list (list wreq) := [[wb 1 [1; 2]]; [wb 1 [3]]].
Definition k1_sched : list dlabel := up3 ++ wn 0 4 ++ wn 1 4 ++ wn 0 5.

Lemma refuted_inflight_ack :
  durable_b (drun (wcfg 2) k1_sched (dinit k1_todos)) = false /\ known_class (wcfg 2) k1_todos k1_sched = 1.
Proof. vm_compute. split; reflexivity. Qed.

(* K1 with a single writer: the second write has another schema; its WAL
   sequence number is stored before the schema-change flush of the first batch
   runs, so that flush marks the second batch as flushed although it is only
   buffered (and acknowledged) afterwards. *)
Definition k1s_todos : list (list wreq) := [[wb 1 [1]; wb 2 [2]]].
Definition k1s_sched : list dlabel := up3 ++ wn 0 4 ++ wn 0 11.

Lemma refuted_schema_change_ack :
  durable_b (drun (wcfg 100) k1s_sched (dinit k1s_todos)) = false /\ known_class (wcfg 100) k1s_todos k1s_sched = 1.
Proof. vm_compute. split; reflexivity. Qed.

(* K2: the flush of [w1, w2] fails at its PUT (w1 was acknowledged, both are
   dropped); the later flush of [w3, w4] reads last_wal_seq = 4 and persists it. *)
Definition k2_todos : list (list wreq) := [[wb 1 [1]; wb 1 [2]; wb 1 [3]; wb 1 [4]]].
Definition k2_sched : list dlabel :=
  up3 ++ wn 0 4 ++ wn 0 4 ++ [DW 0 FBefore] ++ wn 0 4 ++ wn 0 4 ++ wn 0 5.

Lemma refuted_failed_flush :
  durable_b (drun (wcfg 2) k2_sched (dinit k2_todos)) = false /\ known_class (wcfg 2) k2_todos k2_sched = 2.
Proof. vm_compute. split; reflexivity. Qed.

Lemma not_durable_of_b s : durable_b s = false -> ~ Durable s.
Proof. intros H D. rewrite (durable_b_complete s D) in H. discriminate. Qed.

(* non-vacuity of durable_modulo_known: three writers (one idle), a failed
   flush, two crashes with restarts, and the classifier silent *)
Definition nv_todos : list (list wreq) := [[wb 1 [1]; wb 1 [2]]; [wb 1 [3]]; []].
Definition nv_sched : list dlabel :=
  up3 ++ wn 0 4 ++ [DCrash] ++ repeat (DRec FNone) 4 ++ wn 0 4 ++ [DW 0 FBefore; DCrash]
  ++ repeat (DRec FNone) 5 ++ wn 1 10 ++ [DShut; DT FNone; DT FNone].

Example modulo_known_nonvacuous :
  known_class (wcfg 2) nv_todos nv_sched = 0
  /\ length (acked_sbs (drun (wcfg 2) nv_sched (dinit nv_todos))) = 2%nat
  /\ durable_b (drun (wcfg 2) nv_sched (dinit nv_todos)) = true.
Proof. vm_compute. repeat split. Qed.

(* ------------------------------------------------------------------ *)
(* runs at the granularity of the harness are step-level runs           *)
(* ------------------------------------------------------------------ *)
Lemma drun_app c l1 l2 s : drun c (l1 ++ l2) s = drun c l2 (drun c l1 s).
Proof. unfold drun. apply fold_left_app. Qed.

Lemma dsettle_w_is_run c fuel : forall i s, exists ls, dsettle_w c fuel i s = drun c ls s.
Proof.
  induction fuel as [|f IH]; intros i s; cbn [dsettle_w]; [exists []; reflexivity|].
  destruct (ds_mode s); try (exists []; reflexivity).
  destruct (nth_error (ds_ws s) i) as [w|]; [|exists []; reflexivity].
  destruct (dw_parked w); [exists []; reflexivity|].
  destruct (IH i (dstep c (DW i FNone) s)) as [ls Hls]. exists (DW i FNone :: ls). exact Hls.
Qed.

Lemma dsettle_t_is_run c fuel : forall s, exists ls, dsettle_t c fuel s = drun c ls s.
Proof.
  induction fuel as [|f IH]; intros s; cbn [dsettle_t]; [exists []; reflexivity|].
  destruct (ds_mode s); try (exists []; reflexivity).
  destruct (dt_parked s); [exists []; reflexivity|].
  destruct (IH (dstep c (DT FNone) s)) as [ls Hls]. exists (DT FNone :: ls). exact Hls.
Qed.

Lemma dsettle_r_is_run c fuel : forall s, exists ls, dsettle_r c fuel s = drun c ls s.
Proof.
  induction fuel as [|f IH]; intros s; cbn [dsettle_r]; [exists []; reflexivity|].
  destruct (dr_parked s); [exists []; reflexivity|].
  destruct (IH (dstep c (DRec FNone) s)) as [ls Hls]. exists (DRec FNone :: ls). exact Hls.
Qed.

Lemma dmacro_is_run c fuel l s : exists ls, dmacro c fuel l s = drun c ls s.
Proof.
  destruct l as [i f|f| | |f| |]; cbn [dmacro].
  - destruct (dsettle_w_is_run c fuel i (dstep c (DW i f) s)) as [ls H]. exists (DW i f :: ls). exact H.
  - destruct (dsettle_t_is_run c fuel (dstep c (DT f) s)) as [ls H]. exists (DT f :: ls). exact H.
  - destruct (dsettle_t_is_run c fuel (dstep c DTick s)) as [ls H]. exists (DTick :: ls). exact H.
  - destruct (dsettle_t_is_run c fuel (dstep c DShut s)) as [ls H]. exists (DShut :: ls). exact H.
  - destruct (dsettle_r_is_run c fuel (dstep c (DRec f) s)) as [ls H]. exists (DRec f :: ls). exact H.
  - exists [DCrash]. reflexivity.
  - exists [DCrashRot]. reflexivity.
Qed.

Theorem dmacro_run_is_run : forall c fuel ms s,
  exists ls, fold_left (fun s l => dmacro c fuel l s) ms s = drun c ls s.
Proof.
  intros c fuel ms. induction ms as [|m t IH]; intros s; [exists []; reflexivity|].
  cbn [fold_left]. destruct (dmacro_is_run c fuel m s) as [l1 H1]. destruct (IH (dmacro c fuel m s)) as [l2 H2].
  exists (l1 ++ l2). rewrite drun_app, <- H1. exact H2.
Qed.
