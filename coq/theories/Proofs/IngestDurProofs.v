(* Proofs/IngestDurProofs.v — C01: for every schedule of writer / timer /
   recovery steps, storage faults and crashes on which the classifier does not
   fire, every row of every acknowledged write is in the catalog or in a WAL
   entry that the next recovery replays (Durable); plus the two refutation
   witnesses of the full statement.

   Invariant (while the classifier flag is 0), with
     L = batches that exist in volatile memory and may belong to acknowledged
         writes: buffer, taken by a running flush, waiting to be replayed,
         dropped by a failed flush;
     P = batches a writer has logged but not buffered yet:
   (B) every element of L ∪ P has its WAL entry on disk and a sequence number
       above the persisted mark;
   (C) every acknowledged batch is in the catalog or in L (process up) /
       on disk above the mark (process down);
   (D) a flush that has read last_wal_seq = S (and will truncate / persist
       with it) has S below every element of L ∪ P and below next_seq;
   plus bookkeeping: WAL sequence numbers strictly increase and stay below
   next_seq, last_wal_seq < next_seq, the threshold path's own batch is among
   the taken ones / in the catalog, recovery's bounds.  Batches are compared by
   key = (sequence number, rows): a replayed copy differs from the original
   only in its memory size. *)
From CS Require Import Base.Prelude Model.Ingest Model.IngestDur.
From CSGen Require Import Consts.
Open Scope N_scope.

(* ------------------------------------------------------------------ *)
(* keys                                                                 *)
(* ------------------------------------------------------------------ *)
Definition skey (e : sb) : N * list row := (fst e, b_rows (snd e)).
Definition InK (e : sb) (l : list sb) : Prop := In (skey e) (map skey l).

Lemma InK_intro e l : In e l -> InK e l.
Proof. intros H. unfold InK. apply in_map. exact H. Qed.

Lemma InK_elim e l : InK e l -> exists x, In x l /\ skey x = skey e.
Proof. unfold InK. intros H. apply in_map_iff in H. destruct H as (x & E & Hx). exists x; auto. Qed.

Lemma InK_app e l1 l2 : InK e (l1 ++ l2) <-> InK e l1 \/ InK e l2.
Proof. unfold InK. rewrite map_app, in_app_iff. tauto. Qed.

Lemma InK_key_eq e e' l : skey e = skey e' -> InK e l -> InK e' l.
Proof. unfold InK. intros E H. rewrite <- E. exact H. Qed.

Lemma sb_rows_in l x r : In x l -> In r (b_rows (snd x)) -> In r (sb_rows l).
Proof.
  unfold sb_rows, rows_of. intros Hx Hr. apply in_flat_map. exists (snd x). split; [|exact Hr].
  apply in_map. exact Hx.
Qed.

Lemma InK_rows e l r : InK e l -> In r (b_rows (snd e)) -> In r (sb_rows l).
Proof.
  intros H Hr. destruct (InK_elim _ _ H) as (x & Hx & E). unfold skey in E. inversion E as [[E1 E2]].
  apply (sb_rows_in l x r Hx). rewrite E2. exact Hr.
Qed.

(* ------------------------------------------------------------------ *)
(* strictly increasing sequence numbers; truncation                     *)
(* ------------------------------------------------------------------ *)
Fixpoint ssorted (l : list N) : Prop :=
  match l with [] => True | x :: r => (forall y, In y r -> x < y) /\ ssorted r end.

Lemma ssorted_app l1 l2 :
  ssorted (l1 ++ l2) <-> ssorted l1 /\ ssorted l2 /\ (forall x y, In x l1 -> In y l2 -> x < y).
Proof.
  induction l1 as [|a r IH]; simpl.
  - split; [intros H; repeat split; auto; intros x y []|intros (_ & H & _); exact H].
  - rewrite IH. split.
    + intros (Ha & H1 & H2 & H3). split; [split; [|exact H1]|split; [exact H2|]].
      * intros y Hy. apply Ha. apply in_or_app. left; exact Hy.
      * intros x y [E|Hx] Hy; [subst; apply Ha; apply in_or_app; right; exact Hy|apply H3; assumption].
    + intros ((Ha & H1) & H2 & H3). split; [|split; [exact H1|split; [exact H2|]]].
      * intros y Hy. apply in_app_or in Hy. destruct Hy as [Hy|Hy]; [apply Ha; exact Hy|apply H3; [left; reflexivity|exact Hy]].
      * intros x y Hx Hy. apply H3; [right; exact Hx|exact Hy].
Qed.

Definition seqs (l : list wentry) : list N := map we_seq l.
Definition wal_sorted (d : durable) : Prop := ssorted (seqs (wal_entries d)).

Lemma last_seq_max sg l : ssorted (seqs sg) -> last_seq sg = Some l -> forall x, In x sg -> we_seq x <= l.
Proof.
  induction sg as [|a r IH]; simpl; [discriminate|]. intros [Ha Hs] Hl x Hx.
  destruct r as [|b r'].
  - inversion Hl; subst. destruct Hx as [E|[]]. subst. lia.
  - destruct Hx as [E|Hx].
    + subst x. assert (Hb : we_seq a < l).
      { clear IH. assert (Hin : In l (seqs (b :: r'))).
        { clear - Hl. revert b Hl. induction r' as [|c r'' IH2]; intros b Hl; simpl in *.
          - inversion Hl. left; reflexivity.
          - right. apply (IH2 c). exact Hl. }
        apply Ha. exact Hin. }
      lia.
    + apply IH; assumption.
Qed.

Lemma last_seq_none sg : last_seq sg = None -> sg = [].
Proof. destruct sg as [|a r]; [reflexivity|]. simpl. revert a. induction r as [|b r' IH]; intros a; [discriminate|]. intros H. specialize (IH b H). discriminate. Qed.

Lemma trunc_keeps b segs : ssorted (seqs (concat segs)) ->
  forall x, In x (concat segs) -> b <= we_seq x -> In x (concat (trunc b segs)).
Proof.
  induction segs as [|sg r IH]; simpl; intros Hs x Hx Hb; [exact Hx|].
  unfold seqs in Hs. rewrite map_app in Hs. apply ssorted_app in Hs. destruct Hs as (Hs1 & Hs2 & Hs3).
  destruct (last_seq sg) as [l|] eqn:El.
  - destruct (l <? b) eqn:Elb.
    + apply N.ltb_lt in Elb. apply in_app_or in Hx. destruct Hx as [Hx|Hx].
      * pose proof (last_seq_max sg l Hs1 El x Hx). lia.
      * apply IH; assumption.
    + exact Hx.
  - apply last_seq_none in El. subst sg. simpl in *. apply IH; assumption.
Qed.

Lemma trunc_incl b segs x : In x (concat (trunc b segs)) -> In x (concat segs).
Proof.
  induction segs as [|sg r IH]; simpl; [auto|].
  destruct (last_seq sg) as [l|].
  - destruct (l <? b); [intros H; apply in_or_app; right; apply IH; exact H|auto].
  - simpl. intros H. apply in_app_or in H. apply in_or_app. destruct H; [left; assumption|right; apply IH; assumption].
Qed.

Lemma trunc_sorted b segs act : ssorted (seqs (concat segs ++ act)) -> ssorted (seqs (concat (trunc b segs) ++ act)).
Proof.
  induction segs as [|sg r IH]; simpl; [auto|]. intros Hs.
  assert (Hr : ssorted (seqs (concat r ++ act))).
  { unfold seqs in *. rewrite <- app_assoc, map_app in Hs. apply ssorted_app in Hs. tauto. }
  destruct (last_seq sg) as [l|].
  - destruct (l <? b); [apply IH; exact Hr|exact Hs].
  - simpl. unfold seqs in *. rewrite <- app_assoc, map_app in *. apply ssorted_app in Hs.
    destruct Hs as (H1 & H2 & H3). apply ssorted_app. split; [exact H1|]. split; [apply IH; exact Hr|].
    intros x y Hx Hy. apply H3; [exact Hx|]. rewrite in_map_iff in *. destruct Hy as (e & E & He).
    exists e. split; [exact E|]. apply in_app_or in He. apply in_or_app. destruct He as [He|He]; [left; eapply trunc_incl; eauto|right; exact He].
Qed.

(* ------------------------------------------------------------------ *)
(* volatile batches: L (may be acknowledged) and P (logged, not buffered) *)
(* ------------------------------------------------------------------ *)
Definition cont_rest (k : dcont) : list sb := match k with DRecover rest _ _ => rest | _ => [] end.
Definition cont_pend (k : dcont) : list sb := match k with DRetry e => [e] | _ => [] end.
Definition pc_L (p : dpc) : list sb :=
  match p with
  | QPut bs k | QReg bs k => bs ++ cont_rest k
  | QLoad k | QTrunc _ k | QPersist _ k | QFin k => cont_rest k
  | QScan rest _ _ => rest
  | _ => []
  end.
Definition pc_P (p : dpc) : list sb :=
  match p with
  | QSeq e | QLock e | QRelock e => [e]
  | QPut _ k | QReg _ k | QLoad k | QTrunc _ k | QPersist _ k | QFin k => cont_pend k
  | _ => []
  end.

Definition pcs (s : dstate) : list dpc := map dw_pc (ds_ws s) ++ [ds_tm s; ds_rec s].
Definition vL (v : volatile) : list sb := db_items (v_buf v) ++ v_dropped v.
Definition Lset (s : dstate) : list sb := vL (ds_v s) ++ flat_map pc_L (pcs s).
Definition Pset (s : dstate) : list sb := flat_map pc_P (pcs s).

Lemma pc_live_LP p x : In x (pc_live p) <-> In x (pc_L p) \/ In x (pc_P p).
Proof.
  destruct p; simpl; try tauto;
    try (destruct k; simpl; rewrite ?in_app_iff; simpl; tauto).
Qed.

Lemma flat_map_map {A B C} (f : B -> list C) (g : A -> B) l : flat_map f (map g l) = flat_map (fun x => f (g x)) l.
Proof. induction l as [|a r IH]; simpl; [reflexivity|]. rewrite IH. reflexivity. Qed.

Lemma in_flat_map_LP (l : list dpc) x :
  In x (flat_map pc_live l) <-> In x (flat_map pc_L l) \/ In x (flat_map pc_P l).
Proof.
  induction l as [|p r IH]; simpl; [tauto|]. rewrite !in_app_iff, IH, pc_live_LP. tauto.
Qed.

Lemma unsafe_LP s x : In x (unsafe_sbs s) <-> In x (Lset s) \/ In x (Pset s).
Proof.
  unfold unsafe_sbs, Lset, Pset, vL, pcs.
  rewrite !flat_map_app, !flat_map_map. simpl. rewrite !app_nil_r.
  rewrite !in_app_iff.
  assert (H1 := in_flat_map_LP (map dw_pc (ds_ws s)) x). rewrite !flat_map_map in H1.
  rewrite H1, !pc_live_LP. tauto.
Qed.

Lemma covers_false m l : covers m l = false -> forall x, In x l -> m < fst x.
Proof.
  unfold covers. intros H x Hx. destruct (fst x <=? m) eqn:E.
  - exfalso. rewrite (proj2 (existsb_exists _ l)) in H; [discriminate|]. exists x. split; [exact Hx|exact E].
  - apply N.leb_gt in E. exact E.
Qed.

Lemma classify_zero s : classify s = 0 ->
  forall x, In x (Lset s) \/ In x (Pset s) -> v_lws (ds_v s) < fst x.
Proof.
  unfold classify. intros H x Hx.
  destruct (covers (v_lws (ds_v s)) (v_dropped (ds_v s))); [discriminate|].
  destruct (covers (v_lws (ds_v s)) (unsafe_sbs s)) eqn:E; [discriminate|].
  apply (covers_false _ _ E). apply unsafe_LP. exact Hx.
Qed.

(* ------------------------------------------------------------------ *)
(* lists with one position updated                                      *)
(* ------------------------------------------------------------------ *)
Lemma upd_In_flat {A B} (f : A -> list B) l : forall i a a' x,
  nth_error l i = Some a -> In x (flat_map f (upd i a' l)) ->
  In x (f a') \/ (In x (flat_map f l)).
Proof.
  induction l as [|y r IH]; intros i a a' x Hn Hx; [destruct i; discriminate|].
  destruct i as [|j]; simpl in *.
  - inversion Hn; subst. apply in_app_or in Hx. destruct Hx; [left; assumption|right; apply in_or_app; right; assumption].
  - apply in_app_or in Hx. destruct Hx as [Hx|Hx]; [right; apply in_or_app; left; exact Hx|].
    destruct (IH j a a' x Hn Hx) as [H|H]; [left; exact H|right; apply in_or_app; right; exact H].
Qed.

(* membership in the flat_map after an update, split into the updated
   element and the untouched others *)
Definition others {A B} (f : A -> list B) (i : nat) (l : list A) : list B :=
  flat_map f (firstn i l) ++ flat_map f (skipn (S i) l).

Lemma flat_others {A B} (f : A -> list B) l : forall i a x,
  nth_error l i = Some a -> (In x (flat_map f l) <-> In x (f a) \/ In x (others f i l)).
Proof.
  unfold others. induction l as [|y r IH]; intros i a x Hn; [destruct i; discriminate|].
  destruct i as [|j]; simpl in *.
  - inversion Hn; subst. rewrite in_app_iff. tauto.
  - rewrite !in_app_iff, (IH j a x Hn), in_app_iff. tauto.
Qed.

Lemma nth_error_upd_same {A} (l : list A) : forall i a a', nth_error l i = Some a -> nth_error (upd i a' l) i = Some a'.
Proof. induction l as [|y r IH]; intros [|j] a a' H; simpl in *; try discriminate; auto. eapply IH; eauto. Qed.

Lemma others_upd {A B} (f : A -> list B) l : forall i a', others f i (upd i a' l) = others f i l.
Proof.
  unfold others. induction l as [|y r IH]; intros [|j] a'; simpl; auto.
  rewrite <- !app_assoc. f_equal. apply IH.
Qed.

Lemma Forall_upd_nth {A} (P : A -> Prop) l : forall i a', Forall P l -> P a' -> Forall P (upd i a' l).
Proof.
  induction l as [|y r IH]; intros [|j] a' HF Ha; simpl; auto; inversion HF; subst; constructor; auto.
Qed.

Lemma Forall_upd_inv {A} (P Q : A -> Prop) l : forall i a a',
  nth_error l i = Some a -> Forall P l -> (forall y, P y -> Q y) -> Q a' -> Forall Q (upd i a' l).
Proof.
  induction l as [|y r IH]; intros [|j] a a' Hn HF Himp Ha; simpl in *; try discriminate.
  - inversion HF; subst. constructor; [exact Ha|]. eapply Forall_impl; eauto.
  - inversion HF; subst. constructor; [auto|]. eapply IH; eauto.
Qed.

(* ------------------------------------------------------------------ *)
(* what one step of one thread does (local specification)               *)
(* ------------------------------------------------------------------ *)
Definition fresh_of (v : volatile) (p : dpc) (x : sb) : Prop :=
  exists r, p = QWal r /\ x = (v_next v, rq_b r).

Definition dur_change (d : durable) (v : volatile) (p : dpc) (d' : durable) (v' : volatile) : Prop :=
  (wal_entries d' = wal_entries d /\ d_flushed d' = d_flushed d /\ v_next v' = v_next v)
  \/ (exists r, p = QWal r
        /\ wal_entries d' = wal_entries d ++ [mkWe (v_next v) (rq_b r) (rq_len r) (rq_rsize r)]
        /\ d_flushed d' = d_flushed d /\ v_next v' = v_next v + 1)
  \/ (exists b, ((exists k, p = QTrunc b k) \/ (exists maxs fl0, p = QRFinish maxs fl0 /\ b = fl0 + 1))
        /\ d_segs d' = trunc b (d_segs d) /\ d_active d' = d_active d
        /\ d_flushed d' = d_flushed d /\ v_next v' = v_next v)
  \/ (exists m k, p = QPersist m k /\ wal_entries d' = wal_entries d /\ d_flushed d' = m
        /\ v_next v' = v_next v).

(* the threshold path's own batch is among the taken ones until they are
   registered, and in the catalog afterwards *)
Definition own_ok (d : durable) (p : dpc) : Prop :=
  match p with
  | QPut bs (DDone e) | QReg bs (DDone e) => In e bs
  | QLoad (DDone e) | QTrunc _ (DDone e) | QPersist _ (DDone e) | QFin (DDone e) => InK e (cat_sbs d)
  | _ => True
  end.

Definition after_reg (p : dpc) (e : sb) : Prop :=
  match p with
  | QLoad (DDone e') | QTrunc _ (DDone e') | QPersist _ (DDone e') | QFin (DDone e') => e' = e
  | _ => False
  end.

Record lspec (d : durable) (v : volatile) (p : dpc) (d' : durable) (v' : volatile) (p' : dpc) : Prop := {
  ls_origin : forall x, In x (vL v' ++ pc_L p' ++ pc_P p') ->
                        In x (vL v ++ pc_L p ++ pc_P p) \/ fresh_of v p x;
  ls_keep : forall x, In x (vL v ++ pc_L p) -> In x (vL v' ++ pc_L p') \/ In x (cat_sbs d');
  ls_cat : forall x, In x (cat_sbs d) -> In x (cat_sbs d');
  ls_dur : dur_change d v p d' v';
  ls_lws : v_lws v' = v_lws v \/ (exists e, p = QSeq e /\ v_lws v' = fst e)
           \/ (exists rest maxs fl0, (p = QScan rest maxs fl0 \/ p = QRFinish maxs fl0) /\ v_lws v' = maxs);
  ls_own : own_ok d p -> own_ok d' p';
  ls_trunc : forall m k, p' = QTrunc m k -> p = QLoad k /\ m = v_lws v;
  ls_persist : forall m k, p' = QPersist m k -> p = QTrunc m k
}.

Lemma cat_sbs_add d bs : cat_sbs (add_cat d bs) = cat_sbs d ++ bs.
Proof. unfold cat_sbs, add_cat; simpl. rewrite concat_app. simpl. rewrite app_nil_r. reflexivity. Qed.

Lemma dur_same d v p v' : v_next v' = v_next v -> dur_change d v p d v'.
Proof. intros H. left. auto. Qed.

Ltac inapp := repeat (rewrite ?in_app_iff in *; simpl in * ).

(* the pc a thread continues with after its flush produced r *)
Definition after_ok (r : dfres) (p' : dpc) : Prop :=
  match r with
  | GPc q => p' = q
  | GOk k => (forall x, In x (pc_L p') <-> In x (cont_rest k)) /\ (forall x, In x (pc_P p') -> In x (cont_pend k))
             /\ (forall d, own_ok d p') /\ (forall m k', p' <> QTrunc m k') /\ (forall m k', p' <> QPersist m k')
  | GErr k => cont_rest k = [] /\ pc_L p' = [] /\ (forall x, In x (pc_P p') -> In x (cont_pend k))
              /\ (forall d, own_ok d p') /\ (forall m k', p' <> QTrunc m k') /\ (forall m k', p' <> QPersist m k')
  end.


Ltac split_in :=
  repeat match goal with
         | H : _ \/ _ |- _ => destruct H
         | H : False |- _ => destruct H
         end.

Ltac lfin :=
  try discriminate; auto using dur_same;
  try solve [unfold vL in *; inapp; tauto];
  try solve [exfalso; match goal with Ht : forall m k', ?p <> QTrunc m k', E : ?p = QTrunc _ _ |- _ => eapply Ht; exact E end];
  try solve [exfalso; match goal with Ht : forall m k', ?p <> QPersist m k', E : ?p = QPersist _ _ |- _ => eapply Ht; exact E end];
  try solve [unfold vL in *; inapp; split_in;
             repeat match goal with
                    | HP : forall x, In x (pc_P ?p) -> _, H : In _ (pc_P ?p) |- _ => apply HP in H
                    | HL : forall x, In x (pc_L ?p) <-> _, H : In _ (pc_L ?p) |- _ => apply HL in H
                    end; simpl in *; tauto];
  try solve [unfold vL in *; inapp; split_in; auto;
             match goal with HL : forall x, In x (pc_L ?p) <-> _ |- _ => rewrite HL; tauto end];
  try solve [left; simpl; auto];
  try solve [match goal with E : _ = _ |- _ => inversion E; subst; auto end];
  try solve [match goal with k : dcont |- _ => destruct k; simpl in *; auto; apply InK_app; right; apply InK_intro; assumption end];
  try solve [match goal with k : dcont |- _ => destruct k; simpl in *; auto; apply InK_app; left; assumption end].

Lemma flush_lspec hw f d v p d' v' r p' :
  dflush_step hw f d v p = Some (d', v', r) -> after_ok r p' -> lspec d v p d' v' p'.
Proof.
  intros H Ha. destruct p; simpl in H; try discriminate.
  - (* QPut *)
    destruct f; inversion H; subst; clear H; simpl in Ha.
    + subst p'. constructor; simpl; intros; lfin.
    + destruct Ha as (Hr & HL & HP & Ho & Ht & Hp).
      constructor; simpl; intros; rewrite ?Hr, ?HL in *; lfin.
    + destruct Ha as (Hr & HL & HP & Ho & Ht & Hp).
      constructor; simpl; intros; rewrite ?Hr, ?HL in *; lfin.
  - (* QReg *)
    destruct f; inversion H; subst; clear H; simpl in Ha.
    + subst p'. constructor; simpl; intros; rewrite ?cat_sbs_add in *; lfin.
    + destruct Ha as (Hr & HL & HP & Ho & Ht & Hp).
      constructor; simpl; intros; rewrite ?Hr, ?HL, ?cat_sbs_add in *; lfin.
    + destruct Ha as (Hr & HL & HP & Ho & Ht & Hp).
      constructor; simpl; intros; rewrite ?Hr, ?HL, ?cat_sbs_add in *; lfin.
  - (* QLoad *)
    inversion H; subst; clear H; simpl in Ha. subst p'.
    constructor; simpl; intros; lfin.
  - (* QTrunc *)
    destruct (0 <? s) eqn:Es; inversion H; subst; clear H; simpl in Ha.
    + subst p'. constructor; simpl; intros; destruct hw; lfin.
      right; right; left. exists s. split; [left; eauto|]. simpl. auto.
    + destruct Ha as (HL & HP & Ho & Ht & Hp).
      constructor; simpl; intros; lfin.
  - (* QPersist *)
    inversion H; subst; clear H; simpl in Ha. subst p'.
    constructor; simpl; intros; lfin.
    right; right; right. exists s, k. simpl. auto.
  - (* QFin *)
    inversion H; subst; clear H; simpl in Ha. destruct Ha as (HL & HP & Ho & Ht & Hp).
    constructor; simpl; intros; lfin.
Qed.

(* which continuations each kind of thread can carry *)
Definition pc_cont (p : dpc) : option dcont :=
  match p with
  | QPut _ k | QReg _ k | QLoad k | QTrunc _ k | QPersist _ k | QFin k => Some k
  | _ => None
  end.
Definition wkind (p : dpc) : Prop :=
  match pc_cont p with Some (DRetry _) | Some (DDone _) | None => True | _ => False end.
Definition tkind (p : dpc) : Prop :=
  match pc_cont p with Some DTimer | Some DShutK | None => True | _ => False end.
Definition rkind (p : dpc) : Prop :=
  match pc_cont p with Some (DRecover _ _ _) | None => True | _ => False end.

Lemma lspec_idle d v p' : pc_L p' = [] -> pc_P p' = [] -> (forall d0, own_ok d0 p') ->
  (forall m k, p' <> QTrunc m k) -> (forall m k, p' <> QPersist m k) ->
  forall p, pc_L p = [] -> pc_P p = [] -> lspec d v p d v p'.
Proof.
  intros HL HP Ho Ht Hp p HL0 HP0.
  constructor; intros; rewrite ?HL, ?HP, ?HL0, ?HP0 in *; auto using dur_same.
  - exfalso; eapply Ht; eauto.
  - exfalso; eapply Hp; eauto.
Qed.

Lemma wal_entries_append c d v r d' v' e :
  wal_append c d v r = (d', v', e) ->
  wal_entries d' = wal_entries d ++ [mkWe (v_next v) (rq_b r) (rq_len r) (rq_rsize r)]
  /\ d_flushed d' = d_flushed d /\ d_cat d' = d_cat d /\ v_next v' = v_next v + 1
  /\ v_buf v' = v_buf v /\ v_dropped v' = v_dropped v /\ v_lws v' = v_lws v /\ e = (v_next v, rq_b r).
Proof.
  unfold wal_append. intros H. inversion H; subst; clear H. unfold wal_entries; simpl.
  repeat split.
  destruct ((0 <? dc_max_seg c) && (dc_max_seg c <? v_size v + entry_size (mkWe (v_next v) (rq_b r) (rq_len r) (rq_rsize r)))).
  - rewrite concat_app. simpl. rewrite app_nil_r, <- app_assoc. reflexivity.
  - rewrite <- app_assoc. reflexivity.
Qed.

Definition res_change (w w' : dwthread) (v' : volatile) : Prop :=
  dw_res w' = dw_res w \/
  exists e r, dw_res w' = dw_res w ++ [(e, r)] /\
              (r = ROk -> b_rows (snd e) = [] \/ In e (db_items (v_buf v')) \/ after_reg (dw_pc w) e).

Definition res_kind_w (r : dfres) : Prop :=
  match r with
  | GPc p => wkind p
  | GOk (DRetry _) | GOk (DDone _) | GErr (DRetry _) | GErr (DDone _) => True
  | _ => False
  end.

Lemma dw_after_ok r w : res_kind_w r -> after_ok r (dw_pc (dw_after r w)) /\ wkind (dw_pc (dw_after r w)).
Proof.
  destruct r as [q|k|k]; simpl; intros Hk.
  - split; [reflexivity|exact Hk].
  - destruct k; simpl in *; try contradiction; (split; [|exact I]); repeat split; intros; simpl in *; try tauto; try discriminate.
  - destruct k; simpl in *; try contradiction; (split; [|exact I]); repeat split; intros; simpl in *; try tauto; try discriminate.
Qed.

Lemma flush_res_kind_w hw f d v p d' v' r :
  dflush_step hw f d v p = Some (d', v', r) -> wkind p -> res_kind_w r.
Proof.
  unfold wkind. destruct p; simpl; try discriminate; intros H Hk;
    try (destruct f); try (destruct (0 <? s)); inversion H; subst; simpl; unfold wkind; simpl;
    destruct k; simpl in *; auto.
Qed.

Lemma dbegin_snoc l e k : dbegin_flush (l ++ [e]) k = GPc (QPut (l ++ [e]) k).
Proof. destruct l; reflexivity. Qed.

Lemma dwstep_spec c f d v w d' v' w' :
  dwstep c f d v w = (d', v', w') -> wkind (dw_pc w) ->
  lspec d v (dw_pc w) d' v' (dw_pc w') /\ wkind (dw_pc w') /\ res_change w w' v'.
Proof.
  unfold dwstep, res_change. intros H Hk. destruct (dw_pc w) eqn:Hpc.
  - (* QIdle *)
    destruct (dw_todo w) as [|r rest].
    + inversion H; subst. rewrite Hpc. split; [|split; [exact I|left; reflexivity]].
      apply lspec_idle; intros; auto; try discriminate; simpl; auto.
    + destruct (b_rows (rq_b r)) eqn:Hr; inversion H; subst; simpl.
      * split; [|split; [exact I|]].
        -- apply lspec_idle; intros; auto; try discriminate; simpl; auto.
        -- right. exists (0, rq_b r), ROk. split; [reflexivity|]. intros _. left. exact Hr.
      * split; [|split; [exact I|left; reflexivity]].
        apply lspec_idle; intros; auto; try discriminate; simpl; auto.
  - (* QWal *)
    destruct (wal_append c d v r) as [[d1 v1] e] eqn:Ea. inversion H; subst; clear H. simpl.
    destruct (wal_entries_append _ _ _ _ _ _ _ Ea) as (E1 & E2 & E3 & E4 & E5 & E6 & E7 & E8).
    split; [|split; [exact I|left; reflexivity]].
    constructor; simpl; intros; try discriminate; auto.
    + unfold vL in *. rewrite E5, E6 in *. inapp. destruct H as [H|[H|[]]]; auto.
      right. exists r. split; [reflexivity|]. rewrite <- H. exact E8.
    + unfold vL in *. rewrite E5, E6. auto.
    + unfold cat_sbs in *. rewrite E3. exact H.
    + right; left. exists r. auto.
  - (* QSeq *)
    inversion H; subst; clear H. simpl. split; [|split; [exact I|left; reflexivity]].
    constructor; simpl; intros; try discriminate; auto using dur_same.
    right; left. exists e. auto.
  - (* QLock *)
    destruct (negb (db_compatible (v_buf v) e)).
    + inversion H; subst; clear H.
      destruct (dw_after_ok (dbegin_flush (db_items (v_buf v)) (DRetry e)) w) as [Ha Hk'].
      { destruct (db_items (v_buf v)); simpl; exact I. }
      split; [|split; [exact Hk'|]].
      * destruct (db_items (v_buf v)) as [|x0 r0] eqn:Ei; simpl in *;
          constructor; unfold vL; simpl; intros; rewrite ?Ei in *; try discriminate; auto using dur_same; inapp; tauto.
      * left. destruct (db_items (v_buf v)); reflexivity.
    + destruct (cf_max_bytes (dc_c c) <? db_bytes (v_buf v) + b_size (snd e)).
      * inversion H; subst; clear H. simpl. split; [|split; [exact I|]].
        -- constructor; unfold vL; simpl; intros; try discriminate; auto using dur_same; inapp; tauto.
        -- right. exists e, RFull. split; [reflexivity|discriminate].
      * destruct (db_should_flush (dc_c c) (db_append (v_buf v) e)).
        -- cbn [db_items db_append] in H. rewrite dbegin_snoc in H. inversion H; subst; clear H. simpl.
           split; [|split; [exact I|left; reflexivity]].
           constructor; unfold vL; simpl; intros; try discriminate; auto using dur_same.
           ++ inapp. tauto.
           ++ inapp. tauto.
           ++ apply in_or_app. right. left. reflexivity.
        -- inversion H; subst; clear H. simpl. split; [|split; [exact I|]].
           ++ constructor; unfold vL; simpl; intros; try discriminate; auto using dur_same; inapp; tauto.
           ++ right. exists e, ROk. split; [reflexivity|]. intros _. right. left. apply in_or_app. right. left. reflexivity.
  - (* QRelock *)
    destruct (negb (db_compatible (v_buf v) e)).
    + inversion H; subst; clear H.
      destruct (dw_after_ok (dbegin_flush (db_items (v_buf v)) (DRetry e)) w) as [Ha Hk'].
      { destruct (db_items (v_buf v)); simpl; exact I. }
      split; [|split; [exact Hk'|]].
      * destruct (db_items (v_buf v)) as [|x0 r0] eqn:Ei; simpl in *;
          constructor; unfold vL; simpl; intros; rewrite ?Ei in *; try discriminate; auto using dur_same; inapp; tauto.
      * left. destruct (db_items (v_buf v)); reflexivity.
    + destruct (cf_max_bytes (dc_c c) <? db_bytes (v_buf v) + b_size (snd e)).
      * inversion H; subst; clear H. simpl. split; [|split; [exact I|]].
        -- constructor; unfold vL; simpl; intros; try discriminate; auto using dur_same; inapp; tauto.
        -- right. exists e, RFull. split; [reflexivity|discriminate].
      * destruct (db_should_flush (dc_c c) (db_append (v_buf v) e)).
        -- cbn [db_items db_append] in H. rewrite dbegin_snoc in H. inversion H; subst; clear H. simpl.
           split; [|split; [exact I|left; reflexivity]].
           constructor; unfold vL; simpl; intros; try discriminate; auto using dur_same.
           ++ inapp. tauto.
           ++ inapp. tauto.
           ++ apply in_or_app. right. left. reflexivity.
        -- inversion H; subst; clear H. simpl. split; [|split; [exact I|]].
           ++ constructor; unfold vL; simpl; intros; try discriminate; auto using dur_same; inapp; tauto.
           ++ right. exists e, ROk. split; [reflexivity|]. intros _. right. left. apply in_or_app. right. left. reflexivity.
  - admit.
  - admit.
  - admit.
  - admit.
  - admit.
  - admit.
  - admit.
  - admit.
  - admit.
  - admit.
  - admit.
  - admit.
Abort.
