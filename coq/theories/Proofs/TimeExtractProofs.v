(* Proofs/TimeExtractProofs.v — C04: the time range and the pushdown
   predicates extracted from a statement never exclude a matching row; composed
   with C07 (exact time-range lookup) the selected chunks hold every matching
   row, hence the answer equals the full scan. *)
From Coq Require Import Permutation.
From CS Require Import Base.Prelude Model.Pred Model.Catalog Model.TimeExtract Proofs.CatalogProofs.
From CSGen Require Import Consts.
Open Scope Z_scope.

(* ------------------------------------------------------------------ *)
(* small facts                                                          *)
(* ------------------------------------------------------------------ *)
Lemma in_i64_spec z : in_i64 z = true <-> i64_min <= z <= i64_max.
Proof.
  unfold in_i64. rewrite andb_true_iff, !Z.leb_le. tauto.
Qed.

Lemma and3_true a b : and3 a b = Some true <-> a = Some true /\ b = Some true.
Proof. destruct a as [[]|], b as [[]|]; cbn; intuition congruence. Qed.

Lemma or3_true a b : or3 a b = Some true <-> a = Some true \/ b = Some true.
Proof. destruct a as [[]|], b as [[]|]; cbn; intuition congruence. Qed.

Lemma is_true_spec a : is_true a = true <-> a = Some true.
Proof. destruct a as [[]|]; cbn; intuition congruence. Qed.

(* the scale factors written in the code are the nanoseconds per unit *)
Lemma code_scale_exact u : code_scale u = unit_nanos u.
Proof. destruct u; reflexivity. Qed.

(* what extract_timestamp_value returns is the literal's meaning, and an i64 *)
Lemma ts_value_sound I l v : ts_value l = Some v -> lit_val I l = Some v /\ in_i64 v = true.
Proof.
  destruct l as [x|u x|d|k]; cbn [ts_value lit_val]; intros H; try discriminate.
  - destruct (in_i64 x) eqn:E; inversion H; subst; auto.
  - destruct (in_i64 x) eqn:E; [|discriminate]. unfold checked_mul in H.
    rewrite code_scale_exact in H.
    destruct (in_i64 (x * unit_nanos u)) eqn:E2; inversion H; subst; auto.
Qed.

Lemma ts_value_not_other l v : ts_value l = Some v -> forall k, l <> LOther k.
Proof. intros H k ->. discriminate. Qed.

Lemma cmp_sem_value I op rev l v r :
  ts_value l = Some v ->
  cmp_sem I op rev l r = Some (if rev then zcmp op v (r_ts r) else zcmp op (r_ts r) v).
Proof.
  intros H. destruct (ts_value_sound I l v H) as [Hv _].
  destruct l; try discriminate; unfold cmp_sem; rewrite Hv; reflexivity.
Qed.

Definition within (b : ival) (t : Z) : Prop := fst b <= t <= snd b.

Lemma within_unbounded t : in_i64 t = true -> within unbounded t.
Proof. intros H. apply in_i64_spec in H. exact H. Qed.

Lemma within_inter a b t : within a t -> within b t -> within (inter a b) t.
Proof. unfold within, inter. cbn [fst snd]. lia. Qed.

Lemma within_hull_l a b t : within a t -> within (hull a b) t.
Proof. unfold within, hull. cbn [fst snd]. lia. Qed.

Lemma within_hull_r a b t : within b t -> within (hull a b) t.
Proof. unfold within, hull. cbn [fst snd]. lia. Qed.

Lemma cmp_bounds_sound I op l r :
  in_i64 (r_ts r) = true -> cmp_sem I op false l r = Some true ->
  within (cmp_bounds op (ts_value l)) (r_ts r).
Proof.
  intros Hi Hs. destruct (ts_value l) as [v|] eqn:E; [|apply within_unbounded; exact Hi].
  rewrite (cmp_sem_value I op false l v r E) in Hs. inversion Hs as [Hz]. clear Hs.
  apply in_i64_spec in Hi. unfold within.
  destruct op; cbn [cmp_bounds zcmp fst snd unbounded] in *;
    try (apply Z.eqb_eq in Hz); try (apply Z.ltb_lt in Hz); try (apply Z.leb_le in Hz); lia.
Qed.

Lemma cmp_bounds_rev_sound I op l r :
  in_i64 (r_ts r) = true -> cmp_sem I op true l r = Some true ->
  within (cmp_bounds_rev op (ts_value l)) (r_ts r).
Proof.
  intros Hi Hs. destruct (ts_value l) as [v|] eqn:E; [|apply within_unbounded; exact Hi].
  rewrite (cmp_sem_value I op true l v r E) in Hs. inversion Hs as [Hz]. clear Hs.
  apply in_i64_spec in Hi. unfold within.
  destruct op; cbn [cmp_bounds_rev zcmp fst snd unbounded] in *;
    try (apply Z.eqb_eq in Hz); try (apply Z.ltb_lt in Hz); try (apply Z.leb_le in Hz); lia.
Qed.

(* ------------------------------------------------------------------ *)
(* the interval analysis is sound for the WHOLE predicate AST           *)
(* ------------------------------------------------------------------ *)
Theorem bounds_sound I p r :
  in_i64 (r_ts r) = true -> sem I p r = Some true -> within (bounds p) (r_ts r).
Proof.
  intros Hi. induction p as [op l|op l|neg lo hi|k c|a IHa b IHb|a IHa b IHb|a IHa];
    cbn [sem bounds]; intros Hs.
  - apply (cmp_bounds_sound I); assumption.
  - apply (cmp_bounds_rev_sound I); assumption.
  - destruct neg; [apply within_unbounded; exact Hi|].
    apply and3_true in Hs. destruct Hs as [Hlo Hhi].
    pose proof (cmp_bounds_sound I OGe lo r Hi Hlo) as A.
    pose proof (cmp_bounds_sound I OLe hi r Hi Hhi) as B.
    apply in_i64_spec in Hi. unfold within in *.
    destruct (ts_value lo), (ts_value hi); cbn [cmp_bounds fst snd unbounded] in *; lia.
  - apply within_unbounded; exact Hi.
  - apply and3_true in Hs. destruct Hs as [Ha Hb]. apply within_inter; auto.
  - apply or3_true in Hs. destruct Hs as [Ha|Hb]; [apply within_hull_l|apply within_hull_r]; auto.
  - apply within_unbounded; exact Hi.
Qed.

Lemma sat_all_In I fs r f : sat_all I fs r = true -> In f fs -> sem I f r = Some true.
Proof.
  unfold sat_all. rewrite forallb_forall. intros H Hin. apply is_true_spec. apply (H f Hin).
Qed.

Lemma plan_bounds_sound I fs : forall acc r b,
  in_i64 (r_ts r) = true -> sat_all I fs r = true ->
  (forall c, acc = Some c -> within c (r_ts r)) ->
  plan_bounds fs acc = Some b -> within b (r_ts r).
Proof.
  induction fs as [|f rest IH]; intros acc r b Hi Hs Hacc Hp; cbn [plan_bounds] in Hp.
  - apply Hacc; exact Hp.
  - assert (Hf : sem I f r = Some true) by (apply (sat_all_In I (f :: rest)); [exact Hs|left; reflexivity]).
    assert (Hr : sat_all I rest r = true).
    { unfold sat_all in *. cbn [forallb] in Hs. apply andb_true_iff in Hs. tauto. }
    apply (IH _ r b Hi Hr) in Hp; [exact Hp|].
    intros c Hc. destruct (mentions_ts f).
    + inversion Hc; subst c. apply within_inter; [|apply bounds_sound with (I := I); assumption].
      destruct acc as [c0|]; [apply Hacc; reflexivity|apply within_unbounded; exact Hi].
    + apply Hacc; exact Hc.
Qed.

(* pruning_sound: whenever a range is extracted (some filter mentions the
   timestamp), every row passing all filters has its timestamp inside it. *)
Theorem pruning_sound I fs r lo hi :
  in_i64 (r_ts r) = true -> sat_all I fs r = true ->
  extract fs = TRange lo hi -> lo <= r_ts r <= hi.
Proof.
  intros Hi Hs He. unfold extract in He.
  destruct (plan_bounds fs None) as [[l h]|] eqn:E; [|discriminate].
  inversion He; subst l h.
  apply (plan_bounds_sound I fs None r (lo, hi) Hi Hs); [intros c Hc; discriminate|exact E].
Qed.

(* single WHERE clause, in the shape of the task statement *)
Corollary pruning_sound_where I p r :
  in_i64 (r_ts r) = true -> sat I p r = true -> mentions_ts p = true ->
  fst (bounds p) <= r_ts r <= snd (bounds p).
Proof.
  intros Hi Hs _. apply is_true_spec in Hs. exact (bounds_sound I p r Hi Hs).
Qed.

(* ------------------------------------------------------------------ *)
(* the default window is only used when nothing confines the timestamp  *)
(* ------------------------------------------------------------------ *)
(* The WHERE clause confines the timestamp to a finite window: some literal
   bounds hold for every row (of any timestamp) that passes the filters. *)
Definition finite_window (I : interp) (fs : list pred) : Prop :=
  exists lo hi, forall r, sat_all I fs r = true -> lo <= r_ts r <= hi.

Lemma sem_ts_irrelevant I p : mentions_ts p = false ->
  forall id t t', sem I p (mkRow id t) = sem I p (mkRow id t').
Proof.
  induction p as [op l|op l|neg lo hi|k c|a IHa b IHb|a IHa b IHb|a IHa];
    cbn [mentions_ts sem]; intros H id t t'; try discriminate.
  - reflexivity.
  - apply orb_false_iff in H. destruct H as [Ha Hb]. rewrite (IHa Ha id t t'), (IHb Hb id t t'). reflexivity.
  - apply orb_false_iff in H. destruct H as [Ha Hb]. rewrite (IHa Ha id t t'), (IHb Hb id t t'). reflexivity.
  - rewrite (IHa H id t t'). reflexivity.
Qed.

Lemma plan_bounds_none fs : forall acc,
  plan_bounds fs acc = None -> acc = None /\ forallb (fun f => negb (mentions_ts f)) fs = true.
Proof.
  induction fs as [|f rest IH]; intros acc H; cbn [plan_bounds forallb] in *.
  - auto.
  - destruct (mentions_ts f) eqn:E.
    + apply IH in H. destruct H as [H _]. discriminate.
    + apply IH in H. destruct H as [H1 H2]. rewrite H2. auto.
Qed.

Lemma sat_all_ts_irrelevant I fs :
  forallb (fun f => negb (mentions_ts f)) fs = true ->
  forall id t t', sat_all I fs (mkRow id t) = sat_all I fs (mkRow id t').
Proof.
  induction fs as [|f rest IH]; intros H id t t'; cbn [forallb] in *; [reflexivity|].
  apply andb_true_iff in H. destruct H as [Hf Hr]. apply negb_true_iff in Hf.
  unfold sat_all in *. cbn [forallb]. unfold sat at 1 3.
  rewrite (sem_ts_irrelevant I f Hf id t t'). f_equal. apply IH; exact Hr.
Qed.

(* a satisfiable finite-window query always mentions the timestamp, so the
   "last hour" default is never what prunes its chunks *)
Theorem finite_window_not_default I fs :
  finite_window I fs -> (exists r, sat_all I fs r = true) -> extract fs <> TDefault.
Proof.
  intros [lo [hi Hw]] [r Hr] He. unfold extract in He.
  destruct (plan_bounds fs None) as [[l h]|] eqn:E; [discriminate|].
  apply plan_bounds_none in E. destruct E as [_ E].
  destruct r as [id t].
  pose proof (sat_all_ts_irrelevant I fs E id t (hi + 1)) as Heq.
  rewrite Hr in Heq. symmetry in Heq. apply Hw in Heq. cbn [r_ts] in Heq. lia.
Qed.

(* pruning_sound in resolved form: for a finite-window query the range handed
   to the metadata client contains every matching row, whatever the clock *)
Theorem pruning_sound_finite_window I fs r now :
  finite_window I fs -> in_i64 (r_ts r) = true -> sat_all I fs r = true ->
  fst (resolve now (extract fs)) <= r_ts r <= snd (resolve now (extract fs)).
Proof.
  intros Hw Hi Hs. destruct (extract fs) as [|lo hi] eqn:E.
  - exfalso. apply (finite_window_not_default I fs Hw); [exists r; exact Hs|exact E].
  - cbn [resolve fst snd]. apply (pruning_sound I fs r lo hi Hi Hs E).
Qed.

(* ------------------------------------------------------------------ *)
(* pushdown predicates mean what the WHERE clause means                 *)
(* ------------------------------------------------------------------ *)
Theorem convert_exact I p c r : convert p = Some c -> csem I c r = sem I p r.
Proof.
  revert c. induction p as [op l|op l|neg lo hi|k cv|a IHa b IHb|a IHa b IHb|a IHa];
    cbn [convert]; intros c H; try discriminate.
  - destruct cv; inversion H; subst; reflexivity.
  - destruct (convert a) as [ca|]; [|discriminate]. destruct (convert b) as [cb|]; [|discriminate].
    inversion H; subst. cbn [csem sem]. rewrite (IHa ca eq_refl), (IHb cb eq_refl). reflexivity.
  - destruct (convert a) as [ca|]; [|discriminate]. destruct (convert b) as [cb|]; [|discriminate].
    inversion H; subst. cbn [csem sem]. rewrite (IHa ca eq_refl), (IHb cb eq_refl). reflexivity.
  - destruct (convert a) as [ca|]; [|discriminate].
    inversion H; subst. cbn [csem sem]. rewrite (IHa ca eq_refl). reflexivity.
Qed.

Theorem plan_preds_sound I fs r c :
  sat_all I fs r = true -> In c (plan_preds fs) -> csem I c r = Some true.
Proof.
  intros Hs Hin. unfold plan_preds in Hin. apply in_flat_map in Hin. destruct Hin as [f [Hf Hc]].
  destruct (convert f) as [c'|] eqn:E; [|contradiction].
  destruct Hc as [Hc|[]]. subst c'. rewrite (convert_exact I f c r E).
  apply (sat_all_In I fs r f Hs Hf).
Qed.

(* a filter that mentions the timestamp is never pushed down as a column predicate *)
Theorem convert_none_if_mentions_ts p : mentions_ts p = true -> convert p = None.
Proof.
  induction p as [op l|op l|neg lo hi|k cv|a IHa b IHb|a IHa b IHb|a IHa];
    cbn [mentions_ts convert]; intros H; try reflexivity; try discriminate.
  - apply orb_true_iff in H. destruct H as [H|H].
    + rewrite (IHa H). reflexivity.
    + rewrite (IHb H). destruct (convert a); reflexivity.
  - apply orb_true_iff in H. destruct H as [H|H].
    + rewrite (IHa H). reflexivity.
    + rewrite (IHb H). destruct (convert a); reflexivity.
  - rewrite (IHa H). reflexivity.
Qed.

(* ------------------------------------------------------------------ *)
(* list / permutation helpers                                           *)
(* ------------------------------------------------------------------ *)
Lemma perm_filter {A} (f : A -> bool) l l' : Permutation l l' -> Permutation (filter f l) (filter f l').
Proof.
  induction 1 as [|x l l' _ IH|x y l|l l' l'' _ IH1 _ IH2]; cbn [filter].
  - constructor.
  - destruct (f x); [constructor|]; exact IH.
  - destruct (f x), (f y); try apply perm_swap; apply Permutation_refl.
  - eapply perm_trans; eassumption.
Qed.

Lemma perm_flat_map {A B} (g : A -> list B) l l' :
  Permutation l l' -> Permutation (flat_map g l) (flat_map g l').
Proof.
  induction 1 as [|x l l' _ IH|x y l|l l' l'' _ IH1 _ IH2]; cbn [flat_map].
  - constructor.
  - apply Permutation_app_head; exact IH.
  - rewrite !app_assoc. apply Permutation_app_tail. apply Permutation_app_comm.
  - eapply perm_trans; eassumption.
Qed.

Lemma perm_split {A} (f : A -> bool) l :
  Permutation l (filter f l ++ filter (fun x => negb (f x)) l).
Proof.
  induction l as [|x l IH]; cbn [filter]; [constructor|].
  destruct (f x); cbn [negb app].
  - constructor; exact IH.
  - apply Permutation_cons_app; exact IH.
Qed.

Lemma filter_all_false {B} (f : B -> bool) l : (forall b, In b l -> f b = false) -> filter f l = [].
Proof.
  induction l as [|b l IH]; intros H; cbn [filter]; [reflexivity|].
  rewrite (H b (or_introl eq_refl)). apply IH. intros b' Hb. apply H. right; exact Hb.
Qed.

Lemma NoDup_filter {A} (f : A -> bool) l : NoDup l -> NoDup (filter f l).
Proof.
  induction 1 as [|x l Hx _ IH]; cbn [filter]; [constructor|].
  destruct (f x); [constructor; [|exact IH]|exact IH].
  intros Hin. apply filter_In in Hin. tauto.
Qed.

(* ------------------------------------------------------------------ *)
(* composition with C07: the selected chunks hold every matching row    *)
(* ------------------------------------------------------------------ *)
Section Composition.
  Variable I : interp.
  (* the rows stored in each chunk file: ANY placement of rows into chunks *)
  Variable content : path -> list row.
  (* the statistics gate of get_chunks_with_predicates, per chunk *)
  Variable prune : list cpred -> path -> bool.
  (* the engine: answer of a statement over the rows of the registered table *)
  Variable answer : Type.
  Variable engine : list pred -> list row -> answer.
  (* the statement's projection / aggregation / GROUP BY part *)
  Variable post : list row -> answer.

  (* the catalog after the history h registered the chunk files *)
  Variable h : list cop.
  Hypothesis history_ok : hist_ok h.

  (* C06 (another property): a registered chunk's [min,max] covers the
     timestamps of its rows, and timestamps are i64 *)
  Hypothesis C06_chunk_metadata_covers_rows :
    forall p m r, In (p, m) (spec_run h) -> In r (content p) ->
      m_min m <= r_ts r <= m_max m /\ in_i64 (r_ts r) = true.

  (* C12 (another builder's theorem, taken here as a hypothesis): the
     statistics gate keeps every chunk that holds a row on which all pushed
     down predicates are TRUE *)
  Hypothesis C12_stats_pruning_sound :
    forall cs p r, In r (content p) ->
      (forall c, In c cs -> csem I c r = Some true) -> prune cs p = true.

  (* the one assumption about DataFusion: a statement of the family is
     selection by the conjunction of its filters followed by a function of the
     selected rows that does not depend on their order *)
  Hypothesis DataFusion_select_then_post :
    forall fs rows, engine fs rows = post (filter (sat_all I fs) rows).
  Hypothesis DataFusion_post_order_independent :
    forall rows rows', Permutation rows rows' -> post rows = post rows'.

  Definition live_paths : list path := map fst (spec_run h).
  Definition all_rows : list row := rows_of content live_paths.

  Lemma live_nodup : NoDup live_paths.
  Proof. destruct (s3_run_inv h history_ok) as [_ [_ [Hnd _]]]. exact Hnd. Qed.

  (* generic in the backend: any [get] that answers exactly (C07) *)
  Section Backend.
    Variable get : Z -> Z -> outcome (list (path * cmeta)).
    Hypothesis get_exact : forall s e, exact_answer (get s e) (spec_run h) s e.
    (* the backend's statistics gate (the in-memory backend has none) *)
    Variable pr : list cpred -> path -> bool.
    Hypothesis pr_sound :
      forall cs p r, In r (content p) ->
        (forall c, In c cs -> csem I c r = Some true) -> pr cs p = true.

    Variable now : Z.
    Variable fs : list pred.
    Hypothesis window : finite_window I fs.

    Lemma select_done : exists sel, select_chunks get pr now fs = Done sel /\ NoDup sel /\ incl sel live_paths.
    Proof.
      unfold select_chunks. destruct (resolve now (extract fs)) as [s e] eqn:R.
      pose proof (get_exact s e) as G. unfold exact_answer in G.
      destruct (get s e) as [l| | |]; try contradiction. destruct G as [Hnd Hiff].
      eexists; split; [reflexivity|]. split.
      - apply NoDup_filter; exact Hnd.
      - intros p Hp. apply filter_In in Hp. destruct Hp as [Hp _].
        apply in_map_iff in Hp. destruct Hp as [[p' m] [Heq Hin]]. cbn in Heq; subst p'.
        apply Hiff in Hin. unfold spec_get in Hin. destruct (e <? s); [contradiction|].
        apply filter_In in Hin. destruct Hin as [Hin _].
        unfold live_paths. apply in_map_iff. exists (p, m); auto.
    Qed.

    (* every chunk holding a satisfying row is selected *)
    Theorem selected_superset_gen p m r sel :
      In (p, m) (spec_run h) -> In r (content p) -> sat_all I fs r = true ->
      select_chunks get pr now fs = Done sel -> In p sel.
    Proof.
      intros Hlive Hr Hs Hsel. unfold select_chunks in Hsel.
      destruct (C06_chunk_metadata_covers_rows p m r Hlive Hr) as [Hcov Hi].
      pose proof (pruning_sound_finite_window I fs r now window Hi Hs) as Hrange.
      destruct (resolve now (extract fs)) as [s e] eqn:R. cbn [fst snd] in Hrange.
      pose proof (get_exact s e) as G. unfold exact_answer in G.
      destruct (get s e) as [l| | |]; try contradiction. destruct G as [_ Hiff].
      inversion Hsel; subst sel. apply filter_In. split.
      - apply in_map_iff. exists (p, m). split; [reflexivity|]. apply Hiff.
        unfold spec_get. replace (e <? s) with false by (symmetry; apply Z.ltb_ge; lia).
        apply filter_In. split; [exact Hlive|].
        unfold overlaps. apply andb_true_iff. split; [apply Z.leb_le|apply Z.geb_le]; lia.
      - apply (pr_sound _ p r Hr). intros c Hc. apply (plan_preds_sound I fs r c Hs Hc).
    Qed.

    (* hence the answer over the selected chunks is the answer over all rows *)
    Theorem answer_eq_full_scan_gen sel :
      select_chunks get pr now fs = Done sel ->
      engine fs (rows_of content sel) = engine fs all_rows.
    Proof.
      intros Hsel. destruct select_done as [sel' [Hsel' [Hnd Hincl]]].
      rewrite Hsel in Hsel'. inversion Hsel'; subst sel'.
      rewrite !DataFusion_select_then_post. apply DataFusion_post_order_independent.
      unfold all_rows, rows_of.
      set (inS := fun p => memN p sel).
      (* live = selected ++ unselected, up to order *)
      assert (P1 : Permutation live_paths (filter inS live_paths ++ filter (fun p => negb (inS p)) live_paths))
        by apply perm_split.
      assert (P2 : Permutation sel (filter inS live_paths)).
      { apply NoDup_Permutation; [exact Hnd|apply NoDup_filter; apply live_nodup|].
        intros p. rewrite filter_In. unfold inS. rewrite memN_In. split; [intros Hp; split; auto|tauto]. }
      assert (P3 : Permutation (flat_map content live_paths)
                     (flat_map content sel ++ flat_map content (filter (fun p => negb (inS p)) live_paths))).
      { eapply perm_trans; [apply perm_flat_map; exact P1|]. rewrite flat_map_app.
        apply Permutation_app_tail. apply perm_flat_map. apply Permutation_sym; exact P2. }
      apply Permutation_sym. eapply perm_trans; [apply perm_filter; exact P3|].
      rewrite filter_app.
      replace (filter (sat_all I fs) (flat_map content (filter (fun p => negb (inS p)) live_paths))) with (@nil row);
        [rewrite app_nil_r; apply Permutation_refl|].
      symmetry. apply filter_all_false. intros r Hr.
      apply in_flat_map in Hr. destruct Hr as [p [Hp Hrp]].
      apply filter_In in Hp. destruct Hp as [Hlive Hns].
      destruct (sat_all I fs r) eqn:Hs; [exfalso|reflexivity].
      unfold live_paths in Hlive. apply in_map_iff in Hlive. destruct Hlive as [[p' m] [Heq Hin]].
      cbn in Heq; subst p'.
      pose proof (selected_superset_gen p m r sel Hin Hrp Hs Hsel) as Hps.
      unfold inS in Hns. apply negb_true_iff in Hns. apply memN_In in Hps. congruence.
    Qed.
  End Backend.

  (* the two real backends (C07: s3_get_exact / local_get_exact) *)
  Definition no_gate : list cpred -> path -> bool := fun _ _ => true.

  Lemma s3_exact : forall s e, exact_answer (s3_get (s3_run h) s e) (spec_run h) s e.
  Proof. intros s e. apply s3_get_exact; exact history_ok. Qed.
  Lemma local_exact : forall s e, exact_answer (local_get (local_run h) s e) (spec_run h) s e.
  Proof. intros s e. apply local_get_exact; exact history_ok. Qed.
  Lemma no_gate_sound : forall cs p r, In r (content p) ->
    (forall c, In c cs -> csem I c r = Some true) -> no_gate cs p = true.
  Proof. reflexivity. Qed.

  Theorem selected_superset now fs p m r :
    finite_window I fs ->
    In (p, m) (spec_run h) -> In r (content p) -> sat_all I fs r = true ->
    (exists sel, select_chunks (s3_get (s3_run h)) prune now fs = Done sel /\ In p sel) /\
    (exists sel, select_chunks (local_get (local_run h)) no_gate now fs = Done sel /\ In p sel).
  Proof.
    intros Hw Hlive Hr Hs. split.
    - destruct (select_done _ s3_exact prune now fs) as [sel [Hsel _]].
      exists sel. split; [exact Hsel|].
      exact (selected_superset_gen _ s3_exact prune C12_stats_pruning_sound now fs Hw p m r sel Hlive Hr Hs Hsel).
    - destruct (select_done _ local_exact no_gate now fs) as [sel [Hsel _]].
      exists sel. split; [exact Hsel|].
      exact (selected_superset_gen _ local_exact no_gate no_gate_sound now fs Hw p m r sel Hlive Hr Hs Hsel).
  Qed.

  Theorem answer_eq_full_scan now fs :
    finite_window I fs ->
    (exists sel, select_chunks (s3_get (s3_run h)) prune now fs = Done sel /\
                 engine fs (rows_of content sel) = engine fs all_rows) /\
    (exists sel, select_chunks (local_get (local_run h)) no_gate now fs = Done sel /\
                 engine fs (rows_of content sel) = engine fs all_rows).
  Proof.
    intros Hw. split.
    - destruct (select_done _ s3_exact prune now fs) as [sel [Hsel _]].
      exists sel. split; [exact Hsel|].
      exact (answer_eq_full_scan_gen _ s3_exact prune C12_stats_pruning_sound now fs Hw sel Hsel).
    - destruct (select_done _ local_exact no_gate now fs) as [sel [Hsel _]].
      exists sel. split; [exact Hsel|].
      exact (answer_eq_full_scan_gen _ local_exact no_gate no_gate_sound now fs Hw sel Hsel).
  Qed.
End Composition.

Definition ex_interp : interp :=
  mkInterp 0 (fun _ _ _ _ => None) (fun k id => Some (N.eqb k id)).

(* ------------------------------------------------------------------ *)
(* per-query registration: the bound table's schema (known finding)      *)
(* ------------------------------------------------------------------ *)
Lemma tskind_eqb_eq a b : tskind_eqb a b = true <-> a = b.
Proof. destruct a, b; cbn; intuition congruence. Qed.

(* Outside the known class the statement is type-checked against the schema of
   the ingested data, exactly as the full scan is. *)
Lemma run_query_schema st data sel :
  known_empty_selection_schema st data sel = false -> qn_schema (register st data sel) = data.
Proof.
  destruct sel as [|p sel]; cbn [known_empty_selection_schema register qn_schema]; [|reflexivity].
  intros H. apply negb_false_iff in H. apply tskind_eqb_eq in H. exact H.
Qed.

(* C04_modulo_known: whatever was bound before, unless (no chunk selected and
   bound schema <> data schema) the outcome of the pipeline (answer or
   type-check error) is the outcome of the full scan. *)
Theorem run_query_eq_full_scan_modulo_known
  (I : interp) (content : path -> list row) (prune : list cpred -> path -> bool)
  (answer : Type) (engine : list pred -> list row -> answer) (post : list row -> answer)
  (h : list cop) (typechecks : tskind -> bool) (st : qnode) (data : tskind) (now : Z) (fs : list pred) :
  hist_ok h ->
  (forall p m r, In (p, m) (spec_run h) -> In r (content p) ->
     m_min m <= r_ts r <= m_max m /\ in_i64 (r_ts r) = true) ->
  (forall cs p r, In r (content p) -> (forall c, In c cs -> csem I c r = Some true) -> prune cs p = true) ->
  (forall fs rows, engine fs rows = post (filter (sat_all I fs) rows)) ->
  (forall rows rows', Permutation rows rows' -> post rows = post rows') ->
  finite_window I fs ->
  (exists sel, select_chunks (s3_get (s3_run h)) prune now fs = Done sel /\
     (known_empty_selection_schema st data sel = false ->
      snd (run_query typechecks (engine fs) content st data sel)
      = full_scan typechecks (engine fs) content data (live_paths h))) /\
  (exists sel, select_chunks (local_get (local_run h)) no_gate now fs = Done sel /\
     (known_empty_selection_schema st data sel = false ->
      snd (run_query typechecks (engine fs) content st data sel)
      = full_scan typechecks (engine fs) content data (live_paths h))).
Proof.
  intros Hk Hc Hp Heng Hpost Hw.
  destruct (answer_eq_full_scan I content prune answer engine post h Hk Hc Hp Heng Hpost now fs Hw)
    as [[sel1 [S1 E1]] [sel2 [S2 E2]]].
  split; [exists sel1|exists sel2]; (split; [assumption|]); intros Hn;
    unfold run_query, full_scan; cbn [snd]; rewrite (run_query_schema _ _ _ Hn);
    destruct (typechecks data); try reflexivity; f_equal; assumption.
Qed.

(* C04_refuted: a fresh node (default schema: Timestamp(ns)), Int64 data, a
   window that matches no chunk, a statement comparing the timestamp with
   integer literals: the full scan answers (an empty selection), the pipeline
   fails in the type check.  Observed on the real code:
   SELECT * FROM metrics WHERE timestamp <= -1800000000000 AND timestamp >= 3600000000001
   on a fresh QueryNode over Int64 chunks -> "DataFusion error: type_coercion". *)
Definition refut_h : list cop := [ORegister 1%N (mkMeta 0 10 2%N 1%N)].
Definition refut_content : path -> list row := fun p => if N.eqb p 1 then [mkRow 0 0; mkRow 1 10] else [].
Definition refut_fs : list pred := [PAnd (PCmp OLe (LInt (-5))) (PCmp OGe (LInt 20))].
Definition refut_typechecks : tskind -> bool := fun k => tskind_eqb k KInt64.
(* SELECT count( * ) ... : selection by the filters, then the number of rows *)
Definition refut_exec : list row -> nat := fun rows => length (filter (sat_all ex_interp refut_fs) rows).

Theorem refuted_empty_selection_schema :
  exists sel,
    select_chunks (local_get (local_run refut_h)) no_gate 0 refut_fs = Done sel /\
    known_empty_selection_schema qnode_fresh KInt64 sel = true /\
    snd (run_query refut_typechecks refut_exec refut_content qnode_fresh KInt64 sel) = Failed 1%N /\
    full_scan refut_typechecks refut_exec refut_content KInt64 (live_paths refut_h) = Done 0%nat.
Proof. exists []. vm_compute. auto. Qed.

(* ------------------------------------------------------------------ *)
(* the answer does not depend on how the rows were split into chunks    *)
(* ------------------------------------------------------------------ *)
(* Two placements (histories + chunk contents) of the same multiset of rows:
   whatever each backend selects for the statement, the answers agree. *)
Theorem chunking_independent
  (I : interp) (answer : Type) (engine : list pred -> list row -> answer) (post : list row -> answer)
  (content1 content2 : path -> list row) (prune1 prune2 : list cpred -> path -> bool)
  (h1 h2 : list cop) (now1 now2 : Z) (fs : list pred) :
  hist_ok h1 -> hist_ok h2 ->
  (forall p m r, In (p, m) (spec_run h1) -> In r (content1 p) ->
     m_min m <= r_ts r <= m_max m /\ in_i64 (r_ts r) = true) ->
  (forall p m r, In (p, m) (spec_run h2) -> In r (content2 p) ->
     m_min m <= r_ts r <= m_max m /\ in_i64 (r_ts r) = true) ->
  (forall cs p r, In r (content1 p) -> (forall c, In c cs -> csem I c r = Some true) -> prune1 cs p = true) ->
  (forall cs p r, In r (content2 p) -> (forall c, In c cs -> csem I c r = Some true) -> prune2 cs p = true) ->
  (forall fs rows, engine fs rows = post (filter (sat_all I fs) rows)) ->
  (forall rows rows', Permutation rows rows' -> post rows = post rows') ->
  Permutation (all_rows content1 h1) (all_rows content2 h2) ->
  finite_window I fs ->
  forall sel1 sel2,
    select_chunks (s3_get (s3_run h1)) prune1 now1 fs = Done sel1 ->
    select_chunks (local_get (local_run h2)) prune2 now2 fs = Done sel2 ->
    engine fs (rows_of content1 sel1) = engine fs (rows_of content2 sel2).
Proof.
  intros Hk1 Hk2 Hc1 Hc2 Hp1 Hp2 Heng Hpost Hperm Hw sel1 sel2 Hs1 Hs2.
  rewrite (answer_eq_full_scan_gen I content1 answer engine post h1 Hk1 Hc1 Heng Hpost
             _ (s3_exact h1 Hk1) prune1 Hp1 now1 fs Hw sel1 Hs1).
  rewrite (answer_eq_full_scan_gen I content2 answer engine post h2 Hk2 Hc2 Heng Hpost
             _ (local_exact h2 Hk2) prune2 Hp2 now2 fs Hw sel2 Hs2).
  rewrite !Heng. apply Hpost. apply perm_filter. exact Hperm.
Qed.

(* adaptive indexing only counts: the answer of execute_with_indexes is the
   answer of execute *)
Theorem execute_with_indexes_same_answer {A} (exec : list row -> A) v i st rows :
  snd (execute_with_indexes exec v i st rows) = exec rows.
Proof. reflexivity. Qed.

(* ------------------------------------------------------------------ *)
(* regression witnesses of the repaired defects and non-vacuity         *)
(* ------------------------------------------------------------------ *)
(* the shapes the code before 3f63730 answered unsoundly (observed on the real
   code: (10,10), (5,5), default, (0,now), default); the repaired analysis: *)
Example witness_or_of_equalities :
  extract [POr (PCmp OEq (LInt 5)) (PCmp OEq (LInt 10))] = TRange 5 10.
Proof. vm_compute. reflexivity. Qed.

Example witness_eq_after_wider_bound :
  extract [PAnd (PCmp OLt (LInt 200)) (POr (PCmp OGt (LInt 100)) (PCmp OEq (LInt 5)))] = TRange 5 200.
Proof. vm_compute. reflexivity. Qed.

Example witness_reversed_equality :
  extract [PCmpR OEq (LInt 5)] = TRange 5 5.
Proof. vm_compute. reflexivity. Qed.

Example witness_negation :
  extract [PAnd (PCmp OGe (LInt 0)) (PNot (PCmp OGt (LInt 1000)))] = TRange 0 i64_max.
Proof. vm_compute. reflexivity. Qed.

Example witness_non_literal_bound :
  extract [PAnd (PCmp OGe (LOther 0)) (PCmp OLe (LNow 0))] = TRange i64_min i64_max.
Proof. vm_compute. reflexivity. Qed.

Example witness_no_timestamp_is_default :
  extract [PLabel 0 true] = TDefault /\ plan_preds [PLabel 0 true] = [CLeaf 0%N].
Proof. vm_compute. auto. Qed.

Example witness_two_filters_intersect :
  extract [PCmp OLe (LInt 150); PLabel 1 true; PCmp OGe (LInt 5)] = TRange 5 150.
Proof. vm_compute. reflexivity. Qed.

(* timestamp literals: scaled to nanoseconds, unbounded when the product leaves i64 *)
Example witness_timestamp_literals :
  extract [PBetween false (LTs USec 2) (LTs UMilli 3000)] = TRange 2000000000 3000000000 /\
  extract [PCmp OGe (LTs USec 9223372037)] = TRange i64_min i64_max.
Proof. vm_compute. auto. Qed.

(* pruning_sound is not vacuous: a row satisfying a nested OR/AND/NOT clause *)
Example pruning_sound_nonvacuous :
  let fs := [PAnd (PCmp OLt (LInt 200)) (POr (PCmp OGt (LInt 100)) (PCmpR OEq (LInt 5)));
             PNot (PLabel 7 true)] in
  let r := mkRow 1 5 in
  in_i64 (r_ts r) = true /\ sat_all ex_interp fs r = true /\ extract fs = TRange 5 200.
Proof. vm_compute. auto. Qed.

(* finite_window is satisfiable together with a matching row *)
Example finite_window_nonvacuous :
  let fs := [PAnd (PBetween false (LInt 5) (LInt 200)) (PLabel 1 true)] in
  finite_window ex_interp fs /\ sat_all ex_interp fs (mkRow 1 150) = true.
Proof.
  split; [|vm_compute; reflexivity].
  exists 5, 200. intros r H. unfold sat_all in H. cbn [forallb] in H.
  apply andb_true_iff in H. destruct H as [H _]. apply is_true_spec in H.
  cbn [sem] in H. apply and3_true in H. destruct H as [H _].
  cbn [cmp_sem lit_val zcmp] in H. apply and3_true in H. destruct H as [H1 H2].
  inversion H1 as [A]. inversion H2 as [B]. apply Z.leb_le in A. apply Z.leb_le in B. lia.
Qed.

(* the composition is not vacuous: a two-chunk catalog, a window query that
   matches a row of the second chunk only; both backends select that chunk *)
Example composition_nonvacuous :
  let h := [ORegister 1%N (mkMeta 0 4 2%N 1%N); ORegister 2%N (mkMeta 100 300 2%N 1%N)] in
  let content := fun p => if N.eqb p 1 then [mkRow 1 0; mkRow 3 4]
                          else if N.eqb p 2 then [mkRow 1 150; mkRow 2 300] else [] in
  let fs := [PAnd (PBetween false (LInt 5) (LInt 200)) (PLabel 1 true)] in
  hist_ok h /\
  (forall p m r, In (p, m) (spec_run h) -> In r (content p) ->
     m_min m <= r_ts r <= m_max m /\ in_i64 (r_ts r) = true) /\
  select_chunks (s3_get (s3_run h)) no_gate 0 fs = Done [2%N] /\
  select_chunks (local_get (local_run h)) no_gate 0 fs = Done [2%N] /\
  filter (sat_all ex_interp fs) (all_rows content h) = [mkRow 1 150].
Proof.
  cbv zeta. split; [|split; [|split; [|split]]].
  - unfold hist_ok. repeat constructor; vm_compute; discriminate.
  - intros p m r Hin Hr. vm_compute in Hin.
    destruct Hin as [Hin|[Hin|[]]]; inversion Hin; subst p m; cbn in Hr;
      destruct Hr as [Hr|[Hr|[]]]; subst r; vm_compute; intuition discriminate.
  - vm_compute. reflexivity.
  - vm_compute. reflexivity.
  - vm_compute. reflexivity.
Qed.
