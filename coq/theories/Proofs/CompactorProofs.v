(* Proofs/CompactorProofs.v — C03: compaction never loses or duplicates stored
   rows.  Invariants of Model/Compactor.v over every schedule (any number of
   compactors, faults before/after effect at every request, crashes, lease
   expiry, renewal tasks, GC of scheduled deletions):

     never_unqueryable      no row that was reachable through the catalog ever
                            becomes unreachable                     (all schedules)
     exact_when_quiescent   outside the known classes, whenever no compaction
                            is in progress the reachable rows are exactly the
                            initial multiset                        (= C03_modulo_known)
     level_rule             a swapped-in target is one level above the highest
                            source it replaced
     C03_refuted_*          witnesses of the known classes K1 K2 K3 K5 (duplicates)
     lease_leak_forever     K4: after an error the leaked renewal task keeps
                            the lease alive for any number of renewal periods *)
From Coq Require Import Permutation.
From CS Require Import Base.Prelude Model.Catalog Model.Compactor Proofs.CatalogProofs.
From CSGen Require Import Consts.
Open Scope N_scope.

(* ------------------------------------------------------------------ *)
(* lists and association lists                                          *)
(* ------------------------------------------------------------------ *)
Lemma memN_false x l : memN x l = false <-> ~ In x l.
Proof.
  split; intros H.
  - intros Hin. apply memN_In in Hin. congruence.
  - destruct (memN x l) eqn:E; [apply memN_In in E; contradiction|reflexivity].
Qed.

Lemma in_keys_aget {V} k (l : list (N * V)) : In k (akeys l) -> exists v, aget N.eqb k l = Some v.
Proof.
  unfold akeys. induction l as [|[k' v'] r IH]; simpl; [contradiction|].
  intros [H|H].
  - subst k'. rewrite N.eqb_refl. eauto.
  - destruct (N.eqb k k'); eauto.
Qed.

Lemma aget_in_keys {V} k (l : list (N * V)) v : aget N.eqb k l = Some v -> In k (akeys l).
Proof.
  intros H. apply (aget_In N.eqb Neqb_spec) in H. unfold akeys.
  change k with (fst (k, v)). apply in_map. exact H.
Qed.

Lemma aget_none_notin {V} k (l : list (N * V)) : aget N.eqb k l = None <-> ~ In k (akeys l).
Proof.
  split.
  - intros H Hin. destruct (in_keys_aget _ _ Hin) as [v Hv]. congruence.
  - intros H. destruct (aget N.eqb k l) eqn:E; [|reflexivity].
    exfalso. apply H. eapply aget_in_keys; eauto.
Qed.

Lemma amem_in_keys {V} k (l : list (N * V)) : amem N.eqb k l = true <-> In k (akeys l).
Proof.
  unfold amem. split.
  - destruct (aget N.eqb k l) eqn:E; [intros _; eapply aget_in_keys; eauto|discriminate].
  - intros H. destruct (in_keys_aget _ _ H) as [v Hv]. rewrite Hv. reflexivity.
Qed.

Lemma aget_app_l {V} k (l r : list (N * V)) v : aget N.eqb k l = Some v -> aget N.eqb k (l ++ r) = Some v.
Proof.
  induction l as [|[k' v'] t IH]; simpl; [discriminate|].
  destruct (N.eqb k k'); auto.
Qed.

Lemma aget_app_notin {V} k (l r : list (N * V)) : ~ In k (akeys l) -> aget N.eqb k (l ++ r) = aget N.eqb k r.
Proof.
  unfold akeys. induction l as [|[k' v'] t IH]; simpl; [reflexivity|].
  intros H. destruct (N.eqb k k') eqn:E.
  - apply N.eqb_eq in E. subst. exfalso. apply H. left; reflexivity.
  - apply IH. intros Hin. apply H. right; exact Hin.
Qed.

Lemma aget_snoc_other {V} k k' (l : list (N * V)) v : k <> k' -> aget N.eqb k (l ++ [(k', v)]) = aget N.eqb k l.
Proof.
  intros Hn. destruct (aget N.eqb k l) eqn:E.
  - apply aget_app_l. exact E.
  - rewrite aget_app_notin by (apply aget_none_notin; exact E).
    simpl. destruct (N.eqb k k') eqn:E2; [apply N.eqb_eq in E2; contradiction|reflexivity].
Qed.

Lemma aget_snoc_fresh {V} k (l : list (N * V)) v : ~ In k (akeys l) -> aget N.eqb k (l ++ [(k, v)]) = Some v.
Proof.
  intros H. rewrite aget_app_notin by exact H. simpl. rewrite N.eqb_refl. reflexivity.
Qed.

Lemma akeys_app {V} (a b : list (N * V)) : akeys (a ++ b) = akeys a ++ akeys b.
Proof. unfold akeys. apply map_app. Qed.

Lemma keys_aset_present {V} k (v : V) l : In k (akeys l) -> akeys (aset N.eqb k v l) = akeys l.
Proof.
  unfold akeys. induction l as [|[k' v'] r IH]; simpl; [contradiction|].
  intros H. destruct (N.eqb k k') eqn:E; simpl; [reflexivity|].
  f_equal. apply IH. destruct H as [H|H]; [subst; rewrite N.eqb_refl in E; discriminate|exact H].
Qed.

Lemma keys_aset_absent {V} k (v : V) l : ~ In k (akeys l) -> akeys (aset N.eqb k v l) = akeys l ++ [k].
Proof.
  unfold akeys. induction l as [|[k' v'] r IH]; simpl; [reflexivity|].
  intros H. destruct (N.eqb k k') eqn:E; simpl.
  - apply N.eqb_eq in E. subst. exfalso. apply H. left; reflexivity.
  - f_equal. apply IH. intros Hin. apply H. right; exact Hin.
Qed.

Lemma aset_absent {V} k (v : V) l : ~ In k (akeys l) -> aset N.eqb k v l = l ++ [(k, v)].
Proof.
  unfold akeys. induction l as [|[k' v'] r IH]; simpl; [reflexivity|].
  intros H. destruct (N.eqb k k') eqn:E; simpl.
  - apply N.eqb_eq in E. subst. exfalso. apply H. left; reflexivity.
  - f_equal. apply IH. intros Hin. apply H. right; exact Hin.
Qed.

Lemma keys_adel {V} k (l : list (N * V)) :
  akeys (adel N.eqb k l) = filter (fun p => negb (N.eqb p k)) (akeys l).
Proof.
  unfold akeys. induction l as [|[k' v'] r IH]; simpl; [reflexivity|].
  rewrite (N.eqb_sym k' k). destruct (N.eqb k k'); simpl; [exact IH|f_equal; exact IH].
Qed.

Lemma filter_filter {A} (f g : A -> bool) l : filter f (filter g l) = filter (fun x => g x && f x) l.
Proof.
  induction l as [|x r IH]; simpl; [reflexivity|].
  destruct (g x); simpl; [destruct (f x); simpl; rewrite IH; reflexivity|exact IH].
Qed.

Lemma filter_ext_eq {A} (f g : A -> bool) l : (forall x, f x = g x) -> filter f l = filter g l.
Proof. intros H. induction l as [|x r IH]; simpl; [reflexivity|]. rewrite H, IH. reflexivity. Qed.

Lemma keys_remove_all srcs : forall c,
  akeys (cat_remove_all c srcs) = filter (fun p => negb (memN p srcs)) (akeys c).
Proof.
  unfold cat_remove_all. induction srcs as [|a r IH]; intros c; simpl.
  - symmetry. clear. induction (akeys c) as [|x l IH]; simpl; [reflexivity|f_equal; exact IH].
  - rewrite IH, keys_adel, filter_filter. apply filter_ext_eq. intros x.
    rewrite negb_orb. reflexivity.
Qed.

Lemma aget_remove_all srcs : forall (c : lcatalog) p,
  aget N.eqb p (cat_remove_all c srcs) = if memN p srcs then None else aget N.eqb p c.
Proof.
  unfold cat_remove_all. induction srcs as [|a r IH]; intros c p; simpl; [reflexivity|].
  rewrite IH. destruct (N.eqb p a) eqn:E; simpl.
  - apply N.eqb_eq in E. subst a. destruct (memN p r); [reflexivity|].
    apply (aget_adel_same N.eqb).
  - destruct (memN p r); [reflexivity|].
    apply (aget_adel_other N.eqb Neqb_spec). intros ->. rewrite N.eqb_refl in E. discriminate.
Qed.

Lemma nodup_remove_all srcs : forall (c : lcatalog), NoDup (akeys c) -> NoDup (akeys (cat_remove_all c srcs)).
Proof.
  unfold cat_remove_all. induction srcs as [|a r IH]; intros c H; simpl; [exact H|].
  apply IH. apply (nodup_adel N.eqb). exact H.
Qed.

(* what a successful complete_compaction does to the catalog *)
Lemma cat_complete_some c g t c' : cat_complete c g t = Some c' ->
  In t (akeys c) /\ ~ In t g /\
  akeys c' = filter (fun p => negb (memN p g)) (akeys c) /\
  aget N.eqb t c' = Some (max_level (fun p => aget N.eqb p c) g + 1) /\
  (forall p, p <> t -> aget N.eqb p c' = if memN p g then None else aget N.eqb p c).
Proof.
  unfold cat_complete. intros H.
  destruct (amem N.eqb t (cat_remove_all c g)) eqn:E; [|discriminate].
  inversion H; subst c'; clear H.
  apply amem_in_keys in E. pose proof E as E'.
  rewrite keys_remove_all, filter_In, negb_true_iff in E'. destruct E' as [Hin Hng].
  repeat split.
  - exact Hin.
  - apply memN_false. exact Hng.
  - rewrite keys_aset_present by exact E. apply keys_remove_all.
  - apply (aget_aset_same N.eqb Neqb_spec).
  - intros p Hp. rewrite (aget_aset_other N.eqb Neqb_spec) by exact Hp. apply aget_remove_all.
Qed.

Lemma cat_complete_none c g t : cat_complete c g t = None -> ~ In t (akeys c) \/ In t g.
Proof.
  unfold cat_complete. destruct (amem N.eqb t (cat_remove_all c g)) eqn:E; [discriminate|].
  intros _. destruct (memN t g) eqn:Eg; [right; apply memN_In; exact Eg|left].
  intros Hin. assert (In t (akeys (cat_remove_all c g))).
  { rewrite keys_remove_all, filter_In, Eg. split; [exact Hin|reflexivity]. }
  apply amem_in_keys in H. congruence.
Qed.

Lemma nodup_cat_complete c g t c' : cat_complete c g t = Some c' -> NoDup (akeys c) -> NoDup (akeys c').
Proof.
  unfold cat_complete. destruct (amem N.eqb t (cat_remove_all c g)); [|discriminate].
  intros H Hnd. inversion H; subst. apply (nodup_aset N.eqb Neqb_spec). apply nodup_remove_all. exact Hnd.
Qed.

(* ------------------------------------------------------------------ *)
(* procs                                                                *)
(* ------------------------------------------------------------------ *)
Lemma get_set_proc s c p c' : get_proc (set_proc s c p) c' = if N.eqb c' c then p else get_proc s c'.
Proof.
  unfold get_proc, set_proc; simpl. destruct (N.eqb c' c) eqn:E.
  - apply N.eqb_eq in E. subst. rewrite (aget_aset_same N.eqb Neqb_spec). reflexivity.
  - rewrite (aget_aset_other N.eqb Neqb_spec); [reflexivity|].
    intros ->. rewrite N.eqb_refl in E. discriminate.
Qed.

Lemma get_set_proc_same s c p : get_proc (set_proc s c p) c = p.
Proof. rewrite get_set_proc, N.eqb_refl. reflexivity. Qed.

Lemma get_set_proc_other s c p c' : c' <> c -> get_proc (set_proc s c p) c' = get_proc s c'.
Proof. intros H. rewrite get_set_proc. destruct (N.eqb c' c) eqn:E; [apply N.eqb_eq in E; contradiction|reflexivity]. Qed.

(* sorting is a permutation *)
Lemma insertN_perm x l : Permutation (insertN x l) (x :: l).
Proof.
  induction l as [|y r IH]; simpl; [apply Permutation_refl|].
  destruct (x <=? y); [apply Permutation_refl|].
  eapply Permutation_trans; [apply perm_skip; exact IH|apply perm_swap].
Qed.

Lemma isort_perm l : Permutation (isort l) l.
Proof.
  induction l as [|x r IH]; simpl; [constructor|].
  eapply Permutation_trans; [apply insertN_perm|apply perm_skip; exact IH].
Qed.

Lemma nodupb_NoDup l : nodupb l = true -> NoDup l.
Proof.
  induction l as [|x r IH]; simpl; [constructor|].
  rewrite andb_true_iff, negb_true_iff. intros [H1 H2].
  constructor; [apply memN_false; exact H1|apply IH; exact H2].
Qed.

Lemma inclb_incl a b : inclb a b = true -> incl a b.
Proof.
  unfold inclb. rewrite forallb_forall. intros H x Hx. apply memN_In. apply H. exact Hx.
Qed.

Lemma disjointb_spec a b : disjointb a b = true -> forall x, In x a -> ~ In x b.
Proof.
  unfold disjointb. rewrite forallb_forall. intros H x Hx. specialize (H x Hx).
  rewrite negb_true_iff in H. apply memN_false. exact H.
Qed.

(* ------------------------------------------------------------------ *)
(* the invariant behind never_unqueryable                               *)
(* ------------------------------------------------------------------ *)
Definition cat_keys (s : state) : list path := akeys (s_cat s).
Definition pcof (s : state) (c : cid) : pc := p_pc (get_proc s c).
Definition content_of (s : state) (p : path) : option (list row) := aget N.eqb p (s_content s).

Definition group_of (k : pc) : list path :=
  match k with
  | PJob _ g | PRead _ g _ _ | PPut _ g _ | PReg _ g _ _ | PSwap _ g _
  | PJobDone _ g | PLeaseDone _ g => g
  | _ => []
  end.
Definition target_of (k : pc) : option path :=
  match k with PReg _ _ t _ | PSwap _ _ t => Some t | _ => None end.

(* paths some node may mention: catalogued, deleted, or seen in a catalog *)
Definition seen (s : state) (p : path) : Prop :=
  In p (cat_keys s) \/ In p (s_deleted s) \/ exists c, In p (p_snap (get_proc s c)).

(* `rows` contains every row of every source object (objects are write-once) *)
Definition covers (s : state) (g : list path) (rows : list row) : Prop :=
  forall p rs, In p g -> content_of s p = Some rs -> incl rs rows.

Definition pc_ok (s : state) (k : pc) : Prop :=
  match k with
  | PRead _ g todo acc =>
      incl todo g /\ forall p rs, In p g -> ~ In p todo -> content_of s p = Some rs -> incl rs acc
  | PPut _ g rows => covers s g rows
  | PReg _ g t rows => covers s g rows /\ content_of s t = Some rows /\ ~ seen s t
  | PSwap _ g t => exists rowsT, content_of s t = Some rowsT /\ covers s g rowsT
  | PJobDone _ g | PLeaseDone _ g => forall p, In p g -> ~ In p (cat_keys s)
  | _ => True
  end.

Record inv (R0 : list row) (s : state) : Prop := mkInv {
  i_fresh_seen : forall p, seen s p -> p < s_next s;
  i_fresh_content : forall p, In p (akeys (s_content s)) -> p < s_next s;
  i_fresh_target : forall c t, target_of (pcof s c) = Some t -> t < s_next s;
  i_snap : forall c, incl (group_of (pcof s c)) (p_snap (get_proc s c)) /\
                     incl (p_pending (get_proc s c)) (p_snap (get_proc s c));
  i_pend : forall c p, In p (p_pending (get_proc s c)) -> ~ In p (cat_keys s);
  i_del : forall p, In p (s_deleted s) -> ~ In p (cat_keys s);
  i_distinct : forall c c' t, c <> c' -> target_of (pcof s c) = Some t -> target_of (pcof s c') <> Some t;
  i_pc : forall c, pc_ok s (pcof s c);
  i_rows : forall r, In r R0 ->
           exists p rs, In p (cat_keys s) /\ ~ In p (s_deleted s) /\ content_of s p = Some rs /\ In r rs
}.

Arguments i_fresh_seen {R0 s} _.
Arguments i_fresh_content {R0 s} _.
Arguments i_fresh_target {R0 s} _.
Arguments i_snap {R0 s} _.
Arguments i_pend {R0 s} _.
Arguments i_del {R0 s} _.
Arguments i_distinct {R0 s} _.
Arguments i_pc {R0 s} _.
Arguments i_rows {R0 s} _.

Lemma pcof_set_proc s c p c' : pcof (set_proc s c p) c' = if N.eqb c' c then p_pc p else pcof s c'.
Proof. unfold pcof. rewrite get_set_proc. destruct (N.eqb c' c); reflexivity. Qed.

Lemma seen_set_proc s c p q : seen (set_proc s c p) q -> seen s q \/ In q (p_snap p).
Proof.
  intros [H|[H|[c' H]]].
  - left; left; exact H.
  - left; right; left; exact H.
  - rewrite get_set_proc in H. destruct (N.eqb c' c); [right; exact H|].
    left; right; right; exists c'; exact H.
Qed.

(* pc_ok only looks at content, catalog keys and `seen` *)
Lemma pc_ok_transfer s s' k :
  (forall p, content_of s' p = content_of s p) ->
  (forall p, In p (cat_keys s') -> In p (cat_keys s)) ->
  (forall p, seen s' p -> seen s p) ->
  pc_ok s k -> pc_ok s' k.
Proof.
  intros Hc Hk Hs. unfold pc_ok, covers. destruct k; auto.
  - intros [H1 H2]. split; [exact H1|]. intros p rs. rewrite Hc. apply H2.
  - intros H p rs. rewrite Hc. apply H.
  - intros [H1 [H2 H3]]. split; [|split].
    + intros p rs. rewrite Hc. apply H1.
    + rewrite Hc. exact H2.
    + intros Hn. apply H3. apply Hs. exact Hn.
  - intros [rowsT [H1 H2]]. exists rowsT. split; [rewrite Hc; exact H1|].
    intros p rs. rewrite Hc. apply H2.
  - intros H p Hp Hin. apply (H p Hp). apply Hk. exact Hin.
  - intros H p Hp Hin. apply (H p Hp). apply Hk. exact Hin.
Qed.

(* a node changes its own volatile state, learning nothing new *)
Lemma inv_set_proc R0 s c p' :
  inv R0 s ->
  (forall q, In q (p_snap p') -> seen s q) ->
  incl (group_of (p_pc p')) (p_snap p') ->
  incl (p_pending p') (p_snap p') ->
  (forall q, In q (p_pending p') -> ~ In q (cat_keys s)) ->
  (forall t, target_of (p_pc p') = Some t ->
     target_of (pcof s c) = Some t \/ (t < s_next s /\ forall c', target_of (pcof s c') <> Some t)) ->
  pc_ok s (p_pc p') ->
  inv R0 (set_proc s c p').
Proof.
  intros I Hsnap Hg Hp Hpc Ht Hok.
  assert (Hseen : forall q, seen (set_proc s c p') q -> seen s q).
  { intros q Hq. destruct (seen_set_proc _ _ _ _ Hq) as [H|H]; [exact H|apply Hsnap; exact H]. }
  constructor.
  - intros p Hs. apply (i_fresh_seen I). apply Hseen. exact Hs.
  - exact (i_fresh_content I).
  - intros c' t. rewrite pcof_set_proc. destruct (N.eqb c' c) eqn:E.
    + intros H. destruct (Ht t H) as [H1|[H1 _]]; [exact (i_fresh_target I c t H1)|exact H1].
    + apply (i_fresh_target I).
  - intros c'. rewrite pcof_set_proc, get_set_proc. destruct (N.eqb c' c); [split; assumption|apply (i_snap I)].
  - intros c' p. rewrite get_set_proc. destruct (N.eqb c' c); [apply Hpc|apply (i_pend I)].
  - exact (i_del I).
  - intros c1 c2 t Hne. rewrite !pcof_set_proc.
    destruct (N.eqb c1 c) eqn:E1; destruct (N.eqb c2 c) eqn:E2.
    + apply N.eqb_eq in E1, E2. congruence.
    + apply N.eqb_eq in E1. subst c1. intros H. destruct (Ht t H) as [H1|[_ H1]].
      * apply (i_distinct I c c2 t Hne H1).
      * apply H1.
    + apply N.eqb_eq in E2. subst c2. intros H H'. destruct (Ht t H') as [H1|[_ H1]].
      * apply (i_distinct I c1 c t Hne H H1).
      * apply (H1 c1 H).
    + apply (i_distinct I c1 c2 t Hne).
  - intros c'. rewrite pcof_set_proc.
    apply pc_ok_transfer with (s := s); [reflexivity|auto|exact Hseen|].
    destruct (N.eqb c' c); [exact Hok|apply (i_pc I)].
  - exact (i_rows I).
Qed.

(* fields the invariant does not read *)
Lemma inv_ext R0 s s' :
  s_cat s' = s_cat s -> s_content s' = s_content s -> s_deleted s' = s_deleted s ->
  s_next s' = s_next s -> s_procs s' = s_procs s -> inv R0 s -> inv R0 s'.
Proof.
  intros H1 H2 H3 H4 H5 I.
  assert (Hg : forall c, get_proc s' c = get_proc s c) by (intros c; unfold get_proc; rewrite H5; reflexivity).
  assert (Hk : cat_keys s' = cat_keys s) by (unfold cat_keys; rewrite H1; reflexivity).
  assert (Hc : forall p, content_of s' p = content_of s p) by (intros p; unfold content_of; rewrite H2; reflexivity).
  assert (Hp : forall c, pcof s' c = pcof s c) by (intros c; unfold pcof; rewrite Hg; reflexivity).
  assert (Hs : forall p, seen s' p <-> seen s p).
  { intros p. unfold seen. rewrite Hk, H3. split; intros [H|[H|[c H]]]; auto;
      right; right; exists c; [rewrite <- Hg|rewrite Hg]; exact H. }
  constructor.
  - intros p Hx. rewrite H4. apply (i_fresh_seen I). apply Hs. exact Hx.
  - intros p. rewrite H2, H4. apply (i_fresh_content I).
  - intros c t. rewrite Hp, H4. apply (i_fresh_target I).
  - intros c. rewrite Hp, Hg. apply (i_snap I).
  - intros c p. rewrite Hg, Hk. apply (i_pend I).
  - intros p. rewrite H3, Hk. apply (i_del I).
  - intros c c' t. rewrite !Hp. apply (i_distinct I).
  - intros c. rewrite Hp. apply pc_ok_transfer with (s := s); auto.
    + intros p. rewrite Hk. auto.
    + intros p. apply Hs.
    + apply (i_pc I).
  - intros r Hr. destruct (i_rows I r Hr) as [p [rs [A [B [C D]]]]].
    exists p, rs. rewrite Hk, H3, Hc. auto.
Qed.

Lemma aset_twice {V} k (v1 v2 : V) l : aset N.eqb k v2 (aset N.eqb k v1 l) = aset N.eqb k v2 l.
Proof.
  induction l as [|[k' v'] r IH]; simpl.
  - rewrite N.eqb_refl. reflexivity.
  - destruct (N.eqb k k') eqn:E; simpl; rewrite E; [reflexivity|f_equal; exact IH].
Qed.

Lemma set_proc_twice s c p1 p2 : set_proc (set_proc s c p1) c p2 = set_proc s c p2.
Proof. unfold set_proc; simpl. rewrite aset_twice. reflexivity. Qed.

Lemma seen_lt R0 s p : inv R0 s -> seen s p -> p < s_next s.
Proof. intros I. apply (i_fresh_seen I). Qed.

Lemma group_lt R0 s c p : inv R0 s -> In p (group_of (pcof s c)) -> p < s_next s.
Proof.
  intros I H. apply (i_fresh_seen I). right; right. exists c. apply (proj1 (i_snap I c)). exact H.
Qed.

(* ---- PUT of a fresh object ---- *)
Lemma content_put_old s rows p : p <> s_next s -> content_of (put_object s rows) p = content_of s p.
Proof. intros H. unfold content_of, put_object; simpl. apply aget_snoc_other. exact H. Qed.

Lemma pc_ok_put s rows k :
  (forall p, In p (group_of k) -> p < s_next s) ->
  (forall t, target_of k = Some t -> t < s_next s) ->
  pc_ok s k -> pc_ok (put_object s rows) k.
Proof.
  intros Hg Ht.
  assert (Hc : forall p, p < s_next s -> content_of (put_object s rows) p = content_of s p).
  { intros p Hp. apply content_put_old. intros ->. apply N.lt_irrefl in Hp. exact Hp. }
  unfold pc_ok, covers. destruct k; simpl in *; auto.
  - intros [H1 H2]. split; [exact H1|]. intros p rs Hin. rewrite Hc by (apply Hg; exact Hin). apply H2. exact Hin.
  - intros H p rs Hin. rewrite Hc by (apply Hg; exact Hin). apply H. exact Hin.
  - intros [H1 [H2 H3]]. split; [|split].
    + intros p rs Hin. rewrite Hc by (apply Hg; exact Hin). apply H1. exact Hin.
    + rewrite Hc by (apply Ht; reflexivity). exact H2.
    + exact H3.
  - intros [rowsT [H1 H2]]. exists rowsT. split.
    + rewrite Hc by (apply Ht; reflexivity). exact H1.
    + intros p rs Hin. rewrite Hc by (apply Hg; exact Hin). apply H2. exact Hin.
Qed.

Lemma inv_put R0 s rows : inv R0 s -> inv R0 (put_object s rows).
Proof.
  intros I. constructor.
  - intros p Hs. change (seen s p) in Hs. simpl. apply N.lt_lt_add_r. exact (i_fresh_seen I p Hs).
  - intros p. simpl. rewrite akeys_app, in_app_iff. simpl. intros [H|[H|[]]].
    + apply N.lt_lt_add_r. exact (i_fresh_content I p H).
    + subst p. apply N.lt_add_pos_r. reflexivity.
  - intros c t H. simpl. apply N.lt_lt_add_r. exact (i_fresh_target I c t H).
  - exact (i_snap I).
  - exact (i_pend I).
  - exact (i_del I).
  - exact (i_distinct I).
  - intros c. apply pc_ok_put.
    + intros p Hp. exact (group_lt _ _ _ _ I Hp).
    + intros t Ht. exact (i_fresh_target I c t Ht).
    + exact (i_pc I c).
  - intros r Hr. destruct (i_rows I r Hr) as [p [rs [A [B [C D]]]]].
    exists p, rs. repeat split; auto.
    rewrite content_put_old; [exact C|].
    intros ->. assert (s_next s < s_next s) by (apply (i_fresh_seen I); left; exact A).
    apply N.lt_irrefl in H. exact H.
Qed.

Lemma inv_skip R0 s : inv R0 s -> inv R0 (skip_path s).
Proof.
  intros I. constructor.
  - intros p Hs. change (seen s p) in Hs. simpl. apply N.lt_lt_add_r. exact (i_fresh_seen I p Hs).
  - intros p H. simpl. apply N.lt_lt_add_r. exact (i_fresh_content I p H).
  - intros c t H. simpl. apply N.lt_lt_add_r. exact (i_fresh_target I c t H).
  - exact (i_snap I).
  - exact (i_pend I).
  - exact (i_del I).
  - exact (i_distinct I).
  - intros c. apply pc_ok_transfer with (s := s); auto. exact (i_pc I c).
  - exact (i_rows I).
Qed.

(* ---- register_chunk of a path nobody has seen ---- *)
Lemma inv_cat_add R0 s t :
  inv R0 s -> ~ seen s t -> t < s_next s -> (forall c, target_of (pcof s c) <> Some t) ->
  inv R0 (set_cat s (cat_register (s_cat s) t)).
Proof.
  intros I Hns Hlt Hnt.
  assert (Hnk : ~ In t (cat_keys s)) by (intros H; apply Hns; left; exact H).
  assert (Hk : forall p, In p (cat_keys (set_cat s (cat_register (s_cat s) t))) <-> In p (cat_keys s) \/ p = t).
  { intros p. unfold cat_keys, cat_register; simpl. rewrite keys_aset_absent by exact Hnk.
    rewrite in_app_iff. simpl. intuition. }
  assert (Hs : forall p, seen (set_cat s (cat_register (s_cat s) t)) p -> seen s p \/ p = t).
  { intros p [H|[H|H]].
    - apply Hk in H. destruct H; [left; left; exact H|right; exact H].
    - left; right; left; exact H.
    - left; right; right; exact H. }
  constructor.
  - intros p Hp. simpl. destruct (Hs p Hp) as [H| ->]; [exact (i_fresh_seen I p H)|exact Hlt].
  - exact (i_fresh_content I).
  - exact (i_fresh_target I).
  - exact (i_snap I).
  - intros c p Hp Hin. apply Hk in Hin. destruct Hin as [Hin| ->].
    + exact (i_pend I c p Hp Hin).
    + apply Hns. right; right. exists c. apply (proj2 (i_snap I c)). exact Hp.
  - intros p Hp Hin. apply Hk in Hin. destruct Hin as [Hin| ->].
    + exact (i_del I p Hp Hin).
    + apply Hns. right; left. exact Hp.
  - exact (i_distinct I).
  - intros c. change (pcof (set_cat s (cat_register (s_cat s) t)) c) with (pcof s c).
    pose proof (i_pc I c) as Hok. pose proof (proj1 (i_snap I c)) as Hg. pose proof (Hnt c) as Hc.
    unfold pc_ok, covers in *. destruct (pcof s c) eqn:E; simpl in *; auto.
    + destruct Hok as [H1 [H2 H3]]. split; [exact H1|split; [exact H2|]].
      intros Hx. destruct (Hs _ Hx) as [H| ->]; [exact (H3 H)|apply Hc; reflexivity].
    + intros p Hp Hin. apply Hk in Hin. destruct Hin as [Hin| ->]; [exact (Hok p Hp Hin)|].
      apply Hns. right; right. exists c. apply Hg. exact Hp.
    + intros p Hp Hin. apply Hk in Hin. destruct Hin as [Hin| ->]; [exact (Hok p Hp Hin)|].
      apply Hns. right; right. exists c. apply Hg. exact Hp.
  - intros r Hr. destruct (i_rows I r Hr) as [p [rs [A [B [C D]]]]].
    exists p, rs. repeat split; auto. apply Hk. left; exact A.
Qed.

(* ---- complete_compaction: the swap ---- *)
Lemma inv_cat_swap R0 s g t c' rowsT :
  inv R0 s -> cat_complete (s_cat s) g t = Some c' ->
  content_of s t = Some rowsT -> covers s g rowsT ->
  inv R0 (set_cat s c').
Proof.
  intros I Hc Ht Hcov.
  destruct (cat_complete_some _ _ _ _ Hc) as [Htin [Htg [Hkeys _]]].
  assert (Hk : forall p, In p (cat_keys (set_cat s c')) <-> In p (cat_keys s) /\ ~ In p g).
  { intros p. unfold cat_keys; simpl. rewrite Hkeys, filter_In, negb_true_iff, memN_false. reflexivity. }
  assert (Hs : forall p, seen (set_cat s c') p -> seen s p).
  { intros p [H|[H|H]].
    - left. apply Hk in H. tauto.
    - right; left; exact H.
    - right; right; exact H. }
  constructor.
  - intros p Hp. exact (i_fresh_seen I p (Hs p Hp)).
  - exact (i_fresh_content I).
  - exact (i_fresh_target I).
  - exact (i_snap I).
  - intros c p Hp Hin. apply Hk in Hin. exact (i_pend I c p Hp (proj1 Hin)).
  - intros p Hp Hin. apply Hk in Hin. exact (i_del I p Hp (proj1 Hin)).
  - exact (i_distinct I).
  - intros c. apply pc_ok_transfer with (s := s); auto.
    + intros p Hin. apply Hk in Hin. tauto.
    + exact (i_pc I c).
  - intros r Hr. destruct (i_rows I r Hr) as [p [rs [A [B [C D]]]]].
    destruct (memN p g) eqn:E.
    + apply memN_In in E. exists t, rowsT. repeat split.
      * apply Hk. split; assumption.
      * intros Hd. exact (i_del I t Hd Htin).
      * exact Ht.
      * apply (Hcov p rs E C). exact D.
    + apply memN_false in E. exists p, rs. repeat split; auto. apply Hk. split; assumption.
Qed.

(* ---- GC deletes an object that is scheduled for deletion ---- *)
Lemma inv_del_obj R0 s q :
  inv R0 s -> ~ In q (cat_keys s) -> seen s q -> inv R0 (del_object s q).
Proof.
  intros I Hnk Hq.
  assert (Hs : forall p, seen (del_object s q) p -> seen s p).
  { intros p [H|[H|H]].
    - left; exact H.
    - simpl in H. destruct H as [<-|H]; [exact Hq|right; left; exact H].
    - right; right; exact H. }
  constructor.
  - intros p Hp. exact (i_fresh_seen I p (Hs p Hp)).
  - exact (i_fresh_content I).
  - exact (i_fresh_target I).
  - exact (i_snap I).
  - exact (i_pend I).
  - intros p Hp. simpl in Hp. destruct Hp as [<-|Hp]; [exact Hnk|exact (i_del I p Hp)].
  - exact (i_distinct I).
  - intros c. apply pc_ok_transfer with (s := s); auto. exact (i_pc I c).
  - intros r Hr. destruct (i_rows I r Hr) as [p [rs [A [B [C D]]]]].
    exists p, rs. repeat split; auto. simpl. intros [<-|H]; [exact (Hnk A)|exact (B H)].
Qed.

(* ---- corollaries of inv_set_proc for the shapes the step function uses ---- *)
Lemma seen_snap s c q : In q (p_snap (get_proc s c)) -> seen s q.
Proof. intros H. right; right. exists c. exact H. Qed.

Lemma seen_keys_or_snap s c q : In q (akeys (s_cat s) ++ p_snap (get_proc s c)) -> seen s q.
Proof. rewrite in_app_iff. intros [H|H]; [left; exact H|eapply seen_snap; eauto]. Qed.

(* the pc changes, snapshot and pending list stay *)
Lemma inv_pc R0 s c k :
  inv R0 s ->
  incl (group_of k) (p_snap (get_proc s c)) ->
  (forall t, target_of k = Some t ->
     target_of (pcof s c) = Some t \/ (t < s_next s /\ forall c', target_of (pcof s c') <> Some t)) ->
  pc_ok s k ->
  inv R0 (set_proc s c (with_pc (get_proc s c) k)).
Proof.
  intros I Hg Ht Hok. apply inv_set_proc; simpl; auto.
  - intros q. apply seen_snap.
  - apply (proj2 (i_snap I c)).
  - apply (i_pend I c).
Qed.

(* the node gives up its group: nothing to maintain for it any more *)
Lemma inv_forget R0 s c p' :
  inv R0 s ->
  group_of (p_pc p') = [] -> target_of (p_pc p') = None -> pc_ok s (p_pc p') ->
  incl (p_snap p') (akeys (s_cat s) ++ p_snap (get_proc s c)) ->
  incl (p_pending p') (p_pending (get_proc s c)) ->
  incl (p_pending p') (p_snap p') ->
  inv R0 (set_proc s c p').
Proof.
  intros I Hg Ht Hok Hs Hp Hps. apply inv_set_proc; auto.
  - intros q Hq. eapply seen_keys_or_snap. apply Hs. exact Hq.
  - rewrite Hg. intros x [].
  - intros q Hq. apply (i_pend I c). apply Hp. exact Hq.
  - intros t. rewrite Ht. discriminate.
Qed.

Lemma incl_appr_snap (a b : list path) : incl b (a ++ b).
Proof. apply incl_appr. apply incl_refl. Qed.

Lemma rows_at_present s q : present s q = true ->
  exists rs, content_of s q = Some rs /\ rows_at s q = rs.
Proof.
  unfold present, rows_at, content_of, amem. rewrite andb_true_iff, negb_true_iff.
  intros [H1 H2]. rewrite H2. destruct (aget N.eqb q (s_content s)); [eauto|discriminate].
Qed.

Lemma incl_isort l : incl l (isort l).
Proof. intros x Hx. eapply Permutation_in; [apply Permutation_sym; apply isort_perm|exact Hx]. Qed.

Lemma pc_ok_after_reads s l g acc :
  (forall p rs, In p g -> content_of s p = Some rs -> incl rs acc) ->
  pc_ok s (after_reads l g acc).
Proof.
  intros H. unfold after_reads. destruct acc as [|a r]; simpl; [exact I|].
  intros p rs Hp Hc. eapply incl_tran; [apply (H p rs Hp Hc)|apply incl_isort].
Qed.

Lemma group_after_reads l g acc : incl (group_of (after_reads l g acc)) g.
Proof. unfold after_reads. destruct acc; simpl; [intros x []|apply incl_refl]. Qed.

Lemma target_after_reads l g acc : target_of (after_reads l g acc) = None.
Proof. unfold after_reads. destruct acc; reflexivity. Qed.

Ltac trivial_target := let t := fresh in let H := fresh in intros t H; simpl in H; try rewrite target_after_reads in H; discriminate.

Lemma step_proc_inv R0 s c f : inv R0 s -> inv R0 (fst (step_proc s c f)).
Proof.
  intros I. unfold step_proc.
  pose proof (i_pc I c) as Hok. pose proof (i_snap I c) as [Hgrp Hpend].
  unfold pcof in Hok, Hgrp.
  destruct (p_pc (get_proc s c)) eqn:E; simpl in Hok, Hgrp.
  - (* Idle *) exact I.
  - (* PJob *)
    destruct f; simpl; try (apply inv_forget; simpl; auto using incl_refl, incl_appr_snap; fail).
    destruct g as [|a r]; simpl.
    + apply inv_forget; simpl; auto using incl_refl, incl_appr_snap.
    + apply inv_pc; simpl; auto; [trivial_target|].
      split; [apply incl_refl|]. intros p rs Hp Hn. contradiction.
  - (* PRead *)
    destruct Hok as [Htodo Hacc].
    destruct todo as [|q rest]; simpl.
    + apply inv_pc; auto.
      * eapply incl_tran; [apply group_after_reads|exact Hgrp].
      * trivial_target.
      * apply pc_ok_after_reads. intros p rs Hp Hc. apply (Hacc p rs Hp); auto.
    + assert (Hfail : inv R0 (set_proc s c (with_pc (get_proc s c) (PJobFail l)))).
      { apply inv_forget; simpl; auto using incl_refl, incl_appr_snap. }
      destruct f; simpl; try exact Hfail.
      destruct (present s q) eqn:Ep; simpl; [|exact Hfail].
      destruct (rows_at_present _ _ Ep) as [rsq [Hcq Hrq]]. rewrite Hrq.
      assert (Hcov : forall p rs, In p g -> ~ In p rest -> content_of s p = Some rs -> incl rs (acc ++ rsq)).
      { intros p rs Hp Hn Hc. destruct (N.eq_dec p q) as [->|Hne].
        - rewrite Hcq in Hc. inversion Hc; subst. apply incl_appr. apply incl_refl.
        - apply incl_appl. apply (Hacc p rs Hp); auto. intros [H|H]; [congruence|contradiction]. }
      destruct rest as [|q2 rest2].
      * apply inv_pc; auto.
        -- eapply incl_tran; [apply group_after_reads|exact Hgrp].
        -- trivial_target.
        -- apply pc_ok_after_reads. intros p rs Hp Hc. apply (Hcov p rs Hp); auto.
      * apply inv_pc; simpl; auto; [trivial_target|].
        split; [|exact Hcov]. intros x Hx. apply Htodo. right. exact Hx.
  - (* PPut *)
    assert (Hn : pcof (put_object s rows) c = PPut l g rows) by exact E.
    destruct f; simpl.
    + (* Ok *)
      pose proof (inv_put _ _ rows I) as I1.
      change (get_proc s c) with (get_proc (put_object s rows) c).
      apply inv_pc; simpl; auto.
      * intros t Ht. inversion Ht; subst t. right. split.
        -- apply N.lt_add_pos_r. reflexivity.
        -- intros c' Hc'. pose proof (i_fresh_target I c' (s_next s) Hc') as Hlt.
           apply N.lt_irrefl in Hlt. exact Hlt.
      * split; [|split].
        -- pose proof (i_pc I1 c) as H. rewrite Hn in H. exact H.
        -- unfold content_of; simpl. apply aget_snoc_fresh. intros Hin.
           pose proof (i_fresh_content I _ Hin) as Hlt. apply N.lt_irrefl in Hlt. exact Hlt.
        -- intros Hs. assert (seen s (s_next s)) by exact Hs.
           pose proof (i_fresh_seen I _ H) as Hlt. apply N.lt_irrefl in Hlt. exact Hlt.
    + (* FBefore *)
      pose proof (inv_skip _ _ I) as I1.
      change (get_proc s c) with (get_proc (skip_path s) c).
      apply inv_forget; simpl; auto using incl_refl, incl_appr_snap.
    + (* FAfter *)
      pose proof (inv_put _ _ rows I) as I1.
      change (get_proc s c) with (get_proc (put_object s rows) c).
      apply inv_forget; simpl; auto using incl_refl, incl_appr_snap.
  - (* PReg *)
    destruct Hok as [Hcov [Hct Hns]].
    assert (Hfail : inv R0 (set_proc s c (with_pc (get_proc s c) (PJobFail l)))).
    { apply inv_forget; simpl; auto using incl_refl, incl_appr_snap. }
    assert (Hreg : forall k, (k = PSwap l g t \/ k = PJobFail l) ->
              inv R0 (set_proc (set_cat s (cat_register (s_cat s) t)) c
                        (with_pc (see_catalog (get_proc s c) (cat_register (s_cat s) t)) k))).
    { intros k Hk.
      set (sa := set_proc s c (with_pc (get_proc s c) (PJobFail l))).
      assert (Hsa : forall q, seen sa q -> seen s q).
      { intros q Hq. destruct (seen_set_proc _ _ _ _ Hq) as [H|H]; [exact H|eapply seen_snap; exact H]. }
      assert (Hta : forall c', target_of (pcof sa c') <> Some t).
      { intros c'. unfold sa. rewrite pcof_set_proc. destruct (N.eqb c' c) eqn:Ec; [simpl; discriminate|].
        apply (i_distinct I c c' t).
        - intros ->. rewrite N.eqb_refl in Ec. discriminate.
        - unfold pcof. rewrite E. reflexivity. }
      assert (Hlt : t < s_next s) by (apply (i_fresh_target I c); unfold pcof; rewrite E; reflexivity).
      pose proof (inv_cat_add R0 sa t Hfail (fun H => Hns (Hsa _ H)) Hlt Hta) as Ib.
      set (sb := set_cat sa (cat_register (s_cat sa) t)) in Ib.
      replace (set_proc (set_cat s (cat_register (s_cat s) t)) c
                 (with_pc (see_catalog (get_proc s c) (cat_register (s_cat s) t)) k))
        with (set_proc sb c (with_pc (see_catalog (get_proc s c) (cat_register (s_cat s) t)) k)).
      2:{ unfold sb, sa, set_cat, set_proc; simpl. rewrite aset_twice. reflexivity. }
      assert (Hgp : p_snap (get_proc sb c) = p_snap (get_proc s c)).
      { unfold sb. change (get_proc (set_cat sa (cat_register (s_cat sa) t)) c) with (get_proc sa c).
        unfold sa. rewrite get_set_proc_same. reflexivity. }
      assert (Hpp : p_pending (get_proc sb c) = p_pending (get_proc s c)).
      { unfold sb. change (get_proc (set_cat sa (cat_register (s_cat sa) t)) c) with (get_proc sa c).
        unfold sa. rewrite get_set_proc_same. reflexivity. }
      apply inv_set_proc; simpl; auto.
      - intros q Hq. apply in_app_iff in Hq. destruct Hq as [Hq|Hq].
        + left. exact Hq.
        + eapply (seen_snap sb c). rewrite Hgp. exact Hq.
      - destruct Hk as [-> | ->]; simpl; [|intros x []].
        apply incl_appr. exact Hgrp.
      - apply incl_appr. exact Hpend.
      - intros q Hq. apply (i_pend Ib c). rewrite Hpp. exact Hq.
      - intros t' Ht'. destruct Hk as [-> | ->]; simpl in Ht'; [|discriminate].
        inversion Ht'; subst t'. right. split; [exact Hlt|]. intros c'.
        change (pcof sb c') with (pcof sa c'). apply Hta.
      - destruct Hk as [-> | ->]; simpl; [|exact Logic.I].
        exists rows. split; [exact Hct|exact Hcov]. }
    destruct f; simpl; [apply Hreg; left; reflexivity|exact Hfail|apply Hreg; right; reflexivity].
  - (* PSwap *)
    destruct Hok as [rowsT [Hct Hcov]].
    assert (Hret : inv R0 (set_proc s c (early_return (get_proc s c) l))).
    { apply inv_forget; simpl; auto using incl_refl, incl_appr_snap. }
    assert (Hswap : forall c' p', cat_complete (s_cat s) g t = Some c' ->
              (p' = with_pc (see_catalog (get_proc s c) c') (PJobDone l g) \/
               p' = early_return (see_catalog (get_proc s c) c') l) ->
              inv R0 (set_proc (set_cat s c') c p')).
    { intros c' p' Hcc Hp'.
      set (sa := set_proc s c (early_return (get_proc s c) l)).
      pose proof (inv_cat_swap R0 sa g t c' rowsT Hret Hcc Hct Hcov) as Ib.
      set (sb := set_cat sa c') in Ib.
      replace (set_proc (set_cat s c') c p') with (set_proc sb c p').
      2:{ unfold sb, sa, set_cat, set_proc; simpl. rewrite aset_twice. reflexivity. }
      assert (Hgp : get_proc sb c = early_return (get_proc s c) l).
      { unfold sb. change (get_proc (set_cat sa c') c) with (get_proc sa c).
        unfold sa. rewrite get_set_proc_same. reflexivity. }
      destruct (cat_complete_some _ _ _ _ Hcc) as [_ [_ [Hkeys _]]].
      apply inv_set_proc.
      - exact Ib.
      - intros q Hq. assert (Hq' : In q (akeys c' ++ p_snap (get_proc s c))) by (destruct Hp' as [-> | ->]; exact Hq).
        apply in_app_iff in Hq'. destruct Hq' as [Hq'|Hq'].
        + left. exact Hq'.
        + eapply (seen_snap sb c). rewrite Hgp. exact Hq'.
      - destruct Hp' as [-> | ->]; simpl; [|intros x []]. apply incl_appr. exact Hgrp.
      - destruct Hp' as [-> | ->]; simpl; apply incl_appr; exact Hpend.
      - intros q Hq. apply (i_pend Ib c). rewrite Hgp. destruct Hp' as [-> | ->]; exact Hq.
      - intros t'. destruct Hp' as [-> | ->]; simpl; discriminate.
      - destruct Hp' as [-> | ->]; simpl; [|exact Logic.I].
        intros p Hp Hin. unfold cat_keys, sb in Hin; simpl in Hin.
        rewrite Hkeys, filter_In, negb_true_iff, memN_false in Hin. tauto. }
    destruct f; simpl; try exact Hret.
    + destruct (cat_complete (s_cat s) g t) eqn:Ecc; [|exact Hret].
      apply Hswap; auto.
    + destruct (cat_complete (s_cat s) g t) eqn:Ecc; [|exact Hret].
      apply Hswap; auto.
  - (* PJobDone *)
    destruct f; simpl; try (apply inv_forget; simpl; auto using incl_refl, incl_appr_snap; fail).
    apply inv_pc; simpl; auto. trivial_target.
  - (* PLeaseDone *)
    destruct f; simpl.
    + (* Ok: lease completed, sources scheduled for deletion *)
      set (s1 := set_leases s (lease_set_status l 1 (s_leases s))).
      assert (I1 : inv R0 s1) by (apply inv_ext with (s := s); auto).
      change (get_proc s c) with (get_proc s1 c).
      apply inv_set_proc; simpl; auto.
      * intros q. apply (seen_snap s1 c).
      * intros x [].
      * apply incl_app; [exact Hgrp|exact Hpend].
      * intros q Hq. apply in_app_iff in Hq. destruct Hq as [Hq|Hq]; [apply Hok; exact Hq|apply (i_pend I c); exact Hq].
      * trivial_target.
    + apply inv_forget; simpl; auto using incl_refl, incl_appr_snap.
    + set (s1 := set_leases s (lease_set_status l 1 (s_leases s))).
      assert (I1 : inv R0 s1) by (apply inv_ext with (s := s); auto).
      change (get_proc s c) with (get_proc s1 c).
      apply inv_forget; simpl; auto using incl_refl, incl_appr_snap.
  - (* PJobFail *)
    destruct f; simpl; apply inv_forget; simpl; auto using incl_refl, incl_appr_snap.
  - (* PLeaseFail *)
    destruct f; simpl.
    + set (s1 := set_leases s (lease_set_status l 2 (s_leases s))).
      assert (I1 : inv R0 s1) by (apply inv_ext with (s := s); auto).
      change (get_proc s c) with (get_proc s1 c).
      apply inv_forget; simpl; auto using incl_refl, incl_appr_snap.
    + apply inv_forget; simpl; auto using incl_refl, incl_appr_snap.
    + set (s1 := set_leases s (lease_set_status l 2 (s_leases s))).
      assert (I1 : inv R0 s1) by (apply inv_ext with (s := s); auto).
      change (get_proc s c) with (get_proc s1 c).
      apply inv_forget; simpl; auto using incl_refl, incl_appr_snap.
Qed.

Lemma step_start_inv R0 s c g f : inv R0 s -> inv R0 (fst (step_start s c g f)).
Proof.
  intros I. unfold step_start.
  destruct (start_ok s c g) eqn:Eok; simpl; [|exact I].
  destruct f; simpl; try exact I.
  - (* Ok *)
    destruct (lease_conflict (s_clock s) (drop_expired (s_clock s) (s_leases s)) g); simpl.
    + destruct (s_local s); [|exact I]. apply inv_ext with (s := s); auto.
    + set (s1 := bump_lease_id (set_leases s (lease_insert (s_clock s) (acquire_ttl s) (s_nextl s) g
                                               (drop_expired (s_clock s) (s_leases s))))).
      assert (I1 : inv R0 s1) by (apply inv_ext with (s := s); auto).
      change (get_proc s c) with (get_proc s1 c).
      unfold start_ok in Eok. destruct (p_pc (get_proc s c)) eqn:E; try discriminate.
      rewrite !andb_true_iff in Eok. destruct Eok as [[_ Hincl] _].
      apply inv_set_proc; simpl; auto.
      * intros q. apply (seen_snap s1 c).
      * apply inclb_incl. exact Hincl.
      * apply (proj2 (i_snap I c)).
      * apply (i_pend I c).
      * intros t Ht. discriminate.
  - (* FAfter *)
    destruct (lease_conflict (s_clock s) (drop_expired (s_clock s) (s_leases s)) g); simpl.
    + destruct (s_local s); [|exact I]. apply inv_ext with (s := s); auto.
    + apply inv_ext with (s := s); auto.
Qed.

Lemma step_inv R0 s lb : inv R0 s -> inv R0 (fst (step s lb)).
Proof.
  intros I. destruct lb; simpl.
  - (* LList *)
    apply inv_set_proc; simpl; auto.
    + intros q. apply seen_keys_or_snap.
    + apply incl_appr. apply (proj1 (i_snap I c)).
    + apply incl_appr. apply (proj2 (i_snap I c)).
    + apply (i_pend I c).
    + apply (i_pc I c).
  - apply step_start_inv. exact I.
  - apply step_proc_inv. exact I.
  - (* LRenew *)
    destruct (memN l (p_renew (get_proc s c))); simpl; [|exact I].
    destruct (lease_renew (s_clock s) (renew_ttl s) l (s_leases s)); simpl.
    + apply inv_ext with (s := s); auto.
    + apply inv_set_proc; simpl; auto.
      * intros q. apply seen_snap.
      * apply (proj1 (i_snap I c)).
      * apply (proj2 (i_snap I c)).
      * apply (i_pend I c).
      * apply (i_pc I c).
  - (* LDel *)
    destruct (memN p (p_pending (get_proc s c))) eqn:Em; simpl; [|exact I].
    apply memN_In in Em.
    set (s1 := set_proc s c (mkProc (p_pc (get_proc s c)) (p_snap (get_proc s c))
                               (removeN p (p_pending (get_proc s c))) (p_renew (get_proc s c))
                               (p_active (get_proc s c)))).
    assert (I1 : inv R0 s1).
    { apply inv_set_proc; simpl; auto.
      - intros q. apply seen_snap.
      - apply (proj1 (i_snap I c)).
      - intros q Hq. apply In_removeN in Hq. apply (proj2 (i_snap I c)). tauto.
      - intros q Hq. apply In_removeN in Hq. apply (i_pend I c). tauto.
      - apply (i_pc I c). }
    destruct f; simpl; try exact I1.
    + apply inv_del_obj; auto.
      * apply (i_pend I c). exact Em.
      * apply (seen_snap s1 c). unfold s1. rewrite get_set_proc_same. simpl.
        apply (proj2 (i_snap I c)). exact Em.
    + apply inv_del_obj; auto.
      * apply (i_pend I c). exact Em.
      * apply (seen_snap s1 c). unfold s1. rewrite get_set_proc_same. simpl.
        apply (proj2 (i_snap I c)). exact Em.
  - (* LScav *) apply inv_ext with (s := s); auto.
  - (* LCrash *)
    apply inv_forget; simpl; auto; intros x [].
  - (* LTick *) apply inv_ext with (s := s); auto.
Qed.

Lemma run_inv R0 sched : forall s, inv R0 s -> inv R0 (run sched s).
Proof.
  unfold run. induction sched as [|lb r IH]; intros s I; simpl; [exact I|].
  apply IH. apply step_inv. exact I.
Qed.

(* ---- reachable rows ---- *)
Lemma in_visible s r :
  In r (visible s) <->
  exists p rs, In p (cat_keys s) /\ ~ In p (s_deleted s) /\ content_of s p = Some rs /\ In r rs.
Proof.
  unfold visible, cat_keys, akeys. rewrite in_flat_map. split.
  - intros [[p lv] [Hin Hr]]. simpl in Hr. unfold rows_at in Hr.
    destruct (memN p (s_deleted s)) eqn:Ed; [destruct Hr|].
    destruct (aget N.eqb p (s_content s)) as [rs|] eqn:Ec; [|destruct Hr].
    exists p, rs. repeat split; auto.
    + change p with (fst (p, lv)). apply in_map. exact Hin.
    + apply memN_false. exact Ed.
  - intros [p [rs [Hk [Hd [Hc Hr]]]]]. apply in_map_iff in Hk. destruct Hk as [[p' lv] [Hp Hin]].
    simpl in Hp. subst p'. exists (p, lv). split; [exact Hin|]. simpl. unfold rows_at.
    apply memN_false in Hd. rewrite Hd. unfold content_of in Hc. rewrite Hc. exact Hr.
Qed.

(* a dataset nobody works on yet: every path mentioned anywhere is below the
   fresh-path counter and no catalogued object has been deleted *)
Definition wf0 (s : state) : Prop :=
  s_procs s = [] /\
  (forall p, In p (cat_keys s) -> p < s_next s) /\
  (forall p, In p (akeys (s_content s)) -> p < s_next s) /\
  (forall p, In p (s_deleted s) -> p < s_next s /\ ~ In p (cat_keys s)).

Lemma get_proc_nil s c : s_procs s = [] -> get_proc s c = proc0.
Proof. intros H. unfold get_proc. rewrite H. reflexivity. Qed.

Lemma wf0_inv s : wf0 s -> inv (visible s) s.
Proof.
  intros [Hp [Hk [Hc Hd]]].
  assert (Hg : forall c, get_proc s c = proc0) by (intros c; apply get_proc_nil; exact Hp).
  constructor.
  - intros p [H|[H|[c H]]]; [apply Hk; exact H|apply Hd; exact H|rewrite Hg in H; destruct H].
  - exact Hc.
  - intros c t. unfold pcof. rewrite Hg. discriminate.
  - intros c. unfold pcof. rewrite Hg. split; intros x [].
  - intros c p. rewrite Hg. intros [].
  - intros p H. apply Hd. exact H.
  - intros c c' t _. unfold pcof. rewrite Hg. discriminate.
  - intros c. unfold pcof. rewrite Hg. exact Logic.I.
  - intros r Hr. apply in_visible. exact Hr.
Qed.

(* (a) no schedule, crash point or fault ever makes a reachable row unreachable *)
Theorem never_unqueryable :
  forall (sched : list label) (s0 : state), wf0 s0 ->
  forall r, In r (visible s0) -> In r (visible (run sched s0)).
Proof.
  intros sched s0 Hwf r Hr. apply in_visible.
  exact (i_rows (run_inv _ sched s0 (wf0_inv s0 Hwf)) r Hr).
Qed.

(* ------------------------------------------------------------------ *)
(* (c) the level rule                                                   *)
(* ------------------------------------------------------------------ *)
Lemma max_level_acc (lv : path -> option N) g : forall a,
  a <= fold_left (fun acc p => match lv p with Some l => N.max acc l | None => acc end) g a.
Proof.
  induction g as [|x r IH]; intros a; simpl; [apply N.le_refl|].
  destruct (lv x) as [l|]; [|apply IH].
  eapply N.le_trans; [apply N.le_max_l|apply IH].
Qed.

(* max_level is an upper bound of the levels of the sources that are there ... *)
Lemma max_level_upper (lv : path -> option N) g p l : In p g -> lv p = Some l -> l <= max_level lv g.
Proof.
  unfold max_level. generalize 0. induction g as [|x r IH]; intros a Hin Hl; simpl; [destruct Hin|].
  destruct Hin as [->|Hin].
  - rewrite Hl. eapply N.le_trans; [apply N.le_max_r|apply max_level_acc].
  - apply IH; assumption.
Qed.

(* ... and is attained (or 0 when none of them is) *)
Lemma max_level_attained (lv : path -> option N) g :
  max_level lv g = 0 \/ exists p, In p g /\ lv p = Some (max_level lv g).
Proof.
  unfold max_level.
  assert (H : forall a, fold_left (fun acc p => match lv p with Some l => N.max acc l | None => acc end) g a = a \/
                        exists p, In p g /\ lv p = Some (fold_left (fun acc p => match lv p with Some l => N.max acc l | None => acc end) g a)).
  { induction g as [|x r IH]; intros a; simpl; [left; reflexivity|].
    destruct (lv x) as [l|] eqn:E.
    - destruct (IH (N.max a l)) as [H|[p [Hp Hl]]].
      + rewrite H. destruct (N.max_spec a l) as [[_ Hm]|[_ Hm]]; rewrite Hm.
        * right. exists x. split; [left; reflexivity|exact E].
        * left. reflexivity.
      + right. exists p. split; [right; exact Hp|exact Hl].
    - destruct (IH a) as [H|[p [Hp Hl]]]; [left; exact H|right; exists p; split; [right; exact Hp|exact Hl]]. }
  destruct (H 0) as [H0|H0]; [left; exact H0|right; exact H0].
Qed.

(* whenever complete_compaction takes effect (error returned afterwards or
   not), the target ends up one level above the highest-level source that was
   in the catalog, the sources are gone and no other chunk changes level *)
Theorem level_rule :
  forall (s : state) (c : cid) (f : fault) l g t c',
  p_pc (get_proc s c) = PSwap l g t -> f <> FBefore ->
  cat_complete (s_cat s) g t = Some c' ->
  let s' := fst (step s (LStep c f)) in
  level_of s' t = Some (max_level (level_of s) g + 1) /\
  (forall p, In p g -> level_of s' p = None) /\
  (forall p, p <> t -> ~ In p g -> level_of s' p = level_of s p).
Proof.
  intros s c f l g t c' E Hf Hcc. simpl. unfold step_proc. rewrite E.
  destruct (cat_complete_some _ _ _ _ Hcc) as [_ [Htg [_ [Hlt Hoth]]]].
  assert (Hlev : forall p', level_of (set_proc (set_cat s c') c p') t = Some (max_level (level_of s) g + 1) /\
            (forall p, In p g -> level_of (set_proc (set_cat s c') c p') p = None) /\
            (forall p, p <> t -> ~ In p g -> level_of (set_proc (set_cat s c') c p') p = level_of s p)).
  { intros p'. unfold level_of; simpl. split; [exact Hlt|split].
    - intros p Hp. rewrite Hoth by (intros ->; contradiction).
      apply memN_In in Hp. rewrite Hp. reflexivity.
    - intros p Hpt Hpg. rewrite Hoth by exact Hpt. apply memN_false in Hpg. rewrite Hpg. reflexivity. }
  destruct f; [|contradiction|]; rewrite Hcc; simpl; apply Hlev.
Qed.

(* between its registration and its swap a target sits at level 0 *)
Lemma registered_at_level_zero s c f l g t rows :
  p_pc (get_proc s c) = PReg l g t rows -> f <> FBefore ->
  level_of (fst (step s (LStep c f))) t = Some 0.
Proof.
  intros E Hf. simpl. unfold step_proc. rewrite E.
  destruct f; [|contradiction|]; unfold level_of; simpl; apply (aget_aset_same N.eqb Neqb_spec).
Qed.

(* ------------------------------------------------------------------ *)
(* (b) exactness outside the known classes                              *)
(* ------------------------------------------------------------------ *)
Definition rowsof (s : state) (p : path) : list row :=
  match content_of s p with Some rs => rs | None => [] end.

(* what a node has read / written so far is exactly the rows of its sources *)
Definition pc_exact (s : state) (k : pc) : Prop :=
  match k with
  | PRead _ g todo acc => exists done, g = done ++ todo /\ acc = flat_map (rowsof s) done
  | PPut _ g rows => Permutation rows (flat_map (rowsof s) g)
  | PReg _ g _ rows => Permutation rows (flat_map (rowsof s) g)
  | PSwap _ g t => Permutation (rowsof s t) (flat_map (rowsof s) g)
  | _ => True
  end.

Record invb (V0 : list row) (s : state) : Prop := mkInvb {
  b_nodup : NoDup (cat_keys s);
  b_claims : forall c, NoDup (claims (pcof s c)) /\ incl (claims (pcof s c)) (cat_keys s);
  b_unsw : forall c t, In t (unswapped (pcof s c)) -> In t (cat_keys s) /\ ~ In t (claims (pcof s c));
  b_disj : forall c c', c <> c' ->
             (forall x, In x (claims (pcof s c)) -> ~ In x (claims (pcof s c'))) /\
             (forall x, In x (unswapped (pcof s c)) -> ~ In x (claims (pcof s c')));
  b_exact : forall c, pc_exact s (pcof s c);
  (* the catalog holds the initial rows plus the rows of the registered targets
     whose swap is outstanding *)
  b_vis : exists U, NoDup U /\ (forall t, In t U <-> exists c, In t (unswapped (pcof s c))) /\
                    Permutation (flat_map (rowsof s) (cat_keys s)) (V0 ++ flat_map (rowsof s) U)
}.
Arguments b_nodup {V0 s} _.
Arguments b_claims {V0 s} _.
Arguments b_unsw {V0 s} _.
Arguments b_disj {V0 s} _.
Arguments b_exact {V0 s} _.
Arguments b_vis {V0 s} _.

Lemma flat_map_keys {A} (f : path -> list A) (l : list (path * N)) :
  flat_map (fun e => f (fst e)) l = flat_map f (akeys l).
Proof. unfold akeys. induction l as [|x r IH]; simpl; [reflexivity|rewrite IH; reflexivity]. Qed.

Lemma flat_map_ext_in {A B} (f g : A -> list B) l : (forall x, In x l -> f x = g x) -> flat_map f l = flat_map g l.
Proof.
  induction l as [|x r IH]; intros H; simpl; [reflexivity|].
  rewrite (H x (or_introl eq_refl)), IH; [reflexivity|]. intros y Hy. apply H. right; exact Hy.
Qed.

Lemma visible_rowsof R0 s : inv R0 s -> visible s = flat_map (rowsof s) (cat_keys s).
Proof.
  intros I. unfold visible, cat_keys. rewrite flat_map_keys. apply flat_map_ext_in.
  intros p Hp. unfold rows_at, rowsof, content_of.
  assert (Hd : memN p (s_deleted s) = false).
  { apply memN_false. intros Hd. exact (i_del I p Hd Hp). }
  rewrite Hd. reflexivity.
Qed.

Lemma NoDup_app_intro {A} (a b : list A) :
  NoDup a -> NoDup b -> (forall x, In x a -> ~ In x b) -> NoDup (a ++ b).
Proof.
  induction a as [|x r IH]; intros Ha Hb Hd; simpl; [exact Hb|].
  inversion Ha; subst. constructor.
  - rewrite in_app_iff. intros [H|H]; [contradiction|]. apply (Hd x); [left; reflexivity|exact H].
  - apply IH; auto. intros y Hy. apply Hd. right; exact Hy.
Qed.

(* taking a duplicate-free sublist out of a duplicate-free list *)
Lemma perm_split_filter (keys g : list N) :
  NoDup keys -> NoDup g -> incl g keys ->
  Permutation keys (filter (fun p => negb (memN p g)) keys ++ g).
Proof.
  intros Hk Hg Hi. apply NoDup_Permutation; [exact Hk| |].
  - apply NoDup_app_intro; [apply NoDup_filter; exact Hk|exact Hg|].
    intros x Hx. apply filter_In in Hx. destruct Hx as [_ Hx].
    rewrite negb_true_iff in Hx. apply memN_false. exact Hx.
  - intros x. rewrite in_app_iff, filter_In, negb_true_iff, memN_false. split.
    + intros Hx. destruct (in_dec N.eq_dec x g); [right; assumption|left; split; assumption].
    + intros [[Hx _]|Hx]; [exact Hx|apply Hi; exact Hx].
Qed.

Lemma perm_take_out (U : list N) t : NoDup U -> In t U -> Permutation U (t :: removeN t U).
Proof.
  intros Hu Ht. apply NoDup_Permutation; [exact Hu| |].
  - constructor; [rewrite In_removeN; tauto|unfold removeN; apply NoDup_filter; exact Hu].
  - intros x. simpl. rewrite In_removeN. split.
    + intros Hx. destruct (N.eq_dec x t) as [->|Hn]; [left; reflexivity|right; split; assumption].
    + intros [<-|[Hx _]]; assumption.
Qed.

Lemma rowsof_put_old s rows p : p <> s_next s -> rowsof (put_object s rows) p = rowsof s p.
Proof. intros H. unfold rowsof. rewrite content_put_old by exact H. reflexivity. Qed.

Lemma flat_rowsof_put s rows l : (forall p, In p l -> p < s_next s) ->
  flat_map (rowsof (put_object s rows)) l = flat_map (rowsof s) l.
Proof.
  intros H. apply flat_map_ext_in. intros p Hp. apply rowsof_put_old.
  intros ->. apply H in Hp. apply N.lt_irrefl in Hp. exact Hp.
Qed.

(* pc_exact only reads the content of the group and of the target *)
Lemma pc_exact_transfer s s' k :
  (forall p, In p (group_of k) -> rowsof s' p = rowsof s p) ->
  (forall t, target_of k = Some t -> rowsof s' t = rowsof s t) ->
  pc_exact s k -> pc_exact s' k.
Proof.
  intros Hg Ht. unfold pc_exact. destruct k; simpl in *; auto.
  - intros [done [H1 H2]]. exists done. split; [exact H1|]. rewrite H2.
    symmetry. apply flat_map_ext_in. intros p Hp. apply Hg. rewrite H1. apply in_or_app. left; exact Hp.
  - intros H. rewrite (flat_map_ext_in (rowsof s') (rowsof s)); auto.
  - intros H. rewrite (flat_map_ext_in (rowsof s') (rowsof s)); auto.
  - intros H. rewrite (Ht t eq_refl). rewrite (flat_map_ext_in (rowsof s') (rowsof s)); auto.
Qed.

Lemma claims_group k : incl (claims k) (group_of k).
Proof. destruct k; simpl; try apply incl_refl; intros x []. Qed.

Lemma unswapped_target k t : In t (unswapped k) -> target_of k = Some t.
Proof. destruct k; simpl; intros H; try contradiction. destruct H as [->|[]]. reflexivity. Qed.

(* ---- a node changes its own pc without touching the set of unswapped targets ---- *)
Lemma invb_set_proc V0 s c p' :
  invb V0 s ->
  unswapped (p_pc p') = unswapped (pcof s c) ->
  NoDup (claims (p_pc p')) -> incl (claims (p_pc p')) (cat_keys s) ->
  (forall t, In t (unswapped (p_pc p')) -> ~ In t (claims (p_pc p'))) ->
  (forall c', c' <> c -> forall x, In x (claims (p_pc p')) ->
        ~ In x (claims (pcof s c')) /\ ~ In x (unswapped (pcof s c'))) ->
  pc_exact s (p_pc p') ->
  invb V0 (set_proc s c p').
Proof.
  intros B Hu Hnd Hin Hut Hdis Hex.
  assert (Hun : forall c', unswapped (pcof (set_proc s c p') c') = unswapped (pcof s c')).
  { intros c'. rewrite pcof_set_proc. destruct (N.eqb c' c) eqn:E; [|reflexivity].
    apply N.eqb_eq in E. subst. exact Hu. }
  constructor.
  - exact (b_nodup B).
  - intros c'. rewrite pcof_set_proc. destruct (N.eqb c' c); [split; assumption|apply (b_claims B)].
  - intros c' t. rewrite Hun. rewrite pcof_set_proc. destruct (N.eqb c' c) eqn:E.
    + apply N.eqb_eq in E. subst c'. intros Ht. split; [apply (b_unsw B c t Ht)|].
      apply Hut. rewrite Hu. exact Ht.
    + apply (b_unsw B).
  - intros c1 c2 Hne. rewrite !Hun. rewrite !pcof_set_proc.
    destruct (N.eqb c1 c) eqn:E1; destruct (N.eqb c2 c) eqn:E2.
    + apply N.eqb_eq in E1, E2. congruence.
    + apply N.eqb_eq in E1. subst c1. split.
      * intros x Hx. apply (Hdis c2); auto.
      * apply (b_disj B c c2 Hne).
    + apply N.eqb_eq in E2. subst c2. split.
      * intros x Hx Hx'. apply (proj1 (Hdis c1 Hne x Hx')). exact Hx.
      * intros x Hx Hx'. apply (proj2 (Hdis c1 Hne x Hx')). exact Hx.
    + apply (b_disj B c1 c2 Hne).
  - intros c'. rewrite pcof_set_proc.
    apply pc_exact_transfer with (s := s); auto.
    destruct (N.eqb c' c); [exact Hex|apply (b_exact B)].
  - destruct (b_vis B) as [U [H1 [H2 H3]]]. exists U. split; [exact H1|split; [|exact H3]].
    intros t. rewrite H2. split; intros [c' Hc']; exists c'; [rewrite Hun|rewrite <- Hun]; exact Hc'.
Qed.

(* the claims shrink (or stay), the unswapped targets stay *)
Lemma invb_shrink V0 s c p' :
  invb V0 s ->
  unswapped (p_pc p') = unswapped (pcof s c) ->
  (claims (p_pc p') = claims (pcof s c) \/ claims (p_pc p') = []) ->
  pc_exact s (p_pc p') ->
  invb V0 (set_proc s c p').
Proof.
  intros B Hu Hc Hex. apply invb_set_proc; auto.
  - destruct Hc as [-> | ->]; [apply (b_claims B)|constructor].
  - destruct Hc as [-> | ->]; [apply (b_claims B)|intros x []].
  - intros t Ht. destruct Hc as [-> | ->]; [|intros []]. rewrite Hu in Ht. apply (b_unsw B c t Ht).
  - intros c' Hne x Hx. destruct Hc as [Hc|Hc]; rewrite Hc in Hx; [|destruct Hx]. split.
    + apply (proj1 (b_disj B c c' (fun H => Hne (eq_sym H)))). exact Hx.
    + intros Hx'. apply (proj2 (b_disj B c' c Hne) x Hx'). exact Hx.
Qed.

Lemma invb_ext V0 s s' :
  s_cat s' = s_cat s -> s_content s' = s_content s -> s_procs s' = s_procs s -> invb V0 s -> invb V0 s'.
Proof.
  intros H1 H2 H5 B.
  assert (Hg : forall c, get_proc s' c = get_proc s c) by (intros c; unfold get_proc; rewrite H5; reflexivity).
  assert (Hk : cat_keys s' = cat_keys s) by (unfold cat_keys; rewrite H1; reflexivity).
  assert (Hr : forall p, rowsof s' p = rowsof s p) by (intros p; unfold rowsof, content_of; rewrite H2; reflexivity).
  assert (Hp : forall c, pcof s' c = pcof s c) by (intros c; unfold pcof; rewrite Hg; reflexivity).
  constructor.
  - rewrite Hk. exact (b_nodup B).
  - intros c. rewrite Hp, Hk. apply (b_claims B).
  - intros c t. rewrite Hp, Hk. apply (b_unsw B).
  - intros c c'. rewrite !Hp. apply (b_disj B).
  - intros c. rewrite Hp. apply pc_exact_transfer with (s := s); auto. apply (b_exact B).
  - destruct (b_vis B) as [U [A1 [A2 A3]]]. exists U. split; [exact A1|split].
    + intros t. rewrite A2. split; intros [c Hc]; exists c; [rewrite Hp|rewrite <- Hp]; exact Hc.
    + rewrite Hk. rewrite (flat_map_ext_in (rowsof s') (rowsof s)) by auto.
      rewrite (flat_map_ext_in (rowsof s') (rowsof s) U) by auto. exact A3.
Qed.

Lemma target_lt R0 s c t : inv R0 s -> In t (unswapped (pcof s c)) -> t < s_next s.
Proof. intros I H. apply (i_fresh_target I c). apply unswapped_target. exact H. Qed.

Lemma invb_put V0 R0 s rows : inv R0 s -> invb V0 s -> invb V0 (put_object s rows).
Proof.
  intros I B.
  assert (Hr : forall p, p < s_next s -> rowsof (put_object s rows) p = rowsof s p).
  { intros p Hp. apply rowsof_put_old. intros ->. apply N.lt_irrefl in Hp. exact Hp. }
  constructor.
  - exact (b_nodup B).
  - exact (b_claims B).
  - exact (b_unsw B).
  - exact (b_disj B).
  - intros c. change (pcof (put_object s rows) c) with (pcof s c).
    apply pc_exact_transfer with (s := s).
    + intros p Hp. apply Hr. exact (group_lt _ _ _ _ I Hp).
    + intros t Ht. apply Hr. exact (i_fresh_target I c t Ht).
    + apply (b_exact B).
  - destruct (b_vis B) as [U [A1 [A2 A3]]]. exists U. split; [exact A1|split; [exact A2|]].
    change (cat_keys (put_object s rows)) with (cat_keys s).
    rewrite !flat_rowsof_put; [exact A3| |].
    + intros t Ht. apply A2 in Ht. destruct Ht as [c Hc]. exact (target_lt _ _ _ _ I Hc).
    + intros p Hp. apply (i_fresh_seen I). left. exact Hp.
Qed.

(* register_chunk(target): the target joins the catalog and the unswapped set *)
Lemma invb_register V0 R0 s c l g t rows p' :
  inv R0 s -> invb V0 s ->
  pcof s c = PReg l g t rows -> p_pc p' = PSwap l g t ->
  invb V0 (set_proc (set_cat s (cat_register (s_cat s) t)) c p').
Proof.
  intros I B E E'.
  pose proof (i_pc I c) as Hok. rewrite E in Hok. destruct Hok as [_ [Hct Hns]].
  assert (Hnk : ~ In t (cat_keys s)) by (intros H; apply Hns; left; exact H).
  assert (Hg : incl g (p_snap (get_proc s c))) by (pose proof (proj1 (i_snap I c)) as H; rewrite E in H; exact H).
  assert (Htg : ~ In t g) by (intros H; apply Hns; right; right; exists c; apply Hg; exact H).
  set (s1 := set_cat s (cat_register (s_cat s) t)).
  assert (Hk : cat_keys s1 = cat_keys s ++ [t]).
  { unfold s1, cat_keys, cat_register; simpl. apply keys_aset_absent. exact Hnk. }
  assert (Hex : pc_exact s (PReg l g t rows)) by (rewrite <- E; apply (b_exact B)).
  assert (Hrt : rowsof s t = rows) by (unfold rowsof; rewrite Hct; reflexivity).
  assert (Hcl : claims (pcof s c) = g) by (rewrite E; reflexivity).
  assert (Hpc : forall c', pcof (set_proc s1 c p') c' = if N.eqb c' c then PSwap l g t else pcof s c').
  { intros c'. rewrite pcof_set_proc. rewrite E'. reflexivity. }
  assert (Htu : forall c', c' <> c -> ~ In t (claims (pcof s c')) /\ ~ In t (unswapped (pcof s c'))).
  { intros c' Hne. split.
    - intros H. apply Hnk. apply (proj2 (b_claims B c')). exact H.
    - intros H. apply Hnk. apply (b_unsw B c' t H). }
  constructor.
  - change (cat_keys (set_proc s1 c p')) with (cat_keys s1). rewrite Hk.
    apply NoDup_app_intro; [exact (b_nodup B)|constructor; [intros []|constructor]|].
    intros x Hx [<-|[]]. exact (Hnk Hx).
  - intros c'. rewrite Hpc. change (cat_keys (set_proc s1 c p')) with (cat_keys s1). rewrite Hk.
    destruct (N.eqb c' c) eqn:Ec; simpl.
    + rewrite <- Hcl. split; [apply (b_claims B)|apply incl_appl; apply (b_claims B)].
    + split; [apply (b_claims B)|apply incl_appl; apply (b_claims B)].
  - intros c' x. rewrite Hpc. change (cat_keys (set_proc s1 c p')) with (cat_keys s1). rewrite Hk.
    destruct (N.eqb c' c) eqn:Ec; simpl.
    + intros [<-|[]]. split; [apply in_or_app; right; left; reflexivity|exact Htg].
    + intros Hx. destruct (b_unsw B c' x Hx). split; [apply in_or_app; left; assumption|assumption].
  - intros c1 c2 Hne. rewrite !Hpc.
    destruct (N.eqb c1 c) eqn:E1; destruct (N.eqb c2 c) eqn:E2; simpl.
    + apply N.eqb_eq in E1, E2. congruence.
    + apply N.eqb_eq in E1. subst c1. split.
      * rewrite <- Hcl. apply (b_disj B c c2 Hne).
      * intros x [<-|[]]. apply Htu. intros ->. apply Hne. reflexivity.
    + apply N.eqb_eq in E2. subst c2. rewrite <- Hcl. apply (b_disj B c1 c Hne).
    + apply (b_disj B c1 c2 Hne).
  - intros c'. rewrite Hpc.
    apply pc_exact_transfer with (s := s); auto.
    destruct (N.eqb c' c); [|apply (b_exact B)].
    simpl. rewrite Hrt. exact Hex.
  - destruct (b_vis B) as [U [A1 [A2 A3]]]. exists (t :: U). split; [|split].
    + constructor; [|exact A1]. intros Hu. apply A2 in Hu. destruct Hu as [c' Hc'].
      destruct (N.eq_dec c' c) as [->|Hne]; [rewrite E in Hc'; destruct Hc'|].
      apply (proj2 (Htu c' Hne)). exact Hc'.
    + intros x. simpl. rewrite A2. split.
      * intros [<-|[c' Hc']].
        -- exists c. rewrite Hpc, N.eqb_refl. left; reflexivity.
        -- exists c'. rewrite Hpc. destruct (N.eqb c' c) eqn:Ec; [|exact Hc'].
           apply N.eqb_eq in Ec. subst c'. rewrite E in Hc'. destruct Hc'.
      * intros [c' Hc']. rewrite Hpc in Hc'. destruct (N.eqb c' c) eqn:Ec.
        -- left. destruct Hc' as [H|[]]. exact H.
        -- right. exists c'. exact Hc'.
    + change (cat_keys (set_proc s1 c p')) with (cat_keys s1). rewrite Hk.
      change (rowsof (set_proc s1 c p')) with (rowsof s).
      rewrite flat_map_app. simpl. rewrite app_nil_r.
      eapply Permutation_trans; [apply Permutation_app_tail; exact A3|].
      rewrite <- app_assoc. apply Permutation_app_head. apply Permutation_app_comm.
Qed.

(* complete_compaction: the sources leave the catalog, the target stops being unswapped *)
Lemma invb_swap V0 R0 s c l g t c' p' :
  inv R0 s -> invb V0 s ->
  pcof s c = PSwap l g t -> cat_complete (s_cat s) g t = Some c' ->
  claims (p_pc p') = [] -> unswapped (p_pc p') = [] -> pc_exact s (p_pc p') ->
  invb V0 (set_proc (set_cat s c') c p').
Proof.
  intros I B E Hcc Hc0 Hu0 Hex0.
  destruct (cat_complete_some _ _ _ _ Hcc) as [Htin [Htg [Hkeys _]]].
  set (s1 := set_cat s c').
  assert (Hk : forall p, In p (cat_keys s1) <-> In p (cat_keys s) /\ ~ In p g).
  { intros p. unfold s1, cat_keys; simpl. rewrite Hkeys, filter_In, negb_true_iff, memN_false. reflexivity. }
  assert (Hcl : claims (pcof s c) = g) by (rewrite E; reflexivity).
  assert (Hun : unswapped (pcof s c) = [t]) by (rewrite E; reflexivity).
  assert (Hex : Permutation (rowsof s t) (flat_map (rowsof s) g)).
  { pose proof (b_exact B c) as H. rewrite E in H. exact H. }
  assert (Hpc : forall c2, pcof (set_proc s1 c p') c2 = if N.eqb c2 c then p_pc p' else pcof s c2).
  { intros c2. rewrite pcof_set_proc. reflexivity. }
  destruct (b_claims B c) as [Hgnd Hgin]. rewrite Hcl in Hgnd, Hgin.
  constructor.
  - change (cat_keys (set_proc s1 c p')) with (cat_keys s1). unfold s1, cat_keys; simpl.
    rewrite Hkeys. apply NoDup_filter. exact (b_nodup B).
  - intros c2. rewrite Hpc. destruct (N.eqb c2 c) eqn:Ec.
    + rewrite Hc0. split; [constructor|intros x []].
    + split; [apply (b_claims B)|]. intros x Hx. apply Hk. split; [apply (b_claims B c2); exact Hx|].
      rewrite <- Hcl. intros Hx'. apply (proj1 (b_disj B c c2 (fun H => ltac:(subst; rewrite N.eqb_refl in Ec; discriminate))) x Hx'). exact Hx.
  - intros c2 x. rewrite Hpc. destruct (N.eqb c2 c) eqn:Ec.
    + rewrite Hu0. intros [].
    + intros Hx. destruct (b_unsw B c2 x Hx) as [H1 H2]. split; [|exact H2].
      apply Hk. split; [exact H1|]. rewrite <- Hcl.
      apply (proj2 (b_disj B c2 c (fun H => ltac:(subst; rewrite N.eqb_refl in Ec; discriminate))) x Hx).
  - intros c1 c2 Hne. rewrite !Hpc.
    destruct (N.eqb c1 c) eqn:E1; destruct (N.eqb c2 c) eqn:E2.
    + apply N.eqb_eq in E1, E2. congruence.
    + rewrite Hc0, Hu0. split; intros x [].
    + rewrite Hc0. split; intros x _ [].
    + apply (b_disj B c1 c2 Hne).
  - intros c2. rewrite Hpc. apply pc_exact_transfer with (s := s); auto.
    destruct (N.eqb c2 c); [exact Hex0|apply (b_exact B)].
  - destruct (b_vis B) as [U [A1 [A2 A3]]]. exists (removeN t U).
    assert (HtU : In t U) by (apply A2; exists c; rewrite Hun; left; reflexivity).
    split; [|split].
    + unfold removeN. apply NoDup_filter. exact A1.
    + intros x. rewrite In_removeN, A2. split.
      * intros [[c2 Hc2] Hxt]. exists c2. rewrite Hpc. destruct (N.eqb c2 c) eqn:Ec; [|exact Hc2].
        apply N.eqb_eq in Ec. subst c2. rewrite Hun in Hc2. destruct Hc2 as [H|[]]. congruence.
      * intros [c2 Hc2]. rewrite Hpc in Hc2. destruct (N.eqb c2 c) eqn:Ec.
        -- rewrite Hu0 in Hc2. destruct Hc2.
        -- split; [exists c2; exact Hc2|]. intros ->.
           assert (Hne : c2 <> c) by (intros ->; rewrite N.eqb_refl in Ec; discriminate).
           pose proof (unswapped_target _ _ Hc2) as T2.
           apply (i_distinct I c2 c t Hne T2). rewrite E. reflexivity.
    + change (cat_keys (set_proc s1 c p')) with (cat_keys s1).
      change (rowsof (set_proc s1 c p')) with (rowsof s).
      assert (P1 : Permutation (flat_map (rowsof s) (cat_keys s))
                     (flat_map (rowsof s) (cat_keys s1) ++ flat_map (rowsof s) g)).
      { rewrite <- flat_map_app. apply Permutation_flat_map.
        unfold s1 at 1. unfold cat_keys at 2. simpl. rewrite Hkeys.
        apply perm_split_filter; [exact (b_nodup B)|exact Hgnd|exact Hgin]. }
      assert (P2 : Permutation (flat_map (rowsof s) U)
                     (flat_map (rowsof s) g ++ flat_map (rowsof s) (removeN t U))).
      { eapply Permutation_trans; [apply Permutation_flat_map; apply (perm_take_out U t A1 HtU)|].
        simpl. apply Permutation_app_tail. exact Hex. }
      apply Permutation_app_inv_r with (l := flat_map (rowsof s) g).
      eapply Permutation_trans; [apply Permutation_sym; exact P1|].
      eapply Permutation_trans; [exact A3|].
      eapply Permutation_trans; [apply Permutation_app_head; exact P2|].
      rewrite <- app_assoc. apply Permutation_app_head. apply Permutation_app_comm.
Qed.

Lemma unswapped_after_reads l g acc : unswapped (after_reads l g acc) = [].
Proof. unfold after_reads. destruct acc; reflexivity. Qed.

Lemma claims_after_reads l g acc : claims (after_reads l g acc) = g \/ claims (after_reads l g acc) = [].
Proof. unfold after_reads. destruct acc; simpl; auto. Qed.

Lemma pc_exact_after_reads s l g acc : acc = flat_map (rowsof s) g -> pc_exact s (after_reads l g acc).
Proof.
  intros H. unfold after_reads. destruct acc as [|a r]; [exact Logic.I|].
  change (Permutation (isort (a :: r)) (flat_map (rowsof s) g)).
  rewrite <- H. apply isort_perm.
Qed.

Lemma rows_at_rowsof s q : present s q = true -> rows_at s q = rowsof s q.
Proof.
  intros H. destruct (rows_at_present _ _ H) as [rs [H1 H2]]. unfold rowsof. rewrite H1. exact H2.
Qed.

Ltac shrink E :=
  apply invb_shrink;
  [ assumption
  | unfold pcof; rewrite E; simpl; try rewrite unswapped_after_reads; reflexivity
  | unfold pcof; rewrite E; simpl; auto using claims_after_reads
  | simpl; auto ].

Lemma step_proc_invb V0 R0 s c f :
  inv R0 s -> invb V0 s -> bad_step s (LStep c f) = 0 -> invb V0 (fst (step_proc s c f)).
Proof.
  intros I B Hbad. unfold step_proc. simpl in Hbad.
  pose proof (b_exact B c) as Hex. unfold pcof in Hex.
  revert Hex Hbad. destruct (p_pc (get_proc s c)) eqn:E; intros Hex Hbad; simpl in Hex.
  - exact B.
  - (* PJob *)
    destruct f; simpl; try (shrink E; fail).
    destruct g as [|a r]; simpl; [shrink E|].
    shrink E. exists []. split; reflexivity.
  - (* PRead *)
    destruct Hex as [done [Hg Hacc]].
    destruct todo as [|q rest]; simpl.
    + shrink E. apply pc_exact_after_reads. rewrite Hg, app_nil_r. exact Hacc.
    + destruct f; simpl; try (shrink E; fail).
      destruct (present s q) eqn:Ep; simpl; [|shrink E].
      rewrite (rows_at_rowsof _ _ Ep).
      assert (Hacc' : acc ++ rowsof s q = flat_map (rowsof s) (done ++ [q])).
      { rewrite flat_map_app. simpl. rewrite app_nil_r, Hacc. reflexivity. }
      destruct rest as [|q2 rest2].
      * shrink E. apply pc_exact_after_reads. rewrite Hg. exact Hacc'.
      * shrink E. exists (done ++ [q]). split; [|exact Hacc'].
        rewrite Hg, <- app_assoc. reflexivity.
  - (* PPut *)
    destruct f; simpl.
    + pose proof (invb_put V0 R0 s rows I B) as B1.
      pose proof (b_exact B1 c) as Hex1. unfold pcof in Hex1.
      change (get_proc (put_object s rows) c) with (get_proc s c) in Hex1. rewrite E in Hex1.
      assert (E1 : p_pc (get_proc (put_object s rows) c) = PPut l g rows) by exact E.
      change (get_proc s c) with (get_proc (put_object s rows) c).
      shrink E1.
    + assert (B1 : invb V0 (skip_path s)) by (apply invb_ext with (s := s); auto).
      assert (E1 : p_pc (get_proc (skip_path s) c) = PPut l g rows) by exact E.
      change (get_proc s c) with (get_proc (skip_path s) c).
      shrink E1.
    + pose proof (invb_put V0 R0 s rows I B) as B1.
      assert (E1 : p_pc (get_proc (put_object s rows) c) = PPut l g rows) by exact E.
      change (get_proc s c) with (get_proc (put_object s rows) c).
      shrink E1.
  - (* PReg *)
    destruct f; simpl; [|shrink E|discriminate].
    eapply invb_register; eauto.
  - (* PSwap *)
    destruct f; simpl; [|discriminate|].
    + destruct (cat_complete (s_cat s) g t) eqn:Ecc; [|discriminate].
      eapply invb_swap; eauto; simpl; auto.
    + destruct (cat_complete (s_cat s) g t) eqn:Ecc; [|discriminate].
      eapply invb_swap; eauto; simpl; auto.
  - (* PJobDone *) destruct f; simpl; shrink E.
  - (* PLeaseDone *)
    destruct f; simpl.
    + set (s1 := set_leases s (lease_set_status l 1 (s_leases s))).
      assert (B1 : invb V0 s1) by (apply invb_ext with (s := s); auto).
      assert (E1 : p_pc (get_proc s1 c) = PLeaseDone l g) by exact E.
      change (get_proc s c) with (get_proc s1 c). shrink E1.
    + shrink E.
    + set (s1 := set_leases s (lease_set_status l 1 (s_leases s))).
      assert (B1 : invb V0 s1) by (apply invb_ext with (s := s); auto).
      assert (E1 : p_pc (get_proc s1 c) = PLeaseDone l g) by exact E.
      change (get_proc s c) with (get_proc s1 c). shrink E1.
  - (* PJobFail *) destruct f; simpl; shrink E.
  - (* PLeaseFail *)
    destruct f; simpl.
    + set (s1 := set_leases s (lease_set_status l 2 (s_leases s))).
      assert (B1 : invb V0 s1) by (apply invb_ext with (s := s); auto).
      assert (E1 : p_pc (get_proc s1 c) = PLeaseFail l) by exact E.
      change (get_proc s c) with (get_proc s1 c). shrink E1.
    + shrink E.
    + set (s1 := set_leases s (lease_set_status l 2 (s_leases s))).
      assert (B1 : invb V0 s1) by (apply invb_ext with (s := s); auto).
      assert (E1 : p_pc (get_proc s1 c) = PLeaseFail l) by exact E.
      change (get_proc s c) with (get_proc s1 c). shrink E1.
Qed.

Lemma others_spec s c c' : c' <> c -> In (get_proc s c') (others s c) \/ get_proc s c' = proc0.
Proof.
  intros Hne. unfold get_proc, others. destruct (aget N.eqb c' (s_procs s)) as [p|] eqn:E; [left|right; reflexivity].
  apply (aget_In N.eqb Neqb_spec) in E. apply in_map_iff. exists (c', p). split; [reflexivity|].
  apply filter_In. split; [exact E|]. simpl. rewrite negb_true_iff. apply N.eqb_neq. exact Hne.
Qed.

Lemma existsb_false {A} (f : A -> bool) l : existsb f l = false -> forall x, In x l -> f x = false.
Proof.
  intros H x Hx. destruct (f x) eqn:E; [|reflexivity].
  assert (existsb f l = true) by (apply existsb_exists; exists x; split; assumption). congruence.
Qed.

Lemma step_start_invb V0 R0 s c g f :
  inv R0 s -> invb V0 s -> bad_step s (LStart c g f) = 0 -> invb V0 (fst (step_start s c g f)).
Proof.
  intros I B Hbad. unfold step_start.
  destruct (start_ok s c g) eqn:Eok; simpl; [|exact B].
  destruct f; simpl; try exact B.
  - destruct (lease_conflict (s_clock s) (drop_expired (s_clock s) (s_leases s)) g) eqn:Econf; simpl.
    + destruct (s_local s); [|exact B]. apply invb_ext with (s := s); auto.
    + unfold bad_step, acquires in Hbad. rewrite Eok, Econf in Hbad. simpl in Hbad.
      destruct (inclb g (akeys (s_cat s))) eqn:Ei; simpl in Hbad; [|discriminate].
      destruct (existsb (fun p => negb (disjointb g (claims (p_pc p)))) (others s c)) eqn:E3; [discriminate|].
      destruct (existsb (fun p => negb (disjointb g (unswapped (p_pc p)))) (others s c)) eqn:E5; [discriminate|].
      set (s1 := bump_lease_id (set_leases s (lease_insert (s_clock s) (acquire_ttl s) (s_nextl s) g
                                               (drop_expired (s_clock s) (s_leases s))))).
      assert (B1 : invb V0 s1) by (apply invb_ext with (s := s); auto).
      change (get_proc s c) with (get_proc s1 c).
      unfold start_ok in Eok. destruct (p_pc (get_proc s c)) eqn:E; try discriminate.
      rewrite !andb_true_iff in Eok. destruct Eok as [[Hnd _] _].
      apply invb_set_proc; simpl; auto.
      * unfold pcof. change (get_proc s1 c) with (get_proc s c). rewrite E. reflexivity.
      * apply nodupb_NoDup. exact Hnd.
      * apply inclb_incl. exact Ei.
      * intros c' Hne x Hx. change (pcof s1 c') with (pcof s c'). unfold pcof.
        destruct (others_spec s c c' Hne) as [Ho|Ho].
        -- pose proof (existsb_false _ _ E3 _ Ho) as H3. pose proof (existsb_false _ _ E5 _ Ho) as H5.
           simpl in H3, H5. rewrite negb_false_iff in H3, H5.
           split; [exact (disjointb_spec _ _ H3 x Hx)|exact (disjointb_spec _ _ H5 x Hx)].
        -- rewrite Ho. simpl. split; intros [].
  - destruct (lease_conflict (s_clock s) (drop_expired (s_clock s) (s_leases s)) g); simpl.
    + destruct (s_local s); [|exact B]. apply invb_ext with (s := s); auto.
    + apply invb_ext with (s := s); auto.
Qed.

Lemma step_invb V0 R0 s lb :
  inv R0 s -> invb V0 s -> bad_step s lb = 0 -> invb V0 (fst (step s lb)).
Proof.
  intros I B Hbad. destruct lb; simpl.
  - (* LList *)
    apply invb_shrink; simpl; auto. apply (b_exact B c).
  - eapply step_start_invb; eauto.
  - eapply step_proc_invb; eauto.
  - (* LRenew *)
    destruct (memN l (p_renew (get_proc s c))); simpl; [|exact B].
    destruct (lease_renew (s_clock s) (renew_ttl s) l (s_leases s)); simpl.
    + apply invb_ext with (s := s); auto.
    + apply invb_shrink; simpl; auto. apply (b_exact B c).
  - (* LDel *)
    destruct (memN p (p_pending (get_proc s c))); simpl; [|exact B].
    assert (B1 : invb V0 (set_proc s c (mkProc (p_pc (get_proc s c)) (p_snap (get_proc s c))
                               (removeN p (p_pending (get_proc s c))) (p_renew (get_proc s c))
                               (p_active (get_proc s c))))).
    { apply invb_shrink; simpl; auto. apply (b_exact B c). }
    destruct f; simpl; try exact B1; eapply invb_ext; try exact B1; reflexivity.
  - (* LScav *) apply invb_ext with (s := s); auto.
  - (* LCrash *)
    simpl in Hbad. apply invb_shrink; simpl; auto.
    unfold pcof. destruct (p_pc (get_proc s c)); try reflexivity. discriminate.
  - (* LTick *) apply invb_ext with (s := s); auto.
Qed.

Lemma run_both R0 V0 sched : forall s,
  inv R0 s -> invb V0 s -> known_class s sched = 0 ->
  inv R0 (run sched s) /\ invb V0 (run sched s).
Proof.
  unfold run. induction sched as [|lb r IH]; intros s I B Hk; simpl; [split; assumption|].
  simpl in Hk. destruct (bad_step s lb) eqn:Eb; [|discriminate].
  apply IH; [apply step_inv; exact I|eapply step_invb; eauto|exact Hk].
Qed.

Lemma quiescent_idle s : quiescent s = true -> forall c, pcof s c = Idle.
Proof.
  unfold quiescent. rewrite forallb_forall. intros H c. unfold pcof, get_proc.
  destruct (aget N.eqb c (s_procs s)) as [p|] eqn:E; [|reflexivity].
  apply (aget_In N.eqb Neqb_spec) in E. specialize (H _ E). simpl in H.
  destruct (p_pc p); try discriminate. reflexivity.
Qed.

Lemma wf0_invb s : wf0 s -> NoDup (cat_keys s) -> invb (visible s) s.
Proof.
  intros Hwf Hnd. pose proof (wf0_inv s Hwf) as I. destruct Hwf as [Hp _].
  assert (Hg : forall c, pcof s c = Idle) by (intros c; unfold pcof; rewrite get_proc_nil by exact Hp; reflexivity).
  constructor.
  - exact Hnd.
  - intros c. rewrite Hg. simpl. split; [constructor|intros x []].
  - intros c t. rewrite Hg. intros [].
  - intros c c' _. rewrite !Hg. split; intros x [].
  - intros c. rewrite Hg. exact Logic.I.
  - exists []. split; [constructor|split].
    + intros t. split; [intros []|]. intros [c Hc]. rewrite Hg in Hc. destruct Hc.
    + simpl. rewrite app_nil_r. rewrite (visible_rowsof _ _ I). apply Permutation_refl.
Qed.

(* (b) = C03_modulo_known: outside the known classes, whenever no compaction
   is in progress the rows reachable through the catalog are exactly the
   initial multiset (each row as often as it was there — once) *)
Theorem exact_when_quiescent :
  forall (sched : list label) (s0 : state),
  wf0 s0 -> NoDup (cat_keys s0) ->
  known_class s0 sched = 0 ->
  quiescent (run sched s0) = true ->
  Permutation (visible (run sched s0)) (visible s0).
Proof.
  intros sched s0 Hwf Hnd Hk Hq.
  destruct (run_both (visible s0) (visible s0) sched s0 (wf0_inv s0 Hwf) (wf0_invb s0 Hwf Hnd) Hk) as [I B].
  destruct (b_vis B) as [U [_ [HU HP]]].
  assert (U = []).
  { destruct U as [|t r]; [reflexivity|]. exfalso.
    destruct (proj1 (HU t) (or_introl eq_refl)) as [c Hc].
    rewrite (quiescent_idle _ Hq c) in Hc. destruct Hc. }
  subst U. simpl in HP. rewrite app_nil_r in HP.
  rewrite (visible_rowsof _ _ I). exact HP.
Qed.

(* while compactions are in progress (outside the known classes) the only
   surplus is the content of the registered targets whose swap is outstanding:
   every initial row is there at least once, and at most once more per such target *)
Theorem surplus_is_unswapped_targets :
  forall (sched : list label) (s0 : state),
  wf0 s0 -> NoDup (cat_keys s0) -> known_class s0 sched = 0 ->
  let s := run sched s0 in
  exists U, NoDup U /\ (forall t, In t U <-> exists c, In t (unswapped (pcof s c))) /\
            Permutation (visible s) (visible s0 ++ flat_map (rowsof s) U).
Proof.
  intros sched s0 Hwf Hnd Hk s.
  destruct (run_both (visible s0) (visible s0) sched s0 (wf0_inv s0 Hwf) (wf0_invb s0 Hwf Hnd) Hk) as [I B].
  destruct (b_vis B) as [U [H1 [H2 H3]]]. exists U. split; [exact H1|split; [exact H2|]].
  unfold s. rewrite (visible_rowsof _ _ I). exact H3.
Qed.

(* ------------------------------------------------------------------ *)
(* initial states built by [init]                                       *)
(* ------------------------------------------------------------------ *)
Lemma next_free_acc keys : forall a, a <= fold_left (fun a p => N.max a (p + 1)) keys a.
Proof.
  induction keys as [|x r IH]; intros a; simpl; [apply N.le_refl|].
  eapply N.le_trans; [apply N.le_max_l|apply IH].
Qed.

Lemma next_free_gt keys p : In p keys -> p < next_free keys.
Proof.
  unfold next_free. generalize 0. induction keys as [|x r IH]; intros a Hin; simpl; [destruct Hin|].
  destruct Hin as [->|Hin]; [|apply IH; exact Hin].
  eapply N.lt_le_trans; [|apply next_free_acc].
  eapply N.lt_le_trans; [|apply N.le_max_r]. apply N.lt_add_pos_r. reflexivity.
Qed.

Lemma wf0_init local chunks : wf0 (init local chunks).
Proof.
  unfold wf0, init, cat_keys, akeys; simpl. repeat split.
  - intros p Hp. rewrite map_map in Hp. simpl in Hp. apply next_free_gt. exact Hp.
  - intros p Hp. rewrite map_map in Hp. simpl in Hp. apply next_free_gt. exact Hp.
  - destruct H.
  - destruct H.
Qed.

Lemma cat_keys_init local chunks : cat_keys (init local chunks) = map (fun e => fst (fst e)) chunks.
Proof. unfold cat_keys, akeys, init; simpl. rewrite map_map. reflexivity. Qed.

(* ------------------------------------------------------------------ *)
(* known classes: witnesses (each replayed on the real code by the       *)
(* harness corpus)                                                      *)
(* ------------------------------------------------------------------ *)
Definition two_l0 (local : bool) : state := init local [(1, 0, [1; 2]); (2, 0, [3; 4])].

Definition all_ok (c : cid) (n : nat) : list label := repeat (LStep c FOk) n.

(* K1a: register_chunk took effect but an error came back: Err arm, lease
   failed, target (level 0) and sources stay catalogued *)
Definition k1_register_fail_after : list label :=
  [LList 0; LStart 0 [1; 2] FOk] ++ all_ok 0 4 ++ [LStep 0 FAfter] ++ all_ok 0 2.
(* K1b: crash between register_chunk and complete_compaction *)
Definition k1_crash_before_swap : list label :=
  [LList 0; LStart 0 [1; 2] FOk] ++ all_ok 0 5 ++ [LCrash 0].
(* K1c: complete_compaction fails before taking effect: `?` leaves the cycle *)
Definition k1_swap_fail_before : list label :=
  [LList 0; LStart 0 [1; 2] FOk] ++ all_ok 0 5 ++ [LStep 0 FBefore].
(* ... and the next cycle merges target and sources into one chunk *)
Definition k1_then_remerge : list label :=
  k1_register_fail_after ++ [LList 0; LStart 0 [1; 2; 3] FOk] ++ all_ok 0 9.

(* K2: compactor 1 got its candidate list before compactor 0 compacted the
   group; the objects are still in the store (GC grace period) *)
Definition k2_stale_candidates : list label :=
  [LList 1; LList 0; LStart 0 [1; 2] FOk] ++ all_ok 0 8 ++ [LStart 1 [1; 2] FOk] ++ all_ok 1 8.

(* K3: compactor 0's lease expires while it is still reading; compactor 1
   acquires the same chunks; both publish *)
Definition k3_lease_lost : list label :=
  [LList 0; LList 1; LStart 0 [1; 2] FOk] ++ all_ok 0 3 ++ [LTick 301; LStart 1 [1; 2] FOk] ++
  all_ok 1 8 ++ all_ok 0 5.

(* K5: a level-1 merge has registered its target (at level 0); an L0 pass of
   the other compactor compacts that target before the swap; the swap then
   fails with "target not found" and the sources stay *)
Definition l1_pair : state := init true [(1, 1, [1; 2]); (2, 1, [3])].
Definition k5_unswapped_target : list label :=
  [LList 0; LStart 0 [1; 2] FOk] ++ all_ok 0 5 ++ [LList 1; LStart 1 [3] FOk] ++ all_ok 1 7 ++ [LStep 0 FOk].

Definition refutes (s0 : state) (sched : list label) (k : N) : Prop :=
  wf0 s0 /\ NoDup (cat_keys s0) /\ known_class s0 sched = k /\
  quiescent (run sched s0) = true /\
  ~ Permutation (visible (run sched s0)) (visible s0).

Ltac refute :=
  unfold refutes; split; [apply wf0_init|split; [|split; [|split]]];
  [ apply nodupb_NoDup; vm_compute; reflexivity
  | vm_compute; reflexivity
  | vm_compute; reflexivity
  | let P := fresh in intros P; apply Permutation_length in P; vm_compute in P; discriminate ].

Lemma C03_refuted_register_swap_gap_error : refutes (two_l0 true) k1_register_fail_after 1.
Proof. refute. Qed.
Lemma C03_refuted_register_swap_gap_crash : refutes (two_l0 false) k1_crash_before_swap 1.
Proof. refute. Qed.
Lemma C03_refuted_register_swap_gap_swap_error : refutes (two_l0 false) k1_swap_fail_before 1.
Proof. refute. Qed.
Lemma C03_refuted_stale_candidates : refutes (two_l0 true) k2_stale_candidates 2.
Proof. refute. Qed.
Lemma C03_refuted_lease_lost : refutes (two_l0 false) k3_lease_lost 3.
Proof. refute. Qed.
Lemma C03_refuted_unswapped_target : refutes l1_pair k5_unswapped_target 5.
Proof. refute. Qed.

(* what the duplicates look like *)
Example k1_catalog_after_error :
  visible (run k1_register_fail_after (two_l0 true)) = [1; 2; 3; 4; 1; 2; 3; 4].
Proof. vm_compute. reflexivity. Qed.
Example k1_duplicates_baked_into_one_chunk :
  let s := run k1_then_remerge (two_l0 true) in
  map fst (s_cat s) = [4] /\ visible s = [1; 1; 2; 2; 3; 3; 4; 4].
Proof. vm_compute. split; reflexivity. Qed.
Example k5_swap_fails_target_not_found :
  snd (step (run (removelast k5_unswapped_target) l1_pair) (LStep 0 FOk)) = (7, 3, 1).
Proof. vm_compute. reflexivity. Qed.

(* non-vacuity of exact_when_quiescent: two interleaved compactors, one fault
   before effect, one fault after effect (the swap!), one crash — outside the
   known classes; two merges are published *)
Definition four_chunks : state :=
  init false [(1, 0, [1; 2]); (2, 0, [4; 3]); (3, 1, [5]); (4, 1, [6; 7])].
Definition clean_schedule : list label :=
  [LList 0; LList 1; LStart 0 [1; 2] FOk; LStart 1 [3; 4] FOk; LStep 0 FOk; LStep 1 FOk;
   LStep 1 FBefore (* GET fails: Err arm *); LStep 0 FOk; LStep 0 FOk; LStep 1 FOk; LStep 1 FOk;
   LStep 0 FOk; LStep 0 FOk; LStep 0 FAfter (* swap took effect, error returned *);
   LCrash 1; LTick 400; LList 1; LStart 1 [3; 4] FOk] ++ all_ok 1 8 ++ [LDel 1 3 FOk; LScav 1].
Example exact_when_quiescent_nonvacuous :
  wf0 four_chunks /\ NoDup (cat_keys four_chunks) /\
  known_class four_chunks clean_schedule = 0 /\
  quiescent (run clean_schedule four_chunks) = true /\
  visible (run clean_schedule four_chunks) = [1; 2; 3; 4; 5; 6; 7] /\
  level_of (run clean_schedule four_chunks) 5 = Some 1 /\
  level_of (run clean_schedule four_chunks) 6 = Some 2.
Proof.
  split; [apply wf0_init|split].
  - apply nodupb_NoDup. vm_compute. reflexivity.
  - vm_compute. repeat split; reflexivity.
Qed.

(* ------------------------------------------------------------------ *)
(* K4 (liveness; repaired by fix 00081bd): before the repair a `?` after  *)
(* acquire_lease left the renewal task running, so the abandoned lease    *)
(* was renewed for ever.  Now every request whose error leaves the cycle  *)
(* stops the renewal task and releases the concurrency slot; the lease    *)
(* expires after its TTL and the chunks can be compacted again.           *)
(* ------------------------------------------------------------------ *)
Definition lease_of_pc (k : pc) : option lid :=
  match k with
  | Idle => None
  | PJob l _ | PRead l _ _ _ | PPut l _ _ | PReg l _ _ _ | PSwap l _ _
  | PJobDone l _ | PLeaseDone l _ | PJobFail l | PLeaseFail l => Some l
  end.

Theorem error_path_stops_renewal :
  forall (s : state) (c : cid) (f : fault) (k a : N),
  snd (step s (LStep c f)) = (k, a, 1) ->
  let s' := fst (step s (LStep c f)) in
  p_pc (get_proc s' c) = Idle /\
  (forall l, lease_of_pc (p_pc (get_proc s c)) = Some l -> ~ In l (p_renew (get_proc s' c))) /\
  p_active (get_proc s' c) = p_active (get_proc s c) - 1.
Proof.
  intros s c f k a. simpl. unfold step_proc.
  assert (Hrm : forall l x, Some l = Some x -> ~ In x (removeN l (p_renew (get_proc s c)))).
  { intros l x Hx. inversion Hx; subst. rewrite In_removeN. tauto. }
  destruct (p_pc (get_proc s c)) eqn:E;
    repeat (match goal with
            | |- context [match ?x with _ => _ end] => destruct x eqn:?
            end; simpl);
    intros H; try discriminate H;
    rewrite get_set_proc_same; simpl; repeat split; auto.
Qed.

(* the abandoned lease of the witness is no longer renewed and, once its TTL
   has elapsed, another node acquires the chunks *)
Definition k4_job_error : list label := [LList 0; LStart 0 [1; 2] FOk; LStep 0 FBefore].

Example k4_lease_expires_after_error : forall local : bool,
  snd (step (run k4_job_error (two_l0 local)) (LRenew 0 1)) = no_out /\
  snd (step (run (k4_job_error ++ [LRenew 0 1; LTick 299; LList 1]) (two_l0 local)) (LStart 1 [1; 2] FOk)) = (2, 0, 2) /\
  snd (step (run (k4_job_error ++ [LRenew 0 1; LTick 300; LList 1]) (two_l0 local)) (LStart 1 [1; 2] FOk)) = (2, 2, 0).
Proof. intros local. destruct local; vm_compute; repeat split; reflexivity. Qed.

(* a lease whose renewal task keeps firing stays live (what the renewal is for) *)
Definition renew_round (c : cid) (l : lid) : list label :=
  [LTick Consts.C03_RENEWAL_PERIOD_SECS; LRenew c l].

Definition holds_lease (s : state) (c : cid) (l : lid) (chunks : list path) : Prop :=
  In l (p_renew (get_proc s c)) /\
  exists le, aget N.eqb l (s_leases s) = Some le /\ l_status le = 0 /\ l_chunks le = chunks.

Definition lease_is_live (s : state) (l : lid) (chunks : list path) : Prop :=
  exists le, aget N.eqb l (s_leases s) = Some le /\ l_chunks le = chunks /\ lease_live (s_clock s) le = true.

Lemma renew_ttl_pos s : (0 < renew_ttl s)%Z.
Proof. unfold renew_ttl. destruct (s_local s); vm_compute; reflexivity. Qed.

Lemma renewal_keeps_lease_live s c l ch :
  holds_lease s c l ch ->
  holds_lease (run (renew_round c l) s) c l ch /\ lease_is_live (run (renew_round c l) s) l ch.
Proof.
  intros [Hr [le [Hl [Hs Hc]]]]. unfold run, renew_round. simpl.
  change (get_proc (set_clock s (s_clock s + Z.max C03_RENEWAL_PERIOD_SECS 0)%Z) c) with (get_proc s c).
  apply memN_In in Hr. rewrite Hr. unfold lease_renew. simpl. rewrite Hl, Hs. simpl.
  set (now := (s_clock s + Z.max C03_RENEWAL_PERIOD_SECS 0)%Z).
  change (renew_ttl (set_clock s now)) with (renew_ttl s).
  split.
  - split; [apply memN_In; exact Hr|].
    eexists. split; [apply (aget_aset_same N.eqb Neqb_spec)|split; [reflexivity|exact Hc]].
  - eexists. split; [apply (aget_aset_same N.eqb Neqb_spec)|split; [exact Hc|]].
    unfold lease_live; simpl. apply Z.ltb_lt. pose proof (renew_ttl_pos s). lia.
Qed.

(* a live lease refuses every group that mentions one of its chunks *)
Lemma live_lease_conflict s l ch p g :
  lease_is_live s l ch -> In p ch -> In p g ->
  lease_conflict (s_clock s) (drop_expired (s_clock s) (s_leases s)) g = true.
Proof.
  intros [le [Hl [Hc Hlive]]] Hp Hg. unfold lease_conflict. apply existsb_exists. exists p. split; [exact Hg|].
  apply memN_In. unfold leased_chunks. apply in_flat_map. exists (l, le). split.
  - unfold drop_expired. apply filter_In. split; [apply (aget_In N.eqb Neqb_spec); exact Hl|].
    simpl. unfold lease_live in Hlive. apply andb_true_iff in Hlive. destruct Hlive as [_ H2].
    apply Z.ltb_lt in H2. rewrite negb_true_iff, andb_false_iff. right. apply Z.leb_gt. exact H2.
  - simpl. rewrite Hlive, Hc. exact Hp.
Qed.

(* ------------------------------------------------------------------ *)
(* the reduced catalog of this model is the level projection of the     *)
(* object-store catalog model of C07 / C02 (Model/Catalog.v)            *)
(* ------------------------------------------------------------------ *)
Definition levels_of (c : cat) : lcatalog := map (fun e => (fst e, e_level (snd e))) (c_chunks c).

Section MapVals.
  Context {V W : Type}.
  Variable f : V -> W.
  Let mapv (l : list (N * V)) : list (N * W) := map (fun e => (fst e, f (snd e))) l.

  Lemma aget_mapv k l : aget N.eqb k (mapv l) = option_map f (aget N.eqb k l).
  Proof.
    induction l as [|[k' v'] r IH]; simpl; [reflexivity|].
    destruct (N.eqb k k'); [reflexivity|exact IH].
  Qed.
  Lemma aset_mapv k v l : mapv (aset N.eqb k v l) = aset N.eqb k (f v) (mapv l).
  Proof.
    induction l as [|[k' v'] r IH]; simpl; [reflexivity|].
    destruct (N.eqb k k'); simpl; [reflexivity|f_equal; exact IH].
  Qed.
  Lemma adel_mapv k l : mapv (adel N.eqb k l) = adel N.eqb k (mapv l).
  Proof.
    induction l as [|[k' v'] r IH]; simpl; [reflexivity|].
    destruct (N.eqb k k'); simpl; [exact IH|f_equal; exact IH].
  Qed.
End MapVals.

Lemma max_level_ext (f g : path -> option N) srcs : (forall p, f p = g p) -> max_level f srcs = max_level g srcs.
Proof.
  intros H. unfold max_level. generalize 0. induction srcs as [|x r IH]; intros a; simpl; [reflexivity|].
  rewrite H. apply IH.
Qed.

Lemma refine_register c p m : levels_of (s3_register c p m) = cat_register (levels_of c) p.
Proof. unfold levels_of, s3_register, cat_register; simpl. apply (aset_mapv e_level). Qed.

Lemma refine_remove srcs : forall c,
  levels_of (fold_left (fun c p => mkCat (adel N.eqb p (c_chunks c)) (ti_retain_all p (c_tindex c))) srcs c)
  = cat_remove_all (levels_of c) srcs.
Proof.
  unfold cat_remove_all. induction srcs as [|x r IH]; intros c; simpl; [reflexivity|].
  rewrite IH. unfold levels_of at 1; simpl. rewrite (adel_mapv e_level). reflexivity.
Qed.

Theorem refine_complete c srcs tgt :
  option_map levels_of (s3_complete c srcs tgt) = cat_complete (levels_of c) srcs tgt.
Proof.
  unfold s3_complete, cat_complete.
  rewrite (max_level_ext (fun p => aget N.eqb p (levels_of c))
                         (fun p => option_map e_level (aget N.eqb p (c_chunks c)))) by (intros p; apply (aget_mapv e_level)).
  rewrite <- refine_remove.
  match goal with |- context [fold_left ?f srcs c] => set (c1 := fold_left f srcs c) end.
  unfold amem. unfold levels_of at 2. rewrite (aget_mapv e_level).
  destruct (aget N.eqb tgt (c_chunks c1)) as [e|]; simpl; [|reflexivity].
  f_equal. unfold levels_of; simpl. rewrite (aset_mapv e_level). reflexivity.
Qed.
