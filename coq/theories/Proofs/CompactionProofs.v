(* Proofs/CompactionProofs.v — C20: candidate groups are disjoint and
   single-level, levels only move up, repeated compaction cycles converge.
   Part 1: list facts, selection functions.  Part 2: the generic cycle over an
   abstract backend.  Part 3: the two concrete backends of Model/Catalog.v. *)
From Coq Require Import Permutation.
From CS Require Import Base.Prelude Model.Catalog Proofs.CatalogProofs Model.Compaction.
From CSGen Require Import Consts.
Open Scope N_scope.

(* ================================================================== *)
(* Part 1a: list facts                                                  *)
(* ================================================================== *)
Lemma nodup_app_iff {A} (l1 l2 : list A) :
  NoDup (l1 ++ l2) <-> NoDup l1 /\ NoDup l2 /\ (forall x, In x l1 -> ~ In x l2).
Proof.
  induction l1 as [|a l1 IH]; simpl.
  - split; [intros H; repeat split; [constructor|exact H|intros x []]|intros [_ [H _]]; exact H].
  - split.
    + intros H. inversion H as [|? ? Hni Hnd]; subst. apply IH in Hnd. destruct Hnd as [H1 [H2 H3]].
      split; [constructor; [intros Hc; apply Hni; apply in_or_app; left; exact Hc|exact H1]|].
      split; [exact H2|]. intros x [Hx|Hx] Hc.
      * subst x. apply Hni. apply in_or_app; right; exact Hc.
      * exact (H3 x Hx Hc).
    + intros [H1 [H2 H3]]. inversion H1 as [|? ? Hni Hnd]; subst. constructor.
      * intros Hc. apply in_app_or in Hc. destruct Hc as [Hc|Hc]; [exact (Hni Hc)|].
        exact (H3 a (or_introl eq_refl) Hc).
      * apply IH. split; [exact Hnd|split; [exact H2|]]. intros x Hx. apply H3. right; exact Hx.
Qed.

Lemma nodup_map_filter {A B} (f : A -> B) (g : A -> bool) (l : list A) :
  NoDup (map f l) -> NoDup (map f (filter g l)).
Proof.
  induction l as [|a l IH]; simpl; intros H; [constructor|].
  inversion H as [|? ? Hni Hnd]; subst. destruct (g a); simpl; [|exact (IH Hnd)].
  constructor; [|exact (IH Hnd)].
  intros Hc. apply Hni. apply in_map_iff in Hc. destruct Hc as [x [Hx Hin]].
  apply filter_In in Hin. apply in_map_iff. exists x. split; [exact Hx|apply Hin].
Qed.

Lemma nodup_concat_filter {A} (f : list A -> bool) (gs : list (list A)) :
  NoDup (concat gs) -> NoDup (concat (filter f gs)).
Proof.
  induction gs as [|g gs IH]; simpl; intros H; [constructor|].
  apply nodup_app_iff in H. destruct H as [H1 [H2 H3]].
  destruct (f g); simpl; [|exact (IH H2)].
  apply nodup_app_iff. split; [exact H1|split; [exact (IH H2)|]].
  intros x Hx Hc. apply (H3 x Hx). apply in_concat in Hc. destruct Hc as [g' [Hg' Hin]].
  apply filter_In in Hg'. apply in_concat. exists g'. split; [apply Hg'|exact Hin].
Qed.

Lemma in_concat_filter {A} (f : list A -> bool) (gs : list (list A)) x :
  In x (concat (filter f gs)) -> In x (concat gs).
Proof.
  intros H. apply in_concat in H. destruct H as [g [Hg Hin]]. apply filter_In in Hg.
  apply in_concat. exists g. split; [apply Hg|exact Hin].
Qed.

Lemma memN_false x l : memN x l = false <-> ~ In x l.
Proof.
  split.
  - intros H Hc. apply memN_In in Hc. congruence.
  - intros H. destruct (memN x l) eqn:E; [apply memN_In in E; contradiction|reflexivity].
Qed.

(* order-preserving de-duplication *)
Lemma dedupN_aux_In seen l x : In x (dedupN_aux seen l) <-> In x l /\ ~ In x seen.
Proof.
  revert seen. induction l as [|y r IH]; simpl; intros seen; [tauto|].
  destruct (memN y seen) eqn:E.
  - apply memN_In in E. rewrite IH. split; [intros [A Bn]; split; [right; exact A|exact Bn]|].
    intros [[A|A] Bn]; [subst; contradiction|split; assumption].
  - apply memN_false in E. simpl. rewrite IH. split.
    + intros [A|[A Bn]]; [subst; split; [left; reflexivity|exact E]|].
      split; [right; exact A|intros Hc; apply Bn; right; exact Hc].
    + intros [[A|A] Bn]; [left; exact A|].
      destruct (N.eq_dec y x) as [->|Hn]; [left; reflexivity|right].
      split; [exact A|intros [Hc|Hc]; [contradiction|contradiction]].
Qed.

Lemma dedupN_aux_nodup seen l : NoDup (dedupN_aux seen l).
Proof.
  revert seen. induction l as [|y r IH]; simpl; intros seen; [constructor|].
  destruct (memN y seen); [apply IH|]. constructor; [|apply IH].
  intros Hc. apply dedupN_aux_In in Hc. destruct Hc as [_ Hc]. apply Hc. left; reflexivity.
Qed.

Lemma dedupN_In l x : In x (dedupN l) <-> In x l.
Proof. unfold dedupN. rewrite dedupN_aux_In. simpl. tauto. Qed.
Lemma dedupN_nodup l : NoDup (dedupN l).
Proof. apply dedupN_aux_nodup. Qed.

(* ---------- find_row ---------- *)
Lemma find_row_some p rows r : find_row p rows = Some r -> In r rows /\ r_path r = p.
Proof.
  induction rows as [|x t IH]; simpl; [discriminate|].
  destruct (N.eqb p (r_path x)) eqn:E.
  - intros H; inversion H; subst. apply N.eqb_eq in E. split; [left; reflexivity|symmetry; exact E].
  - intros H. destruct (IH H) as [A Bp]. split; [right; exact A|exact Bp].
Qed.

Lemma find_row_none p rows : find_row p rows = None <-> ~ In p (map r_path rows).
Proof.
  induction rows as [|x t IH]; simpl; [tauto|].
  destruct (N.eqb p (r_path x)) eqn:E.
  - apply N.eqb_eq in E. split; [discriminate|intros H; exfalso; apply H; left; symmetry; exact E].
  - apply N.eqb_neq in E. rewrite IH. split; [intros H [Hc|Hc]; [apply E; symmetry; exact Hc|exact (H Hc)]|].
    intros H Hc. apply H. right; exact Hc.
Qed.

Lemma find_row_nodup rows r :
  NoDup (map r_path rows) -> In r rows -> find_row (r_path r) rows = Some r.
Proof.
  induction rows as [|x t IH]; simpl; [contradiction|].
  intros Hnd [H|H].
  - subst x. rewrite N.eqb_refl. reflexivity.
  - inversion Hnd as [|? ? Hni Hnd']; subst.
    destruct (N.eqb (r_path r) (r_path x)) eqn:E.
    + apply N.eqb_eq in E. exfalso. apply Hni. rewrite <- E. apply in_map. exact H.
    + apply IH; assumption.
Qed.

Lemma find_row_in_paths p rows : In p (map r_path rows) -> exists r, find_row p rows = Some r.
Proof.
  intros H. destruct (find_row p rows) as [r|] eqn:E; [exists r; reflexivity|].
  apply find_row_none in E. contradiction.
Qed.

Lemma find_row_app_l p a b : In p (map r_path a) -> find_row p (a ++ b) = find_row p a.
Proof.
  induction a as [|x t IH]; simpl; [contradiction|].
  destruct (N.eqb p (r_path x)) eqn:E; [reflexivity|].
  intros [H|H]; [apply N.eqb_neq in E; exfalso; apply E; symmetry; exact H|exact (IH H)].
Qed.

Lemma find_row_app_r p a b : ~ In p (map r_path a) -> find_row p (a ++ b) = find_row p b.
Proof.
  induction a as [|x t IH]; simpl; [reflexivity|].
  intros H. destruct (N.eqb p (r_path x)) eqn:E.
  - apply N.eqb_eq in E. exfalso. apply H. left; symmetry; exact E.
  - apply IH. intros Hc. apply H. right; exact Hc.
Qed.

Lemma find_row_filter p (f : crow -> bool) rows r :
  NoDup (map r_path rows) -> find_row p rows = Some r -> f r = true ->
  find_row p (filter f rows) = Some r.
Proof.
  intros Hnd Hf Hfr. destruct (find_row_some _ _ _ Hf) as [Hin Hp]. subst p.
  apply find_row_nodup; [apply nodup_map_filter; exact Hnd|].
  apply filter_In. split; assumption.
Qed.

(* ---------- reorder: a permutation of the rows ---------- *)
Lemma reorder_In ord rows r :
  NoDup (map r_path rows) -> (In r (reorder ord rows) <-> In r rows).
Proof.
  intros Hnd. unfold reorder. rewrite in_app_iff, in_flat_map, filter_In. split.
  - intros [[p [Hp Hr]]|[Hr _]]; [|exact Hr].
    destruct (find_row p rows) as [r'|] eqn:E; [|contradiction].
    destruct Hr as [Hr|[]]. subst r'. apply (find_row_some _ _ _ E).
  - intros Hr. destruct (memN (r_path r) ord) eqn:Em.
    + left. exists (r_path r). split; [apply dedupN_In; apply memN_In; exact Em|].
      rewrite (find_row_nodup _ _ Hnd Hr). left; reflexivity.
    + right. split; [exact Hr|reflexivity].
Qed.

Lemma flat_map_find_paths rows (l : list path) :
  map r_path (flat_map (fun p => match find_row p rows with Some r => [r] | None => [] end) l)
  = filter (fun p => match find_row p rows with Some _ => true | None => false end) l.
Proof.
  induction l as [|p t IH]; simpl; [reflexivity|].
  destruct (find_row p rows) as [r|] eqn:E; simpl; [|exact IH].
  destruct (find_row_some _ _ _ E) as [_ Hp]. rewrite Hp, IH. reflexivity.
Qed.

Lemma reorder_nodup ord rows :
  NoDup (map r_path rows) -> NoDup (map r_path (reorder ord rows)).
Proof.
  intros Hnd. unfold reorder. rewrite map_app, flat_map_find_paths. apply nodup_app_iff.
  split; [apply NoDup_filter; apply dedupN_nodup|].
  split; [apply nodup_map_filter; exact Hnd|].
  intros x Hx Hc. apply filter_In in Hx. destruct Hx as [Hx _]. apply (proj1 (dedupN_In _ _)) in Hx.
  apply in_map_iff in Hc. destruct Hc as [r [Hr Hin]]. apply filter_In in Hin.
  destruct Hin as [_ Hm]. apply negb_true_iff in Hm. apply memN_false in Hm. subst x. exact (Hm Hx).
Qed.

Lemma reorder_paths ord rows p :
  NoDup (map r_path rows) -> (In p (map r_path (reorder ord rows)) <-> In p (map r_path rows)).
Proof.
  intros Hnd. rewrite !in_map_iff. split; intros [r [Hp Hr]]; exists r; (split; [exact Hp|]);
    apply (reorder_In ord rows r Hnd); exact Hr.
Qed.

(* ================================================================== *)
(* Part 1b: get_l0_candidates                                           *)
(* ================================================================== *)
(* what a candidate call must satisfy: no chunk twice, every member is a row
   of the requested level *)
Definition sel_ok (lvl : N) (rows : list crow) (gs : list (list path)) : Prop :=
  NoDup (concat gs) /\
  forall g p, In g gs -> In p g -> exists r, In r rows /\ r_path r = p /\ r_level r = lvl.

Lemma ti_push_eq b p ti :
  ti_push b p ti = match ti with
                   | [] => [(b, [p])]
                   | (b', l) :: r => if Z.eqb b b' then (b', l ++ [p]) :: r else (b', l) :: ti_push b p r
                   end.
Proof.
  unfold ti_push. destruct ti as [|[b' l] r]; simpl; [reflexivity|].
  destruct (Z.eqb b b') eqn:E; simpl; [reflexivity|].
  destruct (aget Z.eqb b r); reflexivity.
Qed.

Lemma ti_push_perm b p ti :
  Permutation (concat (map snd (ti_push b p ti))) (p :: concat (map snd ti)).
Proof.
  induction ti as [|[b' l] r IH]; rewrite ti_push_eq; simpl; [apply Permutation_refl|].
  destruct (Z.eqb b b'); simpl.
  - rewrite <- app_assoc. simpl. apply Permutation_sym. apply Permutation_middle.
  - eapply Permutation_trans; [apply Permutation_app_head; exact IH|].
    apply Permutation_sym. apply Permutation_middle.
Qed.

Lemma ti_push_nonempty b p ti :
  (forall g, In g (map snd ti) -> g <> []) -> forall g, In g (map snd (ti_push b p ti)) -> g <> [].
Proof.
  induction ti as [|[b' l] r IH]; rewrite ti_push_eq; simpl.
  - intros _ g [H|[]]; subst; discriminate.
  - intros Hne. destruct (Z.eqb b b'); simpl.
    + intros g [H|H]; [subst; destruct l; discriminate|apply Hne; right; exact H].
    + intros g [H|H]; [apply Hne; left; exact H|].
      apply IH; [intros g' Hg'; apply Hne; right; exact Hg'|exact H].
Qed.

Definition l0_step (w : Z) (acc : tindex) (r : crow) : tindex :=
  if N.eqb (r_level r) 0 then ti_push (bucketw w (r_min r)) (r_path r) acc else acc.

Lemma l0_fold_perm w rows : forall acc,
  Permutation (concat (map snd (fold_left (l0_step w) rows acc)))
              (map r_path (filter (fun r => N.eqb (r_level r) 0) rows) ++ concat (map snd acc)).
Proof.
  induction rows as [|r t IH]; simpl; intros acc; [apply Permutation_refl|].
  eapply Permutation_trans; [apply IH|]. unfold l0_step at 1.
  destruct (N.eqb (r_level r) 0); simpl; [|apply Permutation_refl].
  eapply Permutation_trans; [apply Permutation_app_head; apply ti_push_perm|].
  apply Permutation_sym. apply Permutation_middle.
Qed.

Lemma l0_fold_nonempty w rows : forall acc,
  (forall g, In g (map snd acc) -> g <> []) ->
  forall g, In g (map snd (fold_left (l0_step w) rows acc)) -> g <> [].
Proof.
  induction rows as [|r t IH]; simpl; intros acc Hne; [exact Hne|].
  apply IH. unfold l0_step. destruct (N.eqb (r_level r) 0); [|exact Hne].
  apply ti_push_nonempty. exact Hne.
Qed.

Lemma l0_buckets_eq w rows : l0_buckets w rows = fold_left (l0_step w) rows [].
Proof. reflexivity. Qed.

Lemma l0_groups_ok w thr rows :
  NoDup (map r_path rows) ->
  sel_ok 0 rows (l0_groups w thr rows) /\ forall g, In g (l0_groups w thr rows) -> g <> [].
Proof.
  intros Hnd. unfold l0_groups. rewrite l0_buckets_eq.
  pose proof (l0_fold_perm w rows []) as Hp. simpl in Hp. rewrite app_nil_r in Hp.
  split; [split|].
  - apply nodup_concat_filter. apply (Permutation_NoDup (Permutation_sym Hp)).
    apply nodup_map_filter. exact Hnd.
  - intros g p Hg Hin. apply filter_In in Hg. destruct Hg as [Hg _].
    assert (Hc : In p (concat (map snd (fold_left (l0_step w) rows [])))).
    { apply in_concat. exists g. split; assumption. }
    apply (Permutation_in _ Hp) in Hc. apply in_map_iff in Hc. destruct Hc as [r [Hr Hf]].
    apply filter_In in Hf. destruct Hf as [Hf Hl]. apply N.eqb_eq in Hl.
    exists r. repeat split; assumption.
  - intros g Hg. apply filter_In in Hg. destruct Hg as [Hg _].
    apply (l0_fold_nonempty w rows []); [intros g' []|exact Hg].
Qed.

(* ================================================================== *)
(* Part 1c: get_level_candidates                                        *)
(* ================================================================== *)
Lemma insert_by_min_perm r l : Permutation (insert_by_min r l) (r :: l).
Proof.
  induction l as [|x t IH]; simpl; [apply Permutation_refl|].
  destruct (r_min r <=? r_min x)%Z; [apply Permutation_refl|].
  eapply Permutation_trans; [apply perm_skip; exact IH|apply perm_swap].
Qed.

Lemma sort_by_min_perm l : Permutation (sort_by_min l) l.
Proof.
  induction l as [|x t IH]; simpl; [apply Permutation_refl|].
  eapply Permutation_trans; [apply insert_by_min_perm|apply perm_skip; exact IH].
Qed.

(* the sort really sorts, and is stable (documented; not needed by C20) *)
Fixpoint sorted_by_min (l : list crow) : Prop :=
  match l with
  | [] => True
  | x :: t => (forall y, In y t -> (r_min x <= r_min y)%Z) /\ sorted_by_min t
  end.

Lemma insert_by_min_sorted r l : sorted_by_min l -> sorted_by_min (insert_by_min r l).
Proof.
  induction l as [|x t IH]; simpl; [intros _; split; [intros y []|exact I]|].
  intros [Hx Ht]. destruct (r_min r <=? r_min x)%Z eqn:E.
  - apply Z.leb_le in E. simpl. split; [|split; assumption].
    intros y [Hy|Hy]; [subst; exact E|]. specialize (Hx y Hy). lia.
  - apply Z.leb_gt in E. simpl. split; [|apply IH; exact Ht].
    intros y Hy. apply (Permutation_in _ (insert_by_min_perm r t)) in Hy.
    destruct Hy as [Hy|Hy]; [subst; lia|exact (Hx y Hy)].
Qed.

Lemma sort_by_min_sorted l : sorted_by_min (sort_by_min l).
Proof. induction l as [|x t IH]; simpl; [exact I|apply insert_by_min_sorted; exact IH]. Qed.

Lemma level_rows_In lvl rows r : In r (level_rows lvl rows) <-> In r rows /\ r_level r = lvl.
Proof.
  unfold level_rows. split.
  - intros H. apply (Permutation_in _ (sort_by_min_perm _)) in H. apply filter_In in H.
    destruct H as [A Bl]. apply N.eqb_eq in Bl. split; assumption.
  - intros [A Bl]. apply (Permutation_in _ (Permutation_sym (sort_by_min_perm _))).
    apply filter_In. split; [exact A|apply N.eqb_eq; exact Bl].
Qed.

Lemma level_rows_nodup lvl rows :
  NoDup (map r_path rows) -> NoDup (map r_path (level_rows lvl rows)).
Proof.
  intros Hnd. unfold level_rows.
  apply (Permutation_NoDup (Permutation_map r_path (Permutation_sym (sort_by_min_perm _)))).
  apply nodup_map_filter. exact Hnd.
Qed.

Lemma s3_acc_concat target rows : forall cur size gs,
  s3_acc target cur size rows = Some gs -> concat gs = cur ++ map r_path rows.
Proof.
  induction rows as [|r t IH]; simpl; intros cur size gs H.
  - inversion H; subst. destruct cur; simpl; [reflexivity|rewrite !app_nil_r; reflexivity].
  - destruct (usize_max <? size + r_size r); [discriminate|].
    destruct (target <=? size + r_size r).
    + destruct (s3_acc target [] 0 t) as [gs'|] eqn:E; simpl in H; [|discriminate].
      inversion H; subst. simpl. rewrite (IH _ _ _ E). simpl. rewrite <- app_assoc. reflexivity.
    + rewrite (IH _ _ _ H). rewrite <- app_assoc. reflexivity.
Qed.

Lemma local_acc_concat target rows : forall cur size gs,
  local_acc target cur size rows = Some gs -> exists rest, concat gs ++ rest = cur ++ map r_path rows.
Proof.
  induction rows as [|r t IH]; simpl; intros cur size gs H.
  - inversion H; subst. exists cur. simpl. rewrite app_nil_r. reflexivity.
  - destruct (usize_max <? size + r_size r); [discriminate|].
    destruct (target <=? size + r_size r).
    + destruct (Consts.LOCAL_LEVEL_MIN_GROUP <=? N.of_nat (length (cur ++ [r_path r]))).
      * destruct (local_acc target [] 0 t) as [gs'|] eqn:E; simpl in H; [|discriminate].
        inversion H; subst. destruct (IH _ _ _ E) as [rest Hr]. exists rest. simpl.
        rewrite <- !app_assoc. simpl. f_equal. f_equal. simpl in Hr. exact Hr.
      * destruct (IH _ _ _ H) as [rest Hr]. exists rest. rewrite Hr, <- app_assoc. reflexivity.
    + destruct (IH _ _ _ H) as [rest Hr]. exists rest. rewrite Hr, <- app_assoc. reflexivity.
Qed.

Lemma level_sel_ok lvl rows gs rest :
  NoDup (map r_path rows) -> concat gs ++ rest = map r_path (level_rows lvl rows) -> sel_ok lvl rows gs.
Proof.
  intros Hnd Hc. pose proof (level_rows_nodup lvl rows Hnd) as Hn. rewrite <- Hc in Hn.
  apply nodup_app_iff in Hn. destruct Hn as [Hn _]. split; [exact Hn|].
  intros g p Hg Hp. assert (Hin : In p (map r_path (level_rows lvl rows))).
  { rewrite <- Hc. apply in_or_app; left. apply in_concat. exists g. split; assumption. }
  apply in_map_iff in Hin. destruct Hin as [r [Hr Hin]]. apply level_rows_In in Hin.
  exists r. repeat split; [apply Hin|exact Hr|apply Hin].
Qed.

Lemma s3_level_ok lvl target rows gs :
  NoDup (map r_path rows) -> s3_level lvl target rows = Some gs -> sel_ok lvl rows gs.
Proof.
  intros Hnd H. unfold s3_level in H. apply s3_acc_concat in H. simpl in H.
  apply (level_sel_ok lvl rows gs []); [exact Hnd|rewrite app_nil_r; exact H].
Qed.

Lemma local_level_ok lvl target rows gs :
  NoDup (map r_path rows) -> local_level lvl target rows = Some gs -> sel_ok lvl rows gs.
Proof.
  intros Hnd H. unfold local_level in H. apply local_acc_concat in H. destruct H as [rest H].
  simpl in H. apply (level_sel_ok lvl rows gs rest); assumption.
Qed.

(* the object-store flavour selects every chunk of the level (the in-memory
   flavour may drop the trailing ones) *)
Lemma s3_level_complete lvl target rows gs r :
  s3_level lvl target rows = Some gs -> In r rows -> r_level r = lvl -> In (r_path r) (concat gs).
Proof.
  intros H Hin Hl. unfold s3_level in H. apply s3_acc_concat in H. simpl in H. rewrite H.
  apply in_map. apply level_rows_In. split; assumption.
Qed.
