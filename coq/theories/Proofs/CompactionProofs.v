(* Proofs/CompactionProofs.v — C20: candidate groups are disjoint and
   single-level, levels only move up, repeated compaction cycles converge.
   Part 1: list facts, selection functions.  Part 2: the generic cycle over an
   abstract backend.  Part 3: the two concrete backends of Model/Catalog.v. *)
From Coq Require Import Permutation.
From CS Require Import Base.Prelude Model.Catalog Proofs.CatalogProofs Model.Compaction.
From CSGen Require Import Consts.
Open Scope N_scope.

(* ================================================================== *)
(* Part 1a: list facts                                                  *)
(* ================================================================== *)
Lemma nodup_app_iff {A} (l1 l2 : list A) :
  NoDup (l1 ++ l2) <-> NoDup l1 /\ NoDup l2 /\ (forall x, In x l1 -> ~ In x l2).
Proof.
  induction l1 as [|a l1 IH]; simpl.
  - split; [intros H; repeat split; [constructor|exact H|intros x []]|intros [_ [H _]]; exact H].
  - split.
    + intros H. inversion H as [|? ? Hni Hnd]; subst. apply IH in Hnd. destruct Hnd as [H1 [H2 H3]].
      split; [constructor; [intros Hc; apply Hni; apply in_or_app; left; exact Hc|exact H1]|].
      split; [exact H2|]. intros x [Hx|Hx] Hc.
      * subst x. apply Hni. apply in_or_app; right; exact Hc.
      * exact (H3 x Hx Hc).
    + intros [H1 [H2 H3]]. inversion H1 as [|? ? Hni Hnd]; subst. constructor.
      * intros Hc. apply in_app_or in Hc. destruct Hc as [Hc|Hc]; [exact (Hni Hc)|].
        exact (H3 a (or_introl eq_refl) Hc).
      * apply IH. split; [exact Hnd|split; [exact H2|]]. intros x Hx. apply H3. right; exact Hx.
Qed.

Lemma nodup_map_filter {A B} (f : A -> B) (g : A -> bool) (l : list A) :
  NoDup (map f l) -> NoDup (map f (filter g l)).
Proof.
  induction l as [|a l IH]; simpl; intros H; [constructor|].
  inversion H as [|? ? Hni Hnd]; subst. destruct (g a); simpl; [|exact (IH Hnd)].
  constructor; [|exact (IH Hnd)].
  intros Hc. apply Hni. apply in_map_iff in Hc. destruct Hc as [x [Hx Hin]].
  apply filter_In in Hin. apply in_map_iff. exists x. split; [exact Hx|apply Hin].
Qed.

Lemma nodup_concat_filter {A} (f : list A -> bool) (gs : list (list A)) :
  NoDup (concat gs) -> NoDup (concat (filter f gs)).
Proof.
  induction gs as [|g gs IH]; simpl; intros H; [constructor|].
  apply nodup_app_iff in H. destruct H as [H1 [H2 H3]].
  destruct (f g); simpl; [|exact (IH H2)].
  apply nodup_app_iff. split; [exact H1|split; [exact (IH H2)|]].
  intros x Hx Hc. apply (H3 x Hx). apply in_concat in Hc. destruct Hc as [g' [Hg' Hin]].
  apply filter_In in Hg'. apply in_concat. exists g'. split; [apply Hg'|exact Hin].
Qed.

Lemma in_concat_filter {A} (f : list A -> bool) (gs : list (list A)) x :
  In x (concat (filter f gs)) -> In x (concat gs).
Proof.
  intros H. apply in_concat in H. destruct H as [g [Hg Hin]]. apply filter_In in Hg.
  apply in_concat. exists g. split; [apply Hg|exact Hin].
Qed.

Lemma memN_false x l : memN x l = false <-> ~ In x l.
Proof.
  split.
  - intros H Hc. apply memN_In in Hc. congruence.
  - intros H. destruct (memN x l) eqn:E; [apply memN_In in E; contradiction|reflexivity].
Qed.

(* order-preserving de-duplication *)
Lemma dedupN_aux_In seen l x : In x (dedupN_aux seen l) <-> In x l /\ ~ In x seen.
Proof.
  revert seen. induction l as [|y r IH]; simpl; intros seen; [tauto|].
  destruct (memN y seen) eqn:E.
  - apply memN_In in E. rewrite IH. split; [intros [A Bn]; split; [right; exact A|exact Bn]|].
    intros [[A|A] Bn]; [subst; contradiction|split; assumption].
  - apply memN_false in E. simpl. rewrite IH. split.
    + intros [A|[A Bn]]; [subst; split; [left; reflexivity|exact E]|].
      split; [right; exact A|intros Hc; apply Bn; right; exact Hc].
    + intros [[A|A] Bn]; [left; exact A|].
      destruct (N.eq_dec y x) as [->|Hn]; [left; reflexivity|right].
      split; [exact A|intros [Hc|Hc]; [contradiction|contradiction]].
Qed.

Lemma dedupN_aux_nodup seen l : NoDup (dedupN_aux seen l).
Proof.
  revert seen. induction l as [|y r IH]; simpl; intros seen; [constructor|].
  destruct (memN y seen); [apply IH|]. constructor; [|apply IH].
  intros Hc. apply dedupN_aux_In in Hc. destruct Hc as [_ Hc]. apply Hc. left; reflexivity.
Qed.

Lemma dedupN_In l x : In x (dedupN l) <-> In x l.
Proof. unfold dedupN. rewrite dedupN_aux_In. simpl. tauto. Qed.
Lemma dedupN_nodup l : NoDup (dedupN l).
Proof. apply dedupN_aux_nodup. Qed.

(* ---------- find_row ---------- *)
Lemma find_row_some p rows r : find_row p rows = Some r -> In r rows /\ r_path r = p.
Proof.
  induction rows as [|x t IH]; simpl; [discriminate|].
  destruct (N.eqb p (r_path x)) eqn:E.
  - intros H; inversion H; subst. apply N.eqb_eq in E. split; [left; reflexivity|symmetry; exact E].
  - intros H. destruct (IH H) as [A Bp]. split; [right; exact A|exact Bp].
Qed.

Lemma find_row_none p rows : find_row p rows = None <-> ~ In p (map r_path rows).
Proof.
  induction rows as [|x t IH]; simpl; [tauto|].
  destruct (N.eqb p (r_path x)) eqn:E.
  - apply N.eqb_eq in E. split; [discriminate|intros H; exfalso; apply H; left; symmetry; exact E].
  - apply N.eqb_neq in E. rewrite IH. split; [intros H [Hc|Hc]; [apply E; symmetry; exact Hc|exact (H Hc)]|].
    intros H Hc. apply H. right; exact Hc.
Qed.

Lemma find_row_nodup rows r :
  NoDup (map r_path rows) -> In r rows -> find_row (r_path r) rows = Some r.
Proof.
  induction rows as [|x t IH]; simpl; [contradiction|].
  intros Hnd [H|H].
  - subst x. rewrite N.eqb_refl. reflexivity.
  - inversion Hnd as [|? ? Hni Hnd']; subst.
    destruct (N.eqb (r_path r) (r_path x)) eqn:E.
    + apply N.eqb_eq in E. exfalso. apply Hni. rewrite <- E. apply in_map. exact H.
    + apply IH; assumption.
Qed.

Lemma find_row_in_paths p rows : In p (map r_path rows) -> exists r, find_row p rows = Some r.
Proof.
  intros H. destruct (find_row p rows) as [r|] eqn:E; [exists r; reflexivity|].
  apply find_row_none in E. contradiction.
Qed.

Lemma find_row_app_l p a b : In p (map r_path a) -> find_row p (a ++ b) = find_row p a.
Proof.
  induction a as [|x t IH]; simpl; [contradiction|].
  destruct (N.eqb p (r_path x)) eqn:E; [reflexivity|].
  intros [H|H]; [apply N.eqb_neq in E; exfalso; apply E; symmetry; exact H|exact (IH H)].
Qed.

Lemma find_row_app_r p a b : ~ In p (map r_path a) -> find_row p (a ++ b) = find_row p b.
Proof.
  induction a as [|x t IH]; simpl; [reflexivity|].
  intros H. destruct (N.eqb p (r_path x)) eqn:E.
  - apply N.eqb_eq in E. exfalso. apply H. left; symmetry; exact E.
  - apply IH. intros Hc. apply H. right; exact Hc.
Qed.

Lemma find_row_filter p (f : crow -> bool) rows r :
  NoDup (map r_path rows) -> find_row p rows = Some r -> f r = true ->
  find_row p (filter f rows) = Some r.
Proof.
  intros Hnd Hf Hfr. destruct (find_row_some _ _ _ Hf) as [Hin Hp]. subst p.
  apply find_row_nodup; [apply nodup_map_filter; exact Hnd|].
  apply filter_In. split; assumption.
Qed.

(* ---------- reorder: a permutation of the rows ---------- *)
Lemma reorder_In ord rows r :
  NoDup (map r_path rows) -> (In r (reorder ord rows) <-> In r rows).
Proof.
  intros Hnd. unfold reorder. rewrite in_app_iff, in_flat_map, filter_In. split.
  - intros [[p [Hp Hr]]|[Hr _]]; [|exact Hr].
    destruct (find_row p rows) as [r'|] eqn:E; [|contradiction].
    destruct Hr as [Hr|[]]. subst r'. apply (find_row_some _ _ _ E).
  - intros Hr. destruct (memN (r_path r) ord) eqn:Em.
    + left. exists (r_path r). split; [apply dedupN_In; apply memN_In; exact Em|].
      rewrite (find_row_nodup _ _ Hnd Hr). left; reflexivity.
    + right. split; [exact Hr|reflexivity].
Qed.

Lemma flat_map_find_paths rows (l : list path) :
  map r_path (flat_map (fun p => match find_row p rows with Some r => [r] | None => [] end) l)
  = filter (fun p => match find_row p rows with Some _ => true | None => false end) l.
Proof.
  induction l as [|p t IH]; simpl; [reflexivity|].
  destruct (find_row p rows) as [r|] eqn:E; simpl; [|exact IH].
  destruct (find_row_some _ _ _ E) as [_ Hp]. rewrite Hp, IH. reflexivity.
Qed.

Lemma reorder_nodup ord rows :
  NoDup (map r_path rows) -> NoDup (map r_path (reorder ord rows)).
Proof.
  intros Hnd. unfold reorder. rewrite map_app, flat_map_find_paths. apply nodup_app_iff.
  split; [apply NoDup_filter; apply dedupN_nodup|].
  split; [apply nodup_map_filter; exact Hnd|].
  intros x Hx Hc. apply filter_In in Hx. destruct Hx as [Hx _]. apply (proj1 (dedupN_In _ _)) in Hx.
  apply in_map_iff in Hc. destruct Hc as [r [Hr Hin]]. apply filter_In in Hin.
  destruct Hin as [_ Hm]. apply negb_true_iff in Hm. apply memN_false in Hm. subst x. exact (Hm Hx).
Qed.

Lemma reorder_paths ord rows p :
  NoDup (map r_path rows) -> (In p (map r_path (reorder ord rows)) <-> In p (map r_path rows)).
Proof.
  intros Hnd. rewrite !in_map_iff. split; intros [r [Hp Hr]]; exists r; (split; [exact Hp|]);
    apply (reorder_In ord rows r Hnd); exact Hr.
Qed.

(* ================================================================== *)
(* Part 1b: get_l0_candidates                                           *)
(* ================================================================== *)
(* what a candidate call must satisfy: no chunk twice, every member is a row
   of the requested level *)
Definition sel_ok (lvl : N) (rows : list crow) (gs : list (list path)) : Prop :=
  NoDup (concat gs) /\
  forall g p, In g gs -> In p g -> exists r, In r rows /\ r_path r = p /\ r_level r = lvl.

Lemma ti_push_eq b p ti :
  ti_push b p ti = match ti with
                   | [] => [(b, [p])]
                   | (b', l) :: r => if Z.eqb b b' then (b', l ++ [p]) :: r else (b', l) :: ti_push b p r
                   end.
Proof.
  unfold ti_push. destruct ti as [|[b' l] r]; simpl; [reflexivity|].
  destruct (Z.eqb b b') eqn:E; simpl; [reflexivity|].
  destruct (aget Z.eqb b r); reflexivity.
Qed.

Lemma ti_push_perm b p ti :
  Permutation (concat (map snd (ti_push b p ti))) (p :: concat (map snd ti)).
Proof.
  induction ti as [|[b' l] r IH]; rewrite ti_push_eq; simpl; [apply Permutation_refl|].
  destruct (Z.eqb b b'); simpl.
  - rewrite <- app_assoc. simpl. apply Permutation_sym. apply Permutation_middle.
  - eapply Permutation_trans; [apply Permutation_app_head; exact IH|].
    apply Permutation_sym. apply Permutation_middle.
Qed.

Lemma ti_push_nonempty b p ti :
  (forall g, In g (map snd ti) -> g <> []) -> forall g, In g (map snd (ti_push b p ti)) -> g <> [].
Proof.
  induction ti as [|[b' l] r IH]; rewrite ti_push_eq; simpl.
  - intros _ g [H|[]]; subst; discriminate.
  - intros Hne. destruct (Z.eqb b b'); simpl.
    + intros g [H|H]; [subst; destruct l; discriminate|apply Hne; right; exact H].
    + intros g [H|H]; [apply Hne; left; exact H|].
      apply IH; [intros g' Hg'; apply Hne; right; exact Hg'|exact H].
Qed.

Definition l0_step (w : Z) (acc : tindex) (r : crow) : tindex :=
  if N.eqb (r_level r) 0 then ti_push (bucketw w (r_min r)) (r_path r) acc else acc.

Lemma l0_fold_perm w rows : forall acc,
  Permutation (concat (map snd (fold_left (l0_step w) rows acc)))
              (map r_path (filter (fun r => N.eqb (r_level r) 0) rows) ++ concat (map snd acc)).
Proof.
  induction rows as [|r t IH]; simpl; intros acc; [apply Permutation_refl|].
  eapply Permutation_trans; [apply IH|]. unfold l0_step at 1.
  destruct (N.eqb (r_level r) 0); simpl; [|apply Permutation_refl].
  eapply Permutation_trans; [apply Permutation_app_head; apply ti_push_perm|].
  apply Permutation_sym. apply Permutation_middle.
Qed.

Lemma l0_fold_nonempty w rows : forall acc,
  (forall g, In g (map snd acc) -> g <> []) ->
  forall g, In g (map snd (fold_left (l0_step w) rows acc)) -> g <> [].
Proof.
  induction rows as [|r t IH]; simpl; intros acc Hne; [exact Hne|].
  apply IH. unfold l0_step. destruct (N.eqb (r_level r) 0); [|exact Hne].
  apply ti_push_nonempty. exact Hne.
Qed.

Lemma l0_buckets_eq w rows : l0_buckets w rows = fold_left (l0_step w) rows [].
Proof. reflexivity. Qed.

Lemma l0_groups_ok w thr rows :
  NoDup (map r_path rows) ->
  sel_ok 0 rows (l0_groups w thr rows) /\ forall g, In g (l0_groups w thr rows) -> g <> [].
Proof.
  intros Hnd. unfold l0_groups. rewrite l0_buckets_eq.
  pose proof (l0_fold_perm w rows []) as Hp. simpl in Hp. rewrite app_nil_r in Hp.
  split; [split|].
  - apply nodup_concat_filter. apply (Permutation_NoDup (Permutation_sym Hp)).
    apply nodup_map_filter. exact Hnd.
  - intros g p Hg Hin. apply filter_In in Hg. destruct Hg as [Hg _].
    assert (Hc : In p (concat (map snd (fold_left (l0_step w) rows [])))).
    { apply in_concat. exists g. split; assumption. }
    apply (Permutation_in _ Hp) in Hc. apply in_map_iff in Hc. destruct Hc as [r [Hr Hf]].
    apply filter_In in Hf. destruct Hf as [Hf Hl]. apply N.eqb_eq in Hl.
    exists r. repeat split; assumption.
  - intros g Hg. apply filter_In in Hg. destruct Hg as [Hg _].
    apply (l0_fold_nonempty w rows []); [intros g' []|exact Hg].
Qed.

(* ================================================================== *)
(* Part 1c: get_level_candidates                                        *)
(* ================================================================== *)
Lemma insert_by_min_perm r l : Permutation (insert_by_min r l) (r :: l).
Proof.
  induction l as [|x t IH]; simpl; [apply Permutation_refl|].
  destruct (r_min r <=? r_min x)%Z; [apply Permutation_refl|].
  eapply Permutation_trans; [apply perm_skip; exact IH|apply perm_swap].
Qed.

Lemma sort_by_min_perm l : Permutation (sort_by_min l) l.
Proof.
  induction l as [|x t IH]; simpl; [apply Permutation_refl|].
  eapply Permutation_trans; [apply insert_by_min_perm|apply perm_skip; exact IH].
Qed.

(* the sort really sorts, and is stable (documented; not needed by C20) *)
Fixpoint sorted_by_min (l : list crow) : Prop :=
  match l with
  | [] => True
  | x :: t => (forall y, In y t -> (r_min x <= r_min y)%Z) /\ sorted_by_min t
  end.

Lemma insert_by_min_sorted r l : sorted_by_min l -> sorted_by_min (insert_by_min r l).
Proof.
  induction l as [|x t IH]; simpl; [intros _; split; [intros y []|exact I]|].
  intros [Hx Ht]. destruct (r_min r <=? r_min x)%Z eqn:E.
  - apply Z.leb_le in E. simpl. split; [|split; assumption].
    intros y [Hy|Hy]; [subst; exact E|]. specialize (Hx y Hy). lia.
  - apply Z.leb_gt in E. simpl. split; [|apply IH; exact Ht].
    intros y Hy. apply (Permutation_in _ (insert_by_min_perm r t)) in Hy.
    destruct Hy as [Hy|Hy]; [subst; lia|exact (Hx y Hy)].
Qed.

Lemma sort_by_min_sorted l : sorted_by_min (sort_by_min l).
Proof. induction l as [|x t IH]; simpl; [exact I|apply insert_by_min_sorted; exact IH]. Qed.

Lemma level_rows_In lvl rows r : In r (level_rows lvl rows) <-> In r rows /\ r_level r = lvl.
Proof.
  unfold level_rows. split.
  - intros H. apply (Permutation_in _ (sort_by_min_perm _)) in H. apply filter_In in H.
    destruct H as [A Bl]. apply N.eqb_eq in Bl. split; assumption.
  - intros [A Bl]. apply (Permutation_in _ (Permutation_sym (sort_by_min_perm _))).
    apply filter_In. split; [exact A|apply N.eqb_eq; exact Bl].
Qed.

Lemma level_rows_nodup lvl rows :
  NoDup (map r_path rows) -> NoDup (map r_path (level_rows lvl rows)).
Proof.
  intros Hnd. unfold level_rows.
  apply (Permutation_NoDup (Permutation_map r_path (Permutation_sym (sort_by_min_perm _)))).
  apply nodup_map_filter. exact Hnd.
Qed.

Lemma s3_acc_concat target rows : forall cur size gs,
  s3_acc target cur size rows = Some gs -> concat gs = cur ++ map r_path rows.
Proof.
  induction rows as [|r t IH]; simpl; intros cur size gs H.
  - inversion H; subst. destruct cur; simpl; [reflexivity|rewrite !app_nil_r; reflexivity].
  - destruct (usize_max <? size + r_size r); [discriminate|].
    destruct (target <=? size + r_size r).
    + destruct (s3_acc target [] 0 t) as [gs'|] eqn:E; simpl in H; [|discriminate].
      inversion H; subst. simpl. rewrite (IH _ _ _ E). simpl. rewrite <- app_assoc. reflexivity.
    + rewrite (IH _ _ _ H). rewrite <- app_assoc. reflexivity.
Qed.

Lemma local_acc_concat target rows : forall cur size gs,
  local_acc target cur size rows = Some gs -> exists rest, concat gs ++ rest = cur ++ map r_path rows.
Proof.
  induction rows as [|r t IH]; simpl; intros cur size gs H.
  - inversion H; subst. exists cur. simpl. rewrite app_nil_r. reflexivity.
  - destruct (usize_max <? size + r_size r); [discriminate|].
    destruct (target <=? size + r_size r).
    + destruct (Consts.LOCAL_LEVEL_MIN_GROUP <=? N.of_nat (length (cur ++ [r_path r]))).
      * destruct (local_acc target [] 0 t) as [gs'|] eqn:E; simpl in H; [|discriminate].
        inversion H; subst. destruct (IH _ _ _ E) as [rest Hr]. exists rest. simpl.
        rewrite <- !app_assoc. simpl. f_equal. f_equal. simpl in Hr. exact Hr.
      * destruct (IH _ _ _ H) as [rest Hr]. exists rest. rewrite Hr, <- app_assoc. reflexivity.
    + destruct (IH _ _ _ H) as [rest Hr]. exists rest. rewrite Hr, <- app_assoc. reflexivity.
Qed.

Lemma level_sel_ok lvl rows gs rest :
  NoDup (map r_path rows) -> concat gs ++ rest = map r_path (level_rows lvl rows) -> sel_ok lvl rows gs.
Proof.
  intros Hnd Hc. pose proof (level_rows_nodup lvl rows Hnd) as Hn. rewrite <- Hc in Hn.
  apply nodup_app_iff in Hn. destruct Hn as [Hn _]. split; [exact Hn|].
  intros g p Hg Hp. assert (Hin : In p (map r_path (level_rows lvl rows))).
  { rewrite <- Hc. apply in_or_app; left. apply in_concat. exists g. split; assumption. }
  apply in_map_iff in Hin. destruct Hin as [r [Hr Hin]]. apply level_rows_In in Hin.
  exists r. repeat split; [apply Hin|exact Hr|apply Hin].
Qed.

Lemma s3_level_ok lvl target rows gs :
  NoDup (map r_path rows) -> s3_level lvl target rows = Some gs -> sel_ok lvl rows gs.
Proof.
  intros Hnd H. unfold s3_level in H. apply s3_acc_concat in H. simpl in H.
  apply (level_sel_ok lvl rows gs []); [exact Hnd|rewrite app_nil_r; exact H].
Qed.

Lemma local_level_ok lvl target rows gs :
  NoDup (map r_path rows) -> local_level lvl target rows = Some gs -> sel_ok lvl rows gs.
Proof.
  intros Hnd H. unfold local_level in H. apply local_acc_concat in H. destruct H as [rest H].
  simpl in H. apply (level_sel_ok lvl rows gs rest); assumption.
Qed.

(* the object-store flavour selects every chunk of the level (the in-memory
   flavour may drop the trailing ones) *)
Lemma s3_level_complete lvl target rows gs r :
  s3_level lvl target rows = Some gs -> In r rows -> r_level r = lvl -> In (r_path r) (concat gs).
Proof.
  intros H Hin Hl. unfold s3_level in H. apply s3_acc_concat in H. simpl in H. rewrite H.
  apply in_map. apply level_rows_In. split; assumption.
Qed.

(* ================================================================== *)
(* Part 2a: one merge on the rows of a catalog                          *)
(* ================================================================== *)
Definition lev_rows (rows : list crow) (p : path) : option N := option_map r_level (find_row p rows).

(* register the merged chunk, then complete_compaction: the sources go, the
   target appears with level 1 + max (levels of the sources) *)
Definition merged_rows (rows : list crow) (srcs : list path) (t : path) (m : cmeta) : list crow :=
  filter (fun r => negb (memN (r_path r) srcs)) rows
  ++ [mkRow t (max_level (lev_rows rows) srcs + 1) (m_min m) (m_size m)].

Definition rows_ok (rows : list crow) (n : N) : Prop :=
  NoDup (map r_path rows) /\ forall r, In r rows -> r_path r < n.

Lemma max_level_fold_ext (lv lv' : path -> option N) srcs : forall acc,
  (forall p, In p srcs -> lv p = lv' p) ->
  fold_left (fun acc p => match lv p with Some l => N.max acc l | None => acc end) srcs acc =
  fold_left (fun acc p => match lv' p with Some l => N.max acc l | None => acc end) srcs acc.
Proof.
  induction srcs as [|p t IH]; simpl; intros acc H; [reflexivity|].
  rewrite (H p (or_introl eq_refl)). apply IH. intros q Hq. apply H. right; exact Hq.
Qed.

Lemma max_level_ext lv lv' srcs :
  (forall p, In p srcs -> lv p = lv' p) -> max_level lv srcs = max_level lv' srcs.
Proof. unfold max_level. apply max_level_fold_ext. Qed.

Lemma max_level_fold_const (lv : path -> option N) L srcs : forall acc,
  (forall p, In p srcs -> lv p = Some L) ->
  fold_left (fun acc p => match lv p with Some l => N.max acc l | None => acc end) srcs acc =
  match srcs with [] => acc | _ => N.max acc L end.
Proof.
  induction srcs as [|p t IH]; simpl; intros acc H; [reflexivity|].
  rewrite (H p (or_introl eq_refl)). rewrite IH by (intros q Hq; apply H; right; exact Hq).
  destruct t; [reflexivity|]. rewrite <- N.max_assoc, N.max_id. reflexivity.
Qed.

Lemma max_level_const lv L srcs :
  srcs <> [] -> (forall p, In p srcs -> lv p = Some L) -> max_level lv srcs = L.
Proof.
  intros Hne H. unfold max_level. rewrite (max_level_fold_const lv L srcs 0 H).
  destruct srcs; [contradiction|]. apply N.max_r. apply N.le_0_l.
Qed.

Lemma filter_length_split {A} (f : A -> bool) (l : list A) :
  (length (filter f l) + length (filter (fun x => negb (f x)) l) = length l)%nat.
Proof.
  induction l as [|a l IH]; simpl; [reflexivity|]. destruct (f a); simpl; lia.
Qed.

Lemma count_split rows g :
  NoDup (map r_path rows) -> NoDup g -> (forall p, In p g -> In p (map r_path rows)) ->
  (length (filter (fun r => negb (memN (r_path r) g)) rows) + length g = length rows)%nat.
Proof.
  intros Hnd Hg Hsub.
  pose proof (filter_length_split (fun r => memN (r_path r) g) rows) as Hs.
  assert (Hl : length (filter (fun r => memN (r_path r) g) rows) = length g).
  { rewrite <- (map_length r_path). apply Permutation_length. apply NoDup_Permutation.
    - apply nodup_map_filter. exact Hnd.
    - exact Hg.
    - intros p. rewrite in_map_iff. split.
      + intros [r [Hp Hin]]. apply filter_In in Hin. destruct Hin as [_ Hm]. apply memN_In in Hm.
        subst p. exact Hm.
      + intros Hp. specialize (Hsub p Hp). apply in_map_iff in Hsub. destruct Hsub as [r [Hr Hin]].
        exists r. split; [exact Hr|]. apply filter_In. split; [exact Hin|].
        apply memN_In. rewrite Hr. exact Hp. }
  lia.
Qed.

Lemma filter_filter_comm {A} (f g : A -> bool) (l : list A) :
  filter f (filter g l) = filter g (filter f l).
Proof.
  induction l as [|a l IH]; simpl; [reflexivity|].
  destruct (f a) eqn:Ef, (g a) eqn:Eg; simpl; rewrite ?Ef, ?Eg, IH; reflexivity.
Qed.

Lemma filter_length_le {A} (f : A -> bool) (l : list A) : (length (filter f l) <= length l)%nat.
Proof. induction l as [|a l IH]; simpl; [lia|]. destruct (f a); simpl; lia. Qed.

(* a group whose merge strictly decreases the measure: at least two members,
   or at least one member and all of them at level 0 *)
Definition good_group (g : list path) (rows : list crow) : Prop :=
  (2 <= length g)%nat \/
  (g <> [] /\ forall p, In p g -> exists r, In r rows /\ r_path r = p /\ r_level r = 0).

Lemma measure_merged rows g t m :
  NoDup (map r_path rows) -> NoDup g -> (forall p, In p g -> In p (map r_path rows)) ->
  good_group g rows ->
  (measure_rows (merged_rows rows g t m) + 1 <= measure_rows rows)%nat.
Proof.
  intros Hnd Hg Hsub Hgood. unfold measure_rows, merged_rows.
  rewrite filter_app, !app_length. cbn [filter r_level length].
  replace (N.eqb (max_level (lev_rows rows) g + 1) 0) with false
    by (symmetry; apply N.eqb_neq; lia).
  cbn [length]. pose proof (count_split rows g Hnd Hg Hsub) as Hc.
  rewrite filter_filter_comm.
  set (keep := fun r : crow => negb (memN (r_path r) g)) in *.
  set (l0 := fun r : crow => N.eqb (r_level r) 0) in *.
  destruct Hgood as [H2|[Hne H0]].
  - pose proof (filter_length_le keep (filter l0 rows)). lia.
  - assert (Hc0 : (length (filter keep (filter l0 rows)) + length g = length (filter l0 rows))%nat).
    { apply count_split; [apply nodup_map_filter; exact Hnd|exact Hg|].
      intros p Hp. destruct (H0 p Hp) as [r [Hr [Hpr Hl]]]. apply in_map_iff. exists r.
      split; [exact Hpr|]. apply filter_In. split; [exact Hr|]. unfold l0. apply N.eqb_eq. exact Hl. }
    assert (1 <= length g)%nat by (destruct g; [contradiction|simpl; lia]). lia.
Qed.

(* the events of a cycle that the property talks about *)
Definition ev_ok (ev : list cevent) : Prop :=
  forall e, In e ev ->
    match e with
    | EPending _ => True
    | ESel lvl seen gs => NoDup (map r_path seen) /\ sel_ok (u32_of lvl) seen gs
    | EMerge lvl g t m nl =>
        g <> [] /\ nl = Some (u32_of lvl + 1) /\ exists seen gs, In (ESel lvl seen gs) ev /\ In g gs
    end.

Lemma ev_ok_app a b : ev_ok a -> ev_ok b -> ev_ok (a ++ b).
Proof.
  intros Ha Hb e He. apply in_app_or in He. destruct He as [He|He].
  - specialize (Ha e He). destruct e; try exact Ha.
    destruct Ha as [A1 [A2 [seen [gs [A3 A4]]]]]. split; [exact A1|split; [exact A2|]].
    exists seen, gs. split; [apply in_or_app; left; exact A3|exact A4].
  - specialize (Hb e He). destruct e; try exact Hb.
    destruct Hb as [A1 [A2 [seen [gs [A3 A4]]]]]. split; [exact A1|split; [exact A2|]].
    exists seen, gs. split; [apply in_or_app; right; exact A3|exact A4].
Qed.

Lemma ev_ok_nil : ev_ok [].
Proof. intros e []. Qed.

Lemma merges_of_app a b : merges_of (a ++ b) = (merges_of a + merges_of b)%nat.
Proof. unfold merges_of. rewrite filter_app, app_length. reflexivity. Qed.

Lemma min_group_ge2 : 2 <= Consts.COMPACT_LEVEL_MIN_GROUP.
Proof. vm_compute. discriminate. Qed.

Lemma u32_of_0 : u32_of 0 = 0.
Proof. reflexivity. Qed.

(* ================================================================== *)
(* Part 2b: the cycle over an abstract backend                          *)
(* ================================================================== *)
Section Generic.
  Context {C : Type}.
  Variable B : backend C.
  (* well-formedness of a catalog w.r.t. the fresh-path counter *)
  Variable wf : C -> N -> Prop.
  Hypothesis wf_rows : forall c n, wf c n -> rows_ok (b_rows B c) n.
  Hypothesis merge_ok : forall c t srcs m, wf c t ->
    (forall p, In p srcs -> In p (map r_path (b_rows B c))) ->
    exists c2, b_complete B (b_register B c t m) srcs t = Some c2 /\
               b_rows B c2 = merged_rows (b_rows B c) srcs t m /\ wf c2 (t + 1).
  Hypothesis l0_ok : forall thr rows, NoDup (map r_path rows) ->
    sel_ok 0 rows (b_l0 B thr rows) /\ forall g, In g (b_l0 B thr rows) -> g <> [].
  Hypothesis level_ok : forall lvl tgt rows gs, NoDup (map r_path rows) ->
    b_level B lvl tgt rows = Some gs -> sel_ok lvl rows gs.

  Definition rows_of (st : cstate C) : list crow := b_rows B (st_cat st).
  Definition Inv (st : cstate C) : Prop := wf (st_cat st) (st_fresh st).
  Definition lev (st : cstate C) (p : path) : option N := lev_rows (rows_of st) p.

  (* a later state: every row is an old row (unchanged) or carries a path that
     was still unused *)
  Definition step_rel (st st' : cstate C) : Prop :=
    st_fresh st <= st_fresh st' /\
    forall r, In r (rows_of st') -> In r (rows_of st) \/ st_fresh st <= r_path r.

  Lemma step_rel_refl st : step_rel st st.
  Proof. split; [apply N.le_refl|intros r Hr; left; exact Hr]. Qed.

  Lemma step_rel_trans a b c : step_rel a b -> step_rel b c -> step_rel a c.
  Proof.
    intros [H1 H2] [H3 H4]. split; [lia|]. intros r Hr.
    destruct (H4 r Hr) as [Hb|Hb]; [exact (H2 r Hb)|right; lia].
  Qed.

  Definition gs_live (gs : list (list path)) (rows : list crow) (L : N) : Prop :=
    NoDup (concat gs) /\ (forall g, In g gs -> g <> []) /\
    forall g p, In g gs -> In p g -> exists r, In r rows /\ r_path r = p /\ r_level r = L.

  Definition gs_good (gs : list (list path)) (L : N) : Prop :=
    L = 0 \/ forall g, In g gs -> (2 <= length g)%nat.

  Lemma run_groups_spec oracle lvl L : forall gs st,
    Inv st -> gs_live gs (rows_of st) L -> gs_good gs L ->
    match run_groups B oracle lvl gs st with
    | (st', s, ev) =>
        s = CSOk /\ Inv st' /\ step_rel st st' /\
        (measure B st' + length gs <= measure B st)%nat /\
        merges_of ev = length gs /\
        (gs = [] -> st' = st) /\
        forall e, In e ev -> exists g t m,
            e = EMerge lvl g t m (Some (L + 1)) /\ In g gs /\ st_fresh st <= t
    end.
  Proof.
    induction gs as [|g rest IH]; intros st HI Hlive Hgood.
    - simpl. split; [reflexivity|]. split; [exact HI|]. split; [apply step_rel_refl|].
      split; [lia|]. split; [reflexivity|]. split; [reflexivity|]. intros e [].
    - destruct Hlive as [Hnd [Hne Hmem]]. simpl in Hnd. apply nodup_app_iff in Hnd.
      destruct Hnd as [Hndg [Hndr Hdisj]].
      destruct (wf_rows _ _ HI) as [Hrnd Hrb]. fold (rows_of st) in Hrnd, Hrb.
      assert (Hsub : forall p, In p g -> In p (map r_path (rows_of st))).
      { intros p Hp. destruct (Hmem g p (or_introl eq_refl) Hp) as [r [Hr [Hpr _]]].
        apply in_map_iff. exists r. split; assumption. }
      destruct (merge_ok (st_cat st) (st_fresh st) g (oracle g) HI Hsub) as [c2 [Hc [Hrows Hwf2]]].
      cbn [run_groups]. rewrite Hc.
      set (t := st_fresh st) in *. set (m := oracle g) in *.
      set (st1 := mkSt c2 (t + 1)).
      assert (HI1 : Inv st1) by exact Hwf2.
      assert (Hrows1 : rows_of st1 = merged_rows (rows_of st) g t m) by exact Hrows.
      assert (Hkeep : forall r, In r (rows_of st) -> ~ In (r_path r) g -> In r (rows_of st1)).
      { intros r Hr Hng. rewrite Hrows1. unfold merged_rows. apply in_or_app; left.
        apply filter_In. split; [exact Hr|]. apply negb_true_iff. apply memN_false. exact Hng. }
      assert (Hlive1 : gs_live rest (rows_of st1) L).
      { split; [exact Hndr|split].
        - intros g' Hg'. apply Hne. right; exact Hg'.
        - intros g' p Hg' Hp. destruct (Hmem g' p (or_intror Hg') Hp) as [r [Hr [Hpr Hl]]].
          exists r. split; [|split; assumption]. apply Hkeep; [exact Hr|].
          rewrite Hpr. intros Hc'. apply (Hdisj p Hc'). apply in_concat. exists g'. split; assumption. }
      assert (Hgood1 : gs_good rest L).
      { destruct Hgood as [H0|H2]; [left; exact H0|right; intros g' Hg'; apply H2; right; exact Hg']. }
      specialize (IH st1 HI1 Hlive1 Hgood1).
      destruct (run_groups B oracle lvl rest st1) as [[st' s] ev] eqn:E.
      destruct IH as [Hs [HI' [Hstep [Hmeas [Hmer [_ Hev]]]]]].
      assert (Hlev : forall p, In p g -> lev_rows (rows_of st) p = Some L).
      { intros p Hp. destruct (Hmem g p (or_introl eq_refl) Hp) as [r [Hr [Hpr Hl]]].
        unfold lev_rows. rewrite <- Hpr, (find_row_nodup _ _ Hrnd Hr). simpl. rewrite Hl. reflexivity. }
      assert (Hgne : g <> []) by (apply Hne; left; reflexivity).
      assert (Hnew : level_in B c2 t = Some (L + 1)).
      { unfold level_in. change (b_rows B c2) with (rows_of st1). rewrite Hrows1. unfold merged_rows.
        rewrite find_row_app_r.
        - cbn [find_row r_path]. rewrite N.eqb_refl. cbn [option_map r_level].
          rewrite (max_level_const _ L g Hgne Hlev). reflexivity.
        - intros Hc'. apply in_map_iff in Hc'. destruct Hc' as [r [Hpr Hr]]. apply filter_In in Hr.
          destruct Hr as [Hr _]. specialize (Hrb r Hr). lia. }
      assert (Hstep1 : step_rel st st1).
      { split; [unfold st1; simpl; fold t; lia|]. intros r Hr. rewrite Hrows1 in Hr. unfold merged_rows in Hr.
        apply in_app_or in Hr. destruct Hr as [Hr|[Hr|[]]].
        - left. apply filter_In in Hr. apply Hr.
        - right. subst r. simpl. fold t. lia. }
      split; [exact Hs|]. split; [exact HI'|]. split; [exact (step_rel_trans _ _ _ Hstep1 Hstep)|].
      split.
      { assert (Hm1 : (measure B st1 + 1 <= measure B st)%nat).
        { unfold measure. change (b_rows B (st_cat st1)) with (rows_of st1).
          change (b_rows B (st_cat st)) with (rows_of st). rewrite Hrows1.
          apply measure_merged; [exact Hrnd|exact Hndg|exact Hsub|].
          destruct Hgood as [H0|H2]; [right|left; apply H2; left; reflexivity].
          split; [exact Hgne|]. intros p Hp.
          destruct (Hmem g p (or_introl eq_refl) Hp) as [r [Hr [Hpr Hl]]].
          exists r. split; [exact Hr|split; [exact Hpr|rewrite Hl; exact H0]]. }
        cbn [length]. lia. }
      split; [unfold merges_of in *; cbn [filter is_merge length]; rewrite Hmer; reflexivity|].
      split; [discriminate|].
      intros e [He|He].
      + subst e. exists g, t, m. rewrite Hnew. split; [reflexivity|split; [left; reflexivity|apply N.le_refl]].
      + destruct (Hev e He) as [g' [t' [m' [A1 [A2 A3]]]]]. exists g', t', m'.
        split; [exact A1|split; [right; exact A2|]]. unfold st1 in A3. simpl in A3. lia.
  Qed.

  (* the rows a candidate call of a pass has seen are rows of the state the
     pass started from, or rows of chunks created since *)
  Definition sel_from (st : cstate C) (ev : list cevent) : Prop :=
    forall lvl seen gs, In (ESel lvl seen gs) ev ->
      forall r, In r seen -> In r (rows_of st) \/ st_fresh st <= r_path r.

  (* what every pass (and the whole cycle) guarantees *)
  Definition pass_ok (st : cstate C) (res : cstate C * cstatus * list cevent) : Prop :=
    match res with
    | (st', s, ev) =>
        s <> CSErr /\ Inv st' /\ step_rel st st' /\
        (measure B st' + merges_of ev <= measure B st)%nat /\
        (merges_of ev = O -> st' = st) /\ ev_ok ev /\ sel_from st ev
    end.

  Lemma pass_ok_idle st s : Inv st -> s <> CSErr -> pass_ok st (st, s, []).
  Proof.
    intros HI Hs. split; [exact Hs|]. split; [exact HI|]. split; [apply step_rel_refl|].
    split; [change (merges_of []) with O; rewrite Nat.add_0_r; apply Nat.le_refl|].
    split; [reflexivity|]. split; [apply ev_ok_nil|intros lvl seen gs []].
  Qed.

  Lemma pass_ok_trans st st1 s1 ev1 st2 s2 ev2 :
    pass_ok st (st1, s1, ev1) -> pass_ok st1 (st2, s2, ev2) -> pass_ok st (st2, s2, ev1 ++ ev2).
  Proof.
    intros [_ [_ [A3 [A4 [A5 [A6 A7]]]]]] [B1 [B2 [B3 [B4 [B5 [B6 B7]]]]]].
    split; [exact B1|split; [exact B2|split; [exact (step_rel_trans _ _ _ A3 B3)|]]].
    rewrite merges_of_app. split; [lia|split; [|split; [apply ev_ok_app; assumption|]]].
    - intros H0. assert (merges_of ev1 = O) by lia. assert (merges_of ev2 = O) by lia.
      rewrite (B5 ltac:(assumption)). apply A5. assumption.
    - intros lvl seen gs He r Hr. apply in_app_or in He. destruct He as [He|He].
      + exact (A7 lvl seen gs He r Hr).
      + destruct (B7 lvl seen gs He r Hr) as [H|H].
        * destruct A3 as [_ A3]. exact (A3 r H).
        * right. destruct A3 as [A3 _]. lia.
  Qed.

  Lemma cap_groups_cases gs : cap_groups gs = gs \/ cap_groups gs = [].
  Proof. unfold cap_groups. destruct has_capacity; [left|right]; reflexivity. Qed.

  Lemma gs_live_cap gs rows L : gs_live gs rows L -> gs_live (cap_groups gs) rows L.
  Proof.
    intros H. destruct (cap_groups_cases gs) as [->| ->]; [exact H|].
    split; [constructor|split; [intros g []|intros g p []]].
  Qed.

  Lemma gs_good_cap gs L : gs_good gs L -> gs_good (cap_groups gs) L.
  Proof.
    intros H. destruct (cap_groups_cases gs) as [->| ->]; [exact H|].
    destruct H as [H|H]; [left; exact H|right; intros g []].
  Qed.

  Lemma in_cap_groups g gs : In g (cap_groups gs) -> In g gs.
  Proof. destruct (cap_groups_cases gs) as [->| ->]; [tauto|intros []]. Qed.

  (* shared tail of the two passes: selection done, groups [todo] (a part of
     [gs]) are compacted *)
  Lemma pass_after_selection oracle lvl rows gs todo st :
    Inv st ->
    NoDup (map r_path rows) -> (forall r, In r rows -> In r (rows_of st)) ->
    sel_ok (u32_of lvl) rows gs ->
    gs_live todo rows (u32_of lvl) -> gs_good todo (u32_of lvl) ->
    (forall g, In g todo -> In g gs) ->
    match run_groups B oracle lvl (cap_groups todo) st with
    | (st', s, ev) => pass_ok st (st', s, ESel lvl rows gs :: ev)
    end.
  Proof.
    intros HI Hnd Hsubrows Hsel Hlive Hgood Hsubgs.
    assert (Hlive' : gs_live (cap_groups todo) (rows_of st) (u32_of lvl)).
    { apply gs_live_cap. destruct Hlive as [A1 [A2 A3]]. split; [exact A1|split; [exact A2|]].
      intros g p Hg Hp. destruct (A3 g p Hg Hp) as [r [Hr Hrest]]. exists r. split; [apply Hsubrows; exact Hr|exact Hrest]. }
    pose proof (run_groups_spec oracle lvl (u32_of lvl) (cap_groups todo) st HI Hlive' (gs_good_cap _ _ Hgood)) as Hspec.
    destruct (run_groups B oracle lvl (cap_groups todo) st) as [[st' s] ev].
    destruct Hspec as [Hs [HI' [Hstep [Hmeas [Hmer [Hnil Hev]]]]]].
    assert (Hmo : merges_of (ESel lvl rows gs :: ev) = merges_of ev) by reflexivity.
    split; [rewrite Hs; discriminate|]. split; [exact HI'|]. split; [exact Hstep|].
    rewrite Hmo. split; [lia|]. split; [|split].
    - intros H0. apply Hnil. rewrite Hmer in H0. destruct (cap_groups todo); [reflexivity|discriminate].
    - intros e [He|He].
      + subst e. split; assumption.
      + destruct (Hev e He) as [g [t [m [A1 [A2 A3]]]]]. subst e.
        destruct Hlive as [_ [Hne _]]. apply in_cap_groups in A2.
        split; [apply Hne; exact A2|]. split; [reflexivity|].
        exists rows, gs. split; [left; reflexivity|apply Hsubgs; exact A2].
    - intros lvl' seen' gs' [He|He] r Hr.
      + inversion He; subst. left. apply Hsubrows. exact Hr.
      + destruct (Hev _ He) as [g [t [m [A1 _]]]]. discriminate.
  Qed.

  Lemma l0_pass_ok cf oracle ord st : Inv st -> pass_ok st (l0_pass B cf oracle ord st).
  Proof.
    intros HI. unfold l0_pass. destruct (wf_rows _ _ HI) as [Hrnd _]. fold (rows_of st) in *.
    set (rows := reorder ord (rows_of st)).
    assert (Hnd : NoDup (map r_path rows)) by (apply reorder_nodup; exact Hrnd).
    destruct (l0_ok (cf_threshold cf) rows Hnd) as [Hsel Hne].
    set (gs := b_l0 B (cf_threshold cf) rows) in *.
    assert (Hsub : forall r, In r rows -> In r (rows_of st)).
    { intros r Hr. apply (reorder_In ord _ r Hrnd). exact Hr. }
    pose proof (pass_after_selection oracle 0 rows gs gs st HI Hnd Hsub) as H.
    rewrite u32_of_0 in H. specialize (H Hsel).
    assert (Hlive : gs_live gs rows 0).
    { destruct Hsel as [A1 A2]. split; [exact A1|split; [exact Hne|exact A2]]. }
    specialize (H Hlive (or_introl eq_refl) (fun g Hg => Hg)).
    destruct (run_groups B oracle 0 (cap_groups gs) st) as [[st' s] ev]. exact H.
  Qed.

  Lemma level_pass_ok cf oracle lvl ord st : Inv st -> pass_ok st (level_pass B cf oracle lvl ord st).
  Proof.
    intros HI. unfold level_pass.
    destruct (target_size cf lvl) as [tgt|]; [|apply pass_ok_idle; [exact HI|discriminate]].
    destruct (wf_rows _ _ HI) as [Hrnd _]. fold (rows_of st) in *.
    set (rows := reorder ord (rows_of st)).
    assert (Hnd : NoDup (map r_path rows)) by (apply reorder_nodup; exact Hrnd).
    destruct (b_level B (u32_of lvl) tgt rows) as [gs|] eqn:Eg; [|apply pass_ok_idle; [exact HI|discriminate]].
    pose proof (level_ok _ _ _ _ Hnd Eg) as Hsel.
    assert (Hsub : forall r, In r rows -> In r (rows_of st)).
    { intros r Hr. apply (reorder_In ord _ r Hrnd). exact Hr. }
    set (todo := filter (fun g => Consts.COMPACT_LEVEL_MIN_GROUP <=? N.of_nat (length g)) gs).
    assert (Hlen : forall g, In g todo -> (2 <= length g)%nat).
    { intros g Hg. apply filter_In in Hg. destruct Hg as [_ Hg]. apply N.leb_le in Hg.
      pose proof min_group_ge2. lia. }
    assert (Hlive : gs_live todo rows (u32_of lvl)).
    { destruct Hsel as [A1 A2]. split; [apply nodup_concat_filter; exact A1|split].
      - intros g Hg. specialize (Hlen g Hg). destruct g; [simpl in Hlen; lia|discriminate].
      - intros g p Hg Hp. apply filter_In in Hg. apply (A2 g p); [apply Hg|exact Hp]. }
    pose proof (pass_after_selection oracle lvl rows gs todo st HI Hnd Hsub Hsel Hlive (or_intror Hlen)) as H.
    assert (Hin : forall g, In g todo -> In g gs) by (intros g Hg; apply filter_In in Hg; apply Hg).
    specialize (H Hin).
    destruct (run_groups B oracle lvl (cap_groups todo) st) as [[st' s] ev]. exact H.
  Qed.

  Lemma levels_loop_ok cf oracle lvls : forall ords st,
    Inv st -> pass_ok st (levels_loop B cf oracle lvls ords st).
  Proof.
    induction lvls as [|l r IH]; intros ords st HI; cbn [levels_loop].
    - apply pass_ok_idle; [exact HI|discriminate].
    - destruct has_capacity; [|apply pass_ok_idle; [exact HI|discriminate]].
      pose proof (level_pass_ok cf oracle l (hd [] ords) st HI) as H1.
      destruct (level_pass B cf oracle l (hd [] ords) st) as [[st1 s1] ev1].
      destruct s1; try exact H1.
      assert (HI1 : Inv st1) by apply H1.
      specialize (IH (tl ords) st1 HI1).
      destruct (levels_loop B cf oracle r (tl ords) st1) as [[st2 s2] ev2].
      exact (pass_ok_trans _ _ _ _ _ _ _ H1 IH).
  Qed.

  Lemma pass_ok_pending st st' s ev n : pass_ok st (st', s, ev) -> pass_ok st (st', s, EPending n :: ev).
  Proof.
    intros [A1 [A2 [A3 [A4 [A5 [A6 A7]]]]]].
    split; [exact A1|split; [exact A2|split; [exact A3|]]].
    change (merges_of (EPending n :: ev)) with (merges_of ev).
    split; [exact A4|split; [exact A5|split]].
    - change (EPending n :: ev) with ([EPending n] ++ ev). apply ev_ok_app; [|exact A6].
      intros e [He|[]]. subst e. exact I.
    - intros lvl seen gs [He|He]; [discriminate|]. exact (A7 lvl seen gs He).
  Qed.

  Theorem cycle_ok i st : Inv st -> pass_ok st (cycle B i st).
  Proof.
    intros HI. unfold cycle.
    pose proof (l0_pass_ok (in_cfg i) (in_oracle i) (hd [] (in_ords i)) st HI) as H1.
    destruct (l0_pass B (in_cfg i) (in_oracle i) (hd [] (in_ords i)) st) as [[st1 s1] ev1].
    destruct s1; try (apply pass_ok_pending; exact H1).
    assert (HI1 : Inv st1) by apply H1.
    pose proof (levels_loop_ok (in_cfg i) (in_oracle i) (levels_upto (cf_max_levels (in_cfg i)))
                               (tl (in_ords i)) st1 HI1) as H2.
    destruct (levels_loop B (in_cfg i) (in_oracle i) (levels_upto (cf_max_levels (in_cfg i)))
                          (tl (in_ords i)) st1) as [[st2 s2] ev2].
    apply pass_ok_pending. exact (pass_ok_trans _ _ _ _ _ _ _ H1 H2).
  Qed.

  Lemma cycle_facts i st : Inv st ->
    Inv (cycle_state B i st) /\ step_rel st (cycle_state B i st) /\ (measure B (cycle_state B i st) + merges_of (cycle_events B i st) <= measure B st)%nat /\ (merges_of (cycle_events B i st) = O -> cycle_state B i st = st) /\ ev_ok (cycle_events B i st) /\ sel_from st (cycle_events B i st).
  Proof.
    intros HI. pose proof (cycle_ok i st HI) as H. unfold cycle_state, cycle_events.
    destruct (cycle B i st) as [[st' s] ev]. simpl. destruct H as [_ H]. exact H.
  Qed.

  Lemma run_cycles_app h1 h2 st : run_cycles B (h1 ++ h2) st = run_cycles B h2 (run_cycles B h1 st).
  Proof. unfold run_cycles. apply fold_left_app. Qed.

  Lemma run_cycles_facts h : forall st, Inv st ->
    Inv (run_cycles B h st) /\ step_rel st (run_cycles B h st).
  Proof.
    induction h as [|i r IH]; intros st HI; simpl.
    - split; [exact HI|apply step_rel_refl].
    - destruct (cycle_facts i st HI) as [HI1 [Hs1 _]]. destruct (IH _ HI1) as [HI2 Hs2].
      split; [exact HI2|exact (step_rel_trans _ _ _ Hs1 Hs2)].
  Qed.

  (* ---- groups of one candidate call are disjoint and single-level ---- *)
  Theorem groups_disjoint_single_level i st lvl seen gs :
    Inv st -> In (ESel lvl seen gs) (cycle_events B i st) ->
    NoDup (concat gs) /\
    (forall g p, In g gs -> In p g -> exists r, In r seen /\ r_path r = p /\ r_level r = u32_of lvl) /\
    NoDup (map r_path seen) /\
    (forall r, In r seen -> In r (rows_of st) \/ st_fresh st <= r_path r).
  Proof.
    intros HI He. destruct (cycle_facts i st HI) as [_ [_ [_ [_ [Hev Hfrom]]]]].
    destruct (Hev _ He) as [Hnd [H1 H2]]. split; [exact H1|split; [exact H2|split; [exact Hnd|]]].
    exact (Hfrom lvl seen gs He).
  Qed.

  (* ---- every merge takes one of the selected groups and lifts it one level ---- *)
  Theorem merge_level_rule i st lvl g t m nl :
    Inv st -> In (EMerge lvl g t m nl) (cycle_events B i st) ->
    g <> [] /\ nl = Some (u32_of lvl + 1) /\ exists seen gs, In (ESel lvl seen gs) (cycle_events B i st) /\ In g gs /\ forall p, In p g -> exists r, In r seen /\ r_path r = p /\ r_level r = u32_of lvl.
  Proof.
    intros HI He. destruct (cycle_facts i st HI) as [_ [_ [_ [_ [Hev _]]]]].
    destruct (Hev _ He) as [Hne [Hnl [seen [gs [Hs Hg]]]]].
    split; [exact Hne|split; [exact Hnl|]]. exists seen, gs. split; [exact Hs|split; [exact Hg|]].
    destruct (Hev _ Hs) as [_ [_ Hmem]]. intros p Hp. exact (Hmem g p Hg Hp).
  Qed.

  (* ---- a path keeps its level while it is live, and never comes back ---- *)
  Lemma lev_stable_step s s' p a b :
    Inv s -> step_rel s s' -> Inv s' -> lev s p = Some a -> lev s' p = Some b -> a = b.
  Proof.
    intros HI [_ Hst] HI' Ha Hb. unfold lev, lev_rows in *.
    destruct (find_row p (rows_of s)) as [r|] eqn:E; [|discriminate].
    destruct (find_row p (rows_of s')) as [r'|] eqn:E'; [|discriminate].
    simpl in Ha, Hb. inversion Ha; inversion Hb; subst.
    destruct (wf_rows _ _ HI) as [Hnd Hb1]. fold (rows_of s) in *.
    destruct (find_row_some _ _ _ E) as [Hin Hp]. destruct (find_row_some _ _ _ E') as [Hin' Hp'].
    destruct (Hst r' Hin') as [Hold|Hnew].
    - pose proof (find_row_nodup _ _ Hnd Hold) as Hf. rewrite Hp', E in Hf. inversion Hf; subst. reflexivity.
    - specialize (Hb1 r Hin). rewrite Hp' in Hnew. rewrite Hp in Hb1. lia.
  Qed.

  Lemma lev_gone_step s s' p :
    Inv s -> step_rel s s' -> p < st_fresh s -> lev s p = None -> lev s' p = None.
  Proof.
    intros HI [_ Hst] Hlt Hn. unfold lev, lev_rows in *.
    destruct (find_row p (rows_of s')) as [r'|] eqn:E'; [|reflexivity]. exfalso.
    destruct (find_row_some _ _ _ E') as [Hin' Hp'].
    destruct (Hst r' Hin') as [Hold|Hnew]; [|rewrite Hp' in Hnew; lia].
    destruct (find_row p (rows_of s)) as [r|] eqn:E; [discriminate|].
    apply find_row_none in E. apply E. rewrite <- Hp'. apply in_map. exact Hold.
  Qed.

  Lemma lev_bound s p a : Inv s -> lev s p = Some a -> p < st_fresh s.
  Proof.
    intros HI Ha. unfold lev, lev_rows in Ha.
    destruct (find_row p (rows_of s)) as [r|] eqn:E; [|discriminate].
    destruct (find_row_some _ _ _ E) as [Hin Hp]. destruct (wf_rows _ _ HI) as [_ Hb].
    rewrite <- Hp. apply Hb. exact Hin.
  Qed.

  Theorem level_monotone h1 h2 st p a b :
    Inv st -> lev (run_cycles B h1 st) p = Some a -> lev (run_cycles B (h1 ++ h2) st) p = Some b ->
    a = b.
  Proof.
    intros HI Ha Hb. rewrite run_cycles_app in Hb.
    destruct (run_cycles_facts h1 st HI) as [HI1 _].
    destruct (run_cycles_facts h2 _ HI1) as [HI2 Hs2].
    exact (lev_stable_step _ _ p a b HI1 Hs2 HI2 Ha Hb).
  Qed.

  Theorem no_resurrection h1 h2 h3 st p a :
    Inv st -> lev (run_cycles B h1 st) p = Some a -> lev (run_cycles B (h1 ++ h2) st) p = None ->
    lev (run_cycles B (h1 ++ h2 ++ h3) st) p = None.
  Proof.
    intros HI Ha Hn. rewrite app_assoc, run_cycles_app.
    destruct (run_cycles_facts h1 st HI) as [HI1 _].
    pose proof (lev_bound _ _ _ HI1 Ha) as Hlt.
    rewrite run_cycles_app in Hn |- *.
    destruct (run_cycles_facts h2 _ HI1) as [HI2 [Hf2 _]].
    destruct (run_cycles_facts h3 _ HI2) as [_ Hs3].
    apply (lev_gone_step _ _ p HI2 Hs3); [lia|exact Hn].
  Qed.

  (* ---- convergence ---- *)
  Theorem noop_cycle i st :
    Inv st -> merges_of (cycle_events B i st) = O -> cycle_state B i st = st.
  Proof. intros HI. apply (cycle_facts i st HI). Qed.

  Theorem merging_cycle_decreases i st :
    Inv st -> merges_of (cycle_events B i st) <> O ->
    (measure B (cycle_state B i st) < measure B st)%nat.
  Proof. intros HI Hm. destruct (cycle_facts i st HI) as [_ [_ [H _]]]. lia. Qed.

  Theorem merges_bounded h : forall st,
    Inv st -> (total_merges B h st + measure B (run_cycles B h st) <= measure B st)%nat.
  Proof.
    induction h as [|i r IH]; intros st HI; simpl; [lia|].
    destruct (cycle_facts i st HI) as [HI1 [_ [Hm _]]]. specialize (IH _ HI1).
    change (fold_left (fun s i0 => cycle_state B i0 s) r (cycle_state B i st))
      with (run_cycles B r (cycle_state B i st)). lia.
  Qed.

  Theorem converges h : forall st,
    Inv st -> (measure B st < length h)%nat ->
    exists n, (n <= measure B st)%nat /\ (n < length h)%nat /\ run_cycles B (firstn (S n) h) st = run_cycles B (firstn n h) st.
  Proof.
    induction h as [|i r IH]; intros st HI Hlen; [simpl in Hlen; lia|].
    destruct (Nat.eq_dec (merges_of (cycle_events B i st)) O) as [H0|Hn0].
    - exists O. split; [lia|split; [simpl; lia|]]. simpl. apply noop_cycle; assumption.
    - pose proof (merging_cycle_decreases i st HI Hn0) as Hdec.
      destruct (cycle_facts i st HI) as [HI1 _].
      destruct (IH (cycle_state B i st) HI1) as [n [Hn1 [Hn2 Hn3]]]; [simpl in Hlen; lia|].
      exists (S n). split; [lia|split; [simpl; lia|]].
      change (firstn (S (S n)) (i :: r)) with (i :: firstn (S n) r).
      change (firstn (S n) (i :: r)) with (i :: firstn n r). exact Hn3.
  Qed.

  (* with one fixed input (fixed configuration, fixed hash order policy and
     oracle) a cycle is a function: once it changes nothing it never will *)
  Theorem fixpoint_forever i st n :
    cycle_state B i (run_cycles B (repeat i n) st) = run_cycles B (repeat i n) st ->
    forall k, run_cycles B (repeat i (n + k)) st = run_cycles B (repeat i n) st.
  Proof.
    intros Hfix k. rewrite repeat_app, run_cycles_app.
    set (s := run_cycles B (repeat i n) st) in *.
    induction k as [|k IHk]; simpl; [reflexivity|]. rewrite Hfix. exact IHk.
  Qed.

  Theorem converges_fixed i st :
    Inv st -> exists n, (n <= measure B st)%nat /\ forall k, run_cycles B (repeat i (n + k)) st = run_cycles B (repeat i n) st.
  Proof.
    intros HI. destruct (converges (repeat i (S (measure B st))) st HI) as [n [Hn1 [Hn2 Hn3]]].
    { rewrite repeat_length. lia. }
    exists n. split; [exact Hn1|]. apply fixpoint_forever.
    rewrite repeat_length in Hn2.
    assert (Hf : forall a b, (a <= b)%nat -> firstn a (repeat i b) = repeat i a).
    { induction a as [|a IHa]; intros b Hab; [reflexivity|]. destruct b; [lia|]. simpl. f_equal. apply IHa. lia. }
    rewrite !Hf in Hn3 by lia.
    replace (S n) with (n + 1)%nat in Hn3 by lia. rewrite repeat_app, run_cycles_app in Hn3. exact Hn3.
  Qed.
End Generic.

(* ================================================================== *)
(* Part 3a: association-list facts used by both backends                *)
(* ================================================================== *)
Section AListMore.
  Context {V : Type}.

  Lemma aset_absent k (v : V) l : ~ In k (map fst l) -> aset N.eqb k v l = l ++ [(k, v)].
  Proof.
    induction l as [|[k' v'] r IH]; simpl; intros H; [reflexivity|].
    destruct (N.eqb k k') eqn:E.
    - apply N.eqb_eq in E. exfalso. apply H. left; symmetry; exact E.
    - rewrite IH; [reflexivity|]. intros Hc. apply H. right; exact Hc.
  Qed.

  Lemma aset_app_last k (v v0 : V) l :
    ~ In k (map fst l) -> aset N.eqb k v (l ++ [(k, v0)]) = l ++ [(k, v)].
  Proof.
    induction l as [|[k' v'] r IH]; simpl; intros H; [rewrite N.eqb_refl; reflexivity|].
    destruct (N.eqb k k') eqn:E.
    - apply N.eqb_eq in E. exfalso. apply H. left; symmetry; exact E.
    - rewrite IH; [reflexivity|]. intros Hc. apply H. right; exact Hc.
  Qed.

  Lemma aget_app_l k (l1 l2 : list (N * V)) :
    In k (map fst l1) -> aget N.eqb k (l1 ++ l2) = aget N.eqb k l1.
  Proof.
    induction l1 as [|[k' v'] r IH]; simpl; [contradiction|].
    destruct (N.eqb k k') eqn:E; [reflexivity|].
    intros [H|H]; [apply N.eqb_neq in E; exfalso; apply E; symmetry; exact H|exact (IH H)].
  Qed.

  Lemma aget_app_r k (l1 l2 : list (N * V)) :
    ~ In k (map fst l1) -> aget N.eqb k (l1 ++ l2) = aget N.eqb k l2.
  Proof.
    induction l1 as [|[k' v'] r IH]; simpl; [reflexivity|]. intros H.
    destruct (N.eqb k k') eqn:E.
    - apply N.eqb_eq in E. exfalso. apply H. left; symmetry; exact E.
    - apply IH. intros Hc. apply H. right; exact Hc.
  Qed.

  Definition keep_not (srcs : list path) (kv : N * V) : bool := negb (memN (fst kv) srcs).

  Lemma keep_not_true srcs k (v : V) : ~ In k srcs -> keep_not srcs (k, v) = true.
  Proof. intros H. unfold keep_not. simpl. apply negb_true_iff. apply memN_false. exact H. Qed.

  Lemma adel_filter k (l : list (N * V)) :
    adel N.eqb k l = filter (fun kv => negb (N.eqb (fst kv) k)) l.
  Proof.
    induction l as [|[k' v'] r IH]; simpl; [reflexivity|].
    rewrite (N.eqb_sym k' k). destruct (N.eqb k k'); simpl; rewrite IH; reflexivity.
  Qed.

  Lemma fold_adel_filter srcs : forall (l : list (N * V)),
    fold_left (fun l p => adel N.eqb p l) srcs l = filter (keep_not srcs) l.
  Proof.
    induction srcs as [|p t IH]; simpl; intros l.
    - symmetry. induction l as [|a l IHl]; [reflexivity|]. cbn [filter]. unfold keep_not at 1.
      cbn [memN negb]. f_equal. exact IHl.
    - rewrite IH, adel_filter. clear IH. induction l as [|[k v] l IHl]; simpl; [reflexivity|].
      unfold keep_not at 2. simpl. destruct (N.eqb k p); simpl; [exact IHl|].
      unfold keep_not at 1. simpl. destruct (memN k t); simpl; rewrite IHl; reflexivity.
  Qed.

  Lemma filter_keys_in srcs (l : list (N * V)) k :
    In k (map fst (filter (keep_not srcs) l)) <-> In k (map fst l) /\ ~ In k srcs.
  Proof.
    rewrite !in_map_iff. split.
    - intros [kv [Hk Hin]]. apply filter_In in Hin. destruct Hin as [Hin Hm].
      unfold keep_not in Hm. apply negb_true_iff in Hm. apply memN_false in Hm. subst k.
      split; [exists kv; split; [reflexivity|exact Hin]|exact Hm].
    - intros [[kv [Hk Hin]] Hn]. exists kv. split; [exact Hk|]. apply filter_In. split; [exact Hin|].
      unfold keep_not. apply negb_true_iff. apply memN_false. rewrite Hk. exact Hn.
  Qed.

  Lemma aget_filter_keep srcs (l : list (N * V)) k :
    ~ In k srcs -> aget N.eqb k (filter (keep_not srcs) l) = aget N.eqb k l.
  Proof.
    intros Hn. induction l as [|[k' v'] r IH]; simpl; [reflexivity|].
    unfold keep_not at 1. simpl. destruct (memN k' srcs) eqn:Em; simpl.
    - destruct (N.eqb k k') eqn:E; [|exact IH].
      apply N.eqb_eq in E. subst k'. apply memN_In in Em. contradiction.
    - destruct (N.eqb k k'); [reflexivity|exact IH].
  Qed.

  Lemma adel_absent k (l : list (N * V)) : aget N.eqb k l = None -> adel N.eqb k l = l.
  Proof.
    induction l as [|[k' v'] r IH]; simpl; [reflexivity|].
    destruct (N.eqb k k'); [discriminate|]. intros H. rewrite (IH H). reflexivity.
  Qed.

  Lemma aget_none_keys k (l : list (N * V)) : ~ In k (map fst l) -> aget N.eqb k l = None.
  Proof.
    induction l as [|[k' v'] r IH]; simpl; [reflexivity|]. intros H.
    destruct (N.eqb k k') eqn:E.
    - apply N.eqb_eq in E. exfalso. apply H. left; symmetry; exact E.
    - apply IH. intros Hc. apply H. right; exact Hc.
  Qed.

  Lemma aget_none_not_in k (l : list (N * V)) : aget N.eqb k l = None -> ~ In k (map fst l).
  Proof.
    induction l as [|[k' v'] r IH]; simpl; [intros _ []|].
    destruct (N.eqb k k') eqn:E; [discriminate|]. intros H [Hc|Hc].
    - apply N.eqb_neq in E. apply E. symmetry. exact Hc.
    - exact (IH H Hc).
  Qed.

  Lemma nodup_filter_keys srcs (l : list (N * V)) :
    NoDup (map fst l) -> NoDup (map fst (filter (keep_not srcs) l)).
  Proof. apply nodup_map_filter. Qed.
End AListMore.

Lemma next_free_bound keys : forall acc p,
  (In p keys -> p < fold_left (fun a q => N.max a (q + 1)) keys acc) /\
  acc <= fold_left (fun a q => N.max a (q + 1)) keys acc.
Proof.
  induction keys as [|k t IH]; simpl; intros acc p; [split; [intros []|apply N.le_refl]|].
  destruct (IH (N.max acc (k + 1)) p) as [H1 H2]. split; [|lia].
  intros [H|H]; [subst k; lia|exact (H1 H)].
Qed.

Lemma next_free_lt keys p : In p keys -> p < next_free keys.
Proof. unfold next_free. apply next_free_bound. Qed.

(* ================================================================== *)
(* Part 3b: the object-store backend                                    *)
(* ================================================================== *)
Definition s3_wf (c : cat) (n : N) : Prop :=
  NoDup (map fst (c_chunks c)) /\ forall p, In p (map fst (c_chunks c)) -> p < n.

Definition s3_row (pe : path * centry) : crow :=
  mkRow (fst pe) (e_level (snd pe)) (m_min (e_meta (snd pe))) (m_size (e_meta (snd pe))).

Lemma s3_rows_eq c : s3_rows c = map s3_row (c_chunks c).
Proof. reflexivity. Qed.

Lemma s3_rows_paths c : map r_path (s3_rows c) = map fst (c_chunks c).
Proof. rewrite s3_rows_eq, map_map. apply map_ext. intros [p e]; reflexivity. Qed.

Lemma s3_find_row l p : find_row p (map s3_row l) = option_map (fun e => s3_row (p, e)) (aget N.eqb p l).
Proof.
  induction l as [|[k e] r IH]; simpl; [reflexivity|].
  destruct (N.eqb p k) eqn:E; [apply N.eqb_eq in E; subst; reflexivity|exact IH].
Qed.

Lemma s3_lev_rows c p : lev_rows (s3_rows c) p = option_map e_level (aget N.eqb p (c_chunks c)).
Proof.
  unfold lev_rows. rewrite s3_rows_eq, s3_find_row. destruct (aget N.eqb p (c_chunks c)); reflexivity.
Qed.

Lemma s3_wf_rows c n : s3_wf c n -> rows_ok (s3_rows c) n.
Proof.
  intros [Hnd Hb]. split; [rewrite s3_rows_paths; exact Hnd|].
  intros r Hr. apply Hb. rewrite <- s3_rows_paths. apply in_map. exact Hr.
Qed.

Lemma s3_fold_del1_chunks srcs : forall c,
  c_chunks (fold_left s3_del1 srcs c) = fold_left (fun l p => adel N.eqb p l) srcs (c_chunks c).
Proof. induction srcs as [|p t IH]; simpl; intros c; [reflexivity|]. rewrite IH. reflexivity. Qed.

Lemma filter_map_rows srcs (l : list (path * centry)) :
  map s3_row (filter (keep_not srcs) l) = filter (fun r => negb (memN (r_path r) srcs)) (map s3_row l).
Proof.
  induction l as [|[k e] r IH]; simpl; [reflexivity|].
  unfold keep_not at 1. simpl. destruct (memN k srcs); simpl; rewrite IH; reflexivity.
Qed.

Lemma s3_merge_ok c t srcs m :
  s3_wf c t -> (forall p, In p srcs -> In p (map r_path (s3_rows c))) ->
  exists c2, s3_complete (s3_register c t m) srcs t = Some c2 /\
             s3_rows c2 = merged_rows (s3_rows c) srcs t m /\ s3_wf c2 (t + 1).
Proof.
  intros [Hnd Hb] Hsub. rewrite s3_rows_paths in Hsub.
  assert (Ht : ~ In t (map fst (c_chunks c))) by (intros Hc; specialize (Hb t Hc); lia).
  assert (Hts : ~ In t srcs) by (intros Hc; apply Ht; apply Hsub; exact Hc).
  rewrite s3_complete_eq. cbv zeta.
  rewrite s3_fold_del1_chunks, fold_adel_filter.
  assert (Hreg : c_chunks (s3_register c t m) = c_chunks c ++ [(t, mkEntry m 0)]).
  { unfold s3_register. cbn [c_chunks]. apply aset_absent. exact Ht. }
  rewrite Hreg, filter_app. cbn [filter]. rewrite (keep_not_true srcs t _ Hts).
  assert (Htf : ~ In t (map fst (filter (keep_not srcs) (c_chunks c)))).
  { intros Hc. apply filter_keys_in in Hc. apply Ht. apply Hc. }
  rewrite (aget_app_r _ _ _ Htf). cbn [aget]. rewrite N.eqb_refl.
  eexists. split; [reflexivity|]. split.
  - unfold s3_rows. cbn [c_chunks e_meta]. fold s3_row. rewrite (aset_app_last _ _ _ _ Htf).
    rewrite map_app. cbn [map]. unfold merged_rows. rewrite <- s3_rows_eq.
    f_equal; [rewrite s3_rows_eq; apply filter_map_rows|].
    unfold s3_row. cbn [fst snd e_level e_meta]. f_equal. f_equal. f_equal.
    apply max_level_ext. intros p Hp. rewrite s3_lev_rows.
    rewrite aget_app_l by (apply Hsub; exact Hp). reflexivity.
  - split; cbn [c_chunks]; rewrite (aset_app_last _ _ _ _ Htf), map_app; cbn [map fst].
    + apply nodup_app_iff. split; [apply nodup_filter_keys; exact Hnd|].
      split; [constructor; [intros []|constructor]|].
      intros x Hx [Hc|[]]. subst x. exact (Htf Hx).
    + intros p Hp. apply in_app_or in Hp. destruct Hp as [Hp|[Hp|[]]].
      * apply filter_keys_in in Hp. destruct Hp as [Hp _]. specialize (Hb p Hp). lia.
      * subst p. lia.
Qed.

Lemma s3_l0_ok thr rows : NoDup (map r_path rows) ->
  sel_ok 0 rows (s3_l0 thr rows) /\ forall g, In g (s3_l0 thr rows) -> g <> [].
Proof. apply l0_groups_ok. Qed.

Lemma s3_init_wf c : NoDup (map fst (c_chunks c)) -> s3_wf c (st_fresh (s3_init c)).
Proof. intros H. split; [exact H|]. intros p Hp. simpl. apply next_free_lt. exact Hp. Qed.

(* every catalog reached by a history of register / delete / complete has
   duplicate-free keys *)
Lemma s3_apply_nodup c o : NoDup (map fst (c_chunks c)) -> NoDup (map fst (c_chunks (fst (s3_apply c o)))).
Proof.
  intros H. destruct o as [p m|p|srcs tgt]; simpl.
  - apply (nodup_aset N.eqb Neqb_spec). exact H.
  - apply nodup_adel. exact H.
  - rewrite s3_complete_eq. cbv zeta.
    destruct (aget N.eqb tgt (c_chunks (fold_left s3_del1 srcs c))) eqn:E; simpl; [|exact H].
    apply (nodup_aset N.eqb Neqb_spec). rewrite s3_fold_del1_chunks, fold_adel_filter.
    apply nodup_filter_keys. exact H.
Qed.

Lemma s3_run_nodup h : NoDup (map fst (c_chunks (s3_run h))).
Proof.
  unfold s3_run. assert (H : NoDup (map fst (c_chunks cat_empty))) by constructor.
  revert H. generalize cat_empty. induction h as [|o r IH]; simpl; intros c H; [exact H|].
  apply IH. apply s3_apply_nodup. exact H.
Qed.

(* ================================================================== *)
(* Part 3c: the in-memory backend                                       *)
(* ================================================================== *)
Definition local_wf (c : lcat) (n : N) : Prop :=
  NoDup (map fst (l_levels c)) /\
  (forall p, In p (map fst (l_levels c)) -> p < n) /\
  (forall p, In p (map fst (l_chunks c)) -> p < n).

Definition local_row (chunks : list (path * cmeta)) (pl : path * N) : list crow :=
  match aget N.eqb (fst pl) chunks with
  | Some m => [mkRow (fst pl) (snd pl) (m_min m) (m_size m)]
  | None => []
  end.

Lemma local_rows_eq c : local_rows c = flat_map (local_row (l_chunks c)) (l_levels c).
Proof. reflexivity. Qed.

Lemma local_rows_in chunks lv r :
  In r (flat_map (local_row chunks) lv) -> In (r_path r, r_level r) lv.
Proof.
  intros H. apply in_flat_map in H. destruct H as [[p l] [Hin Hr]]. unfold local_row in Hr. simpl in Hr.
  destruct (aget N.eqb p chunks); [|contradiction]. destruct Hr as [Hr|[]]. subst r. exact Hin.
Qed.

Lemma local_rows_nodup chunks lv :
  NoDup (map fst lv) -> NoDup (map r_path (flat_map (local_row chunks) lv)).
Proof.
  induction lv as [|[p l] t IH]; simpl; intros H; [constructor|].
  inversion H as [|? ? Hni Hnd]; subst. unfold local_row at 1. simpl.
  destruct (aget N.eqb p chunks); simpl; [|exact (IH Hnd)].
  constructor; [|exact (IH Hnd)]. intros Hc. apply Hni. apply in_map_iff in Hc.
  destruct Hc as [r [Hp Hr]]. apply local_rows_in in Hr. apply in_map_iff.
  exists (r_path r, r_level r). split; [exact Hp|exact Hr].
Qed.

Lemma local_wf_rows c n : local_wf c n -> rows_ok (local_rows c) n.
Proof.
  intros [Hnd [Hb _]]. rewrite local_rows_eq. split; [apply local_rows_nodup; exact Hnd|].
  intros r Hr. apply Hb. apply local_rows_in in Hr. apply in_map_iff.
  exists (r_path r, r_level r). split; [reflexivity|exact Hr].
Qed.

Lemma local_delete_chunks c p : l_chunks (local_delete c p) = adel N.eqb p (l_chunks c).
Proof.
  unfold local_delete. destruct (aget N.eqb p (l_chunks c)) eqn:E; simpl; [reflexivity|].
  symmetry. apply adel_absent. exact E.
Qed.

Lemma local_delete_levels c p : l_levels (local_delete c p) = adel N.eqb p (l_levels c).
Proof. unfold local_delete. destruct (aget N.eqb p (l_chunks c)); reflexivity. Qed.

Lemma local_fold_delete_chunks srcs : forall c,
  l_chunks (fold_left local_delete srcs c) = fold_left (fun l p => adel N.eqb p l) srcs (l_chunks c).
Proof.
  induction srcs as [|p t IH]; simpl; intros c; [reflexivity|]. rewrite IH, local_delete_chunks. reflexivity.
Qed.

Lemma local_fold_delete_levels srcs : forall c,
  l_levels (fold_left local_delete srcs c) = fold_left (fun l p => adel N.eqb p l) srcs (l_levels c).
Proof.
  induction srcs as [|p t IH]; simpl; intros c; [reflexivity|]. rewrite IH, local_delete_levels. reflexivity.
Qed.

Lemma local_rows_filter srcs chunks t m lv :
  (forall p, In p (map fst lv) -> p <> t) ->
  flat_map (local_row (filter (keep_not srcs) chunks ++ [(t, m)])) (filter (keep_not srcs) lv)
  = filter (fun r => negb (memN (r_path r) srcs)) (flat_map (local_row chunks) lv).
Proof.
  induction lv as [|[p l] r IH]; simpl; intros Hne; [reflexivity|].
  assert (IH' := IH (fun q Hq => Hne q (or_intror Hq))). clear IH.
  unfold keep_not at 2. cbn [fst]. destruct (memN p srcs) eqn:Em; cbn [negb].
  - rewrite filter_app, <- IH'.
    assert (Hz : filter (fun r0 : crow => negb (memN (r_path r0) srcs)) (local_row chunks (p, l)) = []).
    { unfold local_row. cbn [fst snd]. destruct (aget N.eqb p chunks); cbn [filter r_path]; [rewrite Em|]; reflexivity. }
    rewrite Hz. reflexivity.
  - cbn [flat_map]. rewrite filter_app, <- IH'. f_equal.
    unfold local_row. cbn [fst snd].
    assert (Hp : p <> t) by (apply Hne; left; reflexivity).
    assert (Hg : aget N.eqb p (filter (keep_not srcs) chunks ++ [(t, m)]) = aget N.eqb p chunks).
    { apply memN_false in Em. rewrite <- (aget_filter_keep srcs chunks p Em).
      destruct (aget N.eqb p (filter (keep_not srcs) chunks)) eqn:Eg.
      - rewrite aget_app_l; [exact Eg|]. apply (aget_In N.eqb Neqb_spec) in Eg.
        apply in_map_iff. exists (p, c). split; [reflexivity|exact Eg].
      - rewrite aget_app_r.
        + simpl. replace (N.eqb p t) with false by (symmetry; apply N.eqb_neq; exact Hp). reflexivity.
        + apply aget_none_not_in. exact Eg. }
    rewrite Hg. destruct (aget N.eqb p chunks); cbn [filter r_path]; [rewrite Em|]; reflexivity.
Qed.

Lemma local_merge_ok c t srcs m :
  local_wf c t -> (forall p, In p srcs -> In p (map r_path (local_rows c))) ->
  exists c2, local_complete (local_register c t m) srcs t = Some c2 /\
             local_rows c2 = merged_rows (local_rows c) srcs t m /\ local_wf c2 (t + 1).
Proof.
  intros [Hnd [Hbl Hbc]] Hsub.
  assert (Htl : ~ In t (map fst (l_levels c))) by (intros Hc; specialize (Hbl t Hc); lia).
  assert (Htc : ~ In t (map fst (l_chunks c))) by (intros Hc; specialize (Hbc t Hc); lia).
  assert (Hsubl : forall p, In p srcs -> In p (map fst (l_levels c))).
  { intros p Hp. specialize (Hsub p Hp). apply in_map_iff in Hsub. destruct Hsub as [r [Hr Hin]].
    rewrite local_rows_eq in Hin. apply local_rows_in in Hin. apply in_map_iff.
    exists (r_path r, r_level r). split; [exact Hr|exact Hin]. }
  assert (Hts : ~ In t srcs) by (intros Hc; apply Htl; apply Hsubl; exact Hc).
  unfold local_complete.
  rewrite local_fold_delete_chunks, local_fold_delete_levels, !fold_adel_filter.
  assert (Hrc : l_chunks (local_register c t m) = l_chunks c ++ [(t, m)]).
  { unfold local_register. cbn [l_chunks]. apply aset_absent. exact Htc. }
  assert (Hrl : l_levels (local_register c t m) = l_levels c ++ [(t, 0)]).
  { unfold local_register. cbn [l_levels]. apply aset_absent. exact Htl. }
  rewrite Hrc, Hrl, !filter_app. cbn [filter]. rewrite !keep_not_true by exact Hts.
  assert (Htfc : ~ In t (map fst (filter (keep_not srcs) (l_chunks c)))).
  { intros Hc. apply filter_keys_in in Hc. apply Htc. apply Hc. }
  assert (Htfl : ~ In t (map fst (filter (keep_not srcs) (l_levels c)))).
  { intros Hc. apply filter_keys_in in Hc. apply Htl. apply Hc. }
  rewrite (aget_app_r _ _ _ Htfc). cbn [aget]. rewrite N.eqb_refl.
  eexists. split; [reflexivity|]. split.
  - rewrite local_rows_eq. cbn [l_chunks l_levels]. rewrite (aset_app_last _ _ _ _ Htfl).
    rewrite flat_map_app. cbn [flat_map]. rewrite app_nil_r. unfold merged_rows. f_equal.
    + rewrite local_rows_eq. apply local_rows_filter. intros p Hp Hc. subst p. exact (Htl Hp).
    + unfold local_row. cbn [fst snd]. rewrite (aget_app_r _ _ _ Htfc). cbn [aget]. rewrite N.eqb_refl.
      f_equal. f_equal. f_equal. apply max_level_ext. intros p Hp.
      rewrite aget_app_l by (apply Hsubl; exact Hp).
      specialize (Hsub p Hp). apply in_map_iff in Hsub. destruct Hsub as [r [Hr Hin]].
      unfold lev_rows. rewrite <- Hr.
      rewrite (find_row_nodup _ _ (proj1 (local_wf_rows c t (conj Hnd (conj Hbl Hbc)))) Hin). cbn [option_map].
      rewrite local_rows_eq in Hin. apply local_rows_in in Hin.
      apply (In_aget_nodup N.eqb Neqb_spec); assumption.
  - cbn [l_chunks l_levels]. rewrite (aset_app_last _ _ _ _ Htfl). split; [|split]; cbn [l_chunks l_levels].
    + rewrite map_app. cbn [map fst]. apply nodup_app_iff. split; [apply nodup_filter_keys; exact Hnd|].
      split; [constructor; [intros []|constructor]|].
      intros x Hx [Hc|[]]. subst x. exact (Htfl Hx).
    + intros p Hp. rewrite map_app in Hp. apply in_app_or in Hp. destruct Hp as [Hp|[Hp|[]]].
      * apply filter_keys_in in Hp. destruct Hp as [Hp _]. specialize (Hbl p Hp). lia.
      * simpl in Hp. subst p. lia.
    + intros p Hp. rewrite map_app in Hp. apply in_app_or in Hp. destruct Hp as [Hp|[Hp|[]]].
      * apply filter_keys_in in Hp. destruct Hp as [Hp _]. specialize (Hbc p Hp). lia.
      * simpl in Hp. subst p. lia.
Qed.

Lemma local_l0_ok thr rows : NoDup (map r_path rows) ->
  sel_ok 0 rows (local_l0 thr rows) /\ forall g, In g (local_l0 thr rows) -> g <> [].
Proof. apply l0_groups_ok. Qed.

Lemma local_init_wf c : NoDup (map fst (l_levels c)) -> local_wf c (st_fresh (local_init c)).
Proof.
  intros H. split; [exact H|]. simpl. split; intros p Hp; apply next_free_lt; apply in_or_app; [right|left]; exact Hp.
Qed.

Lemma local_apply_nodup c o :
  NoDup (map fst (l_levels c)) -> NoDup (map fst (l_levels (fst (local_apply c o)))).
Proof.
  intros H. destruct o as [p m|p|srcs tgt]; simpl.
  - apply (nodup_aset N.eqb Neqb_spec). exact H.
  - rewrite local_delete_levels. apply nodup_adel. exact H.
  - unfold local_complete.
    destruct (aget N.eqb tgt (l_chunks (fold_left local_delete srcs c))) eqn:E; simpl; [|exact H].
    apply (nodup_aset N.eqb Neqb_spec). rewrite local_fold_delete_levels, fold_adel_filter.
    apply nodup_filter_keys. exact H.
Qed.

Lemma local_run_nodup h : NoDup (map fst (l_levels (local_run h))).
Proof.
  unfold local_run. assert (H : NoDup (map fst (l_levels lcat_empty))) by constructor.
  revert H. generalize lcat_empty. induction h as [|o r IH]; simpl; intros c H; [exact H|].
  apply IH. apply local_apply_nodup. exact H.
Qed.

(* ================================================================== *)
(* Part 4: the theorems of C20 for the two backends                     *)
(* ================================================================== *)
Definition s3_Inv (st : cstate cat) : Prop := s3_wf (st_cat st) (st_fresh st).
Definition local_Inv (st : cstate lcat) : Prop := local_wf (st_cat st) (st_fresh st).

Lemma s3_level_ok' lvl tgt rows gs :
  NoDup (map r_path rows) -> b_level s3_backend lvl tgt rows = Some gs -> sel_ok lvl rows gs.
Proof. apply s3_level_ok. Qed.
Lemma local_level_ok' lvl tgt rows gs :
  NoDup (map r_path rows) -> b_level local_backend lvl tgt rows = Some gs -> sel_ok lvl rows gs.
Proof. apply local_level_ok. Qed.

Lemma measure_le_3n rows : (measure_rows rows <= 3 * length rows)%nat.
Proof. unfold measure_rows. pose proof (filter_length_le (fun r => N.eqb (r_level r) 0) rows). lia. Qed.

Ltac backend_hyps :=
  first [ exact s3_wf_rows | exact s3_merge_ok | exact s3_l0_ok | exact s3_level_ok'
        | exact local_wf_rows | exact local_merge_ok | exact local_l0_ok | exact local_level_ok' ].

(* ---- every state reached from a catalog history is well-formed ---- *)
Theorem s3_reachable_inv (h : list cop) : s3_Inv (s3_init (s3_run h)).
Proof. apply s3_init_wf. apply s3_run_nodup. Qed.
Theorem local_reachable_inv (h : list cop) : local_Inv (local_init (local_run h)).
Proof. apply local_init_wf. apply local_run_nodup. Qed.

Theorem s3_run_cycles_inv h st : s3_Inv st -> s3_Inv (run_cycles s3_backend h st).
Proof. intros H. apply (run_cycles_facts s3_backend s3_wf); try backend_hyps. exact H. Qed.
Theorem local_run_cycles_inv h st : local_Inv st -> local_Inv (run_cycles local_backend h st).
Proof. intros H. apply (run_cycles_facts local_backend local_wf); try backend_hyps. exact H. Qed.

(* ---- groups_disjoint + groups_single_level ---- *)
Theorem s3_groups_ok i st lvl seen gs :
  s3_Inv st -> In (ESel lvl seen gs) (cycle_events s3_backend i st) ->
  NoDup (concat gs) /\
  (forall g p, In g gs -> In p g -> exists r, In r seen /\ r_path r = p /\ r_level r = u32_of lvl) /\
  NoDup (map r_path seen) /\
  (forall r, In r seen -> In r (s3_rows (st_cat st)) \/ st_fresh st <= r_path r).
Proof. intros H. apply (groups_disjoint_single_level s3_backend s3_wf); try backend_hyps. exact H. Qed.

Theorem local_groups_ok i st lvl seen gs :
  local_Inv st -> In (ESel lvl seen gs) (cycle_events local_backend i st) ->
  NoDup (concat gs) /\
  (forall g p, In g gs -> In p g -> exists r, In r seen /\ r_path r = p /\ r_level r = u32_of lvl) /\
  NoDup (map r_path seen) /\
  (forall r, In r seen -> In r (local_rows (st_cat st)) \/ st_fresh st <= r_path r).
Proof. intros H. apply (groups_disjoint_single_level local_backend local_wf); try backend_hyps. exact H. Qed.

(* ---- merged target = 1 + level of its (single-level) sources ---- *)
Theorem s3_merge_rule i st lvl g t m nl :
  s3_Inv st -> In (EMerge lvl g t m nl) (cycle_events s3_backend i st) ->
  g <> [] /\ nl = Some (u32_of lvl + 1) /\
  exists seen gs, In (ESel lvl seen gs) (cycle_events s3_backend i st) /\ In g gs /\
    forall p, In p g -> exists r, In r seen /\ r_path r = p /\ r_level r = u32_of lvl.
Proof. intros H. apply (merge_level_rule s3_backend s3_wf); try backend_hyps. exact H. Qed.

Theorem local_merge_rule i st lvl g t m nl :
  local_Inv st -> In (EMerge lvl g t m nl) (cycle_events local_backend i st) ->
  g <> [] /\ nl = Some (u32_of lvl + 1) /\
  exists seen gs, In (ESel lvl seen gs) (cycle_events local_backend i st) /\ In g gs /\
    forall p, In p g -> exists r, In r seen /\ r_path r = p /\ r_level r = u32_of lvl.
Proof. intros H. apply (merge_level_rule local_backend local_wf); try backend_hyps. exact H. Qed.

(* ---- level_monotone ---- *)
Theorem s3_level_monotone h1 h2 st p a b :
  s3_Inv st ->
  level_in s3_backend (st_cat (run_cycles s3_backend h1 st)) p = Some a ->
  level_in s3_backend (st_cat (run_cycles s3_backend (h1 ++ h2) st)) p = Some b ->
  a = b.
Proof. intros H. apply (level_monotone s3_backend s3_wf); try backend_hyps. exact H. Qed.

Theorem local_level_monotone h1 h2 st p a b :
  local_Inv st ->
  level_in local_backend (st_cat (run_cycles local_backend h1 st)) p = Some a ->
  level_in local_backend (st_cat (run_cycles local_backend (h1 ++ h2) st)) p = Some b ->
  a = b.
Proof. intros H. apply (level_monotone local_backend local_wf); try backend_hyps. exact H. Qed.

Theorem s3_no_resurrection h1 h2 h3 st p a :
  s3_Inv st ->
  level_in s3_backend (st_cat (run_cycles s3_backend h1 st)) p = Some a ->
  level_in s3_backend (st_cat (run_cycles s3_backend (h1 ++ h2) st)) p = None ->
  level_in s3_backend (st_cat (run_cycles s3_backend (h1 ++ h2 ++ h3) st)) p = None.
Proof. intros H. apply (no_resurrection s3_backend s3_wf); try backend_hyps. exact H. Qed.

Theorem local_no_resurrection h1 h2 h3 st p a :
  local_Inv st ->
  level_in local_backend (st_cat (run_cycles local_backend h1 st)) p = Some a ->
  level_in local_backend (st_cat (run_cycles local_backend (h1 ++ h2) st)) p = None ->
  level_in local_backend (st_cat (run_cycles local_backend (h1 ++ h2 ++ h3) st)) p = None.
Proof. intros H. apply (no_resurrection local_backend local_wf); try backend_hyps. exact H. Qed.

(* ---- converges ---- *)
Definition converges_stmt {C} (B : backend C) (Inv : cstate C -> Prop) : Prop :=
  (* a cycle without a merge changes nothing *)
  (forall i st, Inv st -> merges_of (cycle_events B i st) = O -> cycle_state B i st = st) /\
  (* a cycle with a merge strictly decreases the measure *)
  (forall i st, Inv st -> merges_of (cycle_events B i st) <> O ->
                (measure B (cycle_state B i st) < measure B st)%nat) /\
  (* over any history (configurations, hash orders and oracles may change from
     cycle to cycle) at most [measure st] <= 3 * #chunks merges happen *)
  (forall h st, Inv st -> (total_merges B h st + measure B (run_cycles B h st) <= measure B st)%nat) /\
  (forall st, (measure B st <= 3 * length (b_rows B (st_cat st)))%nat) /\
  (* hence among the first measure+1 cycles there is one that changes nothing *)
  (forall h st, Inv st -> (measure B st < length h)%nat ->
     exists n, (n <= measure B st)%nat /\ (n < length h)%nat /\
               run_cycles B (firstn (S n) h) st = run_cycles B (firstn n h) st) /\
  (* and with a fixed input the state is a fixpoint from then on *)
  (forall i st, Inv st -> exists n, (n <= measure B st)%nat /\
     forall k, run_cycles B (repeat i (n + k)) st = run_cycles B (repeat i n) st).

Theorem s3_converges : converges_stmt s3_backend s3_Inv.
Proof.
  unfold converges_stmt. repeat split.
  - intros i st H. apply (noop_cycle s3_backend s3_wf); try backend_hyps. exact H.
  - intros i st H. apply (merging_cycle_decreases s3_backend s3_wf); try backend_hyps. exact H.
  - intros h st H. apply (merges_bounded s3_backend s3_wf); try backend_hyps. exact H.
  - intros st. apply measure_le_3n.
  - intros h st H. apply (converges s3_backend s3_wf); try backend_hyps. exact H.
  - intros i st H. apply (converges_fixed s3_backend s3_wf); try backend_hyps. exact H.
Qed.

Theorem local_converges : converges_stmt local_backend local_Inv.
Proof.
  unfold converges_stmt. repeat split.
  - intros i st H. apply (noop_cycle local_backend local_wf); try backend_hyps. exact H.
  - intros i st H. apply (merging_cycle_decreases local_backend local_wf); try backend_hyps. exact H.
  - intros h st H. apply (merges_bounded local_backend local_wf); try backend_hyps. exact H.
  - intros st. apply measure_le_3n.
  - intros h st H. apply (converges local_backend local_wf); try backend_hyps. exact H.
  - intros i st H. apply (converges_fixed local_backend local_wf); try backend_hyps. exact H.
Qed.

(* the cycle never runs into the `complete_compaction(..)?` error path *)
Theorem s3_cycle_no_error i st : s3_Inv st -> snd (fst (cycle s3_backend i st)) <> CSErr.
Proof.
  intros H. pose proof (cycle_ok s3_backend s3_wf s3_wf_rows s3_merge_ok s3_l0_ok s3_level_ok' i st H) as Hc.
  destruct (cycle s3_backend i st) as [[st' s] ev]. simpl. apply Hc.
Qed.
Theorem local_cycle_no_error i st : local_Inv st -> snd (fst (cycle local_backend i st)) <> CSErr.
Proof.
  intros H. pose proof (cycle_ok local_backend local_wf local_wf_rows local_merge_ok local_l0_ok local_level_ok' i st H) as Hc.
  destruct (cycle local_backend i st) as [[st' s] ev]. simpl. apply Hc.
Qed.

(* ---- the selection functions themselves, for every catalog ---- *)
Theorem selection_groups_ok :
  (forall thr rows, NoDup (map r_path rows) -> sel_ok 0 rows (s3_l0 thr rows)) /\
  (forall thr rows, NoDup (map r_path rows) -> sel_ok 0 rows (local_l0 thr rows)) /\
  (forall lvl tgt rows gs, NoDup (map r_path rows) -> s3_level lvl tgt rows = Some gs -> sel_ok lvl rows gs) /\
  (forall lvl tgt rows gs, NoDup (map r_path rows) -> local_level lvl tgt rows = Some gs -> sel_ok lvl rows gs) /\
  (forall ord rows, NoDup (map r_path rows) ->
     NoDup (map r_path (reorder ord rows)) /\ forall r, In r (reorder ord rows) <-> In r rows).
Proof.
  split; [intros thr rows H; apply (s3_l0_ok thr rows H)|].
  split; [intros thr rows H; apply (local_l0_ok thr rows H)|].
  split; [exact s3_level_ok|]. split; [exact local_level_ok|].
  intros ord rows H. split; [apply reorder_nodup; exact H|intros r; apply reorder_In; exact H].
Qed.

(* ================================================================== *)
(* non-vacuity: concrete runs                                           *)
(* ================================================================== *)
Definition ex_H : Z := Consts.S3_L0_BUCKET_NANOS.
Definition ex_meta (mn mx : Z) (sz : N) : cmeta := mkMeta mn mx 1 sz.
Definition ex_oracle (g : list path) : cmeta := mkMeta 0 0 (N.of_nat (length g)) 700.
Definition ex_hist : list cop :=
  [ORegister 1 (ex_meta 10 20 100); ORegister 2 (ex_meta 30 40 100); ORegister 3 (ex_meta 50 60 100);
   ORegister 4 (ex_meta (2 * ex_H) (2 * ex_H + 5) 100)].
Definition ex_in (thr : N) : cinput := mkIn (mkCfg thr 1000 5000 3) [] ex_oracle.

(* threshold 2: chunks 1,2,3 (one hour bucket) merge into chunk 5 at level 1;
   chunk 4 stays; the second cycle changes nothing; both backends agree *)
Example ex_threshold_2 :
  let st := s3_init (s3_run ex_hist) in
  s3_Inv st /\
  filter is_merge (cycle_events s3_backend (ex_in 2) st) = [EMerge 0 [1; 2; 3] 5 (ex_oracle [1; 2; 3]) (Some 1)] /\
  map (fun r => (r_path r, r_level r)) (s3_rows (st_cat (cycle_state s3_backend (ex_in 2) st))) = [(4, 0); (5, 1)] /\
  run_cycles s3_backend [ex_in 2; ex_in 2] st = run_cycles s3_backend [ex_in 2] st /\
  map (fun r => (r_path r, r_level r))
      (local_rows (st_cat (cycle_state local_backend (ex_in 2) (local_init (local_run ex_hist))))) = [(4, 0); (5, 1)].
Proof.
  split; [apply s3_reachable_inv|]. split; [vm_compute; reflexivity|]. split; [vm_compute; reflexivity|].
  split; vm_compute; reflexivity.
Qed.

(* threshold 0 (and 1): a single level-0 chunk is rewritten into a level-1
   chunk, once; afterwards nothing is selectable any more.  On the in-memory
   backend the two level-1 chunks are then merged by the level-1 pass of the
   same cycle when the target size is reached; on the object-store backend the
   same happens.  Three cycles reach the fixpoint well within the bound. *)
Example ex_threshold_0 :
  let st := local_init (local_run ex_hist) in
  local_Inv st /\
  merges_of (cycle_events local_backend (ex_in 0) st) = 3%nat /\
  map (fun r => (r_path r, r_level r)) (local_rows (st_cat (cycle_state local_backend (ex_in 0) st))) = [(7, 2)] /\
  run_cycles local_backend [ex_in 0; ex_in 0] st = run_cycles local_backend [ex_in 0] st /\
  (measure local_backend st = 12)%nat.
Proof.
  split; [apply local_reachable_inv|]. split; [vm_compute; reflexivity|]. split; [vm_compute; reflexivity|].
  split; vm_compute; reflexivity.
Qed.
