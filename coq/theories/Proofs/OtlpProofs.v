(* Proofs/OtlpProofs.v — theorems about the OTLP conversion model
   (Model/Otlp.v): one row per data point with exact fields, modulo the two
   recorded defect classes (integer precision, timestamp wrap). *)
From Coq Require Import ZArith List Reals Lia.
From Flocq Require Import Core IEEE754.BinarySingleNaN IEEE754.Binary IEEE754.Bits.
From CS Require Import Base.Prelude Model.Proto Model.ProtoConv Model.Otlp Proofs.ProtoFloatProofs.
Open Scope N_scope.

Lemma Forall2_map_right : forall (A B : Type) (f : A -> B) (l : list A),
  Forall2 (fun a b => b = f a) l (map f l).
Proof. intros A B f l. induction l; cbn [map]; constructor; auto. Qed.

Lemma Forall2_weaken : forall (A B : Type) (P Q : A -> B -> Prop) l1 l2,
  (forall a b, P a b -> Q a b) -> Forall2 P l1 l2 -> Forall2 Q l1 l2.
Proof. intros A B P Q l1 l2 H F. induction F; constructor; auto. Qed.

Lemma dp_name_point_of : forall t, dp_name (point_of t) = tg_name t.
Proof. intros [n res [p|p|p]]; reflexivity. Qed.

(* the double-valued sources: the value is stored bit for bit *)
Definition src_double (s : src) : option N :=
  match s with
  | SrcN p => match np_val p with NDouble b => Some b | _ => None end
  | SrcH p => hp_sum p
  | SrcS p => Some (sp_sum p)
  end.

Lemma dp_bits_double : forall t b, src_double (tg_src t) = Some b -> dp_bits (point_of t) = b.
Proof.
  intros [n res [p|p|p]] b; unfold point_of; cbn [tg_src tg_name tg_res src_double].
  - unfold number_point. cbn [dp_bits]. destruct (np_val p); intro H; inversion H; reflexivity.
  - unfold hist_point. cbn [dp_bits]. intro H. rewrite H. reflexivity.
  - unfold summary_point. cbn [dp_bits]. intro H. inversion H. reflexivity.
Qed.

Lemma dp_bits_int : forall t i, src_int (tg_src t) = Some i -> dp_bits (point_of t) = bits_of_int i.
Proof.
  intros [n res [p|p|p]] i; unfold point_of; cbn [tg_src tg_name tg_res src_int].
  - unfold number_point. cbn [dp_bits]. destruct (np_val p); intro H; inversion H; reflexivity.
  - unfold hist_point. cbn [dp_bits]. destruct (hp_sum p); intro H; inversion H; reflexivity.
  - discriminate.
Qed.

Lemma dp_ts_time : forall t, dp_ts (point_of t) = as_i64 (src_time (tg_src t)).
Proof. intros [n res [p|p|p]]; reflexivity. Qed.

(* ---- rows: one per data point, in request order ---- *)
Theorem otlp_rows : forall (r : oreq) (b : obatch),
  export_to_arrow r = Done b ->
  Forall2 (fun t rw =>
             o_ts rw = as_i64 (src_time (tg_src t)) /\
             o_name rw = tg_name t /\
             o_bits rw = dp_bits (point_of t) /\
             o_cells rw = map (fun c => map_get c (dp_labels (point_of t))) (ob_cols b))
          (all_tagged r) (ob_rows b).
Proof.
  intros r b H. unfold export_to_arrow, points_to_arrow, export_points in H.
  set (ps := map point_of (all_tagged r)) in *.
  assert (Hb : b = mkOBatch (label_keys ps)
                     (map (fun p => mkORow (dp_ts p) (dp_name p) (dp_bits p)
                                           (map (fun c => map_get c (dp_labels p)) (label_keys ps))) ps)).
  { destruct ps; [discriminate|]. inversion H. reflexivity. }
  subst b. clear H. cbn [ob_rows ob_cols]. generalize (label_keys ps). intro cols.
  unfold ps. rewrite map_map.
  eapply Forall2_weaken; [|apply Forall2_map_right]. cbv beta.
  intros t rw ->. cbn [o_ts o_name o_bits o_cells].
  rewrite dp_ts_time, dp_name_point_of. auto.
Qed.

Theorem otlp_row_count : forall r b,
  export_to_arrow r = Done b -> length (ob_rows b) = length (all_tagged r).
Proof.
  intros r b H. apply otlp_rows in H. induction H; cbn [length]; auto.
Qed.

Theorem otlp_empty : forall r, all_tagged r = [] <-> export_to_arrow r = Failed E_NO_POINTS.
Proof.
  intro r. unfold export_to_arrow, points_to_arrow, export_points. split.
  - intros ->. reflexivity.
  - destruct (all_tagged r); [reflexivity|discriminate].
Qed.

(* ---- exactness modulo the two known classes ---- *)
Lemma time_exact : forall t, (I63 <=? src_time (tg_src t)) = false ->
  dp_ts (point_of t) = Z.of_N (src_time (tg_src t)).
Proof.
  intros t H. rewrite dp_ts_time. unfold as_i64. apply N.leb_gt in H.
  destruct (N.ltb_spec (src_time (tg_src t)) I63); [reflexivity|lia].
Qed.

Lemma int_value_exact : forall t i,
  src_int (tg_src t) = Some i -> src_int_inexact (tg_src t) = false ->
  BinarySingleNaN.B2R (f64_of_bits (dp_bits (point_of t))) = IZR i.
Proof.
  intros t i Hi Hk. unfold src_int_inexact in Hk. rewrite Hi in Hk.
  apply negb_false_iff in Hk. unfold int_exact_in_f64 in Hk.
  apply andb_true_iff in Hk. destruct Hk as [H1 H2]. apply Z.eqb_eq in H2.
  rewrite (dp_bits_int t i Hi). rewrite (int_exact _ H1). rewrite H2. reflexivity.
Qed.

(* otlp_modulo_known: outside the two recorded classes every data point
   becomes one row with its exact timestamp, its metric name and a numerically
   equal value *)
Theorem otlp_modulo_known : forall (r : oreq) (b : obatch),
  known_int_precision r = false -> known_time_wrap r = false ->
  export_to_arrow r = Done b ->
  Forall2 (fun t rw =>
             o_ts rw = Z.of_N (src_time (tg_src t)) /\
             o_name rw = tg_name t /\
             (forall i, src_int (tg_src t) = Some i ->
                        BinarySingleNaN.B2R (f64_of_bits (o_bits rw)) = IZR i) /\
             (forall d, src_double (tg_src t) = Some d -> o_bits rw = d) /\
             o_cells rw = map (fun c => map_get c (dp_labels (point_of t))) (ob_cols b))
          (all_tagged r) (ob_rows b).
Proof.
  intros r b Hki Hkt H. apply otlp_rows in H.
  unfold known_int_precision in Hki. unfold known_time_wrap in Hkt.
  assert (Hi : forall t, In t (all_tagged r) -> src_int_inexact (tg_src t) = false).
  { intros t Ht. destruct (src_int_inexact (tg_src t)) eqn:E; [|reflexivity].
    assert (X : existsb (fun t => src_int_inexact (tg_src t)) (all_tagged r) = true)
      by (apply existsb_exists; exists t; auto). congruence. }
  assert (Ht : forall t, In t (all_tagged r) -> (I63 <=? src_time (tg_src t)) = false).
  { intros t Hin. destruct (I63 <=? src_time (tg_src t)) eqn:E; [|reflexivity].
    assert (X : existsb (fun t => I63 <=? src_time (tg_src t)) (all_tagged r) = true)
      by (apply existsb_exists; exists t; auto). congruence. }
  clear Hki Hkt. revert Hi Ht.
  induction H as [|t rw ts rws Hh _ IH]; intros Hi Ht; constructor.
  - destruct Hh as (H1 & H2 & H3 & H4).
    pose proof (Hi t (or_introl eq_refl)) as Hit. pose proof (Ht t (or_introl eq_refl)) as Htt.
    split; [rewrite H1, <- dp_ts_time; apply time_exact; exact Htt|].
    split; [exact H2|]. split; [|split; [|exact H4]].
    + intros i Hs. rewrite H3. apply int_value_exact; assumption.
    + intros d Hs. rewrite H3. apply dp_bits_double. exact Hs.
  - apply IH; intros x Hx; [apply Hi|apply Ht]; cbn [In]; auto.
Qed.

(* ---- the two classes are real: witnesses ---- *)
Definition w_int : oreq :=
  [mkRM None [[mkMetric [109] (DGauge [mkNP 1 (NInt 9007199254740993) []])]]].
Definition w_time : oreq :=
  [mkRM None [[mkMetric [109] (DGauge [mkNP 9223372036854775808 (NDouble 0) []])]]].

(* AsInt(2^53 + 1) is stored as the double 2^53 *)
Lemma otlp_refuted_int_precision :
  known_int_precision w_int = true /\
  export_to_arrow w_int = Done (mkOBatch [] [mkORow 1 [109] 4845873199050653696 []]) /\
  bits_of_int 9007199254740992 = 4845873199050653696.
Proof. vm_compute. repeat split; reflexivity. Qed.

(* time_unix_nano = 2^63 is stored as the timestamp -2^63 *)
Lemma otlp_refuted_time_wrap :
  known_time_wrap w_time = true /\
  export_to_arrow w_time = Done (mkOBatch [] [mkORow (-9223372036854775808) [109] 0 []]).
Proof. vm_compute. repeat split; reflexivity. Qed.

(* non-vacuity: small integers and ordinary times are outside both classes *)
Example otlp_modulo_known_nonvacuous :
  let r := [mkRM (Some [mkKV [104] (AVString [120])])
              [[mkMetric [109] (DSum [mkNP 1700000000000000000 (NInt (-42)) [mkKV [107] (AVInt 7)]])]]] in
  known_int_precision r = false /\ known_time_wrap r = false /\
  export_to_arrow r = Done (mkOBatch [[104]; [107]]
     [mkORow 1700000000000000000 [109] 13854479828675198976 [Some [120]; Some [55]]]).
Proof. vm_compute. repeat split; reflexivity. Qed.
