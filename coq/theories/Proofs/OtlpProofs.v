(* Proofs/OtlpProofs.v — theorems about the OTLP conversion model
   (Model/Otlp.v): one row per data point with exact fields, modulo the two
   recorded defect classes (integer precision, timestamp wrap). *)
From Coq Require Import ZArith List Reals Lia Sorting.Sorted.
From Flocq Require Import Core IEEE754.BinarySingleNaN IEEE754.Binary IEEE754.Bits.
From CS Require Import Base.Prelude Model.Proto Model.ProtoConv Model.Otlp Proofs.ProtoFloatProofs Proofs.ProtoConvProofs.
Open Scope N_scope.

Lemma Forall2_map_right : forall (A B : Type) (f : A -> B) (l : list A),
  Forall2 (fun a b => b = f a) l (map f l).
Proof. intros A B f l. induction l; cbn [map]; constructor; auto. Qed.

Lemma Forall2_weaken : forall (A B : Type) (P Q : A -> B -> Prop) l1 l2,
  (forall a b, P a b -> Q a b) -> Forall2 P l1 l2 -> Forall2 Q l1 l2.
Proof. intros A B P Q l1 l2 H F. induction F; constructor; auto. Qed.

Lemma dp_name_point_of : forall t, dp_name (point_of t) = tg_name t.
Proof. intros [n res [p|p|p]]; reflexivity. Qed.

(* the double-valued sources: the value is stored bit for bit *)
Definition src_double (s : src) : option N :=
  match s with
  | SrcN p => match np_val p with NDouble b => Some b | _ => None end
  | SrcH p => hp_sum p
  | SrcS p => Some (sp_sum p)
  end.

Lemma dp_bits_double : forall t b, src_double (tg_src t) = Some b -> dp_bits (point_of t) = b.
Proof.
  intros [n res [p|p|p]] b; unfold point_of; cbn [tg_src tg_name tg_res src_double].
  - unfold number_point. cbn [dp_bits]. destruct (np_val p); intro H; inversion H; reflexivity.
  - unfold hist_point. cbn [dp_bits]. intro H. rewrite H. reflexivity.
  - unfold summary_point. cbn [dp_bits]. intro H. inversion H. reflexivity.
Qed.

Lemma dp_bits_int : forall t i, src_int (tg_src t) = Some i -> dp_bits (point_of t) = bits_of_int i.
Proof.
  intros [n res [p|p|p]] i; unfold point_of; cbn [tg_src tg_name tg_res src_int].
  - unfold number_point. cbn [dp_bits]. destruct (np_val p); intro H; inversion H; reflexivity.
  - unfold hist_point. cbn [dp_bits]. destruct (hp_sum p); intro H; inversion H; reflexivity.
  - discriminate.
Qed.

Lemma dp_ts_time : forall t, dp_ts (point_of t) = as_i64 (src_time (tg_src t)).
Proof. intros [n res [p|p|p]]; reflexivity. Qed.

(* ---- rows: one per data point, in request order ---- *)
Theorem otlp_rows : forall (r : oreq) (b : obatch),
  export_to_arrow r = Done b ->
  Forall2 (fun t rw =>
             o_ts rw = as_i64 (src_time (tg_src t)) /\
             o_name rw = tg_name t /\
             o_bits rw = dp_bits (point_of t) /\
             o_cells rw = map (fun c => map_get c (dp_labels (point_of t))) (ob_cols b))
          (all_tagged r) (ob_rows b).
Proof.
  intros r b H. unfold export_to_arrow, points_to_arrow, export_points in H.
  set (ps := map point_of (all_tagged r)) in *.
  assert (Hb : b = mkOBatch (label_keys ps)
                     (map (fun p => mkORow (dp_ts p) (dp_name p) (dp_bits p)
                                           (map (fun c => map_get c (dp_labels p)) (label_keys ps))) ps)).
  { destruct ps; [discriminate|]. inversion H. reflexivity. }
  subst b. clear H. cbn [ob_rows ob_cols]. generalize (label_keys ps). intro cols.
  unfold ps. rewrite map_map.
  eapply Forall2_weaken; [|apply Forall2_map_right]. cbv beta.
  intros t rw ->. cbn [o_ts o_name o_bits o_cells].
  rewrite dp_ts_time, dp_name_point_of. auto.
Qed.

Theorem otlp_row_count : forall r b,
  export_to_arrow r = Done b -> length (ob_rows b) = length (all_tagged r).
Proof.
  intros r b H. apply otlp_rows in H. induction H; cbn [length]; auto.
Qed.

Theorem otlp_empty : forall r, all_tagged r = [] <-> export_to_arrow r = Failed E_NO_POINTS.
Proof.
  intro r. unfold export_to_arrow, points_to_arrow, export_points. split.
  - intros ->. reflexivity.
  - destruct (all_tagged r); [reflexivity|discriminate].
Qed.

(* ---- exactness modulo the two known classes ---- *)
Lemma time_exact : forall t, (I63 <=? src_time (tg_src t)) = false ->
  dp_ts (point_of t) = Z.of_N (src_time (tg_src t)).
Proof.
  intros t H. rewrite dp_ts_time. unfold as_i64. apply N.leb_gt in H.
  destruct (N.ltb_spec (src_time (tg_src t)) I63); [reflexivity|lia].
Qed.

Lemma int_value_exact : forall t i,
  src_int (tg_src t) = Some i -> src_int_inexact (tg_src t) = false ->
  BinarySingleNaN.B2R (f64_of_bits (dp_bits (point_of t))) = IZR i.
Proof.
  intros t i Hi Hk. unfold src_int_inexact in Hk. rewrite Hi in Hk.
  apply negb_false_iff in Hk. unfold int_exact_in_f64 in Hk.
  apply andb_true_iff in Hk. destruct Hk as [H1 H2]. apply Z.eqb_eq in H2.
  rewrite (dp_bits_int t i Hi). rewrite (int_exact _ H1). rewrite H2. reflexivity.
Qed.

(* otlp_modulo_known: outside the two recorded classes every data point
   becomes one row with its exact timestamp, its metric name and a numerically
   equal value *)
Theorem otlp_modulo_known : forall (r : oreq) (b : obatch),
  known_int_precision r = false -> known_time_wrap r = false ->
  export_to_arrow r = Done b ->
  Forall2 (fun t rw =>
             o_ts rw = Z.of_N (src_time (tg_src t)) /\
             o_name rw = tg_name t /\
             (forall i, src_int (tg_src t) = Some i ->
                        BinarySingleNaN.B2R (f64_of_bits (o_bits rw)) = IZR i) /\
             (forall d, src_double (tg_src t) = Some d -> o_bits rw = d) /\
             o_cells rw = map (fun c => map_get c (dp_labels (point_of t))) (ob_cols b))
          (all_tagged r) (ob_rows b).
Proof.
  intros r b Hki Hkt H. apply otlp_rows in H.
  unfold known_int_precision in Hki. unfold known_time_wrap in Hkt.
  assert (Hi : forall t, In t (all_tagged r) -> src_int_inexact (tg_src t) = false).
  { intros t Ht. destruct (src_int_inexact (tg_src t)) eqn:E; [|reflexivity].
    assert (X : existsb (fun t => src_int_inexact (tg_src t)) (all_tagged r) = true)
      by (apply existsb_exists; exists t; auto). congruence. }
  assert (Ht : forall t, In t (all_tagged r) -> (I63 <=? src_time (tg_src t)) = false).
  { intros t Hin. destruct (I63 <=? src_time (tg_src t)) eqn:E; [|reflexivity].
    assert (X : existsb (fun t => I63 <=? src_time (tg_src t)) (all_tagged r) = true)
      by (apply existsb_exists; exists t; auto). congruence. }
  clear Hki Hkt. revert Hi Ht.
  induction H as [|t rw ts rws Hh _ IH]; intros Hi Ht; constructor.
  - destruct Hh as (H1 & H2 & H3 & H4).
    pose proof (Hi t (or_introl eq_refl)) as Hit. pose proof (Ht t (or_introl eq_refl)) as Htt.
    split; [rewrite H1, <- dp_ts_time; apply time_exact; exact Htt|].
    split; [exact H2|]. split; [|split; [|exact H4]].
    + intros i Hs. rewrite H3. apply int_value_exact; assumption.
    + intros d Hs. rewrite H3. apply dp_bits_double. exact Hs.
  - apply IH; intros x Hx; [apply Hi|apply Ht]; cbn [In]; auto.
Qed.

(* ---- the two classes are real: witnesses ---- *)
Definition w_int : oreq :=
  [mkRM None [[mkMetric [109] (DGauge [mkNP 1 (NInt 9007199254740993) []])]]].
Definition w_time : oreq :=
  [mkRM None [[mkMetric [109] (DGauge [mkNP 9223372036854775808 (NDouble 0) []])]]].

(* AsInt(2^53 + 1) is stored as the double 2^53 *)
Lemma otlp_refuted_int_precision :
  known_int_precision w_int = true /\
  export_to_arrow w_int = Done (mkOBatch [] [mkORow 1 [109] 4845873199050653696 []]) /\
  bits_of_int 9007199254740992 = 4845873199050653696.
Proof. vm_compute. repeat split; reflexivity. Qed.

(* time_unix_nano = 2^63 is stored as the timestamp -2^63 *)
Lemma otlp_refuted_time_wrap :
  known_time_wrap w_time = true /\
  export_to_arrow w_time = Done (mkOBatch [] [mkORow (-9223372036854775808) [109] 0 []]).
Proof. vm_compute. repeat split; reflexivity. Qed.

(* non-vacuity: small integers and ordinary times are outside both classes *)
Example otlp_modulo_known_nonvacuous :
  let r := [mkRM (Some [mkKV [104] (AVString [120])])
              [[mkMetric [109] (DSum [mkNP 1700000000000000000 (NInt (-42)) [mkKV [107] (AVInt 7)]])]]] in
  known_int_precision r = false /\ known_time_wrap r = false /\
  export_to_arrow r = Done (mkOBatch [[104]; [107]]
     [mkORow 1700000000000000000 [109] 13854479828675198976 [Some [120]; Some [55]]]).
Proof. vm_compute. repeat split; reflexivity. Qed.

(* ==================================================================== *)
(* labels: resource attributes overwritten by point attributes; within one
   attribute list the last entry of a key wins *)

Lemma map_get_insert : forall k k' v m,
  map_get k (map_insert k' v m) = if bytes_eqb k k' then Some v else map_get k m.
Proof.
  intros k k' v m. induction m as [|[k1 v1] r IH]; cbn [map_insert map_get]; [reflexivity|].
  destruct (bytes_eqb k' k1) eqn:E1.
  - apply bytes_eqb_eq in E1. subst k1. cbn [map_get].
    destruct (bytes_eqb k k'); reflexivity.
  - destruct (bytes_ltb k' k1); cbn [map_get]; [reflexivity|].
    rewrite IH. destruct (bytes_eqb k k1) eqn:E2; [|reflexivity].
    apply bytes_eqb_eq in E2. subst k1. rewrite bytes_eqb_sym, E1. reflexivity.
Qed.

(* the last value that an attribute list gives to a key *)
Fixpoint kv_last (k : bytes) (l : list kv) : option bytes :=
  match l with
  | [] => None
  | e :: r => match kv_last k r with
              | Some v => Some v
              | None => if bytes_eqb k (kv_key e) then Some (any_value_to_string (kv_val e)) else None
              end
  end.

Lemma fold_insert_get : forall k l m,
  map_get k (fold_left (fun m e => map_insert (kv_key e) (any_value_to_string (kv_val e)) m) l m)
  = match kv_last k l with Some v => Some v | None => map_get k m end.
Proof.
  intros k. induction l as [|e l IH]; intro m; cbn [fold_left kv_last]; [reflexivity|].
  rewrite IH, map_get_insert. destruct (kv_last k l); [reflexivity|].
  destruct (bytes_eqb k (kv_key e)); reflexivity.
Qed.

Lemma key_values_get : forall k l, map_get k (key_values_to_labels l) = kv_last k l.
Proof.
  intros k l. unfold key_values_to_labels. rewrite fold_insert_get.
  destruct (kv_last k l); reflexivity.
Qed.

(* label maps are sorted by key, hence free of duplicate keys *)
Definition klt (a b : bytes * bytes) : Prop := blt (fst a) (fst b).

Lemma map_insert_hd : forall k v m x, klt x (k, v) -> HdRel klt x m -> HdRel klt x (map_insert k v m).
Proof.
  intros k v m x Hx Hm. destruct m as [|[k1 v1] r]; cbn [map_insert].
  - constructor. exact Hx.
  - inversion Hm; subst. destruct (bytes_eqb k k1); [constructor; exact Hx|].
    destruct (bytes_ltb k k1); constructor; assumption.
Qed.

Lemma map_insert_sorted : forall k v m, Sorted klt m -> Sorted klt (map_insert k v m).
Proof.
  intros k v m H. induction H as [|[k1 v1] r Hr IH Hhd]; cbn [map_insert].
  - constructor; constructor.
  - destruct (bytes_eqb k k1) eqn:E.
    + apply bytes_eqb_eq in E. subst k1. constructor; [exact Hr|].
      destruct Hhd; constructor. exact H.
    + destruct (bytes_ltb k k1) eqn:L.
      * constructor; [constructor; assumption|]. constructor. exact L.
      * constructor; [exact IH|]. apply map_insert_hd; [|exact Hhd].
        unfold klt, blt. cbn [fst]. apply bytes_ltb_total; assumption.
Qed.

Lemma key_values_sorted : forall l, Sorted klt (key_values_to_labels l).
Proof.
  intro l. unfold key_values_to_labels. generalize (@nil (bytes * bytes)) (Sorted_nil klt).
  induction l as [|e l IH]; intros m H; cbn [fold_left]; [exact H|].
  apply IH. apply map_insert_sorted. exact H.
Qed.

Lemma sorted_head_absent : forall k v r, StronglySorted klt ((k, v) :: r) -> map_get k r = None.
Proof.
  intros k v r H. inversion H as [|a l Hs Hf]; subst. clear H Hs.
  induction r as [|[k1 v1] r IH]; cbn [map_get]; [reflexivity|].
  inversion Hf as [|x l Hx Hr]; subst. unfold klt, blt in Hx. cbn [fst] in Hx.
  destruct (bytes_eqb k k1) eqn:E.
  - apply bytes_eqb_eq in E. subst k1. rewrite bytes_ltb_irrefl in Hx. discriminate.
  - apply IH. exact Hr.
Qed.

Lemma merge_get : forall k b a, StronglySorted klt b ->
  map_get k (merge_labels a b) = match map_get k b with Some v => Some v | None => map_get k a end.
Proof.
  intros k. unfold merge_labels. induction b as [|[k1 v1] r IH]; intros a Hs; cbn [fold_left map_get]; [reflexivity|].
  cbn [fst snd]. rewrite IH by (inversion Hs; assumption). rewrite map_get_insert.
  destruct (bytes_eqb k k1) eqn:E.
  - apply bytes_eqb_eq in E. subst k1. rewrite (sorted_head_absent k v1 r Hs). reflexivity.
  - reflexivity.
Qed.

Definition src_attrs (s : src) : list kv :=
  match s with SrcN p => np_attrs p | SrcH p => hp_attrs p | SrcS p => sp_attrs p end.

(* otlp_labels: the label of key k in the row of a data point is the last
   value its own attributes give to k, else what its resource says *)
Theorem otlp_labels : forall (t : tagged) (k : bytes),
  map_get k (dp_labels (point_of t))
  = match kv_last k (src_attrs (tg_src t)) with
    | Some v => Some v
    | None => map_get k (tg_res t)
    end.
Proof.
  intros [n res s] k. unfold point_of. cbn [tg_src tg_name tg_res].
  assert (H : forall attrs,
     map_get k (merge_labels res (key_values_to_labels attrs))
     = match kv_last k attrs with Some v => Some v | None => map_get k res end).
  { intro attrs. rewrite merge_get.
    - rewrite key_values_get. reflexivity.
    - apply Sorted_StronglySorted; [|apply key_values_sorted].
      intros a b c. unfold klt, blt. apply bytes_ltb_trans. }
  destruct s as [p|p|p]; cbn [src_attrs]; apply H.
Qed.

Theorem otlp_resource_labels : forall (r : oreq) (t : tagged),
  In t (all_tagged r) ->
  exists rm, In rm r /\
    forall k, map_get k (tg_res t)
              = match rm_resource rm with Some a => kv_last k a | None => None end.
Proof.
  intros r t H. unfold all_tagged in H. apply in_flat_map in H. destruct H as [rm [Hrm Ht]].
  exists rm. split; [exact Hrm|]. intro k.
  unfold resource_tagged in Ht. apply in_flat_map in Ht. destruct Ht as [sc [_ Ht]].
  apply in_flat_map in Ht. destruct Ht as [mt [_ Ht]]. apply in_map_iff in Ht.
  destruct Ht as [s [Hs _]]. subst t. cbn [tg_res]. unfold resource_labels.
  destruct (rm_resource rm); [apply key_values_get|reflexivity].
Qed.
