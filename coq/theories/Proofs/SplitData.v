(* Proofs/SplitData.v — pure facts about the data side of the splitter model:
   batching, the outputs of one source chunk, key uniqueness, and the
   conservation lemma (the registered outputs of all source chunks carry
   exactly the old rows, each on its side of the split point). *)
From Coq Require Import Permutation.
From CS Require Import Base.Prelude Proofs.CatalogProofs Model.Split.
From CSGen Require Import Consts.
Open Scope Z_scope.

Lemma nodup_app_intro {A} (l1 l2 : list A) :
  NoDup l1 -> NoDup l2 -> (forall x, In x l1 -> In x l2 -> False) -> NoDup (l1 ++ l2).
Proof.
  induction l1 as [|a r IH]; intros H1 H2 Hd; simpl; [exact H2|].
  inversion H1 as [|? ? Hn Hr]; subst.
  constructor.
  - intros Hin. apply in_app_or in Hin. destruct Hin as [Hin|Hin]; [contradiction|].
    apply (Hd a); [left; reflexivity|exact Hin].
  - apply IH; [exact Hr|exact H2|]. intros x Hx1 Hx2. apply (Hd x); [right; exact Hx1|exact Hx2].
Qed.

(* ---------- key equality ---------- *)
Lemma side_eqb_spec a b : side_eqb a b = true <-> a = b.
Proof. destruct a, b; simpl; split; intros H; try reflexivity; try discriminate. Qed.

Lemma nkey_eqb_spec a b : nkey_eqb a b = true <-> a = b.
Proof.
  destruct a as [s1 i1 b1], b as [s2 i2 b2]; unfold nkey_eqb; simpl.
  rewrite !andb_true_iff, side_eqb_spec, !N.eqb_eq.
  split.
  - intros [[H1 H2] H3]; subst; reflexivity.
  - intros H; inversion H; subst; auto.
Qed.

Lemma nkey_eq_dec (a b : nkey) : {a = b} + {a <> b}.
Proof.
  destruct (nkey_eqb a b) eqn:E.
  - left; apply nkey_eqb_spec; exact E.
  - right; intros H; apply nkey_eqb_spec in H; congruence.
Qed.

(* ---------- batching ---------- *)
Lemma batches_aux_concat b : b <> O -> forall fuel l, (length l <= fuel)%nat ->
  concat (batches_aux fuel b l) = l.
Proof.
  intros Hb. induction fuel as [|f IH]; intros l Hl.
  - destruct l; simpl in *; [reflexivity|lia].
  - destruct l as [|x r]; [reflexivity|].
    cbn [batches_aux concat].
    rewrite IH.
    + apply firstn_skipn.
    + rewrite skipn_length. simpl in Hl |- *. destruct b; [congruence|]. simpl. lia.
Qed.

Lemma batches_by_concat b l : b <> O -> concat (batches_by b l) = l.
Proof. intros Hb. unfold batches_by. apply batches_aux_concat; [exact Hb|lia]. Qed.

Lemma batch_rows_pos : batch_rows <> O.
Proof. unfold batch_rows. intros H. apply (f_equal N.of_nat) in H. rewrite N2Nat.id in H. vm_compute in H. discriminate. Qed.

(* ---------- outputs of one source chunk ---------- *)
Definition sel (sd : side) (e : nkey * list row) : list row :=
  if side_eqb (nk_side (fst e)) sd then snd e else [].

Definition side_filter (sd : side) (pt : Z) : row -> bool :=
  match sd with SA => is_lower pt | SB => is_upper pt end.

Lemma sel_outs_batch sd pt src i b :
  flat_map (sel sd) (outs_batch pt src i b) = filter (side_filter sd pt) b.
Proof.
  unfold outs_batch.
  destruct (filter (is_lower pt) b) eqn:Ea; destruct (filter (is_upper pt) b) eqn:Eb;
    destruct sd; cbn [app flat_map sel fst snd nk_side side_eqb side_filter]; rewrite ?app_nil_r;
    try rewrite Ea; try rewrite Eb; reflexivity.
Qed.

Lemma sel_outs_from sd pt src bs : forall i,
  flat_map (sel sd) (outs_from pt src i bs) = filter (side_filter sd pt) (concat bs).
Proof.
  induction bs as [|b r IH]; intros i; [reflexivity|].
  cbn [outs_from concat]. rewrite flat_map_app, filter_app, sel_outs_batch, IH. reflexivity.
Qed.

Lemma sel_outs sd pt src rows :
  flat_map (sel sd) (outs pt src rows) = filter (side_filter sd pt) rows.
Proof.
  unfold outs, outs_by. rewrite sel_outs_from, batches_by_concat; [reflexivity|exact batch_rows_pos].
Qed.

Lemma outs_batch_keys pt src i b k r :
  In (k, r) (outs_batch pt src i b) -> nk_src k = src /\ nk_batch k = i /\ r <> [].
Proof.
  unfold outs_batch. intros H. apply in_app_or in H. destruct H as [H|H].
  - destruct (filter (is_lower pt) b) eqn:E; [destruct H|].
    destruct H as [H|[]]. inversion H; subst. simpl. repeat split; discriminate.
  - destruct (filter (is_upper pt) b) eqn:E; [destruct H|].
    destruct H as [H|[]]. inversion H; subst. simpl. repeat split; discriminate.
Qed.

Lemma outs_from_keys pt src bs : forall i k r,
  In (k, r) (outs_from pt src i bs) -> nk_src k = src /\ (i <= nk_batch k)%N.
Proof.
  induction bs as [|b rest IH]; intros i k r H; [destruct H|].
  cbn [outs_from] in H. apply in_app_or in H. destruct H as [H|H].
  - apply outs_batch_keys in H. destruct H as [H1 [H2 _]]. split; [exact H1|lia].
  - apply IH in H. destruct H as [H1 H2]. split; [exact H1|lia].
Qed.

Lemma outs_batch_nodup pt src i b : NoDup (map fst (outs_batch pt src i b)).
Proof.
  unfold outs_batch.
  destruct (filter (is_lower pt) b); destruct (filter (is_upper pt) b); simpl;
    repeat constructor; simpl; try tauto.
  intros [H|[]]. discriminate.
Qed.

Lemma outs_from_nodup pt src bs : forall i, NoDup (map fst (outs_from pt src i bs)).
Proof.
  induction bs as [|b rest IH]; intros i; [constructor|].
  cbn [outs_from]. rewrite map_app.
  apply nodup_app_intro; [apply outs_batch_nodup|apply IH|].
  intros k H1 H2.
  apply in_map_iff in H1. destruct H1 as [[k1 r1] [E1 H1]]. simpl in E1; subst k1.
  apply in_map_iff in H2. destruct H2 as [[k2 r2] [E2 H2]]. simpl in E2; subst k2.
  apply outs_batch_keys in H1. apply outs_from_keys in H2. lia.
Qed.

Lemma flat_map_map_fst {A B C} (g : A -> list C) (l : list (A * B)) :
  flat_map (fun e => g (fst e)) l = flat_map g (map fst l).
Proof. induction l as [|x r IH]; simpl; [reflexivity|rewrite IH; reflexivity]. Qed.

Lemma flat_map_ext_in' {A B} (f g : A -> list B) l :
  (forall x, In x l -> f x = g x) -> flat_map f l = flat_map g l.
Proof.
  induction l as [|x r IH]; intros H; simpl; [reflexivity|].
  rewrite (H x (or_introl eq_refl)), IH; [reflexivity|]. intros y Hy. apply H. right; exact Hy.
Qed.

Lemma nodup_keys_functional {K V} (l : list (K * V)) k v1 v2 :
  NoDup (map fst l) -> In (k, v1) l -> In (k, v2) l -> v1 = v2.
Proof.
  induction l as [|[k' v'] r IH]; simpl; intros Hnd H1 H2; [contradiction|].
  inversion Hnd as [|? ? Hn Hr]; subst.
  destruct H1 as [H1|H1], H2 as [H2|H2].
  - congruence.
  - inversion H1; subst. exfalso. apply Hn. change k with (fst (k, v2)). apply in_map. exact H2.
  - inversion H2; subst. exfalso. apply Hn. change k with (fst (k, v1)). apply in_map. exact H1.
  - eapply IH; eauto.
Qed.

(* ---------- all source chunks ---------- *)
Section Chunks.
  Variable pt : Z.
  Variable chunks : list (N * list row).
  Hypothesis chunks_nodup : NoDup (map fst chunks).

  Definition all_outs : list (nkey * list row) :=
    flat_map (fun c => outs pt (fst c) (snd c)) chunks.

  Lemma all_outs_in k r :
    In (k, r) all_outs <-> exists i rows, In (i, rows) chunks /\ In (k, r) (outs pt i rows).
  Proof.
    unfold all_outs. rewrite in_flat_map. split.
    - intros [[i rows] [H1 H2]]. exists i, rows. auto.
    - intros [i [rows [H1 H2]]]. exists (i, rows). auto.
  Qed.

  Lemma outs_src k r i rows : In (k, r) (outs pt i rows) -> nk_src k = i.
  Proof. unfold outs, outs_by. intros H. apply outs_from_keys in H. tauto. Qed.

  Lemma all_outs_nodup : NoDup (map fst all_outs).
  Proof.
    unfold all_outs. clear - chunks_nodup.
    induction chunks as [|[i rows] rest IH]; [constructor|].
    simpl in chunks_nodup. inversion chunks_nodup as [|? ? Hn Hr]; subst.
    cbn [flat_map fst snd]. rewrite map_app.
    apply nodup_app_intro.
    - unfold outs, outs_by. apply outs_from_nodup.
    - apply IH. exact Hr.
    - intros k H1 H2.
      apply in_map_iff in H1. destruct H1 as [[k1 r1] [E1 H1]]. simpl in E1; subst k1.
      apply in_map_iff in H2. destruct H2 as [[k2 r2] [E2 H2]]. simpl in E2; subst k2.
      apply outs_src in H1.
      apply in_flat_map in H2. destruct H2 as [[j rows'] [Hj H2]]. simpl in H2.
      apply outs_src in H2. apply Hn. rewrite <- H1, H2.
      change j with (fst (j, rows')). apply in_map. exact Hj.
  Qed.

  Lemma all_outs_functional k r1 r2 : In (k, r1) all_outs -> In (k, r2) all_outs -> r1 = r2.
  Proof. apply nodup_keys_functional. exact all_outs_nodup. Qed.

  Lemma sel_all_outs sd :
    flat_map (sel sd) all_outs = filter (side_filter sd pt) (flat_map snd chunks).
  Proof.
    unfold all_outs. clear chunks_nodup.
    induction chunks as [|[i rows] rest IH]; [reflexivity|].
    cbn [flat_map fst snd]. rewrite flat_map_app, filter_app, sel_outs, IH. reflexivity.
  Qed.

  (* Conservation: when the catalog of the new shards holds exactly the
     expected outputs (keys unique, every entry an expected output whose object
     has the expected content, every expected output registered), the rows a
     new shard serves are a permutation of the old rows on its side. *)
  Lemma rows_of_conserve s sd :
    NoDup (map fst (s_ncat s)) ->
    (forall k m, aget nkey_eqb k (s_ncat s) = Some m ->
       exists rows, In (k, rows) all_outs /\ aget nkey_eqb k (s_nobj s) = Some rows) ->
    (forall k rows, In (k, rows) all_outs -> aget nkey_eqb k (s_ncat s) <> None) ->
    Permutation (rows_of sd s) (filter (side_filter sd pt) (flat_map snd chunks)).
  Proof.
    intros Hnd Hok Hall.
    set (g := fun k : nkey => if side_eqb (nk_side k) sd
                then match aget nkey_eqb k (s_nobj s) with Some r => r | None => [] end else []).
    assert (E1 : rows_of sd s = flat_map g (map fst (s_ncat s))).
    { unfold rows_of. rewrite <- flat_map_map_fst. reflexivity. }
    rewrite E1.
    assert (P : Permutation (map fst (s_ncat s)) (map fst all_outs)).
    { apply NoDup_Permutation; [exact Hnd|exact all_outs_nodup|].
      intros k. split; intros H.
      - apply in_map_iff in H. destruct H as [[k' m] [E H]]. simpl in E; subst k'.
        apply (In_aget_nodup nkey_eqb nkey_eqb_spec) in H; [|exact Hnd].
        destruct (Hok _ _ H) as [rows [Hin _]].
        change k with (fst (k, rows)). apply in_map. exact Hin.
      - apply in_map_iff in H. destruct H as [[k' rows] [E H]]. simpl in E; subst k'.
        specialize (Hall _ _ H).
        destruct (aget nkey_eqb k (s_ncat s)) as [m|] eqn:Em; [|congruence].
        apply aget_In in Em; [|exact nkey_eqb_spec].
        change k with (fst (k, m)). apply in_map. exact Em. }
    rewrite (Permutation_flat_map g P).
    rewrite <- flat_map_map_fst.
    rewrite <- sel_all_outs.
    rewrite (flat_map_ext_in' (fun e => g (fst e)) (sel sd) all_outs); [reflexivity|].
    intros [k rows] Hin. unfold g, sel. cbn [fst snd].
    destruct (side_eqb (nk_side k) sd); [|reflexivity].
    specialize (Hall _ _ Hin).
    destruct (aget nkey_eqb k (s_ncat s)) as [m|] eqn:Em; [|congruence].
    destruct (Hok _ _ Em) as [rows' [Hin' Hobj]].
    rewrite Hobj. eapply all_outs_functional; eauto.
  Qed.
End Chunks.

(* ---------- path-order sort of the source chunks ---------- *)
Lemma insert_sorted_in x y l : In y (insert_sorted x l) <-> y = x \/ In y l.
Proof.
  induction l as [|z r IH]; simpl; [intuition|].
  destruct (N.leb x z); simpl; [intuition|]. rewrite IH. intuition.
Qed.

Lemma isort_in x l : In x (isort l) <-> In x l.
Proof.
  induction l as [|y r IH]; simpl; [tauto|].
  rewrite insert_sorted_in, IH. intuition.
Qed.

Lemma insert_sorted_nodup x l : ~ In x l -> NoDup l -> NoDup (insert_sorted x l).
Proof.
  induction l as [|z r IH]; simpl; intros Hn Hd.
  - constructor; [tauto|constructor].
  - destruct (N.leb x z).
    + constructor; [simpl; tauto|exact Hd].
    + inversion Hd as [|? ? Hz Hr]; subst. constructor.
      * rewrite insert_sorted_in. intros [E|H]; [subst; tauto|contradiction].
      * apply IH; [tauto|exact Hr].
Qed.

Lemma isort_nodup l : NoDup l -> NoDup (isort l).
Proof.
  induction l as [|y r IH]; simpl; intros Hd; [constructor|].
  inversion Hd as [|? ? Hn Hr]; subst.
  apply insert_sorted_nodup; [rewrite isort_in; exact Hn|apply IH; exact Hr].
Qed.

(* two duplicate-free lists with the same elements have the same length *)
Lemma nodup_same_length {A} (l1 l2 : list A) :
  NoDup l1 -> NoDup l2 -> (forall x, In x l1 <-> In x l2) -> length l1 = length l2.
Proof.
  intros H1 H2 H. apply Nat.le_antisymm; apply NoDup_incl_length; try assumption;
    intros x Hx; apply H; exact Hx.
Qed.
