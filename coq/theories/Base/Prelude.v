(* Base/Prelude.v — shared imports, outcome type, association lists.
   Plain stdlib only, so everything computes under vm_compute and extracts
   with ExtrOcamlBasic alone. *)
From Coq Require Export List ZArith NArith Bool Lia.
Export ListNotations.

Set Implicit Arguments.

(* i64 / u64 ranges, written with Z so nothing ever builds a big nat. *)
Definition i64_min : Z := - 2 ^ 63.
Definition i64_max : Z := 2 ^ 63 - 1.
Definition u64_max : Z := 2 ^ 64 - 1.
Definition in_i64 (z : Z) : bool := Z.leb i64_min z && Z.leb z i64_max.

(* Outcome of an operation of the implementation that may panic, hang or
   return an error.  Panics and hangs are never totalised away. *)
Inductive outcome (A : Type) : Type :=
| Done (a : A)          (* returned Ok *)
| Failed (code : N)     (* returned Err; small error enum chosen per model *)
| Panic                 (* the real code panics (debug build)            *)
| Hang.                 (* the real code does not come back (fuel exhausted in the model) *)
Arguments Done {A} a.
Arguments Failed {A} code.
Arguments Panic {A}.
Arguments Hang {A}.

(* ---------- association lists with an explicit key equality ---------- *)
Section AList.
  Context {K V : Type}.
  Variable eqb : K -> K -> bool.

  Fixpoint aget (k : K) (l : list (K * V)) : option V :=
    match l with
    | [] => None
    | (k', v) :: r => if eqb k k' then Some v else aget k r
    end.

  (* replace in place if present, otherwise append at the end *)
  Fixpoint aset (k : K) (v : V) (l : list (K * V)) : list (K * V) :=
    match l with
    | [] => [(k, v)]
    | (k', v') :: r => if eqb k k' then (k', v) :: r else (k', v') :: aset k v r
    end.

  Fixpoint adel (k : K) (l : list (K * V)) : list (K * V) :=
    match l with
    | [] => []
    | (k', v') :: r => if eqb k k' then adel k r else (k', v') :: adel k r
    end.

  Definition amem (k : K) (l : list (K * V)) : bool :=
    match aget k l with Some _ => true | None => false end.

  Definition akeys (l : list (K * V)) : list K := map fst l.
End AList.

(* membership in a list of N / Z *)
Fixpoint memN (x : N) (l : list N) : bool :=
  match l with [] => false | y :: r => N.eqb x y || memN x r end.
Fixpoint memZ (x : Z) (l : list Z) : bool :=
  match l with [] => false | y :: r => Z.eqb x y || memZ x r end.

Definition removeN (x : N) (l : list N) : list N := filter (fun y => negb (N.eqb y x)) l.

(* order-preserving de-duplication, first occurrence wins *)
Fixpoint dedupN_aux (seen : list N) (l : list N) : list N :=
  match l with
  | [] => []
  | x :: r => if memN x seen then dedupN_aux seen r else x :: dedupN_aux (x :: seen) r
  end.
Definition dedupN (l : list N) : list N := dedupN_aux [] l.
