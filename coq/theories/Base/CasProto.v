(* Base/CasProto.v — the generic load / decide / conditional-PUT retry machine
   (DESIGN.md Appendix A.1).  Definitions only; the theorems are in
   Proofs/CasProtoProofs.v.

   What it models (src/metadata/s3.rs): every mutating operation of
   ObjectStoreMetadataClient is one run of

       cas_retry!({ let (v, etag) = load_*_with_etag().await?;     -- GET(s)
                    <pure code on v: either `return Err/Ok` or a new value v'>
                    atomic_save_*(&v', etag).await?;                 -- conditional PUT
                    Ok(out) })

   (`acquire_lease` & co. spell the same loop out by hand).  `put_with_cas`
   sends PutMode::Create when the load found no object (etag "none") and
   PutMode::Update(etag) otherwise; AlreadyExists / Precondition become
   Error::Conflict, on which the macro sleeps (backoff) and starts the next
   attempt; after MAX_CAS_RETRIES conflicting attempts the result is
   Error::TooManyRetries.  Any other `Err`/early `return` of the body ends the
   operation without a PUT.

   ---------------------------------------------------------------------------
   INTERFACE (for instances: Model/Shard.v = C13, Model/CatalogCas.v = C02,
   the lease file = C08)

   Parameters of the section (become leading arguments after the section):
     V Op Out      value stored in the object / operation descriptor / output
     decide        : Z -> Op -> option V -> decision V Out
                     the pure body.  First argument = wall clock read when the
                     load has completed; `None` = the object does not exist.
                     `Commit v' o` = write v', then return o;
                     `Abort o`     = return o (an error or an early Ok)
                                     without writing.
     extra_gets    : nat   further GETs performed by a load that found the
                     object absent (catalog.json: 2, the legacy
                     chunks/metadata.json and time-index.json, both assumed
                     absent; every other object: 0)
     max_retries   : nat   MAX_CAS_RETRIES (use [N.to_nat Consts.MAX_CAS_RETRIES];
                     the machine is faithful for max_retries >= 1)

   Scheduler alphabet [label]:
     Req c    client c performs its next OBJECT-STORE REQUEST (one GET or one
              conditional PUT) and then runs on to its next request (all code
              between two requests is local and therefore invisible);
              a client with nothing left to do ignores the step
     Tick d   the shared clock advances by d (time never goes back)

   Program counter of a client [pc] (one operation in flight at a time):
     Idle                          between operations
     Loading op att k              first GET found the object absent, k more
                                   GETs of the same load remain (k >= 1)
     AfterLoad op att snap t v' o  load done at time t, decide said Commit v' o,
                                   the conditional PUT (Create if snap = None,
                                   Update(snap.ver) otherwise) is the next request
     Backoff op att                conflict seen, sleeping; next request is the
                                   GET of attempt number att (0-based)
   [step], [run := fold_left step], [init_sys v0 now0 progs].

   Observables of a state s:
     s_log s      every successful PUT, oldest first: client, op, value it
                  replaced ([k_prev], None = created), value written [k_val],
                  output, decide time [k_now], PUT time [k_put], ETag [k_ver]
     c_done (s_cl s c)   the finished operations of client c in program order,
                  each with FCommit o (written, returned o) | FAbort o (decide
                  aborted with o, nothing written) | FRetries (TooManyRetries,
                  nothing written)
     cur_val s    what a GET issued now would return

   Theorems (Proofs/CasProtoProofs.v), all for EVERY schedule, any number of
   clients, any programs, s := run decide extra_gets max_retries sched
   (init_sys v0 now0 progs):
     cas_linearizable     (1) chain decide v0 (s_log s): every commit was decided
                          against the version written by its predecessor;
                          (2) cur_val s = last_val v0 (s_log s);
                          (3) per client c: map op_out (by_client c (s_log s)) =
                          successes (c_done (s_cl s c)) -- its commits are exactly
                          its FCommit results, in program order, so FAbort /
                          FRetries operations wrote nothing;
                          (4) done ++ inflight ++ todo = progs c;
                          (5) every FAbort output is decide's answer to a version
                          that existed (hist)
     cas_sequential       cur_val s = seq_exec decide v0 (log_ops (s_log s))
                          (atomic one-at-a-time execution in commit order)
     cas_invariant        I v0, I preserved by committing decides  ==>  I holds
                          of every version ever written and of every cur_val
     cas_invariant_ops    the same when only operations satisfying P (which all
                          programs do) are known to preserve I
     cas_log_ops_in_progs every commit's operation is in its client's program
     cas_create_once      only the first commit can be a creation (k_prev = None),
                          and only when the object was absent initially
     cas_failures_write_nothing
     cas_times_ordered    times_chain: decide time <= PUT time <= decide time of
                          the next commit; last PUT <= s_now (for lease TTLs)
     run_invariant        carry an instance-specific state predicate P through
                          every run, with the generic invariant Inv (ETag /
                          snapshot facts: pc_ok) available in the step case
   How an instance uses them: see Model/Shard.v + Proofs/ShardProofs.v (C13) and
   Model/CatalogCas.v + Proofs/CatalogCasProofs.v (C02).  Harness side: the
   crate harness/props/cascommon drives real clients one request per step and
   returns the executed schedule; ocaml/drivers/c13_main.ml shows how a driver
   names the kind of every step (G / Pc+ / Pc- / Pu+ / Pu-).
   --------------------------------------------------------------------------- *)
From CS Require Import Base.Prelude.

Section Cas.
  Variables V Op Out : Type.

  Inductive decision : Type :=
  | Commit (v' : V) (o : Out)
  | Abort (o : Out).

  Variable decide : Z -> Op -> option V -> decision.
  Variable extra_gets : nat.
  Variable max_retries : nat.

  (* the object: its ETag (InMemory: a global counter) and its content *)
  Record obj : Type := mkObj { o_ver : N; o_val : V }.

  Inductive fin : Type :=
  | FCommit (o : Out)
  | FAbort (o : Out)
  | FRetries.

  Inductive pc : Type :=
  | Idle
  | Loading (op : Op) (att : nat) (k : nat)
  | AfterLoad (op : Op) (att : nat) (snap : option obj) (dnow : Z) (v' : V) (o : Out)
  | Backoff (op : Op) (att : nat).

  Record client : Type := mkClient {
    c_pc : pc;
    c_todo : list Op;
    c_done : list (Op * fin) }.

  Record commit : Type := mkCommit {
    k_now : Z;            (* time at which decide was evaluated *)
    k_put : Z;            (* time of the successful PUT *)
    k_client : nat;
    k_op : Op;
    k_prev : option V;    (* the version it replaced; None = created *)
    k_val : V;
    k_out : Out;
    k_ver : N }.          (* ETag given to the new version *)

  Record sys : Type := mkSys {
    s_cur : option obj;
    s_fresh : N;          (* next ETag *)
    s_now : Z;
    s_cl : nat -> client;
    s_log : list commit }.

  Inductive label : Type :=
  | Req (c : nat)
  | Tick (d : N).

  Definition upd (f : nat -> client) (c : nat) (x : client) : nat -> client :=
    fun c' => if Nat.eqb c' c then x else f c'.

  Definition set_client (s : sys) (c : nat) (x : client) : sys :=
    mkSys (s_cur s) (s_fresh s) (s_now s) (upd (s_cl s) c x) (s_log s).

  (* the load is complete with snapshot [snap]: the body runs up to its PUT *)
  Definition decided (s : sys) (cl : client) (todo : list Op) (op : Op) (att : nat)
             (snap : option obj) : client :=
    match decide (s_now s) op (option_map o_val snap) with
    | Commit v' o => mkClient (AfterLoad op att snap (s_now s) v' o) todo (c_done cl)
    | Abort o => mkClient Idle todo (c_done cl ++ [(op, FAbort o)])
    end.

  (* first GET of an attempt *)
  Definition do_get (s : sys) (cl : client) (todo : list Op) (op : Op) (att : nat) : client :=
    match s_cur s with
    | Some ob => decided s cl todo op att (Some ob)
    | None =>
        match extra_gets with
        | O => decided s cl todo op att None
        | S _ => mkClient (Loading op att extra_gets) todo (c_done cl)
        end
    end.

  (* PutMode::Create succeeds iff absent; PutMode::Update(etag) iff the ETag is current *)
  Definition put_ok (snap cur : option obj) : bool :=
    match snap, cur with
    | None, None => true
    | Some a, Some b => N.eqb (o_ver a) (o_ver b)
    | _, _ => false
    end.

  Definition step (s : sys) (l : label) : sys :=
    match l with
    | Tick d => mkSys (s_cur s) (s_fresh s) (s_now s + Z.of_N d)%Z (s_cl s) (s_log s)
    | Req c =>
        let cl := s_cl s c in
        match c_pc cl with
        | Idle =>
            match c_todo cl with
            | [] => s
            | op :: rest => set_client s c (do_get s cl rest op O)
            end
        | Backoff op att => set_client s c (do_get s cl (c_todo cl) op att)
        | Loading op att k =>
            match k with
            | S (S k') => set_client s c (mkClient (Loading op att (S k')) (c_todo cl) (c_done cl))
            | _ => set_client s c (decided s cl (c_todo cl) op att None)
            end
        | AfterLoad op att snap dnow v' o =>
            if put_ok snap (s_cur s) then
              mkSys (Some (mkObj (s_fresh s) v')) (N.succ (s_fresh s)) (s_now s)
                    (upd (s_cl s) c (mkClient Idle (c_todo cl) (c_done cl ++ [(op, FCommit o)])))
                    (s_log s ++ [mkCommit dnow (s_now s) c op (option_map o_val snap) v' o (s_fresh s)])
            else if Nat.leb max_retries (S att) then
              set_client s c (mkClient Idle (c_todo cl) (c_done cl ++ [(op, FRetries)]))
            else
              set_client s c (mkClient (Backoff op (S att)) (c_todo cl) (c_done cl))
        end
    end.

  Definition run (sched : list label) (s : sys) : sys := fold_left step sched s.

  (* the object initially holds v0 (None = absent); nobody has started *)
  Definition init_sys (v0 : option V) (now0 : Z) (progs : nat -> list Op) : sys :=
    mkSys (option_map (mkObj 0%N) v0) 1%N now0 (fun c => mkClient Idle (progs c) []) [].

  (* ---- observables ---- *)
  Definition cur_val (s : sys) : option V := option_map o_val (s_cur s).

  Definition versions (s : sys) : list V := map k_val (s_log s).

  Definition last_val (v0 : option V) (log : list commit) : option V :=
    fold_left (fun _ k => Some (k_val k)) log v0.

  (* the log is a sequential execution: every commit was decided against the
     version written by its predecessor *)
  Fixpoint chain (prev : option V) (log : list commit) : Prop :=
    match log with
    | [] => True
    | k :: r => k_prev k = prev /\
                decide (k_now k) (k_op k) prev = Commit (k_val k) (k_out k) /\
                chain (Some (k_val k)) r
    end.

  Definition successes (d : list (Op * fin)) : list (Op * Out) :=
    flat_map (fun x => match snd x with FCommit o => [(fst x, o)] | _ => [] end) d.

  Definition by_client (c : nat) (log : list commit) : list commit :=
    filter (fun k => Nat.eqb (k_client k) c) log.

  Definition op_out (k : commit) : Op * Out := (k_op k, k_out k).

  Definition inflight (p : pc) : list Op :=
    match p with
    | Idle => []
    | Loading op _ _ => [op]
    | AfterLoad op _ _ _ _ _ => [op]
    | Backoff op _ => [op]
    end.

  (* a version that existed: the initial one or one that was written *)
  Definition hist (v0 : option V) (log : list commit) (prev : option V) : Prop :=
    prev = v0 \/ exists k, In k log /\ prev = Some (k_val k).

  (* ---- the atomic (one-at-a-time) reading of the same operations: this is
     also what LocalMetadataClient does, its operations containing no await ---- *)
  Definition atomic (now : Z) (op : Op) (v : option V) : option V * fin :=
    match decide now op v with
    | Commit v' o => (Some v', FCommit o)
    | Abort o => (v, FAbort o)
    end.

  Definition seq_exec (v : option V) (l : list (Z * Op)) : option V :=
    fold_left (fun v x => fst (atomic (fst x) (snd x) v)) l v.

  Definition log_ops (log : list commit) : list (Z * Op) :=
    map (fun k => (k_now k, k_op k)) log.

  (* decide time <= PUT time of every commit, and each PUT precedes the decide
     of the commit that replaces its version; t = a lower bound for the first *)
  Fixpoint times_chain (t : Z) (log : list commit) : Prop :=
    match log with
    | [] => True
    | k :: r => (t <= k_now k)%Z /\ (k_now k <= k_put k)%Z /\ times_chain (k_put k) r
    end.

  Definition last_put (t : Z) (log : list commit) : Z :=
    fold_left (fun _ k => k_put k) log t.
End Cas.

Arguments Commit {V Out} v' o.
Arguments Abort {V Out} o.
Arguments mkObj {V} o_ver o_val.
Arguments o_ver {V} o.
Arguments o_val {V} o.
Arguments FCommit {Out} o.
Arguments FAbort {Out} o.
Arguments FRetries {Out}.
Arguments Idle {V Op Out}.
Arguments Loading {V Op Out} op att k.
Arguments AfterLoad {V Op Out} op att snap dnow v' o.
Arguments Backoff {V Op Out} op att.
Arguments mkClient {V Op Out} c_pc c_todo c_done.
Arguments c_pc {V Op Out} c.
Arguments c_todo {V Op Out} c.
Arguments c_done {V Op Out} c.
Arguments mkCommit {V Op Out} k_now k_put k_client k_op k_prev k_val k_out k_ver.
Arguments k_now {V Op Out} c.
Arguments k_put {V Op Out} c.
Arguments k_client {V Op Out} c.
Arguments k_op {V Op Out} c.
Arguments k_prev {V Op Out} c.
Arguments k_val {V Op Out} c.
Arguments k_out {V Op Out} c.
Arguments k_ver {V Op Out} c.
Arguments mkSys {V Op Out} s_cur s_fresh s_now s_cl s_log.
Arguments s_cur {V Op Out} s.
Arguments s_fresh {V Op Out} s.
Arguments s_now {V Op Out} s.
Arguments s_cl {V Op Out} s c.
Arguments s_log {V Op Out} s.
Arguments upd {V Op Out} f c x c'.
Arguments set_client {V Op Out} s c x.
Arguments decided {V Op Out} decide s cl todo op att snap.
Arguments do_get {V Op Out} decide extra_gets s cl todo op att.
Arguments put_ok {V} snap cur.
Arguments step {V Op Out} decide extra_gets max_retries s l.
Arguments run {V Op Out} decide extra_gets max_retries sched s.
Arguments init_sys {V Op Out} v0 now0 progs.
Arguments cur_val {V Op Out} s.
Arguments versions {V Op Out} s.
Arguments last_val {V Op Out} v0 log.
Arguments chain {V Op Out} decide prev log.
Arguments successes {Op Out} d.
Arguments by_client {V Op Out} c log.
Arguments op_out {V Op Out} k.
Arguments inflight {V Op Out} p.
Arguments hist {V Op Out} v0 log prev.
Arguments atomic {V Op Out} decide now op v.
Arguments seq_exec {V Op Out} decide v l.
Arguments log_ops {V Op Out} log.
Arguments times_chain {V Op Out} t log.
Arguments last_put {V Op Out} t log.
