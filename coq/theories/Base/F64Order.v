(* Base/F64Order.v — order facts about IEEE-754 binary64 (Flocq) used by the
   predicate properties: an order embedding of the non-NaN floats into the
   reals, and monotonicity of the integer -> f64 conversion (`n as f64`,
   round to nearest even) for every integer. *)
From Coq Require Import ZArith Reals Lra Lia Bool.
From Flocq Require Import Core IEEE754.BinarySingleNaN IEEE754.Binary IEEE754.Bits.
Open Scope Z_scope.

(* `n as f64` for n : i64 / u64 *)
Definition Z2F (z : Z) : binary64 :=
  binary_normalize 53 1024 (eq_refl Lt) (eq_refl Lt) mode_NE z 0 false.

Definition f_nan (x : binary64) : bool := is_nan 53 1024 x.

Definition big : R := bpow radix2 1024.

(* order embedding: finite floats by their value, the infinities just outside *)
Definition fE (x : binary64) : R :=
  match x with
  | B754_infinity _ _ s => if s then (- big)%R else big
  | _ => B2R 53 1024 x
  end.

Lemma big_pos : (0 < big)%R.
Proof. apply bpow_gt_0. Qed.

Lemma fE_finite_bound : forall x : binary64, is_finite 53 1024 x = true -> (- big < fE x < big)%R.
Proof.
  intros x Hf.
  assert (Hb := abs_B2R_lt_emax 53 1024 x).
  destruct x; try discriminate; unfold fE; fold big in Hb;
    apply Rabs_lt_inv in Hb; exact Hb.
Qed.

Lemma b64_compare_E : forall x y : binary64,
  f_nan x = false -> f_nan y = false ->
  b64_compare x y = Some (Rcompare (fE x) (fE y)).
Proof.
  intros x y Hx Hy. unfold b64_compare.
  destruct (is_finite 53 1024 x) eqn:Fx, (is_finite 53 1024 y) eqn:Fy.
  - rewrite (Bcompare_correct 53 1024 x y Fx Fy).
    destruct x, y; try discriminate; reflexivity.
  - assert (Bx := fE_finite_bound x Fx).
    destruct y as [ | sy | | ]; try discriminate.
    assert (Hc : Bcompare 53 1024 x (B754_infinity 53 1024 sy) = Some (if sy then Gt else Lt))
      by (destruct x; try discriminate; reflexivity).
    rewrite Hc. f_equal. symmetry. cbn [fE].
    destruct sy; [apply Rcompare_Gt | apply Rcompare_Lt]; lra.
  - assert (By := fE_finite_bound y Fy).
    destruct x as [ | sx | | ]; try discriminate.
    assert (Hc : Bcompare 53 1024 (B754_infinity 53 1024 sx) y = Some (if sx then Lt else Gt))
      by (destruct y; try discriminate; reflexivity).
    rewrite Hc. f_equal. symmetry. cbn [fE].
    destruct sx; [apply Rcompare_Lt | apply Rcompare_Gt]; lra.
  - destruct x as [ | sx | | ], y as [ | sy | | ]; try discriminate.
    assert (P := big_pos). cbn [fE].
    destruct sx, sy; cbn; f_equal; symmetry;
      first [ apply Rcompare_Eq; reflexivity | apply Rcompare_Lt; lra | apply Rcompare_Gt; lra ].
Qed.

Lemma b64_compare_nan_l : forall x y : binary64, f_nan x = true -> b64_compare x y = None.
Proof. intros x y H. destruct x; try discriminate. destruct y; reflexivity. Qed.
Lemma b64_compare_nan_r : forall x y : binary64, f_nan y = true -> b64_compare x y = None.
Proof. intros x y H. destruct y; try discriminate. destruct x; reflexivity. Qed.

Lemma b64_compare_some : forall (x y : binary64) c,
  b64_compare x y = Some c ->
  f_nan x = false /\ f_nan y = false /\ c = Rcompare (fE x) (fE y).
Proof.
  intros x y c H.
  destruct (f_nan x) eqn:Nx. { rewrite (b64_compare_nan_l x y Nx) in H. discriminate. }
  destruct (f_nan y) eqn:Ny. { rewrite (b64_compare_nan_r x y Ny) in H. discriminate. }
  rewrite (b64_compare_E x y Nx Ny) in H. inversion H. auto.
Qed.

(* ---- integer -> f64 ---- *)
Definition rnd (r : R) : R := round radix2 (SpecFloat.fexp 53 1024) ZnearestE r.
Definition clamp (r : R) : R := Rmax (- big) (Rmin big r).

Lemma fexp64_valid : Valid_exp (SpecFloat.fexp 53 1024).
Proof. exact (fexp_correct 53 1024 (eq_refl Lt)). Qed.

Lemma clamp_mono : forall a b, (a <= b)%R -> (clamp a <= clamp b)%R.
Proof.
  intros a b H. unfold clamp.
  apply Rle_max_compat_l. apply Rle_min_compat_l. exact H.
Qed.

Lemma rnd_mono : forall a b, (a <= b)%R -> (rnd a <= rnd b)%R.
Proof.
  intros a b H. unfold rnd. apply round_le; [exact fexp64_valid | apply valid_rnd_N | exact H].
Qed.

Lemma rnd_0 : rnd 0 = 0%R.
Proof. unfold rnd. apply round_0. apply valid_rnd_N. Qed.

Lemma Z2F_spec : forall z : Z,
  f_nan (Z2F z) = false /\ fE (Z2F z) = clamp (rnd (IZR z)).
Proof.
  intros z.
  assert (HF : F2R (Float radix2 z 0) = IZR z).
  { unfold F2R. cbn. lra. }
  generalize (binary_normalize_correct 53 1024 (eq_refl Lt) (eq_refl Lt) mode_NE z 0 false).
  fold (Z2F z). rewrite HF. cbn [round_mode]. fold (rnd (IZR z)). fold big.
  assert (P := big_pos).
  destruct (Rlt_bool_spec (Rabs (rnd (IZR z))) big) as [Hlt | Hge].
  - intros (Hr & Hfin & _).
    apply Rabs_lt_inv in Hlt.
    split.
    + unfold f_nan. destruct (Z2F z); try discriminate; reflexivity.
    + assert (fE (Z2F z) = B2R 53 1024 (Z2F z)) as -> by (destruct (Z2F z); try discriminate; reflexivity).
      rewrite Hr. unfold clamp.
      rewrite Rmin_right by lra. rewrite Rmax_right by lra. reflexivity.
  - intros Hov.
    unfold binary_overflow, BinarySingleNaN.binary_overflow in Hov. cbn in Hov.
    destruct (Rlt_bool_spec (IZR z) 0) as [Hneg | Hpos].
    + assert (Hz : Z2F z = B754_infinity 53 1024 true).
      { destruct (Z2F z); try discriminate. cbn in Hov. inversion Hov. reflexivity. }
      rewrite Hz. split; [reflexivity|]. cbn [fE].
      assert (Hr0 : (rnd (IZR z) <= 0)%R).
      { rewrite <- rnd_0. apply rnd_mono. lra. }
      rewrite Rabs_left1 in Hge by exact Hr0.
      unfold clamp. rewrite Rmin_right by lra. rewrite Rmax_left by lra. reflexivity.
    + assert (Hz : Z2F z = B754_infinity 53 1024 false).
      { destruct (Z2F z); try discriminate. cbn in Hov. inversion Hov. reflexivity. }
      rewrite Hz. split; [reflexivity|]. cbn [fE].
      assert (Hr0 : (0 <= rnd (IZR z))%R).
      { rewrite <- rnd_0. apply rnd_mono. lra. }
      rewrite Rabs_pos_eq in Hge by exact Hr0.
      unfold clamp. rewrite Rmin_left by lra. rewrite Rmax_right by lra. reflexivity.
Qed.

Lemma Z2F_not_nan : forall z, f_nan (Z2F z) = false.
Proof. intros z. apply Z2F_spec. Qed.

Lemma Z2F_mono : forall a b : Z, a <= b -> (fE (Z2F a) <= fE (Z2F b))%R.
Proof.
  intros a b H.
  rewrite (proj2 (Z2F_spec a)), (proj2 (Z2F_spec b)).
  apply clamp_mono, rnd_mono, IZR_le, H.
Qed.
