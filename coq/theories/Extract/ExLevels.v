(* Extraction of the compaction model (C20): ExtrOcamlBasic only. *)
From Coq Require Extraction.
From Coq Require Import ExtrOcamlBasic.
From CS Require Import Base.Prelude Model.Catalog Model.Compaction.
Extraction Language OCaml.

Extraction "../ocaml/gen/levels_model.ml"
  s3_backend local_backend cycle s3_init local_init s3_apply local_apply cat_empty lcat_empty
  s3_rows local_rows b_rows mkIn mkCfg mkMeta measure next_free.
