(* Extraction of the CAS machine instantiated for shard metadata (C13):
   ExtrOcamlBasic only. *)
From Coq Require Extraction.
From Coq Require Import ExtrOcamlBasic.
From CS Require Import Base.Prelude Base.CasProto Model.CasFault Model.Shard.
Extraction Language OCaml.

Extraction "../ocaml/gen/shard_model.ml" shard_step shard_init shard_fstep shard_finit local_update router_apply router_gen
  mkShard mkSop cur_val.
