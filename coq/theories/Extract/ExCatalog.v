(* Extraction of the catalog model (C07, C02, C20): ExtrOcamlBasic only. *)
From Coq Require Extraction.
From Coq Require Import ExtrOcamlBasic.
From CS Require Import Base.Prelude Model.Catalog.
Extraction Language OCaml.

Extraction "../ocaml/gen/catalog_model.ml" s3_apply local_apply s3_get local_get s3_list local_list
  cat_empty lcat_empty spec_apply spec_get mkMeta.
