(* Extraction of the statistics-pruning model (C12): ExtrOcamlBasic only. *)
From Coq Require Extraction.
From Coq Require Import ExtrOcamlBasic.
From Flocq Require Import IEEE754.BinarySingleNaN IEEE754.Binary IEEE754.Bits.
From CS Require Import Base.Prelude Base.F64Order Model.StatsPrune.
Extraction Language OCaml.

Extraction "../ocaml/gen/prune_model.ml" eval_stats eval_stats_shared_arms gate sat esat
  in_statsb within known_mixed convert convert_negation_dropped
  b64_of_bits bits_of_b64 Z2F mkStats.
