(* Extraction of the write-routing model (C19): ExtrOcamlBasic only. *)
From Coq Require Extraction.
From Coq Require Import ExtrOcamlBasic.
From CS Require Import Base.Prelude Model.Router.
From CSGen Require Import Consts.
Extraction Language OCaml.

Extraction "../ocaml/gen/router_model.ml" step init_state mkHashes mkNode can_accept_writes
  ROUTER_LOAD_THRESHOLD ROUTER_VIRTUAL_NODES ROUTER_MAX_ROUTE_ATTEMPTS.
