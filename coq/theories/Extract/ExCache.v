(* Extraction of the cache model (C16): ExtrOcamlBasic only. *)
From Coq Require Extraction.
From Coq Require Import ExtrOcamlBasic.
From CS Require Import Base.Prelude Model.Cache.
Extraction Language OCaml.

Extraction "../ocaml/gen/cache_model.ml" init apply_event run result_of store_read view
  store_put in_l1 in_l2 uses_cache seq_run sop_sched lenN.
