(* Extraction of the time-range / predicate extraction model (C04): ExtrOcamlBasic only. *)
From Coq Require Extraction.
From Coq Require Import ExtrOcamlBasic.
From CS Require Import Base.Prelude Model.Pred Model.Catalog Model.TimeExtract.
Extraction Language OCaml.

Extraction "../ocaml/gen/timeextract_model.ml" extract plan_preds bounds mentions_ts convert
  sem sat_all mkInterp mkRow resolve select_chunks
  known_empty_selection_schema register run_query full_scan qnode_fresh.
