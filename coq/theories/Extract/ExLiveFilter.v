(* Extraction of the live-filter model (C18): ExtrOcamlBasic only. *)
From Coq Require Extraction.
From Coq Require Import ExtrOcamlBasic.
From CS Require Import Base.Prelude Model.LiveFilter.
Extraction Language OCaml.

Extraction "../ocaml/gen/livefilter_model.ml" from_sql apply spec_apply known_class supported
  cols_present wf_batch ts_col_ok matches tf_and recv tstep trun drain delivered mkBatch mkMeta.
