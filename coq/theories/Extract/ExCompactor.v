(* Extraction of the compaction-procedure model (C03): ExtrOcamlBasic only. *)
From Coq Require Extraction.
From Coq Require Import ExtrOcamlBasic.
From CS Require Import Base.Prelude Model.Catalog Model.Compactor.
Extraction Language OCaml.

Extraction "../ocaml/gen/compactor_model.ml" init step run known_class bad_step quiescent visible
  rows_at present level_of get_proc lease_live.
