(* Extraction of the CAS machine instantiated for the catalog (C02):
   ExtrOcamlBasic only. *)
From Coq Require Extraction.
From Coq Require Import ExtrOcamlBasic.
From CS Require Import Base.Prelude Base.CasProto Model.CasFault Model.Catalog Model.CatalogCas.
Extraction Language OCaml.

Extraction "../ocaml/gen/catalogcas_model.ml" cat_step cat_init cat_fstep cat_finit cur_val s3_list s3_apply cat_of mkMeta.
