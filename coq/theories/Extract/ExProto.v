(* Extraction of the ingest-protocol model (C17): ExtrOcamlBasic only. *)
From Coq Require Extraction.
From Coq Require Import ExtrOcamlBasic.
From CS Require Import Base.Prelude Model.Proto Model.ProtoConv Model.Otlp.
Extraction Language OCaml.

Extraction "../ocaml/gen/proto_model.ml"
  parse_write_request convert handle route route_legacy utf8_lossy enc_request
  current legacy mkLabel mkSample mkSeries
  export_to_arrow known_int_precision known_time_wrap mkKV mkNP mkHP mkSP mkMetric mkRM.
