(* Extraction of the dual-write / split-time read model (C15): ExtrOcamlBasic only. *)
From Coq Require Extraction.
From Coq Require Import ExtrOcamlBasic.
From CS Require Import Base.Prelude Model.Dedup.
Extraction Language OCaml.

Extraction "../ocaml/gen/dedup_model.ml" dedup_batches init_state hstep hrun flush_buffer query_state run_query
  known_class split_batch_by_key has_active_split old_rows new_rows written_rows
  mkRow mkBatch mkIBatch mkWhere mkQuery mkChunk run_backfill add_hist.
