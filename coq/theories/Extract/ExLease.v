(* Extraction of the lease model (C08): ExtrOcamlBasic only. *)
From Coq Require Extraction.
From Coq Require Import ExtrOcamlBasic.
From CS Require Import Base.Prelude Base.CasProto Model.Lease.
Extraction Language OCaml.

Extraction "../ocaml/gen/lease_model.ml" s3_run s3_init local_step local_cfg s3_cfg cur_val exclb
  mkLState ls_tab ls_outs ls_now s_log s_cl s_now c_done k_val k_now k_put k_client.
