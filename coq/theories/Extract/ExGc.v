(* Extraction of the GC / retention / pin model (C09): ExtrOcamlBasic only. *)
From Coq Require Extraction.
From Coq Require Import ExtrOcamlBasic.
From CS Require Import Base.Prelude Model.Gc.
Extraction Language OCaml.

Extraction "../ocaml/gen/gc_model.ml" step init mkCfg default_skew ret_cutoff
  drv_begin drv_delete drv_finish drv_restart drv_begin_x drv_delete_x drv_finish_x
  pin_in_window deletes.
