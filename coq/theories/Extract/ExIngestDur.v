(* Extraction of the durable ingest model (C01): ExtrOcamlBasic only. *)
From Coq Require Extraction.
From Coq Require Import ExtrOcamlBasic.
From CS Require Import Base.Prelude Model.Ingest Model.IngestDur.
Extraction Language OCaml.

Extraction "../ocaml/gen/ingestdur_model.ml" dinit dmacro dstep drun durable_b known_class classify
  acked_sbs mkDcfg mkCfg mkBatch mkRow.
