(* Extraction of the splitter model (C14): ExtrOcamlBasic only. *)
From Coq Require Extraction.
From Coq Require Import ExtrOcamlBasic.
From CS Require Import Base.Prelude Model.Split.
Extraction Language OCaml.

Extraction "../ocaml/gen/split_model.ml" run_script init_state rows_of dangling mkShard calc_split_point.
