(* Extraction of the shared-table-binding model (C10): ExtrOcamlBasic only. *)
From Coq Require Extraction.
From Coq Require Import ExtrOcamlBasic.
From CS Require Import Base.Prelude Model.QueryBind.
Extraction Language OCaml.

(* the shared OCaml conversions (conv.ml) expect the extracted number types *)
Definition querybind_model_tag : Z * N := (10%Z, 10%N).

Extraction "../ocaml/gen/querybind_model.ml" querybind_model_tag run run_ev run_cmds init init_bound captured result visible
  proto_fixed proto_unlocked_plan sel.
