(* Extraction of the ingest model (C06): ExtrOcamlBasic only. *)
From Coq Require Extraction.
From Coq Require Import ExtrOcamlBasic.
From CS Require Import Base.Prelude Model.Ingest.
Extraction Language OCaml.

Extraction "../ocaml/gen/ingest_model.ml" init macro macro_run step run quiescent acked_rows accepted_rows
  cat_rows buf_rows inflight_rows mkCfg mkBatch mkRow.
