(* Extraction of the write-ahead-log model (C05, C01): ExtrOcamlBasic only.
   in_i64 is listed only so that the extracted module has the type z that the
   shared ocaml/drivers/conv.ml refers to. *)
From Coq Require Extraction.
From Coq Require Import ExtrOcamlBasic.
From CS Require Import Base.Prelude Model.Wal.
Extraction Language OCaml.

Extraction "../ocaml/gen/wal_model.ml" init step op_ok read_entries read_entries_after
  load_flushed top_seq crc32 lenN in_i64 flush_ops ensure_wal_ops.
