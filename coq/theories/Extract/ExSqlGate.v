(* Extraction of the SQL admission model (C11): ExtrOcamlBasic only. *)
From Coq Require Extraction.
From Coq Require Import ExtrOcamlBasic.
From CS Require Import Base.Prelude Model.SqlGate.
Extraction Language OCaml.

(* the shared OCaml conversions (conv.ml) expect the extracted number types *)
Definition sqlgate_model_tag : Z * N := (11%Z, 11%N).

Extraction "../ocaml/gen/sqlgate_model.ml" sqlgate_model_tag submit effects admitted admitted_with opts_unrestricted
  opts_read_only run_sites_unrestricted iface_sites site_call.
