(* modelrun-c02: runs the extracted CAS machine instantiated for catalog.json
   (Model/CatalogCas.v over Base/CasProto.v and Model/Catalog.v).
   One case per line:

   S|progs=<ops c0>/<ops c1>/...|sched=<c>,<c>,...
        op = R <p> <min> <max> <rows> <size> | D <p> | C <tgt> [<src>,<src>,...]    (ops separated by ';')
        sched = the clients in the order in which they perform one object-store request each;
                <c>b / <c>a inject a transport fault into that request (fails before / after taking
                effect); fault steps run on Model/CasFault.v, which no theorem covers
     -> steps=<c>:<kind>,...|res=<r;r>/<r>|vers=<version>#<version>...|final=<set>
        kind = G | Pc+ | Pc- | Pu+ | Pu-  (faults: Gx, Pcx/Pux, Pc!/Pu! applied+error, Pc~/Pu~)
        r = ok | err | retries | fault
        version = <p>:<min>:<max>:<rows>:<size>:<level>,...(sorted by p)@<bucket>=<p>.<p>,...(sorted by bucket)
        final = <p>:<min>:<max>:<rows>:<size>,... sorted by p  (list_chunks at quiescence)            *)

let rec nat_of_int (i : int) : nat = if i <= 0 then O else S (nat_of_int (i - 1))

let field (k : string) (fs : string list) : string =
  let p = k ^ "=" in
  let n = String.length p in
  match List.find_opt (fun f -> String.length f >= n && String.sub f 0 n = p) fs with
  | Some f -> String.sub f n (String.length f - n)
  | None -> ""

let parse_op (tok : string) : cop =
  match split_on ' ' (String.trim tok) with
  | ["R"; p; mn; mx; rows; size] ->
      ORegister (n_of_string p, { m_min = z_of_string mn; m_max = z_of_string mx;
                                  m_rows = n_of_string rows; m_size = n_of_string size })
  | ["D"; p] -> ODelete (n_of_string p)
  | "C" :: tgt :: rest ->
      let srcs = match rest with [] -> [] | [s] -> List.map n_of_string (split_on ',' s) | _ -> failwith "bad C" in
      OComplete (srcs, n_of_string tgt)
  | _ -> failwith ("bad op: " ^ tok)

let parse_ops (t : string) : cop list =
  List.map parse_op (List.filter (fun x -> String.trim x <> "") (split_on ';' t))

(* Z as an OCaml int for sorting buckets (they fit: |bucket| < 2^62 in the generated cases) *)
let show_version (c : cat) : string =
  let chunks = List.map (fun (p, e) ->
      (int_of_n p, Printf.sprintf "%s:%s:%s:%s:%s:%s" (string_of_n p) (string_of_z e.e_meta.m_min)
                     (string_of_z e.e_meta.m_max) (string_of_n e.e_meta.m_rows) (string_of_n e.e_meta.m_size)
                     (string_of_n e.e_level))) c.c_chunks in
  let chunks = List.map snd (List.sort compare chunks) in
  let idx = List.map (fun (b, l) ->
      (Int64.of_string (string_of_z b),
       Printf.sprintf "%s=%s" (string_of_z b) (String.concat "." (List.map string_of_n l)))) c.c_tindex in
  let idx = List.map snd (List.sort compare idx) in
  String.concat "," chunks ^ "@" ^ String.concat "," idx

let show_list (l : (path * cmeta) list) : string =
  let items = List.map (fun (p, m) ->
      (int_of_n p, Printf.sprintf "%s:%s:%s:%s:%s" (string_of_n p) (string_of_z m.m_min) (string_of_z m.m_max)
                     (string_of_n m.m_rows) (string_of_n m.m_size))) l in
  String.concat "," (List.map snd (List.sort compare items))

let show_fin (f : n option fin) : string =
  match f with
  | FCommit _ -> "ok"
  | FAbort (Some _) -> "err"
  | FAbort None -> "fault"
  | FRetries -> "retries"

let parse_step (t : string) : int * faction =
  let t = String.trim t in
  let n = String.length t in
  match t.[n - 1] with
  | 'b' -> (int_of_string (String.sub t 0 (n - 1)), FailBefore)
  | 'a' -> (int_of_string (String.sub t 0 (n - 1)), FailAfter)
  | _ -> (int_of_string t, Proceed)

let run_sched (fs : string list) : string =
  let progs : cop list array =
    Array.of_list (List.map parse_ops (String.split_on_char '/' (field "progs" fs))) in
  let ncl = Array.length progs in
  let rec idx (c : nat) (i : int) : int = match c with O -> i | S c' -> idx c' (i + 1) in
  let pf (c : nat) : cop list = let i = idx c 0 in if i < ncl then progs.(i) else [] in
  let m = ref (cat_finit None pf) in
  let results = Array.make ncl [] in
  let steps = ref [] in
  List.iter (fun t ->
    let (c, act) = parse_step t in
    let cn = nat_of_int c in
    let before = !m in
    let cl = before.s_cl cn in
    if c >= ncl || (cl.c_pc = Idle && cl.c_todo = []) then steps := Printf.sprintf "%d:-" c :: !steps
    else begin
      let kind = match cl.c_pc with
        | AfterLoad (_, _, snap, _, _, _) -> (match snap with None -> "Pc" | Some _ -> "Pu")
        | _ -> "G" in
      let after = cat_fstep before (FReq (cn, act)) in
      m := after;
      let applied = List.length after.s_log > List.length before.s_log in
      let kind =
        match act with
        | Proceed -> if kind = "G" then kind else if applied then kind ^ "+" else kind ^ "-"
        | FailBefore -> kind ^ "x"
        | FailAfter -> if kind = "G" then kind ^ "x" else if applied then kind ^ "!" else kind ^ "~" in
      steps := Printf.sprintf "%d:%s" c kind :: !steps;
      let d0 = cl.c_done and d1 = (after.s_cl cn).c_done in
      if List.length d1 > List.length d0 then begin
        let (_, f) = List.nth d1 (List.length d1 - 1) in
        results.(c) <- show_fin f :: results.(c)
      end
    end)
    (List.filter (fun x -> String.trim x <> "") (split_on ',' (field "sched" fs)));
  let res = String.concat "/" (Array.to_list (Array.map (fun l -> String.concat ";" (List.rev l)) results)) in
  let vers = String.concat "#" (List.map (fun k -> show_version k.k_val) !m.s_log) in
  let final = show_list (s3_list (cat_of (cur_val !m))) in
  Printf.sprintf "steps=%s|res=%s|vers=%s|final=%s" (String.concat "," (List.rev !steps)) res vers final

let run_line (line : string) : string =
  match String.split_on_char '|' line with
  | "S" :: fs -> run_sched fs
  | _ -> failwith "bad line"

let () = serve run_line
