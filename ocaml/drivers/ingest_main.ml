(* modelrun-ingest: runs the extracted ingest model (Model/Ingest.v, C06) on
   one scenario per line, at yield-point granularity (macro steps).

   Input  (fields separated by '|'):
     C <flush_rows> <flush_bytes> <max_bytes> <interval>
     W <batch>;<batch>;...          one field per writer, in writer order
                                    batch = <schema>:<size>:<id>,<ts>,<id>,<ts>,...
     S <label> <label> ...          W<i> | T | A<d> | X
   Output (fields separated by '|'):
     steps=<rows>,<bytes>,<batches>,<chunks>/...   buffer stats + catalog size after each label
     res=<o|f per finished write>/...               per writer (o = Ok, f = BufferFull)
     cat=<chunk>;...      sorted;  chunk = <count>:<min>:<max>:<id>.<id>...
     ann=<chunk>;...      in send order (legacy channel)
     tann=<chunk>;...     in send order (topic channel)
     q=<0|1>              quiescent                                                   *)

let rec nat_of_int (i : int) : nat = if i <= 0 then O else S (nat_of_int (i - 1))

let parse_rows (s : string) : row list =
  let rec go = function
    | id :: ts :: rest -> { r_id = n_of_string id; r_ts = z_of_string ts } :: go rest
    | [] -> []
    | _ -> failwith "odd row list" in
  go (split_on ',' s)

let parse_batch (s : string) : batch =
  match String.split_on_char ':' s with
  | [sch; size; rows] -> { b_schema = n_of_string sch; b_rows = parse_rows rows; b_size = n_of_string size }
  | _ -> failwith ("bad batch: " ^ s)

let parse_label (s : string) : label =
  match s.[0] with
  | 'W' -> LW (nat_of_int (int_of_string (String.sub s 1 (String.length s - 1))))
  | 'T' -> LT
  | 'A' -> LAdv (z_of_string (String.sub s 1 (String.length s - 1)))
  | 'X' -> LShut
  | _ -> failwith ("bad label: " ^ s)

let rec len_n (l : 'a list) : int = List.length l

let show_chunk (c : chunk) : string =
  Printf.sprintf "%s:%s:%s:%s" (string_of_n c.k_count) (string_of_z c.k_min) (string_of_z c.k_max)
    (String.concat "." (List.map (fun r -> string_of_n r.r_id) c.k_rows))

let run_line (line : string) : string =
  let fields = String.split_on_char '|' line in
  let cfg = ref None and todos = ref [] and sched = ref [] in
  List.iter (fun f ->
    let f = String.trim f in
    if f = "" then () else
    match f.[0] with
    | 'C' -> (match split_on ' ' f with
              | [_; a; b; c; d] -> cfg := Some { cf_flush_rows = n_of_string a; cf_flush_bytes = n_of_string b;
                                                 cf_max_bytes = n_of_string c; cf_interval = z_of_string d }
              | _ -> failwith "bad C")
    | 'W' -> let body = String.trim (String.sub f 1 (String.length f - 1)) in
             todos := !todos @ [List.map parse_batch (split_on ';' body)]
    | 'S' -> let body = String.trim (String.sub f 1 (String.length f - 1)) in
             sched := List.map parse_label (List.filter (fun x -> x <> "") (split_on ' ' body))
    | _ -> failwith ("bad field: " ^ f)) fields;
  let c = match !cfg with Some c -> c | None -> failwith "no cfg" in
  let s = ref (init !todos) in
  let steps = List.map (fun l ->
    s := macro c l !s;
    let sh = !s.st_sh in
    Printf.sprintf "%s,%s,%d,%d" (string_of_n sh.sh_buf.bf_rows) (string_of_n sh.sh_buf.bf_bytes)
      (List.length sh.sh_buf.bf_batches) (List.length sh.sh_cat)) !sched in
  let sh = !s.st_sh in
  let res = List.map (fun w -> String.concat "," (List.map (fun (_, ok) -> if ok then "o" else "f") w.w_res)) !s.st_ws in
  let cat = List.sort compare (List.map show_chunk sh.sh_cat) in
  Printf.sprintf "steps=%s|res=%s|cat=%s|ann=%s|tann=%s|q=%d"
    (String.concat "/" steps) (String.concat "/" res) (String.concat ";" cat)
    (String.concat ";" (List.map show_chunk sh.sh_ann))
    (String.concat ";" (List.map show_chunk sh.sh_tann))
    (if quiescent !s then 1 else 0)

let () = serve run_line
