(* modelrun-livefilter: runs the extracted live-filter model (C18).
   One case per line, fields separated by '|'.

   F|<merge>|<where>|<nrows>|<col>|<col>...
       <where> = "-" (no WHERE) or a prefix-notation token list:
                 I x<hex> | N <int> | D <f64bits> | S x<hex> | T | F | U | M e | P e | O
                 | B <eq|ne|lt|le|gt|ge|and|or|oth> e e
       <col>   = x<namehex> <i|f|s|t|o> v1 ... vn     (v = "_" for null; strings x<hex>)
     -> preds=<p;p;...>|out=<batch>|spec=<batch>|class=<0|1>|ok=<0|1>
        p = c(op,x<hex>,val) | a(p,p) | o(p,p);  val = i<int> | f<bits> | s<x hex> | b0 | b1 | n
        batch = NONE | <nrows>/x<name>:<type>:v,v,.../...

   T|<tfilter>|<event>|<event>...
       <tfilter> = A | H x<hex> | E <tenant> | M <k> x<hex>*k | & <k> f*k | + <k> f*k | Z f f (builder a.and(b))
       <event>   = s x<shard> <tenant> <id> x<metric>* | r
     -> recv=<id or ->,...|drain=<ids>|all=<ids>|match=<0|1 per send>                       *)

let hex_of_str (s : str) : string =
  "x" ^ String.concat "" (List.map (fun b -> Printf.sprintf "%02x" (int_of_n b)) s)

let str_of_hex (h : string) : str =
  if String.length h = 0 || h.[0] <> 'x' then failwith ("bad hex " ^ h) else
  let n = (String.length h - 1) / 2 in
  List.init n (fun i -> n_of_int (int_of_string ("0x" ^ String.sub h (1 + 2 * i) 2)))

let rec nat_of_int (i : int) : nat = if i <= 0 then O else S (nat_of_int (i - 1))
let rec int_of_nat (x : nat) : int = match x with O -> 0 | S y -> 1 + int_of_nat y

(* ---- where clause ---- *)
let binop_of = function
  | "eq" -> BEq | "ne" -> BNe | "lt" -> BLt | "le" -> BLe | "gt" -> BGt | "ge" -> BGe
  | "and" -> BAnd | "or" -> BOr | "oth" -> BOther | s -> failwith ("bad op " ^ s)

let rec parse_expr (toks : string list) : sexpr * string list =
  match toks with
  | "I" :: h :: r -> (EIdent (str_of_hex h), r)
  | "N" :: v :: r -> (ENum (NTInt (z_of_string v)), r)
  | "D" :: v :: r -> (ENum (NTDec (z_of_string v)), r)
  | "S" :: h :: r -> (EStr (str_of_hex h), r)
  | "T" :: r -> (EBool true, r)
  | "F" :: r -> (EBool false, r)
  | "U" :: r -> (ENull, r)
  | "O" :: r -> (EOther, r)
  | "M" :: r -> let (e, r') = parse_expr r in (ENeg e, r')
  | "P" :: r -> let (e, r') = parse_expr r in (ENested e, r')
  | "B" :: op :: r ->
      let (a, r1) = parse_expr r in
      let (b, r2) = parse_expr r1 in
      (EBin (binop_of op, a, b), r2)
  | _ -> failwith "bad where"

let parse_where (s : string) : sexpr option =
  if String.trim s = "-" then None
  else
    let (e, rest) = parse_expr (List.filter (fun t -> t <> "") (split_on ' ' (String.trim s))) in
    if rest <> [] then failwith "trailing where tokens" else Some e

(* ---- batches ---- *)
let parse_col (s : string) : str * column =
  match List.filter (fun t -> t <> "") (split_on ' ' (String.trim s)) with
  | name :: ty :: vals ->
      let optz v = if v = "_" then None else Some (z_of_string v) in
      let c = match ty with
        | "i" -> CInt (List.map optz vals)
        | "f" -> CFloat (List.map optz vals)
        | "t" -> CTs (List.map optz vals)
        | "o" -> COther (List.map optz vals)
        | "s" -> CStr (List.map (fun v -> if v = "_" then None else Some (str_of_hex v)) vals)
        | _ -> failwith "bad column type" in
      (str_of_hex name, c)
  | _ -> failwith "bad column"

let show_col ((name, c) : str * column) : string =
  let sz = function None -> "_" | Some z -> string_of_z z in
  let (ty, vals) = match c with
    | CInt v -> ("i", List.map sz v)
    | CFloat v -> ("f", List.map sz v)
    | CTs v -> ("t", List.map sz v)
    | COther v -> ("o", List.map sz v)
    | CStr v -> ("s", List.map (function None -> "_" | Some s -> hex_of_str s) v) in
  Printf.sprintf "%s:%s:%s" (hex_of_str name) ty (String.concat "," vals)

let show_batch (b : batch option) : string =
  match b with
  | None -> "NONE"
  | Some b -> String.concat "/" (string_of_int (int_of_nat b.b_rows) :: List.map show_col b.b_cols)

let show_val = function
  | PStr s -> "s" ^ hex_of_str s
  | PInt z -> "i" ^ string_of_z z
  | PFloat z -> "f" ^ string_of_z z
  | PBool true -> "b1" | PBool false -> "b0"
  | PNull -> "n"

let show_op = function OpEq -> "eq" | OpNe -> "ne" | OpLt -> "lt" | OpLe -> "le" | OpGt -> "gt" | OpGe -> "ge"

let rec show_pred = function
  | PCmp (op, col, v) -> Printf.sprintf "c(%s,%s,%s)" (show_op op) (hex_of_str col) (show_val v)
  | PAnd (a, b) -> Printf.sprintf "a(%s,%s)" (show_pred a) (show_pred b)
  | POr (a, b) -> Printf.sprintf "o(%s,%s)" (show_pred a) (show_pred b)

let bit b = if b then "1" else "0"

let run_filter (fields : string list) : string =
  match fields with
  | merge :: where :: nrows :: cols ->
      let sel = parse_where where in
      let b = { b_rows = nat_of_int (int_of_string (String.trim nrows));
                b_cols = List.map parse_col (List.filter (fun c -> String.trim c <> "") cols) } in
      let m = z_of_string (String.trim merge) in
      let f = from_sql sel in
      let ok = wf_batch b && ts_col_ok b &&
               (match sel with Some w -> supported w && cols_present w b | None -> true) in
      Printf.sprintf "preds=%s|out=%s|spec=%s|class=%s|ok=%s"
        (String.concat ";" (List.map show_pred f))
        (show_batch (apply f b m)) (show_batch (spec_apply sel b m))
        (bit (known_class sel b)) (bit ok)
  | _ -> failwith "bad F line"

(* ---- topic filters ---- *)
let rec take_n (k : int) (p : string list -> 'a * string list) (toks : string list) : 'a list * string list =
  if k = 0 then ([], toks) else
  let (x, r) = p toks in
  let (xs, r') = take_n (k - 1) p r in
  (x :: xs, r')

let rec parse_tf (toks : string list) : tfilter * string list =
  match toks with
  | "A" :: r -> (TAll, r)
  | "H" :: h :: r -> (TShard (str_of_hex h), r)
  | "E" :: t :: r -> (TTenant (n_of_string t), r)
  | "M" :: k :: r ->
      let (ms, r') = take_n (int_of_string k) (function h :: r -> (str_of_hex h, r) | [] -> failwith "bad M") r in
      (TMetrics ms, r')
  | "&" :: k :: r -> let (fs, r') = take_n (int_of_string k) parse_tf r in (TAnd fs, r')
  | "+" :: k :: r -> let (fs, r') = take_n (int_of_string k) parse_tf r in (TOr fs, r')
  | "Z" :: r -> let (a, r1) = parse_tf r in let (b, r2) = parse_tf r1 in (tf_and a b, r2)
  | _ -> failwith "bad tfilter"

let run_topic (fields : string list) : string =
  match fields with
  | tf :: evs ->
      let (f, rest) = parse_tf (List.filter (fun t -> t <> "") (split_on ' ' (String.trim tf))) in
      if rest <> [] then failwith "trailing tfilter tokens" else
      let st = ref ([], []) in
      let recvs = ref [] and matched = ref [] and all_evs = ref [] in
      List.iter (fun e ->
        match List.filter (fun t -> t <> "") (split_on ' ' (String.trim e)) with
        | "s" :: shard :: tenant :: id :: metrics ->
            let m = { bm_shard = str_of_hex shard; bm_tenant = n_of_string tenant;
                      bm_metrics = List.map str_of_hex metrics } in
            let ev = TSend (m, int_of_string id) in
            matched := bit (matches f m) :: !matched;
            all_evs := ev :: !all_evs;
            st := tstep f !st ev
        | ["r"] ->
            let before = List.length (snd !st) in
            st := tstep f !st TRecv;
            all_evs := TRecv :: !all_evs;
            let d = snd !st in
            recvs := (if List.length d > before then string_of_int (List.nth d before) else "-") :: !recvs
        | [] -> ()
        | _ -> failwith "bad event") evs;
      let ids l = String.concat "," (List.map string_of_int l) in
      Printf.sprintf "recv=%s|drain=%s|all=%s|match=%s"
        (String.concat "," (List.rev !recvs))
        (ids (drain f (fst !st)))
        (ids (delivered f (List.rev !all_evs)))
        (String.concat "," (List.rev !matched))
  | _ -> failwith "bad T line"

let run_line (line : string) : string =
  match String.split_on_char '|' line with
  | "F" :: rest -> run_filter rest
  | "T" :: rest -> run_topic rest
  | _ -> failwith "bad line"

let () = serve run_line
