(* router_main.ml — model runner for C19: one membership / routing history per line.

   Input line (tokens separated by ';', fields by ' '):
     S <0 ConsistentHash | 1 RoundRobin | 2 LoadBased>
     VH <node> <h0,h1,...>        hash_key("<node>:<i>") for i = 0.. (u64, decimal)
     SH <shard> <h>               hash_key(<shard>)
     REG <n> <type 0 Ingester|1 Query|2 Combined> <status 0 Healthy|1 Suspected|2 Failed|3 Draining> <load>
         [<capacity> <shards s+s+..|-> <addr variant> <heartbeat age s>]   (capacity/addr/age: ignored by the model)
     ST <n> <status> | HB <n> | DR <n> | LD <n> <load> | RM <n>
     AG <n> <secs>                the node's last heartbeat is set <secs> seconds into the past
     HC <timeout> <n:age,...|->   one sweep of run_health_checks (ages in whole seconds)
     RB <order>                   order = n,n,... registry iteration order ("-" = empty)
     RT <shard> <order>
     RTI <shard> <order|order|..> <spec>   (iteration order before the call, then at every pause point: another
                                  task's register_node can rehash the registry's HashMap)
                                  route_write with interference at the pause point between assignment and
                                  lookup; spec = attempts separated by '/', mutations by '+', fields by '.':
                                  ST.<n>.<status> | LD.<n>.<load> | RM.<n> | _ (nothing); used cyclically
     OB
   or the single word `consts`.
   Output line: one token per operation, separated by ';':
     <result>|A=<shard>:<node>,...|L=<node>:<shard>+<shard>...,...
   result:  -  | hb:0/1 | moves=s:old:new,... | ok:<node> | err:<code> | reg=n:type:status:load,...
   A route that does not return is the single token `noreturn`; the history stops there. *)

let status_of = function "0" -> Healthy | "1" -> Suspected | "2" -> NFailed | _ -> Draining
let status_code = function Healthy -> 0 | Suspected -> 1 | NFailed -> 2 | Draining -> 3
let type_of = function "0" -> Ingester | "1" -> Query | _ -> Combined
let type_code = function Ingester -> 0 | Query -> 1 | Combined -> 2

let order_of (s : string) : n list =
  if s = "-" || s = "" then [] else List.map n_of_string (split_on ',' s)

let show_obs (st : state) : string =
  let a = List.sort compare (List.map (fun (s, n) -> (int_of_n s, int_of_n n)) st.st_asg) in
  let l = List.sort compare
      (List.map (fun (n, i) -> (int_of_n n, List.sort compare (List.map int_of_n i.n_shards))) st.st_reg) in
  Printf.sprintf "A=%s|L=%s"
    (String.concat "," (List.map (fun (s, n) -> Printf.sprintf "%d:%d" s n) a))
    (String.concat "," (List.map (fun (n, sh) ->
         Printf.sprintf "%d:%s" n (String.concat "+" (List.map string_of_int sh))) l))

let show_reg (st : state) : string =
  let r = List.sort compare
      (List.map (fun (n, i) -> (int_of_n n, type_code i.n_type, status_code i.n_status, int_of_n i.n_load)) st.st_reg) in
  "reg=" ^ String.concat "," (List.map (fun (n, t, s, l) -> Printf.sprintf "%d:%d:%d:%d" n t s l) r)

let regop_of (t : string) : regop list =
  match split_on '.' t with
  | ["ST"; n; stt] -> [RStatus (n_of_string n, status_of stt)]
  | ["LD"; n; l] -> [RLoad (n_of_string n, n_of_string l)]
  | ["RM"; n] -> [RRemove (n_of_string n)]
  | ["_"] | [] -> []
  | _ -> failwith ("bad interference op: " ^ t)

let spec_of (s : string) : regop list list =
  List.map (fun att -> List.concat (List.map regop_of (split_on '+' att))) (split_on '/' s)

exception Stop

let run_line (line : string) : string =
  if String.trim line = "consts" then
    Printf.sprintf "vnodes=%s threshold=%s attempts=%s"
      (string_of_n rOUTER_VIRTUAL_NODES) (string_of_n rOUTER_LOAD_THRESHOLD) (string_of_n rOUTER_MAX_ROUTE_ATTEMPTS)
  else begin
    let strat = ref ConsistentHash in
    let vh : (int * z list) list ref = ref [] and sh : (int * z) list ref = ref [] in
    let hashes = { vnode_hashes = (fun n -> try List.assoc (int_of_n n) !vh with Not_found -> []);
                   shard_hash = (fun s -> try List.assoc (int_of_n s) !sh with Not_found -> Z0) } in
    let st = ref init_state in
    let outs = ref [] in
    let emit r = outs := (r ^ "|" ^ show_obs !st) :: !outs in
    let apply o =
      let (st', r) = step !strat hashes !st o in
      st := st';
      match r with
      | RUnit -> emit "-"
      | RBool b -> emit (if b then "hb:1" else "hb:0")
      | RMoves m ->
          let m = List.sort compare (List.map (fun ((s, o), n) -> (int_of_n s, int_of_n o, int_of_n n)) m) in
          emit ("moves=" ^ String.concat "," (List.map (fun (s, o, n) -> Printf.sprintf "%d:%d:%d" s o n) m))
      | RRoute (Done n) -> emit ("ok:" ^ string_of_n n)
      | RRoute (Failed c) -> emit ("err:" ^ string_of_n c)
      | RRoute Panic -> emit "panic"
      | RRoute Hang -> outs := "noreturn" :: !outs; raise Stop
    in
    (try
       List.iter (fun tok ->
           match List.filter (fun x -> x <> "") (split_on ' ' (String.trim tok)) with
           | [] -> ()
           | ["S"; s] -> strat := (match s with "0" -> ConsistentHash | "1" -> RoundRobin | _ -> LoadBased)
           | ["VH"; n; hs] -> vh := (int_of_string n, List.map z_of_string (split_on ',' hs)) :: !vh
           | ["VH"; n] -> vh := (int_of_string n, []) :: !vh
           | ["SH"; s; h] -> sh := (int_of_string s, z_of_string h) :: !sh
           | ["REG"; n; ty; stt; load] -> apply (ORegister (n_of_string n, type_of ty, status_of stt, n_of_string load, []))
           | ["REG"; n; ty; stt; load; _cap; shl; _addr; _hb] ->
               (* capacity, address and heartbeat age are varied by the harness; routing must not depend on them *)
               let shl = if shl = "-" then [] else List.map n_of_string (split_on '+' shl) in
               apply (ORegister (n_of_string n, type_of ty, status_of stt, n_of_string load, shl))
           | ["ST"; n; stt] -> apply (OSetStatus (n_of_string n, status_of stt))
           | ["HB"; n] -> apply (OHeartbeat (n_of_string n))
           | ["DR"; n] -> apply (ODrain (n_of_string n))
           | ["LD"; n; load] -> apply (OLoad (n_of_string n, n_of_string load))
           | ["RM"; n] -> apply (ORemove (n_of_string n))
           | ["AG"; _; _] -> emit "-"   (* heartbeat age set by the harness; reaches the model through HC *)
           | ["HC"; t; ages] ->
               let ages = if ages = "-" then [] else
                   List.map (fun kv -> match split_on ':' kv with
                       | [n; a] -> (n_of_string n, z_of_string a) | _ -> failwith "bad age") (split_on ',' ages) in
               apply (OHealthCheck (z_of_string t, ages))
           | ["RB"; o] -> apply (ORebalance (order_of o))
           | ["RB"] -> apply (ORebalance [])
           | ["RT"; s; o] -> apply (ORoute (n_of_string s, order_of o))
           | ["RT"; s] -> apply (ORoute (n_of_string s, []))
           | ["RTI"; s; o; sp] ->
               (* o = order before the call | order at the 1st pause | order at the 2nd pause ... *)
               apply (ORouteI (n_of_string s, List.map order_of (split_on '|' o), spec_of sp))
           | ["OB"] -> emit (show_reg !st)
           | _ -> failwith ("bad op: " ^ tok)) (split_on ';' line)
     with Stop -> ());
    String.concat ";" (List.rev !outs)
  end

let () = serve run_line
