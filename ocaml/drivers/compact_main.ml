(* modelrun-compact: runs the extracted compaction-procedure model (C03) on a
   dataset and a request-level schedule.
   Input line:   <L|S>|<chunks>|<labels>
     chunks : p:level:r,r,r  separated by ';'
     labels : separated by ';'
        l c            a candidates call of compactor c (it sees the catalog)
        s c f g,g,g    acquire_lease on the group     f = o | b | a  (ok / fail before / fail after)
        x c f          next request of compactor c
        r c lid        renewal task of c for lease lid fires
        d c p f        GC delete of pending path p
        v c            scavenge_leases
        k c            crash of c
        t secs         clock tick
   Output line:  one token per label, separated by ';', then '#class=<n>;q=<0|1>'
     token = kind:arg:status@<catalog>@<leases>
       catalog = p:level:r.r.r (rows in object order, '-' when the object is gone) joined by ','  sorted by p
       leases  = id:status:live:c.c.c (chunks sorted) joined by ',' sorted by id                     *)

let fault_of = function "o" -> FOk | "b" -> FBefore | "a" -> FAfter | s -> failwith ("bad fault " ^ s)

let nlist (s : string) : n list =
  if s = "" || s = "-" then [] else List.map n_of_string (split_on ',' s)

let show_cat (s : state) : string =
  let items = List.map (fun (p, lv) ->
    let rows = if present s p then String.concat "." (List.map string_of_n (rows_at s p)) else "-" in
    (int_of_n p, Printf.sprintf "%s:%s:%s" (string_of_n p) (string_of_n lv) rows)) s.s_cat in
  String.concat "," (List.map snd (List.sort compare items))

let show_leases (s : state) : string =
  let items = List.map (fun (id, l) ->
    let ch = List.sort compare (List.map int_of_n l.l_chunks) in
    (int_of_n id, Printf.sprintf "%s:%s:%s:%s" (string_of_n id) (string_of_n l.l_status)
       (if lease_live s.s_clock l then "1" else "0")
       (String.concat "." (List.map string_of_int ch)))) s.s_leases in
  String.concat "," (List.map snd (List.sort compare items))

let parse_label (tok : string) : label =
  match split_on ' ' (String.trim tok) with
  | ["l"; c] -> LList (n_of_string c)
  | ["s"; c; f; g] -> LStart (n_of_string c, nlist g, fault_of f)
  | ["s"; c; f] -> LStart (n_of_string c, [], fault_of f)
  | ["x"; c; f] -> LStep (n_of_string c, fault_of f)
  | ["r"; c; l] -> LRenew (n_of_string c, n_of_string l)
  | ["d"; c; p; f] -> LDel (n_of_string c, n_of_string p, fault_of f)
  | ["v"; c] -> LScav (n_of_string c)
  | ["k"; c] -> LCrash (n_of_string c)
  | ["t"; d] -> LTick (z_of_string d)
  | _ -> failwith ("bad label: " ^ tok)

let parse_chunk (tok : string) : (path * n) * row list =
  match String.split_on_char ':' (String.trim tok) with
  | [p; lv; rows] -> ((n_of_string p, n_of_string lv), nlist rows)
  | [p; lv] -> ((n_of_string p, n_of_string lv), [])
  | _ -> failwith ("bad chunk: " ^ tok)

let run_line (line : string) : string =
  match String.split_on_char '|' line with
  | [bk; chunks; labels] ->
      let s0 = init (bk = "L") (List.map parse_chunk (split_on ';' chunks)) in
      let labs = List.map parse_label (List.filter (fun t -> String.trim t <> "") (split_on ';' labels)) in
      let s = ref s0 in
      let toks = List.map (fun lb ->
        let (s', ((k, a), st)) = step !s lb in
        s := s';
        Printf.sprintf "%s:%s:%s@%s@%s" (string_of_n k) (string_of_n a) (string_of_n st)
          (show_cat s') (show_leases s')) labs in
      Printf.sprintf "%s#class=%s;q=%s" (String.concat ";" toks)
        (string_of_n (known_class s0 labs)) (if quiescent !s then "1" else "0")
  | _ -> failwith "bad line"

let () = serve run_line
