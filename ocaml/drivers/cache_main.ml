(* modelrun-cache: runs the extracted cache model (Model/Cache.v, C16) on one
   history.  Input line: tokens separated by ';'
     C <l2on>                          first token: 1 = an L2 is configured
     P <k> <etag> <mtime_ns> <hex>     new-object write (PutMode::Create)        -> ok | E5
     E <k>                             TieredCache::invalidate(k) was called        -> -
                                       (no model event: whether and when the entry is
                                       gone is the eviction oracle's business and is
                                       read off the <obs> of the following reads; foyer
                                       was observed to serve a key again after `remove`
                                       when its flush to disk was still in flight)
     R <req> <obs>                     sequential read                            -> <res>@<tier>
     S <req> <obs>                     a concurrent reader arrives and runs up to
                                       its inner-store request (or completes)     -> <res>@<tier> | parked@<tier>
     W <i>                             reader i's inner request proceeds, reader
                                       runs to completion                         -> <res>
     S <req> W                         the reader arrived but neither completed nor
                                       reached the inner store (it waits for another
                                       reader): arrival only                      -> blocked
     K <i>                             waiting reader i has reached the inner store -> parked
     F <i>                             waiting reader i has completed by itself     -> <res>
   <req> = G k | O k range if_match if_none_match if_mod if_unmod version head | N k s e | H k
           range = - | b<s>-<e> | o<n> | s<n>;   etag condition = - | * | e (empty) | t1,t2,...
           dates = - | <ns>;  version, head = 0 | 1
   <obs> = what the implementation's hit/miss counters reported for this read:
           1 (L1 hit) | 2 (L2 hit) | M (both missed) | B (bypass).  It is the
           cache oracle's choice: a lookup the implementation reported as a miss
           is performed as EStepMiss (the tier answers "nothing"; the model keeps
           whatever was inserted), a reported hit as a plain EStep, and the model
           reports the tier that answered IN THE MODEL - a hit the model cannot
           reproduce (nothing was ever inserted under that key) shows up as a
           different tier.
   Readers are numbered by arrival (R and S), from 0.
   <res> = ok:<len>:<fnv1a64 of the bytes>:<lo>-<hi>:<size>  (get, get_opts)
         | ok:<len>:<fnv>  (get_range) | ok:size=<n>  (head) | E<code> | PANIC | HANG *)

let rec int_of_pos (p : positive) : int =
  match p with XH -> 1 | XO q -> 2 * int_of_pos q | XI q -> 2 * int_of_pos q + 1
let fast_int_of_n (x : n) : int = match x with N0 -> 0 | Npos p -> int_of_pos p
let rec pos_of_int (i : int) : positive =
  if i = 1 then XH else if i land 1 = 0 then XO (pos_of_int (i lsr 1)) else XI (pos_of_int (i lsr 1))
let fast_n_of_int (i : int) : n = if i = 0 then N0 else Npos (pos_of_int i)
let rec nat_of_int (i : int) : nat = if i <= 0 then O else S (nat_of_int (i - 1))

let bytes_of_hex (h : string) : n list =
  if h = "-" then [] else
  let len = String.length h / 2 in
  List.init len (fun i -> fast_n_of_int (int_of_string ("0x" ^ String.sub h (2 * i) 2)))

let fnv (l : n list) : int64 =
  List.fold_left (fun h b -> Int64.mul (Int64.logxor h (Int64.of_int (fast_int_of_n b))) 0x100000001b3L)
    0xcbf29ce484222325L l

(* get / get_opts hand back a GetResult (bytes, range, meta.size); get_range only bytes; head only the size *)
let show_res (q : req) (o : resp outcome) : string =
  match o with
  | Done r ->
      (match q with
       | QGetRange _ -> Printf.sprintf "ok:%d:%016Lx" (List.length r.r_data) (fnv r.r_data)
       | QHead _ -> "ok:size=" ^ string_of_n r.r_size
       | _ -> Printf.sprintf "ok:%d:%016Lx:%s-%s:%s" (List.length r.r_data) (fnv r.r_data)
                (string_of_n r.r_lo) (string_of_n r.r_hi) (string_of_n r.r_size))
  | Failed c -> "E" ^ string_of_n c
  | Panic -> "PANIC"
  | Hang -> "HANG"

let opt (f : string -> 'a) (s : string) : 'a option = if s = "-" then None else Some (f s)

let parse_range (s : string) : range =
  let rest = String.sub s 1 (String.length s - 1) in
  match s.[0] with
  | 'b' -> (match String.split_on_char '-' rest with
            | [a; b] -> RBounded (n_of_string a, n_of_string b)
            | _ -> failwith "bad range")
  | 'o' -> ROffset (n_of_string rest)
  | 's' -> RSuffix (n_of_string rest)
  | _ -> failwith "bad range"

let parse_cond (s : string) : etagc =
  if s = "*" then EStar else if s = "e" then ETags [] else ETags (List.map n_of_string (split_on ',' s))

(* returns the request and the remaining fields *)
let parse_req (f : string list) : req * string list =
  match f with
  | "G" :: k :: rest -> (QGet (n_of_string k), rest)
  | "O" :: k :: r :: im :: inm :: md :: um :: v :: h :: rest ->
      (QGetOpts (n_of_string k,
                 { g_range = opt parse_range r; g_if_match = opt parse_cond im;
                   g_if_none_match = opt parse_cond inm; g_if_mod = opt z_of_string md;
                   g_if_unmod = opt z_of_string um; g_version = (v = "1"); g_head = (h = "1") }), rest)
  | "N" :: k :: s :: e :: rest -> (QGetRange (n_of_string k, n_of_string s, n_of_string e), rest)
  | "H" :: k :: rest -> (QHead (n_of_string k), rest)
  | _ -> failwith "bad request"

let pc_of (s : sys) (i : int) : pc =
  match nth_error s.s_threads (nat_of_int i) with Some t -> t.t_pc | None -> failwith "no such reader"

let run_line (line : string) : string =
  let toks = List.map String.trim (split_on ';' line) in
  let l2on, toks = match toks with
    | hd :: tl -> (match split_on ' ' hd with ["C"; x] -> (x = "1", tl) | _ -> failwith "missing C token")
    | [] -> failwith "empty" in
  let st = ref (init [] l2on) in
  let readers = ref 0 in
  let ev e = st := apply_event !st e in
  (* arrival: runs the reader up to its inner-store request; returns (finished result or None, tier) *)
  let arrive (q : req) (obs : string) : int * resp outcome option * string =
    let i = !readers in
    incr readers;
    ev (EStart q);
    let step () = ev (EStep (nat_of_int i)) in
    let miss () = ev (EStepMiss (nat_of_int i)) in
    if obs = "W" then (i, None, "W") else
    (match pc_of !st i with
     | PBypass -> (i, None, "B")
     | _ ->
       if obs = "1" then step () else miss ();
       (match pc_of !st i with
        | PDone r -> (i, Some r, "1")
        | _ ->
          if obs = "M" then miss () else step ();
          (match pc_of !st i with
           | PPromote _ -> step ();
               (match pc_of !st i with PDone r -> (i, Some r, "2") | _ -> failwith "promotion did not complete")
           | PFetch -> (i, None, "M")
           | _ -> failwith "unexpected pc after the L2 lookup")))
  in
  let finish (i : int) : resp outcome =
    let rec go n =
      match pc_of !st i with
      | PDone r -> r
      | _ -> if n = 0 then Hang else (ev (EStep (nat_of_int i)); go (n - 1)) in
    go 6 in
  let outs = List.map (fun tok ->
    match split_on ' ' tok with
    | ["P"; k; etag; mtime; hex] ->
        let o = { o_data = bytes_of_hex hex; o_etag = n_of_string etag; o_mtime = z_of_string mtime } in
        let k = n_of_string k in
        let (_, rc) = store_put (!st).s_store k o in
        ev (EPut (k, o));
        (match rc with Done _ -> "ok" | Failed c -> "E" ^ string_of_n c | Panic -> "PANIC" | Hang -> "HANG")
    | ["E"; _] -> "-"
    | "R" :: rest ->
        let (q, rest) = parse_req rest in
        let obs = (match rest with [o] -> o | _ -> failwith "bad R") in
        let (i, r, tier) = arrive q obs in
        let r = (match r with Some r -> r | None -> finish i) in
        show_res q r ^ "@" ^ tier
    | "S" :: rest ->
        let (q, rest) = parse_req rest in
        let obs = (match rest with [o] -> o | _ -> failwith "bad S") in
        let (_, r, tier) = arrive q obs in
        (match r with
         | Some r -> show_res q r ^ "@" ^ tier
         | None -> if tier = "W" then "blocked" else "parked@" ^ tier)
    | ["K"; i] ->
        (* a reader that was waiting has reached the inner store: both lookups came back empty *)
        let i = int_of_string i in
        (match pc_of !st i with
         | PStart -> ev (EStepMiss (nat_of_int i)); ev (EStepMiss (nat_of_int i))
         | PL2 -> ev (EStepMiss (nat_of_int i))
         | _ -> ());
        "parked"
    | ["F"; i] ->
        (* a reader that was waiting has completed without being seen at the inner store *)
        let i = int_of_string i in
        let q = (match nth_error (!st).s_threads (nat_of_int i) with Some t -> t.t_req | None -> failwith "no such reader") in
        show_res q (finish i)
    | ["W"; i] ->
        let i = int_of_string i in
        let q = (match nth_error (!st).s_threads (nat_of_int i) with Some t -> t.t_req | None -> failwith "no such reader") in
        show_res q (finish i)
    | _ -> failwith ("bad op: " ^ tok)) toks in
  String.concat ";" outs

let () = serve run_line
