(* modelrun-c10: runs the extracted model of the shared `metrics` binding (C10).
   Input line:   <proto> <bound> <faults> <sets> <mode> <items>
     faults = id,id | -                  queries for which reading one of their chunk files fails
     bound  = c,c,c | -                  chunk set `metrics` is bound to when the schedule starts
     proto  = fixed | unlocked           (plan under the lock | lock released before planning)
     sets   = id:c,c,c;id:c,...          chunk set selected for each query (may be empty: "3:")
     mode   = cmds  with items  S1,S2,R1,C2   (Start i / Resume i / Cancel i, the harness's commands)
            | sched with items  1,1,2,1,...   (one atomic step of that query per entry)
   Output line: q<id>=<visible set or ->;...   in the order of `sets`
     visible = chunks scanned by the query that belong to its own selection (the
     rows it returns come from exactly these); - = the query did not complete;
     ! = a query with an injected failure or a cancelled one (its own outcome is not compared) *)

let parse_sets (s : string) : (n * n list) list =
  List.map (fun item ->
    match String.split_on_char ':' item with
    | [id; cs] -> (n_of_string id, List.map n_of_string (split_on ',' cs))
    | [id] -> (n_of_string id, [])
    | _ -> failwith ("bad set " ^ item)) (split_on ';' s)

let show_set (l : n list) : string =
  match l with [] -> "{}" | _ -> String.concat "," (List.map string_of_n l)

let run_line (line : string) : string =
  match split_on ' ' (String.trim line) with
  | [proto; bound; faults; sets; mode; items] ->
      let proto = (match proto with "fixed" -> proto_fixed | "unlocked" -> proto_unlocked_plan | _ -> failwith "bad proto") in
      let sets = parse_sets sets in
      let ids = List.map fst sets in
      let faults = (if faults = "-" then [] else List.map n_of_string (split_on ',' faults)) in
      let cancelled = ref [] in
      let bound = (if bound = "-" then [] else List.map n_of_string (split_on ',' bound)) in
      let st =
        (match mode with
         | "cmds" ->
             let cs = List.map (fun t ->
               let id = n_of_string (String.sub t 1 (String.length t - 1)) in
               match t.[0] with 'S' -> Start id | 'R' -> Resume id | 'C' -> (cancelled := id :: !cancelled; Cancel id) | _ -> failwith ("bad cmd " ^ t)) (split_on ',' items) in
             run_cmds faults proto sets cs [] (init_bound bound ids)
         | "sched" -> run proto sets (List.map n_of_string (split_on ',' items)) (init_bound bound ids)
         | _ -> failwith "bad mode") in
      String.concat ";" (List.map (fun id ->
        Printf.sprintf "q%s=%s" (string_of_n id)
          (if List.mem id faults || List.mem id !cancelled then "!"
           else match visible sets st id with Some v -> show_set v | None -> "-")) ids)
  | _ -> failwith ("bad line: " ^ line)

let () = serve run_line
