(* modelrun-split: runs the extracted splitter model (Model/Split.v) on a case.
   Input line:   <lo> <hi> <min_t> <max_t> <gen>;<chunks>;<script>
     chunks  = i=id@ts,id@ts|i=...          (source chunks of the old shard)
     script  = plan/plan/...                 (first plan: execute_split, then resumes)
     plan    = k:FB,k:FA,k:CB,k:CA           (may be empty)
   Output: one block per run, separated by " ## ":
     <result>|<number of requests>|<request trace>|<state>
   followed by the rows served by the new shards.  `{c/t}` stands for the f64
   quotient c/t (expanded by the harness). *)

let rec nat_of_int (i : int) : nat = if i <= 0 then O else S (nat_of_int (i - 1))
let rec int_of_nat (n : nat) : int = match n with O -> 0 | S m -> 1 + int_of_nat m

let phase_letter = function
  | PhPrep -> "P" | PhDual -> "D" | PhBackfill -> "B" | PhCutover -> "C" | PhCleanup -> "L"
let ophase_letter = function None -> "-" | Some p -> phase_letter p
let flag b = if b then "1" else "0"
let side_letter = function SA -> "a" | SB -> "b"
let shard_letter = function ShOld -> "o" | ShNew s -> side_letter s
let state_letter = function StActive -> "A" | StSplitting -> "S" | StPending -> "P"

let progress_text (p : progress) : string =
  let done_ = List.sort compare (List.map int_of_n p.pg_done) in
  Printf.sprintf "%s,%s%s%s,%s,%s,%s" (ophase_letter p.pg_phase) (flag p.pg_a) (flag p.pg_b) (flag p.pg_old)
    (String.concat "+" (List.map (fun i -> "s" ^ string_of_int i) done_))
    (string_of_n p.pg_total) (string_of_z p.pg_point)

let key_text (k : nkey) : string =
  Printf.sprintf "%s%s.%s" (side_letter k.nk_side) (string_of_n k.nk_src) (string_of_n k.nk_batch)

let tag_text (t : tag) : string =
  match t with
  | TPp p -> "Pp(" ^ progress_text p ^ ")"
  | TPg -> "Pg" | TPd -> "Pd"
  | TMs pt -> "Ms(" ^ string_of_z pt ^ ")"
  | TMq -> "Mq"
  | TMu (ph, n, d) -> Printf.sprintf "Mu(%s,{%s/%s})" (phase_letter ph) (string_of_n n) (string_of_n d)
  | TMx -> "Mx"
  | TMc -> "Mco"
  | TOg i -> "Ogs" ^ string_of_n i
  | TOp k -> "Op" ^ key_text k
  | TMr (k, m) -> Printf.sprintf "Mr%s(%s,%s,%s)" (key_text k) (string_of_z m.cm_min) (string_of_z m.cm_max) (string_of_n m.cm_rows)
  | TMh w -> "Mh" ^ shard_letter w
  | TMw (w, e, m) -> Printf.sprintf "Mw%s(%s,%s,%s,%s,%s,%s)" (shard_letter w) (string_of_n e) (string_of_z m.sh_lo)
                       (string_of_z m.sh_hi) (state_letter m.sh_state) (string_of_z m.sh_min) (string_of_z m.sh_max)
  | TOd -> "Od" | TMd -> "Md"

let shard_text (l : string) (m : shardmeta option) : string =
  match m with
  | None -> l ^ ":-"
  | Some m -> Printf.sprintf "%s:%s:%s:%s:%s:%s:%s" l (state_letter m.sh_state) (string_of_n m.sh_gen)
                (string_of_z m.sh_lo) (string_of_z m.sh_hi) (string_of_z m.sh_min) (string_of_z m.sh_max)

let key_order (k : nkey) = ((match k.nk_side with SA -> 0 | SB -> 1), int_of_n k.nk_src, int_of_n k.nk_batch)

let state_text (s : st) : string =
  let prog = match s.s_prog with None -> "-" | Some p -> progress_text p in
  let split = match s.s_split with
    | None -> "-"
    | Some x -> Printf.sprintf "%s,{%s/%s},%s" (phase_letter x.sp_phase) (string_of_n x.sp_num) (string_of_n x.sp_den) (string_of_z x.sp_point) in
  let nc = List.sort (fun (a, _) (b, _) -> compare (key_order a) (key_order b)) s.s_ncat in
  let no = List.sort (fun (a, _) (b, _) -> compare (key_order a) (key_order b)) s.s_nobj in
  Printf.sprintf "prog=%s split=%s sh=%s,%s,%s oc=%d/%d nc=%s no=%s" prog split
    (shard_text "o" s.s_old) (shard_text "a" s.s_a) (shard_text "b" s.s_b)
    (List.length s.s_ocat) (List.length s.s_oobj)
    (String.concat "," (List.map (fun (k, m) -> Printf.sprintf "%s:%s:%s:%s" (key_text k) (string_of_z m.cm_min) (string_of_z m.cm_max) (string_of_n m.cm_rows)) nc))
    (String.concat "," (List.map (fun (k, _) -> key_text k) no))

let err_text = function
  | EInjected -> "inj" | ENoSplit -> "nosplit" | EBackfill -> "backfill" | ENoShard -> "noshard"
  | EStale -> "stale" | ENoObj -> "noobj"

let kind_text = function
  | KOk -> "ok" | KTrue -> "okT" | KFalse -> "okF" | KErr e -> "err:" ^ err_text e | KCrash -> "crash"

let parse_mode = function
  | "FB" -> FB | "FA" -> FA | "CB" -> CB | "CA" -> CA | s -> failwith ("bad mode " ^ s)

(* Int64-based comparison of rows for sorting (ids and timestamps fit i64) *)
let i64_of_z (x : z) : int64 = Int64.of_string (string_of_z x)

let rows_text (l : (z * z) list) : string =
  let l = List.map (fun (i, t) -> (i64_of_z i, i64_of_z t)) l in
  let l = List.sort compare l in
  String.concat "," (List.map (fun (i, t) -> Printf.sprintf "%Ld@%Ld" i t) l)

let run_line (line : string) : string =
  match String.split_on_char ';' line with
  | [cfg; chunks; script] ->
    let f = Array.of_list (split_on ' ' cfg) in
    let lo = z_of_string f.(0) and hi = z_of_string f.(1) and mn = z_of_string f.(2) and mx = z_of_string f.(3) in
    let gen = n_of_string f.(4) in
    let arg = { sh_gen = gen; sh_lo = lo; sh_hi = hi; sh_state = StActive; sh_min = mn; sh_max = mx } in
    let chunks = List.map (fun c ->
        match String.index_opt c '=' with
        | None -> failwith "bad chunk"
        | Some p ->
          let i = n_of_string (String.sub c 0 p) in
          let rows = String.sub c (p + 1) (String.length c - p - 1) in
          let rows = List.map (fun r ->
              match String.split_on_char '@' r with
              | [a; b] -> (z_of_string a, z_of_string b)
              | _ -> failwith "bad row") (split_on ',' rows) in
          (i, rows)) (split_on '|' chunks) in
    let plans = List.map (fun run ->
        List.map (fun tok ->
            match String.split_on_char ':' tok with
            | [k; m] -> (nat_of_int (int_of_string k), parse_mode m)
            | _ -> failwith "bad fault") (split_on ',' run)) (String.split_on_char '/' script) in
    let s0 = init_state arg chunks in
    let runs = run_script arg s0 plans in
    let blocks = List.map (fun (w, k) ->
        Printf.sprintf "%s|%d|%s|%s" (kind_text k) (int_of_nat w.w_n)
          (String.concat " " (List.rev_map tag_text w.w_trace)) (state_text w.w_st)) runs in
    let last = match List.rev runs with (w, _) :: _ -> w.w_st | [] -> s0 in
    let rows = match dangling last with
      | [] -> Printf.sprintf "rows a=[%s] b=[%s]" (rows_text (rows_of SA last)) (rows_text (rows_of SB last))
      | k :: _ -> "rows PROBLEM registered chunk " ^ key_text k ^ " has no object" in
    String.concat " ## " (blocks @ [rows])
  | _ -> failwith "bad case line"

let () = serve run_line
