(* modelrun-prune: runs the extracted statistics-pruning model (C12).
   One case per line, tokens separated by single spaces (prefix notation).

   pval   :  s:<hex bytes> | i:<dec i64> | f:<dec u64 bit pattern> | b:0 | b:1 | n
   json   :  N | B0 | B1 | I:<dec, -2^63 .. 2^64-1> | F:<bits> | S:<hex> | O
   value  :  n | b:0 | b:1 | i:<dec> | f:<bits> | s:<hex>
   pred   :  eq c v | ne c v | lt c v | le c v | gt c v | ge c v
           | in c k v*k | nin c k v*k | bt c lo hi | and p p | or p p | not p
   stats  :  k (c min max hasnulls)*k
   rows   :  k (m (c value)*m)*k
   scalar :  u:<hex> | i64:<dec> | i32:<dec> | f64:<bits> | f32:<bits> | b:0 | b:1 | null | other
   expr   :  col c | lit scalar | bin op e e | btw neg e lo hi | inl neg e k e*k | not e | oth
            op = eq ne lt le gt ge and or other

   E <pred> <stats> <rows>   ->  e=<0|1> old=<0|1> then per row  <sat T|F|U>/<in_stats 0|1>/<known 0|1>
   G k <pred>*k <stats>      ->  0 | 1                         (the gate of get_chunks_with_predicates)
   C <expr>                  ->  <pred> | NONE ; old=<pred> | NONE
   X <expr> <rows>           ->  per row the SQL meaning T|F|U of the expression            *)

let hex_to_bytes (h : string) : n list =
  let len = String.length h / 2 in
  List.init len (fun k -> n_of_int (int_of_string ("0x" ^ String.sub h (2 * k) 2)))

let bytes_to_hex (l : n list) : string =
  String.concat "" (List.map (fun b -> Printf.sprintf "%02x" (int_of_n b)) l)

let after (s : string) (k : int) : string = String.sub s k (String.length s - k)

let starts (s : string) (p : string) : bool =
  String.length s >= String.length p && String.sub s 0 (String.length p) = p

let parse_pval (t : string) : pval =
  if t = "n" then PNull
  else if starts t "s:" then PStr (hex_to_bytes (after t 2))
  else if starts t "i:" then PInt (z_of_string (after t 2))
  else if starts t "f:" then PFloat (b64_of_bits (z_of_string (after t 2)))
  else if t = "b:0" then PBool false
  else if t = "b:1" then PBool true
  else failwith ("bad pval " ^ t)

let parse_json (t : string) : json =
  if t = "N" then JNull
  else if t = "B0" then JBool false
  else if t = "B1" then JBool true
  else if t = "O" then JOther
  else if starts t "I:" then JInt (z_of_string (after t 2))
  else if starts t "F:" then JFloat (b64_of_bits (z_of_string (after t 2)))
  else if starts t "S:" then JStr (hex_to_bytes (after t 2))
  else failwith ("bad json " ^ t)

let parse_value (t : string) : value =
  if t = "n" then VNull
  else if t = "b:0" then VBool false
  else if t = "b:1" then VBool true
  else if starts t "i:" then VInt (z_of_string (after t 2))
  else if starts t "f:" then VFloat (b64_of_bits (z_of_string (after t 2)))
  else if starts t "s:" then VStr (hex_to_bytes (after t 2))
  else failwith ("bad value " ^ t)

(* token stream *)
let toks : string list ref = ref []
let next () : string =
  match !toks with
  | [] -> failwith "unexpected end of line"
  | t :: r -> toks := r; t
let next_int () : int = int_of_string (next ())
let rec times (k : int) (f : unit -> 'a) : 'a list =
  if k <= 0 then [] else let x = f () in x :: times (k - 1) f

let rec parse_pred () : pred =
  match next () with
  | "eq" -> let c = n_of_string (next ()) in PEq (c, parse_pval (next ()))
  | "ne" -> let c = n_of_string (next ()) in PNotEq (c, parse_pval (next ()))
  | "lt" -> let c = n_of_string (next ()) in PLt (c, parse_pval (next ()))
  | "le" -> let c = n_of_string (next ()) in PLtEq (c, parse_pval (next ()))
  | "gt" -> let c = n_of_string (next ()) in PGt (c, parse_pval (next ()))
  | "ge" -> let c = n_of_string (next ()) in PGtEq (c, parse_pval (next ()))
  | "in" -> let c = n_of_string (next ()) in let k = next_int () in
            PIn (c, times k (fun () -> parse_pval (next ())))
  | "nin" -> let c = n_of_string (next ()) in let k = next_int () in
             PNotIn (c, times k (fun () -> parse_pval (next ())))
  | "bt" -> let c = n_of_string (next ()) in let lo = parse_pval (next ()) in
            let hi = parse_pval (next ()) in PBetween (c, lo, hi)
  | "and" -> let a = parse_pred () in let b = parse_pred () in PAnd (a, b)
  | "or" -> let a = parse_pred () in let b = parse_pred () in POr (a, b)
  | "not" -> PNot (parse_pred ())
  | t -> failwith ("bad pred token " ^ t)

let parse_stats () : stats =
  let k = next_int () in
  times k (fun () ->
    let c = n_of_string (next ()) in
    let mn = parse_json (next ()) in
    let mx = parse_json (next ()) in
    let hn = next () = "1" in
    (c, { st_min = mn; st_max = mx; st_has_nulls = hn }))

let parse_rows () : row list =
  let k = next_int () in
  times k (fun () ->
    let m = next_int () in
    times m (fun () -> let c = n_of_string (next ()) in (c, parse_value (next ()))))

let parse_scalar (t : string) : scalar =
  if t = "null" then SNullLit
  else if t = "other" then SOtherLit
  else if t = "b:0" then SBool false
  else if t = "b:1" then SBool true
  else if starts t "u:" then SUtf8 (hex_to_bytes (after t 2))
  else if starts t "i64:" then SInt64 (z_of_string (after t 4))
  else if starts t "i32:" then SInt32 (z_of_string (after t 4))
  else if starts t "f64:" then SFloat64 (b64_of_bits (z_of_string (after t 4)))
  else if starts t "f32:" then SFloat32 (b64_of_bits (z_of_string (after t 4)))
  else failwith ("bad scalar " ^ t)

let parse_bop (t : string) : bop =
  match t with
  | "eq" -> BEq | "ne" -> BNotEq | "lt" -> BLt | "le" -> BLtEq | "gt" -> BGt | "ge" -> BGtEq
  | "and" -> BAnd | "or" -> BOr | "other" -> BOther
  | _ -> failwith ("bad op " ^ t)

let rec parse_expr () : expr =
  match next () with
  | "col" -> ECol (n_of_string (next ()))
  | "lit" -> ELit (parse_scalar (next ()))
  | "bin" -> let o = parse_bop (next ()) in let a = parse_expr () in let b = parse_expr () in EBin (a, o, b)
  | "btw" -> let neg = next () = "1" in let e = parse_expr () in let lo = parse_expr () in
             let hi = parse_expr () in EBetween (e, neg, lo, hi)
  | "inl" -> let neg = next () = "1" in let e = parse_expr () in let k = next_int () in
             let l = times k parse_expr in EInList (e, l, neg)
  | "not" -> ENot (parse_expr ())
  | "oth" -> EOther
  | t -> failwith ("bad expr token " ^ t)

let show_pval (v : pval) : string =
  match v with
  | PStr s -> "s:" ^ bytes_to_hex s
  | PInt i -> "i:" ^ string_of_z i
  | PFloat f -> "f:" ^ string_of_z (bits_of_b64 f)
  | PBool b -> if b then "b:1" else "b:0"
  | PNull -> "n"

let rec show_pred (p : pred) : string =
  match p with
  | PEq (c, v) -> Printf.sprintf "eq %s %s" (string_of_n c) (show_pval v)
  | PNotEq (c, v) -> Printf.sprintf "ne %s %s" (string_of_n c) (show_pval v)
  | PLt (c, v) -> Printf.sprintf "lt %s %s" (string_of_n c) (show_pval v)
  | PLtEq (c, v) -> Printf.sprintf "le %s %s" (string_of_n c) (show_pval v)
  | PGt (c, v) -> Printf.sprintf "gt %s %s" (string_of_n c) (show_pval v)
  | PGtEq (c, v) -> Printf.sprintf "ge %s %s" (string_of_n c) (show_pval v)
  | PIn (c, vs) -> Printf.sprintf "in %s %d%s" (string_of_n c) (List.length vs)
                     (String.concat "" (List.map (fun v -> " " ^ show_pval v) vs))
  | PNotIn (c, vs) -> Printf.sprintf "nin %s %d%s" (string_of_n c) (List.length vs)
                        (String.concat "" (List.map (fun v -> " " ^ show_pval v) vs))
  | PBetween (c, lo, hi) -> Printf.sprintf "bt %s %s %s" (string_of_n c) (show_pval lo) (show_pval hi)
  | PAnd (a, b) -> Printf.sprintf "and %s %s" (show_pred a) (show_pred b)
  | POr (a, b) -> Printf.sprintf "or %s %s" (show_pred a) (show_pred b)
  | PNot a -> Printf.sprintf "not %s" (show_pred a)

let show_tv (t : tv) : string = match t with TT -> "T" | FF -> "F" | UU -> "U"
let b01 (b : bool) : string = if b then "1" else "0"

(* comparisons across type classes: reported as unknown (the harness's own
   row evaluator uses the same convention) *)
let xc (_ : cop) (_ : value) (_ : value) : tv = UU
let xg (_ : value list) : tv = UU

let run_line (line : string) : string =
  toks := List.filter (fun t -> t <> "") (String.split_on_char ' ' (String.trim line));
  match next () with
  | "E" ->
      let p = parse_pred () in
      let st = parse_stats () in
      let rows = parse_rows () in
      let per = List.map (fun r ->
        Printf.sprintf "%s/%s/%s" (show_tv (sat xc xg p r)) (b01 (in_statsb r st)) (b01 (known_mixed p st r))) rows in
      String.concat " " (Printf.sprintf "e=%s old=%s" (b01 (eval_stats p st)) (b01 (eval_stats_shared_arms p st)) :: per)
  | "G" ->
      let k = next_int () in
      let ps = times k parse_pred in
      let st = parse_stats () in
      b01 (gate ps st)
  | "C" ->
      let e = parse_expr () in
      let sh o = match o with Some p -> show_pred p | None -> "NONE" in
      Printf.sprintf "%s ; old=%s" (sh (convert e)) (sh (convert_negation_dropped e))
  | "X" ->
      let e = parse_expr () in
      let rows = parse_rows () in
      String.concat " " (List.map (fun r -> show_tv (esat xc xg e r)) rows)
  | t -> failwith ("bad command " ^ t)

let () = serve run_line
