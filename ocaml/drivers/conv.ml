(* conv.ml — conversions between decimal strings and the extracted Coq numbers
   (positive / N / Z stay the extracted datatypes; no Extract Constant).
   The build script places `open <ExtractedModel>` before this text. *)

let rec pos_of_u64 (x : int64) : positive =
  if Int64.equal x 1L then XH
  else if Int64.equal (Int64.logand x 1L) 0L then XO (pos_of_u64 (Int64.shift_right_logical x 1))
  else XI (pos_of_u64 (Int64.shift_right_logical x 1))

(* decimal string (optionally signed, magnitude < 2^64) -> Z *)
let z_of_string (s : string) : z =
  let neg = String.length s > 0 && s.[0] = '-' in
  let mag = if neg then String.sub s 1 (String.length s - 1) else s in
  let u = Int64.of_string ("0u" ^ mag) in
  if Int64.equal u 0L then Z0 else if neg then Zneg (pos_of_u64 u) else Zpos (pos_of_u64 u)

let n_of_string (s : string) : n =
  let u = Int64.of_string ("0u" ^ s) in
  if Int64.equal u 0L then N0 else Npos (pos_of_u64 u)

let n_of_int (i : int) : n = n_of_string (string_of_int i)

(* positive -> (fits in 64 bits, value) *)
let rec u64_of_pos (p : positive) (depth : int) : int64 option =
  if depth > 64 then None else
  match p with
  | XH -> Some 1L
  | XO q -> (match u64_of_pos q (depth + 1) with Some v -> Some (Int64.shift_left v 1) | None -> None)
  | XI q -> (match u64_of_pos q (depth + 1) with Some v -> Some (Int64.logor (Int64.shift_left v 1) 1L) | None -> None)

let rec pos_bits (p : positive) : int = match p with XH -> 1 | XO q | XI q -> 1 + pos_bits q

let string_of_pos (p : positive) : string =
  if pos_bits p > 64 then "BIG" else
  match u64_of_pos p 1 with Some v -> Printf.sprintf "%Lu" v | None -> "BIG"

let string_of_z (x : z) : string =
  match x with Z0 -> "0" | Zpos p -> string_of_pos p | Zneg p -> "-" ^ string_of_pos p

let string_of_n (x : n) : string = match x with N0 -> "0" | Npos p -> string_of_pos p

let int_of_n (x : n) : int = int_of_string (string_of_n x)

let split_on (c : char) (s : string) : string list =
  if s = "" then [] else String.split_on_char c s

(* main loop: one case per line in, one result line out; flushes every line so
   the harness can use the process as a server. *)
let serve (f : string -> string) : unit =
  try
    while true do
      let line = input_line stdin in
      let out = (try f line with e -> "MODEL-ERROR " ^ Printexc.to_string e) in
      print_string out; print_newline (); flush stdout
    done
  with End_of_file -> ()
