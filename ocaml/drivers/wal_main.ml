(* modelrun-wal: runs the extracted write-ahead-log model (Model/Wal.v) on one
   history per line.

   Input line: tokens separated by ';'.  `P <hex>` tokens define the payload
   table (index = order of appearance, from 0); the other tokens are
   operations / observations:
     O <max>        open (drops an older handle)        -> o:<next_seq> | o:PANIC
     A <i>          append payload i                    -> a:<seq> | a:PANIC | a:-
     X <i> <keep>   crash inside the append, keep bytes -> x:<seq> | x:PANIC | x:-
     T <b>          truncate_before(b)                  -> t | t:-
     F <x>          persist_flushed_seq(x)              -> f
     FN             persist_flushed_seq(next_seq())     -> f | f:-
     G <x> <keep>   crash inside the flushed-file write -> g
     C              crash at an operation boundary      -> c
     K <n>          newest segment cut to n bytes       -> k
     B <off> <v>    byte off of the newest segment ^= v -> b
     R              read_entries                        -> r:<seq>/<flags>/<len>/<crc32>,... | r:-
     E <a>          read_entries_after(a)               -> e:... | e:-
     N              next_seq                            -> n:<v> | n:-
     S              segment files                       -> s:<id>/<len>/<crc32 of the file>,...
     L              load_flushed_seq                    -> l:<v>
     M <max>        Ingester::ensure_wal (ensure_wal_ops)  -> m:<next_seq> | m:PANIC
     H <s>          tail of flush_batches with last_wal_seq = s (flush_ops) -> h
     HT <s>         the same, interrupted before persist_flushed_seq (crash) -> ht
   ("-" = there is no handle).  A line starting with '?' is answered with the
   model's caller-discipline verdict (op_ok) per state-changing token instead:
   1 / 0 separated by ';' (observations and P tokens answer "."). *)

let bytes_of_hex (h : string) : n list =
  let len = String.length h / 2 in
  List.init len (fun i -> n_of_int (int_of_string ("0x" ^ String.sub h (2 * i) 2)))

let show_entries (es : entry list) : string =
  String.concat ","
    (List.map (fun e ->
       Printf.sprintf "%s/%s/%s/%s" (string_of_n e.e_seq) (string_of_n e.e_flags)
         (string_of_n (lenN e.e_payload)) (string_of_n (crc32 e.e_payload))) es)

let show_segs (l : (n * n list) list) : string =
  String.concat ","
    (List.map (fun (id, b) ->
       Printf.sprintf "%s/%s/%s" (string_of_n id) (string_of_n (lenN b)) (string_of_n (crc32 b))) l)

let run_line (line0 : string) : string =
  let verdicts = String.length line0 > 0 && line0.[0] = '?' in
  let line = if verdicts then String.sub line0 1 (String.length line0 - 1) else line0 in
  let payloads : n list array ref = ref [||] in
  let st = ref init in
  let has_handle () = match !st.st_wal with Some _ -> true | None -> false in
  let pl i = !payloads.(int_of_string i) in
  let apply (o : op) : event * bool =
    let ok = op_ok !st o in
    let (st', ev) = step !st o in
    st := st'; (ev, ok) in
  let apply_all (ops : op list) = List.rev (List.fold_left (fun acc o -> apply o :: acc) [] ops) in
  let flag b = if b then "1" else "0" in
  let outs = List.map (fun tok ->
    match split_on ' ' (String.trim tok) with
    | ["P"; h] -> payloads := Array.append !payloads [| bytes_of_hex h |]; if verdicts then "." else "p"
    | ["P"] -> payloads := Array.append !payloads [| [] |]; if verdicts then "." else "p"
    | ["O"; m] ->
        let (ev, ok) = apply (OOpen (n_of_string m)) in
        if verdicts then flag ok else
        (match ev with EvOpen (next, _) -> "o:" ^ string_of_n next | _ -> "o:PANIC")
    | ["A"; i] ->
        let h = has_handle () in
        let (ev, ok) = apply (OAppend (pl i)) in
        if verdicts then flag ok else
        if not h then "a:-" else
        (match ev with EvAck (s, _, _) -> "a:" ^ string_of_n s | _ -> "a:PANIC")
    | ["X"; i; keep] ->
        let h = has_handle () in
        let (ev, ok) = apply (OCrashAppend (pl i, n_of_string keep)) in
        if verdicts then flag ok else
        if not h then "x:-" else
        (match ev with EvTorn (s, _, _, _) -> "x:" ^ string_of_n s | _ -> "x:PANIC")
    | ["T"; b] ->
        let h = has_handle () in
        let (_, ok) = apply (OTruncate (n_of_string b)) in
        if verdicts then flag ok else if h then "t" else "t:-"
    | ["F"; x] ->
        let (_, ok) = apply (OPersist (n_of_string x)) in
        if verdicts then flag ok else "f"
    | ["FN"] ->
        (match !st.st_wal with
         | None -> if verdicts then "1" else "f:-"
         | Some w ->
           let (_, ok) = apply (OPersist w.w_next) in
           if verdicts then flag ok else "f")
    | ["G"; x; keep] ->
        let (_, ok) = apply (OCrashPersist (n_of_string x, n_of_string keep)) in
        if verdicts then flag ok else "g"
    | ["C"] ->
        let (_, ok) = apply OCrash in
        if verdicts then flag ok else "c"
    | ["K"; n] ->
        let (_, ok) = apply (OCut (n_of_string n)) in
        if verdicts then flag ok else "k"
    | ["B"; off; v] ->
        let (_, ok) = apply (OFlip (n_of_string off, n_of_string v)) in
        if verdicts then flag ok else "b"
    | ["M"; m] ->
        let ops = ensure_wal_ops (n_of_string m) !st.st_disk in
        let res = apply_all ops in
        if verdicts then flag (List.for_all snd res) else
        (match res with (EvOpen (next, _), _) :: _ -> "m:" ^ string_of_n next | _ -> "m:PANIC")
    | ["H"; s] ->
        let res = apply_all (flush_ops (n_of_string s)) in
        if verdicts then flag (List.for_all snd res) else "h"
    | ["HT"; s] ->
        let res = (match flush_ops (n_of_string s) with o :: _ -> [apply o] | [] -> []) in
        let (_, ok2) = apply OCrash in
        if verdicts then flag (List.for_all snd res && ok2) else "ht"
    | ["R"] ->
        if verdicts then "." else
        if has_handle () then "r:" ^ show_entries (read_entries !st.st_disk) else "r:-"
    | ["E"; a] ->
        if verdicts then "." else
        if has_handle () then "e:" ^ show_entries (read_entries_after !st.st_disk (n_of_string a)) else "e:-"
    | ["N"] ->
        if verdicts then "." else
        (match !st.st_wal with Some w -> "n:" ^ string_of_n w.w_next | None -> "n:-")
    | ["S"] -> if verdicts then "." else "s:" ^ show_segs !st.st_disk.d_segs
    | ["L"] -> if verdicts then "." else "l:" ^ string_of_n (load_flushed !st.st_disk)
    | _ -> failwith ("bad token: " ^ tok)) (split_on ';' line) in
  String.concat ";" outs

let () = serve run_line
