(* modelrun-proto: runs the extracted ingest-protocol model (C17).
   One case per line:
     P <d|r> <hex>        parse_write_request (current code; d = debug, r = release build)
                          -> OK <request> | ERR <code> | PANIC | HANG
     G <d|r> <hex>        the code before the length fix (legacy), same output
     C <d|r> <hex>        parse, then convert
                          -> OK <batch> | PERR <code> | CERR <code> | PANIC | HANG
     R <request>          convert a decoded request -> OK <batch> | CERR <code>
     H <d|r> <hex|->      status of handle_remote_write on the decompressed body
                          ("-" = snappy decoding failed) -> 204 | 400 | 500 | PANIC | HANG
     L <hex>              String::from_utf8_lossy -> <hex>
     V <bits>             value routing -> U<u64> | I<i64> | F<bits>
     W <bits>             value routing before the 2^63 fix
     E <request>          canonical encoder -> <hex>
     O <oreq>             OTLP export_request_to_arrow -> OK <obatch> | OERR <code>
     K <oreq>             known-finding classes of an OTLP request -> "" | int-precision | time-wrap | int-precision,time-wrap
   <request> = "-" (no series) or series joined by "/"; series = labels "|" samples;
               labels = namehex ":" valuehex joined by ","; samples = ts ":" bits joined by ","
   <batch>   = "cols=" xhex,.. "|rows=" row "/" row ..; row = ts ";" namehex ";" value ";" cells
               cells = xhex or "~" (null) joined by ","; xhex = "x" followed by the hex text     *)

let rec int_of_pos p = match p with XH -> 1 | XO q -> 2 * int_of_pos q | XI q -> 2 * int_of_pos q + 1
let int_of_small = function N0 -> 0 | Npos p -> int_of_pos p
let rec pos_of_int i = if i = 1 then XH else if i land 1 = 0 then XO (pos_of_int (i lsr 1)) else XI (pos_of_int (i lsr 1))
let n_of_small i = if i = 0 then N0 else Npos (pos_of_int i)
let byte_tab = Array.init 256 n_of_small

let bytes_of_hex (s : string) : n list =
  let len = String.length s / 2 in
  let rec go i acc = if i < 0 then acc else go (i - 1) (byte_tab.(int_of_string ("0x" ^ String.sub s (2 * i) 2)) :: acc) in
  go (len - 1) []

let hex_of_bytes (l : n list) : string =
  let b = Buffer.create 64 in
  List.iter (fun x -> Buffer.add_string b (Printf.sprintf "%02x" (int_of_small x land 0xff))) l;
  Buffer.contents b

let mode_of = function "d" -> Debug | "r" -> Release | s -> failwith ("bad mode " ^ s)

let parse_request (s : string) : series list =
  if s = "-" then [] else
  List.map (fun ser ->
    match String.split_on_char '|' ser with
    | [ls; ss] ->
        let labels = List.map (fun l -> match String.split_on_char ':' l with
            | [a; b] -> { l_name = bytes_of_hex a; l_value = bytes_of_hex b }
            | _ -> failwith "bad label") (split_on ',' ls) in
        let samples = List.map (fun x -> match String.split_on_char ':' x with
            | [t; v] -> { s_ts = z_of_string t; s_bits = n_of_string v }
            | _ -> failwith "bad sample") (split_on ',' ss) in
        { ts_labels = labels; ts_samples = samples }
    | _ -> failwith "bad series") (String.split_on_char '/' s)

let show_request (r : series list) : string =
  if r = [] then "-" else
  String.concat "/" (List.map (fun t ->
    String.concat "," (List.map (fun l -> hex_of_bytes l.l_name ^ ":" ^ hex_of_bytes l.l_value) t.ts_labels)
    ^ "|" ^
    String.concat "," (List.map (fun s -> string_of_z s.s_ts ^ ":" ^ string_of_n s.s_bits) t.ts_samples)) r)

let show_routed = function
  | RU64 u -> "U" ^ string_of_n u
  | RI64 i -> "I" ^ string_of_z i
  | RF64 b -> "F" ^ string_of_n b

let show_batch (b : batch) : string =
  "cols=" ^ String.concat "," (List.map (fun c -> "x" ^ hex_of_bytes c) b.b_cols) ^ "|rows=" ^
  String.concat "/" (List.map (fun r ->
    string_of_z r.r_ts ^ ";" ^ hex_of_bytes r.r_name ^ ";" ^ show_routed r.r_val ^ ";" ^
    String.concat "," (List.map (function Some v -> "x" ^ hex_of_bytes v | None -> "~") r.r_labels)) b.b_rows)

let show_parse = function
  | Done r -> "OK " ^ show_request r
  | Failed c -> "ERR " ^ string_of_n c
  | Panic -> "PANIC"
  | Hang -> "HANG"

let show_convert = function
  | Done b -> "OK " ^ show_batch b
  | Failed c -> "CERR " ^ string_of_n c
  | Panic -> "PANIC"
  | Hang -> "HANG"

(* <oreq> = "-" or resource_metrics joined by "/"
   rm      = ("N" | "S" kvlist) "!" scopes          scopes joined by "^"; a scope = "." (no metrics) or metrics joined by "+"
   metric  = namehex "@" kind "@" points            kind G|S|H|E|Y|N ; points joined by "&"
   npoint  = time "," ("D" bits | "I" int | "N") "," kvlist
   hpoint  = time "," ("S" bits | "N") "," count "," kvlist
   spoint  = time "," bits "," kvlist
   kvlist  = kv joined by "~" ; kv = keyhex "=" ("s" hex | "b0" | "b1" | "i" int | "n")          *)
let tail s = String.sub s 1 (String.length s - 1)
let parse_kvlist (s : string) : kv list =
  List.map (fun e -> match String.split_on_char '=' e with
    | [k; v] -> { kv_key = bytes_of_hex k;
                  kv_val = (match v.[0] with
                            | 's' -> AVString (bytes_of_hex (tail v))
                            | 'b' -> AVBool (v = "b1")
                            | 'i' -> AVInt (z_of_string (tail v))
                            | _ -> AVNone) }
    | _ -> failwith "bad kv") (split_on '~' s)
let parse_metric (s : string) : metric =
  match String.split_on_char '@' s with
  | [name; kind; pts] ->
      let pts = split_on '&' pts in
      let np p = (match String.split_on_char ',' p with
        | [t; v; a] -> { np_time = n_of_string t;
                         np_val = (match v.[0] with 'D' -> NDouble (n_of_string (tail v)) | 'I' -> NInt (z_of_string (tail v)) | _ -> NNone);
                         np_attrs = parse_kvlist a }
        | _ -> failwith "bad npoint") in
      let hp p = (match String.split_on_char ',' p with
        | [t; sm; c; a] -> { hp_time = n_of_string t;
                             hp_sum = (if sm.[0] = 'S' then Some (n_of_string (tail sm)) else None);
                             hp_count = n_of_string c; hp_attrs = parse_kvlist a }
        | _ -> failwith "bad hpoint") in
      let sp p = (match String.split_on_char ',' p with
        | [t; b; a] -> { sp_time = n_of_string t; sp_sum = n_of_string b; sp_attrs = parse_kvlist a }
        | _ -> failwith "bad spoint") in
      { m_name = bytes_of_hex name;
        m_data = (match kind with
                  | "G" -> DGauge (List.map np pts) | "S" -> DSum (List.map np pts)
                  | "H" -> DHist (List.map hp pts) | "E" -> DExpHist (List.map hp pts)
                  | "Y" -> DSummary (List.map sp pts) | _ -> DNone) }
  | _ -> failwith "bad metric"
let parse_oreq (s : string) : resource_metrics list =
  if s = "-" then [] else
  List.map (fun rm -> match String.split_on_char '!' rm with
    | [res; scopes] ->
        { rm_resource = (if res.[0] = 'S' then Some (parse_kvlist (tail res)) else None);
          rm_scopes = List.map (fun sc -> if sc = "." then [] else List.map parse_metric (String.split_on_char '+' sc))
                        (split_on '^' scopes) }
    | _ -> failwith "bad rm") (String.split_on_char '/' s)
let show_obatch (b : obatch) : string =
  "cols=" ^ String.concat "," (List.map (fun c -> "x" ^ hex_of_bytes c) b.ob_cols) ^ "|rows=" ^
  String.concat "/" (List.map (fun r ->
    string_of_z r.o_ts ^ ";" ^ hex_of_bytes r.o_name ^ ";" ^ string_of_n r.o_bits ^ ";" ^
    String.concat "," (List.map (function Some v -> "x" ^ hex_of_bytes v | None -> "~") r.o_cells)) b.ob_rows)

let run_line (line : string) : string =
  match String.split_on_char ' ' (String.trim line) with
  | ["P"; m; h] -> show_parse (parse_write_request (current (mode_of m)) (bytes_of_hex h))
  | ["P"; m] -> show_parse (parse_write_request (current (mode_of m)) [])
  | ["G"; m; h] -> show_parse (parse_write_request (legacy (mode_of m)) (bytes_of_hex h))
  | "C" :: m :: rest ->
      let h = (match rest with [h] -> h | _ -> "") in
      (match parse_write_request (current (mode_of m)) (bytes_of_hex h) with
       | Done r -> show_convert (convert r)
       | Failed c -> "PERR " ^ string_of_n c
       | Panic -> "PANIC" | Hang -> "HANG")
  | ["R"; r] -> show_convert (convert (parse_request r))
  | "H" :: m :: rest ->
      let body = (match rest with ["-"] -> None | [h] -> Some (bytes_of_hex h) | _ -> Some []) in
      (match handle (mode_of m) body with
       | H204 -> "204" | H400 -> "400" | H500 -> "500" | HPanic -> "PANIC" | HHang -> "HANG")
  | ["L"; h] -> hex_of_bytes (utf8_lossy (bytes_of_hex h))
  | ["L"] -> ""
  | ["V"; b] -> show_routed (route (n_of_string b))
  | ["W"; b] -> show_routed (route_legacy (n_of_string b))
  | ["E"; r] -> hex_of_bytes (enc_request (parse_request r))
  | ["O"; r] -> (match export_to_arrow (parse_oreq r) with
                 | Done b -> "OK " ^ show_obatch b | Failed c -> "OERR " ^ string_of_n c
                 | Panic -> "PANIC" | Hang -> "HANG")
  | ["K"; r] -> let q = parse_oreq r in
                String.concat "," ((if known_int_precision q then ["int-precision"] else []) @
                                   (if known_time_wrap q then ["time-wrap"] else []))
  | _ -> failwith ("bad line: " ^ line)

let () = serve run_line
