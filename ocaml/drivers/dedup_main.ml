(* modelrun-dedup: runs the extracted dual-write / split-time read model (C15).

   Row      ts,metric,rest      ts = int | n ; metric = int | n ; rest = a:b:c | -
   Mode D   D|<batch>|<batch>...         batch = <t><m>[;row]*   (t,m in {0,1}: column present)
            -> R|<batch>|...             the batches dedup_batches returns
   Mode H   H|<flush_rows>|op|op|...
              S <sid> <news> <point>     start_split   (lists comma separated, - = empty)
              P <sid> <phase>            update_split_progress  (prep dual backfill cutover cleanup)
              C <sid>                    complete_split
              W <sid> <schema> <ts kind> row;row;...    Ingester::write  (kind i n o a)
              Wf <sid> <schema> <ts kind> rows   the same write under a split-state read fault: refused, no-op
              F                          flush
              Hh <sid> row;row;...        register a historical chunk of old shard <sid>
              B <sid>                    ShardSplitter::run_backfill for the planted split of <sid>
              Q <lo> <hi> <metric|-> <post>   post = raw<t><m><r> | count | sum<i> | cbk | cbm
              X                          dump of buffer / chunks
            -> one token per op joined by |
              S P C F Hh B -> ok (B: err<code> | panic as well) ;  W -> ok | err<code> | panic | hang
              Q -> <sorted result rows>#<class>#<sorted rows of the same query without split>#<dedup 0|1>
              X -> buf=<rows>#<sorted chunks: shard>row;row  joined by />                       *)

let rec nat_of_int (i : int) : nat = if i <= 0 then O else S (nat_of_int (i - 1))

let parse_row (s : string) : row =
  match String.split_on_char ',' s with
  | [t; m; r] ->
      { r_ts = (if t = "n" then None else Some (z_of_string t));
        r_metric = (if m = "n" then None else Some (n_of_string m));
        r_rest = (if r = "-" then [] else List.map z_of_string (String.split_on_char ':' r)) }
  | _ -> failwith ("bad row: " ^ s)

let show_row (r : row) : string =
  Printf.sprintf "%s,%s,%s"
    (match r.r_ts with None -> "n" | Some t -> string_of_z t)
    (match r.r_metric with None -> "n" | Some m -> string_of_n m)
    (match r.r_rest with [] -> "-" | l -> String.concat ":" (List.map string_of_z l))

let show_rows_sorted (l : row list) : string =
  String.concat ";" (List.sort compare (List.map show_row l))

let parse_batch (s : string) : batch =
  match String.split_on_char ';' s with
  | flags :: rows when String.length flags = 2 ->
      { b_has_ts = (flags.[0] = '1'); b_has_metric = (flags.[1] = '1'); b_rows = List.map parse_row rows }
  | _ -> failwith ("bad batch: " ^ s)

let show_batch (b : batch) : string =
  String.concat ";" ((Printf.sprintf "%c%c" (if b.b_has_ts then '1' else '0') (if b.b_has_metric then '1' else '0'))
                     :: List.map show_row b.b_rows)

let parse_nlist (s : string) : n list = if s = "-" then [] else List.map n_of_string (String.split_on_char ',' s)

let parse_phase = function
  | "prep" -> PPrep | "dual" -> PDual | "backfill" -> PBackfill | "cutover" -> PCutover | "cleanup" -> PCleanup
  | s -> failwith ("bad phase: " ^ s)

let parse_kind = function
  | "i" -> TsInt64 | "n" -> TsNanos | "o" -> TsOther | "a" -> TsAbsent | s -> failwith ("bad ts kind: " ^ s)

let parse_post (s : string) : post =
  let n = String.length s in
  if s = "count" then PCount
  else if s = "cbk" then PCountByKey
  else if s = "cbm" then PCountByMetric
  else if n > 3 && String.sub s 0 3 = "sum" then PSum (nat_of_int (int_of_string (String.sub s 3 (n - 3))))
  else if n = 6 && String.sub s 0 3 = "raw" then PRaw (s.[3] = '1', s.[4] = '1', s.[5] = '1')
  else failwith ("bad post: " ^ s)

let show_class = function
  | KNone -> "none" | KAggregate -> "aggregate" | KProjection -> "projection" | KIdentical -> "identical"

let show_outcome (o : unit outcome) : string =
  match o with Done _ -> "ok" | Failed c -> "err" ^ string_of_n c | Panic -> "panic" | Hang -> "hang"

let result_rows (bs : batch list) : row list = List.concat (List.map (fun b -> b.b_rows) bs)

let run_d (parts : string list) : string =
  let bs = List.map parse_batch parts in
  String.concat "|" ("R" :: List.map show_batch (dedup_batches bs))

let run_h (parts : string list) : string =
  match parts with
  | [] -> failwith "missing flush_rows"
  | fr :: ops ->
      let st = ref (init_state (n_of_string fr)) in
      let toks = List.map (fun tok ->
        match String.split_on_char ' ' (String.trim tok) with
        | ["S"; sid; news; point] ->
            let (s, o) = hstep !st (HStart (n_of_string sid, parse_nlist news, parse_nlist point)) in st := s; show_outcome o
        | ["P"; sid; ph] ->
            let (s, o) = hstep !st (HProgress (n_of_string sid, parse_phase ph)) in st := s; show_outcome o
        | ["C"; sid] ->
            let (s, o) = hstep !st (HComplete (n_of_string sid)) in st := s; show_outcome o
        | ["F"] -> let (s, o) = hstep !st HFlush in st := s; show_outcome o
        | ["Wf"; _; _; _; _] ->
            (* a write during which reading the split state fails: refused before anything is
               stored; no model step (judged by the harness oracle only) *)
            "err9"
        | ["Hh"; sid; rows] ->
            let (s, o) = hstep !st (HHist (n_of_string sid, List.map parse_row (String.split_on_char ';' rows))) in
            st := s; show_outcome o
        | ["B"; sid] -> let (s, o) = hstep !st (HBackfill (n_of_string sid)) in st := s; show_outcome o
        | ["W"; sid; schema; kind; rows] ->
            let b = { ib_schema = n_of_string schema; ib_ts = parse_kind kind;
                      ib_rows = List.map parse_row (String.split_on_char ';' rows) } in
            let (s, o) = hstep !st (HWrite (n_of_string sid, b)) in st := s; show_outcome o
        | ["Q"; lo; hi; m; p] ->
            let q = { q_where = { w_lo = z_of_string lo; w_hi = z_of_string hi;
                                  w_metric = (if m = "-" then None else Some (n_of_string m)) };
                      q_post = parse_post p } in
            let ing = old_rows !st in
            Printf.sprintf "%s#%s#%s#%d"
              (show_rows_sorted (result_rows (query_state !st q)))
              (show_class (known_class ing q))
              (show_rows_sorted (result_rows (run_query false q [ing])))
              (if has_active_split !st then 1 else 0)
        | ["X"] ->
            let chunks = List.map (fun c ->
              Printf.sprintf "%s>%s" (match c.c_loc with LOrdinary -> "-" | LNew s -> string_of_n s | LHist s -> "h" ^ string_of_n s)
                (String.concat ";" (List.map show_row c.c_rows))) (!st).i_chunks in
            Printf.sprintf "buf=%d#%s" (List.length (buffer_rows (!st).i_buffer))
              (String.concat "/" (List.sort compare chunks))
        | _ -> failwith ("bad op: " ^ tok)) ops in
      String.concat "|" toks

let run_line (line : string) : string =
  match String.split_on_char '|' line with
  | "D" :: parts -> run_d parts
  | "H" :: parts -> run_h parts
  | _ -> failwith "bad mode"

let () = serve run_line
