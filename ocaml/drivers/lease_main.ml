(* modelrun-lease: runs the extracted lease model (C08).
   Times in milliseconds.  Ops:
     A.<id>.<holder>.<c1+c2+..>.<level> | R.<id> | C.<id> | F.<id> | S
   Input line, object-store backend (CasProto machine with lease_decide):
     S|<now0>|<prog0>/<prog1>/...|<sched>      prog = ops joined by ','
                                                sched = q<client> | t<ms> joined by ','
   Output:
     V=<client>@<table>#...|D=<res,res,..>/<...>|CUR=<table or ABSENT>|NOW=<ms>|EXCL=<0|1>
       V   = every version written, oldest first, with the client that wrote it
       D   = per client the results of its finished operations
       EXCL= exclb evaluated on every version at its own PUT time and on CUR at NOW
   Input line, in-memory backend:
     L|<now0>|<hist>                            hist = ops and t<ms> joined by ','
   Output: <res>@<table> per op, joined by ','
   table = leases sorted by id, joined by ';' ('-' when empty)
   lease = id:holder:c1+c2:level:acquired:expires:A|C|F
   res   = L<lease> | U | N<count> | X<c1+c2> | NF | NA | TR                          *)

let rec nat_of_int (i : int) : nat = if i <= 0 then O else S (nat_of_int (i - 1))

let show_chunks (cs : n list) : string = String.concat "+" (List.map string_of_n cs)

let show_lease (id : n) (l : lease) : string =
  Printf.sprintf "%s:%s:%s:%s:%s:%s:%s" (string_of_n id) (string_of_n l.l_holder) (show_chunks l.l_chunks)
    (string_of_n l.l_level) (string_of_z l.l_acquired) (string_of_z l.l_expires)
    (match l.l_status with Active -> "A" | Completed -> "C" | Failed -> "F")

let show_table (t : table) : string =
  if t = [] then "-" else
  let items = List.map (fun (id, l) -> (int_of_n id, show_lease id l)) t in
  let items = List.sort compare items in
  String.concat ";" (List.map snd items)

let show_out (o : lout) : string =
  match o with
  | RLease (id, l) -> "L" ^ show_lease id l
  | RUnit -> "U"
  | RCount c -> "N" ^ string_of_n c
  | EConflict cs -> "X" ^ show_chunks cs
  | ENotFound -> "NF"
  | ENotActive -> "NA"

let show_fin (f : lout fin) : string =
  match f with FCommit o -> show_out o | FAbort o -> show_out o | FRetries -> "TR"

let parse_op (s : string) : lop =
  match String.split_on_char '.' s with
  | ["A"; id; h; cs; lv] ->
      OAcquire (n_of_string id, n_of_string h, List.map n_of_string (split_on '+' cs), n_of_string lv)
  | ["R"; id] -> ORenew (n_of_string id)
  | ["C"; id] -> OComplete (n_of_string id)
  | ["F"; id] -> OFail (n_of_string id)
  | ["S"] -> OScavenge
  | _ -> failwith ("bad op: " ^ s)

let rec nat_to_int (x : nat) : int = match x with O -> 0 | S y -> 1 + nat_to_int y

let run_line (line : string) : string =
  match String.split_on_char '|' line with
  | ["S"; now0; progs; sched] ->
      let progs = List.map (fun p -> List.map parse_op (split_on ',' p)) (String.split_on_char '/' progs) in
      let nclients = List.length progs in
      let prog_of (c : nat) : lop list =
        let i = nat_to_int c in if i < nclients then List.nth progs i else [] in
      let sched = List.map (fun tok ->
          let arg = String.sub tok 1 (String.length tok - 1) in
          match tok.[0] with
          | 'q' -> Req (nat_of_int (int_of_string arg))
          | 't' -> Tick (n_of_string arg)
          | _ -> failwith ("bad sched token: " ^ tok)) (split_on ',' sched) in
      let s = s3_run sched (s3_init None (z_of_string now0) prog_of) in
      let vs = List.map (fun k -> Printf.sprintf "%d@%s" (nat_to_int (k_client k)) (show_table (k_val k))) (s_log s) in
      let ds = List.init nclients (fun c ->
          String.concat "," (List.map (fun (_, f) -> show_fin f) (c_done (s_cl s (nat_of_int c))))) in
      let excl = List.for_all (fun k -> exclb (k_put k) (k_val k)) (s_log s)
                 && (match cur_val s with Some v -> exclb (s_now s) v | None -> true) in
      Printf.sprintf "V=%s|D=%s|CUR=%s|NOW=%s|EXCL=%d" (String.concat "#" vs) (String.concat "/" ds)
        (match cur_val s with Some v -> show_table v | None -> "ABSENT") (string_of_z (s_now s))
        (if excl then 1 else 0)
  | ["L"; now0; hist] ->
      let st = ref { ls_now = z_of_string now0; ls_tab = []; ls_outs = [] } in
      let outs = ref [] in
      List.iter (fun tok ->
          if tok.[0] = 't' then
            st := local_step local_cfg !st (HTick (n_of_string (String.sub tok 1 (String.length tok - 1))))
          else begin
            let before = List.length (ls_outs !st) in
            st := local_step local_cfg !st (HOp (parse_op tok));
            let o = List.nth (ls_outs !st) before in
            outs := Printf.sprintf "%s@%s" (show_out o) (show_table (ls_tab !st)) :: !outs
          end) (split_on ',' hist);
      String.concat "," (List.rev !outs)
  | _ -> failwith "bad line"

let () = serve run_line
