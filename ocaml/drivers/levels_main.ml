(* modelrun-levels: runs the extracted compaction model (Model/Compaction.v) as
   a small stateful server.  One command per line:

     init <s3|local> <op>;<op>;...     ops:  R <p> <min> <max> <rows> <size> | D <p> | C <tgt> <src,src,...>
         -> ok cat=<p:level:min:max:rows:size,...> fresh=<n>
     cycle <thr> <l1> <l2> <maxlv> # <ord>/<ord>/... # <srcs>=<size>:<rows>:<min>:<max>;...
         runs one compaction cycle on the current state and keeps the result
     try   ... (same arguments)        same, but the state is left unchanged
         -> status=<ok|err|panic> pending=<n> sel=<lvl>:<g>,<g>|... merges=<lvl>:<g>><tgt>@<level>|...
            cat=<...> fresh=<n> measure=<n>
        <ord>  = comma separated path numbers (hash-map iteration order of one
                 candidate call: first the L0 call, then levels 1, 2, ...)
        <srcs> = '+' separated, sorted path numbers; <g> likewise; the groups
                 of one call are printed sorted (a set of sets)                    *)

type state = S3 of cat cstate | Local of lcat cstate | NoState

let st = ref NoState

let ids_of (s : string) (sep : char) : n list =
  List.map n_of_string (List.filter (fun x -> x <> "") (split_on sep (String.trim s)))

let show_group (g : path list) : string =
  String.concat "+" (List.map string_of_int (List.sort compare (List.map int_of_n g)))

let show_groups (gs : path list list) : string =
  let canon = List.map (fun g -> List.sort compare (List.map int_of_n g)) gs in
  let canon = List.sort compare canon in
  String.concat "," (List.map (fun g -> String.concat "+" (List.map string_of_int g)) canon)

let show_entry p lvl (m : cmeta) : int * string =
  (int_of_n p,
   Printf.sprintf "%s:%s:%s:%s:%s:%s" (string_of_n p) lvl (string_of_z m.m_min) (string_of_z m.m_max)
     (string_of_n m.m_rows) (string_of_n m.m_size))

let show_cat (s : state) : string =
  let items = match s with
    | S3 x -> List.map (fun (p, e) -> show_entry p (string_of_n e.e_level) e.e_meta) x.st_cat.c_chunks
    | Local x ->
        List.map (fun (p, m) ->
          let lvl = match aget N.eqb p x.st_cat.l_levels with Some l -> string_of_n l | None -> "-" in
          show_entry p lvl m) x.st_cat.l_chunks
    | NoState -> [] in
  String.concat "," (List.map snd (List.sort compare items))

let fresh_of (s : state) : string =
  match s with S3 x -> string_of_n x.st_fresh | Local x -> string_of_n x.st_fresh | NoState -> "-"

let rec nat_to_int (k : nat) : int = match k with O -> 0 | S p -> 1 + nat_to_int p

let measure_of (s : state) : string =
  match s with
  | S3 x -> string_of_int (nat_to_int (measure s3_backend x))
  | Local x -> string_of_int (nat_to_int (measure local_backend x))
  | NoState -> "-"

let parse_op (tok : string) : cop =
  match split_on ' ' (String.trim tok) with
  | ["R"; p; mn; mx; rows; size] ->
      ORegister (n_of_string p, { m_min = z_of_string mn; m_max = z_of_string mx;
                                  m_rows = n_of_string rows; m_size = n_of_string size })
  | ["D"; p] -> ODelete (n_of_string p)
  | "C" :: tgt :: rest ->
      let srcs = match rest with [] -> [] | [s] -> ids_of s ',' | _ -> failwith "bad C" in
      OComplete (srcs, n_of_string tgt)
  | _ -> failwith ("bad op: " ^ tok)

let do_init (backend : string) (ops : string) : string =
  let ops = List.map parse_op (List.filter (fun x -> String.trim x <> "") (split_on ';' ops)) in
  (match backend with
   | "s3" ->
       let c = List.fold_left (fun c o -> fst (s3_apply c o)) cat_empty ops in
       st := S3 (s3_init c)
   | "local" ->
       let c = List.fold_left (fun c o -> fst (local_apply c o)) lcat_empty ops in
       st := Local (local_init c)
   | _ -> failwith "bad backend");
  Printf.sprintf "ok cat=%s fresh=%s" (show_cat !st) (fresh_of !st)

let parse_oracle (s : string) : path list -> cmeta =
  let entries = List.filter (fun x -> String.trim x <> "") (split_on ';' s) in
  let table = List.map (fun e ->
    match split_on '=' (String.trim e) with
    | [k; v] ->
        let key = List.sort compare (List.map int_of_string (List.filter (fun x -> x <> "") (split_on '+' k))) in
        (match split_on ':' v with
         | [size; rows; mn; mx] ->
             (key, { m_min = z_of_string mn; m_max = z_of_string mx;
                     m_rows = n_of_string rows; m_size = n_of_string size })
         | _ -> failwith "bad oracle value")
    | _ -> failwith "bad oracle entry") entries in
  fun g ->
    let key = List.sort compare (List.map int_of_n g) in
    (try List.assoc key table
     with Not_found -> { m_min = Z0; m_max = Z0; m_rows = N0; m_size = N0 })

let show_events (ev : cevent list) : string * string * string =
  let pend = ref "-" and sels = ref [] and merges = ref [] in
  List.iter (fun e ->
    match e with
    | EPending k -> pend := string_of_n k
    | ESel (lvl, _, gs) -> sels := (Printf.sprintf "%s:%s" (string_of_n lvl) (show_groups gs)) :: !sels
    | EMerge (lvl, g, t, _, nl) ->
        merges := (Printf.sprintf "%s:%s>%s@%s" (string_of_n lvl) (show_group g) (string_of_n t)
                     (match nl with Some l -> string_of_n l | None -> "-")) :: !merges) ev;
  (!pend, String.concat "|" (List.rev !sels), String.concat "|" (List.rev !merges))

let show_status (s : cstatus) : string = match s with CSOk -> "ok" | CSErr -> "err" | CSPanic -> "panic"

let do_cycle (commit : bool) (args : string) : string =
  match String.split_on_char '#' args with
  | [cfg; ords; oracle] ->
      let cf = match List.filter (fun x -> x <> "") (split_on ' ' (String.trim cfg)) with
        | [thr; l1; l2; maxlv] ->
            { cf_threshold = n_of_string thr; cf_l1 = n_of_string l1; cf_l2 = n_of_string l2;
              cf_max_levels = n_of_string maxlv }
        | _ -> failwith "bad cfg" in
      let ords = List.map (fun o -> ids_of o ',') (String.split_on_char '/' (String.trim ords)) in
      let input = { in_cfg = cf; in_ords = ords; in_oracle = parse_oracle oracle } in
      let (next, status, ev) =
        match !st with
        | S3 x -> let ((x', s), ev) = cycle s3_backend input x in (S3 x', s, ev)
        | Local x -> let ((x', s), ev) = cycle local_backend input x in (Local x', s, ev)
        | NoState -> failwith "no state" in
      if commit then st := next;
      let (pend, sels, merges) = show_events ev in
      Printf.sprintf "status=%s pending=%s sel=%s merges=%s cat=%s fresh=%s measure=%s"
        (show_status status) pend sels merges (show_cat next) (fresh_of next) (measure_of next)
  | _ -> failwith "bad cycle command"

let run_line (line : string) : string =
  let line = String.trim line in
  let (cmd, rest) =
    match String.index_opt line ' ' with
    | Some i -> (String.sub line 0 i, String.sub line (i + 1) (String.length line - i - 1))
    | None -> (line, "") in
  match cmd with
  | "init" ->
      (match String.index_opt rest ' ' with
       | Some i -> do_init (String.sub rest 0 i) (String.sub rest (i + 1) (String.length rest - i - 1))
       | None -> do_init rest "")
  | "cycle" -> do_cycle true rest
  | "try" -> do_cycle false rest
  | _ -> failwith ("bad command: " ^ cmd)

let () = serve run_line
