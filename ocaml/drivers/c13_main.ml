(* modelrun-c13: runs the extracted CAS machine instantiated for shard metadata
   (Model/Shard.v over Base/CasProto.v), the in-memory update and the router
   cache.  One case per line, fields separated by '|'.

   S|init=<sid>:<gen>:<st>:<dt>,...|progs=<ops c0>/<ops c1>/...|sched=<c>,<c>,...|local=<ops>
        op  = <sid>:<expected>:<st>:<dt>      ops separated by ';'
        init lists the shard objects that exist before the run
        sched = the clients in the order in which they perform one object-store
                request each; a suffix injects a transport fault into that request:
                <c>b = fails before taking effect, <c>a = fails after taking effect
                (fault steps run on Model/CasFault.v, which no theorem covers);
                `local` = a sequential history for the in-memory backend
                (fields the driver does not know, e.g. gf=, are ignored)
     ->  steps=<c>:<kind>,...|res=<r;r;..>/<..>|vers=<sid>=<g.st.dt>,..;<sid>=..|final=<sid>=<g.st.dt or none>;..|lres=<r;..>|lfinal=<sid>=..;..
        kind = G | Pc+ | Pc- | Pu+ | Pu-     (GET, PUT create/update, ok/conflict)
               with a fault: Gx, Pcx/Pux (not applied), Pc!/Pu! (applied, error reported),
               Pc~/Pu~ (fail-after on a PUT whose precondition did not hold)
        r    = ok | stale.<expected>.<actual> | notfound | retries | fault
   R|<rop>;<rop>;...     rop = U id gen data | I id | A | M id nid ngen ndata | Q id
     ->  one token per Q:  <gen>.<data> | none                                   *)

let rec nat_of_int (i : int) : nat = if i <= 0 then O else S (nat_of_int (i - 1))

let field (k : string) (fs : string list) : string =
  let p = k ^ "=" in
  let n = String.length p in
  match List.find_opt (fun f -> String.length f >= n && String.sub f 0 n = p) fs with
  | Some f -> String.sub f n (String.length f - n)
  | None -> ""

let show_shard (s : shard) : string =
  Printf.sprintf "%s.%s.%s" (string_of_n s.sh_gen) (string_of_n s.sh_state) (string_of_n s.sh_data)

let show_out (o : sout) : string =
  match o with
  | SOk -> "ok"
  | SStale (e, a) -> Printf.sprintf "stale.%s.%s" (string_of_n e) (string_of_n a)
  | SNotFound -> "notfound"

let show_oout (o : sout option) : string =
  match o with Some x -> show_out x | None -> "fault"

let show_fin (f : sout option fin) : string =
  match f with FCommit o -> show_oout o | FAbort o -> show_oout o | FRetries -> "retries"

(* "<c>", "<c>b", "<c>a" *)
let parse_step (t : string) : int * faction =
  let t = String.trim t in
  let n = String.length t in
  match t.[n - 1] with
  | 'b' -> (int_of_string (String.sub t 0 (n - 1)), FailBefore)
  | 'a' -> (int_of_string (String.sub t 0 (n - 1)), FailAfter)
  | _ -> (int_of_string t, Proceed)

(* op text -> (sid, sop) *)
let parse_op (t : string) : int * sop =
  match split_on ':' (String.trim t) with
  | [sid; e; st; dt] ->
      (int_of_string sid, { so_expected = n_of_string e; so_state = n_of_string st; so_data = n_of_string dt })
  | _ -> failwith ("bad op: " ^ t)

let parse_ops (t : string) : (int * sop) list =
  List.map parse_op (List.filter (fun x -> String.trim x <> "") (split_on ';' t))

let run_sched (fs : string list) : string =
  let inits =
    List.map (fun t -> match split_on ':' t with
      | [sid; g; st; dt] ->
          (int_of_string sid, { sh_gen = n_of_string g; sh_state = n_of_string st; sh_data = n_of_string dt })
      | _ -> failwith ("bad init: " ^ t))
      (List.filter (fun x -> x <> "") (split_on ',' (field "init" fs))) in
  let progs : (int * sop) list array =
    Array.of_list (List.map parse_ops (String.split_on_char '/' (field "progs" fs))) in
  let ncl = Array.length progs in
  let sids =
    List.sort_uniq compare
      (List.map fst inits @ List.concat (Array.to_list (Array.map (List.map fst) progs))
       @ List.map fst (parse_ops (field "local" fs))) in
  (* one machine per shard object; client c's program there = its ops on that shard *)
  let machines =
    List.map (fun sid ->
      let prog_of (c : int) : sop list =
        if c < ncl then List.map snd (List.filter (fun (s, _) -> s = sid) progs.(c)) else [] in
      let table = Array.init ncl prog_of in
      let rec idx (c : nat) (i : int) : int = match c with O -> i | S c' -> idx c' (i + 1) in
      let pf (c : nat) : sop list = let i = idx c 0 in if i < ncl then table.(i) else [] in
      (sid, ref (shard_finit (List.assoc_opt sid inits) pf))) sids in
  let cur = Array.make ncl 0 in
  let results = Array.make ncl [] in
  let steps = ref [] in
  List.iter (fun t ->
    let (c, act) = parse_step t in
    if c >= ncl || cur.(c) >= List.length progs.(c) then steps := Printf.sprintf "%d:-" c :: !steps
    else begin
      let (sid, _) = List.nth progs.(c) cur.(c) in
      let m = List.assoc sid machines in
      let cn = nat_of_int c in
      let before = !m in
      let kind = match (before.s_cl cn).c_pc with
        | AfterLoad (_, _, snap, _, _, _) -> (match snap with None -> "Pc" | Some _ -> "Pu")
        | _ -> "G" in
      let after = shard_fstep before (FReq (cn, act)) in
      m := after;
      let applied = List.length after.s_log > List.length before.s_log in
      let kind =
        match act with
        | Proceed -> if kind = "G" then kind else if applied then kind ^ "+" else kind ^ "-"
        | FailBefore -> kind ^ "x"
        | FailAfter -> if kind = "G" then kind ^ "x" else if applied then kind ^ "!" else kind ^ "~" in
      steps := Printf.sprintf "%d:%s" c kind :: !steps;
      let d0 = (before.s_cl cn).c_done and d1 = (after.s_cl cn).c_done in
      if List.length d1 > List.length d0 then begin
        let (_, f) = List.nth d1 (List.length d1 - 1) in
        results.(c) <- show_fin f :: results.(c);
        cur.(c) <- cur.(c) + 1
      end
    end)
    (List.filter (fun x -> String.trim x <> "") (split_on ',' (field "sched" fs)));
  let res = String.concat "/" (Array.to_list (Array.map (fun l -> String.concat ";" (List.rev l)) results)) in
  let vers = String.concat ";" (List.map (fun (sid, m) ->
    Printf.sprintf "%d=%s" sid (String.concat "," (List.map (fun k -> show_shard k.k_val) !m.s_log))) machines) in
  let final = String.concat ";" (List.map (fun (sid, m) ->
    Printf.sprintf "%d=%s" sid (match cur_val !m with Some s -> show_shard s | None -> "none")) machines) in
  (* the in-memory backend on a sequential history *)
  let lstate = ref (List.map (fun sid -> (sid, List.assoc_opt sid inits)) sids) in
  let lres = List.map (fun (sid, op) ->
    let v = List.assoc sid !lstate in
    let (v', o) = local_update v op in
    lstate := List.map (fun (s, x) -> if s = sid then (s, v') else (s, x)) !lstate;
    show_out o) (parse_ops (field "local" fs)) in
  let lfinal = String.concat ";" (List.map (fun (sid, v) ->
    Printf.sprintf "%d=%s" sid (match v with Some s -> show_shard s | None -> "none")) !lstate) in
  Printf.sprintf "steps=%s|res=%s|vers=%s|final=%s|lres=%s|lfinal=%s"
    (String.concat "," (List.rev !steps)) res vers final (String.concat ";" lres) lfinal

let run_router (body : string) : string =
  let c = ref [] in
  let outs = ref [] in
  List.iter (fun t ->
    match split_on ' ' (String.trim t) with
    | ["U"; id; g; d] -> c := router_apply !c (RUpdate (n_of_string id, n_of_string g, n_of_string d))
    | ["I"; id] -> c := router_apply !c (RInvalidate (n_of_string id))
    | ["A"] -> c := router_apply !c RInvalidateAll
    | ["M"; id; nid; g; d] ->
        c := router_apply !c (RMoved (n_of_string id, n_of_string nid, n_of_string g, n_of_string d))
    | ["Q"; id] ->
        let o = match aget N.eqb (n_of_string id) !c with
          | Some (g, d) -> Printf.sprintf "%s.%s" (string_of_n g) (string_of_n d)
          | None -> "none" in
        (* cross-check the projection used by the theorems *)
        (match router_gen !c (n_of_string id), aget N.eqb (n_of_string id) !c with
         | Some g, Some (g', _) when g = g' -> ()
         | None, None -> ()
         | _ -> failwith "router_gen mismatch");
        outs := o :: !outs
    | [] | [""] -> ()
    | _ -> failwith ("bad rop: " ^ t)) (split_on ';' body);
  String.concat ";" (List.rev !outs)

let run_line (line : string) : string =
  match String.split_on_char '|' line with
  | "S" :: fs -> run_sched fs
  | "R" :: rest -> run_router (String.concat "|" rest)
  | _ -> failwith "bad line"

let () = serve run_line
