(* modelrun-sqlgate: runs the extracted SQL admission model (C11).
   Input line:
     gate <iface> <plan>|<plan>|...     a request of 0..n statements through an interface
     raw <plan>                         ctx.sql + collect with unrestricted options (engine semantics)
     raw3 <iface> <plan>                the unrepaired request path (plain ctx.sql at every site)
   plan   := q.<Op>[plans] | dml.<Kind>.<Loc>[plan] | ddl.<Kind>[plans] | copy.<Loc>[plan]
           | st.<Kind>[plans] | ex[plan] | an[plan] | desc
   plans  := empty, or plan {, plan}
   iface  := sql | sqlidx | stream | flightinfo | flightprep | flightprepgrpc | execstream
   Output line:  accepted=<0|1> effects=<classes>      (gate)
                 effects=<classes>                     (raw, raw3)
   classes: sorted, unique, comma separated: store:<loc> | catalog | session | function *)

let qop_of = function
  | "Projection" -> QProjection | "Filter" -> QFilter | "Window" -> QWindow
  | "Aggregate" -> QAggregate | "Sort" -> QSort | "Join" -> QJoin
  | "Repartition" -> QRepartition | "Union" -> QUnion | "TableScan" -> QTableScan
  | "EmptyRelation" -> QEmptyRelation | "Subquery" -> QSubquery
  | "SubqueryAlias" -> QSubqueryAlias | "Limit" -> QLimit | "Values" -> QValues
  | "Extension" -> QExtension | "Distinct" -> QDistinct | "Unnest" -> QUnnest
  | "RecursiveQuery" -> QRecursiveQuery
  | s -> failwith ("bad qop " ^ s)

let dml_of = function
  | "Insert" -> DInsert | "Delete" -> DDelete | "Update" -> DUpdate | "Ctas" -> DCtas
  | s -> failwith ("bad dml " ^ s)

let ddl_of = function
  | "CreateExternalTable" -> CreateExternalTable | "CreateMemoryTable" -> CreateMemoryTable
  | "CreateView" -> CreateView | "CreateCatalogSchema" -> CreateCatalogSchema
  | "CreateCatalog" -> CreateCatalog | "CreateIndex" -> CreateIndex
  | "DropTable" -> DropTable | "DropView" -> DropView
  | "DropCatalogSchema" -> DropCatalogSchema | "CreateFunction" -> CreateFunction
  | "DropFunction" -> DropFunction
  | s -> failwith ("bad ddl " ^ s)

let stmt_of = function
  | "TransactionStart" -> TransactionStart | "TransactionEnd" -> TransactionEnd
  | "SetVariable" -> SetVariable | "Prepare" -> Prepare | "Execute" -> Execute
  | "Deallocate" -> Deallocate
  | s -> failwith ("bad stmt " ^ s)

let loc_of = function
  | "fresh" -> LFresh | "chunk" -> LChunk | "catalog" -> LCatalog | "local" -> LLocalFile
  | "unreg" -> LUnregistered | "mem" -> LMemTable | "noinsert" -> LNoInsert
  | s -> failwith ("bad loc " ^ s)

let loc_name = function
  | LFresh -> "fresh" | LChunk -> "chunk" | LCatalog -> "catalog" | LLocalFile -> "local"
  | LUnregistered -> "unreg" | LMemTable -> "mem" | LNoInsert -> "noinsert"

let iface_of = function
  | "sql" -> ISqlHttp | "sqlidx" -> ISqlIndexed | "stream" -> IStreaming
  | "flightinfo" -> IFlightInfo | "flightprep" -> IFlightPrepare
  | "flightprepgrpc" -> IFlightPrepareGrpc | "execstream" -> IExecuteStream
  | s -> failwith ("bad iface " ^ s)

(* recursive-descent parser over the string *)
let parse_plan (s : string) : plan =
  let n = String.length s in
  let pos = ref 0 in
  let peek () = if !pos < n then s.[!pos] else '\000' in
  let head () =
    let st = !pos in
    while !pos < n && (let c = s.[!pos] in c <> '[' && c <> ']' && c <> ',') do incr pos done;
    String.sub s st (!pos - st) in
  let expect c = if peek () = c then incr pos else failwith (Printf.sprintf "expected %c at %d in %s" c !pos s) in
  let rec plan () : plan =
    let h = head () in
    match String.split_on_char '.' h with
    | ["desc"] -> PDescribeTable
    | ["q"; op] -> let cs = children () in PQuery (qop_of op, cs)
    | ["dml"; k; l] -> let c = one () in PDml (dml_of k, loc_of l, c)
    | ["ddl"; k] -> let cs = children () in PDdl (ddl_of k, cs)
    | ["copy"; l] -> let c = one () in PCopy (loc_of l, c)
    | ["st"; k] -> let cs = children () in PStmt (stmt_of k, cs)
    | ["ex"] -> let c = one () in PExplain c
    | ["an"] -> let c = one () in PAnalyze c
    | _ -> failwith ("bad node " ^ h)
  and children () : plan list =
    expect '[';
    if peek () = ']' then (incr pos; []) else begin
      let acc = ref [plan ()] in
      while peek () = ',' do incr pos; acc := plan () :: !acc done;
      expect ']'; List.rev !acc
    end
  and one () : plan =
    match children () with [c] -> c | _ -> failwith "expected exactly one child" in
  let p = plan () in
  if !pos <> n then failwith ("trailing input in " ^ s);
  p

let class_of (e : effect) : string =
  match e with
  | EStoreWrite l -> "store:" ^ loc_name l
  | ECatalog _ -> "catalog"
  | ESession _ -> "session"
  | EFunction _ -> "function"

let show_effects (es : effect list) : string =
  String.concat "," (List.sort_uniq compare (List.map class_of es))

let run_line (line : string) : string =
  match split_on ' ' (String.trim line) with
  | ["gate"; i] ->
      let (ok, es) = submit (iface_of i) [] in
      Printf.sprintf "accepted=%d effects=%s" (if ok then 1 else 0) (show_effects es)
  | ["gate"; i; ps] ->
      let stmts = List.map parse_plan (split_on '|' ps) in
      let (ok, es) = submit (iface_of i) stmts in
      Printf.sprintf "accepted=%d effects=%s" (if ok then 1 else 0) (show_effects es)
  | ["raw"; p] ->
      let pl = parse_plan p in
      if admitted_with opts_unrestricted pl then Printf.sprintf "effects=%s" (show_effects (effects pl))
      else "effects=REJECTED"
  | ["raw3"; i; p] ->
      Printf.sprintf "effects=%s" (show_effects (run_sites_unrestricted (iface_sites (iface_of i)) (parse_plan p)))
  | _ -> failwith ("bad line: " ^ line)

let () = serve run_line
