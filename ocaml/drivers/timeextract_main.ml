(* modelrun-timeextract: runs the extracted model of the pruning-input
   extraction (Model/TimeExtract.v) and of the predicate semantics (Model/Pred.v).

   Input lines (tokens separated by blanks; filters separated by ';'):
     X <pred> ; <pred> ; ...          the Filter predicates of a plan, top-down
        -> range=<D | lo,hi> preds=<cp>;<cp>;...
           cp ::= L<k> | and(cp,cp) | or(cp,cp) | not(cp)
     S <now> ; <pred> ; <ts>:<bits> ; <ts>:<bits> ; ...
        truth of <pred> on each row; <bits> is a string over T/F/N giving the
        truth of label atom k (k = position) on that row ('-' = no atoms)
        -> one of T/F/N per row
     K <bound> <data> <nsel>          known-finding classifier: <bound>/<data> = i | n (timestamp
        column of the table bound before the query / of the ingested data: Int64 or
        Timestamp(ns)), <nsel> = number of selected chunks
        -> empty-selection-schema-of-earlier-registration | none
   pred ::= C <op> <lit> | R <op> <lit> | B <0|1> <lit> <lit> | L <k> <0|1>
          | A <pred> <pred> | O <pred> <pred> | N <pred>
   op   ::= eq | ne | lt | le | gt | ge
   lit  ::= i <z> | t <s|m|u|n> <z> | n <delta> | o <k>                      *)

let op_of = function
  | "eq" -> OEq | "ne" -> ONe | "lt" -> OLt | "le" -> OLe | "gt" -> OGt | "ge" -> OGe
  | s -> failwith ("bad op " ^ s)

let unit_of = function
  | "s" -> USec | "m" -> UMilli | "u" -> UMicro | "n" -> UNano
  | s -> failwith ("bad unit " ^ s)

let bool_of = function "0" -> false | "1" -> true | s -> failwith ("bad flag " ^ s)

let parse_lit (toks : string list) : lit * string list =
  match toks with
  | "i" :: v :: r -> (LInt (z_of_string v), r)
  | "t" :: u :: v :: r -> (LTs (unit_of u, z_of_string v), r)
  | "n" :: d :: r -> (LNow (z_of_string d), r)
  | "o" :: k :: r -> (LOther (n_of_string k), r)
  | _ -> failwith "bad literal"

let rec parse_pred (toks : string list) : pred * string list =
  match toks with
  | "C" :: op :: r -> let (l, r) = parse_lit r in (PCmp (op_of op, l), r)
  | "R" :: op :: r -> let (l, r) = parse_lit r in (PCmpR (op_of op, l), r)
  | "B" :: neg :: r ->
      let (lo, r) = parse_lit r in
      let (hi, r) = parse_lit r in
      (PBetween (bool_of neg, lo, hi), r)
  | "L" :: k :: conv :: r -> (PLabel (n_of_string k, bool_of conv), r)
  | "A" :: r -> let (a, r) = parse_pred r in let (b, r) = parse_pred r in (PAnd (a, b), r)
  | "O" :: r -> let (a, r) = parse_pred r in let (b, r) = parse_pred r in (POr (a, b), r)
  | "N" :: r -> let (a, r) = parse_pred r in (PNot a, r)
  | _ -> failwith "bad predicate"

let toks_of (s : string) : string list =
  List.filter (fun t -> t <> "") (String.split_on_char ' ' (String.trim s))

let pred_of_string (s : string) : pred =
  match parse_pred (toks_of s) with
  | (p, []) -> p
  | _ -> failwith "trailing tokens"

let rec show_cp (c : cpred) : string =
  match c with
  | CLeaf k -> "L" ^ string_of_n k
  | CAnd (a, b) -> "and(" ^ show_cp a ^ "," ^ show_cp b ^ ")"
  | COr (a, b) -> "or(" ^ show_cp a ^ "," ^ show_cp b ^ ")"
  | CNot a -> "not(" ^ show_cp a ^ ")"

let show_tv (t : tv) : string =
  match t with Some true -> "T" | Some false -> "F" | None -> "N"

let run_line (line : string) : string =
  let line = String.trim line in
  if String.length line < 1 then failwith "empty line" else
  let kind = line.[0] and rest = String.sub line 1 (String.length line - 1) in
  let parts = List.filter (fun s -> String.trim s <> "") (String.split_on_char ';' rest) in
  match kind with
  | 'X' ->
      let fs = List.map pred_of_string parts in
      let range = match extract fs with
        | TDefault -> "D"
        | TRange (lo, hi) -> string_of_z lo ^ "," ^ string_of_z hi in
      let preds = String.concat ";" (List.map show_cp (plan_preds fs)) in
      Printf.sprintf "range=%s preds=%s" range preds
  | 'S' ->
      (match parts with
       | now :: p :: rows ->
           let now = z_of_string (String.trim now) in
           let p = pred_of_string p in
           let rows = List.map (fun s ->
             match String.split_on_char ':' (String.trim s) with
             | [ts; bits] -> (z_of_string ts, bits)
             | _ -> failwith "bad row") rows in
           let arr = Array.of_list rows in
           let label (k : n) (id : n) : tv =
             let (_, bits) = arr.(int_of_n id) in
             let k = int_of_n k in
             if k >= String.length bits then None
             else (match bits.[k] with 'T' -> Some true | 'F' -> Some false | _ -> None) in
           let i = { i_now = now; i_other = (fun _ _ _ _ -> None); i_label = label } in
           String.concat "" (List.mapi (fun idx (ts, _) ->
             show_tv (sem i p { r_id = n_of_int idx; r_ts = ts })) rows)
       | _ -> failwith "bad S line")
  | 'K' ->
      (match toks_of rest with
       | [b; d; nsel] ->
           let kind = function "i" -> KInt64 | "n" -> KNanos | s -> failwith ("bad kind " ^ s) in
           let sel = List.init (int_of_string nsel) (fun i -> n_of_int (i + 1)) in
           if known_empty_selection_schema (kind b) (kind d) sel
           then "empty-selection-schema-of-earlier-registration" else "none"
       | _ -> failwith "bad K line")
  | _ -> failwith "bad line kind"

let () = serve run_line
