(* modelrun-ingestdur: runs the extracted durable ingest model
   (Model/IngestDur.v, C01) on one scenario per line, at the granularity of
   the harness (one label = run the released task to its next park point).

   Input  (fields separated by '|'):
     C <flush_rows> <flush_bytes> <max_bytes> <max_segment>
     W <batch>;<batch>;...      one field per writer; batch = <schema>:<size>:<ipc_len>:<replayed_size>:<id>,<ts>,...
     S <label> ...              W<i>[a|b] | T[a|b] | R[a|b] | X | K | Kr (crash, empty tail segment) | I (tick)
   Output:
     steps=<mode+buffer>,<chunks>,<flushed>,<wal segments>,<durable>/...
     res=<o|f|e|l per finished write>/...   cat=<ids of chunk>;... (sorted)   class=<|K1|K2>     *)

let rec nat_of_int (i : int) : nat = if i <= 0 then O else S (nat_of_int (i - 1))

let parse_rows (s : string) : row list =
  let rec go = function
    | id :: ts :: rest -> { r_id = n_of_string id; r_ts = z_of_string ts } :: go rest
    | [] -> []
    | _ -> failwith "odd row list" in
  go (split_on ',' s)

let parse_req (s : string) : wreq =
  match String.split_on_char ':' s with
  | [sch; size; plen; rsize; rows] ->
      { rq_b = { b_schema = n_of_string sch; b_rows = parse_rows rows; b_size = n_of_string size };
        rq_len = n_of_string plen; rq_rsize = n_of_string rsize }
  | _ -> failwith ("bad batch: " ^ s)

let rec parse_label (s : string) : dlabel =
  if s = "Kr" then DCrashRot else
  let n = String.length s in
  let last = s.[n - 1] in
  let (body, f) =
    if n > 1 && last = 'b' then (String.sub s 0 (n - 1), FBefore)
    else if n > 1 && last = 'a' then (String.sub s 0 (n - 1), FAfter)
    else (s, FNone) in
  match body.[0] with
  | 'W' -> DW (nat_of_int (int_of_string (String.sub body 1 (String.length body - 1))), f)
  | 'T' -> DT f
  | 'R' -> DRec f
  | 'X' -> DShut
  | 'K' -> DCrash
  | 'I' -> DTick
  | _ -> failwith ("bad label: " ^ s)

let show_seg (sg : wentry list) : string =
  "[" ^ String.concat "," (List.map (fun e -> string_of_n e.we_seq) sg) ^ "]"

let run_line (line : string) : string =
  let fields = String.split_on_char '|' line in
  let cfg = ref None and todos = ref [] and sched = ref [] in
  List.iter (fun f ->
    let f = String.trim f in
    if f = "" then () else
    match f.[0] with
    | 'C' -> (match split_on ' ' f with
              | [_; a; b; c; d] ->
                  cfg := Some { dc_c = { cf_flush_rows = n_of_string a; cf_flush_bytes = n_of_string b;
                                         cf_max_bytes = n_of_string c; cf_interval = Z0 };
                                dc_max_seg = n_of_string d }
              | _ -> failwith "bad C")
    | 'W' -> let body = String.trim (String.sub f 1 (String.length f - 1)) in
             todos := !todos @ [List.map parse_req (split_on ';' body)]
    | 'S' -> let body = String.trim (String.sub f 1 (String.length f - 1)) in
             sched := List.map parse_label (List.filter (fun x -> x <> "") (split_on ' ' body))
    | _ -> failwith ("bad field: " ^ f)) fields;
  let c = match !cfg with Some c -> c | None -> failwith "no cfg" in
  let fuel = nat_of_int 2000 in
  let s = ref (dinit !todos) in
  let steps = List.map (fun l ->
    s := dmacro c fuel l !s;
    let d = !s.ds_d and v = !s.ds_v in
    let vol = match !s.ds_mode with
      | MUp -> Printf.sprintf "U,%s,%s,%d" (string_of_n v.v_buf.db_rows) (string_of_n v.v_buf.db_bytes)
                 (List.length v.v_buf.db_items)
      | MRec -> "R"
      | MDown -> "D" in
    Printf.sprintf "%s,%d,%s,%s,%d" vol (List.length d.d_cat) (string_of_n d.d_flushed)
      (String.concat "" (List.map show_seg (d.d_segs @ [d.d_active])))
      (if durable_b !s then 1 else 0)) !sched in
  let res = List.map (fun w ->
    String.concat "," (List.map (fun (_, r) -> match r with ROk -> "o" | RFull -> "f" | RErr -> "e" | RLost -> "l") w.dw_res))
    !s.ds_ws in
  let cat = List.sort compare (List.map (fun bs ->
    String.concat "." (List.concat_map (fun (_, b) -> List.map (fun r -> string_of_n r.r_id) b.b_rows) bs)) !s.ds_d.d_cat) in
  let cls = match int_of_n !s.ds_flag with 1 -> "K1" | 2 -> "K2" | _ -> "" in
  Printf.sprintf "steps=%s|res=%s|cat=%s|class=%s"
    (String.concat "/" steps) (String.concat "/" res) (String.concat ";" cat) cls

let () = serve run_line
