(* modelrun-gc: runs the extracted GC / retention / pin model (Model/Gc.v) on a
   history.  Input line:  "cfg <grace_ns> <retention_days> <t0_ns>" then ops, all separated by ';'
     T <d_ns>                 clock tick
     R <p> <min> <max>        register chunk p (catalog + data file)
     C <tgt> <src,src,...>    complete_compaction(srcs,tgt) + schedule_deletion of every source
     GF                       begin a compaction cycle: GC filter (and, when nothing is selected,
                              the retention pass) - up to the cycle's first store request
     GD <p>                   let the parked DELETE of p proceed (after the last one: retain + retention)
     GP                       let the cycle run to its end (remaining deletes, retain, retention, persist)
     G                        = GF ; GP
     RSG <grace_ns>           as RS, the new incarnation is configured with this gc_grace_period
     RS                       compactor restart: a cycle in flight is lost; load the file (the harness
                              always sends GF next: `run` starts its first cycle at once)
     PQ <q> <s> <e>           query q: get_chunks(s,e) on the current catalog, pin the result
     P <q> <p,p,...>          query q with a given (possibly stale) chunk list: pin it
     U <q>                    query q reads its files and drops its pin guard
     O                        observe
     DE <p@ts_ns,...>         entries appended to pending-deletions.json from outside
     CF <tgt> <src,...>       complete_compaction failed (nothing swapped, nothing scheduled)
     GA                       the cycle ended with an error before its GC part (failed compaction)
     GFX / GDX <p> / GPX / GX as GF / GD / GP / G, but the retention pass fails at its first
                              delete_chunk: the cycle ends after the GC part, nothing is persisted
   Output: one token per op separated by ';', then "#K=<0|1>" (1 = the history is in the known
   class pin-toctou: some pin was taken on a path already selected by a running GC pass).
     C      -> 0 | 1
     GD     -> d | skip
     GP, G, O -> del=<paths>|ret=<paths>|cat=<paths>|obj=<paths>|disk=<p@secs,...>
     PQ     -> got=<paths>          U -> miss=<paths>          others -> -            *)

let paths_sorted (l : path list) : string =
  String.concat "," (List.map string_of_int (List.sort compare (List.map int_of_n l)))

let i64_of_z (x : z) : int64 = Int64.of_string (string_of_z x)

(* whole seconds since t0, rounded down *)
let rel_secs (t0 : z) (ts : z) : string =
  let d = Int64.sub (i64_of_z ts) (i64_of_z t0) in
  let q = Int64.div d 1_000_000_000L and r = Int64.rem d 1_000_000_000L in
  Int64.to_string (if Int64.compare r 0L < 0 then Int64.sub q 1L else q)

let entries_sorted (t0 : z) (l : (path * z) list) : string =
  let items = List.sort compare (List.map (fun (p, ts) -> (int_of_n p, Int64.of_string (rel_secs t0 ts))) l) in
  String.concat "," (List.map (fun (p, s) -> Printf.sprintf "%d@%Ld" p s) items)

let rec take n l = if n <= 0 then [] else match l with [] -> [] | x :: r -> x :: take (n - 1) r

let plist (s : string) : path list = List.map n_of_string (split_on ',' s)

let run_line (line : string) : string =
  match split_on ';' line with
  | [] -> "EMPTY"
  | hd :: ops ->
    let (c0, t0) = match split_on ' ' (String.trim hd) with
      | ["cfg"; g; d; t0] -> ({ g_grace = z_of_string g; g_retention_days = z_of_string d; g_skew = default_skew }, z_of_string t0)
      | _ -> failwith "bad cfg" in
    (* the configuration of the running incarnation: a restart may change gc_grace_period *)
    let cref = ref c0 in
    let s = ref (init t0) in
    let is_open = ref false in
    let dmark = ref 0 and rmark = ref 0 in
    let known = ref false in
    let st x = s := step !cref !s x in
    let observe () =
      let nd = List.length !s.dlog - !dmark and nr = List.length !s.rlog - !rmark in
      let dels = List.map (fun e -> e.d_path) (take nd !s.dlog) in
      let rets = List.map (fun e -> e.r_path) (take nr !s.rlog) in
      dmark := List.length !s.dlog; rmark := List.length !s.rlog;
      Printf.sprintf "del=%s|ret=%s|cat=%s|obj=%s|disk=%s" (paths_sorted dels) (paths_sorted rets)
        (paths_sorted (List.map fst !s.cat)) (paths_sorted !s.objs) (entries_sorted t0 !s.disk) in
    let finish () = if !is_open then begin s := drv_finish !cref !s; is_open := false end in
    let begin_cycle () = finish (); s := drv_begin !cref !s; is_open := true in
    let finish_x () = if !is_open then begin s := drv_finish_x !cref !s; is_open := false end in
    let begin_cycle_x () = finish (); s := drv_begin_x !cref !s; is_open := !s.gc_active in
    let entries (x : string) : (path * z) list =
      List.map (fun e -> match String.split_on_char '@' e with
        | [p; t] -> (n_of_string p, z_of_string t) | _ -> failwith "bad DE") (split_on ',' x) in
    let pin q = let x = QPin q in (if pin_in_window !s x then known := true); st x in
    let outs = List.map (fun tok ->
      match split_on ' ' (String.trim tok) with
      | ["T"; d] -> st (Tick (z_of_string d)); "-"
      | ["R"; p; mn; mx] -> st (Register (n_of_string p, z_of_string mn, z_of_string mx)); "-"
      | "C" :: tgt :: rest ->
          let srcs = match rest with [] -> [] | [x] -> plist x | _ -> failwith "bad C" in
          let before = List.length !s.pending in
          let ok = amem (fun a b -> a = b) (n_of_string tgt) (cat_remove srcs !s.cat) in
          ignore before;
          st (Swap (srcs, n_of_string tgt)); if ok then "0" else "1"
      | ["DE"; x] -> st (DiskEdit (entries x)); "-"
      | "CF" :: tgt :: rest ->
          let srcs = match rest with [] -> [] | [x] -> plist x | _ -> failwith "bad CF" in
          st (SwapFail (srcs, n_of_string tgt)); "1"
      | ["GA"] -> finish (); "-"
      | ["GFX"] -> begin_cycle_x (); "-"
      | ["GDX"; p] ->
          let p = n_of_string p in
          if !is_open && !s.gc_active && memN p !s.gcsel then begin
            s := drv_delete_x !cref !s p; is_open := !s.gc_active; "d" end else "skip"
      | ["GPX"] -> if !is_open then begin finish_x (); observe () end else "-"
      | ["GX"] -> begin_cycle_x (); finish_x (); observe ()
      | ["GF"] -> begin_cycle (); "-"
      | ["GD"; p] ->
          let p = n_of_string p in
          if !is_open && !s.gc_active && memN p !s.gcsel then begin s := drv_delete !cref !s p; "d" end else "skip"
      | ["GP"] -> if !is_open then begin finish (); observe () end else "-"
      | ["G"] -> begin_cycle (); finish (); observe ()
      | ["RS"] -> is_open := false; st Restart; st Load; "-"
      | ["RSG"; g] -> is_open := false; cref := { !cref with g_grace = z_of_string g }; st Restart; st Load; "-"
      | ["PQ"; q; a; b] ->
          let q = n_of_string q in
          let fresh = not (amem (fun a b -> a = b) q !s.queries) in
          st (QGet (q, z_of_string a, z_of_string b));
          let got = match aget (fun a b -> a = b) q !s.queries with Some qs when fresh -> qs.q_paths | _ -> [] in
          if fresh then pin q; "got=" ^ paths_sorted got
      | "P" :: q :: rest ->
          let ps = match rest with [] -> [] | [x] -> plist x | _ -> failwith "bad P" in
          let q = n_of_string q in
          let fresh = not (amem (fun a b -> a = b) q !s.queries) in
          st (QStale (q, ps)); if fresh then pin q; "-"
      | ["U"; q] ->
          let q = n_of_string q in
          let before = List.length !s.qlog in
          st (QRead q);
          let miss = if List.length !s.qlog > before then (match !s.qlog with e :: _ -> e.qe_missing | [] -> []) else [] in
          st (QUnpin q); "miss=" ^ paths_sorted miss
      | ["O"] -> observe ()
      | _ -> failwith ("bad op: " ^ tok)) ops in
    String.concat ";" outs ^ (if !known then "#K=1" else "#K=0")

let () = serve run_line
