(* modelrun-c07: runs the extracted catalog model (both backends + spec) on a
   history.  Input line:  ops separated by ';'
     R <p> <min> <max> <rows> <size> | D <p> | C <tgt> <src,src,...> | Q <s> <e> | L
   Output line: one token per op, separated by ';'
     R/D/C ->  s3rc,localrc
     Q     ->  s3=<set>|local=<set>|spec=<set>      set = p:min:max,...  sorted by p, or PANIC
     L     ->  s3=<set>|local=<set>|spec=<set>                                      *)

let show_set (l : (path * cmeta) list) : string =
  let items = List.map (fun (p, m) -> (int_of_n p, string_of_z m.m_min, string_of_z m.m_max)) l in
  let items = List.sort compare items in
  String.concat "," (List.map (fun (p, a, b) -> Printf.sprintf "%d:%s:%s" p a b) items)

let show_out (o : (path * cmeta) list outcome) : string =
  match o with Done l -> show_set l | Failed _ -> "ERR" | Panic -> "PANIC" | Hang -> "HANG"

let run_line (line : string) : string =
  let s3 = ref cat_empty and lc = ref lcat_empty and sp = ref [] in
  let outs = List.map (fun tok ->
    match split_on ' ' (String.trim tok) with
    | ["R"; p; mn; mx; rows; size] ->
        let o = ORegister (n_of_string p, { m_min = z_of_string mn; m_max = z_of_string mx;
                                             m_rows = n_of_string rows; m_size = n_of_string size }) in
        let (a, ra) = s3_apply !s3 o and (b, rb) = local_apply !lc o in
        s3 := a; lc := b; sp := spec_apply !sp o;
        Printf.sprintf "%s,%s" (string_of_n ra) (string_of_n rb)
    | ["D"; p] ->
        let o = ODelete (n_of_string p) in
        let (a, ra) = s3_apply !s3 o and (b, rb) = local_apply !lc o in
        s3 := a; lc := b; sp := spec_apply !sp o;
        Printf.sprintf "%s,%s" (string_of_n ra) (string_of_n rb)
    | "C" :: tgt :: rest ->
        let srcs = match rest with [] -> [] | [s] -> List.map n_of_string (split_on ',' s) | _ -> failwith "bad C" in
        let o = OComplete (srcs, n_of_string tgt) in
        let (a, ra) = s3_apply !s3 o and (b, rb) = local_apply !lc o in
        s3 := a; lc := b; sp := spec_apply !sp o;
        Printf.sprintf "%s,%s" (string_of_n ra) (string_of_n rb)
    | ["Q"; s; e] ->
        let s = z_of_string s and e = z_of_string e in
        Printf.sprintf "s3=%s|local=%s|spec=%s" (show_out (s3_get !s3 s e)) (show_out (local_get !lc s e))
          (show_set (spec_get !sp s e))
    | ["L"] ->
        Printf.sprintf "s3=%s|local=%s|spec=%s" (show_set (s3_list !s3)) (show_set (local_list !lc)) (show_set !sp)
    | _ -> failwith ("bad op: " ^ tok)) (split_on ';' line) in
  String.concat ";" outs

let () = serve run_line
