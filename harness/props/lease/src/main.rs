//! csv-lease — correspondence + oracle for C08 (compaction leases are exclusive
//! while live and reclaimable once expired).
//!
//! Object-store backend: 2–3 real `ObjectStoreMetadataClient`s, each on its own
//! `hub.client(k)` SchedStore handle over ONE InMemory store, are driven by a
//! generated schedule.  One `Req c` entry lets node c perform exactly one
//! object-store request (and run on to its next one); `Tick s` advances the
//! shared wall clock (hook `verif_hooks::advance_clock_nanos`).  Every version
//! of `compaction-leases.json` is captured.  The extracted Coq model
//! (Base/CasProto.v run with Model/Lease.v's lease_decide) executes the same
//! programs and schedule; versions, per-node results and final content are
//! compared.  In-memory backend: the same operations as a sequential history
//! on `LocalMetadataClient`, compared op by op with the model's local_step.
//!
//! Oracle (independent of the model), on every captured version / table:
//!   * pairwise disjointness of the leases that are Active and unexpired at the
//!     time of the write (the live set only shrinks until the next write);
//!   * a lease that is live at the time of a write is never missing from the
//!     version written (renewed in time => not handed to someone else);
//!   * an acquire is refused only with the chunks some live lease holds
//!     (expired leases are acquirable), and goes on only when none overlaps;
//!   * "live" is judged by the oracle's OWN deadline per lease = hook-clock time
//!     at which its last successful acquire / renew was decided + 300 s (TTL
//!     hard-coded in the oracle), never by the `expires_at` stored in the file;
//!     and the stored `expires_at` of every captured version must equal it;
//!   * a renew of an absent / terminal lease is answered with the error.
//!
//! Time: the code reads `Utc::now() + offset`.  The harness starts a case with
//! offset 0, remembers `base = Utc::now()`, and advances the offset by whole
//! multiples of QUANT = 5 seconds only.  A timestamp is canonicalised to the
//! multiple of QUANT below (t - base); as long as a case takes less than QUANT
//! seconds of real time (checked with a margin; the case is re-run otherwise) every `expires_at <= now` comparison in the code agrees
//! with the comparison of the canonical values.
use cardinalsin::metadata::{
    CompactionLeases, LeaseStatus, LocalMetadataClient, MetadataClient, ObjectStoreMetadataClient,
    ObjectStoreMetadataConfig,
};
use cardinalsin::verif_hooks::{advance_clock_nanos, set_clock_offset_nanos};
use cardinalsin::Error;
use csv_common::sched::{Action, Hub};
use csv_common::{ddmin, Args, Model, Report, Rng};
use object_store::memory::InMemory;
use serde_json::json;
use std::collections::HashMap;
use std::sync::{Arc, Mutex};
use std::time::Instant;
use tokio::sync::mpsc;

const LEASE_FILE: &str = "compaction-leases.json";

#[derive(Clone, Debug, PartialEq)]
enum Op {
    A { id: u32, holder: u32, chunks: Vec<u32>, level: u32 },
    R(u32),
    C(u32),
    F(u32),
    S,
}

#[derive(Clone, Debug, PartialEq)]
enum Step {
    Req(usize),
    Tick(u64), // seconds
}

#[derive(Clone, Debug)]
struct Case {
    progs: Vec<Vec<Op>>,
    sched: Vec<Step>,
}

fn enc_op(o: &Op) -> String {
    match o {
        Op::A { id, holder, chunks, level } => format!(
            "A.{}.{}.{}.{}",
            id,
            holder,
            chunks.iter().map(|c| c.to_string()).collect::<Vec<_>>().join("+"),
            level
        ),
        Op::R(i) => format!("R.{}", i),
        Op::C(i) => format!("C.{}", i),
        Op::F(i) => format!("F.{}", i),
        Op::S => "S".to_string(),
    }
}

fn dec_op(s: &str) -> Op {
    let f: Vec<&str> = s.split('.').collect();
    match f[0] {
        "A" => Op::A {
            id: f[1].parse().unwrap(),
            holder: f[2].parse().unwrap(),
            chunks: f[3].split('+').filter(|x| !x.is_empty()).map(|x| x.parse().unwrap()).collect(),
            level: f[4].parse().unwrap(),
        },
        "R" => Op::R(f[1].parse().unwrap()),
        "C" => Op::C(f[1].parse().unwrap()),
        "F" => Op::F(f[1].parse().unwrap()),
        _ => Op::S,
    }
}

fn enc_case(c: &Case) -> String {
    let progs = c
        .progs
        .iter()
        .map(|p| p.iter().map(enc_op).collect::<Vec<_>>().join(","))
        .collect::<Vec<_>>()
        .join("/");
    let sched = c
        .sched
        .iter()
        .map(|s| match s {
            Step::Req(k) => format!("q{}", k),
            Step::Tick(d) => format!("t{}", d * 1000),
        })
        .collect::<Vec<_>>()
        .join(",");
    format!("S|0|{}|{}", progs, sched)
}

fn dec_case(line: &str) -> Case {
    let f: Vec<&str> = line.split('|').collect();
    let progs = f[2]
        .split('/')
        .map(|p| p.split(',').filter(|x| !x.is_empty()).map(dec_op).collect())
        .collect();
    let sched = f[3]
        .split(',')
        .filter(|x| !x.is_empty())
        .map(|t| {
            if let Some(k) = t.strip_prefix('q') {
                Step::Req(k.parse().unwrap())
            } else {
                Step::Tick(t[1..].parse::<u64>().unwrap() / 1000)
            }
        })
        .collect();
    Case { progs, sched }
}

/// the sequential history given to the in-memory backend: every `Req c` starts
/// the next operation of node c, ticks stay where they are, leftovers follow
#[derive(Clone, Debug, PartialEq)]
enum HStep {
    Tick(u64),
    Op(Op),
}

fn local_history(c: &Case) -> Vec<HStep> {
    let mut next = vec![0usize; c.progs.len()];
    let mut second = vec![false; c.progs.len()];
    let mut h = Vec::new();
    for s in &c.sched {
        match s {
            Step::Tick(d) => h.push(HStep::Tick(*d)),
            Step::Req(k) => {
                // an operation of the scheduled run typically takes two requests
                // (GET, PUT): every other request of a node starts its next operation,
                // which keeps the ticks spread between the operations
                if *k < c.progs.len() && next[*k] < c.progs[*k].len() {
                    if !second[*k] {
                        h.push(HStep::Op(c.progs[*k][next[*k]].clone()));
                        next[*k] += 1;
                    }
                    second[*k] = !second[*k];
                }
            }
        }
    }
    for k in 0..c.progs.len() {
        while next[k] < c.progs[k].len() {
            h.push(HStep::Op(c.progs[k][next[k]].clone()));
            next[k] += 1;
        }
    }
    h
}

fn enc_hist(h: &[HStep]) -> String {
    format!(
        "L|0|{}",
        h.iter()
            .map(|s| match s {
                HStep::Tick(d) => format!("t{}", d * 1000),
                HStep::Op(o) => enc_op(o),
            })
            .collect::<Vec<_>>()
            .join(",")
    )
}

// ------------------------------------------------------- canonical values ----
#[derive(Clone, Debug)]
struct PL {
    id: u32, // canonical id (0 = a UUID nobody was given: never expected)
    holder: u32,
    chunks: Vec<u32>,
    level: u32,
    acq: i64, // seconds since the start of the case
    exp: i64,
    status: char,
}

/// The oracle keeps its OWN deadline per lease, independent of the `expires_at`
/// stored in the file: (hook-clock time at which the last successful acquire or
/// renew of that lease was decided) + TTL.  The TTL is hard-coded here on
/// purpose (the property text: 300 s), it is not read from the sources.
const ORACLE_TTL_S: i64 = 300;

#[derive(Default, Clone)]
struct Deadlines {
    d: HashMap<u32, i64>,
    renewals: HashMap<u32, u32>,
}

impl Deadlines {
    fn acquired(&mut self, id: u32, decided_at: i64) {
        self.d.insert(id, decided_at + ORACLE_TTL_S);
        self.renewals.insert(id, 0);
    }
    fn renewed(&mut self, id: u32, decided_at: i64) {
        self.d.insert(id, decided_at + ORACLE_TTL_S);
        *self.renewals.entry(id).or_insert(0) += 1;
    }
    /// a lease id the oracle has never seen acquired is reported separately
    /// ("a lease id nobody was given"); its stored field is used then
    fn of(&self, l: &PL) -> i64 {
        self.d.get(&l.id).copied().unwrap_or(l.exp)
    }
    fn live(&self, l: &PL, now: i64) -> bool {
        l.status == 'A' && self.of(l) > now
    }
    /// (b) the expires_at stored in a version must be the oracle's deadline
    fn stored_mismatch(&self, t: &[PL]) -> Option<String> {
        for l in t {
            if let Some(d) = self.d.get(&l.id) {
                if l.exp != *d {
                    return Some(format!(
                        "lease {} (holder {}) is stored with expires_at = {}s, but its last successful acquire/renew was decided at {}s: it must end at {}s (TTL {} s)",
                        l.id, l.holder, l.exp, d - ORACLE_TTL_S, d, ORACLE_TTL_S
                    ));
                }
            }
        }
        None
    }
}

fn show_pl(l: &PL) -> String {
    format!(
        "{}:{}:{}:{}:{}:{}:{}",
        l.id,
        l.holder,
        l.chunks.iter().map(|c| c.to_string()).collect::<Vec<_>>().join("+"),
        l.level,
        l.acq * 1000,
        l.exp * 1000,
        l.status
    )
}

fn show_table(t: &[PL]) -> String {
    if t.is_empty() {
        "-".to_string()
    } else {
        t.iter().map(show_pl).collect::<Vec<_>>().join(";")
    }
}

fn chunk_name(c: u32) -> String {
    format!("chunk_{}.parquet", c)
}
fn chunk_id(s: &str) -> u32 {
    s.trim_start_matches("chunk_").trim_end_matches(".parquet").parse().unwrap_or(999_999)
}
fn node_name(h: u32) -> String {
    format!("node-{}", h)
}
fn node_id(s: &str) -> u32 {
    s.trim_start_matches("node-").parse().unwrap_or(999_999)
}

type Base = chrono::DateTime<chrono::Utc>;

/// clock quantum in seconds: every tick is a multiple of it and timestamps are
/// canonicalised to the quantum below them, so a case may take up to QUANT
/// seconds of real time before a comparison could come out differently
const QUANT: i64 = 5;
const SLOW_MS: u128 = 3500;

fn canon_secs(t: Base, base: Base) -> i64 {
    (t - base).num_milliseconds().div_euclid(1000 * QUANT) * QUANT
}

fn canon_lease(l: &cardinalsin::metadata::CompactionLease, base: Base, ids: &HashMap<u32, String>) -> PL {
    let id = ids.iter().find(|(_, u)| **u == l.lease_id).map(|(k, _)| *k).unwrap_or(0);
    PL {
        id,
        holder: node_id(&l.holder_id),
        chunks: l.chunks.iter().map(|c| chunk_id(c)).collect(),
        level: l.level,
        acq: canon_secs(l.acquired_at, base),
        exp: canon_secs(l.expires_at, base),
        status: match l.status {
            LeaseStatus::Active => 'A',
            LeaseStatus::Completed => 'C',
            LeaseStatus::Failed => 'F',
        },
    }
}

fn canon_table(ls: &CompactionLeases, base: Base, ids: &HashMap<u32, String>) -> Vec<PL> {
    let mut v: Vec<PL> = ls
        .leases
        .iter()
        .map(|(k, l)| {
            let mut p = canon_lease(l, base, ids);
            if *k != l.lease_id {
                p.id = 0;
            }
            p
        })
        .collect();
    v.sort_by_key(|l| l.id);
    v
}

/// property predicate: two distinct leases live at `now` never share a chunk
fn excl_failure(dl: &Deadlines, t: &[PL], now: i64) -> Option<String> {
    for i in 0..t.len() {
        for j in (i + 1)..t.len() {
            if dl.live(&t[i], now) && dl.live(&t[j], now) {
                if let Some(c) = t[i].chunks.iter().find(|c| t[j].chunks.contains(c)) {
                    return Some(format!(
                        "leases {} (holder {}) and {} (holder {}) are both active and unexpired at t={}s and share chunk {}",
                        t[i].id, t[i].holder, t[j].id, t[j].holder, now, c
                    ));
                }
            }
        }
    }
    None
}

/// a lease that is live at the time of a write must still be in the table written
fn dropped_live(dl: &Deadlines, before: &[PL], after: &[PL], now: i64) -> Option<String> {
    for l in before {
        if dl.live(l, now) && !after.iter().any(|x| x.id == l.id) {
            return Some(format!(
                "lease {} (holder {}, last acquire/renew + TTL = {}s) was live at t={}s and is gone from the next version",
                l.id, l.holder, dl.of(l), now
            ));
        }
    }
    None
}

/// requested chunks held by a lease live at `now`, in request order
fn live_overlap(dl: &Deadlines, t: &[PL], now: i64, chunks: &[u32]) -> Vec<u32> {
    chunks
        .iter()
        .filter(|c| t.iter().any(|l| dl.live(l, now) && l.chunks.contains(c)))
        .cloned()
        .collect()
}

// ------------------------------------------------------- running one op ----
async fn perform(
    client: &dyn MetadataClient,
    op: &Op,
    ids: &Arc<Mutex<HashMap<u32, String>>>,
    base: Base,
) -> String {
    let uuid_of = |i: u32| -> String {
        ids.lock().unwrap().get(&i).cloned().unwrap_or_else(|| format!("no-such-lease-{}", i))
    };
    match op {
        Op::A { id, holder, chunks, level } => {
            let names: Vec<String> = chunks.iter().map(|c| chunk_name(*c)).collect();
            match client.acquire_lease(&node_name(*holder), &names, *level).await {
                Ok(l) => {
                    ids.lock().unwrap().insert(*id, l.lease_id.clone());
                    let m = ids.lock().unwrap().clone();
                    format!("L{}", show_pl(&canon_lease(&l, base, &m)))
                }
                Err(Error::ChunksAlreadyLeased(v)) => {
                    format!("X{}", v.iter().map(|c| chunk_id(c).to_string()).collect::<Vec<_>>().join("+"))
                }
                Err(Error::TooManyRetries) => "TR".to_string(),
                Err(e) => format!("ERR({})", e),
            }
        }
        Op::R(i) => match client.renew_lease(&uuid_of(*i)).await {
            Ok(()) => "U".to_string(),
            Err(Error::Internal(m)) if m.contains("not found") => "NF".to_string(),
            Err(Error::Internal(m)) if m.contains("non-active") => "NA".to_string(),
            Err(Error::TooManyRetries) => "TR".to_string(),
            Err(e) => format!("ERR({})", e),
        },
        Op::C(i) => match client.complete_lease(&uuid_of(*i)).await {
            Ok(()) => "U".to_string(),
            Err(Error::TooManyRetries) => "TR".to_string(),
            Err(e) => format!("ERR({})", e),
        },
        Op::F(i) => match client.fail_lease(&uuid_of(*i)).await {
            Ok(()) => "U".to_string(),
            Err(Error::TooManyRetries) => "TR".to_string(),
            Err(e) => format!("ERR({})", e),
        },
        Op::S => match client.scavenge_leases().await {
            Ok(n) => format!("N{}", n),
            Err(Error::TooManyRetries) => "TR".to_string(),
            Err(e) => format!("ERR({})", e),
        },
    }
}

#[derive(Default)]
struct Outcome {
    line: String,
    bad: Vec<String>,
    events: Vec<&'static str>,
    slow: bool,
}

fn s3_config() -> ObjectStoreMetadataConfig {
    ObjectStoreMetadataConfig {
        bucket: "b".into(),
        metadata_prefix: "metadata/".into(),
        enable_cache: true,
        allow_unsafe_overwrite: false,
    }
}

// ------------------------------------------- object-store backend, scheduled ----
async fn run_s3_async(case: &Case) -> Outcome {
    let mut out = Outcome::default();
    set_clock_offset_nanos(0);
    let started_at = Instant::now();
    let base: Base = chrono::Utc::now();
    let hub = Hub::new(Arc::new(InMemory::new()));
    hub.watch(LEASE_FILE);
    let n = case.progs.len();
    let ids: Arc<Mutex<HashMap<u32, String>>> = Arc::new(Mutex::new(HashMap::new()));
    let results: Arc<Mutex<Vec<Vec<String>>>> = Arc::new(Mutex::new(vec![Vec::new(); n]));
    let mut ctl = hub.attach(&(0..n).collect::<Vec<_>>());
    let mut starts = Vec::new();
    let mut handles = Vec::new();
    for k in 0..n {
        let (tx, mut rx) = mpsc::unbounded_channel::<()>();
        starts.push(tx);
        let client = ObjectStoreMetadataClient::new(hub.client(k), s3_config());
        let prog = case.progs[k].clone();
        let ids = ids.clone();
        let results = results.clone();
        let hubc = hub.clone();
        handles.push(tokio::spawn(async move {
            for op in prog {
                if rx.recv().await.is_none() {
                    return;
                }
                let r = perform(&client, &op, &ids, base).await;
                results.lock().unwrap()[k].push(r);
                hubc.note(k, "done".to_string());
            }
        }));
    }

    let mut started = vec![0usize; n]; // operations started per node
    let mut inop = vec![false; n];
    let mut now_s: i64 = 0;
    let mut versions: Vec<(usize, Vec<PL>)> = Vec::new();
    let mut cur: Vec<PL> = Vec::new();
    let mut dl = Deadlines::default();
    let mut decided_at = vec![0i64; n]; // hook-clock time of the node's latest load (= decision)
    let mut wrote_in_op = vec![false; n]; // the node's current operation had a successful PUT of its own
    for step in &case.sched {
        match step {
            Step::Tick(d) => {
                advance_clock_nanos(*d as i64 * 1_000_000_000);
                now_s += *d as i64;
            }
            Step::Req(c) => {
                let c = *c;
                if c >= n {
                    continue;
                }
                if !inop[c] {
                    if started[c] >= case.progs[c].len() {
                        continue; // nothing left to do: the step is ignored
                    }
                    let _ = starts[c].send(());
                    started[c] += 1;
                    inop[c] = true;
                    wrote_in_op[c] = false;
                    if ctl.wait_for(c).await.is_none() {
                        out.bad.push(format!("node {} finished an operation without any object-store request", c));
                        let _ = ctl.take_note(c);
                        inop[c] = false;
                        continue;
                    }
                }
                let op = case.progs[c][started[c] - 1].clone();
                let info = match ctl.step(c, Action::Proceed).await {
                    Some(i) => i,
                    None => {
                        out.bad.push(format!("node {} has no request to perform", c));
                        continue;
                    }
                };
                let finished = ctl.take_note(c).is_some();
                if finished {
                    inop[c] = false;
                }
                let last_result = if finished { results.lock().unwrap()[c].last().cloned().unwrap_or_default() } else { String::new() };
                if info.verb == "GET" {
                    // the load and the decision happened in this step, against `cur` at `now_s`
                    decided_at[c] = now_s;
                    match &op {
                        Op::A { chunks, .. } => {
                            let ov = live_overlap(&dl, &cur, now_s, chunks);
                            let expect = format!("X{}", ov.iter().map(|c| c.to_string()).collect::<Vec<_>>().join("+"));
                            if finished {
                                out.events.push("acquire.refused");
                                if ov.is_empty() {
                                    out.bad.push(format!("acquire {} was refused ({}) at t={}s although no active lease whose last successful acquire/renew is less than {} s old holds any of its chunks: a lease whose holder stopped renewing (or that is finished) is not acquirable after its time-to-live", enc_op(&op), last_result, now_s, ORACLE_TTL_S));
                                } else if last_result != expect {
                                    out.bad.push(format!("acquire {} was refused with {} but the chunks held by live leases at t={}s are {}", enc_op(&op), last_result, now_s, expect));
                                }
                            } else if !ov.is_empty() {
                                out.bad.push(format!("acquire {} goes ahead at t={}s although live leases hold {}", enc_op(&op), now_s, expect));
                            } else if cur.iter().any(|l| l.status == 'A' && dl.of(l) <= now_s && dl.renewals.get(&l.id).copied().unwrap_or(0) >= 2 && l.chunks.iter().any(|x| chunks.contains(x))) {
                                out.events.push("acquire.after_renewals_then_silence");
                            }
                        }
                        Op::R(i) => {
                            let entry = cur.iter().find(|l| l.id == *i);
                            match entry {
                                None => {
                                    out.events.push("renew.absent");
                                    if !(finished && last_result == "NF") {
                                        out.bad.push(format!("renew of lease {} at t={}s: the lease is not in the file, yet the holder was not told (result {:?})", i, now_s, last_result));
                                    }
                                }
                                Some(l) if l.status != 'A' => {
                                    out.events.push("renew.terminal");
                                    if !(finished && last_result == "NA") {
                                        out.bad.push(format!("renew of terminal lease {} at t={}s was not refused (result {:?})", i, now_s, last_result));
                                    }
                                }
                                Some(l) => {
                                    if dl.of(l) <= now_s {
                                        out.events.push("renew.after_expiry_unreclaimed");
                                    }
                                    if finished {
                                        out.bad.push(format!("renew of active lease {} at t={}s ended without a write (result {:?})", i, now_s, last_result));
                                    }
                                }
                            }
                        }
                        _ => {}
                    }
                }
                if finished && last_result == "TR" {
                    out.events.push("retry.exhausted");
                }
                // a new version?
                let vs = hub.versions_of(LEASE_FILE);
                if vs.len() > versions.len() {
                    let m = ids.lock().unwrap().clone();
                    for b in vs.iter().skip(versions.len()) {
                        let parsed: Option<CompactionLeases> = b.as_ref().and_then(|b| serde_json::from_slice(b).ok());
                        match parsed {
                            Some(ls) => {
                                let t = canon_table(&ls, base, &m);
                                wrote_in_op[c] = true;
                                // this write is the commit of node c's operation, decided at its latest load
                                match &op {
                                    Op::A { id, .. } => dl.acquired(*id, decided_at[c]),
                                    Op::R(i) => {
                                        dl.renewed(*i, decided_at[c]);
                                        out.events.push("renew.committed");
                                    }
                                    _ => {}
                                }
                                if let Some(f) = dl.stored_mismatch(&t) {
                                    out.bad.push(format!("version {} written by node {} ({}) at t={}s: {}", versions.len() + 1, c, enc_op(&op), now_s, f));
                                }
                                if let Some(f) = excl_failure(&dl, &t, now_s) {
                                    out.bad.push(format!("version {} written by node {} at t={}s: {}", versions.len() + 1, c, now_s, f));
                                }
                                if let Some(f) = dropped_live(&dl, &cur, &t, now_s) {
                                    out.bad.push(format!("version {} written by node {} ({}): {}", versions.len() + 1, c, enc_op(&op), f));
                                }
                                if cur.iter().any(|l| l.status == 'A' && dl.of(l) <= now_s && !t.iter().any(|x| x.id == l.id)) {
                                    out.events.push("expired.reclaimed");
                                }
                                if t.iter().any(|l| l.id == 0) {
                                    out.bad.push(format!("version {} contains a lease id nobody was given", versions.len() + 1));
                                }
                                cur = t.clone();
                                versions.push((c, t));
                            }
                            None => {
                                out.bad.push("a version of the lease file does not parse".to_string());
                                versions.push((c, Vec::new()));
                            }
                        }
                    }
                }
                // an operation that reports success must have taken effect: a renew / acquire that
                // returns Ok has a successful PUT of its own, and the version it wrote carries the
                // lease with expiry = decide time + TTL (the oracle's deadline)
                if finished {
                    match &op {
                        Op::R(i) if last_result == "U" => {
                            let stored = cur.iter().find(|l| l.id == *i).map(|l| l.exp);
                            if !wrote_in_op[c] {
                                out.bad.push(format!("renew of lease {} by node {} reported success at t={}s but wrote nothing: the stored expiry did not move (still {:?}s) and the holder was not told", i, c, now_s, stored));
                            } else if versions.last().map(|(w, _)| *w) == Some(c) && stored != Some(decided_at[c] + ORACLE_TTL_S) {
                                out.bad.push(format!("renew of lease {} by node {} reported success but the version it wrote stores expiry {:?}s instead of {}s", i, c, stored, decided_at[c] + ORACLE_TTL_S));
                            }
                        }
                        Op::A { id, .. } if last_result.starts_with('L') => {
                            if !wrote_in_op[c] {
                                out.bad.push(format!("acquire {} by node {} returned a lease at t={}s but wrote nothing", id, c, now_s));
                            }
                        }
                        _ => {}
                    }
                }
            }
        }
    }
    // the final content, through the public API of a fresh node
    let reader = ObjectStoreMetadataClient::new(hub.client(99), s3_config());
    let cur_str = if versions.is_empty() {
        "ABSENT".to_string()
    } else {
        match reader.load_leases().await {
            Ok(ls) => {
                let m = ids.lock().unwrap().clone();
                let t = canon_table(&ls, base, &m);
                if let Some(f) = excl_failure(&dl, &t, now_s) {
                    out.bad.push(format!("load_leases at t={}s: {}", now_s, f));
                }
                show_table(&t)
            }
            Err(e) => format!("ERR({})", e),
        }
    };
    for h in handles {
        h.abort();
    }
    for e in hub.take_log() {
        if e.info.verb == "PUT" && !e.ok {
            out.events.push(if e.info.mode == "create" { "put.create_lost_race" } else { "put.update_conflict" });
        }
    }
    hub.detach();
    let res = results.lock().unwrap().clone();
    let excl_ok = !out.bad.iter().any(|b| b.contains("both active and unexpired"));
    out.line = format!(
        "V={}|D={}|CUR={}|NOW={}|EXCL={}",
        versions.iter().map(|(c, t)| format!("{}@{}", c, show_table(t))).collect::<Vec<_>>().join("#"),
        res.iter().map(|r| r.join(",")).collect::<Vec<_>>().join("/"),
        cur_str,
        now_s * 1000,
        if excl_ok { 1 } else { 0 }
    );
    out.slow = started_at.elapsed().as_millis() > SLOW_MS;
    set_clock_offset_nanos(0);
    out
}

fn run_s3(case: &Case) -> Outcome {
    for _ in 0..4 {
        let rt = tokio::runtime::Builder::new_current_thread().enable_all().start_paused(true).build().unwrap();
        let o = rt.block_on(run_s3_async(case));
        drop(rt);
        if !o.slow {
            return o;
        }
    }
    let rt = tokio::runtime::Builder::new_current_thread().enable_all().start_paused(true).build().unwrap();
    rt.block_on(run_s3_async(case))
}

// ------------------------------------------------ in-memory backend, sequential ----
async fn run_local_async(hist: &[HStep]) -> Outcome {
    let mut out = Outcome::default();
    set_clock_offset_nanos(0);
    let started_at = Instant::now();
    let base: Base = chrono::Utc::now();
    let client = LocalMetadataClient::new();
    let ids: Arc<Mutex<HashMap<u32, String>>> = Arc::new(Mutex::new(HashMap::new()));
    let mut now_s: i64 = 0;
    let mut cur: Vec<PL> = Vec::new();
    let mut dl = Deadlines::default();
    let mut toks = Vec::new();
    for s in hist {
        match s {
            HStep::Tick(d) => {
                advance_clock_nanos(*d as i64 * 1_000_000_000);
                now_s += *d as i64;
            }
            HStep::Op(op) => {
                let r = perform(&client, op, &ids, base).await;
                let m = ids.lock().unwrap().clone();
                let t = match client.load_leases().await {
                    Ok(ls) => canon_table(&ls, base, &m),
                    Err(_) => Vec::new(),
                };
                // the operation is atomic: it was decided now
                match op {
                    Op::A { id, .. } if r.starts_with('L') => dl.acquired(*id, now_s),
                    Op::R(i) if r == "U" => dl.renewed(*i, now_s),
                    _ => {}
                }
                if let Some(f) = dl.stored_mismatch(&t) {
                    out.bad.push(format!("in-memory table after {} at t={}s: {}", enc_op(op), now_s, f));
                }
                if let Some(f) = excl_failure(&dl, &t, now_s) {
                    out.bad.push(format!("in-memory table after {} at t={}s: {}", enc_op(op), now_s, f));
                }
                if let Some(f) = dropped_live(&dl, &cur, &t, now_s) {
                    out.bad.push(format!("in-memory table after {}: {}", enc_op(op), f));
                }
                match op {
                    Op::A { chunks, .. } => {
                        let ov = live_overlap(&dl, &cur, now_s, chunks);
                        let expect = format!("X{}", ov.iter().map(|c| c.to_string()).collect::<Vec<_>>().join("+"));
                        if r.starts_with('X') {
                            if ov.is_empty() {
                                out.bad.push(format!("in-memory acquire {} refused ({}) at t={}s although no active lease whose last successful acquire/renew is less than {} s old overlaps it: not acquirable after the time-to-live", enc_op(op), r, now_s, ORACLE_TTL_S));
                            } else if r != expect {
                                out.bad.push(format!("in-memory acquire {} refused with {} but live leases hold {}", enc_op(op), r, expect));
                            }
                        } else if !ov.is_empty() {
                            out.bad.push(format!("in-memory acquire {} succeeded at t={}s although live leases hold {}", enc_op(op), now_s, expect));
                        }
                    }
                    Op::R(i) => {
                        let want = match cur.iter().find(|l| l.id == *i) {
                            None => "NF",
                            Some(l) if l.status != 'A' => "NA",
                            Some(_) => "U",
                        };
                        if r != want {
                            out.bad.push(format!("in-memory renew of lease {} at t={}s answered {} instead of {}", i, now_s, r, want));
                        }
                    }
                    _ => {}
                }
                toks.push(format!("{}@{}", r, show_table(&t)));
                cur = t;
            }
        }
    }
    out.line = toks.join(",");
    out.slow = started_at.elapsed().as_millis() > SLOW_MS;
    set_clock_offset_nanos(0);
    out
}

fn run_local(hist: &[HStep]) -> Outcome {
    let rt = tokio::runtime::Builder::new_current_thread().enable_all().start_paused(true).build().unwrap();
    for _ in 0..4 {
        let o = rt.block_on(run_local_async(hist));
        if !o.slow {
            return o;
        }
    }
    rt.block_on(run_local_async(hist))
}

// ------------------------------------------------------------ generators ----
const TICKS_SLOW: [u64; 6] = [5, 30, 60, 115, 120, 125];
const TICKS_FAST: [u64; 10] = [60, 120, 150, 180, 185, 295, 300, 305, 420, 600];

fn gen_chunks(rng: &mut Rng) -> Vec<u32> {
    let k = match rng.below(20) {
        0 => 0,
        1..=5 => 1,
        6..=13 => 2,
        _ => 3,
    };
    let mut v = Vec::new();
    while v.len() < k {
        let c = 1 + rng.below(4) as u32;
        if !v.contains(&c) || rng.chance(1, 15) {
            v.push(c);
        }
    }
    v
}

fn gen_random(rng: &mut Rng) -> Case {
    let n = if rng.chance(1, 3) { 3 } else { 2 };
    let mut next_id = 1u32;
    let mut all_ids: Vec<u32> = Vec::new();
    let mut progs = Vec::new();
    for k in 0..n {
        let nops = rng.range_usize(1, 5);
        let mut own: Vec<u32> = Vec::new();
        let mut ops = Vec::new();
        for j in 0..nops {
            let r = rng.below(100);
            let target = |rng: &mut Rng, own: &Vec<u32>, all: &Vec<u32>, next: u32| -> u32 {
                let x = rng.below(100);
                if !own.is_empty() && x < 60 {
                    *own.last().unwrap()
                } else if !all.is_empty() && x < 88 {
                    *rng.pick(all)
                } else if x < 94 {
                    next // an id that a later acquire may create
                } else {
                    99
                }
            };
            if (j == 0 && r < 80) || r < 40 {
                let id = next_id;
                next_id += 1;
                own.push(id);
                all_ids.push(id);
                ops.push(Op::A { id, holder: 10 + k as u32, chunks: gen_chunks(rng), level: rng.below(3) as u32 });
            } else if r < 65 {
                ops.push(Op::R(target(rng, &own, &all_ids, next_id)));
            } else if r < 73 {
                ops.push(Op::C(target(rng, &own, &all_ids, next_id)));
            } else if r < 80 {
                ops.push(Op::F(target(rng, &own, &all_ids, next_id)));
            } else {
                ops.push(Op::S);
            }
        }
        progs.push(ops);
    }
    let total: usize = progs.iter().map(|p| p.len()).sum();
    let len = total * 2 + rng.range_usize(2, 8);
    let fast = rng.chance(1, 2);
    let mut sched = Vec::new();
    // biased openings: first-write race (everybody loads before anybody writes)
    if rng.chance(1, 3) {
        for k in 0..n {
            sched.push(Step::Req(k));
        }
    }
    for _ in 0..len {
        if rng.chance(1, 6) {
            let d = if fast { *rng.pick(&TICKS_FAST) } else { *rng.pick(&TICKS_SLOW) };
            sched.push(Step::Tick(d));
        } else {
            sched.push(Step::Req(rng.below(n as u64) as usize));
        }
    }
    Case { progs, sched }
}

/// node 0 loses the conditional PUT `rounds` times in a row against commits of node 1
fn gen_starvation(rng: &mut Rng) -> Case {
    let victim = match rng.below(7) {
        0 => Op::A { id: 1, holder: 10, chunks: vec![1], level: 0 },
        1 | 5 | 6 => Op::R(2),
        2 => Op::C(2),
        3 => Op::F(2),
        _ => Op::A { id: 1, holder: 10, chunks: vec![3, 1], level: 1 },
    };
    let mut p1 = vec![Op::A { id: 2, holder: 11, chunks: vec![2], level: 0 }];
    for _ in 0..7 {
        p1.push(Op::R(2));
    }
    let rounds = rng.range_usize(3, 6);
    let mut sched = vec![Step::Req(1), Step::Req(1)];
    for _ in 0..rounds {
        sched.extend([Step::Req(0), Step::Req(1), Step::Req(1), Step::Req(0)]);
        if rng.chance(1, 4) {
            sched.push(Step::Tick(*rng.pick(&TICKS_SLOW)));
        }
    }
    sched.extend([Step::Req(0), Step::Req(0), Step::Req(0)]);
    Case { progs: vec![vec![victim, Op::S], p1], sched }
}

/// node 0 acquires and renews IN TIME 2-4 times, then falls silent for more than
/// the TTL; node 1 probes with overlapping acquires shortly before and at/after
/// `last renew + 300 s`; sometimes the old holder comes back (told "not found")
/// and a third node scavenges in between
fn gen_renew_then_silence(rng: &mut Rng) -> Case {
    let k = rng.range_usize(2, 4);
    let c0: Vec<u32> = if rng.chance(1, 2) { vec![1, 2] } else { vec![2] };
    let c1: Vec<u32> = match rng.below(3) {
        0 => vec![2, 3],
        1 => vec![2],
        _ => vec![3, 2, 4],
    };
    let mut p0 = vec![Op::A { id: 1, holder: 10, chunks: c0, level: 0 }];
    for _ in 0..k {
        p0.push(Op::R(1));
    }
    let comes_back = rng.chance(1, 2);
    if comes_back {
        p0.push(Op::R(1));
    }
    let p1 = vec![
        Op::A { id: 2, holder: 11, chunks: c1.clone(), level: 0 },
        Op::A { id: 3, holder: 11, chunks: c1.clone(), level: 1 },
        Op::A { id: 4, holder: 11, chunks: c1, level: 1 },
    ];
    let third = rng.chance(1, 4);
    let mut progs = vec![p0, p1];
    if third {
        progs.push(vec![Op::S, Op::S]);
    }
    let mut sched = vec![Step::Req(0), Step::Req(0)];
    for _ in 0..k {
        sched.push(Step::Tick(*rng.pick(&[60u64, 115, 120, 120, 125, 180, 240, 295])));
        sched.push(Step::Req(0));
        sched.push(Step::Req(0));
        if third && rng.chance(1, 3) {
            sched.push(Step::Req(2));
            sched.push(Step::Req(2));
        }
    }
    // silence of node 0 from here on
    let mut since = 0u64;
    if rng.chance(2, 3) {
        let d = *rng.pick(&[5u64, 120, 180, 295]);
        sched.push(Step::Tick(d));
        since += d;
        sched.push(Step::Req(1)); // still inside the TTL: refused in one request
    }
    let target = *rng.pick(&[300u64, 300, 305, 420, 600, 900]);
    if target > since {
        sched.push(Step::Tick(target - since));
    }
    if third && rng.chance(1, 2) {
        sched.push(Step::Req(2));
        sched.push(Step::Req(2));
    }
    sched.extend([Step::Req(1), Step::Req(1), Step::Req(1)]);
    if comes_back {
        sched.extend([Step::Req(0), Step::Req(0)]);
    }
    sched.extend([Step::Req(1), Step::Req(1)]);
    Case { progs, sched }
}

/// a holder renews every 120 s for 16+ rounds (lease older than 30 min, never
/// expired); another node scavenges, a third tries an overlapping acquire, the
/// holder renews again: the lease must survive all of it
fn gen_long_lived(rng: &mut Rng) -> Case {
    let rounds = rng.range_usize(16, 20);
    let mut p0 = vec![Op::A { id: 1, holder: 10, chunks: vec![1, 2], level: 0 }];
    for _ in 0..(rounds + 2) {
        p0.push(Op::R(1));
    }
    let c2: Vec<u32> = if rng.chance(1, 2) { vec![2, 3] } else { vec![1] };
    let progs = vec![p0, vec![Op::S, Op::S], vec![Op::A { id: 2, holder: 12, chunks: c2.clone(), level: 0 }, Op::A { id: 3, holder: 12, chunks: c2, level: 0 }]];
    let mut sched = vec![Step::Req(0), Step::Req(0)];
    let early = rng.range_usize(0, rounds - 1);
    for r in 0..rounds {
        sched.push(Step::Tick(120));
        sched.push(Step::Req(0));
        sched.push(Step::Req(0));
        if r == early && rng.chance(1, 2) {
            sched.extend([Step::Req(1), Step::Req(1)]); // an early scavenge (lease still young)
        }
    }
    let d = *rng.pick(&[5u64, 60, 115]);
    sched.push(Step::Tick(d));
    sched.extend([Step::Req(1), Step::Req(1)]); // scavenge by node 1
    sched.extend([Step::Req(2), Step::Req(2)]); // overlapping acquire by node 2
    sched.push(Step::Tick(120 - d));
    sched.extend([Step::Req(0), Step::Req(0)]); // the holder's next renew
    sched.extend([Step::Req(2), Step::Req(2)]); // and another acquire attempt
    Case { progs, sched }
}

/// exhaustive small scope: 2 nodes, (acquire; renew) against (acquire | scavenge | renew ...),
/// every request interleaving of length `len`, one tick of 295/300/305 s at every position
fn exhaustive(len: usize) -> Vec<Case> {
    let p0 = vec![Op::A { id: 1, holder: 10, chunks: vec![1, 2], level: 0 }, Op::R(1)];
    let a2 = Op::A { id: 2, holder: 11, chunks: vec![2, 3], level: 0 };
    let variants: Vec<Vec<Op>> = vec![
        vec![a2.clone()],
        vec![Op::S, a2.clone()],
        vec![a2.clone(), Op::S],
        vec![Op::R(1), a2.clone()],
    ];
    let mut out = Vec::new();
    for p1 in &variants {
        for bits in 0..(1u32 << len) {
            for pos in 0..=len {
                for d in [295u64, 300, 305] {
                    let mut sched = Vec::new();
                    for i in 0..len {
                        if i == pos {
                            sched.push(Step::Tick(d));
                        }
                        sched.push(Step::Req(((bits >> i) & 1) as usize));
                    }
                    if pos == len {
                        sched.push(Step::Tick(d));
                    }
                    out.push(Case { progs: vec![p0.clone(), p1.clone()], sched });
                }
            }
        }
    }
    out
}

/// proof-derived corner cases (also the schedules of the Coq `Example`s)
fn corpus() -> Vec<Case> {
    let lines = [
        // first-write race of two overlapping acquires; expiry; reclaim; the old holder is told
        "S|0|A.1.10.1+2.0,R.1/A.2.11.2+3.0,A.3.11.2+3.0|q0,q1,q0,q1,q1,t300000,q1,q1,q0",
        // one clock quantum before expiry: still refused
        "S|0|A.1.10.1+2.0,R.1/A.2.11.2+3.0,A.3.11.2+3.0|q0,q1,q0,q1,q1,t295000,q1",
        // renewed after 120 s: refused at 320 s
        "S|0|A.1.10.1+2.0,R.1/A.2.11.2+3.0,A.3.11.2+3.0|q0,q1,q0,q1,q1,t120000,q0,q0,t200000,q1",
        // retry exhaustion (5 lost PUTs in a row)
        "S|0|A.1.10.1.0/A.2.11.2.0,C.2,F.2,C.2,F.2,C.2|q1,q1,q0,q1,q1,q0,q0,q1,q1,q0,q0,q1,q1,q0,q0,q1,q1,q0,q0,q1,q1,q0",
        // renew of an expired but not yet reclaimed lease revives it; the later acquire is refused
        "S|0|A.1.10.1+2.0,R.1/A.2.11.2+3.0|q0,q0,t305000,q0,q0,q1",
        // renew (decided before expiry) racing a reclaiming acquire (decided after): the PUT order decides
        "S|0|A.1.10.1+2.0,R.1/A.2.11.2+3.0|q0,q0,t295000,q0,t10000,q1,q1,q0,q0",
        "S|0|A.1.10.1+2.0,R.1/A.2.11.2+3.0|q0,q0,t295000,q0,t10000,q1,q0,q1,q1",
        // scavenge racing a renew
        "S|0|A.1.10.1+2.0,R.1/S,A.2.11.1.0|q0,q0,t300000,q1,q0,q0,q1,q1,q1",
        "S|0|A.1.10.1+2.0,R.1/S,A.2.11.1.0|q0,q0,t300000,q0,q1,q1,q0,q0,q1",
        // complete / fail release the chunks at once; terminal leases stay until scavenged
        "S|0|A.1.10.1+2.0,C.1,R.1/A.2.11.2.0,S,F.2,R.2|q0,q0,q0,q0,q1,q1,q0,q1,q1,q1,q1,q1",
        // empty chunk list, duplicate chunk in a request, unknown ids
        "S|0|A.1.10..0,A.2.10.1+1.0,R.99/C.99,F.99,A.3.11.1.0,S|q0,q0,q1,q1,q0,q0,q1,q1,q0,q1",
        // three in-time renewals (120 s cadence), then silence: refused 5 s before
        // last renew + 300 s, granted at last renew + 300 s
        "S|0|A.1.10.1+2.0,R.1,R.1,R.1/A.2.11.2+3.0,A.3.11.2+3.0|q0,q0,t120000,q0,q0,t120000,q0,q0,t120000,q0,q0,t295000,q1,t5000,q1,q1",
        // two renewals, silence of 420 s, the other node takes over, the old holder is told
        "S|0|A.1.10.2.0,R.1,R.1,R.1/A.2.11.2+3.0|q0,q0,t120000,q0,q0,t120000,q0,q0,t420000,q1,q1,q0",
        // a renewing holder loses MAX_CAS_RETRIES conditional PUTs in a row: it must be told (TooManyRetries)
        "S|0|A.1.10.1.0,R.1/A.2.11.2.0,R.2,R.2,R.2,R.2,R.2,R.2|q0,q0,q1,q1,q0,q1,q1,q0,q0,q1,q1,q0,q0,q1,q1,q0,q0,q1,q1,q0,q0,q1,q1,q0,q0",
        // 16 renewals at 120 s (lease age 1920 s, never expired), then scavenge by node 1, overlapping
        // acquire by node 2, the holder's next renew
        "S|0|A.1.10.1+2.0,R.1,R.1,R.1,R.1,R.1,R.1,R.1,R.1,R.1,R.1,R.1,R.1,R.1,R.1,R.1,R.1,R.1,R.1/S,S/A.2.12.2+3.0,A.3.12.2+3.0|q0,q0,t120000,q0,q0,t120000,q0,q0,t120000,q0,q0,t120000,q0,q0,t120000,q0,q0,t120000,q0,q0,t120000,q0,q0,t120000,q0,q0,t120000,q0,q0,t120000,q0,q0,t120000,q0,q0,t120000,q0,q0,t120000,q0,q0,t120000,q0,q0,t120000,q0,q0,t120000,q0,q0,t60000,q1,q1,q2,q2,t60000,q0,q0,q2,q2",
        // three nodes, first-write race of all three
        "S|0|A.1.10.1.0/A.2.11.1+2.0/A.3.12.2+3.0|q0,q1,q2,q2,q1,q0,q0,q1,q1,q0",
    ];
    lines.iter().map(|l| dec_case(l)).collect()
}

fn nontrivial(c: &Case, o: &Outcome) -> bool {
    // at least two acquires by different nodes on overlapping chunk sets, and something was written
    let mut acq: Vec<(usize, &Vec<u32>)> = Vec::new();
    for (k, p) in c.progs.iter().enumerate() {
        for op in p {
            if let Op::A { chunks, .. } = op {
                acq.push((k, chunks));
            }
        }
    }
    let overlapping = acq.iter().any(|(k1, c1)| acq.iter().any(|(k2, c2)| k1 != k2 && c1.iter().any(|x| c2.contains(x))));
    overlapping && o.line.starts_with("V=") && !o.line.starts_with("V=|")
}

struct Verdict {
    s3: Outcome,
    s3_model: String,
    local: Outcome,
    local_model: String,
    differs: bool,
}

fn evaluate(case: &Case, model: &mut Model) -> Verdict {
    let s3 = run_s3(case);
    let (d1, s3_model) = model.differs(&enc_case(case), &s3.line);
    let hist = local_history(case);
    let local = run_local(&hist);
    let (d2, local_model) = if hist.iter().any(|h| matches!(h, HStep::Op(_))) {
        model.differs(&enc_hist(&hist), &local.line)
    } else {
        (false, String::new())
    };
    Verdict { s3, s3_model, local, local_model, differs: d1 || d2 }
}

fn shrink(case: &Case, fails: &mut dyn FnMut(&Case) -> bool) -> Case {
    let mut cur = case.clone();
    let sched = ddmin(&cur.sched, &mut |cand: &[Step]| fails(&Case { progs: cur.progs.clone(), sched: cand.to_vec() }));
    cur.sched = sched;
    // drop trailing operations that are not needed
    for k in 0..cur.progs.len() {
        while cur.progs[k].len() > 1 {
            let mut cand = cur.clone();
            cand.progs[k].pop();
            if fails(&cand) {
                cur = cand;
            } else {
                break;
            }
        }
    }
    cur
}

fn main() {
    let args = Args::parse();
    csv_common::quiet_panics();
    let mut model = Model::spawn(&args.model);
    let mut report = Report::new("C08");

    if let Some(path) = &args.replay {
        let txt = std::fs::read_to_string(path).expect("replay file");
        let v: serde_json::Value = serde_json::from_str(&txt).expect("replay json");
        let c = &v["case"];
        let line = c.as_str().or_else(|| c["case"].as_str()).or_else(|| c["shrunk"].as_str()).unwrap_or("").to_string();
        let case = dec_case(&line);
        let vd = evaluate(&case, &mut model);
        println!("case        : {}", line);
        println!("object store: {}", vd.s3.line);
        println!("model       : {}", vd.s3_model);
        println!("in-memory   : {}", vd.local.line);
        println!("model       : {}", vd.local_model);
        println!("oracle failures: {:?} {:?}", vd.s3.bad, vd.local.bad);
        std::process::exit(if vd.s3.bad.is_empty() && vd.local.bad.is_empty() && !vd.differs { 0 } else { 1 });
    }

    let thorough = args.thorough();
    let mut rng = Rng::new(args.seed);
    let mut cases: Vec<(&'static str, Case)> = corpus().into_iter().map(|c| ("corpus", c)).collect();
    for c in exhaustive(if thorough { 8 } else { 6 }) {
        cases.push(("exhaustive", c));
    }
    for _ in 0..(if thorough { 1500 } else { 150 }) {
        let mut r = rng.fork();
        cases.push(("starvation", gen_starvation(&mut r)));
    }
    for _ in 0..(if thorough { 4000 } else { 400 }) {
        let mut r = rng.fork();
        cases.push(("renew_then_silence", gen_renew_then_silence(&mut r)));
    }
    for _ in 0..(if thorough { 400 } else { 40 }) {
        let mut r = rng.fork();
        cases.push(("long_lived", gen_long_lived(&mut r)));
    }
    for _ in 0..(if thorough { 40000 } else { 3000 }) {
        let mut r = rng.fork();
        cases.push(("random", gen_random(&mut r)));
    }

    for (origin, case) in cases {
        let line = enc_case(&case);
        let vd = evaluate(&case, &mut model);
        report.impl_runs += 2;
        report.case(if nontrivial(&case, &vd.s3) { Some(&line) } else { None });
        report.bump(&format!("origin.{}", origin));
        report.bump(&format!("nodes.{}", case.progs.len()));
        for e in vd.s3.events.iter() {
            report.bump(&format!("event.{}", e));
        }
        report.bump_by("versions.captured", vd.s3.line.split('|').next().unwrap_or("").matches('@').count() as u64);
        if origin != "exhaustive" {
            report.sample(json!({"case": line, "impl": vd.s3.line, "model": vd.s3_model, "in_memory": vd.local.line}));
        }
        if vd.differs {
            let shrunk = shrink(&case, &mut |c: &Case| evaluate(c, &mut model).differs);
            let sv = evaluate(&shrunk, &mut model);
            report.disagreement(json!({
                "correspondence": "lease model (Model/Lease.v on Base/CasProto.v) vs ObjectStoreMetadataClient on SchedStore / LocalMetadataClient",
                "case": line, "impl": vd.s3.line, "model": vd.s3_model,
                "impl_in_memory": vd.local.line, "model_in_memory": vd.local_model,
                "shrunk": enc_case(&shrunk), "shrunk_impl": sv.s3.line, "shrunk_model": sv.s3_model,
                "shrunk_impl_in_memory": sv.local.line, "shrunk_model_in_memory": sv.local_model,
                "oracle_failed": !(vd.s3.bad.is_empty() && vd.local.bad.is_empty() && sv.s3.bad.is_empty() && sv.local.bad.is_empty()),
            }));
        }
        if !vd.s3.bad.is_empty() || !vd.local.bad.is_empty() {
            let shrunk = shrink(&case, &mut |c: &Case| {
                let a = run_s3(c);
                let b = run_local(&local_history(c));
                !a.bad.is_empty() || !b.bad.is_empty()
            });
            let a = run_s3(&shrunk);
            let b = run_local(&local_history(&shrunk));
            let mut what: Vec<String> = a.bad.clone();
            what.extend(b.bad.clone());
            report.oracle_violation("", &what.join("; "), json!({"case": enc_case(&shrunk), "original": line}));
        }
    }
    report.notes.push(format!("model calls: {}", model.calls));
    report.write(&args.out);
}
