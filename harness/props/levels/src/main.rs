//! csv-levels — correspondence + oracle for C20 (compaction converges and
//! levels only move up).
//!
//! For each generated chunk population and configuration the real
//! `Compactor::run_compaction_cycle` runs over an InMemory object store and a
//! real metadata client (LocalMetadataClient or ObjectStoreMetadataClient)
//! until a cycle leaves the catalog unchanged (cap 50 cycles).  A recording
//! MetadataClient wrapper notes the candidate groups the compactor was given,
//! the merged chunks it registered and the compactions it completed.  The
//! extracted Coq model (modelrun-levels) executes the same cycles; the hash-map
//! iteration orders it needs are reconstructed from the groups the
//! implementation returned (the model's theorems hold for every order), the
//! merged chunks' size / rows / time bounds are passed as the merge oracle.
//! Compared per cycle: status, pending count, candidate groups (sets of sets),
//! merges (sources, target, new level), catalog (paths modulo fresh names,
//! levels, metadata), fresh counter, measure.
//!
//! Independent oracle on the implementation: groups of one call are disjoint
//! and single-level; a merged chunk's level is 1 + max source level; a path's
//! level never decreases; a cycle without a merge leaves the catalog
//! unchanged; every merge decreases 2*#chunks + #L0 chunks; a fixpoint is
//! reached; the persisted catalog equals the client's view.
mod recorder;

use arrow_array::{Float64Array, Int64Array, RecordBatch, TimestampNanosecondArray};
use arrow_schema::{DataType, Field, Schema, TimeUnit};
use cardinalsin::compactor::{Compactor, CompactorConfig};
use cardinalsin::ingester::{ChunkMetadata, ParquetWriter};
use cardinalsin::metadata::{
    LocalMetadataClient, MetadataClient, ObjectStoreMetadataClient, ObjectStoreMetadataConfig,
};
use cardinalsin::sharding::{HotShardConfig, ShardMonitor};
use cardinalsin::StorageConfig;
use csv_common::{catch, ddmin, Args, Model, Report, Rng};
use object_store::memory::InMemory;
use object_store::ObjectStore;
use recorder::{Inner, Rec, Recorder};
use serde_json::json;
use std::collections::{BTreeMap, BTreeSet, HashMap};
use std::panic::AssertUnwindSafe;
use std::sync::Arc;
use std::time::Duration;

const H: i64 = 3_600_000_000_000;
const MAX_CYCLES: usize = 50;
const FIRST_REAL_ID: u32 = 101;

#[derive(Clone, Copy, Debug, PartialEq)]
enum Backend {
    S3,
    Local,
}
impl Backend {
    fn name(&self) -> &'static str {
        match self {
            Backend::S3 => "s3",
            Backend::Local => "local",
        }
    }
}

#[derive(Clone, Debug, PartialEq)]
struct Chunk {
    id: u32,
    level: u32,
    min: i64,
    max: i64,
    rows: u32,
    size: u64,
}

#[derive(Clone, Debug, PartialEq)]
struct Cfg {
    thr: u64,
    l1: u64,
    l2: u64,
    maxlv: u64,
}

#[derive(Clone, Debug)]
struct Case {
    backend: Backend,
    /// object-store backend only: initial levels are written with the public
    /// `save_chunk_metadata` instead of complete_compaction chains (text "s3d")
    direct: bool,
    cfgs: Vec<Cfg>, // cycle i runs under cfgs[min(i, len-1)]
    chunks: Vec<Chunk>,
}

fn encode_with(case: &Case, base: i64) -> String {
    let cfgs: Vec<String> = case.cfgs.iter().map(|c| format!("{},{},{},{}", c.thr, c.l1, c.l2, c.maxlv)).collect();
    let chunks: Vec<String> = case
        .chunks
        .iter()
        .map(|c| format!("{}:{}:{}:{}:{}:{}", c.id, c.level, c.min - base, c.max - base, c.rows, c.size))
        .collect();
    format!("{}{}|{}|{}", case.backend.name(), if case.direct { "d" } else { "" }, cfgs.join(";"), chunks.join(","))
}
fn decode(line: &str) -> Case {
    let parts: Vec<&str> = line.split('|').collect();
    let backend = if parts[0].starts_with("s3") { Backend::S3 } else { Backend::Local };
    let direct = parts[0] == "s3d";
    let cfgs = parts[1]
        .split(';')
        .filter(|s| !s.is_empty())
        .map(|s| {
            let f: Vec<u64> = s.split(',').map(|x| x.parse().unwrap()).collect();
            Cfg { thr: f[0], l1: f[1], l2: f[2], maxlv: f[3] }
        })
        .collect();
    let chunks = parts
        .get(2)
        .unwrap_or(&"")
        .split(',')
        .filter(|s| !s.is_empty())
        .map(|s| {
            let f: Vec<&str> = s.split(':').collect();
            Chunk {
                id: f[0].parse().unwrap(),
                level: f[1].parse().unwrap(),
                min: f[2].parse().unwrap(),
                max: f[3].parse().unwrap(),
                rows: f[4].parse().unwrap(),
                size: f[5].parse().unwrap(),
            }
        })
        .collect();
    Case { backend, direct, cfgs, chunks }
}

// ------------------------------------------------------------- setup ops ----
/// The catalog history that creates the population: a chunk of level k > 0 is
/// produced by a chain of k throw-away chunks (complete_compaction lifts the
/// target one level above its source).  Same text goes to the model.
#[derive(Clone, Debug)]
enum Op {
    R { id: u32, min: i64, max: i64, rows: u64, size: u64, real: bool },
    C { tgt: u32, srcs: Vec<u32> },
}

fn setup_ops(case: &Case) -> Vec<Op> {
    let mut ops = Vec::new();
    let mut next_dummy = 1u32;
    for c in &case.chunks {
        let mut prev: Option<u32> = None;
        for _ in 0..c.level {
            let d = next_dummy;
            next_dummy += 1;
            ops.push(Op::R { id: d, min: c.min, max: c.min, rows: 1, size: 1, real: false });
            if let Some(p) = prev {
                ops.push(Op::C { tgt: d, srcs: vec![p] });
            }
            prev = Some(d);
        }
        ops.push(Op::R { id: c.id, min: c.min, max: c.max, rows: c.rows as u64, size: c.size, real: true });
        if let Some(p) = prev {
            ops.push(Op::C { tgt: c.id, srcs: vec![p] });
        }
    }
    ops
}

fn ops_text(ops: &[Op]) -> String {
    ops.iter()
        .map(|o| match o {
            Op::R { id, min, max, rows, size, .. } => format!("R {} {} {} {} {}", id, min, max, rows, size),
            Op::C { tgt, srcs } => {
                format!("C {} {}", tgt, srcs.iter().map(|s| s.to_string()).collect::<Vec<_>>().join(","))
            }
        })
        .collect::<Vec<_>>()
        .join(";")
}

fn path_of(id: u32, real: bool) -> String {
    if real {
        format!("default/data/c{}.parquet", id)
    } else {
        format!("default/data/d{}.parquet", id)
    }
}

fn make_parquet(id: u32, min: i64, max: i64, rows: u32) -> bytes::Bytes {
    let schema = Arc::new(Schema::new(vec![
        Field::new("timestamp", DataType::Timestamp(TimeUnit::Nanosecond, Some("UTC".into())), false),
        Field::new("row_id", DataType::Int64, false),
        Field::new("value_f64", DataType::Float64, true),
    ]));
    let n = rows.max(1) as i64;
    let ts: Vec<i64> = (0..n)
        .map(|i| if n == 1 { min } else { min + ((max - min) as i128 * i as i128 / (n - 1) as i128) as i64 })
        .collect();
    let ids: Vec<i64> = (0..n).map(|i| id as i64 * 1000 + i).collect();
    let vals: Vec<f64> = (0..n).map(|i| i as f64 * 0.5).collect();
    let batch = RecordBatch::try_new(
        schema,
        vec![
            Arc::new(TimestampNanosecondArray::from(ts).with_timezone("UTC")),
            Arc::new(Int64Array::from(ids)),
            Arc::new(Float64Array::from(vals)),
        ],
    )
    .expect("batch");
    ParquetWriter::new().write_batch(&batch).expect("parquet")
}

// ----------------------------------------------------------- one run -------
struct Interner {
    ids: HashMap<String, u32>,
    next: u32,
}
impl Interner {
    fn id(&self, p: &str) -> u32 {
        *self.ids.get(p).unwrap_or(&999_999)
    }
}

type Snap = BTreeMap<String, (Option<u32>, cardinalsin::metadata::TimeIndexEntry)>;

fn show_cat(snap: &Snap, it: &Interner) -> String {
    let mut v: Vec<(u32, String)> = snap
        .iter()
        .map(|(p, (l, e))| {
            let id = it.id(p);
            let lvl = l.map(|x| x.to_string()).unwrap_or_else(|| "-".into());
            (id, format!("{}:{}:{}:{}:{}:{}", id, lvl, e.min_timestamp, e.max_timestamp, e.row_count, e.size_bytes))
        })
        .collect();
    v.sort();
    v.into_iter().map(|(_, s)| s).collect::<Vec<_>>().join(",")
}

fn measure_of(snap: &Snap) -> usize {
    2 * snap.len() + snap.values().filter(|(l, _)| *l == Some(0)).count()
}

fn show_group_ids(ids: &[u32]) -> String {
    let mut v = ids.to_vec();
    v.sort();
    v.iter().map(|x| x.to_string()).collect::<Vec<_>>().join("+")
}
fn show_groups(groups: &[Vec<String>], it: &Interner) -> String {
    let mut v: Vec<Vec<u32>> = groups
        .iter()
        .map(|g| {
            let mut x: Vec<u32> = g.iter().map(|p| it.id(p)).collect();
            x.sort();
            x
        })
        .collect();
    v.sort();
    v.iter().map(|g| g.iter().map(|x| x.to_string()).collect::<Vec<_>>().join("+")).collect::<Vec<_>>().join(",")
}

struct CycleObs {
    impl_out: String,
    sel_segments: Vec<String>,
    /// per candidate call (without the pending-count call): (is_level_call, base order, trailing ids with (min, id))
    calls: Vec<(bool, Vec<u32>, Vec<(i64, u32)>)>,
    oracle_table: String,
    merges: usize,
    status: String,
}

struct RunResult {
    /// (impl canonical output, model output) per step ("init", "cycle k")
    steps: Vec<(String, String, String)>,
    mismatch: Option<String>,
    mismatch_step: Option<(String, String)>,
    oracle_failures: Vec<String>,
    cycles: usize,
    total_merges: usize,
    reached_fixpoint: bool,
    panics: usize,
    tie_search_used: bool,
    initial_measure: usize,
    /// merged_at[l] = number of merges whose sources were at level l
    merged_at: BTreeMap<u32, u64>,
}

fn permutations(items: &[u32]) -> Vec<Vec<u32>> {
    if items.len() <= 1 {
        return vec![items.to_vec()];
    }
    let mut out = Vec::new();
    for i in 0..items.len() {
        let mut rest = items.to_vec();
        let x = rest.remove(i);
        for mut p in permutations(&rest) {
            p.insert(0, x);
            out.push(p);
        }
    }
    out
}

/// all orders of `trailing` (sorted by (min, id)) that differ only inside classes of equal min, capped
fn tie_orders(trailing: &[(i64, u32)], cap: usize) -> Vec<Vec<u32>> {
    let mut classes: Vec<Vec<u32>> = Vec::new();
    let mut last: Option<i64> = None;
    for (m, id) in trailing {
        if last == Some(*m) {
            classes.last_mut().unwrap().push(*id);
        } else {
            classes.push(vec![*id]);
            last = Some(*m);
        }
    }
    let mut acc: Vec<Vec<u32>> = vec![vec![]];
    for cl in classes {
        let perms = if cl.len() <= 5 { permutations(&cl) } else { vec![cl.clone()] };
        let mut next = Vec::new();
        for a in &acc {
            for p in &perms {
                let mut x = a.clone();
                x.extend_from_slice(p);
                next.push(x);
                if next.len() >= cap {
                    break;
                }
            }
            if next.len() >= cap {
                break;
            }
        }
        acc = next;
    }
    acc
}

fn sel_of(model_out: &str) -> Vec<String> {
    for tok in model_out.split(' ') {
        if let Some(s) = tok.strip_prefix("sel=") {
            return if s.is_empty() { vec![] } else { s.split('|').map(|x| x.to_string()).collect() };
        }
    }
    vec![]
}

fn run_case(rt: &tokio::runtime::Runtime, case: &Case, model: &mut Model) -> RunResult {
    let store: Arc<dyn ObjectStore> = Arc::new(InMemory::new());
    let s3cfg = ObjectStoreMetadataConfig {
        bucket: "b".into(),
        metadata_prefix: "metadata/".into(),
        enable_cache: true,
        allow_unsafe_overwrite: false,
    };
    let inner = match case.backend {
        Backend::S3 => Inner::S3(Arc::new(ObjectStoreMetadataClient::new(store.clone(), s3cfg.clone()))),
        Backend::Local => Inner::Local(Arc::new(LocalMetadataClient::new())),
    };
    let rec = Arc::new(Recorder::new(inner.clone()));
    let mut it = Interner { ids: HashMap::new(), next: 0 };
    let mut res = RunResult {
        steps: vec![],
        mismatch: None,
        mismatch_step: None,
        oracle_failures: vec![],
        cycles: 0,
        total_merges: 0,
        reached_fixpoint: false,
        panics: 0,
        tie_search_used: false,
        initial_measure: 0,
        merged_at: BTreeMap::new(),
    };

    // ---- setup: the catalog history, on the implementation and on the model
    let ops = setup_ops(case);
    let direct = match (&inner, case.direct) {
        (Inner::S3(c), true) => Some(c.clone()),
        _ => None,
    };
    for o in &ops {
        if direct.is_some() && !matches!(o, Op::R { real: true, .. }) {
            continue; // levels are written below, no throw-away chunks
        }
        match o {
            Op::R { id, min, max, rows, size, real } => {
                let p = path_of(*id, *real);
                it.ids.insert(p.clone(), *id);
                if *real {
                    let bytes = make_parquet(*id, *min, *max, *rows as u32);
                    rt.block_on(store.put(&p.clone().into(), bytes.into())).expect("put chunk");
                }
                let m = ChunkMetadata { path: p.clone(), min_timestamp: *min, max_timestamp: *max, row_count: *rows, size_bytes: *size };
                rt.block_on(inner.client().register_chunk(&p, &m)).expect("register");
            }
            Op::C { tgt, srcs } => {
                let t = it.ids.iter().find(|(_, v)| **v == *tgt).map(|(k, _)| k.clone()).unwrap();
                let s: Vec<String> = srcs.iter().map(|s| path_of(*s, false)).collect();
                rt.block_on(inner.client().complete_compaction(&s, &t)).expect("setup complete");
            }
        }
    }
    if let Some(c) = &direct {
        let mut all = rt.block_on(c.load_chunk_metadata()).expect("load chunk metadata");
        for ch in &case.chunks {
            if let Some(e) = all.get_mut(&path_of(ch.id, true)) {
                e.level = ch.level;
            }
        }
        rt.block_on(c.save_chunk_metadata(&all)).expect("save chunk metadata");
    }
    let snap0 = rt.block_on(inner.snapshot());
    it.next = snap0.keys().map(|p| it.id(p)).max().map(|m| m + 1).unwrap_or(0);
    res.initial_measure = measure_of(&snap0);
    let init_impl = format!("ok cat={} fresh={}", show_cat(&snap0, &it), it.next);
    let init_model = model.ask(&format!("init {} {}", case.backend.name(), ops_text(&ops)));
    res.steps.push(("init".into(), init_impl.clone(), init_model.clone()));
    // after the first mismatch the model is left alone; the implementation run
    // goes on so that the oracle judges the whole run
    let mut model_on = !model.is_null();
    if model_on && init_model != init_impl {
        res.mismatch = Some("init".into());
        model_on = false;
    }
    // the levels the population asked for are really there
    for c in &case.chunks {
        let p = path_of(c.id, true);
        if snap0.get(&p).map(|(l, _)| *l) != Some(Some(c.level)) {
            res.oracle_failures.push(format!("setup: chunk {} is not at level {}", c.id, c.level));
        }
    }

    let mut last_levels: BTreeMap<String, u32> = snap0.iter().filter_map(|(p, (l, _))| l.map(|x| (p.clone(), x))).collect();
    let mut gone: BTreeSet<String> = BTreeSet::new();
    let mut compactor: Option<Compactor> = None;
    let mut cur_cfg: Option<Cfg> = None;
    let mut before = snap0;

    for cyc in 0..MAX_CYCLES {
        let cfg = case.cfgs[cyc.min(case.cfgs.len() - 1)].clone();
        if cur_cfg.as_ref() != Some(&cfg) {
            let cc = CompactorConfig {
                l0_merge_threshold: cfg.thr as usize,
                l0_target_size: 1 << 20,
                l1_target_size: cfg.l1 as usize,
                l2_target_size: cfg.l2 as usize,
                max_levels: cfg.maxlv as usize,
                retention_days: 90,
                downsample_after_days: 7,
                downsample_resolution: Duration::from_secs(60),
                check_interval: Duration::from_secs(60),
                gc_grace_period: Duration::from_secs(300),
                sharding_enabled: false,
            };
            let meta: Arc<dyn MetadataClient> = rec.clone();
            compactor = Some(Compactor::new(
                cc,
                store.clone(),
                meta,
                StorageConfig::default(),
                Arc::new(ShardMonitor::new(HotShardConfig::default())),
            ));
            cur_cfg = Some(cfg.clone());
        }
        let comp = compactor.as_ref().unwrap();
        rec.take();
        let r = catch(AssertUnwindSafe(|| rt.block_on(comp.run_compaction_cycle())));
        let log = rec.take();
        let after = rt.block_on(inner.snapshot());
        res.cycles = cyc + 1;
        let status = match &r {
            Ok(Ok(())) => "ok".to_string(),
            Ok(Err(e)) => {
                res.oracle_failures.push(format!("cycle {}: run_compaction_cycle returned an error: {}", cyc, e));
                "err".to_string()
            }
            Err(_) => {
                res.panics += 1;
                "panic".to_string()
            }
        };

        // ---- canonical observation of the cycle
        for l in &log {
            if let Rec::Register { path, .. } = l {
                if !it.ids.contains_key(path) {
                    it.ids.insert(path.clone(), it.next);
                    it.next += 1;
                }
            }
        }
        let mut obs = CycleObs { impl_out: String::new(), sel_segments: vec![], calls: vec![], oracle_table: String::new(), merges: 0, status: status.clone() };
        let mut pending = "-".to_string();
        let mut merges_txt: Vec<String> = Vec::new();
        let mut table: Vec<String> = Vec::new();
        let mut registered: HashMap<String, ChunkMetadata> = HashMap::new();
        let mut cur_level: u64 = 0;
        let mut cur_levels: BTreeMap<String, Option<u32>> = BTreeMap::new();
        let mut first = true;
        // things the model fixes but the property does not speak about: they go into
        // the compared text, not into the oracle
        let mut extra = String::new();
        let mut targets_txt: Vec<String> = Vec::new();
        for l in &log {
            match l {
                Rec::L0 { min_count, groups, levels } => {
                    if first {
                        first = false;
                        if *min_count != 1 {
                            extra.push_str(" FIRST-CANDIDATE-CALL-IS-NOT-THE-PENDING-COUNT");
                        }
                        pending = groups.iter().map(|g| g.len()).sum::<usize>().to_string();
                        continue;
                    }
                    cur_level = 0;
                    cur_levels = levels.clone();
                    obs.sel_segments.push(format!("0:{}", show_groups(groups, &it)));
                    let base: Vec<u32> = groups.iter().flatten().map(|p| it.id(p)).collect();
                    obs.calls.push((false, base, vec![]));
                    check_groups(&mut res.oracle_failures, cyc, 0, groups, levels);
                    if *min_count as u64 != cfg.thr {
                        extra.push_str(&format!(" L0-CANDIDATES-ASKED-WITH-{}", min_count));
                    }
                }
                Rec::Level { level, target, groups, levels } => {
                    first = false;
                    targets_txt.push(format!("{}:{}", level, target));
                    cur_level = *level as u64;
                    cur_levels = levels.clone();
                    obs.sel_segments.push(format!("{}:{}", level, show_groups(groups, &it)));
                    let base: Vec<u32> = groups.iter().flatten().map(|p| it.id(p)).collect();
                    let inb: BTreeSet<u32> = base.iter().copied().collect();
                    let mut trailing: Vec<(i64, u32)> = levels
                        .iter()
                        .filter(|(_, l)| **l == Some(*level as u32))
                        .map(|(p, _)| (before_or_registered_min(p, &before, &registered), it.id(p)))
                        .filter(|(_, id)| !inb.contains(id))
                        .collect();
                    trailing.sort();
                    obs.calls.push((true, base, trailing));
                    check_groups(&mut res.oracle_failures, cyc, *level as u32, groups, levels);
                }
                Rec::Register { path, meta } => {
                    registered.insert(path.clone(), meta.clone());
                }
                Rec::Complete { srcs, tgt, ok, new_level } => {
                    if !*ok {
                        res.oracle_failures.push(format!("cycle {}: complete_compaction failed", cyc));
                        continue;
                    }
                    obs.merges += 1;
                    let ids: Vec<u32> = srcs.iter().map(|p| it.id(p)).collect();
                    let nl = new_level.map(|x| x.to_string()).unwrap_or_else(|| "-".into());
                    merges_txt.push(format!("{}:{}>{}@{}", cur_level, show_group_ids(&ids), it.id(tgt), nl));
                    if let Some(m) = registered.get(tgt) {
                        table.push(format!("{}={}:{}:{}:{}", show_group_ids(&ids), m.size_bytes, m.row_count, m.min_timestamp, m.max_timestamp));
                    }
                    // level rule, directly on the implementation
                    let src_levels: Vec<u32> = srcs.iter().filter_map(|p| cur_levels.get(p).cloned().flatten()).collect();
                    if let Some(m) = src_levels.iter().max() {
                        *res.merged_at.entry(*m).or_insert(0) += 1;
                    }
                    let want = src_levels.iter().max().map(|m| m + 1);
                    if src_levels.len() != srcs.len() || want != *new_level {
                        res.oracle_failures.push(format!(
                            "cycle {}: merged chunk got level {:?}, sources had levels {:?} (expected 1 + max)",
                            cyc, new_level, src_levels
                        ));
                    }
                    if src_levels.iter().any(|l| *l as u64 != (cur_level & 0xffff_ffff)) {
                        res.oracle_failures.push(format!(
                            "cycle {}: merge at level {} took sources of levels {:?}",
                            cyc, cur_level, src_levels
                        ));
                    }
                }
            }
        }
        obs.oracle_table = table.join(";");
        obs.impl_out = format!(
            "status={} pending={} sel={} merges={} cat={} fresh={} measure={}",
            status,
            pending,
            obs.sel_segments.join("|"),
            merges_txt.join("|"),
            show_cat(&after, &it),
            it.next,
            measure_of(&after)
        );
        res.total_merges += obs.merges;

        // ---- oracle over the catalog
        let bcat = show_cat(&before, &it);
        let acat = show_cat(&after, &it);
        if obs.merges == 0 && bcat != acat {
            res.oracle_failures.push(format!("cycle {}: no merge but the catalog changed: {} -> {}", cyc, bcat, acat));
        }
        if obs.merges > 0 && measure_of(&after) + obs.merges > measure_of(&before) {
            res.oracle_failures.push(format!(
                "cycle {}: {} merges but 2*chunks+L0 went from {} to {}",
                cyc, obs.merges, measure_of(&before), measure_of(&after)
            ));
        }
        if let Ok(Ok(())) = &r {
            let bp = comp.backpressure().l0_pending_files.to_string();
            if bp != pending {
                extra.push_str(&format!(" L0-PENDING-FILES-{}", bp));
            }
        }
        // target sizes the compactor asked with (level >= 3: l2 * 5)
        for t in &targets_txt {
            let f: Vec<&str> = t.split(':').collect();
            let want = match f[0] { "1" => Some(cfg.l1), "2" => Some(cfg.l2), _ => cfg.l2.checked_mul(5) };
            if want.map(|w| w.to_string()) != Some(f[1].to_string()) {
                extra.push_str(&format!(" LEVEL-{}-ASKED-WITH-TARGET-{}", f[0], f[1]));
            }
        }
        for (p, (l, _)) in &after {
            if gone.contains(p) {
                res.oracle_failures.push(format!("cycle {}: path {} came back after it was removed", cyc, it.id(p)));
            }
            if let (Some(new), Some(old)) = (l, last_levels.get(p)) {
                if new < old {
                    res.oracle_failures.push(format!("cycle {}: level of path {} decreased {} -> {}", cyc, it.id(p), old, new));
                }
            }
            match l {
                Some(x) => {
                    last_levels.insert(p.clone(), *x);
                }
                None => res.oracle_failures.push(format!("cycle {}: live path {} has no level", cyc, it.id(p))),
            }
        }
        for p in before.keys() {
            if !after.contains_key(p) {
                gone.insert(p.clone());
            }
        }
        if let Inner::S3(_) = &inner {
            let fresh = Inner::S3(Arc::new(ObjectStoreMetadataClient::new(store.clone(), s3cfg.clone())));
            let persisted = rt.block_on(fresh.snapshot());
            if show_cat(&persisted, &it) != acat {
                extra.push_str(" PERSISTED-CATALOG-DIFFERS-FROM-CACHED-VIEW");
            }
        }

        obs.impl_out.push_str(&extra);
        // ---- model
        if model_on {
            let cfgtxt = format!("{} {} {} {}", cfg.thr, cfg.l1, cfg.l2, cfg.maxlv);
            let mut ords: Vec<Vec<u32>> = obs
                .calls
                .iter()
                .map(|(_, base, trailing)| {
                    let mut o = base.clone();
                    o.extend(trailing.iter().map(|(_, id)| *id));
                    o
                })
                .collect();
            let mk = |ords: &Vec<Vec<u32>>| -> String {
                let o: Vec<String> = ords.iter().map(|o| o.iter().map(|x| x.to_string()).collect::<Vec<_>>().join(",")).collect();
                format!("{} # {} # {}", cfgtxt, o.join("/"), obs.oracle_table)
            };
            let mut m = model.ask(&format!("try {}", mk(&ords)));
            if m != obs.impl_out && case.backend == Backend::Local {
                // hash order among equal min_timestamps of the chunks the in-memory
                // selection dropped is not observable: search it, call by call
                for k in 0..obs.calls.len() {
                    let msel = sel_of(&m);
                    if msel.get(k) == obs.sel_segments.get(k) {
                        continue;
                    }
                    let (is_level, base, trailing) = &obs.calls[k];
                    if !*is_level {
                        break;
                    }
                    let mut found = false;
                    for alt in tie_orders(trailing, 240) {
                        let mut o = base.clone();
                        o.extend(alt);
                        let mut cand = ords.clone();
                        cand[k] = o;
                        let out = model.ask(&format!("try {}", mk(&cand)));
                        if sel_of(&out).get(k) == obs.sel_segments.get(k) {
                            ords = cand;
                            m = out;
                            found = true;
                            res.tie_search_used = true;
                            break;
                        }
                    }
                    if !found {
                        break;
                    }
                }
            }
            let committed = model.ask(&format!("cycle {}", mk(&ords)));
            res.steps.push((format!("cycle {}", cyc), obs.impl_out.clone(), committed.clone()));
            if committed != obs.impl_out {
                res.mismatch = Some(format!("cycle {}", cyc));
                res.mismatch_step = Some((obs.impl_out.clone(), committed));
                model_on = false;
            }
        } else {
            res.steps.push((format!("cycle {}", cyc), obs.impl_out.clone(), "NO-MODEL".into()));
        }

        let unchanged = bcat == acat;
        before = after;
        let _ = &obs.status;
        if unchanged && cyc + 1 >= case.cfgs.len() {
            res.reached_fixpoint = true;
            break;
        }
    }
    if !res.reached_fixpoint {
        res.oracle_failures.push(format!("no fixpoint after {} cycles", MAX_CYCLES));
    }
    if res.total_merges > res.initial_measure {
        res.oracle_failures.push(format!("{} merges exceed the bound {}", res.total_merges, res.initial_measure));
    }
    res
}

fn before_or_registered_min(p: &str, before: &Snap, registered: &HashMap<String, ChunkMetadata>) -> i64 {
    if let Some(m) = registered.get(p) {
        return m.min_timestamp;
    }
    before.get(p).map(|(_, e)| e.min_timestamp).unwrap_or(0)
}

fn check_groups(bad: &mut Vec<String>, cyc: usize, level: u32, groups: &[Vec<String>], levels: &BTreeMap<String, Option<u32>>) {
    let mut seen: BTreeSet<&String> = BTreeSet::new();
    for g in groups {
        for p in g {
            if !seen.insert(p) {
                bad.push(format!("cycle {}: a chunk is selected twice by the level-{} candidate call", cyc, level));
            }
            match levels.get(p) {
                Some(Some(l)) if *l == level => {}
                other => bad.push(format!(
                    "cycle {}: level-{} candidate call returned a chunk of level {:?}",
                    cyc, level, other
                )),
            }
        }
    }
}

// ------------------------------------------------------------ generator ----
fn gen_cfg(rng: &mut Rng, report: &mut Report) -> Cfg {
    let thr = *rng.pick(&[0u64, 1, 1, 2, 2, 3, 3, 4, 6, 15]);
    let sizes: [u64; 10] = [0, 1, 500, 1500, 3000, 6000, 20_000, 1 << 40, u64::MAX, u64::MAX / 5 + 1];
    let pick = |rng: &mut Rng| -> u64 {
        if rng.chance(1, 12) {
            sizes[8 + rng.below(2) as usize]
        } else {
            sizes[rng.below(8) as usize]
        }
    };
    let l1 = pick(rng);
    let l2 = pick(rng);
    let maxlv = *rng.pick(&[0u64, 1, 2, 3, 4, 5, 6, 6, 7, 7, 8, 8]);
    report.bump(&format!("cfg.threshold.{}", if thr <= 1 { "le1" } else { "ge2" }));
    report.bump(&format!("cfg.max_levels.{}", maxlv));
    if l1 == 0 || l2 == 0 {
        report.bump("cfg.target_zero");
    }
    if l2 > u64::MAX / 5 && maxlv >= 3 {
        report.bump("cfg.l3_target_overflows");
    }
    Cfg { thr, l1, l2, maxlv }
}

fn gen_case(rng: &mut Rng, base: i64, report: &mut Report) -> Case {
    let backend = if rng.chance(1, 2) { Backend::S3 } else { Backend::Local };
    let mut cfgs = vec![gen_cfg(rng, report)];
    if rng.chance(1, 6) {
        cfgs.push(gen_cfg(rng, report));
        report.bump("case.config_changes");
    }
    let n = match rng.below(10) {
        0 => rng.range_usize(0, 1),
        1..=5 => rng.range_usize(2, 6),
        _ => rng.range_usize(6, 12),
    };
    let hours = rng.range_usize(1, 4) as i64;
    let offs: [i64; 6] = [0, 1, 1000, H / 2, H - 1, H - 1000];
    let size_pal: [u64; 9] = [0, 1, 100, 400, 900, 1500, 2500, 5000, 30_000];
    let mut chunks = Vec::new();
    let mut ties = false;
    // one case in three concentrates chunks on one (often high) level so that
    // merges happen at every level, also above the configured limit
    let focus: Option<u32> = if rng.chance(1, 3) { Some(rng.range_usize(1, 8) as u32) } else { None };
    if focus.is_some() {
        report.bump("case.focus_level");
    }
    for i in 0..n {
        let hour = rng.below(hours as u64) as i64;
        let min = if rng.chance(3, 5) {
            base + hour * H + *rng.pick(&offs)
        } else {
            base + hour * H + rng.range_i64(0, H - 1)
        };
        let rows = rng.range_usize(1, 3) as u32;
        let max = if rows == 1 {
            min
        } else {
            match rng.below(4) {
                0 => min + rng.range_i64(1, 1000),
                1 => min + H,
                _ => min + rng.range_i64(1, H / 2),
            }
        };
        let level = match focus {
            Some(l) if rng.chance(3, 5) => l,
            _ => {
                if rng.chance(11, 20) {
                    0
                } else {
                    rng.range_usize(1, 7) as u32
                }
            }
        };
        let size = if rng.chance(1, 40) { 1u64 << 63 } else { *rng.pick(&size_pal) };
        if chunks.iter().any(|c: &Chunk| c.min == min && c.level == level) {
            ties = true;
        }
        chunks.push(Chunk { id: FIRST_REAL_ID + i as u32, level, min, max, rows, size });
    }
    if ties {
        report.bump("case.equal_min_timestamps_in_a_level");
    }
    if chunks.iter().any(|c| c.level > 0) {
        report.bump("case.initial_levels_above_0");
    }
    if chunks.iter().any(|c| c.size >= 1 << 63) {
        report.bump("case.size_near_usize_overflow");
    }
    report.bump(&format!("backend.{}", backend.name()));
    report.bump(&format!("case.chunks.{}", if n <= 1 { "0-1" } else if n <= 6 { "2-6" } else { "7-12" }));
    let direct = backend == Backend::S3 && rng.chance(1, 2);
    if direct {
        report.bump("case.s3_levels_written_directly");
    }
    Case { backend, direct, cfgs, chunks }
}

/// Proof-derived corner cases that always run first (both backends each).
fn corpus(base: i64) -> Vec<Case> {
    let c = |id: u32, level: u32, min: i64, size: u64| Chunk { id: FIRST_REAL_ID + id, level, min: base + min, max: base + min + 10, rows: 2, size };
    let cfg = |thr, l1, l2, maxlv| Cfg { thr, l1, l2, maxlv };
    let mut out = Vec::new();
    for (b, direct) in [(Backend::S3, false), (Backend::S3, true), (Backend::Local, false)] {
        // threshold 0 / 1: single level-0 chunks are rewritten once, then nothing is selectable
        out.push(Case { backend: b, direct, cfgs: vec![cfg(0, 1 << 40, 1 << 40, 3)], chunks: vec![c(0, 0, 0, 100)] });
        out.push(Case { backend: b, direct, cfgs: vec![cfg(1, 1500, 6000, 4)], chunks: vec![c(0, 0, 0, 100), c(1, 0, H, 100), c(2, 0, 2 * H, 100)] });
        // one hour bucket, boundary neighbours, threshold exactly met / missed by one
        out.push(Case { backend: b, direct, cfgs: vec![cfg(3, 1500, 6000, 3)], chunks: vec![c(0, 0, 0, 100), c(1, 0, H - 11, 100), c(2, 0, H / 2, 100), c(3, 0, H, 100), c(4, 0, H + 1, 100)] });
        // target size 0: the object-store flavour closes every group at one member, the in-memory one pairs
        out.push(Case { backend: b, direct, cfgs: vec![cfg(2, 0, 0, 3)], chunks: vec![c(0, 1, 0, 100), c(1, 1, 10, 100), c(2, 1, 20, 100), c(3, 2, 30, 5), c(4, 2, 40, 5)] });
        // a big first chunk: in-memory keeps the one-member group open, object-store closes it
        out.push(Case { backend: b, direct, cfgs: vec![cfg(2, 1000, 1000, 3)], chunks: vec![c(0, 1, 0, 5000), c(1, 1, 10, 1), c(2, 1, 20, 1), c(3, 1, 30, 5000)] });
        // trailing group: kept by the object store, dropped in memory
        out.push(Case { backend: b, direct, cfgs: vec![cfg(2, 1 << 40, 1 << 40, 2)], chunks: vec![c(0, 1, 0, 10), c(1, 1, 10, 10), c(2, 1, 20, 10)] });
        // equal min_timestamps inside one level: the grouping depends on the hash order
        out.push(Case { backend: b, direct, cfgs: vec![cfg(2, 1000, 1000, 2)], chunks: vec![c(0, 1, 0, 1000), c(1, 1, 0, 1), c(2, 1, 0, 1), c(3, 1, 0, 1000)] });
        // two chunks with one min_timestamp: [small, big] closes a pair, [big, small] leaves the
        // in-memory selection empty-handed (hash order decides; the unobservable order is searched)
        out.push(Case { backend: b, direct, cfgs: vec![cfg(2, 50, 50, 2)], chunks: vec![c(0, 1, 7, 1), c(1, 1, 7, 100)] });
        out.push(Case { backend: b, direct, cfgs: vec![cfg(2, 50, 50, 2)], chunks: vec![c(0, 1, 7, 1), c(1, 1, 7, 100), c(2, 1, 7, 1), c(3, 1, 7, 100), c(4, 1, 7, 30)] });
        // levels above the limit are never touched; level max_levels is still compacted
        out.push(Case { backend: b, direct, cfgs: vec![cfg(2, 0, 0, 1)], chunks: vec![c(0, 1, 0, 1), c(1, 1, 10, 1), c(2, 2, 20, 1), c(3, 2, 30, 1), c(4, 3, 40, 1), c(5, 3, 50, 1)] });
        // level >= 3 target = l2 * 5 overflows usize: the cycle panics (debug build) once it gets there
        out.push(Case { backend: b, direct, cfgs: vec![cfg(2, 1000, u64::MAX / 5 + 1, 3)], chunks: vec![c(0, 0, 0, 100), c(1, 0, 20, 100), c(2, 3, 40, 100)] });
        // accumulated size overflows usize
        out.push(Case { backend: b, direct, cfgs: vec![cfg(2, u64::MAX, u64::MAX, 2)], chunks: vec![c(0, 1, 0, 1 << 63), c(1, 1, 10, 1 << 63), c(2, 1, 20, 5)] });
        // configuration change after the first fixpoint: a lower threshold makes more groups eligible
        out.push(Case { backend: b, direct, cfgs: vec![cfg(15, 1500, 6000, 3), cfg(15, 1500, 6000, 3), cfg(2, 1500, 6000, 3)], chunks: vec![c(0, 0, 0, 100), c(1, 0, 5, 100), c(2, 0, H, 100), c(3, 0, H + 5, 100)] });
        // cascade through all levels in one cycle
        out.push(Case { backend: b, direct, cfgs: vec![cfg(2, 0, 0, 5)], chunks: vec![c(0, 0, 0, 100), c(1, 0, 5, 100), c(2, 0, H, 100), c(3, 0, H + 5, 100)] });
        // a merge at every level 0..7 (max_levels 8): two chunks of 10 bytes against a target of 15
        // (levels >= 3 use l2 * 5 = 15); the result sits alone one level up
        for l in 0..=7u32 {
            let (l1, l2) = if l >= 3 { (15, 3) } else { (15, 15) };
            out.push(Case { backend: b, direct, cfgs: vec![cfg(2, l1, l2, 8)], chunks: vec![c(0, l, 0, 10), c(1, l, 20, 10)] });
        }
        // two level-5 chunks next to genuine level-4 and level-6 chunks, max_levels 6, small target:
        // the level-5 pair must come out at level 6 (never at or below 5) and then meet the level-6 pair
        out.push(Case { backend: b, direct, cfgs: vec![cfg(2, 15, 3, 6)], chunks: vec![c(0, 5, 0, 10), c(1, 5, 20, 10), c(2, 4, 40, 10), c(3, 4, 60, 10), c(4, 6, 80, 10)] });
        out.push(Case { backend: b, direct, cfgs: vec![cfg(2, 15, 3, 6)], chunks: vec![c(0, 5, 0, 10), c(1, 5, 20, 10)] });
        // a ladder: one pair on every level 0..7, everything cascades upwards in one cycle
        out.push(Case { backend: b, direct, cfgs: vec![cfg(2, 15, 3, 8)], chunks: (0..8u32).flat_map(|l| vec![c(2 * l, l, 100 * l as i64, 10), c(2 * l + 1, l, 100 * l as i64 + 50, 10)]).collect() });
        // chunks above the level limit stay where they are
        out.push(Case { backend: b, direct, cfgs: vec![cfg(2, 1, 1, 4)], chunks: vec![c(0, 5, 0, 10), c(1, 5, 20, 10), c(2, 7, 40, 10), c(3, 7, 60, 10), c(4, 4, 80, 10), c(5, 4, 90, 10)] });
        // empty catalog
        out.push(Case { backend: b, direct, cfgs: vec![cfg(0, 0, 0, 2)], chunks: vec![] });
    }
    out
}

fn main() {
    let args = Args::parse();
    csv_common::quiet_panics();
    let rt = tokio::runtime::Builder::new_current_thread().enable_all().build().unwrap();
    let mut model = Model::spawn(&args.model);
    let mut report = Report::new("C20");
    // hour-aligned, a few days back: inside the retention window, every run
    let now = chrono::Utc::now().timestamp_nanos_opt().unwrap_or(1_700_000_000_000_000_000);
    let base = (now / H) * H - 100 * H;

    if let Some(path) = &args.replay {
        let txt = std::fs::read_to_string(path).expect("replay file");
        let v: serde_json::Value = serde_json::from_str(&txt).expect("replay json");
        let c = &v["case"];
        let line = c.as_str().map(|s| s.to_string()).or_else(|| c["case"].as_str().map(|s| s.to_string())).unwrap_or_default();
        if line.split('|').count() < 2 {
            println!("replay file holds no case text (correspondence-only finding): re-run ./check C20 with the recorded seed");
            std::process::exit(1);
        }
        let mut case = decode(&line);
        // replay files hold timestamps relative to the (hour-aligned) base
        for ch in case.chunks.iter_mut() {
            ch.min += base;
            ch.max += base;
        }
        let r = run_case(&rt, &case, &mut model);
        println!("case : {}", line);
        for (step, i, m) in &r.steps {
            println!("{}\n  impl : {}\n  model: {}", step, i, m);
        }
        println!("mismatch: {:?}\noracle failures: {:?}", r.mismatch, r.oracle_failures);
        std::process::exit(if r.mismatch.is_none() && r.oracle_failures.is_empty() { 0 } else { 1 });
    }

    let n_random = if args.thorough() { 5_000 } else { 400 };
    let mut rng = Rng::new(args.seed);
    let mut cases: Vec<(String, Case)> = corpus(base).into_iter().map(|c| ("corpus".to_string(), c)).collect();
    for _ in 0..n_random {
        let mut r = rng.fork();
        cases.push(("random".to_string(), gen_case(&mut r, base, &mut report)));
    }

    for (origin, case) in cases {
        let key = encode_with(&case, base);
        let r = run_case(&rt, &case, &mut model);
        report.impl_runs += r.cycles as u64;
        report.case(if r.total_merges > 0 { Some(&key) } else { None });
        report.bump(&format!("origin.{}", origin));
        report.bump(&format!("run.cycles_to_fixpoint.{}", if r.cycles <= 2 { "1-2".to_string() } else if r.cycles <= 4 { "3-4".to_string() } else { "5+".to_string() }));
        report.bump(&format!("run.merges.{}", if r.total_merges == 0 { "0" } else if r.total_merges <= 3 { "1-3" } else { "4+" }));
        report.bump_by("run.merges_total", r.total_merges as u64);
        if r.panics > 0 {
            report.bump("run.cycle_panicked_on_usize_overflow");
        }
        for (l, k) in &r.merged_at {
            report.bump_by(&format!("merge.{}.source_level.{}", case.backend.name(), l), *k);
        }
        if r.tie_search_used {
            report.bump("run.hash_order_among_equal_min_searched");
        }
        let last = r.steps.last().cloned().unwrap_or_default();
        report.sample(json!({"case": key, "cycles": r.cycles, "merges": r.total_merges, "last_step": last.0, "impl": last.1, "model": last.2}));

        // a panic is only expected where usize arithmetic overflows (debug build)
        let mut bad = r.oracle_failures.clone();
        if r.panics > 0 && !overflow_possible(&case) {
            bad.push("run_compaction_cycle panicked although no usize overflow is possible".into());
        }

        if let Some(step) = &r.mismatch {
            let shrunk_chunks = ddmin(&case.chunks, &mut |cand: &[Chunk]| {
                let c2 = Case { backend: case.backend, direct: case.direct, cfgs: case.cfgs.clone(), chunks: cand.to_vec() };
                run_case(&rt, &c2, &mut model).mismatch.is_some()
            });
            let c2 = Case { backend: case.backend, direct: case.direct, cfgs: case.cfgs.clone(), chunks: shrunk_chunks };
            let r2 = run_case(&rt, &c2, &mut model);
            let (s_impl, s_model) = r2.mismatch_step.clone().unwrap_or_else(|| r2.steps.first().map(|(_, i, m)| (i.clone(), m.clone())).unwrap_or_default());
            let (o_impl, o_model) = r.mismatch_step.clone().unwrap_or_else(|| r.steps.first().map(|(_, i, m)| (i.clone(), m.clone())).unwrap_or_default());
            report.disagreement(json!({
                "correspondence": "compaction cycle model (Model/Compaction.v) vs Compactor::run_compaction_cycle + metadata client",
                "case": key, "step": step, "impl": o_impl, "model": o_model,
                "shrunk": encode_with(&c2, base), "shrunk_impl": s_impl, "shrunk_model": s_model,
                "oracle_failed": !bad.is_empty() || !r2.oracle_failures.is_empty(),
            }));
        }
        if !bad.is_empty() {
            let shrunk_chunks = ddmin(&case.chunks, &mut |cand: &[Chunk]| {
                let c2 = Case { backend: case.backend, direct: case.direct, cfgs: case.cfgs.clone(), chunks: cand.to_vec() };
                let mut nomodel = Model::spawn("");
                let rr = run_case(&rt, &c2, &mut nomodel);
                !rr.oracle_failures.is_empty() || (rr.panics > 0 && !overflow_possible(&c2))
            });
            let c2 = Case { backend: case.backend, direct: case.direct, cfgs: case.cfgs.clone(), chunks: shrunk_chunks };
            report.oracle_violation("", &summarize(&bad), json!({"case": encode_with(&c2, base), "original": key}));
        }
    }
    report.notes.push(format!("model calls: {}", model.calls));
    report.notes.push("timestamps in case texts are relative to an hour-aligned base 100 hours before the run".into());
    report.write(&args.out);
}

/// the run-level failures first, then the first few per-cycle ones
fn summarize(bad: &[String]) -> String {
    let mut v: Vec<&String> = bad.iter().filter(|b| !b.starts_with("cycle ")).collect();
    v.extend(bad.iter().filter(|b| b.starts_with("cycle ")).take(3));
    let mut s = v.iter().map(|x| x.as_str()).collect::<Vec<_>>().join("; ");
    if bad.len() > v.len() {
        s.push_str(&format!("; ... ({} failures in all)", bad.len()));
    }
    s
}

/// usize arithmetic of the selection / target-size code can overflow for this case
fn overflow_possible(case: &Case) -> bool {
    let big_sum = case.chunks.iter().map(|c| c.size as u128).sum::<u128>() > u64::MAX as u128;
    let l3 = case.cfgs.iter().any(|c| c.maxlv >= 3 && c.l2 > u64::MAX / 5);
    big_sum || l3
}
