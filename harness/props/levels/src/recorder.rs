//! A MetadataClient that forwards every call to the real client and records
//! what the compactor asked and was told: candidate calls (with the levels of
//! all chunks at that moment), registrations, completed compactions.
use async_trait::async_trait;
use cardinalsin::ingester::ChunkMetadata;
use cardinalsin::metadata::{
    ColumnPredicate, CompactionJob, CompactionLease, CompactionLeases, CompactionStatus,
    LocalMetadataClient, MetadataClient, ObjectStoreMetadataClient, SplitState, TimeIndexEntry,
    TimeRange,
};
use cardinalsin::sharding::{ShardMetadata, SplitPhase};
use cardinalsin::Result;
use std::collections::BTreeMap;
use std::sync::{Arc, Mutex};

#[derive(Clone)]
pub enum Inner {
    S3(Arc<ObjectStoreMetadataClient>),
    Local(Arc<LocalMetadataClient>),
}

impl Inner {
    pub fn client(&self) -> &dyn MetadataClient {
        match self {
            Inner::S3(c) => c.as_ref(),
            Inner::Local(c) => c.as_ref(),
        }
    }
    /// path -> (level, metadata) of every live chunk, as the client sees it now
    pub async fn snapshot(&self) -> BTreeMap<String, (Option<u32>, TimeIndexEntry)> {
        let mut out = BTreeMap::new();
        match self {
            Inner::S3(c) => {
                let list = c.list_chunks().await.unwrap_or_default();
                let ext = c.load_chunk_metadata().await.unwrap_or_default();
                for e in list {
                    let lvl = ext.get(&e.chunk_path).map(|x| x.level);
                    out.insert(e.chunk_path.clone(), (lvl, e));
                }
            }
            Inner::Local(c) => {
                let list = c.list_chunks().await.unwrap_or_default();
                for e in list {
                    let lvl = c.verif_chunk_level(&e.chunk_path);
                    out.insert(e.chunk_path.clone(), (lvl, e));
                }
            }
        }
        out
    }
}

#[derive(Clone, Debug)]
pub enum Rec {
    L0 { min_count: usize, groups: Vec<Vec<String>>, levels: BTreeMap<String, Option<u32>> },
    Level { level: usize, target: usize, groups: Vec<Vec<String>>, levels: BTreeMap<String, Option<u32>> },
    Register { path: String, meta: ChunkMetadata },
    Complete { srcs: Vec<String>, tgt: String, ok: bool, new_level: Option<u32> },
}

pub struct Recorder {
    pub inner: Inner,
    pub log: Mutex<Vec<Rec>>,
}

impl Recorder {
    pub fn new(inner: Inner) -> Recorder {
        Recorder { inner, log: Mutex::new(Vec::new()) }
    }
    pub fn take(&self) -> Vec<Rec> {
        std::mem::take(&mut *self.log.lock().unwrap())
    }
    async fn levels(&self) -> BTreeMap<String, Option<u32>> {
        self.inner.snapshot().await.into_iter().map(|(k, (l, _))| (k, l)).collect()
    }
}

#[async_trait]
impl MetadataClient for Recorder {
    async fn register_chunk(&self, path: &str, metadata: &ChunkMetadata) -> Result<()> {
        let r = self.inner.client().register_chunk(path, metadata).await;
        if r.is_ok() {
            self.log.lock().unwrap().push(Rec::Register { path: path.to_string(), meta: metadata.clone() });
        }
        r
    }
    async fn get_chunks(&self, range: TimeRange) -> Result<Vec<TimeIndexEntry>> {
        self.inner.client().get_chunks(range).await
    }
    async fn get_chunks_with_predicates(
        &self,
        range: TimeRange,
        predicates: &[ColumnPredicate],
    ) -> Result<Vec<TimeIndexEntry>> {
        self.inner.client().get_chunks_with_predicates(range, predicates).await
    }
    async fn get_chunk(&self, path: &str) -> Result<Option<ChunkMetadata>> {
        self.inner.client().get_chunk(path).await
    }
    async fn delete_chunk(&self, path: &str) -> Result<()> {
        self.inner.client().delete_chunk(path).await
    }
    async fn list_chunks(&self) -> Result<Vec<TimeIndexEntry>> {
        self.inner.client().list_chunks().await
    }
    async fn get_l0_candidates(&self, min_count: usize) -> Result<Vec<Vec<String>>> {
        let levels = self.levels().await;
        let r = self.inner.client().get_l0_candidates(min_count).await;
        if let Ok(g) = &r {
            self.log.lock().unwrap().push(Rec::L0 { min_count, groups: g.clone(), levels });
        }
        r
    }
    async fn get_level_candidates(&self, level: usize, target_size: usize) -> Result<Vec<Vec<String>>> {
        let levels = self.levels().await;
        let r = self.inner.client().get_level_candidates(level, target_size).await;
        if let Ok(g) = &r {
            self.log.lock().unwrap().push(Rec::Level { level, target: target_size, groups: g.clone(), levels });
        }
        r
    }
    async fn create_compaction_job(&self, job: CompactionJob) -> Result<()> {
        self.inner.client().create_compaction_job(job).await
    }
    async fn complete_compaction(&self, source_chunks: &[String], target_chunk: &str) -> Result<()> {
        let r = self.inner.client().complete_compaction(source_chunks, target_chunk).await;
        let new_level = if r.is_ok() {
            self.inner.snapshot().await.get(target_chunk).and_then(|(l, _)| *l)
        } else {
            None
        };
        self.log.lock().unwrap().push(Rec::Complete {
            srcs: source_chunks.to_vec(),
            tgt: target_chunk.to_string(),
            ok: r.is_ok(),
            new_level,
        });
        r
    }
    async fn update_compaction_status(&self, job_id: &str, status: CompactionStatus) -> Result<()> {
        self.inner.client().update_compaction_status(job_id, status).await
    }
    async fn get_pending_compaction_jobs(&self) -> Result<Vec<CompactionJob>> {
        self.inner.client().get_pending_compaction_jobs().await
    }
    async fn cleanup_completed_jobs(&self, max_age_secs: i64) -> Result<usize> {
        self.inner.client().cleanup_completed_jobs(max_age_secs).await
    }
    async fn start_split(&self, old_shard: &str, new_shards: Vec<String>, split_point: Vec<u8>) -> Result<()> {
        self.inner.client().start_split(old_shard, new_shards, split_point).await
    }
    async fn get_split_state(&self, shard_id: &str) -> Result<Option<SplitState>> {
        self.inner.client().get_split_state(shard_id).await
    }
    async fn update_split_progress(&self, shard_id: &str, progress: f64, phase: SplitPhase) -> Result<()> {
        self.inner.client().update_split_progress(shard_id, progress, phase).await
    }
    async fn complete_split(&self, old_shard: &str) -> Result<()> {
        self.inner.client().complete_split(old_shard).await
    }
    async fn get_chunks_for_shard(&self, shard_id: &str) -> Result<Vec<TimeIndexEntry>> {
        self.inner.client().get_chunks_for_shard(shard_id).await
    }
    async fn get_shard_metadata(&self, shard_id: &str) -> Result<Option<ShardMetadata>> {
        self.inner.client().get_shard_metadata(shard_id).await
    }
    async fn update_shard_metadata(
        &self,
        shard_id: &str,
        metadata: &ShardMetadata,
        expected_generation: u64,
    ) -> Result<()> {
        self.inner.client().update_shard_metadata(shard_id, metadata, expected_generation).await
    }
    async fn acquire_lease(&self, node_id: &str, chunks: &[String], level: u32) -> Result<CompactionLease> {
        self.inner.client().acquire_lease(node_id, chunks, level).await
    }
    async fn complete_lease(&self, lease_id: &str) -> Result<()> {
        self.inner.client().complete_lease(lease_id).await
    }
    async fn fail_lease(&self, lease_id: &str) -> Result<()> {
        self.inner.client().fail_lease(lease_id).await
    }
    async fn renew_lease(&self, lease_id: &str) -> Result<()> {
        self.inner.client().renew_lease(lease_id).await
    }
    async fn load_leases(&self) -> Result<CompactionLeases> {
        self.inner.client().load_leases().await
    }
    async fn scavenge_leases(&self) -> Result<usize> {
        self.inner.client().scavenge_leases().await
    }
    async fn has_active_split(&self) -> Result<bool> {
        self.inner.client().has_active_split().await
    }
}
