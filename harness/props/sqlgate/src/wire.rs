//! Real servers on loopback ports and real clients: the Flight SQL gRPC service
//! started by `run_query_grpc_server` driven with arrow-flight's
//! `FlightSqlServiceClient`, and the HTTP router of `build_http_router` driven
//! with reqwest (REST routes) and tokio-tungstenite (the websocket route).
use arrow_flight::sql::client::FlightSqlServiceClient;
use arrow_flight::sql::{
    Any, CommandGetDbSchemas, CommandGetTables, CommandStatementQuery, ProstMessageExt,
};
use arrow_flight::FlightDescriptor;
use cardinalsin::query::QueryNode;
use futures::{SinkExt, StreamExt, TryStreamExt};
use prost::Message;
use std::net::SocketAddr;
use std::sync::Arc;
use tonic::transport::{Channel, Endpoint};

pub struct GrpcServer {
    pub addr: SocketAddr,
    shutdown: tokio::sync::watch::Sender<bool>,
    task: tokio::task::JoinHandle<()>,
}

impl GrpcServer {
    /// `run_query_grpc_server` on a free loopback port, and a connected client.
    pub async fn start(node: Arc<QueryNode>) -> Result<(GrpcServer, FlightSqlServiceClient<Channel>), String> {
        for _attempt in 0..5 {
            let port = {
                let l = std::net::TcpListener::bind("127.0.0.1:0").map_err(|e| e.to_string())?;
                l.local_addr().map_err(|e| e.to_string())?.port()
            };
            let addr: SocketAddr = format!("127.0.0.1:{}", port).parse().unwrap();
            let (tx, rx) = tokio::sync::watch::channel(false);
            let n = node.clone();
            let task = tokio::spawn(async move {
                let _ = cardinalsin::api::grpc::run_query_grpc_server(addr, n, rx).await;
            });
            let mut channel = None;
            for _ in 0..200 {
                match Endpoint::from_shared(format!("http://{}", addr)).unwrap().connect().await {
                    Ok(c) => {
                        channel = Some(c);
                        break;
                    }
                    Err(_) => {
                        if task.is_finished() {
                            break;
                        }
                        tokio::time::sleep(std::time::Duration::from_millis(2)).await;
                    }
                }
            }
            match channel {
                Some(c) => return Ok((GrpcServer { addr, shutdown: tx, task }, FlightSqlServiceClient::new(c))),
                None => {
                    let _ = tx.send(true);
                    task.abort();
                }
            }
        }
        Err("could not start the gRPC server on a loopback port".into())
    }

    pub async fn stop(self) {
        let _ = self.shutdown.send(true);
        self.task.abort();
        let _ = self.task.await;
    }
}

async fn drain_info(client: &mut FlightSqlServiceClient<Channel>, info: arrow_flight::FlightInfo) -> Result<usize, String> {
    let mut rows = 0;
    for ep in info.endpoint {
        if let Some(t) = ep.ticket {
            let stream = client.do_get(t).await.map_err(|e| e.to_string())?;
            let batches: Vec<arrow_array::RecordBatch> = stream.try_collect().await.map_err(|e| e.to_string())?;
            rows += batches.iter().map(|b| b.num_rows()).sum::<usize>();
        }
    }
    Ok(rows)
}

/// One SQL text through one Flight SQL client operation (the server-side handlers it reaches are
/// listed in c11.rs GRPC_INVENTORY).
pub async fn grpc_sql(client: &mut FlightSqlServiceClient<Channel>, op: &str, sql: &str) -> Result<(), String> {
    match op {
        // get_flight_info_statement, then do_get_statement
        "execute" => {
            let info = client.execute(sql.to_string(), None).await.map_err(|e| e.to_string())?;
            drain_info(client, info).await.map(|_| ())
        }
        // do_put_statement_update
        "execute_update" => client.execute_update(sql.to_string(), None).await.map(|_| ()).map_err(|e| e.to_string()),
        // do_action_create_prepared_statement, get_flight_info_prepared_statement, do_get_prepared_statement,
        // do_action_close_prepared_statement
        "prepare_execute" => {
            let mut st = client.prepare(sql.to_string(), None).await.map_err(|e| e.to_string())?;
            let info = st.execute().await.map_err(|e| e.to_string())?;
            let r = drain_info(client, info).await.map(|_| ());
            let _ = st.close().await;
            r
        }
        // do_action_create_prepared_statement, do_put_prepared_statement_update
        "prepare_execute_update" => {
            let mut st = client.prepare(sql.to_string(), None).await.map_err(|e| e.to_string())?;
            let r = st.execute_update().await.map(|_| ()).map_err(|e| e.to_string());
            let _ = st.close().await;
            r
        }
        // do_action_create_prepared_statement, do_put_prepared_statement_query (parameter binding), then execute
        "prepare_bind_execute" => {
            let mut st = client.prepare(sql.to_string(), None).await.map_err(|e| e.to_string())?;
            let schema = Arc::new(arrow_schema::Schema::new(vec![arrow_schema::Field::new("p", arrow_schema::DataType::Int64, true)]));
            let batch = arrow_array::RecordBatch::try_new(schema, vec![Arc::new(arrow_array::Int64Array::from(vec![7i64]))]).unwrap();
            st.set_parameters(batch).map_err(|e| e.to_string())?;
            let info = st.execute().await.map_err(|e| e.to_string())?;
            let r = drain_info(client, info).await.map(|_| ());
            let _ = st.close().await;
            r
        }
        // FlightSqlFlightService::get_schema with a statement command
        "get_schema" => {
            let cmd = CommandStatementQuery { query: sql.to_string(), transaction_id: None };
            let d = FlightDescriptor::new_cmd(cmd.as_any().encode_to_vec());
            client.inner_mut().get_schema(d).await.map(|_| ()).map_err(|s| s.message().to_string())
        }
        // FlightSqlFlightService::poll_flight_info with a statement command
        "poll_flight_info" => {
            let cmd = CommandStatementQuery { query: sql.to_string(), transaction_id: None };
            let d = FlightDescriptor::new_cmd(cmd.as_any().encode_to_vec());
            client.inner_mut().poll_flight_info(d).await.map(|_| ()).map_err(|s| s.message().to_string())
        }
        // a transaction id attached to the statement (begin_transaction / end_transaction handlers)
        "execute_in_transaction" => {
            let tx = client.begin_transaction().await.map_err(|e| e.to_string())?;
            let r = match client.execute(sql.to_string(), Some(tx.clone())).await {
                Ok(info) => drain_info(client, info).await.map(|_| ()),
                Err(e) => Err(e.to_string()),
            };
            let _ = client.end_transaction(tx, arrow_flight::sql::EndTransaction::Commit).await;
            r
        }
        other => Err(format!("unknown grpc op {}", other)),
    }
}

/// The handlers that carry no statement text: catalogs, schemas and tables (with hostile filter
/// patterns), table types, sql info, type info, list_flights, list_actions, handshake, savepoints,
/// cancel, and the unsupported commands.  Returns a short status text; the oracle is evaluated by
/// the caller.
pub async fn grpc_metadata(client: &mut FlightSqlServiceClient<Channel>, pattern: &str) -> String {
    let mut out = Vec::new();
    let mut note = |name: &str, ok: bool| out.push(format!("{}={}", name, if ok { "ok" } else { "err" }));
    let r = match client.get_catalogs().await {
        Ok(i) => drain_info(client, i).await.is_ok(),
        Err(_) => false,
    };
    note("catalogs", r);
    let r = match client
        .get_db_schemas(CommandGetDbSchemas { catalog: Some(pattern.to_string()), db_schema_filter_pattern: Some(pattern.to_string()) })
        .await
    {
        Ok(i) => drain_info(client, i).await.is_ok(),
        Err(_) => false,
    };
    note("schemas", r);
    let r = match client
        .get_tables(CommandGetTables {
            catalog: None,
            db_schema_filter_pattern: Some(pattern.to_string()),
            table_name_filter_pattern: Some(pattern.to_string()),
            table_types: vec![pattern.to_string()],
            include_schema: true,
        })
        .await
    {
        Ok(i) => drain_info(client, i).await.is_ok(),
        Err(_) => false,
    };
    note("tables_filtered", r);
    let r = match client
        .get_tables(CommandGetTables { catalog: None, db_schema_filter_pattern: None, table_name_filter_pattern: None, table_types: vec![], include_schema: true })
        .await
    {
        Ok(i) => drain_info(client, i).await.is_ok(),
        Err(_) => false,
    };
    note("tables", r);
    let r = match client.get_table_types().await {
        Ok(i) => drain_info(client, i).await.is_ok(),
        Err(_) => false,
    };
    note("table_types", r);
    let r = match client.get_sql_info(vec![]).await {
        Ok(i) => drain_info(client, i).await.is_ok(),
        Err(_) => false,
    };
    note("sql_info", r);
    let r = match client.get_xdbc_type_info(arrow_flight::sql::CommandGetXdbcTypeInfo { data_type: None }).await {
        Ok(i) => drain_info(client, i).await.is_ok(),
        Err(_) => false,
    };
    note("xdbc_type_info", r);
    note("primary_keys", client.get_primary_keys(arrow_flight::sql::CommandGetPrimaryKeys { catalog: None, db_schema: None, table: pattern.to_string() }).await.is_ok());
    note("exported_keys", client.get_exported_keys(arrow_flight::sql::CommandGetExportedKeys { catalog: None, db_schema: None, table: pattern.to_string() }).await.is_ok());
    note("imported_keys", client.get_imported_keys(arrow_flight::sql::CommandGetImportedKeys { catalog: None, db_schema: None, table: pattern.to_string() }).await.is_ok());
    note(
        "cross_reference",
        client
            .get_cross_reference(arrow_flight::sql::CommandGetCrossReference {
                pk_catalog: None,
                pk_db_schema: None,
                pk_table: pattern.to_string(),
                fk_catalog: None,
                fk_db_schema: None,
                fk_table: pattern.to_string(),
            })
            .await
            .is_ok(),
    );
    note("handshake", client.handshake(pattern, pattern).await.is_ok());
    // list_flights / list_actions / do_exchange / raw actions on the plain Flight client
    let r = match client.inner_mut().list_flights(arrow_flight::Criteria { expression: pattern.as_bytes().to_vec().into() }).await {
        Ok(s) => s.into_inner().try_collect::<Vec<_>>().await.is_ok(),
        Err(_) => false,
    };
    note("list_flights", r);
    let r = match client.inner_mut().list_actions(arrow_flight::Empty {}).await {
        Ok(s) => s.into_inner().try_collect::<Vec<_>>().await.is_ok(),
        Err(_) => false,
    };
    note("list_actions", r);
    // savepoints / cancel / substrait through raw actions
    for (ty, body) in [
        ("BeginSavepoint", arrow_flight::sql::ActionBeginSavepointRequest { transaction_id: pattern.as_bytes().to_vec().into(), name: pattern.to_string() }.as_any().encode_to_vec()),
        ("EndSavepoint", arrow_flight::sql::ActionEndSavepointRequest { savepoint_id: pattern.as_bytes().to_vec().into(), action: 1 }.as_any().encode_to_vec()),
        ("CancelQuery", arrow_flight::sql::ActionCancelQueryRequest { info: pattern.as_bytes().to_vec().into() }.as_any().encode_to_vec()),
        ("CreatePreparedSubstraitPlan", arrow_flight::sql::ActionCreatePreparedSubstraitPlanRequest { plan: None, transaction_id: None }.as_any().encode_to_vec()),
        ("EndTransaction", arrow_flight::sql::ActionEndTransactionRequest { transaction_id: pattern.as_bytes().to_vec().into(), action: 1 }.as_any().encode_to_vec()),
        ("ClosePreparedStatement", arrow_flight::sql::ActionClosePreparedStatementRequest { prepared_statement_handle: pattern.as_bytes().to_vec().into() }.as_any().encode_to_vec()),
        ("NoSuchAction", pattern.as_bytes().to_vec()),
    ] {
        let r = match client.do_action(arrow_flight::Action { r#type: ty.to_string(), body: body.into() }).await {
            Ok(_) => true,
            Err(_) => false,
        };
        note(ty, r);
    }
    // commands the service does not support, through get_flight_info / do_put
    let sub = arrow_flight::sql::CommandStatementSubstraitPlan { plan: None, transaction_id: None };
    let r = client.inner_mut().get_flight_info(FlightDescriptor::new_cmd(sub.as_any().encode_to_vec())).await.is_ok();
    note("substrait_info", r);
    for (name, cmd) in [
        ("substrait_put", sub.as_any().encode_to_vec()),
        (
            "statement_ingest",
            arrow_flight::sql::CommandStatementIngest {
                table_definition_options: None,
                table: pattern.to_string(),
                schema: None,
                catalog: None,
                temporary: false,
                transaction_id: None,
                options: Default::default(),
            }
            .as_any()
            .encode_to_vec(),
        ),
        ("unknown_put", Any { type_url: "type.googleapis.com/x.Unknown".into(), value: pattern.as_bytes().to_vec().into() }.encode_to_vec()),
    ] {
        let fd = arrow_flight::FlightData { flight_descriptor: Some(FlightDescriptor::new_cmd(cmd)), ..Default::default() };
        let r = match client.do_put(futures::stream::iter(vec![fd])).await {
            Ok(mut s) => s.message().await.is_ok(),
            Err(_) => false,
        };
        note(name, r);
    }
    let fd = arrow_flight::FlightData { flight_descriptor: Some(FlightDescriptor::new_cmd(pattern.as_bytes().to_vec())), ..Default::default() };
    let r = client.inner_mut().do_exchange(futures::stream::iter(vec![fd])).await.is_ok();
    note("do_exchange", r);
    out.join(" ")
}

// --------------------------------------------------------------------- HTTP ----
pub struct HttpServer {
    pub addr: SocketAddr,
    task: tokio::task::JoinHandle<()>,
}

impl HttpServer {
    /// the router of `build_http_router` served on a free loopback port
    pub async fn start(ingester: Arc<cardinalsin::ingester::Ingester>, node: Arc<QueryNode>) -> Result<HttpServer, String> {
        let listener = tokio::net::TcpListener::bind("127.0.0.1:0").await.map_err(|e| e.to_string())?;
        let addr = listener.local_addr().map_err(|e| e.to_string())?;
        let router = cardinalsin::api::build_http_router(ingester, node);
        let task = tokio::spawn(async move {
            let _ = axum::serve(listener, router).await;
        });
        Ok(HttpServer { addr, task })
    }

    pub async fn stop(self) {
        self.task.abort();
        let _ = self.task.await;
    }

    pub fn url(&self, path: &str) -> String {
        format!("http://{}{}", self.addr, path)
    }
}

pub fn http_client() -> reqwest::Client {
    reqwest::Client::builder().no_proxy().pool_max_idle_per_host(0).build().expect("http client")
}

/// (status is success, body text)
pub async fn http_send(req: reqwest::RequestBuilder) -> Result<(bool, String), String> {
    let resp = req.send().await.map_err(|e| e.to_string())?;
    let ok = resp.status().is_success();
    let body = resp.text().await.unwrap_or_default();
    Ok((ok, body))
}

/// The websocket route: sends the request, reads until the server says "end" / "error" or closes.
/// Ok(()) = the query part was served; Err(message) = the server answered with an error message.
pub async fn ws_query(addr: SocketAddr, sql: &str, live: bool) -> Result<(), String> {
    let url = format!("ws://{}/api/v1/stream", addr);
    let (mut ws, _) = tokio_tungstenite::connect_async(url).await.map_err(|e| format!("ws connect: {}", e))?;
    let req = serde_json::json!({"query": sql, "live": live}).to_string();
    ws.send(tokio_tungstenite::tungstenite::Message::Text(req)).await.map_err(|e| e.to_string())?;
    let mut result = Ok(());
    loop {
        let msg = match tokio::time::timeout(std::time::Duration::from_secs(10), ws.next()).await {
            Ok(Some(Ok(m))) => m,
            _ => break,
        };
        if let tokio_tungstenite::tungstenite::Message::Text(t) = msg {
            if let Ok(v) = serde_json::from_str::<serde_json::Value>(&t) {
                match v["type"].as_str() {
                    Some("error") => {
                        result = Err(v["data"]["error"].as_str().unwrap_or("error").to_string());
                        break;
                    }
                    Some("end") => break,
                    _ => {}
                }
            }
        } else if msg.is_close() {
            break;
        }
    }
    let _ = ws.close(None).await;
    result
}
